(* C19 — proofs about model/Counter.v *)
From Coq Require Import ZArith List Bool Lia ZifyBool.
From M Require Import gen.Consts model.Counter.
Import ListNotations.
Open Scope Z_scope.

Local Notation MS := C19_MillisecondNs.
Lemma MS_pos : 0 < MS. Proof. reflexivity. Qed.

(* ------------------------------------------------------------------ sums *)

Lemma hsum_nil : hsum [] = 0. Proof. reflexivity. Qed.
Lemma hsum_cons e r : hsum (e :: r) = e_d e + hsum r. Proof. reflexivity. Qed.
Lemma hsum_app a b : hsum (a ++ b) = hsum a + hsum b.
Proof. induction a as [|x a IH]; cbn [app]; rewrite ?hsum_cons, ?hsum_nil; lia. Qed.

Ltac hs := repeat (rewrite ?hsum_app, ?hsum_cons, ?hsum_nil; cbn [flush e_d e_t e_l]).

Lemma pass_sum : forall from to dur trunc now h last,
  hsum (pass from to dur trunc now last h) = hsum (flush last) + hsum h.
Proof.
  intros from to dur trunc now. induction h as [|e r IH]; intros last; cbn [pass].
  - hs. lia.
  - destruct (negb (e_l e =? from) || (now - e_t e * MS <=? dur)).
    + hs. rewrite IH. hs. lia.
    + cbv zeta. destruct last as [l|].
      * destruct (e_t l =? truncate_ms (e_t e) trunc); hs; rewrite IH; hs; lia.
      * rewrite IH. hs. lia.
Qed.

Lemma do_roll_up_sum from to dur trunc now h : hsum (do_roll_up from to dur trunc now h) = hsum h.
Proof. unfold do_roll_up. rewrite pass_sum. hs. lia. Qed.

(* roll-up never changes the total: every history (any labels, any order, any deltas), every clock value *)
Theorem rollup_sum : forall now h, hsum (roll_up now h) = hsum h.
Proof. intros. unfold roll_up. cbv zeta. now rewrite !do_roll_up_sum. Qed.

(* ------------------------------------------------------------------ value = history sum = sum of increments *)

Lemma tick_consistent c : consistent c -> consistent (tick c).
Proof. exact (fun H => H). Qed.

Lemma roll_up_if_due_consistent now c : consistent c -> consistent (roll_up_if_due now c).
Proof.
  unfold roll_up_if_due, consistent. intros H. destruct (c_op c mod C19_RollUpInterval =? 0); [|exact H].
  cbn [c_value c_hist]. now rewrite rollup_sum.
Qed.

Lemma cadd_value c d t now : c_value (cadd c d t now) = c_value c + d.
Proof.
  unfold cadd. destruct (Z.eqb_spec d 0) as [->|_]; [cbn; lia|].
  unfold roll_up_if_due. cbn [c_op c_value c_hist tick].
  destruct (_ =? 0); cbn [c_value]; reflexivity.
Qed.

Lemma cadd_consistent c d t now : consistent c -> consistent (cadd c d t now).
Proof.
  intros H. unfold cadd. destruct (d =? 0); [exact H|].
  apply roll_up_if_due_consistent. unfold consistent in *. cbn [c_value c_hist tick].
  hs. lia.
Qed.

Lemma run_cons o ops c : run (o :: ops) c = run ops (step c o). Proof. reflexivity. Qed.

Theorem value_eq_history_sum : forall ops c, consistent c -> consistent (run ops c).
Proof.
  induction ops as [|o ops IH]; intros c H; [exact H|]. rewrite run_cons. apply IH.
  destruct o; cbn [step]; [apply cadd_consistent | apply tick_consistent]; exact H.
Qed.

Theorem value_eq_increments : forall ops c, c_value (run ops c) = c_value c + ops_sum ops.
Proof.
  induction ops as [|o ops IH]; intros c; [cbn; lia|]. rewrite run_cons, IH.
  destruct o; cbn [step ops_sum fold_right]; [rewrite cadd_value; fold (ops_sum ops); lia | cbn; fold (ops_sum ops); lia].
Qed.

(* dump / load: totals are monotone; a load into a counter that is not ahead of the dump is lossless *)
Lemma load_pb_value dst same v h now :
  c_value (load_pb dst same v h now) = if same then Z.max (c_value dst) v else c_value dst.
Proof.
  unfold load_pb. destruct same; cbn [negb]; [|reflexivity].
  cbn [c_value]. rewrite cadd_value. cbn [c_value tick]. lia.
Qed.

Theorem load_monotone : forall dst same v h now, c_value dst <= c_value (load_pb dst same v h now).
Proof. intros. rewrite load_pb_value. destruct same; lia. Qed.

Theorem load_lossless : forall dst v h now,
  v = hsum h -> c_value dst <= v ->
  let c := load_pb dst true v h now in c_value c = v /\ c_hist c = h /\ consistent c.
Proof.
  intros dst v h now Hv Hle c. subst c. unfold consistent. rewrite load_pb_value.
  unfold load_pb. cbn [negb c_hist]. repeat split; lia.
Qed.

Theorem dump_exact : forall c, snd (dump c) = (c_value c, c_hist c) /\ c_value (fst (dump c)) = c_value c /\ c_hist (fst (dump c)) = c_hist c.
Proof. intros. repeat split. Qed.

(* ------------------------------------------------------------------ windows *)

Lemma hsum_nonneg h : nonneg h -> 0 <= hsum h.
Proof. induction 1; hs; lia. Qed.

Lemma firstn_sum_le : forall h n, nonneg h -> 0 <= hsum (firstn n h) <= hsum h.
Proof.
  induction h as [|e r IH]; intros n H; destruct n; cbn [firstn]; hs; try lia.
  - pose proof (hsum_nonneg _ H) as HH. rewrite hsum_cons in HH. lia.
  - inversion H; subst. specialize (IH n H3). lia.
Qed.

Lemma skipn_nonneg : forall h n, nonneg h -> nonneg (skipn n h) /\ hsum (skipn n h) <= hsum h.
Proof.
  induction h as [|e r IH]; intros n H; destruct n; cbn [skipn]; try (split; [assumption|lia]).
  inversion H; subst. destruct (IH n H3). split; [assumption|]. hs. lia.
Qed.

Lemma sum_range_le h i j : nonneg h -> 0 <= sum_range h i j <= hsum h.
Proof.
  intros H. unfold sum_range. destruct (skipn_nonneg h (Z.to_nat i) H) as [H1 H2].
  pose proof (firstn_sum_le _ (Z.to_nat (j - i)) H1). lia.
Qed.

(* with non-negative deltas no window reports more than the total (sorted or not: it is a slice of the history) *)
Theorem window_le_total : forall h t1 t2, nonneg h -> 0 <= delta_between h t1 t2 <= hsum h.
Proof. intros. unfold delta_between. now apply sum_range_le. Qed.

(* ------------------------------------------------------------------ labels and granularities *)

Lemma rank_le4 l : rank l <= 4.
Proof. unfold rank. repeat (destruct (_ =? _)); lia. Qed.

Lemma rank_id a : 0 <= rank a -> rank a = a.
Proof.
  unfold rank, C19_LabelNoRollUp, C19_LabelSecond, C19_LabelMinute, C19_LabelHour, C19_LabelDay.
  destruct (Z.eqb_spec a 0), (Z.eqb_spec a 1), (Z.eqb_spec a 2), (Z.eqb_spec a 3), (Z.eqb_spec a 4); lia.
Qed.

Lemma rank_inj a b : rank a = rank b -> 0 <= rank a -> a = b.
Proof. intros E H. rewrite <- (rank_id a H), <- (rank_id b) by lia. exact E. Qed.

Lemma gran_divide a b : 1 <= a -> a <= b -> b <= 4 -> (gran_ns a | gran_ns b).
Proof.
  intros Ha Hab Hb.
  assert (Ea : a = 1 \/ a = 2 \/ a = 3 \/ a = 4) by lia.
  assert (Eb : b = 1 \/ b = 2 \/ b = 3 \/ b = 4) by lia.
  destruct Ea as [-> | [-> | [-> | ->]]], Eb as [-> | [-> | [-> | ->]]]; try lia;
    (apply Z.mod_divide; [discriminate | reflexivity]).
Qed.

Lemma gran_ms_divide r : (MS | gran_ns r).
Proof. unfold gran_ns. repeat (destruct (_ =? _)); (apply Z.mod_divide; [discriminate | reflexivity]). Qed.

(* ------------------------------------------------------------------ time.Truncate *)

Lemma truncate_le t d : truncate_ms t d <= t.
Proof.
  unfold truncate_ms. destruct (Z.leb_spec d 0); [lia|].
  pose proof MS_pos.
  assert (0 <= (t * MS + C19_UnixToInternalSec * C19_SecondNs) mod d) by (apply Z.mod_pos_bound; lia).
  apply Z.div_le_upper_bound; lia.
Qed.

(* what the order proof needs from Truncate at granularity G *)
Definition trunc_spec (G : Z) : Prop := forall t,
  (G | truncate_ms t G * MS) /\ (forall a, (G | a * MS) -> a <= t -> a <= truncate_ms t G).

Lemma trunc_spec_gen g : 0 < g -> (g * MS | C19_UnixToInternalSec * C19_SecondNs) -> trunc_spec (g * MS).
Proof.
  intros Hg [c Hc] t. pose proof MS_pos as HM.
  assert (E : truncate_ms t (g * MS) = t - t mod g).
  { unfold truncate_ms. destruct (Z.leb_spec (g * MS) 0) as [Hn|_]; [nia|].
    rewrite Hc, Z_mod_plus_full, Z.mul_mod_distr_r by lia.
    replace (t * MS - t mod g * MS) with ((t - t mod g) * MS) by ring.
    apply Z.div_mul. lia. }
  rewrite E. pose proof (Z.div_mod t g ltac:(lia)) as Hdm. pose proof (Z.mod_pos_bound t g Hg) as Hb.
  split.
  - exists (t / g). nia.
  - intros a Ha Hle. apply Z.mul_divide_cancel_r in Ha; [|lia]. destruct Ha as [q ->].
    assert (q <= t / g) by (apply Z.div_le_lower_bound; lia).
    nia.
Qed.

Lemma trunc_spec_gran r : 1 <= r <= 4 -> trunc_spec (gran_ns r).
Proof.
  intros Hr. assert (E : r = 1 \/ r = 2 \/ r = 3 \/ r = 4) by lia.
  destruct E as [-> | [-> | [-> | ->]]].
  - replace (gran_ns 1) with (C19_SecondNs / MS * MS) by reflexivity.
    apply trunc_spec_gen; [reflexivity | apply Z.mod_divide; [discriminate|reflexivity]].
  - replace (gran_ns 2) with (C19_MinuteNs / MS * MS) by reflexivity.
    apply trunc_spec_gen; [reflexivity | apply Z.mod_divide; [discriminate|reflexivity]].
  - replace (gran_ns 3) with (C19_HourNs / MS * MS) by reflexivity.
    apply trunc_spec_gen; [reflexivity | apply Z.mod_divide; [discriminate|reflexivity]].
  - replace (gran_ns 4) with (C19_DayNs / MS * MS) by reflexivity.
    apply trunc_spec_gen; [reflexivity | apply Z.mod_divide; [discriminate|reflexivity]].
Qed.

(* ------------------------------------------------------------------ one pass preserves the chain invariant *)

Section PassInv.
  Variables (from to dur trunc now k k' : Z).
  Hypothesis Hfrom : rank from = k.
  Hypothesis Hto : rank to = k'.
  Hypothesis Hk : 0 <= k.
  Hypothesis Hkk : k <= k' <= k + 1.
  Hypothesis Hk1 : 1 <= k' <= 4.
  Hypothesis Htr : trunc = gran_ns k'.

  (* state of the output so far when no merged entry is pending: the last emitted entry (time lo, rank rk) is
     coarse and aligned enough, or young (then so is everything after it), or finer than [from] *)
  Definition safe (lo rk : Z) : Prop :=
    (k' <= rk /\ (trunc | lo * MS)) \/ (now - lo * MS <= dur) \/ rk < k.

  Lemma pass_chain : forall h last lo_in rk_in lo_out rk_out,
    chain lo_in rk_in h ->
    match last with
    | None => lo_out = lo_in /\ rk_out = rk_in /\ safe lo_in rk_in
    | Some l => rk_in <= k /\ e_l l = to /\ (trunc | e_t l * MS) /\ e_t l <= lo_in /\ lo_out <= e_t l /\ k' <= rk_out
    end ->
    chain lo_out rk_out (pass from to dur trunc now last h).
  Proof.
    pose proof MS_pos as HM.
    assert (Hspec : trunc_spec trunc) by (rewrite Htr; apply trunc_spec_gran; lia).
    induction h as [|e r IH]; intros last lo_in rk_in lo_out rk_out Hc Hl.
    - cbn [pass]. destruct last as [l|]; cbn [flush chain]; [|exact I].
      destruct Hl as (H1 & H2 & H3 & H4 & H5 & H6).
      unfold aligned. rewrite H2, Hto, <- Htr. repeat split; try lia; assumption.
    - cbn [chain] in Hc. destruct Hc as (Hlo & Hrk & Hal & Hr).
      cbn [pass]. cbv zeta.
      destruct (negb (e_l e =? from) || (now - e_t e * MS <=? dur)) eqn:Hcond.
      + (* e is kept *)
        assert (Hsafe : safe (e_t e) (rank (e_l e))).
        { apply orb_true_iff in Hcond. destruct Hcond as [Hlab|Hy].
          - apply negb_true_iff, Z.eqb_neq in Hlab.
            assert (rank (e_l e) <> k).
            { intros E. apply Hlab. apply rank_inj; [rewrite E, Hfrom; reflexivity | lia]. }
            destruct (Z_lt_le_dec (rank (e_l e)) k) as [Hlt|Hge].
            + right. right. exact Hlt.
            + left. split; [lia|]. rewrite Htr.
              apply Z.divide_trans with (gran_ns (rank (e_l e))); [|exact Hal].
              apply gran_divide; [lia | lia | apply rank_le4].
          - right. left. apply Z.leb_le in Hy. exact Hy. }
        pose proof (IH None (e_t e) (rank (e_l e)) (e_t e) (rank (e_l e)) Hr (conj eq_refl (conj eq_refl Hsafe))) as IH'.
        destruct last as [l|]; cbn [flush app chain].
        * destruct Hl as (H1 & H2 & H3 & H4 & H5 & H6).
          unfold aligned at 1. rewrite H2, Hto, <- Htr.
          repeat split; try lia; assumption.
        * destruct Hl as (-> & -> & _). repeat split; try lia; assumption.
      + (* e is rolled up *)
        apply orb_false_iff in Hcond. destruct Hcond as [Hlab Hold].
        apply negb_false_iff, Z.eqb_eq in Hlab. apply Z.leb_gt in Hold.
        assert (Hrke : rank (e_l e) = k) by (rewrite Hlab; exact Hfrom).
        destruct (Hspec (e_t e)) as (Ht1 & Ht3). pose proof (truncate_le (e_t e) trunc) as Ht2.
        set (t := truncate_ms (e_t e) trunc) in *.
        destruct last as [l|].
        * destruct Hl as (H1 & H2 & H3 & H4 & H5 & H6).
          assert (Hlt : e_t l <= t) by (apply Ht3; [exact H3 | lia]).
          destruct (Z.eqb_spec (e_t l) t) as [Heq|Hne].
          -- apply (IH _ (e_t e) (rank (e_l e))); [exact Hr|]. cbn [e_l e_t].
             repeat split; try lia; assumption.
          -- cbn [chain]. unfold aligned. rewrite H2, Hto, <- Htr.
             repeat split; try lia; try assumption.
             apply (IH _ (e_t e) (rank (e_l e))); [exact Hr|]. cbn [e_l e_t].
             repeat split; try lia; assumption.
        * destruct Hl as (-> & -> & Hs).
          apply (IH _ (e_t e) (rank (e_l e))); [exact Hr|]. cbn [e_l e_t].
          assert (lo_in <= t /\ k' <= rk_in) as [Ha Hb].
          { destruct Hs as [[Hs1 Hs2]|[Hs|Hs]].
            - split; [apply Ht3; [exact Hs2 | lia] | exact Hs1].
            - exfalso. nia.
            - exfalso. lia. }
          repeat split; try lia; assumption.
  Qed.

  Lemma do_roll_up_chain lo h :
    (C19_DayNs | lo * MS) -> chain lo 4 h -> chain lo 4 (do_roll_up from to dur trunc now h).
  Proof.
    intros Hd Hc. unfold do_roll_up. apply (pass_chain h None lo 4 lo 4 Hc).
    repeat split. left. split; [lia|]. rewrite Htr.
    apply Z.divide_trans with (gran_ns 4); [apply gran_divide; lia | exact Hd].
  Qed.
End PassInv.

Lemma pass_bounded from to dur trunc now hi : forall h last,
  Forall (fun e => e_t e <= hi) h -> (match last with None => True | Some l => e_t l <= hi end) ->
  Forall (fun e => e_t e <= hi) (pass from to dur trunc now last h).
Proof.
  induction h as [|e r IH]; intros last Hh Hl; cbn [pass].
  - destruct last; cbn [flush]; auto.
  - inversion Hh as [|? ? He Hr]; subst. cbv zeta.
    pose proof (truncate_le (e_t e) trunc) as Ht.
    destruct (negb (e_l e =? from) || (now - e_t e * MS <=? dur)).
    + destruct last; cbn [flush app]; repeat constructor; auto.
    + destruct last as [l|].
      * destruct (e_t l =? truncate_ms (e_t e) trunc); [|constructor; [exact Hl|]]; apply IH; cbn [e_t]; auto; lia.
      * apply IH; cbn [e_t]; auto; lia.
Qed.

(* ------------------------------------------------------------------ the invariant of A.6 *)

Lemma chain_sorted : forall h lo rk, chain lo rk h -> sorted_from lo h.
Proof. induction h as [|e r IH]; intros lo rk H; cbn in *; [exact I|]. destruct H as (H1 & _ & _ & H4). split; [exact H1 | eapply IH; exact H4]. Qed.

Lemma wf_sorted hi h : wf_history hi h -> sorted h.
Proof.
  intros (lo & _ & _ & Hc & _). destruct h as [|e r]; [exact I|].
  cbn in Hc. destruct Hc as (_ & _ & _ & Hc). cbn. eapply chain_sorted; exact Hc.
Qed.

Lemma wf_nil hi : wf_history hi [].
Proof.
  destruct (trunc_spec_gran 4 ltac:(lia) hi) as [H1 _]. pose proof (truncate_le hi (gran_ns 4)).
  exists (truncate_ms hi (gran_ns 4)). repeat split; try assumption; try lia. constructor.
Qed.

Lemma wf_weaken hi hi' h : wf_history hi h -> hi <= hi' -> wf_history hi' h.
Proof.
  intros (lo & H1 & H2 & H3 & H4) Hle. exists lo. repeat split; try assumption; try lia.
  eapply Forall_impl; [|exact H4]. cbn. intros; lia.
Qed.

(* rollUp keeps the invariant, whatever the clock says *)
Theorem rollup_wf : forall now hi h, wf_history hi h -> wf_history hi (roll_up now h).
Proof.
  intros now hi h (lo & Hd & Hle & Hc & Hb). exists lo. split; [exact Hd|]. split; [exact Hle|].
  unfold roll_up. cbv zeta. split.
  - apply (do_roll_up_chain _ _ _ _ _ 4 4); try reflexivity; try lia; [exact Hd|].
    apply (do_roll_up_chain _ _ _ _ _ 3 4); try reflexivity; try lia; [exact Hd|].
    apply (do_roll_up_chain _ _ _ _ _ 3 3); try reflexivity; try lia; [exact Hd|].
    apply (do_roll_up_chain _ _ _ _ _ 2 3); try reflexivity; try lia; [exact Hd|].
    apply (do_roll_up_chain _ _ _ _ _ 2 2); try reflexivity; try lia; [exact Hd|].
    apply (do_roll_up_chain _ _ _ _ _ 1 2); try reflexivity; try lia; [exact Hd|].
    apply (do_roll_up_chain _ _ _ _ _ 1 1); try reflexivity; try lia; [exact Hd|].
    apply (do_roll_up_chain _ _ _ _ _ 0 1); try reflexivity; try lia; [exact Hd|].
    exact Hc.
  - unfold do_roll_up. repeat (apply pass_bounded; [|exact I]). exact Hb.
Qed.

(* a history with non-decreasing timestamps stays non-decreasing *)
Theorem rollup_sorted : forall now hi h, wf_history hi h -> sorted (roll_up now h).
Proof. intros. eapply wf_sorted, rollup_wf; eassumption. Qed.

Lemma chain_app_fresh : forall h lo rk hi t d,
  chain lo rk h -> Forall (fun e => e_t e <= hi) h -> lo <= hi -> hi <= t -> 0 <= rk ->
  chain lo rk (h ++ [mkE t d C19_LabelNoRollUp]).
Proof.
  induction h as [|e r IH]; intros lo rk hi t d Hc Hb Hlo Hhi Hrk; cbn [app chain].
  - unfold aligned. cbn [e_t e_l]. repeat split; try lia; try (cbn; lia).
    replace (gran_ns (rank C19_LabelNoRollUp)) with MS by reflexivity. exists t. reflexivity.
  - cbn [chain] in Hc. destruct Hc as (H1 & H2 & H3 & H4). inversion Hb; subst.
    repeat split; try lia; try assumption. eapply IH; eauto; lia.
Qed.

Lemma wf_app_fresh hi h t d : wf_history hi h -> hi <= t -> wf_history t (h ++ [mkE t d C19_LabelNoRollUp]).
Proof.
  intros (lo & H1 & H2 & H3 & H4) Hle. exists lo. repeat split; try assumption; try lia.
  - eapply chain_app_fresh; eauto; lia.
  - apply Forall_app. split; [eapply Forall_impl; [|exact H4]; cbn; intros; lia | repeat constructor; cbn; lia].
Qed.

Lemma cadd_wf c d t now hi :
  wf_history hi (c_hist c) -> hi <= unix_milli t -> wf_history (unix_milli t) (c_hist (cadd c d t now)).
Proof.
  intros H Hle. unfold cadd. destruct (d =? 0); [cbn [c_hist tick]; eapply wf_weaken; eauto|].
  unfold roll_up_if_due. cbn [c_op c_hist c_value tick].
  destruct (_ =? 0); cbn [c_hist]; [apply rollup_wf|]; apply wf_app_fresh with (hi := hi); assumption.
Qed.

(* every history of increments with non-decreasing timestamps, roll-ups falling at any operation count with
   any clock value, leaves a well-formed, hence time-ordered, history *)
Theorem history_wf : forall ops c hi,
  wf_history hi (c_hist c) -> mono_adds hi ops -> exists hi', wf_history hi' (c_hist (run ops c)).
Proof.
  induction ops as [|o ops IH]; intros c hi H Hm; [exists hi; exact H|].
  rewrite run_cons. destruct o as [d t n|]; cbn [mono_adds step] in *.
  - destruct Hm as [H1 H2]. eapply IH; [|exact H2]. apply cadd_wf with hi; assumption.
  - eapply IH; [|exact Hm]. exact H.
Qed.

Theorem history_sorted : forall ops op0 hi, mono_adds hi ops -> sorted (c_hist (run ops (mkC 0 [] op0))).
Proof.
  intros ops op0 hi Hm. destruct (history_wf ops (mkC 0 [] op0) hi (wf_nil hi) Hm) as [hi' H].
  eapply wf_sorted; exact H.
Qed.

(* without the invariant a single pass can disorder a time-ordered history: an unaligned coarse entry *)
Lemma rollup_sorted_needs_wf :
  exists now h, sorted h /\ ~ sorted (roll_up now h).
Proof.
  exists (100 * C19_SecondNs), [mkE 1500 1 C19_LabelMinute; mkE 1700 1 C19_LabelNoRollUp].
  split; [cbn; lia|].
  replace (roll_up _ _) with [mkE 1500 1 C19_LabelMinute; mkE 1000 1 C19_LabelSecond] by (vm_compute; reflexivity).
  cbn. lia.
Qed.

(* ------------------------------------------------------------------ non-vacuity *)

Definition ex_T : Z := 1257894000 * C19_SecondNs.           (* 2009-11-10 23:00:00 UTC *)
Definition ex_ops : list cop :=
  [OpAdd 5 ex_T ex_T; OpAdd 7 (ex_T + 300000) (ex_T + 300000); OpAdd 11 (ex_T + 1200 * MS) (ex_T + 1200 * MS);
   OpTick; OpAdd 13 (ex_T + 10 * C19_DayNs + 1200 * MS) (ex_T + 10 * C19_DayNs + 2 * C19_SecondNs)].

(* three increments inside 1.2 s, then one ten days later whose operation count (1000) triggers the roll-up: the
   hypotheses of history_sorted / value_eq_history_sum hold and the roll-up really merges *)
Example ex_history :
  mono_adds 0 ex_ops /\
  run ex_ops (mkC 0 [] 995) =
    mkC 36 [mkE 1257811200000 23 C19_LabelDay; mkE 1258758001200 13 C19_LabelNoRollUp] 1000 /\
  consistent (mkC 0 [] 995).
Proof. repeat split; vm_compute; try reflexivity; discriminate. Qed.

(* a well-formed history with all five labels on which rollUp is not the identity *)
Example ex_wf :
  let h := [mkE 1257811200000 23 C19_LabelDay; mkE 1258671600000 4 C19_LabelHour; mkE 1258757940000 2 C19_LabelMinute;
            mkE 1258758000000 1 C19_LabelMinute; mkE 1258758001000 9 C19_LabelSecond; mkE 1258758001200 13 C19_LabelNoRollUp] in
  wf_history 1258758001200 h /\ sorted h /\ roll_up (1258758301 * C19_SecondNs) h <> h /\
  hsum (roll_up (1258758301 * C19_SecondNs) h) = hsum h.
Proof.
  cbv zeta. split; [|split; [cbn; lia | split; [vm_compute; discriminate | apply rollup_sum]]].
  exists 0. split; [exists 0; reflexivity|]. split; [lia|]. split.
  - cbn [chain]. unfold aligned. cbn [e_t e_l].
    repeat split; try (vm_compute; discriminate); try (apply Z.mod_divide; [discriminate | reflexivity]).
  - repeat constructor; cbn; lia.
Qed.

Example ex_window :
  let h := [mkE 1000 5 C19_LabelSecond; mkE 2000 7 C19_LabelNoRollUp; mkE 2000 1 C19_LabelNoRollUp; mkE 3500 9 C19_LabelNoRollUp] in
  nonneg h /\ delta_between h (1000 * MS) (2000 * MS) = 8 /\ delta_between h (1000 * MS - 1) (3499 * MS) = 13 /\ hsum h = 22.
Proof. cbv zeta. split; [repeat constructor; cbn; lia | repeat split; vm_compute; reflexivity]. Qed.

Lemma rollup_sorted_wf : forall now hi h, wf_history hi h -> sorted (roll_up now h) /\ wf_history hi (roll_up now h).
Proof. intros now hi h H. split; [exact (rollup_sorted now hi h H) | exact (rollup_wf now hi h H)]. Qed.

(* the regenerated constants are the documented ones (DESIGN 7/C19: 2 s / 120 s / 120 min / 8 d, every 1000 operations;
   counter.go: "accurate hourly data for at least 7 days"); a changed constant breaks this obligation *)
Lemma consts_ok :
  C19_RollUpInterval = 1000 /\
  C19_RollUpToSecondNs = 2 * C19_SecondNs /\ C19_RollUpSecondToMinuteNs = 120 * C19_SecondNs /\
  C19_RollUpMinuteToHourNs = 120 * C19_MinuteNs /\ C19_RollUpHourToDayNs = 8 * C19_DayNs /\
  7 * C19_DayNs + C19_DayNs <= C19_RollUpHourToDayNs /\
  [C19_LabelNoRollUp; C19_LabelSecond; C19_LabelMinute; C19_LabelHour; C19_LabelDay] = [0; 1; 2; 3; 4] /\
  C19_QuotaBytesPerMegabyte = 2 ^ 20 /\ C19_QuotaHoursPerDay * C19_HourNs = C19_DayNs.
Proof. repeat split; vm_compute; try reflexivity; discriminate. Qed.

(* ------------------------------------------------------------------ DeltaBetween on a time-ordered history *)

(* sort.Search: when f is false below p and true from p on, the result is p *)
Lemma bsearch_spec : forall fuel f i j p,
  i <= p <= j -> (forall x, i <= x < p -> f x = false) -> (forall x, p <= x < j -> f x = true) ->
  j - i <= Z.of_nat fuel -> bsearch fuel f i j = p.
Proof.
  induction fuel as [|k IH]; intros f i j p Hp Hlo Hhi Hf; cbn [bsearch].
  - lia.
  - destruct (Z.ltb_spec i j) as [Hij|Hij]; [|lia].
    assert (Hm : i <= (i + j) / 2 < j).
    { split; [apply Z.div_le_lower_bound; lia | apply Z.div_lt_upper_bound; lia]. }
    destruct (f ((i + j) / 2)) eqn:Ef.
    + apply IH; try lia.
      * split; [lia|]. destruct (Z_lt_le_dec ((i + j) / 2) p) as [Hlt|]; [|lia].
        rewrite Hlo in Ef by lia. discriminate.
      * intros x Hx. apply Hlo. lia.
      * intros x Hx. apply Hhi. lia.
    + apply IH; try lia.
      * split; [|lia]. destruct (Z_lt_le_dec ((i + j) / 2) p) as [|Hge]; [lia|].
        rewrite Hhi in Ef by lia. discriminate.
      * intros x Hx. apply Hlo. lia.
      * intros x Hx. apply Hhi. lia.
Qed.

Lemma sorted_from_lower : forall h lo, sorted_from lo h -> Forall (fun e => lo <= e_t e) h.
Proof.
  induction h as [|e r IH]; intros lo H; [constructor|]. cbn in H. destruct H as [H1 H2].
  constructor; [exact H1|]. eapply Forall_impl; [|apply IH; exact H2]. cbn. intros; lia.
Qed.

Lemma sorted_from_weaken : forall h lo lo', sorted_from lo h -> lo' <= lo -> sorted_from lo' h.
Proof. destruct h as [|e r]; intros lo lo' H Hle; [exact I|]. cbn in *. split; [lia|tauto]. Qed.

(* a time-ordered history splits at any instant into the entries not after it and the entries after it *)
Lemma sorted_split : forall h lo t, sorted_from lo h ->
  exists a b, h = a ++ b /\ Forall (fun e => e_t e * MS <= t) a /\ Forall (fun e => t < e_t e * MS) b /\ sorted_from lo b.
Proof.
  induction h as [|e r IH]; intros lo t H.
  - exists [], []. repeat split; constructor.
  - cbn in H. destruct H as [H1 H2]. destruct (Z_le_gt_dec (e_t e * MS) t) as [Hle|Hgt].
    + destruct (IH (e_t e) t H2) as (a & b & E & Ha & Hb & Hs). exists (e :: a), b.
      split; [cbn; now rewrite E|]. split; [constructor; assumption|]. split; [exact Hb|].
      apply sorted_from_weaken with (e_t e); assumption.
    + exists [], (e :: r). pose proof MS_pos. split; [reflexivity|]. split; [constructor|]. split; [|cbn; tauto].
      constructor; [lia|]. eapply Forall_impl; [|apply sorted_from_lower; exact H2]. cbn. intros; nia.
Qed.

Lemma search_after_split a b t :
  Forall (fun e => e_t e * MS <= t) a -> Forall (fun e => t < e_t e * MS) b ->
  search_after (a ++ b) t = Z.of_nat (length a).
Proof.
  intros Ha Hb. unfold search_after. apply bsearch_spec.
  - rewrite app_length. lia.
  - intros x Hx. unfold after_at. rewrite nth_error_app1 by lia.
    destruct (nth_error a (Z.to_nat x)) eqn:En; [|apply nth_error_None in En; lia].
    apply nth_error_In in En. rewrite Forall_forall in Ha. specialize (Ha _ En). apply Z.ltb_ge. exact Ha.
  - intros x Hx. rewrite app_length in Hx. unfold after_at. rewrite nth_error_app2 by lia.
    destruct (nth_error b (Z.to_nat x - length a)) eqn:En; [|reflexivity].
    apply nth_error_In in En. rewrite Forall_forall in Hb. specialize (Hb _ En). apply Z.ltb_lt. exact Hb.
  - lia.
Qed.

Lemma skipn_length_app {A} (a b : list A) : skipn (length a) (a ++ b) = b.
Proof. induction a; cbn; auto. Qed.
Lemma firstn_length_app {A} (a b : list A) : firstn (length a) (a ++ b) = a.
Proof. induction a; cbn; [now destruct b | now f_equal]. Qed.

Lemma filter_none {A} (f : A -> bool) l : Forall (fun x => f x = false) l -> filter f l = [].
Proof. induction 1 as [|x l Hx _ IH]; cbn; [reflexivity | now rewrite Hx]. Qed.
Lemma filter_all {A} (f : A -> bool) l : Forall (fun x => f x = true) l -> filter f l = l.
Proof. induction 1 as [|x l Hx _ IH]; cbn; [reflexivity | now rewrite Hx, IH]. Qed.

Lemma window_is_range_sum_from : forall h lo t1 t2, sorted_from lo h -> t1 <= t2 ->
  delta_between h t1 t2 = hsum (filter (in_window t1 t2) h).
Proof.
  intros h lo t1 t2 Hs Ht.
  destruct (sorted_split h lo t1 Hs) as (a & b1 & E1 & Ha & Hb1 & Hs1).
  destruct (sorted_split b1 lo t2 Hs1) as (c & b & E2 & Hc & Hb & _).
  subst b1. subst h.
  assert (Hc1 : Forall (fun e => t1 < e_t e * MS) c) by (apply Forall_app in Hb1; tauto).
  unfold delta_between.
  rewrite (search_after_split a (c ++ b) t1 Ha Hb1).
  rewrite app_assoc.
  rewrite (search_after_split (a ++ c) b t2).
  2:{ apply Forall_app. split; [eapply Forall_impl; [|exact Ha]; cbn; intros; lia | exact Hc]. }
  2:{ exact Hb. }
  unfold sum_range. rewrite app_length.
  replace (Z.to_nat (Z.of_nat (length a + length c) - Z.of_nat (length a))) with (length c) by lia.
  rewrite Nat2Z.id, <- app_assoc, skipn_length_app, firstn_length_app.
  rewrite !filter_app.
  rewrite (filter_none _ a), (filter_all _ c), (filter_none _ b); [now rewrite app_nil_r| | |].
  - eapply Forall_impl; [|exact Hb]. cbn. intros e He. unfold in_window.
    apply andb_false_iff. right. apply Z.leb_gt. exact He.
  - rewrite Forall_forall in Hc, Hc1. apply Forall_forall. intros e He. unfold in_window.
    apply andb_true_iff. split; [apply Z.ltb_lt, Hc1, He | apply Z.leb_le, Hc, He].
  - eapply Forall_impl; [|exact Ha]. cbn. intros e He. unfold in_window.
    apply andb_false_iff. left. apply Z.ltb_ge. exact He.
Qed.

(* on a history ordered in time, DeltaBetween(t1, t2) is the sum of the deltas of the entries with t1 < ts <= t2 *)
Theorem window_is_range_sum : forall h t1 t2, sorted h -> t1 <= t2 ->
  delta_between h t1 t2 = hsum (filter (in_window t1 t2) h).
Proof.
  intros h t1 t2 Hs Ht. destruct h as [|e r].
  - reflexivity.
  - apply window_is_range_sum_from with (e_t e); [|exact Ht]. cbn. split; [lia | exact Hs].
Qed.

(* the binary searches need the order: on an unordered history the window can miss entries *)
Lemma window_unsorted_differs :
  exists h t1 t2, t1 <= t2 /\ delta_between h t1 t2 <> hsum (filter (in_window t1 t2) h).
Proof.
  exists [mkE 5000 1 C19_LabelNoRollUp; mkE 1000 2 C19_LabelNoRollUp; mkE 1000 4 C19_LabelNoRollUp], (2000 * MS), (6000 * MS).
  split; vm_compute; discriminate.
Qed.

Example ex_window_range :
  let h := [mkE 1000 5 C19_LabelSecond; mkE 2000 7 C19_LabelNoRollUp; mkE 2000 1 C19_LabelNoRollUp; mkE 3500 9 C19_LabelNoRollUp] in
  sorted h /\ filter (in_window (1000 * MS) (2000 * MS)) h = [mkE 2000 7 C19_LabelNoRollUp; mkE 2000 1 C19_LabelNoRollUp].
Proof. cbv zeta. split; [cbn; lia | vm_compute; reflexivity]. Qed.
