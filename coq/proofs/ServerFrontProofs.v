(* Proofs about model/ServerFront.v (C05, and the end-to-end half of C06).
   Everything cryptographic is a Section hypothesis; after End Section the lemmas are closed
   statements quantified over all ciphers / caches that satisfy the hypotheses. *)
From Coq Require Import ZArith NArith List Bool Lia.
From M Require Import gen.Consts model.ServerFront.
Import ListNotations.
Open Scope Z_scope.

(* ---------- generic list / byte facts ---------- *)

Lemma take_some (n : nat) (l a b : bytes) :
  take n l = Some (a, b) -> a = firstn n l /\ b = skipn n l /\ (n <= length l)%nat.
Proof.
  unfold take. destruct (Nat.ltb (length l) n) eqn:E; [discriminate|].
  intros H; inversion H; subst. apply Nat.ltb_ge in E. auto.
Qed.

Lemma take_none (n : nat) (l : bytes) : take n l = None <-> (length l < n)%nat.
Proof.
  unfold take. destruct (Nat.ltb (length l) n) eqn:E.
  - apply Nat.ltb_lt in E. tauto.
  - apply Nat.ltb_ge in E. split; [discriminate|lia].
Qed.

Lemma addr_eqb_eq (a b : addr) : addr_eqb a b = true <-> a = b.
Proof.
  revert b; induction a as [|x a IH]; destruct b as [|y b]; simpl; try (split; congruence).
  rewrite andb_true_iff, N.eqb_eq, IH. split; [intros [-> ->]; reflexivity | intros H; inversion H; auto].
Qed.

Lemma hdr_len_72 : hdr_len = 72%nat.
Proof. reflexivity. Qed.
Lemma sig_len_16 : sig_len = 16%nat.
Proof. reflexivity. Qed.

(* flipping a bit changes the string and keeps its length *)
Lemma flip_byte_neq (bit : nat) (b : N) : flip_byte bit b <> b.
Proof.
  unfold flip_byte. set (x := N.shiftl 1 (N.of_nat bit)). intros H.
  assert (E : N.lxor b (N.lxor b x) = x) by (rewrite <- N.lxor_assoc, N.lxor_nilpotent; apply N.lxor_0_l).
  rewrite H, N.lxor_nilpotent in E. subst x.
  rewrite N.shiftl_1_l in E. symmetry in E. apply N.pow_nonzero in E; [exact E | discriminate].
Qed.

Lemma flip_bit_length (l : bytes) : forall i, length (flip_bit i l) = length l.
Proof.
  induction l as [|b l IH]; intros i; simpl; [reflexivity|].
  destruct (Nat.ltb i 8); simpl; [reflexivity | rewrite IH; reflexivity].
Qed.

Lemma flip_bit_neq (l : bytes) : forall i, (i < 8 * length l)%nat -> flip_bit i l <> l.
Proof.
  induction l as [|b l IH]; intros i Hi; simpl in *; [lia|].
  destruct (Nat.ltb i 8) eqn:E.
  - intros H. inversion H as [H1]. exact (flip_byte_neq i b H1).
  - apply Nat.ltb_ge in E. intros H. inversion H as [H1]. apply (IH (i - 8)%nat); [lia | exact H1].
Qed.

Opaque hdr_len sig_len meta_len.

Section FrontProofs.
  Variable key : Type.
  Variable user_of : key -> N.
  Variable open_hdr : key -> bytes -> option bytes.
  Variable open_body_tcp : key -> bytes -> bytes -> option bytes.
  Variable open_body_udp : key -> bytes -> bytes -> option bytes.
  Variable le_ok : bytes -> bool.
  Variable le_decode : bytes -> bytes -> option bytes.
  Variable cands : bytes -> addr -> list key.
  Variable sig_of : bytes -> N.
  Variable rcache : Type.
  Variable rc_dup : rcache -> N -> addr -> Z -> bool * rcache.

  (* the keys of the registered users, and the 72-byte headers that holders of those keys have produced *)
  Variable keys : list key.
  Variable produced : bytes -> Prop.

  (* discovery only ever tries registered keys *)
  Hypothesis cands_registered : forall h src k, In k (cands h src) -> In k keys.
  (* INT-CTXT: a header that no holder of a registered key produced opens under no registered key *)
  Hypothesis open_forged_none : forall h, ~ produced h -> forall k, In k keys -> open_hdr k h = None.

  Notation tcpF := (tcp_front key open_hdr open_body_tcp le_ok le_decode cands sig_of rcache rc_dup).
  Notation udpF := (udp_front key user_of open_hdr open_body_udp le_ok le_decode cands sig_of rcache rc_dup).
  Notation udpCore := (udp_core key user_of open_hdr open_body_udp le_ok le_decode cands).
  Notation udpAuth := (udp_authenticated key user_of open_body_udp le_ok le_decode).
  Notation udpStep := (udp_step key user_of open_hdr open_body_udp le_ok le_decode cands sig_of rcache rc_dup).
  Notation udpRun := (udp_run key user_of open_hdr open_body_udp le_ok le_decode cands sig_of rcache rc_dup).
  Notation rcFinal := (rc_final rcache rc_dup).
  Notation evOps := (events_ops sig_of).
  Notation evOp := (event_ops sig_of).

  (* "no registered key opens this header" *)
  Definition no_key_opens (h : bytes) : Prop := forall k, In k keys -> open_hdr k h = None.

  Lemma forged_no_key_opens (h : bytes) : ~ produced h -> no_key_opens h.
  Proof. intros H k Hk. exact (open_forged_none h H k Hk). Qed.

  Lemma first_open_none (ks : list key) (h : bytes) :
    (forall k, In k ks -> open_hdr k h = None) -> first_open key open_hdr ks h = None.
  Proof.
    induction ks as [|k ks IH]; intros H; simpl; [reflexivity|].
    rewrite (H k (or_introl eq_refl)). apply IH. intros k' Hk'. apply H. right; exact Hk'.
  Qed.

  Lemma first_open_some (ks : list key) (h : bytes) (k : key) (m : bytes) :
    first_open key open_hdr ks h = Some (k, m) -> In k ks /\ open_hdr k h = Some m.
  Proof.
    induction ks as [|k0 ks IH]; simpl; [discriminate|].
    destruct (open_hdr k0 h) eqn:E.
    - intros H; inversion H; subst. split; [left; reflexivity | exact E].
    - intros H. destruct (IH H) as [A B]. split; [right; exact A | exact B].
  Qed.

  Lemma discover_none (h : bytes) (src : addr) :
    no_key_opens h -> first_open key open_hdr (cands h src) h = None.
  Proof. intros H. apply first_open_none. intros k Hk. apply H. exact (cands_registered h src k Hk). Qed.

  (* ===================== TCP ===================== *)

  Definition tcp_silent (r : tcp_result key) : Prop :=
    t_out r = [] /\ t_created r = [] /\ t_app r = [] /\ t_recv r = None /\
    send_cipher key (t_recv r) = None.

  (* the step never writes, whatever happens (a created session answers later, through its own send cipher) *)
  Lemma tcp_front_never_writes rc src input now : t_out (fst (tcpF rc src input now)) = [].
  Proof.
    unfold tcp_front. destruct (take hdr_len input) as [[hdr rest]|]; [|reflexivity].
    destruct (rc_dup rc _ [] now) as [dup rc'].
    destruct (first_open _ _ _ _) as [[k m]|]; [|reflexivity].
    destruct dup; [reflexivity|].
    destruct (parse_meta le_ok now m) as [p sid plen slen|p sid un pre plen slen|]; [| |reflexivity].
    - destruct (tcp_read_session _ _ _ _ _ _ _); [reflexivity|].
      destruct (negb _); [reflexivity|]. destruct (sid =? 0); reflexivity.
    - destruct (tcp_read_data _ _ _ _ _ _ _ _ _ _ _); reflexivity.
  Qed.

  (* a send cipher exists only if a receive cipher was authenticated: some candidate key opened the header *)
  Lemma tcp_recv_authenticated rc src input now k :
    t_recv (fst (tcpF rc src input now)) = Some k ->
    In k keys /\ exists m, open_hdr k (firstn hdr_len input) = Some m.
  Proof.
    unfold tcp_front. destruct (take hdr_len input) as [[hdr rest]|] eqn:T; [|discriminate].
    apply take_some in T. destruct T as [-> [-> _]].
    destruct (rc_dup rc _ [] now) as [dup rc'].
    destruct (first_open _ _ _ _) as [[k0 m]|] eqn:F; [|simpl; destruct dup; discriminate].
    apply first_open_some in F. destruct F as [F1 F2].
    assert (G : forall r : tcp_result key * rcache, t_recv (fst r) = Some k0 -> t_recv (fst r) = Some k ->
               In k keys /\ exists m, open_hdr k (firstn hdr_len input) = Some m).
    { intros r A B. rewrite A in B. inversion B; subst. split; [eapply cands_registered; eauto | eauto]. }
    destruct dup; [apply G; reflexivity|].
    destruct (parse_meta le_ok now m) as [p sid plen slen|p sid un pre plen slen|]; [| |apply G; reflexivity].
    - destruct (tcp_read_session _ _ _ _ _ _ _); [apply G; reflexivity|].
      destruct (negb _); [apply G; reflexivity|]. destruct (sid =? 0); apply G; reflexivity.
    - destruct (tcp_read_data _ _ _ _ _ _ _ _ _ _ _); apply G; reflexivity.
  Qed.

  (* fewer than 72 bytes: ReadFull blocks and fails; nothing happens; the replay cache is not touched *)
  Lemma tcp_short_blocks rc src input now :
    (length input < hdr_len)%nat ->
    tcpF rc src input now = (tcp_fail key None V_blocked, rc).
  Proof. intros H. unfold tcp_front. apply take_none in H. rewrite H. reflexivity. Qed.

  (* no registered key opens the first 72 bytes: silent, no session, nothing to Accept, no cipher *)
  Lemma tcp_no_key_silent rc src input now :
    no_key_opens (firstn hdr_len input) ->
    let r := fst (tcpF rc src input now) in
    tcp_silent r /\ (t_verdict r = V_blocked \/ t_verdict r = V_crypto \/ t_verdict r = V_replay).
  Proof.
    intros H. unfold tcp_front. destruct (take hdr_len input) as [[hdr rest]|] eqn:T.
    - apply take_some in T. destruct T as [-> [-> _]].
      destruct (rc_dup rc _ [] now) as [dup rc'].
      rewrite (discover_none _ src H). simpl. unfold tcp_silent; simpl.
      destruct dup; auto 10.
    - simpl. unfold tcp_silent; simpl. auto 10.
  Qed.

  Lemma c05_silent_tcp rc src input now :
    ~ produced (firstn hdr_len input) ->
    let r := fst (tcpF rc src input now) in
    tcp_silent r /\ (t_verdict r = V_blocked \/ t_verdict r = V_crypto \/ t_verdict r = V_replay).
  Proof. intros H. apply tcp_no_key_silent. apply forged_no_key_opens. exact H. Qed.

  (* corollary 1: every strict prefix of the 72-byte header (in particular of a genuine first segment) *)
  Lemma c05_prefix_tcp rc src (genuine : bytes) (n : nat) now :
    (n < hdr_len)%nat ->
    let r := tcpF rc src (firstn n genuine) now in
    tcp_silent (fst r) /\ t_verdict (fst r) = V_blocked /\ snd r = rc.
  Proof.
    intros Hn. rewrite tcp_short_blocks.
    - unfold tcp_silent; simpl. auto 10.
    - rewrite firstn_length. lia.
  Qed.

  (* corollary 2: a genuine header with one bit flipped (nonce, ciphertext or tag), followed by anything.
     The flipped string differs from the genuine one; if it is not itself a header some credential holder
     produced, it is forged. *)
  Lemma c05_bitflip_tcp rc src (hdr rest : bytes) (i : nat) now :
    length hdr = hdr_len -> (i < 8 * hdr_len)%nat ->
    ~ produced (flip_bit i hdr) ->
    let r := fst (tcpF rc src (flip_bit i hdr ++ rest) now) in
    flip_bit i hdr <> hdr /\ tcp_silent r /\ (t_verdict r = V_crypto \/ t_verdict r = V_replay).
  Proof.
    intros HL Hi HP.
    assert (E : firstn hdr_len (flip_bit i hdr ++ rest) = flip_bit i hdr).
    { rewrite <- HL. rewrite <- (flip_bit_length hdr i). rewrite firstn_app, Nat.sub_diag, firstn_all. simpl. apply app_nil_r. }
    split; [apply flip_bit_neq; rewrite HL; exact Hi|].
    assert (NK : no_key_opens (firstn hdr_len (flip_bit i hdr ++ rest))) by (rewrite E; apply forged_no_key_opens; exact HP).
    unfold tcp_front.
    destruct (take hdr_len (flip_bit i hdr ++ rest)) as [[h r0]|] eqn:T.
    - apply take_some in T. destruct T as [-> [-> _]].
      destruct (rc_dup rc _ [] now) as [dup rc'].
      rewrite (discover_none _ src NK). simpl. unfold tcp_silent; simpl. destruct dup; auto 10.
    - apply take_none in T. rewrite app_length, flip_bit_length, HL in T. lia.
  Qed.

  (* when the genuine header is the only one credential holders ever produced, every flip is forged *)
  Lemma flip_not_produced (hdr : bytes) (i : nat) :
    (forall x, produced x -> x = hdr) -> (i < 8 * length hdr)%nat -> ~ produced (flip_bit i hdr).
  Proof. intros U Hi P. apply (flip_bit_neq hdr i Hi). exact (U _ P). Qed.

  (* a session is created only by an authenticated, never-seen openSessionRequest with a non-zero id *)
  Lemma tcp_created_inv rc src input now :
    t_created (fst (tcpF rc src input now)) <> [] ->
    exists hdr rest k m p sid plen slen,
      take hdr_len input = Some (hdr, rest) /\
      fst (rc_dup rc (sig_of (firstn sig_len hdr)) [] now) = false /\
      In k keys /\ open_hdr k hdr = Some m /\
      parse_meta le_ok now m = M_session p sid plen slen /\
      p = C05_ProtoOpenSessionRequest /\ sid <> 0 /\
      t_verdict (fst (tcpF rc src input now)) = V_session.
  Proof.
    unfold tcp_front. destruct (take hdr_len input) as [[hdr rest]|] eqn:T; [|simpl; congruence].
    destruct (rc_dup rc _ [] now) as [dup rc'] eqn:D.
    destruct (first_open _ _ _ _) as [[k m]|] eqn:F; [|simpl; destruct dup; simpl; congruence].
    apply first_open_some in F. destruct F as [F1 F2].
    destruct dup; [simpl; congruence|].
    destruct (parse_meta le_ok now m) as [p sid plen slen|p sid un pre plen slen|] eqn:PM; [| |simpl; congruence].
    - destruct (tcp_read_session _ _ _ _ _ _ _); [simpl; congruence|].
      destruct (p =? C05_ProtoOpenSessionRequest) eqn:EP; simpl; [|congruence].
      destruct (sid =? 0) eqn:ES; simpl; [congruence|]. intros _.
      exists hdr, rest, k, m, p, sid, plen, slen. simpl.
      split; [auto|]. split; [try rewrite D; reflexivity|]. split; [eapply cands_registered; eauto|].
      split; [exact F2|]. split; [auto|]. split; [apply Z.eqb_eq; exact EP|].
      split; [apply Z.eqb_neq; exact ES | reflexivity].
    - destruct (tcp_read_data _ _ _ _ _ _ _ _ _ _ _); simpl; congruence.
  Qed.

  (* ===================== UDP ===================== *)

  Definition sess_ok (ss : list (usession key)) : Prop := forall s, In s ss -> In (us_key s) keys.

  Definition udp_silent (r : udp_result key) : Prop := u_out r = [] /\ u_created r = [] /\ u_delivered r = [].

  Lemma try_existing_none (ss : list (usession key)) (h : bytes) (src : addr) :
    sess_ok ss -> no_key_opens h -> try_existing key open_hdr ss h src = None.
  Proof.
    intros OK H. induction ss as [|s ss IH]; simpl; [reflexivity|].
    assert (OK' : sess_ok ss) by (intros x Hx; apply OK; right; exact Hx).
    destruct (addr_eqb (us_addr s) src); [|apply IH; exact OK'].
    rewrite (H (us_key s) (OK s (or_introl eq_refl))). apply IH; exact OK'.
  Qed.

  Lemma try_existing_some (ss : list (usession key)) (h : bytes) (src : addr) k m :
    try_existing key open_hdr ss h src = Some (k, m) ->
    exists s, In s ss /\ us_key s = k /\ us_addr s = src /\ open_hdr k h = Some m.
  Proof.
    induction ss as [|s ss IH]; simpl; [discriminate|].
    destruct (addr_eqb (us_addr s) src) eqn:A.
    - destruct (open_hdr (us_key s) h) eqn:O.
      + intros H; inversion H; subst. exists s. apply addr_eqb_eq in A. auto.
      + intros H. destruct (IH H) as [s' [I R]]. exists s'. split; [right; exact I | exact R].
    - intros H. destruct (IH H) as [s' [I R]]. exists s'. split; [right; exact I | exact R].
  Qed.

  (* a flagged datagram is dropped whether or not it decrypts *)
  Lemma udp_core_dup ss d src now :
    let r := udpCore ss true d src now in
    udp_silent (fst r) /\ snd r = ss /\
    (u_verdict (fst r) = V_replay_drop \/ u_verdict (fst r) = V_undecryptable).
  Proof.
    unfold udp_core, udp_silent.
    destruct (try_existing _ _ _ _ _) as [[k m]|]; [simpl; auto 10|].
    destruct (first_open _ _ _ _) as [[k m]|]; simpl; auto 10.
  Qed.

  (* no registered key opens the header: dropped, for either answer of the cache; sessions untouched *)
  Lemma udp_core_no_key ss dup d src now :
    sess_ok ss -> no_key_opens (firstn hdr_len d) ->
    udpCore ss dup d src now = (udp_drop key V_undecryptable, ss).
  Proof.
    intros OK H. unfold udp_core.
    rewrite (try_existing_none ss _ src OK H). rewrite (discover_none _ src H). reflexivity.
  Qed.

  Lemma udp_authenticated_sess_ok ss k fresh m hdr rest src now :
    sess_ok ss -> In k keys -> sess_ok (snd (udpAuth ss k fresh m hdr rest src now)).
  Proof.
    intros OK Hk. unfold udp_authenticated.
    destruct (parse_meta le_ok now m) as [p sid plen slen|p sid un pre plen slen|]; [| |exact OK].
    - destruct (udp_parse_session _ _ _ _ _ _ _); [|exact OK].
      destruct (fresh && negb (direction_ok p)); [exact OK|].
      destruct (fresh && (p =? C05_ProtoOpenSessionRequest) && (sid =? 0)); [exact OK|].
      destruct (p =? C05_ProtoOpenSessionRequest).
      + destruct (sid =? 0); [exact OK|]. destruct (find_session _ _ _); [exact OK|]. simpl.
        intros s Hs. apply in_app_or in Hs. destruct Hs as [Hs|[<-|[]]]; [apply OK; exact Hs | exact Hk].
      + destruct (p =? C05_ProtoOpenSessionResponse); [exact OK|].
        destruct (find_session _ _ _) as [s|]; [|exact OK]. destruct (owns _ _ _ _); exact OK.
    - destruct (udp_parse_data _ _ _ _ _ _ _ _ _ _ _ _); [|exact OK].
      destruct (fresh && negb (direction_ok p)); [exact OK|].
      destruct (find_session _ _ _) as [s|]; [|exact OK]. destruct (owns _ _ _ _); exact OK.
  Qed.

  Lemma udp_core_sess_ok ss dup d src now : sess_ok ss -> sess_ok (snd (udpCore ss dup d src now)).
  Proof.
    intros OK. unfold udp_core.
    destruct (try_existing _ _ _ _ _) as [[k m]|] eqn:T.
    - destruct dup; [exact OK|]. apply try_existing_some in T. destruct T as [s [I [K _]]].
      apply udp_authenticated_sess_ok; [exact OK | rewrite <- K; apply OK; exact I].
    - destruct (first_open _ _ _ _) as [[k m]|] eqn:F; [|exact OK].
      destruct dup; [exact OK|]. apply first_open_some in F. destruct F as [F1 _].
      apply udp_authenticated_sess_ok; [exact OK | eapply cands_registered; eauto].
  Qed.

  Lemma udp_front_sessions (st : ustate key rcache) d src now :
    u_sessions (snd (udpF st d src now)) =
      if Nat.ltb (length d) hdr_len then u_sessions st
      else snd (udpCore (u_sessions st) (fst (rc_dup (u_rc st) (sig_of (firstn sig_len (firstn hdr_len d))) src now)) d src now).
  Proof.
    unfold udp_front. destruct (Nat.ltb (length d) hdr_len); [reflexivity|].
    destruct (rc_dup _ _ _ _) as [dup rc']. simpl. destruct (udp_core _ _ _ _ _ _ _ _ _ _ _ _) as [r ss']. reflexivity.
  Qed.

  Lemma udp_front_result (st : ustate key rcache) d src now :
    fst (udpF st d src now) =
      if Nat.ltb (length d) hdr_len then udp_drop key V_short
      else fst (udpCore (u_sessions st) (fst (rc_dup (u_rc st) (sig_of (firstn sig_len (firstn hdr_len d))) src now)) d src now).
  Proof.
    unfold udp_front. destruct (Nat.ltb (length d) hdr_len); [reflexivity|].
    destruct (rc_dup _ _ _ _) as [dup rc']. simpl. destruct (udp_core _ _ _ _ _ _ _ _ _ _ _ _) as [r ss']. reflexivity.
  Qed.

  Lemma udp_front_cache (st : ustate key rcache) d src now :
    u_rc (snd (udpF st d src now)) = rcFinal (u_rc st) (evOp (Dgram d src now)).
  Proof.
    unfold udp_front, event_ops. destruct (Nat.ltb (length d) hdr_len); [reflexivity|].
    simpl. unfold rc_step. simpl.
    destruct (rc_dup _ _ _ _) as [dup rc']. simpl. destruct (udp_core _ _ _ _ _ _ _ _ _ _ _ _) as [r ss']. reflexivity.
  Qed.

  Lemma udp_step_sess_ok st e : sess_ok (u_sessions st) -> sess_ok (u_sessions (snd (udpStep st e))).
  Proof.
    intros OK. destruct e as [d src now|ids]; simpl.
    - rewrite udp_front_sessions. destruct (Nat.ltb (length d) hdr_len); [exact OK|]. apply udp_core_sess_ok; exact OK.
    - intros s Hs. unfold remove_sessions in Hs. apply filter_In in Hs. apply OK. tauto.
  Qed.

  (* one datagram that no registered key opens (any length, any source - even the address of a genuine client):
     no reply, no session, nothing delivered, session table unchanged *)
  Lemma udp_no_key_silent (st : ustate key rcache) d src now :
    sess_ok (u_sessions st) -> no_key_opens (firstn hdr_len d) ->
    let r := udpF st d src now in
    udp_silent (fst r) /\ u_sessions (snd r) = u_sessions st /\
    (u_verdict (fst r) = V_short \/ u_verdict (fst r) = V_undecryptable).
  Proof.
    intros OK H. cbv zeta. rewrite udp_front_result, udp_front_sessions.
    destruct (Nat.ltb (length d) hdr_len); [unfold udp_silent; simpl; auto 10|].
    rewrite udp_core_no_key by assumption. unfold udp_silent; simpl. auto 10.
  Qed.

  Lemma udp_short_dropped (st : ustate key rcache) d src now :
    (length d < hdr_len)%nat -> udpF st d src now = (udp_drop key V_short, st).
  Proof. intros H. unfold udp_front. apply Nat.ltb_lt in H. rewrite H. reflexivity. Qed.

  (* ---- histories ---- *)

  (* a prober's event: a datagram whose header (if it has one) opens under no registered key *)
  Definition probe_ok (e : event) : Prop :=
    match e with
    | Dgram d src now => no_key_opens (firstn hdr_len d)
    | Clean _ => False
    end.

  Lemma rc_final_app (c : rcache) (h1 h2 : list rc_op) : rcFinal c (h1 ++ h2) = rcFinal (rcFinal c h1) h2.
  Proof. revert c; induction h1 as [|o h1 IH]; intros c; simpl; [reflexivity | apply IH]. Qed.

  Lemma udp_step_cache st e : u_rc (snd (udpStep st e)) = rcFinal (u_rc st) (evOp e).
  Proof. destruct e as [d src now|ids]; simpl; [apply udp_front_cache | reflexivity]. Qed.

  Lemma udp_run_cache evs : forall st, u_rc (snd (udpRun st evs)) = rcFinal (u_rc st) (evOps evs).
  Proof.
    induction evs as [|e evs IH]; intros st; simpl; [reflexivity|].
    destruct (udpStep st e) as [r st1] eqn:S. destruct (udpRun st1 evs) as [rs st2] eqn:R. simpl.
    rewrite rc_final_app. rewrite <- (udp_step_cache st e), S. simpl.
    specialize (IH st1). rewrite R in IH. exact IH.
  Qed.

  (* C05, UDP: in every history - probes from any source addresses interleaved arbitrarily with any other
     traffic - each probe draws no reply, creates no session and delivers nothing *)
  Lemma c05_silent_udp_run (probe : event -> bool) evs : forall st,
    sess_ok (u_sessions st) ->
    (forall e, In e evs -> probe e = true -> probe_ok e) ->
    forall e r, In (e, r) (fst (udpRun st evs)) -> probe e = true ->
      udp_silent r /\ (u_verdict r = V_short \/ u_verdict r = V_undecryptable).
  Proof.
    induction evs as [|e0 evs IH]; intros st OK HP e r Hin Hp; simpl in Hin; [contradiction|].
    destruct (udpStep st e0) as [r0 st1] eqn:S. destruct (udpRun st1 evs) as [rs st2] eqn:R. simpl in Hin.
    destruct Hin as [Heq|Hin].
    - inversion Heq; subst e0 r0.
      assert (PK := HP e (or_introl eq_refl) Hp). destruct e as [d src now|ids]; [|contradiction].
      simpl in S. pose proof (udp_no_key_silent st d src now OK PK) as Q. cbv zeta in Q. rewrite S in Q. simpl in Q. tauto.
    - apply (IH st1) with (e := e); auto.
      + pose proof (udp_step_sess_ok st e0 OK) as Q. rewrite S in Q. exact Q.
      + intros e' He'. apply HP. right; exact He'.
      + rewrite R. exact Hin.
  Qed.

  (* the same with the prober characterised by INT-CTXT: its headers were not produced by a credential holder *)
  Definition probe_forged (e : event) : Prop :=
    match e with
    | Dgram d src now => ~ produced (firstn hdr_len d)
    | Clean _ => False
    end.

  Lemma probe_forged_ok e : probe_forged e -> probe_ok e.
  Proof. destruct e as [d src now|ids]; simpl; [apply forged_no_key_opens | auto]. Qed.

  Lemma c05_silent_udp (probe : event -> bool) evs st :
    sess_ok (u_sessions st) ->
    (forall e, In e evs -> probe e = true -> probe_forged e) ->
    forall e r, In (e, r) (fst (udpRun st evs)) -> probe e = true ->
      udp_silent r /\ (u_verdict r = V_short \/ u_verdict r = V_undecryptable).
  Proof.
    intros OK HP. apply c05_silent_udp_run; [exact OK|].
    intros e I P. apply probe_forged_ok. apply HP; assumption.
  Qed.

  (* ---- non-interference ---- *)
  Variable rc0 : rcache.    (* the cache as constructed at process start *)
  (* no false positive (proofs/ReplayProofs.v replay_no_false_positive) *)
  Hypothesis rc_nfp : forall h s t now, fst (rc_dup (rcFinal rc0 h) s t now) = true ->
    exists t' now', In (s, t', now') h /\ (t' = [] \/ t = [] \/ t' <> t).

  (* every signature of a non-probe datagram is only ever presented from that datagram's own (non-empty)
     source address, in the whole history [h] *)
  Definition owned (probe : event -> bool) (h : list rc_op) (evs : list event) : Prop :=
    forall e o o', In e evs -> probe e = false -> In o (evOp e) -> In o' h ->
      fst (fst o') = fst (fst o) -> snd (fst o') = snd (fst o) /\ snd (fst o) <> [].

  Lemma owned_not_dup probe h evs d src now :
    owned probe h evs -> In (Dgram d src now) evs -> probe (Dgram d src now) = false ->
    forall h', incl h' h -> Nat.ltb (length d) hdr_len = false ->
    fst (rc_dup (rcFinal rc0 h') (sig_of (firstn sig_len (firstn hdr_len d))) src now) = false.
  Proof.
    intros OW Hin Hp h' Hincl HL.
    destruct (fst (rc_dup _ _ _ _)) eqn:D; [|reflexivity]. exfalso.
    apply rc_nfp in D. destruct D as [t' [now' [I C]]].
    assert (O : In (sig_of (firstn sig_len (firstn hdr_len d)), src, now) (evOp (Dgram d src now))).
    { unfold event_ops. rewrite HL. left; reflexivity. }
    destruct (OW _ _ _ Hin Hp O (Hincl _ I) eq_refl) as [A B]. simpl in A, B.
    destruct C as [C|[C|C]]; congruence.
  Qed.

  Definition genuine_of (probe : event -> bool) (e : event) : bool := negb (probe e).

  Lemma udp_run_cons_fst st e evs :
    fst (udpRun st (e :: evs)) = (e, fst (udpStep st e)) :: fst (udpRun (snd (udpStep st e)) evs).
  Proof. cbn [udp_run]. destruct (udpStep st e) as [r st1]. cbn [fst snd]. destruct (udpRun st1 evs) as [rs st2]. reflexivity. Qed.

  Lemma udp_run_cons_snd st e evs :
    snd (udpRun st (e :: evs)) = snd (udpRun (snd (udpStep st e)) evs).
  Proof. cbn [udp_run]. destruct (udpStep st e) as [r st1]. cbn [fst snd]. destruct (udpRun st1 evs) as [rs st2]. reflexivity. Qed.

  Lemma ustate_eta (st : ustate key rcache) : st = mkU key rcache (u_rc st) (u_sessions st).
  Proof. destruct st; reflexivity. Qed.

  Lemma udp_step_probe st e :
    sess_ok (u_sessions st) -> probe_ok e ->
    snd (udpStep st e) = mkU key rcache (rcFinal (u_rc st) (evOp e)) (u_sessions st).
  Proof.
    intros OK PK. destruct e as [d src now|ids]; [|contradiction].
    rewrite (ustate_eta (snd (udpStep st (Dgram d src now)))). f_equal.
    - apply udp_step_cache.
    - simpl. apply (udp_no_key_silent st d src now OK PK).
  Qed.

  (* a step whose cache answer is "not a duplicate" in two states with the same session table *)
  Lemma udp_step_same (cA cB : rcache) ss e :
    (forall d src now, e = Dgram d src now -> Nat.ltb (length d) hdr_len = false ->
       fst (rc_dup cA (sig_of (firstn sig_len (firstn hdr_len d))) src now) = false /\
       fst (rc_dup cB (sig_of (firstn sig_len (firstn hdr_len d))) src now) = false) ->
    fst (udpStep (mkU key rcache cA ss) e) = fst (udpStep (mkU key rcache cB ss) e) /\
    u_sessions (snd (udpStep (mkU key rcache cA ss) e)) = u_sessions (snd (udpStep (mkU key rcache cB ss) e)).
  Proof.
    intros H. destruct e as [d src now|ids]; [|simpl; auto].
    simpl udp_step. rewrite !udp_front_result, !udp_front_sessions. simpl u_rc. simpl u_sessions.
    destruct (Nat.ltb (length d) hdr_len) eqn:HL; [auto|].
    destruct (H d src now eq_refl HL) as [A B]. rewrite A, B. auto.
  Qed.

  (* Non-interference: the results of the non-probe events and the final session table are the same
     with and without the probes. *)
  Lemma c05_noninterference_gen (probe : event -> bool) evs : forall hA hB ss,
    sess_ok ss -> incl hB hA ->
    (forall e, In e evs -> probe e = true -> probe_ok e) ->
    owned probe (hA ++ evOps evs) evs ->
    filter (fun er => genuine_of probe (fst er)) (fst (udpRun (mkU key rcache (rcFinal rc0 hA) ss) evs))
      = fst (udpRun (mkU key rcache (rcFinal rc0 hB) ss) (filter (genuine_of probe) evs)) /\
    u_sessions (snd (udpRun (mkU key rcache (rcFinal rc0 hA) ss) evs))
      = u_sessions (snd (udpRun (mkU key rcache (rcFinal rc0 hB) ss) (filter (genuine_of probe) evs))).
  Proof.
    induction evs as [|e evs IH]; intros hA hB ss OK Hincl HP OW; [simpl; auto|].
    assert (OWtail : owned probe ((hA ++ evOp e) ++ evOps evs) evs).
    { intros e1 o o' I1 P1 I2 I3 E. rewrite <- app_assoc in I3.
      apply (OW e1 o o'); auto. right; exact I1. }
    assert (HPtail : forall e', In e' evs -> probe e' = true -> probe_ok e') by (intros e' I; apply HP; right; exact I).
    rewrite udp_run_cons_fst, udp_run_cons_snd.
    cbn [filter fst].
    assert (Ge : genuine_of probe e = negb (probe e)) by reflexivity.
    rewrite Ge. destruct (probe e) eqn:Pe; cbn [negb].
    - (* a probe: skipped in the second run; it changes nothing but the cache *)
      assert (PK := HP e (or_introl eq_refl) Pe).
      rewrite (udp_step_probe (mkU key rcache (rcFinal rc0 hA) ss) e OK PK). cbn [u_rc u_sessions]. rewrite <- rc_final_app.
      apply IH; auto.
      intros x Hx. apply in_or_app. left. apply Hincl. exact Hx.
    - (* not a probe: both runs take the same step *)
      rewrite udp_run_cons_fst, udp_run_cons_snd.
      assert (ND : forall d src now, e = Dgram d src now -> Nat.ltb (length d) hdr_len = false ->
         fst (rc_dup (rcFinal rc0 hA) (sig_of (firstn sig_len (firstn hdr_len d))) src now) = false /\
         fst (rc_dup (rcFinal rc0 hB) (sig_of (firstn sig_len (firstn hdr_len d))) src now) = false).
      { intros d src now -> HL. split.
        - apply (owned_not_dup probe _ _ d src now OW (or_introl eq_refl) Pe hA); [|exact HL].
          intros x Hx. apply in_or_app. left; exact Hx.
        - apply (owned_not_dup probe _ _ d src now OW (or_introl eq_refl) Pe hB); [|exact HL].
          intros x Hx. apply in_or_app. left; apply Hincl; exact Hx. }
      destruct (udp_step_same (rcFinal rc0 hA) (rcFinal rc0 hB) ss e ND) as [ER ES].
      rewrite (ustate_eta (snd (udpStep (mkU key rcache (rcFinal rc0 hA) ss) e))).
      rewrite (ustate_eta (snd (udpStep (mkU key rcache (rcFinal rc0 hB) ss) e))).
      rewrite !udp_step_cache. cbn [u_rc]. rewrite <- !rc_final_app. rewrite <- ES, <- ER.
      assert (OK1 : sess_ok (u_sessions (snd (udpStep (mkU key rcache (rcFinal rc0 hA) ss) e)))).
      { apply udp_step_sess_ok. exact OK. }
      destruct (IH (hA ++ evOp e) (hB ++ evOp e) _ OK1) as [G1 G2]; auto.
      { intros x Hx. apply in_app_or in Hx. apply in_or_app. destruct Hx; [left; apply Hincl; assumption | right; assumption]. }
      rewrite G1, G2. auto.
  Qed.

  Lemma c05_noninterference (probe : event -> bool) evs h0 ss :
    sess_ok ss ->
    (forall e, In e evs -> probe e = true -> probe_ok e) ->
    owned probe (h0 ++ evOps evs) evs ->
    let st := mkU key rcache (rcFinal rc0 h0) ss in
    filter (fun er => genuine_of probe (fst er)) (fst (udpRun st evs)) = fst (udpRun st (filter (genuine_of probe) evs)) /\
    u_sessions (snd (udpRun st evs)) = u_sessions (snd (udpRun st (filter (genuine_of probe) evs))).
  Proof. intros OK HP OW. apply c05_noninterference_gen; auto. apply incl_refl. Qed.

  Lemma c05_noninterference_udp (probe : event -> bool) evs h0 ss :
    sess_ok ss ->
    (forall e, In e evs -> probe e = true -> probe_forged e) ->
    owned probe (h0 ++ evOps evs) evs ->
    let st := mkU key rcache (rcFinal rc0 h0) ss in
    filter (fun er => genuine_of probe (fst er)) (fst (udpRun st evs)) = fst (udpRun st (filter (genuine_of probe) evs)) /\
    u_sessions (snd (udpRun st evs)) = u_sessions (snd (udpRun st (filter (genuine_of probe) evs))).
  Proof.
    intros OK HP OW. apply c05_noninterference; auto.
    intros e I P. apply probe_forged_ok. apply HP; assumption.
  Qed.

  (* ===================== C06: replays ===================== *)

  (* "within the bounds of the cache": abstract side condition of the no-miss property
     (for model/Replay.v: non-decreasing times from t0, t1 < t0 + interval, fewer than capacity other
     distinct signatures in between) *)
  Variable rc_within : Z -> N -> list rc_op -> addr -> Z -> Prop.
  (* no miss within bounds (proofs/ReplayProofs.v replay_no_miss with tag_rule_true) *)
  Hypothesis rc_no_miss : forall h1 x ta t0 h2 tq t1,
    fst (rc_dup (rcFinal rc0 h1) x ta t0) = false ->
    rc_within t0 x h2 tq t1 ->
    (ta = [] \/ tq = [] \/ ta <> tq) ->
    fst (rc_dup (rcFinal rc0 (h1 ++ (x, ta, t0) :: h2)) x tq t1) = true.

  (* TCP: a flagged first read is refused whether or not it decrypts - for ANY cipher functions and candidate
     lists in force at the time of the replay (keys may have rotated, users may have changed) *)
  Lemma tcp_dup_rejected (key' : Type) oh ob lo ld (cd : bytes -> addr -> list key') rc src input now hdr rest :
    take hdr_len input = Some (hdr, rest) ->
    fst (rc_dup rc (sig_of (firstn sig_len hdr)) [] now) = true ->
    let r := fst (tcp_front key' oh ob lo ld cd sig_of rcache rc_dup rc src input now) in
    t_out r = [] /\ t_created r = [] /\ t_app r = [] /\ t_verdict r = V_replay.
  Proof.
    intros T D. unfold tcp_front. rewrite T.
    destruct (rc_dup rc _ [] now) as [dup rc']. simpl in D. subst dup.
    destruct (first_open _ _ _ _) as [[k m]|]; simpl; auto.
  Qed.

  Lemma c06_replay_rejected_tcp
        (key' : Type) oh ob lo ld (cd : bytes -> addr -> list key')
        (h1 : list rc_op) (src0 : addr) (input0 : bytes) (t0 : Z)
        (h2 : list rc_op) (src1 : addr) (input1 : bytes) (t1 : Z) :
    (* the original connection was accepted at t0: its first segment created a session *)
    t_created (fst (tcpF (rcFinal rc0 h1) src0 input0 t0)) <> [] ->
    (* the copy starts with the same 72 bytes (the whole stream, any prefix containing them, the first segment alone) *)
    firstn hdr_len input1 = firstn hdr_len input0 ->
    let x := sig_of (firstn sig_len (firstn hdr_len input0)) in
    rc_within t0 x h2 [] t1 ->
    let r := fst (tcp_front key' oh ob lo ld cd sig_of rcache rc_dup
                            (rcFinal rc0 (h1 ++ (x, [], t0) :: h2)) src1 input1 t1) in
    t_out r = [] /\ t_created r = [] /\ t_app r = [] /\ t_verdict r = V_replay.
  Proof.
    intros ACC SAME x W.
    apply tcp_created_inv in ACC.
    destruct ACC as [hdr [rest [k [m [p [sid [plen [slen [T [D _]]]]]]]]]].
    apply take_some in T. destruct T as [Eh [_ L0]].
    assert (T1 : take hdr_len input1 = Some (firstn hdr_len input1, skipn hdr_len input1)).
    { unfold take. assert (L : (hdr_len <= length input1)%nat).
      { assert (E : length (firstn hdr_len input1) = length (firstn hdr_len input0)) by (rewrite SAME; reflexivity).
        rewrite !firstn_length in E. lia. }
      apply Nat.ltb_ge in L. rewrite L. reflexivity. }
    apply (tcp_dup_rejected key' oh ob lo ld cd _ src1 input1 t1 _ _ T1).
    rewrite SAME. subst hdr. fold x. fold x in D.
    apply rc_no_miss; auto.
  Qed.

  Lemma udp_accept_inv (st : ustate key rcache) d src now :
    (let r := fst (udpF st d src now) in u_created r <> [] \/ u_delivered r <> [] \/ u_out r <> []) ->
    Nat.ltb (length d) hdr_len = false /\
    fst (rc_dup (u_rc st) (sig_of (firstn sig_len (firstn hdr_len d))) src now) = false.
  Proof.
    cbv zeta. rewrite udp_front_result.
    destruct (Nat.ltb (length d) hdr_len); [simpl; intros [H|[H|H]]; congruence|].
    destruct (fst (rc_dup _ _ _ _)); [|auto].
    pose proof (udp_core_dup (u_sessions st) d src now) as Q. cbv zeta in Q. destruct Q as [[A [B C]] _].
    rewrite A, B, C. intros [H|[H|H]]; congruence.
  Qed.

  (* UDP: the same datagram from a different source address, against ANY session table and any ciphers *)
  Lemma c06_replay_rejected_udp
        (key' : Type) uo oh ob lo ld (cd : bytes -> addr -> list key')
        (h1 : list rc_op) (ss0 : list (usession key)) (d : bytes) (srcA : addr) (t0 : Z)
        (h2 : list rc_op) (ss1 : list (usession key')) (srcB : addr) (t1 : Z) :
    (* the original was accepted at t0: it created a session, reached a session, or drew a close request *)
    (let r0 := fst (udpF (mkU key rcache (rcFinal rc0 h1) ss0) d srcA t0) in
     u_created r0 <> [] \/ u_delivered r0 <> [] \/ u_out r0 <> []) ->
    srcB <> srcA ->
    let x := sig_of (firstn sig_len (firstn hdr_len d)) in
    rc_within t0 x h2 srcB t1 ->
    let st1 := mkU key' rcache (rcFinal rc0 (h1 ++ (x, srcA, t0) :: h2)) ss1 in
    let r := udp_front key' uo oh ob lo ld cd sig_of rcache rc_dup st1 d srcB t1 in
    u_out (fst r) = [] /\ u_created (fst r) = [] /\ u_delivered (fst r) = [] /\
    u_sessions (snd r) = ss1 /\
    (u_verdict (fst r) = V_replay_drop \/ u_verdict (fst r) = V_undecryptable).
  Proof.
    intros ACC NE x W.
    apply udp_accept_inv in ACC. simpl in ACC. destruct ACC as [L D]. fold x in D.
    assert (DUP : fst (rc_dup (rcFinal rc0 (h1 ++ (x, srcA, t0) :: h2)) x srcB t1) = true).
    { apply rc_no_miss; auto. }
    cbv zeta. unfold udp_front. rewrite L. simpl u_rc. fold x.
    destruct (rc_dup (rcFinal rc0 (h1 ++ (x, srcA, t0) :: h2)) x srcB t1) as [dup rc']. simpl in DUP. subst dup.
    simpl u_sessions.
    unfold udp_core.
    destruct (try_existing _ _ _ _ _) as [[k m]|]; [simpl; auto 10|].
    destruct (first_open _ _ _ _) as [[k m]|]; simpl; auto 10.
  Qed.

End FrontProofs.

Transparent hdr_len sig_len meta_len.

(* ===================== a toy instance: the hypotheses are satisfiable and the model is not silent by
   construction (Examples for non-vacuity) ===================== *)
Module Toy.
  Definition tkey := N.
  Definition tkeys : list tkey := [1%N; 2%N].
  Definition sumb (l : bytes) : N := N.modulo (fold_left N.add l 0%N) 256.
  (* header = nonce(24) || metadata(32) || [key+100; checksum of the 56 bytes] || 14 zero bytes *)
  Definition mk_hdr (k : tkey) (nonce m : bytes) : bytes :=
    nonce ++ m ++ [N.add k 100; sumb (nonce ++ m)] ++ repeat 0%N 14.
  Definition topen (k : tkey) (h : bytes) : option bytes :=
    if Nat.eqb (length h) 72 && N.eqb (nth 56 h 0%N) (N.add k 100) && N.eqb (nth 57 h 0%N) (sumb (firstn 56 h))
       && forallb (N.eqb 0) (skipn 58 h)
    then Some (firstn 32 (skipn 24 h)) else None.
  Definition tbody (k : tkey) (h box : bytes) : option bytes :=
    if Nat.ltb (length box) 16 then None else Some (firstn (length box - 16) box).
  Definition tcands (h : bytes) (src : addr) : list tkey := tkeys.
  Definition tsig (b : bytes) : N := fold_left (fun a x => N.add (N.mul a 256) x) b 0%N.
  Definition tproduced (h : bytes) : Prop := exists k, In k tkeys /\ topen k h <> None.

  (* a remember-everything cache: the first tag of a signature is kept (the tag rule of IsDuplicate) *)
  Definition tcache := list (N * addr).
  Fixpoint tlookup (s : N) (c : tcache) : option addr :=
    match c with [] => None | (k, v) :: c' => if N.eqb k s then Some v else tlookup s c' end.
  Definition trule (e t : addr) : bool :=
    match e, t with [], _ => true | _, [] => true | _, _ => negb (addr_eqb e t) end.
  Definition tdup (c : tcache) (s : N) (t : addr) (now : Z) : bool * tcache :=
    match tlookup s c with Some e => (trule e t, c) | None => (false, (s, t) :: c) end.

  Lemma toy_cands_registered : forall h src k, In k (tcands h src) -> In k tkeys.
  Proof. intros h src k H; exact H. Qed.
  Lemma toy_open_forged_none : forall h, ~ tproduced h -> forall k, In k tkeys -> topen k h = None.
  Proof.
    intros h NP k Hk. destruct (topen k h) eqn:E; [|reflexivity].
    exfalso. apply NP. exists k. split; [exact Hk | rewrite E; discriminate].
  Qed.

  Lemma trule_true e t : trule e t = true <-> (e = [] \/ t = [] \/ e <> t).
  Proof.
    destruct e as [|a e]; [simpl; tauto|]. destruct t as [|b t]; [simpl; split; auto|].
    unfold trule. rewrite negb_true_iff. split.
    - intros H. right; right. intros E. apply addr_eqb_eq in E. congruence.
    - intros [H|[H|H]]; try discriminate. destruct (addr_eqb (a :: e) (b :: t)) eqn:E; [|reflexivity].
      apply addr_eqb_eq in E. contradiction.
  Qed.

  Notation tfinal := (rc_final tcache tdup).

  Lemma tdup_fst c s t now : fst (tdup c s t now) = match tlookup s c with Some e => trule e t | None => false end.
  Proof. unfold tdup. destruct (tlookup s c); reflexivity. Qed.
  Lemma tdup_snd c s t now : snd (tdup c s t now) = match tlookup s c with Some e => c | None => (s, t) :: c end.
  Proof. unfold tdup. destruct (tlookup s c); reflexivity. Qed.

  Lemma tfinal_lookup_in h : forall c s e,
    tlookup s (tfinal c h) = Some e -> tlookup s c = Some e \/ exists now, In (s, e, now) h.
  Proof.
    induction h as [|[[s0 t0] n0] h IH]; intros c s e H; [left; exact H|].
    cbn [rc_final] in H. unfold rc_step in H. cbn [fst snd] in H. rewrite tdup_snd in H.
    destruct (tlookup s0 c) eqn:L.
    - destruct (IH _ _ _ H) as [A|[now A]]; [left; exact A | right; exists now; right; exact A].
    - destruct (IH _ _ _ H) as [A|[now A]]; [|right; exists now; right; exact A].
      cbn [tlookup] in A. destruct (N.eqb s0 s) eqn:E; [|left; exact A].
      apply N.eqb_eq in E. subst s0. inversion A; subst. right. exists n0. left; reflexivity.
  Qed.

  Lemma toy_nfp : forall h s t now, fst (tdup (tfinal [] h) s t now) = true ->
    exists t' now', In (s, t', now') h /\ (t' = [] \/ t = [] \/ t' <> t).
  Proof.
    intros h s t now H. rewrite tdup_fst in H. destruct (tlookup s (tfinal [] h)) eqn:L; [|discriminate].
    apply tfinal_lookup_in in L. destruct L as [L|[n L]]; [discriminate|].
    exists a, n. split; [exact L | apply trule_true; exact H].
  Qed.

  Lemma tfinal_lookup_keep h : forall c s e, tlookup s c = Some e -> tlookup s (tfinal c h) = Some e.
  Proof.
    induction h as [|[[s0 t0] n0] h IH]; intros c s e H; [exact H|].
    cbn [rc_final]. apply IH. unfold rc_step. cbn [fst snd]. rewrite tdup_snd.
    destruct (tlookup s0 c) eqn:L; [exact H|].
    cbn [tlookup]. destruct (N.eqb s0 s) eqn:E; [|exact H]. apply N.eqb_eq in E. subst. congruence.
  Qed.

  Lemma toy_no_miss : forall h1 x ta t0 h2 tq t1,
    fst (tdup (tfinal [] h1) x ta t0) = false -> True ->
    (ta = [] \/ tq = [] \/ ta <> tq) ->
    fst (tdup (tfinal [] (h1 ++ (x, ta, t0) :: h2)) x tq t1) = true.
  Proof.
    intros h1 x ta t0 h2 tq t1 H _ C. rewrite tdup_fst in H. rewrite tdup_fst.
    rewrite rc_final_app. cbn [rc_final]. unfold rc_step at 1. cbn [fst snd]. rewrite tdup_snd.
    destruct (tlookup x (tfinal [] h1)) as [e|] eqn:L1.
    - (* the first presentation was let through because e = ta (same non-empty tag); the entry is still e *)
      rewrite (tfinal_lookup_keep h2 _ x e L1). apply trule_true.
      assert (E : e = ta /\ e <> []).
      { destruct e as [|a e]; [simpl in H; discriminate|]. destruct ta as [|b ta]; [simpl in H; discriminate|].
        unfold trule in H. apply negb_false_iff in H. apply addr_eqb_eq in H. split; [exact H | discriminate]. }
      destruct E as [-> NE]. exact C.
    - rewrite (tfinal_lookup_keep h2 _ x ta); [apply trule_true; exact C|].
      cbn [tlookup]. rewrite N.eqb_refl. reflexivity.
  Qed.

  (* concrete traffic: now = 2009-11-10 23:00:00 UTC, minute 20964900 = 0x013FE624 *)
  Definition now0 : Z := 1257894000 * 1000000000.
  Definition ts0 : bytes := [1; 63; 230; 36]%N.
  (* openSessionRequest, session id 7, payload 3 bytes, no padding *)
  Definition meta_open : bytes := [2; 0]%N ++ ts0 ++ [0; 0; 0; 7; 0; 0; 0; 0; 0; 0; 3; 0]%N ++ repeat 0%N 14.
  (* dataClientToServer for session 9 (unknown), no payload *)
  Definition meta_data : bytes := [6; 0]%N ++ ts0 ++ [0; 0; 0; 9; 0; 0; 0; 5; 0; 0; 0; 4; 1; 0; 0; 0; 0; 0; 0]%N ++ repeat 0%N 7.
  Definition nonce1 : bytes := map N.of_nat (seq 1 24).
  Definition nonce2 : bytes := map N.of_nat (seq 101 24).
  Definition hdr_open : bytes := mk_hdr 1%N nonce1 meta_open.
  Definition first_segment : bytes := hdr_open ++ [65; 66; 67]%N ++ repeat 9%N 16.   (* payload box: 3 + 16 *)
  Definition dgram_data : bytes := mk_hdr 1%N nonce2 meta_data.
  Definition A : addr := [49; 48]%N.
  Definition B : addr := [54; 54]%N.

  Notation ttcp := (tcp_front tkey topen tbody (fun _ => true) (fun _ w => Some w) tcands tsig tcache tdup).
  Notation tudp := (udp_run tkey (fun k => k) topen tbody (fun _ => true) (fun _ w => Some w) tcands tsig tcache tdup).

  (* the model accepts a genuine first segment ... *)
  Example ex_tcp_genuine_accepted :
    let r := fst (ttcp [] A first_segment now0) in
    t_created r = [7] /\ t_app r = [(7, [65; 66; 67]%N)] /\ t_verdict r = V_session /\ t_recv r = Some 1%N.
  Proof. vm_compute. auto. Qed.

  (* ... refuses every single-bit flip of its header (all 576), every strict prefix of the header ... *)
  Example ex_tcp_all_flips_silent :
    forallb (fun i => let r := fst (ttcp [] A (flip_bit i hdr_open ++ [65; 66; 67]%N ++ repeat 9%N 16) now0) in
                      match t_out r, t_created r, t_app r, t_recv r, t_verdict r with
                      | [], [], [], None, V_crypto => true | _, _, _, _, _ => false end) (seq 0 576) = true.
  Proof. vm_compute. reflexivity. Qed.

  Example ex_flips_not_produced :
    forall i, In i (seq 0 576) -> ~ tproduced (flip_bit i hdr_open).
  Proof.
    assert (H : forallb (fun i => forallb (fun k => match topen k (flip_bit i hdr_open) with None => true | _ => false end) tkeys)
                        (seq 0 576) = true) by (vm_compute; reflexivity).
    rewrite forallb_forall in H. intros i Hi [k [Hk O]]. specialize (H i Hi). rewrite forallb_forall in H.
    specialize (H k Hk). destruct (topen k (flip_bit i hdr_open)); [discriminate | apply O; reflexivity].
  Qed.

  Example ex_tcp_all_prefixes_blocked :
    forallb (fun n => match ttcp [] A (firstn n first_segment) now0 with
                      | (r, []) => match t_out r, t_created r, t_app r, t_recv r, t_verdict r with
                                   | [], [], [], None, V_blocked => true | _, _, _, _, _ => false end
                      | _ => false end) (seq 0 72) = true.
  Proof. vm_compute. reflexivity. Qed.

  (* ... and a replay of it, whole, as a prefix or alone, from anywhere (the toy cache remembers it) *)
  Example ex_tcp_replay_rejected :
    let c1 := snd (ttcp [] A first_segment now0) in
    forallb (fun inp => let r := fst (ttcp c1 B inp (now0 + 30 * NS)) in
                        match t_out r, t_created r, t_app r, t_verdict r with
                        | [], [], [], V_replay => true | _, _, _, _ => false end)
            [first_segment; first_segment ++ [1; 2; 3]%N; firstn 72 first_segment; firstn 80 first_segment] = true.
  Proof. vm_compute. reflexivity. Qed.

  (* UDP history: A opens session 7; B probes with garbage; "A" (spoofed) sends a bit-flipped copy; B replays A's
     datagram; A sends data for the unknown session 9 and gets a close request; a short datagram *)
  Definition history : list event :=
    [ Dgram first_segment A now0;
      Dgram (repeat 170%N 200) B now0;
      Dgram (flip_bit 300 first_segment) A now0;
      Dgram first_segment B (now0 + NS);
      Dgram dgram_data A (now0 + NS);
      Dgram (repeat 1%N 71) B (now0 + NS) ].
  Example ex_udp_history :
    map (fun er => (u_verdict (snd er), length (u_out (snd er)), length (u_created (snd er)), length (u_delivered (snd er))))
        (fst (tudp (mkU tkey tcache [] []) history))
    = [ (V_session, 0, 1, 1); (V_undecryptable, 0, 0, 0); (V_undecryptable, 0, 0, 0);
        (V_replay_drop, 0, 0, 0); (V_close_reply, 1, 0, 0); (V_short, 0, 0, 0) ]%nat.
  Proof. vm_compute. reflexivity. Qed.

  (* the hypotheses of the non-interference lemma hold for this history with probes = events 2, 3, 6 *)
  Definition is_probe (e : event) : bool :=
    match e with
    | Dgram d src now => match first_open tkey topen tkeys (firstn 72 d) with None => true | Some _ => false end
    | Clean _ => false
    end.
  Definition history2 : list event :=
    [ Dgram first_segment A now0; Dgram (repeat 170%N 200) B now0; Dgram (flip_bit 300 first_segment) A now0;
      Dgram dgram_data A (now0 + NS); Dgram (repeat 1%N 71) B (now0 + NS) ].
  Example ex_noninterference_computed :
    let st := mkU tkey tcache [] [] in
    map (fun er => u_verdict (snd er)) (filter (fun er => negb (is_probe (fst er))) (fst (tudp st history2)))
    = map (fun er => u_verdict (snd er)) (fst (tudp st (filter (fun e => negb (is_probe e)) history2)))
    /\ length (filter is_probe history2) = 3%nat.
  Proof. vm_compute. auto. Qed.
End Toy.
