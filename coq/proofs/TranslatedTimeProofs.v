(* pkg/mathext Mid / WithinRange at uint32 as the source says them NOW (gen/Translated.v, produced by harness/cmd/go2coq on
   every run) equal KeyTime.mid3 / within_range32, the timestamp test the C08 theorems are about; and the stamp expression
   uint32(time.Now().Unix() / 60) of the metadata Marshal methods is KeyTime.minute.  Kept apart from
   proofs/TranslatedMetadataProofs.v so that a change of the metadata codecs does not touch the C08 obligations. *)
From Coq Require Import ZArith List Bool Lia ZifyBool.
From M Require Import base.MiniGo gen.Translated model.KeyTime proofs.MiniGoProofs.
Import ListNotations.
Open Scope Z_scope.

(* ---------------------------------------------------------------- Mid, WithinRange *)

Theorem xl_Mid_uint32_eq_model a b c : xl_mathext_Mid_uint32 a b c = mid3 a b c.
Proof.
  unfold xl_mathext_Mid_uint32, mid3. cbv -[Z.ltb].
  repeat match goal with |- context [if ?x <? ?y then _ else _] => destruct (x <? y) eqn:?; cbv -[Z.ltb] end; first [reflexivity | discriminate | lia].
Qed.

Theorem xl_WithinRange_uint32_eq_model v target margin :
  xl_mathext_WithinRange_uint32 v target margin = within_range32 v target margin.
Proof. unfold xl_mathext_WithinRange_uint32, within_range32. rewrite xl_Mid_uint32_eq_model. reflexivity. Qed.

(* uint32(time.Now().Unix() / 60) for a clock of [now] seconds *)
Definition stamp (now : Z) : Z := u32 (Z.quot now 60).

Lemma stamp_minute t : stamp (t / NS) = minute t.
Proof. reflexivity. Qed.

Lemma xl_stamp now : - 2 ^ 63 <= now < 2 ^ 63 -> go_cast (U 32) (go_quo (I 64) now 60) = stamp now.
Proof. intro H. rewrite go_quo_I64 by lia. reflexivity. Qed.

Lemma stamp_range now : 0 <= stamp now < 2 ^ 32.
Proof. unfold stamp, u32, U32. apply Z.mod_pos_bound. lia. Qed.

