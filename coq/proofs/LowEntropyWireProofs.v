(* Cross-model agreement (C17 x C09): the low-entropy metadata validation of model/Wire.v (le_meta_ok, used by
   Wire.unmarshal_data for protocol types 10 / 11; N-valued fields, constants prefixed C09) accepts exactly the field
   combinations that model/LowEntropy.v's validate_meta (Z-valued, constants prefixed C17) accepts. *)
From Coq Require Import NArith ZArith List Bool Lia.
From M Require Import gen.Consts base.Bits64 model.LowEntropy proofs.Bits64Proofs proofs.LowEntropyProofs.
From M Require model.Wire.
Import ListNotations.
Open Scope N_scope.

Lemma wire_popcount n : Wire.popcount n = popcount n.
Proof.
  destruct n as [|p]; [reflexivity|]. cbn [Wire.popcount popcount].
  induction p as [p IH|p IH|]; cbn [Wire.pop_pos popP]; rewrite ?IH; reflexivity.
Qed.

Lemma wire_proto p : Wire.is_low_entropy p = is_le_proto (Z.of_N p).
Proof.
  unfold Wire.is_low_entropy, is_le_proto.
  change Wire.T_dataClientToServerLE with 10. change Wire.T_dataServerToClientLE with 11.
  change C17_protoLowEntropyC2S with 10%Z. change C17_protoLowEntropyS2C with 11%Z.
  destruct (N.eqb_spec p 10), (N.eqb_spec p 11), (Z.eqb_spec (Z.of_N p) 10), (Z.eqb_spec (Z.of_N p) 11);
    try reflexivity; lia.
Qed.

Lemma wire_rotation r : Wire.valid_rotation r = valid_rotation (Z.of_N r).
Proof.
  apply Bool.eq_true_iff_eq. unfold Wire.valid_rotation, valid_rotation.
  change (Z.to_N C09_RotNone) with 0. change (Z.to_N C09_RotRight1) with 1. change (Z.to_N C09_RotRight15) with 15.
  change (Z.to_N C09_RotLeft1) with 16. change (Z.to_N C09_RotLeft15) with 240.
  change C17_rotNone with 0%Z. change C17_rotRight1 with 1%Z. change C17_rotRight15 with 15%Z.
  change C17_rotLeft1 with 16%Z. change C17_rotLeft15 with 240%Z.
  rewrite !orb_true_iff, !andb_true_iff, !N.eqb_eq, !N.leb_le, !Z.eqb_eq, !Z.leb_le.
  rewrite <- (N2Z.inj_iff (r mod 16) 0), N2Z.inj_mod. change (Z.of_N 16) with 16%Z. change (Z.of_N 0) with 0%Z.
  lia.
Qed.

Lemma wire_mode mode :
  mode_params (Z.of_N mode) =
  if Wire.mode_source_bytes mode =? 0 then None
  else Some (Z.of_N (Wire.mode_source_bytes mode), Z.of_N (Wire.mode_mask_ones mode)).
Proof.
  assert (H : mode = 0 \/ mode = 1 \/ mode = 2 \/ mode = 3 \/ mode = 4 \/ mode = 5 \/ mode = 6 \/ mode = 7 \/ 8 <= mode) by lia.
  repeat (destruct H as [H|H]; [subst mode; vm_compute; reflexivity|]).
  unfold mode_params, Wire.mode_source_bytes.
  replace ((0 <=? Z.of_N mode)%Z && (Z.of_N mode <? 8)%Z) with false
    by (symmetry; apply andb_false_iff; right; apply Z.ltb_ge; lia).
  rewrite nth_overflow by (change (length C09_modeSourceBytes) with 8%nat; lia).
  reflexivity.
Qed.

(* Wire.le_meta_ok in propositional form *)
Lemma wire_meta_prop mode mask elen plen rot :
  Wire.le_meta_ok mode mask elen plen rot = true <->
  elen <= 32768 /\ plen mod 8 = 0 /\ Wire.mode_source_bytes mode <> 0 /\
  popcount mask = Wire.mode_mask_ones mode /\ valid_rotation (Z.of_N rot) = true /\
  ((elen = 0 /\ plen = 0) \/
   (elen <> 0 /\ (elen + Wire.mode_source_bytes mode - 1) / Wire.mode_source_bytes mode <= 8191 /\
    plen = (elen + Wire.mode_source_bytes mode - 1) / Wire.mode_source_bytes mode * 8)).
Proof.
  unfold Wire.le_meta_ok, Wire.le_params_ok, Wire.le_encoded_len.
  change Wire.maxPDU with 32768. change Wire.chunkLen with 8. change (65535 / 8) with 8191.
  rewrite wire_popcount, wire_rotation.
  set (sb := Wire.mode_source_bytes mode). set (ch := (elen + sb - 1) / sb).
  rewrite !andb_true_iff, negb_true_iff, N.leb_le, !N.eqb_eq, N.eqb_neq.
  destruct (N.eqb_spec elen 0) as [E0|E0].
  - rewrite N.eqb_eq. intuition lia.
  - destruct (N.ltb_spec 8191 ch) as [Hc|Hc].
    + split; [intuition discriminate | intuition lia].
    + rewrite N.eqb_eq. intuition lia.
Qed.

Theorem meta_agrees_with_wire p mode mask elen plen rot :
  Wire.is_low_entropy p && Wire.le_meta_ok mode mask elen plen rot = true <->
  validate_meta (Z.of_N p) (Z.of_N mode) mask (Z.of_N elen) (Z.of_N plen) (Z.of_N rot) = Ok tt.
Proof.
  rewrite meta_ties_lengths, andb_true_iff, wire_meta_prop, wire_proto.
  change C17_maxPDU with 32768%Z.
  pose proof (wire_mode mode) as Hmode.
  set (sb := Wire.mode_source_bytes mode) in *. set (ones := Wire.mode_mask_ones mode) in *.
  split.
  - intros (Hp & Hle & Hpl & Hsb & Hpop & Hrot & Hcase).
    split; [exact Hp|]. split; [lia|].
    apply N.eqb_neq in Hsb. rewrite Hsb in Hmode.
    exists (Z.of_N sb), (Z.of_N ones). split; [exact Hmode|]. split; [rewrite Hpop; reflexivity|].
    split; [exact Hrot|].
    apply N.eqb_neq in Hsb.
    rewrite nchunks_ceil by lia.
    destruct Hcase as [[-> ->]|(He & Hch & ->)]; [left; split; reflexivity | right].
    assert (Ez : Z.of_N ((elen + sb - 1) / sb) = ((Z.of_N elen + Z.of_N sb - 1) / Z.of_N sb)%Z).
    { rewrite N2Z.inj_div, N2Z.inj_sub, N2Z.inj_add by lia. reflexivity. }
    rewrite <- Ez. lia.
  - intros (Hp & Hle & c & w & Hm & Hw & Hrot & Hcase).
    rewrite Hm in Hmode. destruct (N.eqb_spec sb 0) as [E|E]; [discriminate|]. inversion Hmode; subst c w.
    split; [exact Hp|]. split; [lia|].
    rewrite nchunks_ceil in Hcase by lia.
    assert (Ez : Z.of_N ((elen + sb - 1) / sb) = ((Z.of_N elen + Z.of_N sb - 1) / Z.of_N sb)%Z).
    { rewrite N2Z.inj_div, N2Z.inj_sub, N2Z.inj_add by lia. reflexivity. }
    rewrite <- Ez in Hcase. clear Ez Hmode Hm.
    set (ch := (elen + sb - 1) / sb) in *. clearbody ch.
    assert (Hc : (elen = 0 /\ plen = 0) \/ (elen <> 0 /\ ch <= 8191 /\ plen = ch * 8)) by lia.
    clear Hcase.
    split; [destruct Hc as [[_ ->]|(_ & _ & ->)]; [reflexivity | apply N.mod_mul; discriminate]|].
    split; [exact E|]. split; [lia|]. split; [exact Hrot|]. exact Hc.
Qed.
