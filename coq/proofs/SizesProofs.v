(* C14 — proofs about model/Sizes.v *)
From Coq Require Import ZArith Lia List Bool.
From M Require Import gen.Consts model.Sizes.
Import ListNotations.
Open Scope Z_scope.
Ltac Zify.zify_post_hook ::= Z.to_euclidean_division_equations.

(* ---------- side conditions on the regenerated constants ---------- *)
Lemma consts_layout :
  C14_packetOverhead = C14_NonceSize + C14_MetadataLength + 2 * C14_TagOverhead /\
  C14_packetNonHeaderPosition = header_len /\
  C14_streamOverhead = C14_MetadataLength + 2 * C14_TagOverhead.
Proof. vm_compute. repeat split; reflexivity. Qed.

Lemma consts_mtu_range :
  C14_ServerMinMTU = C14_ClientMinMTU /\ C14_ServerMaxMTU = C14_ClientMaxMTU /\
  C14_ServerMTURangeContiguous = 1 /\ C14_ClientMTURangeContiguous = 1 /\
  C14_ServerMinMTU <= C14_DefaultMTU <= C14_ServerMaxMTU /\
  C14_packetOverhead + C14_MaxSessionOpenPayload <= C14_ServerMinMTU.
Proof. vm_compute. repeat split; congruence. Qed.

Lemma consts_modes :
  C14_ExtraLEModes = 0 /\ C14_MaxConfiguredMiddlePadding <= C14_MaxUint8 /\ C14_MaxConfiguredEndPadding <= C14_MaxUint8 /\
  C14_StreamPaddingCap <= C14_MaxUint8 /\ C14_PacketPaddingCap <= C14_MaxUint8.
Proof. vm_compute. repeat split; congruence. Qed.

Definition mtu_ok (mtu : Z) : Prop := C14_ServerMinMTU <= mtu <= C14_ServerMaxMTU.
Definition mode_ok (mode : Z) : Prop :=
  mode = C14_ModeOff \/ mode = C14_Mode32 \/ mode = C14_Mode40 \/ mode = C14_Mode48 \/ mode = C14_Mode56.
Definition transport_ok (t : Z) : Prop := t = C14_TransportStream \/ t = C14_TransportPacket.

Ltac consts :=
  unfold C14_packetOverhead, C14_NonceSize, C14_MetadataLength, C14_TagOverhead, C14_maxPDU,
    C14_MaxSessionOpenPayload, C14_lowEntropyChunkLen, C14_MaxUint16, C14_MaxUint8,
    C14_StreamPaddingCap, C14_PacketPaddingCap, C14_ServerMinMTU, C14_ServerMaxMTU,
    C14_TransportStream, C14_TransportPacket, C14_TransportUnknown,
    C14_ModeOff, C14_Mode32, C14_Mode40, C14_Mode48, C14_Mode56,
    C14_Src32, C14_Src40, C14_Src48, C14_Src56 in *.

(* ---------- padding ---------- *)
Lemma max_padding_range : forall mtu t frag ex,
  0 <= max_padding mtu t frag ex <= C14_MaxUint8.
Proof.
  intros. unfold max_padding. destruct (is_stream t).
  - consts. lia.
  - destruct (Z.leb_spec (mtu - frag - C14_packetOverhead) ex); consts; lia.
Qed.

Lemma max_padding_tp_range : forall mtu t frag ex cfg,
  0 <= max_padding_tp mtu t frag ex cfg <= C14_MaxUint8.
Proof.
  intros. unfold max_padding_tp. pose proof (max_padding_range mtu t frag ex).
  destruct cfg as [c|]; [|assumption]. destruct (Z.ltb_spec c 0); lia.
Qed.

Lemma max_padding_tp_le : forall mtu t frag ex cfg,
  max_padding_tp mtu t frag ex cfg <= max_padding mtu t frag ex.
Proof.
  intros. unfold max_padding_tp. pose proof (max_padding_range mtu t frag ex).
  destruct cfg as [c|]; [|lia]. destruct (Z.ltb_spec c 0); lia.
Qed.

(* the configured maximum is honoured *)
Lemma max_padding_tp_cfg : forall mtu t frag ex c,
  0 <= c -> max_padding_tp mtu t frag ex (Some c) <= c.
Proof. intros. unfold max_padding_tp. destruct (Z.ltb_spec c 0); lia. Qed.

(* the two paddings together never exceed the room left by the payload *)
Lemma packet_padding_budget : forall mtu frag c1 c2 p1 p2,
  0 <= p1 <= max_padding_tp mtu C14_TransportPacket frag 0 c1 ->
  0 <= p2 <= max_padding_tp mtu C14_TransportPacket frag p1 c2 ->
  p1 + p2 <= Z.max 0 (mtu - frag - C14_packetOverhead).
Proof.
  intros mtu frag c1 c2 p1 p2 H1 H2.
  pose proof (max_padding_tp_le mtu C14_TransportPacket frag 0 c1) as A.
  pose proof (max_padding_tp_le mtu C14_TransportPacket frag p1 c2) as B.
  unfold max_padding in A, B. change (is_stream C14_TransportPacket) with false in A, B. cbv iota in A, B.
  destruct (Z.leb_spec (mtu - frag - C14_packetOverhead) 0);
  destruct (Z.leb_spec (mtu - frag - C14_packetOverhead) p1); lia.
Qed.

(* ---------- low-entropy expansion ---------- *)
Lemma src_bytes_cases : forall mode sb, src_bytes mode = Some sb ->
  (mode = C14_Mode32 /\ sb = C14_Src32) \/ (mode = C14_Mode40 /\ sb = C14_Src40) \/
  (mode = C14_Mode48 /\ sb = C14_Src48) \/ (mode = C14_Mode56 /\ sb = C14_Src56).
Proof.
  intros mode sb H. unfold src_bytes in H.
  destruct (Z.eqb_spec mode C14_Mode32); [inversion H; auto|].
  destruct (Z.eqb_spec mode C14_Mode40); [inversion H; auto|].
  destruct (Z.eqb_spec mode C14_Mode48); [inversion H; auto 6|].
  destruct (Z.eqb_spec mode C14_Mode56); [inversion H; auto 6|]. discriminate.
Qed.

Lemma src_bytes_range : forall mode sb, src_bytes mode = Some sb -> 4 <= sb <= 7.
Proof. intros mode sb H. apply src_bytes_cases in H. consts. lia. Qed.

Lemma mode_ok_src : forall mode, mode_ok mode -> mode <> C14_ModeOff -> exists sb, src_bytes mode = Some sb.
Proof.
  intros mode H Hn. destruct H as [H|[H|[H|[H|H]]]]; subst; try congruence; eexists; reflexivity.
Qed.

Lemma max_chunks_val : max_chunks = 8191.
Proof. reflexivity. Qed.

(* n bytes that fit in k whole chunks (k <= 8191) encode without error into at most 8k bytes, at least n *)
Lemma le_encoded_len_spec : forall n mode sb k,
  src_bytes mode = Some sb -> 0 < n -> n <= k * sb -> k <= max_chunks ->
  exists e, le_encoded_len n mode = Some e /\
            e = C14_lowEntropyChunkLen * ((n + sb - 1) / sb) /\
            n <= e <= C14_lowEntropyChunkLen * k /\ e <= C14_MaxUint16.
Proof.
  intros n mode sb k Hs Hn Hk Hm. unfold le_encoded_len. rewrite Hs.
  pose proof (src_bytes_range _ _ Hs) as Hr. rewrite max_chunks_val in *.
  destruct (Z.leb_spec n 0); [lia|].
  assert (Hsb : sb = 4 \/ sb = 5 \/ sb = 6 \/ sb = 7) by lia.
  set (c := Z.quot n sb + (if Z.rem n sb =? 0 then 0 else 1)).
  assert (Hc : c = (n + sb - 1) / sb /\ c <= k /\ n <= 8 * c).
  { unfold c. destruct (Z.eqb_spec (Z.rem n sb) 0); destruct Hsb as [-> | [-> | [-> | -> ]]]; lia. }
  destruct Hc as (Hc1 & Hc2 & Hc3).
  destruct (Z.gtb_spec c 8191); [lia|].
  eexists. split; [reflexivity|]. unfold u16. consts.
  rewrite Z.mod_small by lia. rewrite <- Hc1. lia.
Qed.

(* ---------- fragment size ---------- *)
(* what the in-range configurations have in common *)
Record frag_facts (mtu t mode fs : Z) : Prop := {
  ff_eq    : max_fragment mtu t mode = Some fs;
  ff_range : 128 <= fs <= C14_maxPDU;
  ff_off   : mode = C14_ModeOff -> t = C14_TransportPacket -> fs <= mtu - C14_packetOverhead;
  ff_le    : mode <> C14_ModeOff -> exists sb k, src_bytes mode = Some sb /\ fs <= k * sb /\ k <= max_chunks /\
               (t = C14_TransportPacket -> C14_lowEntropyChunkLen * k <= mtu - C14_packetOverhead)
}.

Lemma frag_facts_in_range : forall mtu t mode,
  mode_ok mode -> transport_ok t -> (t = C14_TransportPacket -> mtu_ok mtu) ->
  exists fs, frag_facts mtu t mode fs.
Proof.
  intros mtu t mode Hm Ht Hmtu. unfold max_fragment.
  destruct (Z.eqb_spec mode C14_ModeOff) as [Hoff|Hoff].
  - (* off *)
    exists (max_fragment_internal mtu t). unfold max_fragment_internal.
    destruct Ht as [-> | -> ].
    + change (is_stream C14_TransportStream) with true. cbv iota.
      constructor; [unfold max_fragment; rewrite Hoff; reflexivity| consts; lia | consts; intros; lia | congruence].
    + change (is_stream C14_TransportPacket) with false. cbv iota.
      specialize (Hmtu eq_refl). unfold mtu_ok in Hmtu.
      constructor; [unfold max_fragment; rewrite Hoff; reflexivity| consts; lia | consts; intros; lia | congruence].
  - destruct (mode_ok_src mode Hm Hoff) as [sb Hsb].
    pose proof (src_bytes_range _ _ Hsb) as Hr.
    destruct Ht as [-> | -> ].
    + (* stream *)
      exists (Z.min C14_maxPDU (max_chunks * sb)).
      constructor.
      * unfold max_fragment. destruct (Z.eqb_spec mode C14_ModeOff); [congruence|]. rewrite Hsb. reflexivity.
      * rewrite max_chunks_val. consts. lia.
      * congruence.
      * intros _. exists sb, max_chunks. repeat split; try lia; try assumption. consts. intros X; discriminate X.
    + (* packet *)
      specialize (Hmtu eq_refl). unfold mtu_ok in Hmtu.
      set (c := Z.quot (mtu - C14_packetOverhead) C14_lowEntropyChunkLen).
      assert (Hc : 149 <= c <= 176 /\ 8 * c <= mtu - 88) by (unfold c; consts; lia).
      exists (c * sb). constructor.
      * unfold max_fragment. destruct (Z.eqb_spec mode C14_ModeOff); [congruence|]. rewrite Hsb.
        change (is_stream C14_TransportPacket) with false. change (is_packet C14_TransportPacket) with true. cbv iota.
        fold c. destruct (Z.leb_spec c 0); [lia|reflexivity].
      * consts. nia.
      * congruence.
      * intros _. exists sb, c. rewrite max_chunks_val. consts. repeat split; try assumption; lia.
Qed.

(* ---------- the fragment loop ---------- *)
Definition sum_body (l : list seg) : Z := fold_right (fun s a => s_body s + a) 0 l.

Lemma sum_body_app : forall a b, sum_body (a ++ b) = sum_body a + sum_body b.
Proof. induction a; intros; simpl; [lia|]. rewrite IHa. lia. Qed.

(* a data segment as writeChunk builds it when nothing wraps *)
Definition data_seg_ok (mode fs : Z) (s : seg) : Prop :=
  (0 < s_body s <= fs /\ 0 <= s_frag s <= C14_MaxUint8) /\
  ((mode = C14_ModeOff /\ s_kind s = KData /\ s_plen s = s_body s /\ s_ext s = 0) \/
   (mode <> C14_ModeOff /\ s_kind s = KDataLE /\ s_ext s = s_body s /\ le_encoded_len (s_body s) mode = Some (s_plen s))).

(* fragment numbers i-1, i-2, ..., 0 *)
Fixpoint countdown (i : nat) : list Z :=
  match i with O => [] | S i' => Z.of_nat i' :: countdown i' end.

Lemma frag_loop_spec : forall i' mode fs rem le,
  le = negb (mode =? C14_ModeOff) ->
  0 < fs <= C14_MaxUint16 ->
  (mode <> C14_ModeOff -> exists sb k, src_bytes mode = Some sb /\ fs <= k * sb /\ k <= max_chunks) ->
  Z.of_nat i' * fs < rem <= (Z.of_nat i' + 1) * fs ->
  (Z.of_nat i' <= C14_MaxUint8) ->
  exists segs, frag_loop (S i') le mode fs rem = (segs, true) /\
    sum_body segs = rem /\ Forall (data_seg_ok mode fs) segs /\
    map s_frag segs = countdown (S i').
Proof.
  induction i' as [|i'' IH]; intros mode fs rem le Hle Hfs Hsrc Hrem H8.
  - (* last fragment *)
    cbn [frag_loop]. assert (Hp : Z.min fs rem = rem) by lia. rewrite Hp.
    destruct (Z.eqb_spec mode C14_ModeOff) as [Hoff|Hoff]; subst le; cbn [negb].
    + eexists. split; [reflexivity|]. cbn [sum_body fold_right s_body map s_frag countdown].
      split; [lia|]. split.
      * constructor; [|constructor]. unfold data_seg_ok. cbn [s_body s_kind s_plen s_ext s_frag].
        split; [split; [lia|try rewrite Hu8; unfold u8; revert H8; consts; lia]|]. left. repeat split; auto. unfold u16. apply Z.mod_small. lia.
      * unfold u8. reflexivity.
    + destruct (Hsrc Hoff) as (sb & k & Hs & Hk & Hm).
      destruct (le_encoded_len_spec rem mode sb k Hs) as (e & He & _ & Hb & H16); try lia.
      rewrite He. eexists. split; [reflexivity|]. cbn [sum_body fold_right s_body map s_frag countdown].
      split; [lia|]. split.
      * constructor; [|constructor]. unfold data_seg_ok. cbn [s_body s_kind s_plen s_ext s_frag].
        split; [split; [lia|try rewrite Hu8; unfold u8; revert H8; consts; lia]|]. right. repeat split; auto. unfold u16. apply Z.mod_small. lia.
      * unfold u8. reflexivity.
  - (* a full fragment, then the rest *)
    remember (S i'') as i1. cbn [frag_loop].
    assert (Hi : Z.of_nat i1 = Z.of_nat i'' + 1) by lia.
    assert (Hp : Z.min fs rem = fs) by nia. rewrite Hp.
    assert (Hrem' : Z.of_nat i'' * fs < rem - fs <= (Z.of_nat i'' + 1) * fs) by nia.
    assert (H8' : Z.of_nat i'' <= C14_MaxUint8) by lia.
    destruct (IH mode fs (rem - fs) le Hle Hfs Hsrc Hrem' H8') as (rest & Hr & Hsum & Hall & Hfr).
    subst i1. rewrite Hr.
    assert (Hu8 : u8 (Z.of_nat (S i'')) = Z.of_nat (S i'')).
    { unfold u8. apply Z.mod_small. lia. }
    destruct (Z.eqb_spec mode C14_ModeOff) as [Hoff|Hoff]; subst le; cbn [negb] in *.
    + eexists. split; [reflexivity|]. cbn [sum_body fold_right s_body map s_frag].
      fold (sum_body rest). split; [lia|]. split.
      * constructor; [|exact Hall]. unfold data_seg_ok. cbn [s_body s_kind s_plen s_ext s_frag].
        split; [split; [lia|try rewrite Hu8; unfold u8; revert H8; consts; lia]|]. left. repeat split; auto. unfold u16. apply Z.mod_small. lia.
      * rewrite Hfr, Hu8. reflexivity.
    + destruct (Hsrc Hoff) as (sb & k & Hs & Hk & Hm).
      destruct (le_encoded_len_spec fs mode sb k Hs) as (e & He & _ & Hb & H16); try lia.
      rewrite He. eexists. split; [reflexivity|]. cbn [sum_body fold_right s_body map s_frag].
      fold (sum_body rest). split; [lia|]. split.
      * constructor; [|exact Hall]. unfold data_seg_ok. cbn [s_body s_kind s_plen s_ext s_frag].
        split; [split; [lia|try rewrite Hu8; unfold u8; revert H8; consts; lia]|]. right. repeat split; auto. unfold u16. apply Z.mod_small. lia.
      * rewrite Hfr, Hu8. reflexivity.
Qed.

Lemma n_fragments_spec : forall fs len, 128 <= fs -> 0 < len <= C14_maxPDU ->
  let nf := n_fragments fs len in
  1 <= nf <= 256 /\ (nf - 1) * fs < len <= nf * fs.
Proof.
  intros fs len Hfs Hlen. unfold n_fragments. cbv zeta.
  destruct (Z.gtb_spec len fs) as [Hg|Hg]; [|lia].
  rewrite Z.quot_div_nonneg by lia.
  pose proof (Z.mul_div_le (len - 1) fs ltac:(lia)) as A.
  pose proof (Z.mul_succ_div_gt (len - 1) fs ltac:(lia)) as B.
  set (q := (len - 1) / fs) in *. revert Hlen. consts. intros. nia.
Qed.

Lemma write_chunk_spec : forall mtu t mode fs len,
  frag_facts mtu t mode fs -> 0 < len <= C14_maxPDU ->
  exists segs, write_chunk mtu t mode len = (segs, Ok) /\
    sum_body segs = len /\ Forall (data_seg_ok mode fs) segs /\
    map s_frag segs = countdown (length segs) /\ (1 <= Z.of_nat (length segs) <= 256).
Proof.
  intros mtu t mode fs len F Hlen. destruct F as [Feq Fr Foff Fle].
  unfold write_chunk. rewrite Feq.
  destruct (Z.eqb_spec fs 0); [lia|]. rewrite andb_false_r.
  pose proof (n_fragments_spec fs len ltac:(lia) Hlen) as Hn. cbv zeta in Hn.
  set (nf := n_fragments fs len) in *.
  destruct (Z.to_nat nf) as [|i'] eqn:Hi; [lia|].
  assert (Hz : Z.of_nat i' = nf - 1) by lia.
  destruct (frag_loop_spec i' mode fs len (negb (mode =? C14_ModeOff)) eq_refl) as (segs & Hfl & Hsum & Hall & Hfr).
  - revert Fr. consts. lia.
  - intros Hoff. destruct (Fle Hoff) as (sb & k & A & B & C & _). eauto.
  - rewrite Hz. lia.
  - consts. lia.
  - rewrite Hfl. exists segs. split; [reflexivity|]. split; [assumption|]. split; [assumption|].
    assert (Hlen' : length segs = S i').
    { rewrite <- (map_length s_frag), Hfr. clear. generalize (S i'). induction n; simpl; auto. }
    rewrite Hlen'. split; [assumption|]. lia.
Qed.

(* ---------- Write ---------- *)
Lemma chunk_loop_spec : forall fuel mtu t mode fs rem,
  frag_facts mtu t mode fs -> 0 <= rem -> rem <= Z.of_nat fuel * C14_maxPDU ->
  exists segs, chunk_loop fuel mtu t mode rem = (segs, rem, Ok) /\
    sum_body segs = rem /\ Forall (data_seg_ok mode fs) segs.
Proof.
  induction fuel as [|f IH]; intros mtu t mode fs rem F H0 Hf.
  - assert (rem = 0) by (revert Hf; consts; lia). subst. exists []. repeat split; constructor.
  - cbn [chunk_loop]. destruct (Z.leb_spec rem 0).
    + assert (rem = 0) by lia. subst. exists []. repeat split; constructor.
    + set (size := Z.min rem C14_maxPDU).
      assert (Hs : 0 < size <= C14_maxPDU) by (unfold size; consts; lia).
      destruct (write_chunk_spec mtu t mode fs size F Hs) as (segs & Hw & Hsum & Hall & _).
      rewrite Hw.
      destruct (IH mtu t mode fs (rem - size) F) as (rest & Hr & Hsum' & Hall').
      * unfold size. lia.
      * unfold size. rewrite Nat2Z.inj_succ in Hf. revert Hf. consts. lia.
      * rewrite Hr. exists (segs ++ rest). split; [f_equal; f_equal; lia|].
        split; [rewrite sum_body_app; lia|]. apply Forall_app. auto.
Qed.

Lemma chunk_fuel_enough : forall n, 0 <= n -> n <= Z.of_nat (chunk_fuel n) * C14_maxPDU.
Proof. intros n Hn. unfold chunk_fuel. rewrite Nat2Z.inj_succ, Z2Nat.id by (consts; lia). consts. lia. Qed.

(* what every segment queued by Write looks like when nothing wraps *)
Definition write_seg_ok (mode fs : Z) (s : seg) : Prop :=
  data_seg_ok mode fs s \/
  (s_kind s = KOpenReq /\ s_frag s = 0 /\ s_ext s = 0 /\ s_plen s = s_body s /\
   0 <= s_body s <= C14_MaxSessionOpenPayload /\ (0 < s_body s -> mode = C14_ModeOff)).

Lemma write_spec : forall is_client first mtu t mode fs n,
  frag_facts mtu t mode fs -> 0 <= n ->
  exists segs, write is_client first mtu t mode n = (segs, n, Ok) /\
    sum_body segs = n /\ Forall (write_seg_ok mode fs) segs.
Proof.
  intros is_client first mtu t mode fs n F Hn. unfold write.
  destruct (chunk_loop_spec (chunk_fuel n) mtu t mode fs n F Hn (chunk_fuel_enough n Hn)) as (segs & Hc & Hsum & Hall).
  assert (Hall' : Forall (write_seg_ok mode fs) segs).
  { eapply Forall_impl; [|exact Hall]. intros a Ha. left. exact Ha. }
  destruct (is_client && first); [|eauto].
  destruct (Z.eqb_spec mode C14_ModeOff) as [Hoff|Hoff]; cbn [andb].
  - destruct (Z.leb_spec n C14_MaxSessionOpenPayload) as [Hle|Hgt].
    + destruct (Z.gtb_spec n 0) as [Hp|Hp].
      * eexists. split; [reflexivity|]. cbn [sum_body fold_right s_body]. split; [lia|].
        constructor; [|constructor]. right. cbn [s_kind s_frag s_ext s_plen s_body].
        repeat split; auto; try lia. unfold u16. apply Z.mod_small. revert Hle. consts. lia.
      * assert (n = 0) by lia. subst n. rewrite Hc. eexists. split; [reflexivity|].
        cbn [sum_body fold_right s_body]. fold (sum_body segs). split; [lia|].
        constructor; [|exact Hall']. right. cbn [s_kind s_frag s_ext s_plen s_body]. unfold u16. consts. repeat split; auto; try reflexivity; try lia.
    + change (0 >? 0) with false. cbv iota. rewrite Hc. eexists. split; [reflexivity|].
      cbn [sum_body fold_right s_body]. fold (sum_body segs). split; [lia|].
      constructor; [|exact Hall']. right. cbn [s_kind s_frag s_ext s_plen s_body]. unfold u16. consts. repeat split; auto; try reflexivity; try lia.
  - change (0 >? 0) with false. cbv iota. rewrite Hc. eexists. split; [reflexivity|].
    cbn [sum_body fold_right s_body]. fold (sum_body segs). split; [lia|].
    constructor; [|exact Hall']. right. cbn [s_kind s_frag s_ext s_plen s_body]. unfold u16. consts. repeat split; auto; try reflexivity; try lia.
Qed.

(* ---------- C14: datagram length ---------- *)
Lemma seg_dgram_le : forall mtu s c1 c2 p1 p2,
  0 <= s_plen s <= mtu - C14_packetOverhead ->
  wire_payload s <= (if s_body s >? 0 then s_plen s + C14_TagOverhead else 0) ->
  draws_ok mtu C14_TransportPacket c1 c2 s p1 p2 ->
  dgram_len s p1 p2 <= mtu.
Proof.
  intros mtu s c1 c2 p1 p2 Hp Hw [H1 H2]. unfold dgram_len, pad1_max, pad2_max in *.
  destruct (is_session (s_kind s)).
  - assert (p1 = 0) by lia. subst p1.
    pose proof (max_padding_tp_range mtu C14_TransportPacket (s_plen s) 0 c1) as R.
    pose proof (packet_padding_budget mtu (s_plen s) c1 c2 0 p2 ltac:(lia) H2) as B.
    unfold header_len. destruct (s_body s >? 0); revert Hp Hw B; consts; lia.
  - pose proof (packet_padding_budget mtu (s_plen s) c1 c2 p1 p2 H1 H2) as B.
    unfold header_len. destruct (s_body s >? 0); revert Hp Hw B; consts; lia.
Qed.

Lemma write_seg_plen : forall mtu t mode fs s,
  frag_facts mtu t mode fs -> write_seg_ok mode fs s ->
  0 <= s_body s <= s_plen s /\ s_plen s <= C14_MaxUint16 /\
  (t = C14_TransportPacket -> mtu_ok mtu -> s_plen s <= mtu - C14_packetOverhead) /\
  wire_payload s = (if s_body s >? 0 then s_plen s + C14_TagOverhead else 0).
Proof.
  intros mtu t mode fs s F W. destruct F as [Feq Fr Foff Fle].
  destruct W as [[[Hb Hf] [(Hoff & Hk & Hp & He)|(Hoff & Hk & He & Hp)]]|(Hk & Hf & He & Hp & Hb & Hm)].
  - unfold wire_payload. rewrite Hk, Hp.
    split; [lia|]. split; [revert Fr; consts; lia|].
    split; [intros Ht _; specialize (Foff Hoff Ht); lia|reflexivity].
  - destruct (Fle Hoff) as (sb & k & Hs & Hk1 & Hk2 & Hk3).
    destruct (le_encoded_len_spec (s_body s) mode sb k Hs) as (e & Hee & _ & Hb1 & Hb2); try lia.
    rewrite Hee in Hp. inversion Hp; subst e. unfold wire_payload. rewrite Hk.
    split; [lia|]. split; [lia|].
    split; [intros Ht _; specialize (Hk3 Ht); lia|reflexivity].
  - unfold wire_payload. rewrite Hk, Hp.
    split; [lia|]. split; [revert Hb; consts; lia|].
    split; [intros _ Hmtu; unfold mtu_ok in Hmtu; revert Hb Hmtu; consts; lia|reflexivity].
Qed.

Lemma c14_mtu : forall mtu mode is_client first n cfg_mid cfg_end s p1 p2,
  mtu_ok mtu -> mode_ok mode -> 0 <= n ->
  emitted is_client first mtu C14_TransportPacket mode n s ->
  draws_ok mtu C14_TransportPacket cfg_mid cfg_end s p1 p2 ->
  dgram_len s p1 p2 <= mtu.
Proof.
  intros mtu mode is_client first n c1 c2 s p1 p2 Hmtu Hmode Hn He Hd.
  destruct He as [Hin|(k & Hk & ->)].
  - destruct (frag_facts_in_range mtu C14_TransportPacket mode Hmode (or_intror eq_refl) (fun _ => Hmtu)) as [fs F].
    destruct (write_spec is_client first mtu C14_TransportPacket mode fs n F Hn) as (segs & Hw & _ & Hall).
    rewrite Hw in Hin. cbn [fst] in Hin. rewrite Forall_forall in Hall. specialize (Hall s Hin).
    destruct (write_seg_plen _ _ _ _ s F Hall) as (Hb & _ & Hp & Hwire).
    apply (seg_dgram_le mtu s c1 c2 p1 p2); [specialize (Hp eq_refl Hmtu); lia|rewrite Hwire; lia|exact Hd].
  - apply (seg_dgram_le mtu _ c1 c2 p1 p2); [| |exact Hd].
    + cbn [control_seg s_plen]. unfold mtu_ok in Hmtu. revert Hmtu. consts. lia.
    + unfold wire_payload. cbn [control_seg s_body]. change (0 >? 0) with false. cbv iota. lia.
Qed.

(* outside the validated range the bound is false: the open session request carries up to 1024 bytes
   whatever the MTU is *)
Lemma c14_mtu_needs_range :
  exists mtu s, mtu = 1100 /\ emitted true true mtu C14_TransportPacket C14_ModeOff 1024 s /\
    draws_ok mtu C14_TransportPacket None None s 0 0 /\ dgram_len s 0 0 > mtu.
Proof.
  exists 1100, (mkSeg KOpenReq 0 1024 0 1024). split; [reflexivity|]. split; [left; vm_compute; auto|].
  split; vm_compute; intuition congruence.
Qed.

(* ---------- C14: Write is total in range, reports n, loses nothing ---------- *)
Lemma c14_write_total : forall is_client first mtu t mode n,
  mode_ok mode -> transport_ok t -> (t = C14_TransportPacket -> mtu_ok mtu) -> 0 <= n ->
  exists segs, write is_client first mtu t mode n = (segs, n, Ok) /\ sum_body segs = n.
Proof.
  intros is_client first mtu t mode n Hm Ht Hmtu Hn.
  destruct (frag_facts_in_range mtu t mode Hm Ht Hmtu) as [fs F].
  destruct (write_spec is_client first mtu t mode fs n F Hn) as (segs & Hw & Hs & _). eauto.
Qed.

(* ---------- C14: fields ---------- *)
Lemma c14_fields : forall is_client first mtu t mode n s,
  mode_ok mode -> transport_ok t -> (t = C14_TransportPacket -> mtu_ok mtu) -> 0 <= n ->
  In s (fst (fst (write is_client first mtu t mode n))) ->
  (* 16-bit length fields hold the true lengths *)
  0 <= s_plen s <= C14_MaxUint16 /\ 0 <= s_ext s <= C14_MaxUint16 /\
  (* plaintext carried by one segment *)
  0 <= s_body s <= C14_maxPDU /\
  (exists fs, max_fragment mtu t mode = Some fs /\ (is_session (s_kind s) = false -> 0 < s_body s <= fs)) /\
  (is_session (s_kind s) = true -> s_kind s = KOpenReq /\ s_body s <= C14_MaxSessionOpenPayload /\ s_plen s = s_body s /\
                                   (0 < s_body s -> mode = C14_ModeOff)) /\
  (* no wrap-around: the field is the length, resp. the encoded length of the body *)
  (s_kind s = KData -> mode = C14_ModeOff /\ s_plen s = s_body s) /\
  (s_kind s = KDataLE -> mode <> C14_ModeOff /\ s_ext s = s_body s /\ le_encoded_len (s_body s) mode = Some (s_plen s) /\ s_body s <= s_plen s) /\
  s_kind s <> KAck /\
  (* fragment number fits its uint8 field *)
  0 <= s_frag s <= C14_MaxUint8 /\
  (* paddings fit their uint8 fields, for every draw within the computed maxima *)
  (forall c1 c2 p1 p2, draws_ok mtu t c1 c2 s p1 p2 -> 0 <= p1 <= C14_MaxUint8 /\ 0 <= p2 <= C14_MaxUint8).
Proof.
  intros is_client first mtu t mode n s Hm Ht Hmtu Hn Hin.
  destruct (frag_facts_in_range mtu t mode Hm Ht Hmtu) as [fs F].
  destruct (write_spec is_client first mtu t mode fs n F Hn) as (segs & Hw & _ & Hall).
  rewrite Hw in Hin. cbn [fst] in Hin. rewrite Forall_forall in Hall. specialize (Hall s Hin).
  destruct (write_seg_plen _ _ _ _ s F Hall) as (Hb & H16 & _ & _).
  pose proof (ff_range _ _ _ _ F) as Fr. pose proof (ff_eq _ _ _ _ F) as Feq.
  assert (Hpad : forall c1 c2 p1 p2, draws_ok mtu t c1 c2 s p1 p2 -> 0 <= p1 <= C14_MaxUint8 /\ 0 <= p2 <= C14_MaxUint8).
  { intros c1 c2 p1 p2 [H1 H2]. unfold pad1_max, pad2_max in *.
    pose proof (max_padding_tp_range mtu t (s_plen s) 0 c1).
    pose proof (max_padding_tp_range mtu t (s_plen s) (if is_session (s_kind s) then 0 else p1) c2).
    destruct (is_session (s_kind s)); consts; lia. }
  destruct Hall as [[[Hbody Hf] [(Hoff & Hk & Hp & He)|(Hoff & Hk & He & Hp)]]|(Hk & Hf & He & Hp & Hbody & Hmo)].
  all: rewrite Hk; cbn [is_session];
    repeat match goal with |- _ /\ _ => split end;
    try solve [ lia | intros; discriminate | intros; congruence | assumption
              | revert Fr; consts; lia | revert Hbody; consts; lia | consts; lia
              | exists fs; split; [assumption|intros X; try discriminate X; lia]
              | intros _; repeat split; auto; lia ].
Qed.

(* fragment numbers of one writeChunk count down to 0 and there are at most 256 of them *)
Lemma c14_fragment_numbers : forall mtu t mode len,
  mode_ok mode -> transport_ok t -> (t = C14_TransportPacket -> mtu_ok mtu) -> 0 < len <= C14_maxPDU ->
  exists segs, write_chunk mtu t mode len = (segs, Ok) /\
    map s_frag segs = countdown (length segs) /\ 1 <= Z.of_nat (length segs) <= C14_MaxUint8 + 1 /\
    Z.of_nat (length segs) < C14_segmentTreeCapacity /\ sum_body segs = len.
Proof.
  intros mtu t mode len Hm Ht Hmtu Hlen.
  destruct (frag_facts_in_range mtu t mode Hm Ht Hmtu) as [fs F].
  destruct (write_chunk_spec mtu t mode fs len F Hlen) as (segs & Hw & Hs & _ & Hfr & Hl).
  exists segs. repeat split; auto; consts; try lia. unfold C14_segmentTreeCapacity. lia.
Qed.

(* the numeric limits of the property text *)
Lemma c14_stream_limits : forall mtu,
  max_fragment mtu C14_TransportStream C14_ModeOff = Some 32768 /\
  max_fragment mtu C14_TransportStream C14_Mode32 = Some 32764 /\
  max_fragment mtu C14_TransportStream C14_Mode40 = Some 32768 /\
  max_fragment mtu C14_TransportStream C14_Mode48 = Some 32768 /\
  max_fragment mtu C14_TransportStream C14_Mode56 = Some 32768 /\
  le_encoded_len 32764 C14_Mode32 = Some 65528 /\ le_encoded_len 32768 C14_Mode32 = None /\
  le_encoded_len 32768 C14_Mode40 = Some 52432 /\ le_encoded_len 32768 C14_Mode48 = Some 43696 /\
  le_encoded_len 32768 C14_Mode56 = Some 37456.
Proof. intros mtu. repeat split; reflexivity. Qed.

(* ---------- plan_concat: fragmenting loses and duplicates nothing ---------- *)
Section BytesProofs.
  Context {A : Type}.

  Definition lens_ok (l : list (seg * list A)) : Prop :=
    Forall (fun sp => Z.of_nat (length (snd sp)) = s_body (fst sp)) l.

  Lemma sum_body_nonneg : forall segs, Forall (fun s => 0 <= s_body s) segs -> 0 <= sum_body segs.
  Proof. induction 1; cbn [sum_body fold_right]; [lia|]. fold (sum_body l). lia. Qed.

  Lemma attach_spec : forall segs (ptr : list A),
    Forall (fun s => 0 <= s_body s) segs -> sum_body segs = Z.of_nat (length ptr) ->
    map fst (attach segs ptr) = segs /\ concat (map snd (attach segs ptr)) = ptr /\ lens_ok (attach segs ptr).
  Proof.
    induction segs as [|s r IH]; intros ptr Hnn Hsum.
    - cbn in Hsum. destruct ptr; [|cbn in Hsum; lia]. repeat split; constructor.
    - inversion Hnn as [|? ? Hs Hr]; subst. cbn [sum_body fold_right] in Hsum. fold (sum_body r) in Hsum.
      pose proof (sum_body_nonneg r Hr) as Hr0.
      assert (Hk : (Z.to_nat (s_body s) <= length ptr)%nat) by lia.
      destruct (IH (skipn (Z.to_nat (s_body s)) ptr) Hr) as (I1 & I2 & I3).
      { rewrite skipn_length. lia. }
      cbn [attach map concat fst snd]. rewrite I1, I2, firstn_skipn. repeat split; auto.
      constructor; [|exact I3]. cbn [fst snd]. rewrite firstn_length. lia.
  Qed.

  Lemma data_segs_nonneg : forall mode fs segs, Forall (data_seg_ok mode fs) segs -> Forall (fun s => 0 <= s_body s) segs.
  Proof. intros mode fs segs H. eapply Forall_impl; [|exact H]. intros a [[Ha _] _]. lia. Qed.

  Lemma chunk_loop_bytes_spec : forall fuel mtu t mode fs (b : list A),
    frag_facts mtu t mode fs -> Z.of_nat (length b) <= Z.of_nat fuel * C14_maxPDU ->
    exists segs, chunk_loop_bytes fuel mtu t mode b = (segs, Z.of_nat (length b), Ok) /\
      map fst segs = fst (fst (chunk_loop fuel mtu t mode (Z.of_nat (length b)))) /\
      concat (map snd segs) = b /\ lens_ok segs.
  Proof.
    induction fuel as [|f IH]; intros mtu t mode fs b F Hf.
    - assert (Hb : length b = O) by (revert Hf; consts; lia). destruct b; [|discriminate].
      exists []. repeat split; constructor.
    - cbn [chunk_loop_bytes chunk_loop]. set (rem := Z.of_nat (length b)) in *.
      destruct (Z.leb_spec rem 0).
      + assert (Hb : length b = O) by lia. destruct b; [|discriminate].
        exists []. repeat split; try constructor; try reflexivity.
      + set (size := Z.min rem C14_maxPDU).
        assert (Hs : 0 < size <= C14_maxPDU) by (unfold size; consts; lia).
        destruct (write_chunk_spec mtu t mode fs size F Hs) as (wsegs & Hw & Hsum & Hall & _).
        rewrite Hw.
        assert (Hlen : Z.of_nat (length (skipn (Z.to_nat size) b)) = rem - size).
        { rewrite skipn_length. unfold rem, size in *. lia. }
        destruct (IH mtu t mode fs (skipn (Z.to_nat size) b) F) as (rest & Hr & Hm & Hc & Hl).
        { rewrite Hlen. unfold size. rewrite Nat2Z.inj_succ in Hf. revert Hf. consts. lia. }
        rewrite Hr. rewrite Hlen in Hm.
        destruct (attach_spec wsegs (firstn (Z.to_nat size) b) (data_segs_nonneg _ _ _ Hall)) as (A1 & A2 & A3).
        { rewrite firstn_length. unfold rem, size in *. lia. }
        eexists. split; [rewrite Hlen; f_equal; f_equal; lia|].
        destruct (chunk_loop f mtu t mode (rem - size)) as [[r w] o]. cbn [fst] in *.
        rewrite map_app, map_app, concat_app, A1, A2, Hm, Hc, firstn_skipn.
        repeat split; auto. apply Forall_app. split; assumption.
  Qed.

  Lemma plan_concat_lemma : forall is_client first mtu t mode (b : list A),
    mode_ok mode -> transport_ok t -> (t = C14_TransportPacket -> mtu_ok mtu) ->
    exists segs, plan_write is_client first mtu t mode b = (segs, Z.of_nat (length b), Ok) /\
      concat (map snd segs) = b /\
      map fst segs = fst (fst (write is_client first mtu t mode (Z.of_nat (length b)))) /\
      lens_ok segs.
  Proof.
    intros is_client first mtu t mode b Hm Ht Hmtu.
    destruct (frag_facts_in_range mtu t mode Hm Ht Hmtu) as [fs F].
    set (n := Z.of_nat (length b)). assert (Hn : 0 <= n) by (unfold n; lia).
    destruct (chunk_loop_bytes_spec (chunk_fuel n) mtu t mode fs b F (chunk_fuel_enough n Hn)) as (segs & Hc & Hmap & Hcat & Hl).
    fold n in Hc, Hmap. unfold plan_write, write. fold n.
    destruct (is_client && first).
    2:{ exists segs. repeat split; auto. }
    set (piggy := (mode =? C14_ModeOff) && (n <=? C14_MaxSessionOpenPayload)).
    destruct (Z.gtb_spec (if piggy then n else 0) 0) as [Hp|Hp].
    - destruct piggy; [|lia]. eexists. split; [reflexivity|]. cbn [map snd fst concat]. rewrite app_nil_r.
      repeat split; auto. constructor; [|constructor]. cbn [fst snd s_body]. reflexivity.
    - rewrite Hc. destruct (chunk_loop (chunk_fuel n) mtu t mode n) as [[r w] o]. cbn [fst] in *.
      eexists. split; [reflexivity|]. cbn [map snd fst concat app]. rewrite Hmap, Hcat.
      repeat split; auto. constructor; [|exact Hl]. cbn [fst snd s_body length].
      destruct piggy; lia.
  Qed.
End BytesProofs.

(* ---------- non-vacuity ---------- *)
Example ex_mtu_1400_off :
  let '(segs, w, o) := write true true 1400 C14_TransportPacket C14_ModeOff 4000 in
  map s_body segs = [0; 1312; 1312; 1312; 64] /\ map s_frag segs = [0; 3; 2; 1; 0] /\ w = 4000 /\ o = Ok /\
  dgram_len (nth 1 segs (control_seg KAck)) 0 0 = 1400 /\
  draws_okb 1400 C14_TransportPacket None None (nth 4 segs (control_seg KAck)) 255 255 = true /\
  dgram_len (nth 4 segs (control_seg KAck)) 255 255 = 662.
Proof. vm_compute. repeat split; reflexivity. Qed.

Example ex_mtu_1280_le32 :
  let '(segs, w, o) := write false false 1280 C14_TransportPacket C14_Mode32 1000 in
  map s_body segs = [596; 404] /\ map s_plen segs = [1192; 808] /\ map s_kind segs = [KDataLE; KDataLE] /\
  dgram_len (nth 0 segs (control_seg KAck)) 0 0 = 1280 /\ o = Ok /\ w = 1000.
Proof. vm_compute. repeat split; reflexivity. Qed.

Example ex_piggyback :
  write true true 1280 C14_TransportPacket C14_ModeOff 1024 = ([mkSeg KOpenReq 0 1024 0 1024], 1024, Ok) /\
  dgram_len (mkSeg KOpenReq 0 1024 0 1024) 0 168 = 1280 /\
  draws_okb 1280 C14_TransportPacket None None (mkSeg KOpenReq 0 1024 0 1024) 0 168 = true /\
  draws_okb 1280 C14_TransportPacket None None (mkSeg KOpenReq 0 1024 0 1024) 0 169 = false.
Proof. vm_compute. repeat split; reflexivity. Qed.

Example ex_plan_concat :
  let b := [1; 2; 3; 4; 5]%N in
  let '(segs, w, o) := plan_write false false 1280 C14_TransportPacket C14_Mode32 b in
  map snd segs = [b] /\ w = 5 /\ o = Ok.
Proof. vm_compute. repeat split; reflexivity. Qed.

(* out of range the model shows the code's other failure modes (not claimed by C14) *)
Example ex_out_of_range :
  snd (write_chunk 88 C14_TransportPacket C14_ModeOff 10) = Panic /\
  snd (write_chunk 95 C14_TransportPacket C14_Mode32 10) = Err /\
  (let '(segs, o) := write_chunk 96 C14_TransportPacket C14_Mode32 2000 in
   o = Ok /\ length segs = 500%nat /\ s_frag (nth 0 segs (control_seg KAck)) = 243).
Proof. vm_compute. repeat split; reflexivity. Qed.
