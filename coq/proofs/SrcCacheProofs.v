(* C07 — proofs about model/SrcCache.v. *)
From Coq Require Import List NArith ZArith Bool Lia ZifyN ZifyNat ZifyBool.
From M Require Import gen.Consts model.Discover model.SrcCache proofs.DiscoverProofs.
Import ListNotations.
Open Scope N_scope.

Ltac Zify.zify_post_hook ::= Z.div_mod_to_equations.

(* ---------- generic list facts ---------- *)

Lemma in_replace_nth {A} : forall i (x y : A) l, In y (replace_nth i x l) -> y = x \/ In y l.
Proof.
  induction i as [|i IH]; intros x y [|z r] H; cbn in H; try tauto.
  - destruct H as [H|H]; [left; congruence|right; right; exact H].
  - destruct H as [H|H]; [right; left; exact H|]. destruct (IH _ _ _ H); [left|right; right]; assumption.
Qed.

Lemma replace_nth_length {A} : forall i (x : A) l, length (replace_nth i x l) = length l.
Proof. induction i as [|i IH]; intros x [|z r]; cbn; auto. Qed.

Lemma nth_some_in {A} : forall i (l : list (option A)) e, nth i l None = Some e -> In (Some e) l.
Proof.
  induction i as [|i IH]; intros [|z r] e H; cbn in H; try discriminate.
  - left. exact H.
  - right. exact (IH _ _ H).
Qed.

Lemma first_index_spec {A} (p : A -> bool) d : forall l i, first_index p l = Some i -> p (nth i l d) = true.
Proof.
  induction l as [|x r IH]; intros i H; cbn in H; [discriminate|].
  destruct (p x) eqn:Hp.
  - inversion H; subst. exact Hp.
  - destruct (first_index p r) as [j|]; [|discriminate]. inversion H; subst. cbn. exact (IH _ eq_refl).
Qed.

(* ---------- ages ---------- *)

Lemma W32_val : W32 = 4294967296.
Proof. reflexivity. Qed.

Lemma age_lt : forall now t, age now t < W32.
Proof. intros. unfold age. apply N.mod_lt. rewrite W32_val. discriminate. Qed.

(* the wrap-around, precisely: for real (unbounded) tick counts T0 <= Tn the code's age is the
   elapsed time modulo 2^32 *)
Lemma age_real : forall T0 Tn, T0 <= Tn -> age (Tn mod W32) (T0 mod W32) = (Tn - T0) mod W32.
Proof.
  intros T0 Tn H. unfold age. rewrite W32_val.
  rewrite !N.mod_mod by discriminate. lia.
Qed.

Lemma age_real_small : forall T0 Tn, T0 <= Tn -> Tn - T0 < W32 -> age (Tn mod W32) (T0 mod W32) = Tn - T0.
Proof. intros T0 Tn H1 H2. rewrite age_real by exact H1. apply N.mod_small. exact H2. Qed.

(* an association 2^32 + 5 ticks old is taken for 5 ticks old (136 years of process uptime) *)
Example age_alias : age ((7 + 2 ^ 32 + 5) mod W32) (7 mod W32) = 5.
Proof. vm_compute. reflexivity. Qed.

Lemma not_expired_lt : forall now t, expired now t = false -> age now t < life.
Proof. intros now t H. unfold expired in H. apply N.leb_gt. exact H. Qed.

(* ---------- lookup: where returned ids come from ---------- *)

Lemma upd_dup_fst : forall id a cs cs', upd_dup id a cs = Some cs' -> map fst cs' = map fst cs.
Proof.
  induction cs as [|[i b] r IH]; intros cs' H; cbn in H; [discriminate|].
  destruct (i =? id).
  - inversion H; subst. reflexivity.
  - destruct (upd_dup id a r) as [r'|]; [|discriminate]. inversion H; subst. cbn. f_equal. exact (IH _ eq_refl).
Qed.

Lemma collect_fst : forall now slots acc id,
  In id (map fst (collect now slots acc)) ->
  In id (map fst acc) \/ exists seen, In (id, seen) slots /\ id <> 0 /\ expired now seen = false.
Proof.
  induction slots as [|[i seen] r IH]; intros acc id H; cbn [collect] in H; [left; exact H|].
  assert (Lift : (exists s, In (id, s) r /\ id <> 0 /\ expired now s = false) ->
                 exists s, In (id, s) ((i, seen) :: r) /\ id <> 0 /\ expired now s = false).
  { intros [s [A B]]. exists s. split; [right; exact A|exact B]. }
  destruct ((i =? 0) || expired now seen) eqn:Hs.
  - destruct (IH _ _ H) as [A|A]; [left; exact A|right; exact (Lift A)].
  - apply orb_false_iff in Hs. destruct Hs as [Hz He]. apply N.eqb_neq in Hz.
    destruct (upd_dup i (age now seen) acc) as [acc'|] eqn:Hu.
    + destruct (IH _ _ H) as [A|A]; [|right; exact (Lift A)].
      rewrite (upd_dup_fst _ _ _ _ Hu) in A. left. exact A.
    + destruct (IH _ _ H) as [A|A]; [|right; exact (Lift A)].
      rewrite map_app, in_app_iff in A. destruct A as [A|[A|[]]]; [left; exact A|].
      cbn in A. subst i. right. exists seen. split; [left; reflexivity|auto].
Qed.

Lemma upd_dup_length : forall id a cs cs', upd_dup id a cs = Some cs' -> length cs' = length cs.
Proof.
  intros id a cs cs' H. pose proof (f_equal (@length N) (upd_dup_fst _ _ _ _ H)) as E.
  rewrite !map_length in E. exact E.
Qed.

Lemma collect_length : forall now slots acc, (length (collect now slots acc) <= length acc + length slots)%nat.
Proof.
  induction slots as [|[i seen] r IH]; intros acc; cbn [collect length]; [lia|].
  destruct ((i =? 0) || expired now seen); [specialize (IH acc); lia|].
  destruct (upd_dup i (age now seen) acc) as [acc'|] eqn:Hu.
  - specialize (IH acc'). rewrite (upd_dup_length _ _ _ _ Hu) in IH. lia.
  - specialize (IH (acc ++ [(i, age now seen)])). rewrite app_length in IH. cbn in IH. lia.
Qed.

Lemma insert_in : forall x y l, In y (insert x l) <-> y = x \/ In y l.
Proof.
  induction l as [|z r IH]; cbn [insert].
  - cbn. intuition.
  - destruct (snd x <? snd z); cbn [In]; [intuition|]. rewrite IH. intuition.
Qed.

Lemma insert_length : forall x l, length (insert x l) = S (length l).
Proof.
  induction l as [|z r IH]; cbn [insert]; [reflexivity|].
  destruct (snd x <? snd z); cbn [length]; [reflexivity|]. rewrite IH. reflexivity.
Qed.

Lemma sort_in_gen : forall cs acc y, In y (fold_left (fun a x => insert x a) cs acc) <-> In y cs \/ In y acc.
Proof.
  induction cs as [|c r IH]; intros acc y; cbn [fold_left]; [cbn; intuition|].
  rewrite IH, insert_in. cbn [In]. intuition.
Qed.

Lemma sort_length_gen : forall cs acc, length (fold_left (fun a x => insert x a) cs acc) = (length cs + length acc)%nat.
Proof.
  induction cs as [|c r IH]; intros acc; cbn [fold_left length]; [reflexivity|].
  rewrite IH, insert_length. lia.
Qed.

Lemma lookup_entry_sound : forall now e id,
  In id (lookup_entry now e) ->
  id <> 0 /\ exists seen, In (id, seen) (e_slots e) /\ age now seen < life.
Proof.
  intros now e id H. unfold lookup_entry in H.
  destruct (expired now (e_last e)); [destruct H|].
  apply in_map_iff in H. destruct H as [[i a] [Hi Hin]]. cbn in Hi. subst i.
  unfold sort_by_age in Hin. apply sort_in_gen in Hin. destruct Hin as [Hin|[]].
  assert (Hf : In id (map fst (collect now (e_slots e) []))) by (apply in_map_iff; exists (id, a); auto).
  destruct (collect_fst _ _ _ _ Hf) as [[]|[seen [A [B C]]]].
  split; [exact B|]. exists seen. split; [exact A|exact (not_expired_lt _ _ C)].
Qed.

Lemma lookup_entry_length : forall now e, (length (lookup_entry now e) <= length (e_slots e))%nat.
Proof.
  intros. unfold lookup_entry. destruct (expired now (e_last e)); [cbn; lia|].
  rewrite map_length. unfold sort_by_age. rewrite sort_length_gen. cbn [length].
  pose proof (collect_length now (e_slots e) []). cbn [length] in *. lia.
Qed.

Lemma find_way_spec : forall key ws e, find_way key ws = Some e -> e_key e = key /\ In (Some e) ws.
Proof.
  induction ws as [|[e0|] r IH]; intros e H; cbn in H; [discriminate| |].
  - destruct (N.eqb_spec (e_key e0) key) as [Hk|Hk].
    + inversion H; subst. split; [reflexivity|left; reflexivity].
    + destruct (IH _ H) as [A B]. split; [exact A|right; exact B].
  - destruct (IH _ H) as [A B]. split; [exact A|right; exact B].
Qed.

(* ---------- the invariant over histories ---------- *)

(* every non-empty slot of every entry was written by a record operation of the history for that
   entry's key, with that user id, at that tick; every entry has exactly nusers slots *)
Definition inv (H : list op) (t : table) : Prop :=
  forall b bk e, In (b, bk) t -> In (Some e) bk ->
    length (e_slots e) = nusers /\
    forall id tk, In (id, tk) (e_slots e) -> id <> 0 -> In (ORecord (e_key e) id tk) H.

Definition inv_opt (H : list op) (t : option table) : Prop :=
  match t with Some t => inv H t | None => True end.

Lemma inv_mono : forall H H' t, inv H t -> inv (H ++ H') t.
Proof.
  intros H H' t I b bk e Hb He. destruct (I b bk e Hb He) as [L S]. split; [exact L|].
  intros id tk Hin Hz. apply in_or_app. left. exact (S id tk Hin Hz).
Qed.

Lemma get_bucket_in : forall t b e, In (Some e) (get_bucket t b) -> exists b' bk, In (b', bk) t /\ In (Some e) bk.
Proof.
  intros t b e H. unfold get_bucket in H.
  destruct (find (fun p => fst p =? b) t) as [[b' bk]|] eqn:Hf.
  - apply find_some in Hf. destruct Hf as [Hin _]. exists b', bk. split; [exact Hin|exact H].
  - unfold empty_bucket in H. apply repeat_spec in H. discriminate.
Qed.

Lemma nusers_pos : nusers = S (nusers - 1).
Proof. reflexivity. Qed.

Lemma record_user_in : forall uid now slots s, In s (record_user uid now slots) -> s = (uid, now) \/ In s slots.
Proof.
  intros uid now slots s H. unfold record_user in H.
  destruct (choose_slot uid now slots); [exact (in_replace_nth _ _ _ _ H)|right; exact H].
Qed.

Lemma record_user_length : forall uid now slots, length (record_user uid now slots) = length slots.
Proof. intros. unfold record_user. destruct (choose_slot uid now slots); [apply replace_nth_length|reflexivity]. Qed.

Lemma record_bucket_inv : forall H t b key uid now e,
  inv H t ->
  In (Some e) (record_bucket key uid now (get_bucket t b)) ->
  length (e_slots e) = nusers /\
  forall id tk, In (id, tk) (e_slots e) -> id <> 0 -> In (ORecord (e_key e) id tk) (H ++ [ORecord key uid now]).
Proof.
  intros H t b key uid now e I Hin.
  assert (Old : forall e', In (Some e') (get_bucket t b) ->
                length (e_slots e') = nusers /\
                forall id tk, In (id, tk) (e_slots e') -> id <> 0 -> In (ORecord (e_key e') id tk) (H ++ [ORecord key uid now])).
  { intros e' Hg. destruct (get_bucket_in _ _ _ Hg) as [b' [bk [A B]]].
    exact (inv_mono H [ORecord key uid now] t I b' bk e' A B). }
  unfold record_bucket in Hin.
  destruct (first_index (way_matches key) (get_bucket t b)) as [i|] eqn:Hm.
  - destruct (nth i (get_bucket t b) None) as [e0|] eqn:Hn; [|exact (Old _ Hin)].
    apply in_replace_nth in Hin. destruct Hin as [Heq|Hin]; [|exact (Old _ Hin)].
    inversion Heq; subst e. cbn [e_slots e_key].
    pose proof (first_index_spec (way_matches key) None _ _ Hm) as Hk. rewrite Hn in Hk. cbn in Hk.
    apply N.eqb_eq in Hk.
    destruct (Old _ (nth_some_in _ _ _ Hn)) as [L S].
    split; [rewrite record_user_length; exact L|].
    intros id tk Hs Hz. apply record_user_in in Hs. destruct Hs as [Hs|Hs]; [|exact (S id tk Hs Hz)].
    inversion Hs; subst. apply in_or_app. right. left. reflexivity.
  - destruct (select_way now (get_bucket t b)) as [i|]; [|exact (Old _ Hin)].
    apply in_replace_nth in Hin. destruct Hin as [Heq|Hin]; [|exact (Old _ Hin)].
    inversion Heq; subst e. unfold new_entry. cbn [e_slots e_key]. split.
    + cbn [length]. rewrite repeat_length. symmetry. exact nusers_pos.
    + intros id tk [Hs|Hs] Hz.
      * inversion Hs; subst. apply in_or_app. right. left. reflexivity.
      * apply repeat_spec in Hs. inversion Hs; subst. congruence.
Qed.

Lemma step_inv : forall bidx H t o, inv_opt H t -> inv_opt (H ++ [o]) (step bidx t o).
Proof.
  intros bidx H t o I. destruct o as [key uid now|]; cbn [step]; [|exact Logic.I].
  unfold record. destruct (uid =? 0).
  - destruct t as [t|]; [|exact Logic.I]. exact (inv_mono _ _ _ I).
  - destruct t as [t|]; [|exact Logic.I]. cbn [inv_opt] in *.
    intros b bk e Hb He. unfold set_bucket in Hb. destruct Hb as [Hb|Hb].
    + inversion Hb; subst. exact (record_bucket_inv _ _ _ _ _ _ _ I He).
    + apply filter_In in Hb. destruct Hb as [Hb _].
      exact (inv_mono H [ORecord key uid now] t I b bk e Hb He).
Qed.

Lemma run_inv_gen : forall bidx ops H t, inv_opt H t -> inv_opt (H ++ ops) (fold_left (step bidx) ops t).
Proof.
  induction ops as [|o r IH]; intros H t I; cbn [fold_left].
  - rewrite app_nil_r. exact I.
  - replace (H ++ o :: r) with ((H ++ [o]) ++ r) by (rewrite <- app_assoc; reflexivity).
    apply IH. apply step_inv. exact I.
Qed.

Lemma run_inv : forall bidx ops, inv_opt ops (run bidx ops).
Proof.
  intros. unfold run. apply (run_inv_gen bidx ops [] (Some [])). intros b bk e [].
Qed.

(* ---------- cache_lookup_sound ---------- *)

(* Every id a lookup returns for a key was recorded for exactly that key by an earlier
   recordAuthenticated of this generation's cache, at a tick whose wrapped age is below the
   lifetime.  Holds for every history (arbitrary tick sequences, including wrap and ticks going
   backwards), every key-to-bucket function and every lookup tick. *)
Theorem cache_lookup_sound : forall bidx ops key now id,
  In id (lookup bidx (run bidx ops) key now) ->
  id <> 0 /\ exists t, In (ORecord key id t) ops /\ age now t < life.
Proof.
  intros bidx ops key now id H. pose proof (run_inv bidx ops) as I.
  unfold lookup in H. destruct (run bidx ops) as [t|]; [|destruct H]. cbn [inv_opt] in I.
  destruct (find_way key (get_bucket t (bidx key))) as [e|] eqn:Hf; [|destruct H].
  destruct (find_way_spec _ _ _ Hf) as [Hk Hin].
  destruct (get_bucket_in _ _ _ Hin) as [b' [bk [A B]]].
  destruct (I b' bk e A B) as [_ S].
  destruct (lookup_entry_sound _ _ _ H) as [Hz [seen [Hs Ha]]].
  split; [exact Hz|]. exists seen. split; [|exact Ha]. rewrite <- Hk. exact (S id seen Hs Hz).
Qed.

(* the same in real time: if the recording happened at most 2^32 - 1 ticks before the lookup the
   association is really younger than the lifetime *)
Corollary cache_lookup_sound_real : forall bidx ops key Tn id,
  In id (lookup bidx (run bidx ops) key (Tn mod W32)) ->
  exists t, In (ORecord key id t) ops /\
    forall T0, t = T0 mod W32 -> T0 <= Tn -> Tn - T0 < W32 -> Tn - T0 < life.
Proof.
  intros bidx ops key Tn id H. destruct (cache_lookup_sound _ _ _ _ _ H) as [_ [t [A B]]].
  exists t. split; [exact A|]. intros T0 -> H1 H2. rewrite age_real_small in B; assumption.
Qed.

(* a lookup never returns more ids than tryState's attempted array holds *)
Theorem cache_lookup_bounded : forall bidx ops key now,
  N.of_nat (length (lookup bidx (run bidx ops) key now)) <= att_cap.
Proof.
  intros bidx ops key now. pose proof (run_inv bidx ops) as I.
  assert (Hc : N.of_nat nusers = att_cap) by reflexivity.
  unfold lookup. destruct (run bidx ops) as [t|]; [|cbn; lia]. cbn [inv_opt] in I.
  destruct (find_way key (get_bucket t (bidx key))) as [e|] eqn:Hf; [|cbn; lia].
  destruct (find_way_spec _ _ _ Hf) as [_ Hin].
  destruct (get_bucket_in _ _ _ Hin) as [b' [bk [A B]]].
  destruct (I b' bk e A B) as [L _].
  pose proof (lookup_entry_length now e). lia.
Qed.

(* a retired cache answers nothing and records nothing *)
Theorem cache_retired_inert : forall bidx ops ops' key now,
  lookup bidx (fold_left (step bidx) ops' (run bidx (ops ++ [ORetire]))) key now = [].
Proof.
  intros. unfold run. rewrite fold_left_app. cbn [fold_left step].
  assert (Hn : forall l, fold_left (step bidx) l None = None).
  { induction l as [|o r IH]; [reflexivity|]. cbn [fold_left]. destruct o as [k u n|]; cbn [step]; [|exact IH].
    unfold record. destruct (u =? 0); exact IH. }
  rewrite Hn. reflexivity.
Qed.

(* tryState on what a reachable cache returns: nobody is tried twice *)
Theorem attr_once_reachable : forall U (hint auth : U -> bool) users mandatory bidx ops key now,
  NoDup (r_tried (try_state U hint auth users (lookup bidx (run bidx ops) key now) mandatory)).
Proof. intros. apply attr_once. apply cache_lookup_bounded. Qed.

(* ---------- non-vacuity ---------- *)

Definition ex_bidx (k : N) : N := k mod 2.
Definition ex_ops : list op :=
  [ORecord 100 3 10; ORecord 100 5 20; ORecord 102 7 25; ORecord 100 3 30; ORecord 101 9 31].

Example ex_lookup_mru : lookup ex_bidx (run ex_bidx ex_ops) 100 40 = [3; 5].
Proof. vm_compute. reflexivity. Qed.

Example ex_lookup_other_key_same_bucket : lookup ex_bidx (run ex_bidx ex_ops) 102 40 = [7].
Proof. vm_compute. reflexivity. Qed.

Example ex_lookup_user_expiry : lookup ex_bidx (run ex_bidx ex_ops) 100 (20 + 600) = [3].
Proof. vm_compute. reflexivity. Qed.

Example ex_lookup_source_expiry : lookup ex_bidx (run ex_bidx ex_ops) 100 (30 + 600) = [].
Proof. vm_compute. reflexivity. Qed.

(* the tick wraps between the record and the lookup *)
Example ex_lookup_wrap :
  lookup ex_bidx (run ex_bidx [ORecord 100 3 (2 ^ 32 - 5)]) 100 594 = [3] /\
  lookup ex_bidx (run ex_bidx [ORecord 100 3 (2 ^ 32 - 5)]) 100 595 = [].
Proof. vm_compute. split; reflexivity. Qed.

(* five sources in one bucket: the least recently active way is replaced *)
Example ex_way_replacement :
  let ops := [ORecord 0 1 10; ORecord 2 2 11; ORecord 4 3 12; ORecord 6 4 13; ORecord 0 1 14; ORecord 8 5 15] in
  lookup ex_bidx (run ex_bidx ops) 2 16 = [] /\ lookup ex_bidx (run ex_bidx ops) 0 16 = [1] /\
  lookup ex_bidx (run ex_bidx ops) 8 16 = [5].
Proof. vm_compute. repeat split; reflexivity. Qed.

(* seventeen users from one source: the oldest of the sixteen is replaced *)
Example ex_user_eviction :
  let ops := map (fun i => ORecord 100 (N.of_nat i) (N.of_nat i)) (seq 1 17) in
  lookup ex_bidx (run ex_bidx ops) 100 18 = map N.of_nat (rev (seq 2 16)).
Proof. vm_compute. reflexivity. Qed.
