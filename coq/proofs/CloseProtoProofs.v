(* C03: proofs about model/CloseProto.v *)
From Coq Require Import List ZArith NArith Bool Lia.
From M Require Import gen.Consts model.CloseProto.
Import ListNotations.
Open Scope N_scope.

(* ------------------------------------------------------------------ the desired statement *)

(* If Write succeeded for all of w (written = n) and the peer's Read returned EOF, the peer has read all of w. *)
Definition no_clean_truncation (c : cfg) : Prop :=
  forall sched st, run c init sched = Some st -> written st = c_n c -> rd st = REof -> complete c st.

(* a clean end-of-stream after a strict prefix, with no error anywhere at the peer *)
Definition clean_truncation (c : cfg) (st : state) : Prop :=
  written st = c_n c /\ rd st = REof /\ rerr st = false /\
  exists rest, rest <> [] /\ all_segments c = read_so_far st ++ rest.

Lemma clean_truncation_not_complete : forall c st, clean_truncation c st -> ~ complete c st.
Proof.
  intros c st (_ & _ & _ & rest & Hne & Heq) Hc. unfold complete in Hc. rewrite Hc in Heq.
  rewrite <- (app_nil_r (all_segments c)) in Heq at 1. apply app_inv_head in Heq. congruence.
Qed.

(* ------------------------------------------------------------------ witnesses (current tree) *)

Definition udp3 : cfg := current_cfg UDP 3 16 0.
Definition udp3_win1 : cfg := current_cfg UDP 3 1 0.
Definition tcp3 : cfg := current_cfg TCP 3 0 0.

(* (a) one data datagram lost: it is never retransmitted because sendBuf is discarded once the close request has been
   transmitted; the peer acts on the close request although segment 1 is missing *)
Definition w_udp_loss : list choice :=
  [CWrite; CWrite; CWrite; CClose; ONew; ONew; ONew; ONew; CTick; DUdp 0; DUdp 2; DUdp 3; RTest; RTest; RWaitClosed].

Lemma udp_loss_refuted :
  exists sched st, run udp3 init sched = Some st /\ clean_truncation udp3 st /\ cph st = CClosed /\ discarded st = false
                   /\ read_so_far st = [0].
Proof.
  exists w_udp_loss. eexists. split; [vm_compute; reflexivity|].
  repeat split; try reflexivity. exists [1; 2]. split; [discriminate | reflexivity].
Qed.

(* (a') nothing is lost or duplicated: the close request merely overtakes two data datagrams *)
Definition w_udp_reorder : list choice :=
  [CWrite; CWrite; CWrite; CClose; ONew; ONew; ONew; ONew; CTick; DUdp 0; DUdp 3; DUdp 1; DUdp 2; RTest; RTest; RWaitClosed].

Lemma udp_reorder_refuted :
  exists sched st, run udp3 init sched = Some st /\ clean_truncation udp3 st /\ read_so_far st = [0].
Proof.
  exists w_udp_reorder. eexists. split; [vm_compute; reflexivity|].
  repeat split; try reflexivity. exists [1; 2]. split; [discriminate | reflexivity].
Qed.

(* (b) the send window stays closed for the whole bounded wait: the rest of the queue is discarded and the close request
   is written directly; the network loses nothing *)
Definition w_udp_window : list choice :=
  [CWrite; CWrite; CWrite; CClose; ONew] ++ repeat_choice CTick (N.to_nat close_wait_iterations) ++
  [CForce; DUdp 0; DUdp 1; RTest; RTest; RWaitClosed].

Lemma udp_window_refuted :
  exists sched st, run udp3_win1 init sched = Some st /\ clean_truncation udp3_win1 st /\ discarded st = true
                   /\ ticks st = close_wait_iterations /\ read_so_far st = [0].
Proof.
  exists w_udp_window. eexists. split; [vm_compute; reflexivity|].
  repeat split; try reflexivity. exists [1; 2]. split; [discriminate | reflexivity].
Qed.

(* (d) the peer's receive window is exhausted (its application has not read yet): a datagram that arrives, in order, on a
   loss-free network is dropped by inputData; the closer has discarded sendBuf; the close request is acted upon.
   Scaled down: capacity 2 instead of segmentTreeCapacity; the driver shows it with 4097 one-segment writes. *)
Definition udp3_rcap2 : cfg := mkCfg UDP 3 close_wait_iterations true false 16 0 2 true.
Definition w_udp_rwindow : list choice :=
  [CWrite; CWrite; CWrite; CClose; ONew; ONew; ONew; ONew; CTick; DUdp 0; DUdp 1; DUdp 2; DUdp 3; RTest; RTest; RTest; RWaitClosed].

Lemma udp_receive_window_refuted :
  exists sched st, run udp3_rcap2 init sched = Some st /\ clean_truncation udp3_rcap2 st /\ discarded st = false
                   /\ gap st = true /\ read_so_far st = [0; 1].
Proof.
  exists w_udp_rwindow. eexists. split; [vm_compute; reflexivity|].
  repeat split; try reflexivity. exists [2]. split; [discriminate | reflexivity].
Qed.

(* TCP: only a schedule in which the output loop does not take oLock during the whole wait truncates *)
Definition w_tcp_starved : list choice :=
  [CWrite; CWrite; CWrite; CClose] ++ repeat_choice CTick (N.to_nat close_wait_iterations) ++ [CForce; DTcp; RTest; RWaitClosed].

Lemma tcp_starved_refuted :
  exists sched st, run tcp3 init sched = Some st /\ clean_truncation tcp3 st /\ discarded st = true /\ read_so_far st = [].
Proof.
  exists w_tcp_starved. eexists. split; [vm_compute; reflexivity|].
  repeat split; try reflexivity. exists [0; 1; 2]. split; [discriminate | reflexivity].
Qed.

(* TCP back-pressure is harmless: while the output loop is inside its drain (oLock held), the direct write is not enabled *)
Lemma tcp_force_needs_olock : forall c st, olock st = true -> step c st CForce = None.
Proof. intros c st H. unfold step. destruct (cph st); try reflexivity. rewrite H. reflexivity. Qed.

Definition tcp3_cap1 : cfg := current_cfg TCP 3 0 1.
(* a bounded pipe that is full for longer than the wait: Close stays blocked, nothing is discarded, the peer reads everything *)
Definition w_tcp_backpressure : list choice :=
  [CWrite; CWrite; CWrite; CClose; OStart; OSeg] ++ repeat_choice CTick (N.to_nat close_wait_iterations) ++
  [DTcp; OSeg; DTcp; OSeg; DTcp; OSeg; OSeg; CForce; DTcp; RTest; RTest; RTest; RTest; RWaitClosed].

Lemma tcp_backpressure_example :
  exists st, run tcp3_cap1 init w_tcp_backpressure = Some st /\ rd st = REof /\ complete tcp3_cap1 st /\ discarded st = false
             /\ ticks st = close_wait_iterations.
Proof. eexists. split; [vm_compute; reflexivity|]. repeat split; reflexivity. Qed.

(* ------------------------------------------------------------------ witnesses (tree before the two fixes) *)

Definition tcp1_before : cfg := prefix_cfg TCP 1 0 0.
Definition tcp1 : cfg := current_cfg TCP 1 0 0.

(* (c) Read tests the queue (empty), the input loop then queues the last segment and closes, the select takes the closed case *)
Definition w_tcp_race : list choice :=
  [CWrite; CClose; OStart; OSeg; OSeg; OSeg; CTick; RTest; DTcp; DTcp; RWaitClosed].

Lemma tcp_read_race_refuted_before_fix :
  exists sched st, run tcp1_before init sched = Some st /\ clean_truncation tcp1_before st /\ rqueue st = [0] /\ discarded st = false.
Proof.
  exists w_tcp_race. eexists. split; [vm_compute; reflexivity|].
  repeat split; try reflexivity. exists [0]. split; [discriminate | reflexivity].
Qed.

(* the same schedule on the current tree: the closed case re-tests the queue and Read goes on *)
Lemma tcp_read_race_now :
  exists st, run tcp1 init (w_tcp_race ++ [RTest; RTest; RWaitClosed]) = Some st /\ rd st = REof /\ complete tcp1 st.
Proof. eexists. split; [vm_compute; reflexivity|]. split; reflexivity. Qed.

(* an ack (seq = nextSend-1 = the queued close request's number) went through output() and ended the wait at once:
   Close returns after one iteration, two data segments and the close request itself are discarded unsent *)
Definition udp3_before : cfg := prefix_cfg UDP 3 1 0.
Definition w_udp_ackstamp : list choice := [CWrite; CWrite; CWrite; CClose; ONew; OAck; CTick].

Lemma udp_ack_stamp_refuted_before_fix :
  exists sched st, run udp3_before init sched = Some st /\ cph st = CClosed /\ ticks st = 0 /\ discarded st = true
                   /\ udpnet st = [Data 0] /\ queue st = [].
Proof. exists w_udp_ackstamp. eexists. split; [vm_compute; reflexivity|]. repeat split; reflexivity. Qed.

Lemma udp_ack_stamp_now :
  exists st, run udp3_win1 init w_udp_ackstamp = Some st /\ cph st = CWait /\ discarded st = false
             /\ queue st = [Data 1; Data 2; CloseReq 3].
Proof. eexists. split; [vm_compute; reflexivity|]. repeat split; reflexivity. Qed.

(* ------------------------------------------------------------------ abnormal close *)

(* what the code guarantees: while inputErr is closed and closedChan is not, no step makes Read return EOF *)
Lemma error_is_not_eof_step : forall c st ch st',
  step c st ch = Some st' -> rerr st = true -> rclosed st = false -> rd st <> REof -> rd st' <> REof \/ rclosed st' = true.
Proof.
  intros c st ch st' H He Hc Hr.
  destruct ch; unfold step in H;
    repeat match type of H with
           | context [match ?x with _ => _ end] => destruct x eqn:?; try discriminate
           end;
    try (inversion H; subst; clear H; cbn; auto; fail);
    try (inversion H; subst; clear H; unfold recv_input; cbn; rewrite ?He, ?Hc, ?orb_true_r; cbn; auto; fail).
  all: try (inversion H; subst; clear H; left; cbn; congruence).
  all: try (inversion H; subst; clear H; unfold finish; cbn; left; destruct (c_tr c); cbn; assumption).
  all: try congruence.
Qed.

(* ... and no more than that: once closeWithError(err) has closed closedChan too, the select may take either case *)
Definition tcp2 : cfg := current_cfg TCP 2 0 0.
Definition w_err_eof : list choice :=
  [CWrite; CWrite; OStart; OSeg; DTcp; RInputErr; RErrClose; RTest; RTest; RWaitClosed].

Lemma input_error_can_read_as_eof :
  exists sched st, run tcp2 init sched = Some st /\ rerr st = true /\ rd st = REof /\ read_so_far st = [0] /\ written st = c_n tcp2.
Proof. exists w_err_eof. eexists. split; [vm_compute; reflexivity|]. repeat split; reflexivity. Qed.

(* ------------------------------------------------------------------ invariant *)

Lemma iota_snoc : forall k a, iota a (S k) = iota a k ++ [a + N.of_nat k].
Proof.
  induction k as [|k IH]; intros a.
  - cbn. rewrite N.add_0_r. reflexivity.
  - change (iota a (S (S k))) with (a :: iota (a + 1) (S k)). rewrite IH. cbn [iota app].
    f_equal. f_equal. f_equal. lia.
Qed.

Lemma iota_next : forall nr, iota 0 (N.to_nat (nr + 1)) = iota 0 (N.to_nat nr) ++ [nr].
Proof.
  intros nr. replace (N.to_nat (nr + 1)) with (S (N.to_nat nr)) by lia.
  rewrite iota_snoc. rewrite N2Nat.id. reflexivity.
Qed.

Lemma flush_inv : forall fuel pre nr rb rq nr' rb' rq',
  flush fuel nr rb rq = (nr', rb', rq') ->
  pre ++ rq = iota 0 (N.to_nat nr) -> pre ++ rq' = iota 0 (N.to_nat nr').
Proof.
  induction fuel as [|f IH]; intros pre nr rb rq nr' rb' rq' H Hp; cbn in H.
  - inversion H; subst. assumption.
  - destruct (memN nr rb).
    + eapply IH; [exact H|]. rewrite app_assoc, Hp. symmetry. apply iota_next.
    + inversion H; subst. assumption.
Qed.

(* a = the schedule treats Read as atomic *)
Definition INV (a : bool) (c : cfg) (st : state) : Prop :=
  (ooo st = false -> rev (rlog st) ++ rqueue st = iota 0 (N.to_nat (nextRecv st))) /\
  (rclosed st = true -> rerr st = false -> gap st = false -> nextRecv st = c_n c) /\
  (rd st = REof -> rclosed st = true /\ rqueue st = []) /\
  (a = true -> rd st <> RTested).

Lemma inv_init : forall a c, INV a c init.
Proof. intros a c. unfold INV; cbn. repeat split; try discriminate; auto. Qed.

Lemma inv_set_sender : forall a c st w q b ns ls ph tk cs ol tn un,
  INV a c st -> INV a c (set_sender st w q b ns ls ph tk cs ol tn un).
Proof. intros. exact H. Qed.

Lemma inv_set_inflight : forall a c st q x ol, INV a c st -> INV a c (set_inflight st q x ol).
Proof. intros. exact H. Qed.

Lemma inv_finish : forall a c st, INV a c st -> INV a c (finish st).
Proof. intros. exact H. Qed.

Lemma inv_recv_input : forall a c st s, INV a c st -> INV a c (recv_input c st s).
Proof.
  intros a c st s (I1 & I2 & I3 & I4). unfold recv_input.
  destruct (rclosed st || rerr st) eqn:E; [exact (conj I1 (conj I2 (conj I3 I4)))|].
  apply orb_false_elim in E. destruct E as [Ec Ee].
  assert (Hne : rd st <> REof) by (intro X; destruct (I3 X); congruence).
  destruct s as [q|q].
  - destruct (c_tr c).
    + (* TCP *) unfold INV; cbn. repeat split; try discriminate; try assumption; try (intro; contradiction); try (exfalso; apply Hne; assumption).
      intro Ho. apply orb_false_elim in Ho. destruct Ho as [Ho Hq].
      apply negb_false_iff, N.eqb_eq in Hq. subst q.
      rewrite app_assoc, (I1 Ho). symmetry. apply iota_next.
    + (* UDP *) destruct (q <? nextRecv st); [|destruct (c_rcap c <=? lenN (rbuf st) + lenN (rqueue st))].
      * unfold INV; cbn. repeat split; try discriminate; try assumption; try (intro; contradiction); try (exfalso; apply Hne; assumption).
      * unfold INV; cbn. repeat split; try discriminate; try assumption; try (intro; contradiction); try (exfalso; apply Hne; assumption).
      * destruct (flush (S (length (if memN q (rbuf st) then rbuf st else q :: rbuf st))) (nextRecv st)
                        (if memN q (rbuf st) then rbuf st else q :: rbuf st) (rqueue st)) as [[nr rb'] rq'] eqn:F.
        unfold INV; cbn. repeat split; try discriminate; try assumption; try (intro; contradiction); try (exfalso; apply Hne; assumption).
        intro Ho. eapply flush_inv; [exact F|]. exact (I1 Ho).
  - unfold INV; cbn. repeat split; try assumption; try (intro; contradiction); try (exfalso; apply Hne; assumption).
    intros _ _ Hg. apply orb_false_elim in Hg. destruct Hg as [_ Hg].
    apply negb_false_iff, N.eqb_eq in Hg. exact Hg.
Qed.

Ltac des H :=
  repeat match type of H with
         | context [match ?x with _ => _ end] => destruct x eqn:?; try discriminate
         end.

Ltac solve_inv :=
  unfold INV; cbn; repeat split;
  try discriminate; try assumption; try congruence;
  try (let Ho := fresh "Ho" in intros Ho; match goal with I1 : ooo _ = false -> _ |- _ => rewrite <- (I1 Ho) end;
       repeat match goal with E : rqueue _ = _ |- _ => rewrite E end; cbn; rewrite <- ?app_assoc; reflexivity);
  try (match goal with X : rd _ = REof, I3 : rd _ = REof -> _ |- _ => destruct (I3 X); try assumption; try congruence end);
  try (let X := fresh "X" in intro X; match goal with I3 : rd _ = REof -> _ |- _ => destruct (I3 X); try assumption; try congruence end);
  try (match goal with E : (_ && _) = true |- _ => apply andb_true_iff in E; destruct E; intros; congruence end);
  try (match goal with E : (_ && negb _) = true, X : rd _ = REof, I3 : rd _ = REof -> _ |- _ =>
         apply andb_true_iff in E; destruct E as [_ E]; apply negb_true_iff in E; destruct (I3 X); congruence end).

Lemma inv_step : forall a c st ch st',
  INV a c st -> (c_retest c = true \/ a = true) -> (a = true -> is_rtest ch = false) ->
  step c st ch = Some st' -> INV a c st'.
Proof.
  intros a c st ch st' I Hra Hat H.
  destruct ch; unfold step in H.
  - (* CWrite *) des H. inversion H; subst. apply inv_set_sender; assumption.
  - (* CClose *) des H. inversion H; subst. apply inv_set_sender; assumption.
  - (* CTick *) des H; inversion H; subst; try apply inv_finish; try apply inv_set_sender; assumption.
  - (* CForce *) des H; inversion H; subst; apply inv_finish; apply inv_set_sender; assumption.
  - (* OStart *) des H. inversion H; subst. apply inv_set_sender; assumption.
  - (* OSeg *) des H; inversion H; subst; apply inv_set_sender; assumption.
  - (* ODeq *) des H; inversion H; subst; apply inv_set_inflight; assumption.
  - (* OOut *) des H; inversion H; subst; apply inv_set_inflight; apply inv_set_sender; assumption.
  - (* ONew *) des H. inversion H; subst. apply inv_set_sender; assumption.
  - (* ORetx *) des H. inversion H; subst. apply inv_set_sender; assumption.
  - (* OAck *) des H; inversion H; subst; apply inv_set_sender; assumption.
  - (* DTcp *) des H. inversion H; subst. apply inv_recv_input. apply inv_set_sender; assumption.
  - (* DUdp *) des H. inversion H; subst. apply inv_recv_input; assumption.
  - (* DAck *) des H. inversion H; subst. apply inv_set_sender; assumption.
  - (* RTest *)
    assert (Ha : a = false) by (destruct a; [specialize (Hat eq_refl); discriminate | reflexivity]).
    destruct I as (I1 & I2 & I3 & I4). des H; inversion H; subst; solve_inv.
  - (* RWaitClosed *)
    destruct I as (I1 & I2 & I3 & I4). des H; inversion H; subst; solve_inv.
    all: exfalso; destruct Hra as [Hr | Hr]; [congruence | apply (I4 Hr); reflexivity].
  - (* RWaitErr *)
    destruct I as (I1 & I2 & I3 & I4). des H; inversion H; subst; solve_inv.
  - (* RWaitNotEmpty *)
    destruct I as (I1 & I2 & I3 & I4). des H; inversion H; subst; solve_inv.
  - (* RAtomic *)
    destruct I as (I1 & I2 & I3 & I4). des H; inversion H; subst; solve_inv.
  - (* RInputErr *)
    destruct I as (I1 & I2 & I3 & I4). des H; inversion H; subst; solve_inv.
  - (* RErrClose *)
    destruct I as (I1 & I2 & I3 & I4). des H; inversion H; subst; solve_inv.
Qed.

Lemma inv_run : forall a c sched st st',
  INV a c st -> (c_retest c = true \/ a = true) -> (a = true -> atomic_reads sched = true) ->
  run c st sched = Some st' -> INV a c st'.
Proof.
  intros a c sched. induction sched as [|ch rest IH]; intros st st' I Hra Hat H; cbn in H.
  - inversion H; subst; assumption.
  - destruct (step c st ch) as [st1|] eqn:S; [|discriminate].
    apply (IH st1 st'); try assumption.
    + eapply inv_step; try eassumption. intro Ha. specialize (Hat Ha). cbn in Hat.
      apply andb_true_iff in Hat. destruct Hat as [X _]. apply negb_true_iff in X. exact X.
    + intro Ha. specialize (Hat Ha). cbn in Hat. apply andb_true_iff in Hat. tauto.
Qed.

(* ------------------------------------------------------------------ what does hold, for every schedule *)

(* Both transports.  If the peer acted on the close request when everything before it had arrived in order
   (gap = false; on TCP additionally the stream delivered the segments in order, ooo = false), no input error
   occurred, and Read either re-tests the queue when closedChan fires (current tree) or its test-and-select is
   atomic in this schedule, then EOF implies that the peer has read everything. *)
Theorem eof_implies_complete : forall c sched st,
  run c init sched = Some st ->
  c_retest c = true \/ atomic_reads sched = true ->
  rd st = REof -> rerr st = false -> gap st = false -> ooo st = false ->
  complete c st.
Proof.
  intros c sched st H Hra Heof He Hg Ho.
  assert (I : INV (negb (c_retest c)) c st).
  { eapply inv_run; [apply inv_init | | | exact H].
    - destruct (c_retest c); [left; reflexivity | right; reflexivity].
    - intro X. destruct Hra as [Hr | Hr]; [rewrite Hr in X; discriminate | exact Hr]. }
  destruct I as (I1 & I2 & I3 & _).
  destruct (I3 Heof) as [Hc Hq].
  unfold complete, read_so_far, all_segments.
  rewrite <- (I2 Hc He Hg). rewrite <- (I1 Ho). rewrite Hq, app_nil_r. reflexivity.
Qed.

(* the peer never reads anything but a prefix of what was written, in order (as long as the stream is in order) *)
Theorem reads_are_a_prefix : forall c sched st,
  run c init sched = Some st -> c_retest c = true -> ooo st = false ->
  read_so_far st ++ rqueue st = iota 0 (N.to_nat (nextRecv st)).
Proof.
  intros c sched st H Hr Ho.
  assert (I : INV false c st).
  { eapply inv_run; [apply inv_init | left; exact Hr | discriminate | exact H]. }
  destruct I as (I1 & _). exact (I1 Ho).
Qed.

(* non-vacuity: a complete lossless UDP transfer and a complete TCP transfer satisfy the hypotheses *)
Definition w_udp_ok : list choice :=
  [CWrite; CWrite; CWrite; CClose; ONew; ONew; ONew; ONew; CTick; DUdp 1; DUdp 0; DUdp 2; DUdp 1; DUdp 3; RTest; RTest; RTest; RTest; RWaitClosed].
Lemma udp_ok_example :
  exists st, run udp3 init w_udp_ok = Some st /\ rd st = REof /\ rerr st = false /\ gap st = false /\ ooo st = false /\ complete udp3 st.
Proof. eexists. split; [vm_compute; reflexivity|]. repeat split; reflexivity. Qed.

Definition w_tcp_ok : list choice :=
  [CWrite; CWrite; CWrite; CClose; OStart; OSeg; OSeg; OSeg; OSeg; OSeg; CTick; DTcp; DTcp; RTest; DTcp; DTcp; RTest; RTest; RTest; RWaitClosed].
Lemma tcp_ok_example :
  exists st, run tcp3 init w_tcp_ok = Some st /\ rd st = REof /\ rerr st = false /\ gap st = false /\ ooo st = false
             /\ discarded st = false /\ complete tcp3 st.
Proof. eexists. split; [vm_compute; reflexivity|]. repeat split; reflexivity. Qed.

(* the constants the witnesses rely on *)
Lemma close_wait_is_one_second : (C03_closeWaitIterations * C03_closeWaitTickNs = 1000000000)%Z.
Proof. reflexivity. Qed.

(* ------------------------------------------------------------------ hand-off through recvChan *)

(* Whatever the capacity of the channel and however the event loop and the input loop interleave, the session
   handles the dispatched segments in dispatch order: what is still in the channel plus what was handled is what
   was there plus what was dispatched. *)
Lemma handoff_fifo : forall c cap evs st ch st' ch',
  hrun c cap (st, ch) evs = Some (st', ch') ->
  fold_left (recv_input c) ch' st' = fold_left (recv_input c) (ch ++ dispatched evs) st.
Proof.
  intros c cap evs. induction evs as [|e rest IH]; intros st ch st' ch' H; cbn [hrun] in H.
  - inversion H; subst. cbn. rewrite app_nil_r. reflexivity.
  - destruct e as [s|]; unfold hstep in H.
    + destruct (Nat.ltb (length ch) cap); [|discriminate].
      rewrite (IH _ _ _ _ H). cbn [dispatched]. rewrite <- app_assoc. reflexivity.
    + destruct ch as [|s t]; [discriminate|].
      rewrite (IH _ _ _ _ H). reflexivity.
Qed.

(* once the channel has been emptied, the peer's state is the one the delivery-time transitions of the model compute *)
Lemma handoff_in_order : forall c cap evs st st',
  hrun c cap (st, []) evs = Some (st', []) ->
  st' = fold_left (recv_input c) (dispatched evs) st.
Proof. intros c cap evs st st' H. apply handoff_fifo in H. exact H. Qed.

(* the seeded change: data 0, data 1 and the close request arrive in order on a loss-free stream; the close request
   finds the channel full, is acted upon at once, and segment 1 is never handled: EOF after a strict prefix *)
Definition tcp2c : cfg := current_cfg TCP 2 0 0.
Definition w_bypass : list hev := [HDispatch (Data 0); HInput; HDispatch (Data 1); HDispatch (CloseReq 2)].

Lemma handoff_bypass_refuted :
  exists evs st, hrun_bypass tcp2c 1 (init, []) evs = Some (st, []) /\ dispatched evs = [Data 0; Data 1; CloseReq 2] /\
                 rclosed st = true /\ gap st = true /\ rqueue st = [0] /\ nextRecv st = 1 /\
                 (exists st2, hrun tcp2c 1 (init, []) (evs ++ [HInput]) = None /\
                              hrun tcp2c 2 (init, []) (evs ++ [HInput; HInput]) = Some (st2, []) /\ gap st2 = false /\ rqueue st2 = [0; 1]).
Proof.
  exists w_bypass. eexists. split; [vm_compute; reflexivity|].
  do 5 (split; [reflexivity|]).
  eexists. split; [vm_compute; reflexivity|].
  split; [vm_compute; reflexivity|]. split; reflexivity.
Qed.

(* ------------------------------------------------------------------ lock discipline of the TCP output loop *)
From Coq Require Import Sorted.

(* what the closer still has to put on the stream, in the order in which it will leave *)
Definition pending (st : state) : list seg :=
  match inflight st with Some s => s :: queue st | None => queue st end.

Definition seq_le (a b : seg) : Prop := seq_of a <= seq_of b.

(* sender-side invariant on TCP (both lock disciplines) *)
Definition TINV (st : state) : Prop :=
  StronglySorted seq_le (pending st) /\
  (forall s, In s (pending st) -> lastSend st <= seq_of s /\ seq_of s < nextSend st) /\
  lastSend st <= nextSend st /\
  (cph st <> COpen -> closeSeq st < nextSend st /\ forall s, In s (pending st) -> is_data s = true -> seq_of s < closeSeq st).

(* with the code's discipline a segment in flight means that oLock is held *)
Definition LINV (c : cfg) (st : state) : Prop :=
  c_lockdrain c = true -> inflight st <> None -> olock st = true.

Lemma ssorted_snoc : forall l x, StronglySorted seq_le l -> (forall s, In s l -> seq_le s x) -> StronglySorted seq_le (l ++ [x]).
Proof.
  induction l as [|a l IH]; intros x Hs Hx; cbn.
  - constructor; constructor.
  - inversion Hs as [|? ? Hs' Hf]; subst. constructor.
    + apply IH; [assumption|]. intros s Hin. apply Hx. right; assumption.
    + apply Forall_app. split; [assumption|]. constructor; [|constructor]. apply Hx. left; reflexivity.
Qed.

Lemma tinv_init : TINV init.
Proof.
  unfold TINV, pending; cbn. repeat split; try constructor; try (intros; contradiction); try lia.
  all: try (exfalso; match goal with H : COpen <> COpen |- _ => apply H; reflexivity end).
Qed.

Lemma linv_init : forall c, LINV c init.
Proof. intros c _ H. exfalso. apply H. reflexivity. Qed.

Lemma no_inflight_true : forall st, no_inflight st = true -> inflight st = None.
Proof. intros st. unfold no_inflight. destruct (inflight st); [discriminate | reflexivity]. Qed.

Lemma linv_step : forall c st ch st', LINV c st -> step c st ch = Some st' -> LINV c st'.
Proof.
  intros c st ch st' L H Hl.
  assert (Lf : olock st = false -> inflight st = None).
  { intro Ho. destruct (inflight st) eqn:E; [|reflexivity]. rewrite (L Hl) in Ho; [discriminate | congruence]. }
  destruct ch; unfold step in H; des H; inversion H; subst; clear H; cbn; intro Hin;
    try (apply (L Hl); exact Hin);
    try (unfold recv_input in Hin |- *; des Hin; cbn in *; apply (L Hl); exact Hin).
  all: try (exfalso; apply Hin; apply Lf;
            repeat match goal with E : (_ && _) = true |- _ => apply andb_true_iff in E; destruct E end;
            match goal with E : negb (olock _) = true |- _ => apply negb_true_iff in E; exact E end).
  all: try reflexivity.
  all: try (exfalso; apply Hin; reflexivity).
  all: try (repeat match goal with E : (_ && _) = true |- _ => apply andb_true_iff in E; destruct E end;
            match goal with E : Bool.eqb (olock _) (c_lockdrain _) = true |- _ => apply Bool.eqb_prop in E; congruence end).
  all: try (exfalso; apply Hin;
            repeat match goal with E : (_ && _) = true |- _ => apply andb_true_iff in E; destruct E end;
            match goal with E : no_inflight _ = true |- _ => apply no_inflight_true in E; destruct (c_tr c); cbn; exact E end).
Qed.

Lemma tinv_same : forall st st', TINV st ->
  pending st' = pending st -> lastSend st' = lastSend st -> nextSend st' = nextSend st -> closeSeq st' = closeSeq st ->
  (cph st' <> COpen -> cph st <> COpen) -> TINV st'.
Proof.
  intros st st' (S & B & C & A) Hp Hl Hn Hc Hph. unfold TINV. rewrite Hp, Hl, Hn, Hc.
  repeat split; try assumption; try (apply B; assumption).
  - apply A. apply Hph. assumption.
  - intros s Hin Hd. apply (proj2 (A (Hph H))); assumption.
Qed.

Lemma recv_sender_same : forall c st s,
  queue (recv_input c st s) = queue st /\ inflight (recv_input c st s) = inflight st /\ lastSend (recv_input c st s) = lastSend st /\
  nextSend (recv_input c st s) = nextSend st /\ closeSeq (recv_input c st s) = closeSeq st /\ cph (recv_input c st s) = cph st.
Proof.
  intros c st s. unfold recv_input.
  repeat match goal with |- context [match ?x with _ => _ end] => destruct x end; cbn; repeat split; reflexivity.
Qed.

Lemma pending_recv : forall c st s, pending (recv_input c st s) = pending st.
Proof. intros c st s. unfold pending. destruct (recv_sender_same c st s) as (Hq & Hi & _). rewrite Hq, Hi. reflexivity. Qed.

Lemma tinv_recv : forall c st s, TINV st -> TINV (recv_input c st s).
Proof.
  intros c st s T. destruct (recv_sender_same c st s) as (Hq & Hi & Hl & Hn & Hc & Hp).
  apply (tinv_same st); try assumption. apply pending_recv. rewrite Hp; auto.
Qed.

(* removing the head of what is pending and recording it as sent *)
Lemma tinv_pop : forall st st' s rest, TINV st -> pending st = s :: rest -> pending st' = rest ->
  lastSend st' = seq_of s -> nextSend st' = nextSend st -> closeSeq st' = closeSeq st -> cph st' = cph st -> TINV st'.
Proof.
  intros st st' s rest (S & B & C & A) Hp Hp' Hl Hn Hc Hph. unfold TINV. rewrite Hp', Hl, Hn, Hc, Hph. rewrite Hp in *.
  inversion S as [|? ? S' F]; subst.
  repeat split.
  - assumption.
  - rewrite Forall_forall in F. apply F; assumption.
  - apply B. right; assumption.
  - assert (X := B s (or_introl eq_refl)). lia.
  - apply A; assumption.
  - intros x Hin Hd. apply (proj2 (A H)); [right; assumption | assumption].
Qed.

Lemma tinv_push : forall st st' x, TINV st -> pending st' = pending st ++ [x] -> seq_of x = nextSend st ->
  lastSend st' = lastSend st -> nextSend st' = nextSend st + 1 ->
  (cph st' <> COpen -> closeSeq st' < nextSend st' /\ forall s, In s (pending st ++ [x]) -> is_data s = true -> seq_of s < closeSeq st') ->
  TINV st'.
Proof.
  intros st st' x (S & B & C & A) Hp Hx Hl Hn HA. unfold TINV. rewrite Hp, Hl, Hn.
  repeat split.
  - apply ssorted_snoc; [assumption|]. intros s Hin. unfold seq_le. destruct (B s Hin). lia.
  - apply in_app_or in H. destruct H as [H | [H | []]]; [apply B; assumption | subst; lia].
  - apply in_app_or in H. destruct H as [H | [H | []]]; [destruct (B s H); lia | subst; lia].
  - lia.
  - rewrite <- Hn. apply (proj1 (HA H)).
  - intros s Hin Hd. apply (proj2 (HA H)); assumption.
Qed.

Lemma tinv_finish : forall st, TINV st -> cph st <> COpen -> TINV (finish st).
Proof.
  intros st (S & B & C & A) Hph. destruct (A Hph) as [A1 A2].
  unfold TINV, pending in *. cbn.
  destruct (inflight st) as [s|] eqn:E.
  - repeat split; try assumption.
    + constructor; constructor.
    + destruct H as [H | []]; subst. apply (B s0). left; reflexivity.
    + destruct H as [H | []]; subst. apply (B s0). left; reflexivity.
    + intros x [H0 | []] Hd; subst. apply A2; [left; reflexivity | assumption].
  - repeat split; try assumption; try (intros; contradiction); try constructor.
    all: try (destruct H as []).
    all: intros x [].
Qed.

Ltac pend := unfold pending; cbn; repeat match goal with E : queue _ = _ |- _ => rewrite E end;
             repeat match goal with E : inflight _ = _ |- _ => rewrite E end; reflexivity.
Ltac same st := apply (tinv_same st); try reflexivity; try assumption; try pend; cbn; auto.

Lemma tinv_step : forall c st ch st', is_tcp c = true -> TINV st -> step c st ch = Some st' -> TINV st'.
Proof.
  intros c st ch st' Htcp T H.
  destruct ch; unfold step in H; rewrite ?Htcp in H; cbn [negb andb] in H.
  - (* CWrite *) des H. inversion H; subst; clear H.
    apply (tinv_push st _ (Data (nextSend st))); try reflexivity; try assumption.
    + unfold pending; cbn. destruct (inflight st); reflexivity.
    + cbn. intro X. exfalso. apply X. reflexivity.
  - (* CClose *) des H. inversion H; subst; clear H.
    apply (tinv_push st _ (CloseReq (nextSend st))); try reflexivity; try assumption.
    + unfold pending; cbn. destruct (inflight st); reflexivity.
    + cbn. intros _. split; [lia|]. intros s Hin Hd. apply in_app_or in Hin. destruct Hin as [Hin | [Hin | []]].
      * destruct T as (_ & B & _). apply B. assumption.
      * subst. discriminate.
  - (* CTick *) des H; inversion H; subst; clear H.
    + apply tinv_finish; [assumption | congruence].
    + apply (tinv_same st); try reflexivity; try assumption. cbn. congruence.
    + apply (tinv_same st); try reflexivity; try assumption. cbn. congruence.
  - (* CForce *) des H; inversion H; subst; clear H.
    all: try (unfold is_tcp in Htcp; rewrite Heqt in Htcp; discriminate).
    apply andb_true_iff in Heqb. destruct Heqb as [_ Hni]. apply no_inflight_true in Hni.
    destruct T as (S & B & C & A). assert (Hph : cph st <> COpen) by congruence. destruct (A Hph) as [A1 A2].
    unfold TINV, pending; cbn. rewrite Hni. repeat split; try constructor; try (intros; contradiction); try lia.
    all: try (destruct H as []).
    all: try (intros x []).
  - (* OStart *) des H. inversion H; subst; clear H. same st.
  - (* OSeg *) des H; inversion H; subst; clear H.
    + same st.
    + apply andb_true_iff in Heqb. destruct Heqb as [_ Hni]. apply no_inflight_true in Hni.
      apply (tinv_pop st _ s l); try reflexivity; try assumption.
      * unfold pending. rewrite Hni. assumption.
      * unfold pending; cbn. rewrite Hni. reflexivity.
  - (* ODeq *) des H; inversion H; subst; clear H.
    all: apply andb_true_iff in Heqb; destruct Heqb as [Hni _]; apply no_inflight_true in Hni.
    + same st.
    + same st.
  - (* OOut *) des H; inversion H; subst; clear H.
    apply (tinv_pop st _ s (queue st)); try reflexivity; try assumption.
    unfold pending. rewrite Heqo. reflexivity.
  - (* ONew *) discriminate.
  - (* ORetx *) discriminate.
  - (* OAck *) discriminate.
  - (* DTcp *) des H. inversion H; subst; clear H. apply tinv_recv. same st.
  - (* DUdp *) des H. inversion H; subst; clear H. apply tinv_recv. assumption.
  - (* DAck *) des H. inversion H; subst; clear H. same st.
  - des H; inversion H; subst; clear H; same st.
  - des H; inversion H; subst; clear H; same st.
  - des H; inversion H; subst; clear H; same st.
  - des H; inversion H; subst; clear H; same st.
  - des H; inversion H; subst; clear H; same st.
  - des H; inversion H; subst; clear H; same st.
  - des H; inversion H; subst; clear H; same st.
Qed.

Lemma tinv_run : forall c sched st st', is_tcp c = true -> TINV st -> run c st sched = Some st' -> TINV st'.
Proof.
  intros c sched. induction sched as [|ch rest IH]; intros st st' Htcp T H; cbn in H.
  - inversion H; subst; assumption.
  - destruct (step c st ch) as [st1|] eqn:S; [|discriminate]. apply (IH st1 st' Htcp); [|assumption].
    eapply tinv_step; eassumption.
Qed.

Lemma linv_run : forall c sched st st', LINV c st -> run c st sched = Some st' -> LINV c st'.
Proof.
  intros c sched. induction sched as [|ch rest IH]; intros st st' L H; cbn in H.
  - inversion H; subst; assumption.
  - destruct (step c st ch) as [st1|] eqn:S; [|discriminate]. apply (IH st1 st'); [|assumption].
    eapply linv_step; eassumption.
Qed.

(* The code's lock discipline (c_lockdrain = true), every schedule: while a segment is between DeleteMin and the completion of
   its output(), oLock is held and the fallback of closeWithError (CForce: write the close request directly, then DeleteAll) is not
   enabled - it can neither overtake that segment nor drop what is queued behind it. *)
Theorem tcp_close_fallback_never_overtakes_inflight : forall c sched st,
  is_tcp c = true -> c_lockdrain c = true -> run c init sched = Some st -> inflight st <> None ->
  olock st = true /\ step c st CForce = None.
Proof.
  intros c sched st Htcp Hl H Hin.
  assert (L : LINV c st) by (eapply linv_run; [apply linv_init | exact H]).
  split; [exact (L Hl Hin)|]. apply tcp_force_needs_olock. exact (L Hl Hin).
Qed.

Lemma recv_discarded : forall c st s, discarded (recv_input c st s) = discarded st.
Proof.
  intros c st s. unfold recv_input.
  repeat match goal with |- context [match ?x with _ => _ end] => destruct x end; reflexivity.
Qed.

(* TCP, either discipline, every schedule: the fallback is the ONLY step that discards data.  In particular the regular end of the
   wait (lastSend >= closeRequestSeq) never does: by then the loop has written the close request, which is the last thing queued. *)
Theorem tcp_only_fallback_discards : forall c sched st ch st',
  is_tcp c = true -> run c init sched = Some st -> step c st ch = Some st' -> ch <> CForce -> discarded st' = discarded st.
Proof.
  intros c sched st ch st' Htcp Hr H Hch.
  assert (T : TINV st) by (eapply tinv_run; [exact Htcp | apply tinv_init | exact Hr]).
  destruct ch; try (exfalso; apply Hch; reflexivity); unfold step in H; des H; inversion H; subst; clear H; cbn;
    rewrite ?recv_discarded; cbn; try reflexivity.
  (* CTick, regular end of the wait *)
  destruct T as (_ & B & _ & A). assert (Hph : cph st <> COpen) by congruence. destruct (A Hph) as [_ A2].
  replace (existsb is_data (queue st)) with false; [apply orb_false_r|]. symmetry.
  apply not_true_is_false. intro E. apply existsb_exists in E. destruct E as (s & Hin & Hd).
  assert (Hp : In s (pending st)) by (unfold pending; destruct (inflight st); [right|]; assumption).
  specialize (A2 s Hp Hd). destruct (B s Hp) as [B1 _]. apply N.leb_le in Heqb. lia.
Qed.

(* ---- the variant that releases oLock before output() (c_lockdrain = false) *)
Definition tcp3_unlocked : cfg := mkCfg TCP 3 close_wait_iterations true false 0 0 segment_tree_capacity false.

(* segment 0 is inside a stalled conn.Write for the whole wait, 1 and 2 are queued behind it; the stall ends, the fallback gets in
   before the loop's next DeleteMin: the close request follows segment 0, segments 1 and 2 are dropped *)
Definition w_tcp_unlocked : list choice :=
  [CWrite; CWrite; CWrite; CClose; ODeq] ++ repeat_choice CTick (N.to_nat close_wait_iterations) ++
  [OOut; CForce; DTcp; DTcp; RTest; RTest; RWaitClosed].

Lemma tcp_unlocked_output_refuted :
  exists sched st, run tcp3_unlocked init sched = Some st /\ clean_truncation tcp3_unlocked st /\ discarded st = true
                   /\ tcpnet st = [] /\ read_so_far st = [0] /\ ticks st = close_wait_iterations.
Proof.
  exists w_tcp_unlocked. eexists. split; [vm_compute; reflexivity|].
  repeat split; try reflexivity. exists [1; 2]. split; [discriminate | reflexivity].
Qed.

(* the same stall on the code as it is: the loop holds oLock (OStart), the fallback has to wait until the queue is empty,
   the close request it then writes is a harmless duplicate *)
Definition w_tcp_stall_now : list choice :=
  [CWrite; CWrite; CWrite; CClose; OStart; ODeq] ++ repeat_choice CTick (N.to_nat close_wait_iterations) ++
  [OOut; ODeq; OOut; ODeq; OOut; ODeq; OOut; ODeq; CForce; DTcp; DTcp; DTcp; DTcp; RTest; RTest; RTest; RTest; RWaitClosed].

Lemma tcp_stall_now_example :
  (exists st, run tcp3 init ([CWrite; CWrite; CWrite; CClose; OStart; ODeq] ++ repeat_choice CTick (N.to_nat close_wait_iterations) ++ [OOut]) = Some st
              /\ cph st = CExpired /\ queue st = [Data 1; Data 2; CloseReq 3] /\ step tcp3 st CForce = None) /\
  (exists st, run tcp3 init w_tcp_stall_now = Some st /\ rd st = REof /\ complete tcp3 st /\ discarded st = false).
Proof.
  split; eexists; (split; [vm_compute; reflexivity|]); repeat split; reflexivity.
Qed.

(* ---- the slot kept free for the close request ---- *)
Lemma q_step_inv cap q e : 0 < cap -> q < cap -> q_step true cap q e < cap.
Proof.
  intros Hc Hq. destruct e as [n|k]; cbn [q_step].
  - unfold q_admits. destruct (1 <=? n) eqn:E1; cbn [andb]; [|exact Hq].
    destruct (n <? cap - q) eqn:E2; [|exact Hq].
    apply N.ltb_lt in E2. lia.
  - lia.
Qed.

Lemma q_fold_inv cap evs : 0 < cap -> forall q, q < cap -> fold_left (q_step true cap) evs q < cap.
Proof.
  intro Hc. induction evs as [|e evs IH]; intros q Hq; cbn [fold_left]; [exact Hq|].
  apply IH. apply q_step_inv; assumption.
Qed.

Lemma close_request_always_queued (evs : list qev) :
  q_close_queued segment_tree_capacity (q_run true segment_tree_capacity evs) = true.
Proof.
  unfold q_close_queued, q_run. apply N.ltb_lt. apply q_fold_inv; reflexivity.
Qed.

Lemma close_request_slot_refuted :
  exists evs, q_close_queued segment_tree_capacity (q_run false segment_tree_capacity evs) = false.
Proof. exists [QWrite 4071; QWrite 25]. vm_compute. reflexivity. Qed.

Example q_run_example :
  q_run true segment_tree_capacity [QWrite 4071; QWrite 25; QDrain 30; QWrite 25] = 4066 /\
  q_run false segment_tree_capacity [QWrite 4071; QWrite 25; QDrain 30; QWrite 25] = 4091.
Proof. vm_compute. split; reflexivity. Qed.
