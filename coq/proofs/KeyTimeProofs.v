From Coq Require Import ZArith List Bool Lia.
From M Require Import gen.Consts model.KeyTime.
Import ListNotations.
Open Scope Z_scope.

Ltac Zify.zify_post_hook ::= Z.div_mod_to_equations.

Definition R := KeyRefreshInterval_ns.
Definition S60 : Z := 60 * NS.

Lemma off_val : unixToInternal_s = 62135596800.
Proof. reflexivity. Qed.

(* the zero time of Go is a whole number of refresh intervals before the unix epoch *)
Lemma off_multiple : (unixToInternal_s * NS) mod R = 0.
Proof. reflexivity. Qed.

Lemma go_round_R (T : Z) :
  exists k, go_round T R = k * R /\ 2 * T - R < 2 * (k * R) <= 2 * T + R.
Proof.
  unfold go_round, R, KeyRefreshInterval_ns. cbn [Z.leb Z.compare].
  set (d := 120000000000).
  destruct (Z.ltb_spec (T mod d + T mod d) d) as [H|H].
  - exists (T / d). subst d. lia.
  - exists (T / d + 1). subst d. lia.
Qed.

Lemma epoch_char (t : Z) :
  exists k, epoch R t = k * 120 /\ 2 * t - R < 2 * (k * R) <= 2 * t + R.
Proof.
  unfold epoch. destruct (go_round_R (t + unixToInternal_s * NS)) as [k [Hk Hb]].
  rewrite Hk. rewrite off_val in *. unfold R, KeyRefreshInterval_ns, NS in *.
  exists (k - 517796640). split; lia.
Qed.

Lemma slots_char (t : Z) :
  slots R t = [epoch R t - 120; epoch R t; epoch R t + 120].
Proof.
  unfold slots, epoch. destruct (go_round_R (t + unixToInternal_s * NS)) as [k [Hk _]].
  rewrite Hk. rewrite off_val. unfold R, KeyRefreshInterval_ns, NS.
  repeat (f_equal; try lia).
Qed.

(* --- agreement on keys --- *)
Lemma skew_common_key (t d : Z) :
  Z.abs d <= 2 * S60 -> In (epoch R t) (slots R (t + d)).
Proof.
  intros Hd. rewrite slots_char.
  destruct (epoch_char t) as [k [Hk Hb]]. destruct (epoch_char (t + d)) as [k' [Hk' Hb']].
  rewrite Hk, Hk'. unfold S60, R, KeyRefreshInterval_ns, NS in *.
  assert (k' = k - 1 \/ k' = k \/ k' = k + 1) as [E|[E|E]] by lia; subst k'; simpl; lia.
Qed.

Lemma stale_key_refused (t d : Z) :
  4 * S60 <= Z.abs d -> ~ In (epoch R t) (slots R (t + d)).
Proof.
  intros Hd. rewrite slots_char.
  destruct (epoch_char t) as [k [Hk Hb]]. destruct (epoch_char (t + d)) as [k' [Hk' Hb']].
  rewrite Hk, Hk'. unfold S60, R, KeyRefreshInterval_ns, NS in *.
  simpl. intros [E|[E|[E|[]]]]; lia.
Qed.

(* --- timestamps --- *)
Definition era (t : Z) : Prop := 60 * NS <= t /\ t < (U32 - 1) * 60 * NS.

Lemma minute_char (t : Z) : era t -> minute t = t / NS / 60 /\ 1 <= t / NS / 60 < U32 - 1.
Proof.
  unfold era, minute, u32, U32, NS. intros [H1 H2].
  rewrite Z.quot_div_nonneg by lia.
  assert (1 <= t / 1000000000 / 60 < 4294967296 - 1) by lia.
  split; [|assumption]. apply Z.mod_small. lia.
Qed.

Lemma within_range32_char (v m : Z) :
  0 <= v < U32 -> 1 <= m < U32 - 1 ->
  within_range32 v m 1 = (m - 1 <=? v) && (v <=? m + 1).
Proof.
  intros Hv Hm. unfold within_range32, u32.
  rewrite (Z.mod_small (m - 1)), (Z.mod_small (m + 1)) by (unfold U32 in *; lia).
  unfold mid3.
  destruct (Z.ltb_spec (m - 1) v), (Z.ltb_spec (m + 1) v), (Z.ltb_spec (m+1) (m-1)),
    (Z.leb_spec (m-1) v), (Z.leb_spec v (m+1)); cbn;
  repeat match goal with |- context [?a <? ?b] => destruct (Z.ltb_spec a b) end; cbn;
  try lia; try (apply Z.eqb_eq; lia); try (apply Z.eqb_neq; lia).
Qed.

Lemma skew60_timestamp (t d : Z) :
  era t -> era (t + d) -> Z.abs d <= S60 -> timestamp_ok (t + d) t = true.
Proof.
  intros Ht Htd Hd. unfold timestamp_ok.
  destruct (minute_char t Ht) as [E1 B1]. destruct (minute_char (t+d) Htd) as [E2 B2].
  rewrite within_range32_char; rewrite ?E1, ?E2; try lia.
  unfold S60, NS, U32 in *. apply andb_true_intro. split; apply Z.leb_le; lia.
Qed.

Lemma stale_minute_refused (t d : Z) :
  era t -> era (t + d) -> 2 * S60 <= Z.abs d -> timestamp_ok (t + d) t = false.
Proof.
  intros Ht Htd Hd. unfold timestamp_ok.
  destruct (minute_char t Ht) as [E1 B1]. destruct (minute_char (t+d) Htd) as [E2 B2].
  rewrite within_range32_char; rewrite ?E1, ?E2; try lia.
  unfold S60, NS, U32 in *. apply andb_false_iff.
  destruct (Z.le_ge_cases 0 d); [right|left]; apply Z.leb_gt; lia.
Qed.

(* --- the cache never hands out keys of another slot --- *)
Definition entry_ok (e : entry) : Prop := e_keys e = slots R (e_create e) /\ e_epoch e = epoch R (e_create e).
Definition cache_ok (c : option entry) : Prop := match c with Some e => entry_ok e | None => True end.

Lemma slots_of_epoch (a b : Z) : epoch R a = epoch R b -> slots R a = slots R b.
Proof. intros E. rewrite !slots_char, E. reflexivity. Qed.

Lemma cache_lookup_ok V (c : option entry) (now j : Z) :
  cache_ok c ->
  let '(reused, e, c') := cache_lookup R V c now j in
  cache_ok c' /\ c' = Some e /\ e_epoch e = epoch R now /\ e_keys e = slots R now /\
  (reused = true -> c = Some e /\ now <= e_create e + V - j * 1000000).
Proof.
  intros Hc. unfold cache_lookup. destruct c as [e|].
  - destruct (Z.eqb_spec (e_epoch e) (epoch R now)) as [E|E]; cbn [negb orb].
    + destruct (Z.ltb_spec (e_create e + (V - j * 1000000)) now) as [L|L].
      * cbn. repeat split; discriminate.
      * destruct Hc as [Hk He]. cbn. repeat split; try assumption.
        -- rewrite Hk. apply slots_of_epoch. congruence.
        -- lia.
    + cbn. repeat split; discriminate.
  - cbn. repeat split; discriminate.
Qed.

Lemma cache_run_ok V (h : list (Z * Z)) : forall c, cache_ok c -> cache_ok (cache_run R V c h).
Proof.
  induction h as [|[now j] h IH]; intros c Hc; cbn [cache_run]; [assumption|].
  pose proof (cache_lookup_ok V c now j Hc) as H.
  destruct (cache_lookup R V c now j) as [[r e] c']. apply IH. tauto.
Qed.

(* every history of lookups, arbitrary (also decreasing) times and arbitrary jitter draws *)
Lemma cache_slot_exact V (h : list (Z * Z)) (now j : Z) :
  let '(_, e, _) := cache_lookup R V (cache_run R V None h) now j in
  e_epoch e = epoch R now /\ e_keys e = slots R now.
Proof.
  pose proof (cache_lookup_ok V _ now j (cache_run_ok V h None I)) as H.
  destruct (cache_lookup R V (cache_run R V None h) now j) as [[r e] c']. tauto.
Qed.

Lemma cache_reuse_age (h : list (Z * Z)) (now j : Z) :
  0 <= j ->
  let '(reused, e, _) := cache_lookup R cacheValidInterval_ns (cache_run R cacheValidInterval_ns None h) now j in
  reused = true -> now - e_create e <= 30 * NS.
Proof.
  intros Hj.
  pose proof (cache_lookup_ok cacheValidInterval_ns _ now j (cache_run_ok cacheValidInterval_ns h None I)) as H.
  destruct (cache_lookup R cacheValidInterval_ns (cache_run R cacheValidInterval_ns None h) now j) as [[r e] c'].
  intros Hr. destruct H as (_ & _ & _ & _ & H). specialize (H Hr) as [_ H].
  unfold cacheValidInterval_ns, NS in *. lia.
Qed.

Lemma decryptor_slot_exact V (d c : option entry) (now j : Z) :
  cache_ok d -> cache_ok c ->
  let '(e, d', c') := decryptor_lookup R V d c now j in
  cache_ok d' /\ cache_ok c' /\ e_epoch e = epoch R now /\ e_keys e = slots R now.
Proof.
  intros Hd Hc. unfold decryptor_lookup.
  pose proof (cache_lookup_ok V c now j Hc) as H.
  destruct d as [e|].
  - destruct (Z.eqb_spec (e_epoch e) (epoch R now)) as [E|E].
    + destruct Hd as [Hk He]. repeat split; try assumption. rewrite Hk. apply slots_of_epoch. congruence.
    + destruct (cache_lookup R V c now j) as [[r e'] c']. destruct H as (H1&H2&H3&H4&_).
      subst c'. split; [exact H1|]. split; [exact H1|]. split; assumption.
  - destruct (cache_lookup R V c now j) as [[r e'] c']. destruct H as (H1&H2&H3&H4&_).
    subst c'. split; [exact H1|]. split; [exact H1|]. split; assumption.
Qed.

(* non-vacuity: concrete instants at a slot change and at a minute tick *)
Example ex_boundary :
  let t := 1700000100 * NS - 1 in
  epoch R t = 1700000040 /\ epoch R (t + 1) = 1700000160 /\
  In (epoch R t) (slots R (t + S60)) /\ In (epoch R (t + S60)) (slots R t) /\
  timestamp_ok (t + S60) t = true /\ timestamp_ok (t + 2 * S60) t = false /\ era t.
Proof. vm_compute. intuition (auto; discriminate). Qed.

(* ---- statements exported to props/C08.v ---- *)
Definition handshake_ok (t_client t_server : Z) : Prop :=
  (* the client's sending key (middle slot of its own clock) is among the server's three,
     the server's reply key is then the same key; both timestamps pass the receiver's test *)
  In (epoch R t_client) (slots R t_server) /\
  timestamp_ok t_server t_client = true /\ timestamp_ok t_client t_server = true.

Lemma c08_handshake (t d : Z) :
  era t -> era (t + d) -> Z.abs d <= S60 -> handshake_ok t (t + d) /\ handshake_ok (t + d) t.
Proof.
  intros Ht Htd Hd. unfold handshake_ok.
  assert (Z.abs d <= 2 * S60) by (unfold S60, NS in *; lia).
  assert (Z.abs (-d) <= S60) by lia. assert (Z.abs (-d) <= 2 * S60) by lia.
  repeat split.
  - apply skew_common_key; assumption.
  - apply skew60_timestamp; assumption.
  - replace t with ((t + d) + (-d)) at 1 by lia. apply skew60_timestamp; try assumption.
    replace (t + d + - d) with t by lia. assumption.
  - replace t with ((t + d) + (-d)) at 2 by lia. apply skew_common_key. assumption.
  - replace t with ((t + d) + (-d)) at 1 by lia. apply skew60_timestamp; try assumption.
    replace (t + d + - d) with t by lia. assumption.
  - apply skew60_timestamp; assumption.
Qed.

Lemma c08_stale (t d : Z) :
  era t -> era (t + d) ->
  (2 * S60 <= Z.abs d -> timestamp_ok (t + d) t = false) /\
  (4 * S60 <= Z.abs d -> ~ In (epoch R t) (slots R (t + d))).
Proof. intros Ht Htd. split; intros H; [apply stale_minute_refused | apply stale_key_refused]; assumption. Qed.

Lemma c08_cache (h : list (Z * Z)) (now j : Z) :
  let '(_, e, _) := cache_lookup R cacheValidInterval_ns (cache_run R cacheValidInterval_ns None h) now j in
  e_epoch e = epoch R now /\ e_keys e = slots R now.
Proof. exact (cache_slot_exact cacheValidInterval_ns h now j). Qed.

(* ---- the age of the key-holding client underlay ---- *)
Definition W := packetUnderlayScheduleWindow_ns.

(* general form: key derived at c, used [age] later, receiver [skew] away; age + skew within one refresh interval *)
Lemma aged_key_common (c age skew : Z) :
  0 <= age <= S60 -> Z.abs skew <= S60 -> In (epoch R c) (slots R (c + age + skew)).
Proof.
  intros Ha Hs. replace (c + age + skew) with (c + (age + skew)) by lia.
  apply skew_common_key. unfold S60, NS in *. lia.
Qed.

(* UDP: while the underlay still takes new sessions its key is among the server's three, whatever the skew <= 60 s *)
Lemma aged_underlay_common_key (c age skew : Z) :
  0 <= age -> underlay_takes_sessions W age = true -> Z.abs skew <= S60 ->
  In (epoch R c) (slots R (c + age + skew)).
Proof.
  intros Ha Ht Hs. apply aged_key_common; [|assumption].
  unfold underlay_takes_sessions in Ht. apply Z.leb_le in Ht.
  unfold W, packetUnderlayScheduleWindow_ns, S60, NS in *. lia.
Qed.

Lemma key_found_In (k t : Z) : key_found R k t = true <-> In k (slots R t).
Proof.
  unfold key_found. rewrite existsb_exists. split.
  - intros [x [Hin Heq]]. apply Z.eqb_eq in Heq. subst. assumption.
  - intros Hin. exists k. split; [assumption|apply Z.eqb_refl].
Qed.

(* the whole open of a new session on an aged underlay: key found, fresh stamp accepted, reply stamp accepted *)
Lemma aged_underlay_handshake (c age skew : Z) :
  era (c + age) -> era (c + age + skew) ->
  0 <= age -> underlay_takes_sessions W age = true -> Z.abs skew <= S60 ->
  open_request_ok R c (c + age) skew = true /\ timestamp_ok (c + age) (c + age + skew) = true.
Proof.
  intros E1 E2 Ha Ht Hs. unfold open_request_ok. split.
  - apply andb_true_intro. split.
    + apply key_found_In. apply aged_underlay_common_key; assumption.
    + apply skew60_timestamp; assumption.
  - assert (Z.abs (- skew) <= S60) as Hs' by lia.
    pose proof (skew60_timestamp (c + age + skew) (- skew) E2) as H.
    replace (c + age + skew + - skew) with (c + age) in H by lia. apply H; assumption.
Qed.

(* tightness: one nanosecond more is already too much.  For EVERY window larger than the one of the code there is
   a creation instant (the last instant of a slot), an age inside that window and a skew of exactly 60 s for which
   the server does not try the underlay's key. *)
Lemma underlay_window_maximal (w : Z) :
  W < w ->
  exists c age skew, 0 <= age /\ underlay_takes_sessions w age = true /\ Z.abs skew <= S60 /\
                     ~ In (epoch R c) (slots R (c + age + skew)).
Proof.
  intros Hw. exists (1700000100 * NS - 1), (W + 1), S60.
  split; [unfold W, packetUnderlayScheduleWindow_ns; lia|].
  split; [unfold underlay_takes_sessions; apply Z.leb_le; lia|].
  split; [unfold S60, NS; lia|].
  vm_compute. intros [H|[H|[H|[]]]]; discriminate.
Qed.

(* the window that "sounds right" (one whole refresh interval, because the receiver tries three slots) is refuted *)
Lemma full_refresh_window_refuted :
  exists c age skew, 0 <= age /\ underlay_takes_sessions KeyRefreshInterval_ns age = true /\ Z.abs skew <= S60 /\
                     ~ In (epoch R c) (slots R (c + age + skew)) /\ key_found R (epoch R c) (c + age + skew) = false.
Proof.
  exists (1700000100 * NS - 1), (90 * NS), S60. vm_compute.
  repeat split; try discriminate. intros [H|[H|[H|[]]]]; discriminate.
Qed.

(* non-vacuity: an underlay created at the last instant of a slot, exactly [W] old, server exactly 60 s ahead *)
Example ex_aged_boundary :
  let c := 1700000100 * NS - 1 in
  underlay_takes_sessions W W = true /\ underlay_takes_sessions W (W + 1) = false /\
  era (c + W) /\ era (c + W + S60) /\
  open_request_ok R c (c + W) S60 = true /\ open_request_ok R c (c + W + 1) S60 = false /\
  epoch R c = 1700000040 /\ slots R (c + W + S60) = [1700000040; 1700000160; 1700000280].
Proof. vm_compute. intuition (auto; discriminate). Qed.
