(* C01 - the codec premises of the TCP stream theorems discharged with the concrete developments:
   metadata layout = model/Wire.v (round trips proved in proofs/WireProofs.v, property C09),
   low entropy body codec = model/LowEntropy.v (round trip proved in proofs/LowEntropyProofs.v, property C17).
   What remains as premises of the ..._concrete theorems: the AEAD (seal_len, open_seal, ciphertexts are
   byte strings) and, as explicit conditions on the segments (seg_ok with meta_ok_w / le_ok_w):
     - every metadata field is in the range of its wire field and fields a layout does not carry are 0;
     - the receiver's clock [now] (minutes) is constant while the stream is parsed and every segment is stamped
       within one minute of it (Unmarshal refuses anything else: an error, never a wrong byte);
     - low entropy segments: parameters accepted by validateLowEntropyCodecParams, 32 bit mask, payload of
       1 .. 8191 chunks (the sender's fragment size guarantees it). *)
From Coq Require Import List NArith ZArith Bool Arith Lia.
From Coq Require Import ZifyN ZifyNat ZifyBool.
From M Require Import gen.Consts model.TcpStream model.TcpStreamWire proofs.TcpStreamProofs.
From M Require model.Wire proofs.WireProofs model.LowEntropy proofs.LowEntropyProofs.
Import ListNotations.
Open Scope N_scope.

(* ------------------------------------------------------------------ metadata *)
Lemma marshal_len_w : forall now m, meta_ok_w now m = true -> length (marshal_w m) = metaLen.
Proof.
  intros now m _. unfold marshal_w. apply Nat2N.inj.
  destruct (Wire.is_session (mi_proto m)).
  - rewrite (proj1 (WireProofs.marshal_session_length _)). reflexivity.
  - rewrite (proj1 (WireProofs.marshal_data_length _)). reflexivity.
Qed.

Lemma unmarshal_session_of_data : forall d, Wire.is_session (Wire.b8 (Wire.d_proto d)) = false ->
  Wire.unmarshal_session (Wire.marshal_data d) = None.
Proof.
  intros d H. unfold Wire.unmarshal_session.
  rewrite (proj1 (WireProofs.marshal_data_length d)), N.eqb_refl. cbn [negb].
  change (Wire.byte_at 0 (Wire.marshal_data d)) with (Wire.b8 (Wire.d_proto d)). rewrite H. reflexivity.
Qed.

Lemma parse_marshal_w : forall now m, meta_ok_w now m = true -> parse_w now (marshal_w m) = Some m.
Proof.
  intros now m H. unfold meta_ok_w in H. cbv zeta in H. unfold parse_w, marshal_w.
  destruct (within1_u32 now (mi_ts m)) eqn:Hw; [|discriminate H]. cbn [andb] in H.
  destruct (Wire.is_session (mi_proto m)) eqn:Es; cbv beta iota in H.
  - assert (V : Wire.session_valid (to_session m)).
    { unfold Wire.session_valid, to_session. cbn [Wire.s_proto Wire.s_ts Wire.s_sid Wire.s_seq Wire.s_status Wire.s_plen Wire.s_slen].
      change (2 ^ 32) with 4294967296. repeat split; try exact Es; try lia. }
    rewrite (WireProofs.session_roundtrip _ V). cbn [Wire.s_ts to_session]. rewrite Hw.
    assert (Z : mi_lemode m = 0 /\ mi_unack m = 0 /\ mi_window m = 0 /\ mi_frag m = 0 /\ mi_pre m = 0 /\
                mi_mask m = 0 /\ mi_elen m = 0 /\ mi_rot m = 0) by lia.
    clear H V. destruct m as [a1 a2 a3 a4 a5 a6 a7 a8 a9 a10 a11 a12 a13 a14 a15]. unfold of_session, to_session.
    cbn [mi_proto mi_lemode mi_ts mi_sid mi_seq mi_status mi_plen mi_suf mi_unack mi_window mi_frag mi_pre mi_mask mi_elen mi_rot
         Wire.s_proto Wire.s_ts Wire.s_sid Wire.s_seq Wire.s_status Wire.s_plen Wire.s_slen] in *.
    decompose [and] Z; subst; reflexivity.
  - destruct (Wire.is_data_ack (mi_proto m)) eqn:Ed; cbv beta iota in H; [|rewrite !andb_false_r in H; discriminate H].
    pose proof (WireProofs.is_data_ack_byte _ Ed) as Hb.
    assert (E8 : Wire.b8 (Wire.d_proto (to_data m)) = mi_proto m) by (apply WireProofs.b8_small; exact Hb).
    rewrite (unmarshal_session_of_data (to_data m)) by (rewrite E8; exact Es).
    assert (RT : Wire.unmarshal_data (Wire.marshal_data (to_data m)) = Some (to_data m)).
    { destruct (Wire.is_low_entropy (mi_proto m)) eqn:El; cbv beta iota in H.
      - apply WireProofs.le_roundtrip. unfold Wire.le_valid, Wire.data_common_valid, to_data.
        cbn [Wire.d_proto Wire.d_mode Wire.d_ts Wire.d_sid Wire.d_seq Wire.d_unack Wire.d_win Wire.d_frag Wire.d_prefix
             Wire.d_plen Wire.d_slen Wire.d_mask Wire.d_elen Wire.d_rot].
        destruct (Wire.le_meta_ok (mi_lemode m) (mi_mask m) (mi_elen m) (mi_plen m) (mi_rot m)) eqn:Elm;
          [|rewrite !andb_false_r in H; discriminate H].
        change (2 ^ 32) with 4294967296. change (2 ^ 16) with 65536. repeat split; try exact El; try lia.
      - apply WireProofs.data_roundtrip. unfold Wire.data_valid, Wire.data_common_valid, to_data.
        cbn [Wire.d_proto Wire.d_mode Wire.d_ts Wire.d_sid Wire.d_seq Wire.d_unack Wire.d_win Wire.d_frag Wire.d_prefix
             Wire.d_plen Wire.d_slen Wire.d_mask Wire.d_elen Wire.d_rot].
        change (2 ^ 32) with 4294967296. change (2 ^ 16) with 65536. repeat split; try exact Ed; try exact El; try lia. }
    rewrite RT. cbn [Wire.d_ts to_data]. rewrite Hw.
    assert (Hst : mi_status m = 0) by lia.
    clear H RT E8. destruct m as [a1 a2 a3 a4 a5 a6 a7 a8 a9 a10 a11 a12 a13 a14 a15]. unfold of_data, to_data.
    cbn [mi_proto mi_lemode mi_ts mi_sid mi_seq mi_status mi_plen mi_suf mi_unack mi_window mi_frag mi_pre mi_mask mi_elen mi_rot
         Wire.d_proto Wire.d_mode Wire.d_ts Wire.d_sid Wire.d_seq Wire.d_unack Wire.d_win Wire.d_frag Wire.d_prefix
         Wire.d_plen Wire.d_slen Wire.d_mask Wire.d_elen Wire.d_rot] in *.
    subst. reflexivity.
Qed.

(* ------------------------------------------------------------------ low entropy body *)
Lemma Forall_firstn_ {A} (P : A -> Prop) : forall n l, Forall P l -> Forall P (firstn n l).
Proof. induction n; intros l H; [constructor|]. destruct l; [constructor|]. inversion H; subst. cbn. constructor; auto. Qed.

Section LE.
  Variable seal : list N -> list N -> list N.
  Hypothesis seal_len : forall n p, length (seal n p) = (length p + tagLen)%nat.
  Hypothesis seal_bytes : forall n p, Forall (fun b => b < 256) (seal n p).

  Lemma le_w_laws : forall lp (pb : bool) n p, le_ok_w lp (lenN p) = true ->
    let ct := firstn (length p) (seal n p) in
    length (le_encode_w lp pb ct) = N.to_nat (le_len_w lp (lenN p)) /\
    le_decode_w lp (lenN p) (le_encode_w lp pb ct) = Some ct.
  Proof.
    intros lp pb n p H ct. unfold le_ok_w in H.
    destruct (LowEntropy.validate_params (lp_mode lp) (lp_mask lp) (lp_rot lp)) as [pr|] eqn:V; [|discriminate H].
    destruct (LowEntropyProofs.validate_params_inv _ _ _ _ V) as [c [w [-> [Hm [Hp Hr]]]]]. cbv beta iota in H.
    apply andb_true_iff in H. destruct H as [H Hch]. apply andb_true_iff in H. destruct H as [Hmk Hn1].
    apply N.ltb_lt in Hmk. apply N.leb_le in Hn1. apply Z.leb_le in Hch.
    assert (Hlen : length ct = length p) by (unfold ct; rewrite firstn_length, seal_len; lia).
    assert (Hb : LowEntropy.bytes_ok ct) by (unfold ct, LowEntropy.bytes_ok; apply Forall_firstn_; apply seal_bytes).
    assert (Hz : Z.of_N (lenN p) = Z.of_nat (length ct)) by (rewrite Hlen; unfold lenN; apply nat_N_Z).
    assert (H1 : (1 <= length ct)%nat) by (rewrite Hlen; unfold lenN in Hn1; clear - Hn1; lia).
    assert (Hc : (LowEntropy.nchunks (Z.of_nat (length ct)) c <= 8191)%Z) by (rewrite <- Hz; exact Hch).
    assert (Hmask : lp_mask lp < 2 ^ 32) by (change (2 ^ 32) with 4294967296; exact Hmk).
    assert (Hpb : (if pb then 1 else 0) <= 1) by (destruct pb; lia).
    destruct (LowEntropyProofs.le_roundtrip ct (lp_mode lp) (lp_mask lp) (lp_rot lp) (if pb then 1 else 0) c w
                Hb Hmask Hpb Hm Hp Hr H1 Hc) as [e [He [Hle [_ [_ Hd]]]]].
    unfold le_encode_w, le_decode_w, le_len_w. rewrite He, Hz, Hd.
    assert (H1z : (1 <= Z.of_nat (length ct))%Z) by (clear - H1; lia).
    rewrite (LowEntropyProofs.enc_len_ok _ _ c w Hm H1z Hc). split; [|reflexivity].
    set (k := LowEntropy.nchunks (Z.of_nat (length ct)) c) in *. clearbody k. clear - Hle. lia.
  Qed.
End LE.

(* ------------------------------------------------------------------ the concrete theorems *)
Section Concrete.
  Variable seal : list N -> list N -> list N.
  Variable open : list N -> list N -> option (list N).
  Hypothesis seal_len : forall n p, length (seal n p) = (length p + tagLen)%nat.
  Hypothesis open_seal : forall n p, open n (seal n p) = Some p.
  Hypothesis seal_bytes : forall n p, Forall (fun b => b < 256) (seal n p).
  Variable now : N.   (* the receiver's clock in minutes *)

  Theorem feed_serialize_concrete : forall (segs : list segment) (n : list N),
    Forall (seg_ok le_len_w (meta_ok_w now) le_ok_w) segs -> length n = nonceLen ->
    feed open (parse_w now) le_decode_w r_init (serialize seal marshal_w le_len_w le_encode_w false n segs) =
    (map (deliver le_len_w) segs, mkR [] (ser_next seal marshal_w le_len_w le_encode_w false n segs) false).
  Proof.
    apply (feed_serialize seal open marshal_w (parse_w now) le_len_w le_encode_w le_decode_w (meta_ok_w now) le_ok_w
             seal_len open_seal (marshal_len_w now) (parse_marshal_w now)).
    - intros lp pb n p H. apply (proj1 (le_w_laws seal seal_len seal_bytes lp pb n p H)).
    - intros lp pb n p H. apply (proj2 (le_w_laws seal seal_len seal_bytes lp pb n p H)).
  Qed.

  Theorem tcp_integrity_concrete : forall client (ss : list sess) wire n0 chunks,
    Forall (sess_ok client) ss -> NoDup (map sess_id ss) ->
    interleave (map snd ss) wire -> Forall (seg_ok le_len_w (meta_ok_w now) le_ok_w) wire -> length n0 = nonceLen ->
    concat chunks = serialize seal marshal_w le_len_w le_encode_w false n0 wire ->
    r_failed (snd (feed_all open (parse_w now) le_decode_w r_init chunks)) = false /\
    forall t, In t ss ->
      let q := map snd (recv_queue (demux (sess_id t) (fst (feed_all open (parse_w now) le_decode_w r_init chunks)))) in
      let w := written (snd (fst t)) in
      concat q = w /\
      (forall ks, concat (read_all ks q) = firstn (sum_nat ks) w) /\
      (forall ks, (length w <= sum_nat ks)%nat -> concat (read_all ks q) = w) /\
      (forall sched more, arrivals_of sched ++ more = q ->
         exists rest, concat (run_reads (mkRd [] []) sched) ++ rest = w).
  Proof.
    apply (tcp_integrity seal open marshal_w (parse_w now) le_len_w le_encode_w le_decode_w (meta_ok_w now) le_ok_w
             seal_len open_seal (marshal_len_w now) (parse_marshal_w now)).
    - intros lp pb n p H. apply (proj1 (le_w_laws seal seal_len seal_bytes lp pb n p H)).
    - intros lp pb n p H. apply (proj2 (le_w_laws seal seal_len seal_bytes lp pb n p H)).
  Qed.
End Concrete.

(* tamper lemma with the concrete metadata layout: its only premises are INT-CTXT relative to the boxes the
   sender sealed and the freshness of the nonces of that direction *)
Theorem tamper_prefix_concrete : forall (open : list N -> list N -> option (list N)) (now : N)
    (n0 : list N) (segs : list segment),
  (forall n c p, open n c = Some p -> In (n, p) (sealed marshal_w le_len_w n0 segs)) ->
  NoDup (map fst (sealed marshal_w le_len_w n0 segs) ++ [nonce_after n0 segs]) ->
  Forall (seg_ok le_len_w (meta_ok_w now) le_ok_w) segs ->
  forall x x1, take nonceLen x = Some (n0, x1) ->
    (exists k, fst (feed open (parse_w now) le_decode_w r_init x) = firstn k (map (deliver le_len_w) segs)) /\
    (forall y, r_failed (snd (feed open (parse_w now) le_decode_w r_init x)) = true ->
               fst (feed open (parse_w now) le_decode_w (snd (feed open (parse_w now) le_decode_w r_init x)) y) = []).
Proof.
  intros open now. apply (tamper_prefix open marshal_w (parse_w now) le_len_w le_decode_w (meta_ok_w now) le_ok_w (parse_marshal_w now)).
Qed.
