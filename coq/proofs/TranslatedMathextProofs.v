(* pkg/mathext as the source says it NOW (gen/Translated.v, written by harness/cmd/go2coq on every run) equals the
   hand-written model functions of base/Bits64.v that the C17 theorems are about.

   Shape of every loop proof: one-step simulation ([MiniGo.while_simulates]) between the translated loop on Z
   triples and the model's fuelled loop on N, under the representation [Z.of_N]; the body is never unfolded as a
   whole, it is normalised with the bridge lemmas of proofs/MiniGoProofs.v (database xl_n2z), so an edit of the
   Go source that leaves each iteration's effect in place (up to those rewrites) keeps the proof; anything else
   breaks it, and check C17 then reports the obligation and searches for an input on which source and model differ. *)
From Coq Require Import ZArith NArith Bool Lia ZifyN ZifyBool.
From M Require Import base.MiniGo base.Bits64 gen.Translated proofs.MiniGoProofs proofs.Bits64Proofs proofs.Bits64LoopProofs.
Open Scope Z_scope.

Local Ltac while_of_goal c b :=
  match goal with |- context [while _ ?c0 ?b0 _] => pose (c := c0); pose (b := b0) end.

(* ---------------------------------------------------------------- Min / Max / Abs at int *)

Theorem xl_Min_int_eq_model a b : xl_mathext_Min_int a b = Z.min a b.
Proof. unfold xl_mathext_Min_int. destruct (Z.leb_spec a b); lia. Qed.

Theorem xl_Max_int_eq_model a b : xl_mathext_Max_int a b = Z.max a b.
Proof. unfold xl_mathext_Max_int. destruct (Z.leb_spec b a); lia. Qed.

(* -a wraps only at the most negative int *)
Theorem xl_Abs_int_eq_model a : - 2 ^ 63 < a < 2 ^ 63 -> xl_mathext_Abs_int a = Z.abs a.
Proof.
  intro H. unfold xl_mathext_Abs_int. destruct (Z.leb_spec 0 a); [lia|].
  rewrite go_neg_I64 by lia. lia.
Qed.

Theorem xl_Abs_int_min : xl_mathext_Abs_int (- 2 ^ 63) = - 2 ^ 63.
Proof. reflexivity. Qed.

(* ---------------------------------------------------------------- RepeatUint32 *)

Theorem xl_RepeatUint32_eq_model (v : N) : (v < 2 ^ 32)%N ->
  xl_mathext_RepeatUint32 (Z.of_N v) = Z.of_N (repeat32 v).
Proof.
  intro Hv. unfold xl_mathext_RepeatUint32.
  assert (Hv64 : (v < 2 ^ 64)%N) by (eapply N.lt_trans; [exact Hv | reflexivity]).
  rewrite go_cast_U64_of_N by exact Hv64.
  change 32 with (Z.of_N 32). rewrite go_shl_U64_of_N by reflexivity.
  rewrite N.mod_small.
  - rewrite <- of_N_lor. f_equal. unfold repeat32. apply lor_shifted_N. exact Hv.
  - change (2 ^ 64)%N with (2 ^ 32 * 2 ^ 32)%N. apply N.mul_lt_mono_pos_r; [reflexivity | exact Hv].
Qed.

(* ---------------------------------------------------------------- the portable PDEP / PEXT loops *)

Definition pc (m : N) : nat := N.to_nat (popcount m).

Lemma pc_clear_lowest m : m <> 0%N -> (pc (N.land m (m - 1)) < pc m)%nat.
Proof.
  intro H. destruct m as [|p]; [contradiction|]. unfold pc.
  rewrite land_pred. pose proof (popcount_clearlow p). cbn [popcount]. lia.
Qed.

Lemma pc_le_64 m : (m < W64)%N -> (pc m <= 64)%nat.
Proof. intro H. unfold pc. pose proof (popcount_le_64 m H). lia. Qed.

Lemma land_pred_lt m : (m < W64)%N -> (N.land m (m - 1) < W64)%N.
Proof. intro H. apply fits64_lt, fits64_land_l, fits64_lt, H. Qed.

(* the state of both loops: (mask, moving bit, result) of the model represents (mask, result, moving bit) of the
   translated loop, componentwise through Z.of_N; the invariant is that the mask is a 64-bit word *)
Definition rep3 (a : N * N * N) (s : Z * Z * Z) : Prop :=
  let '(m, bit, r) := a in s = (Z.of_N m, Z.of_N r, Z.of_N bit) /\ (m < W64)%N.
Definition out3 (s : Z * Z * Z) : Z := let '(_, r, _) := s in r.
Definition meas3 (a : N * N * N) : nat := let '(m, _, _) := a in pc m.

(* other ways of clearing the lowest set bit of the mask that an edit of the source may choose:
   mask ^= maskBit, mask -= maskBit, mask &^= maskBit  (maskBit = mask & -mask) all give mask & (mask-1) *)
Lemma lxor_lowbit p : N.lxor (Npos p) (Npos (lowbitP p)) = clearlowP p.
Proof.
  induction p as [q IH|q IH|]; cbn [lowbitP clearlowP]; [reflexivity | | reflexivity].
  change (N.lxor (Npos q~0) (Npos (lowbitP q)~0)) with (N.double (N.lxor (Npos q) (Npos (lowbitP q)))).
  rewrite IH. reflexivity.
Qed.
Lemma lowbit_disjoint p : N.land (clearlowP p) (Npos (lowbitP p)) = 0%N.
Proof.
  induction p as [q IH|q IH|]; cbn [lowbitP clearlowP]; [reflexivity | | reflexivity].
  change (Npos (lowbitP q)~0) with (N.double (Npos (lowbitP q))).
  rewrite (double_bcons (clearlowP q)), (double_bcons (Npos (lowbitP q))), land_bcons, IH. reflexivity.
Qed.
Lemma add_lowbit p : (clearlowP p + Npos (lowbitP p))%N = Npos p.
Proof.
  rewrite (N.add_nocarry_lxor _ _ (lowbit_disjoint p)).
  rewrite <- lxor_lowbit, N.lxor_assoc, N.lxor_nilpotent, N.lxor_0_r. reflexivity.
Qed.
Lemma sub_lowbit p : (Npos p - Npos (lowbitP p))%N = clearlowP p.
Proof. pose proof (add_lowbit p). lia. Qed.
Lemma lowbit_le p : (Npos (lowbitP p) <= Npos p)%N.
Proof. pose proof (add_lowbit p). lia. Qed.
Lemma ldiff_lowbit p : N.ldiff (Npos p) (Npos (lowbitP p)) = clearlowP p.
Proof.
  rewrite <- (add_lowbit p) at 1. rewrite (N.add_nocarry_lxor _ _ (lowbit_disjoint p)).
  rewrite (N.lxor_lor _ _ (lowbit_disjoint p)).
  apply N.bits_inj; intro i. rewrite N.ldiff_spec, N.lor_spec.
  pose proof (f_equal (fun z => N.testbit z i) (lowbit_disjoint p)) as D. cbv beta in D.
  rewrite N.land_spec, N.bits_0 in D.
  destruct (N.testbit (clearlowP p) i), (N.testbit (Npos (lowbitP p)) i); cbn in *; congruence.
Qed.

Lemma of_N_ldiff a b : Z.of_N (N.ldiff a b) = Z.ldiff (Z.of_N a) (Z.of_N b).
Proof. destruct a, b; reflexivity. Qed.
Lemma go_andnot_U64_of_N a b : (a < 2 ^ 64)%N -> go_andnot (U 64) (Z.of_N a) (Z.of_N b) = Z.of_N (N.ldiff a b).
Proof.
  intro Ha. unfold go_andnot, go_wrap. rewrite <- Z.ldiff_land, <- of_N_ldiff. apply wrapU64_small.
  apply fits64_lt. apply (fits64_sub _ a); [|apply fits64_lt; exact Ha].
  apply N.bits_inj; intro i. rewrite N.land_spec, N.ldiff_spec.
  destruct (N.testbit a i), (N.testbit b i); reflexivity.
Qed.

(* normal form of one iteration: everything under Z.of_N, the lowest set bit as [Npos (lowbitP p)], the mask
   without it as [clearlowP p], whichever of the equivalent Go expressions the source uses *)
Local Ltac step_norm p :=
  cbv beta iota zeta;
  repeat first
    [ rewrite go_neg_U64_of_N | rewrite go_shl_U64_1 | rewrite eqb_of_N_0 | rewrite if_negb | rewrite if_of_N
    | rewrite <- of_N_land | rewrite <- of_N_lor | rewrite <- of_N_lxor
    | rewrite go_sub_U64_pred by assumption
    | rewrite go_andnot_U64_of_N by assumption
    | progress change ((2 ^ 64 - Npos p mod 2 ^ 64) mod 2 ^ 64)%N with (neg64 (Npos p))
    | rewrite maskbit_eq by assumption
    | rewrite go_sub_U64_of_N by (first [assumption | apply lowbit_le]) ];
  rewrite ?land_pred, ?lxor_lowbit, ?sub_lowbit, ?ldiff_lowbit.

Theorem xl_pdepGeneric_eq_model (x m : N) : (m < W64)%N ->
  xl_mathext_pdepGeneric (Z.of_N x) (Z.of_N m) = Some (Z.of_N (pdep_go x m)).
Proof.
  intro Hm. unfold xl_mathext_pdepGeneric. while_of_goal c b.
  destruct (while_simulates rep3 meas3 (fun f '(m, bit, r) => Z.of_N (pdep_loop f x m bit r)) out3 c b)
    with (f := 64%nat) (a := (m, 1%N, 0%N)) (s := (Z.of_N m, 0, 1)) as (r & Hw & Hr & _).
  - (* stop *)
    intros f [[m0 bit] r0] s [-> Hm0] Hc. subst c. cbv beta iota in Hc.
    rewrite eqb_of_N_0 in Hc. apply negb_false_iff in Hc.
    destruct f; cbn [pdep_loop out3]; [reflexivity | rewrite Hc; reflexivity].
  - (* step *)
    intros f [[m0 bit] r0] s [-> Hm0] Hc. subst c. cbv beta iota in Hc.
    rewrite eqb_of_N_0 in Hc. apply negb_true_iff in Hc.
    destruct m0 as [|p]; [discriminate|]. assert (Hnz : Npos p <> 0%N) by discriminate.
    exists (clearlowP p, (bit * 2) mod W64, if (N.land x bit =? 0)%N then r0 else N.lor r0 (Npos (lowbitP p)))%N.
    split; [|split].
    + subst b. step_norm p. split; [reflexivity | apply clearlow_lt, Hm0].
    + unfold meas3, pc. pose proof (popcount_clearlow p). cbn [popcount]. lia.
    + cbn [pdep_loop]. rewrite Hc, maskbit_eq, land_pred by exact Hm0. reflexivity.
  - split; [reflexivity | exact Hm].
  - apply pc_le_64, Hm.
  - subst c b. rewrite Hw. cbv beta iota in Hr. unfold pdep_go. rewrite Hr.
    destruct r as [[? ?] ?]. reflexivity.
Qed.

Theorem xl_pextGeneric_eq_model (x m : N) : (m < W64)%N ->
  xl_mathext_pextGeneric (Z.of_N x) (Z.of_N m) = Some (Z.of_N (pext_go x m)).
Proof.
  intro Hm. unfold xl_mathext_pextGeneric. while_of_goal c b.
  destruct (while_simulates rep3 meas3 (fun f '(m, bit, r) => Z.of_N (pext_loop f x m bit r)) out3 c b)
    with (f := 64%nat) (a := (m, 1%N, 0%N)) (s := (Z.of_N m, 0, 1)) as (r & Hw & Hr & _).
  - intros f [[m0 bit] r0] s [-> Hm0] Hc. subst c. cbv beta iota in Hc.
    rewrite eqb_of_N_0 in Hc. apply negb_false_iff in Hc.
    destruct f; cbn [pext_loop out3]; [reflexivity | rewrite Hc; reflexivity].
  - intros f [[m0 bit] r0] s [-> Hm0] Hc. subst c. cbv beta iota in Hc.
    rewrite eqb_of_N_0 in Hc. apply negb_true_iff in Hc.
    destruct m0 as [|p]; [discriminate|]. assert (Hnz : Npos p <> 0%N) by discriminate.
    exists (clearlowP p, (bit * 2) mod W64, if (N.land x (Npos (lowbitP p)) =? 0)%N then r0 else N.lor r0 bit)%N.
    split; [|split].
    + subst b. step_norm p. split; [reflexivity | apply clearlow_lt, Hm0].
    + unfold meas3, pc. pose proof (popcount_clearlow p). cbn [popcount]. lia.
    + cbn [pext_loop]. rewrite Hc, maskbit_eq, land_pred by exact Hm0. reflexivity.
  - split; [reflexivity | exact Hm].
  - apply pc_le_64, Hm.
  - subst c b. rewrite Hw. cbv beta iota in Hr. unfold pext_go. rewrite Hr.
    destruct r as [[? ?] ?]. reflexivity.
Qed.

(* against the Intel definition (structural rendering [pdep] / [pext] of base/Bits64.v) *)
Theorem xl_pdepGeneric_eq_spec (x m : N) : (m < W64)%N ->
  xl_mathext_pdepGeneric (Z.of_N x) (Z.of_N m) = Some (Z.of_N (pdep x m)).
Proof. intro Hm. rewrite xl_pdepGeneric_eq_model by exact Hm. rewrite pdep_go_eq_spec by exact Hm. reflexivity. Qed.

Theorem xl_pextGeneric_eq_spec (x m : N) : (m < W64)%N ->
  xl_mathext_pextGeneric (Z.of_N x) (Z.of_N m) = Some (Z.of_N (pext x m)).
Proof. intro Hm. rewrite xl_pextGeneric_eq_model by exact Hm. rewrite pext_go_eq_spec by exact Hm. reflexivity. Qed.

(* non-vacuity: the translated loops run *)
Example ex_xl_pdep : xl_mathext_pdepGeneric 5 0xF0F0 = Some 0x50.
Proof. vm_compute. reflexivity. Qed.
Example ex_xl_pext : xl_mathext_pextGeneric 0xABCD 0xF0F0 = Some 0xAC.
Proof. vm_compute. reflexivity. Qed.
