(* The integer helpers of pkg/protocol/low_entropy.go as the source says them NOW (gen/Translated.v) equal the
   functions of model/LowEntropy.v and base/Bits64.v that the C17 theorems are about:
     isValidLowEntropyRotation = valid_rotation      (rotation is an int32 enum)
     lowBits                   = lowbits             (n >= 0; the source panics for n < 0: shift by a negative count)
     rotateLowEntropyMask      = rotate_mask         (math/bits.RotateLeft64 by its specification, MiniGo.go_rotl64)
     isLowEntropyProtocol      = is_le_proto *)
From Coq Require Import ZArith NArith Bool Lia ZifyN ZifyBool.
From M Require Import gen.Consts base.MiniGo base.Bits64 gen.Translated model.LowEntropy.
From M Require Import proofs.MiniGoProofs proofs.Bits64Proofs.
Open Scope Z_scope.
Ltac Zify.zify_post_hook ::= Z.div_mod_to_equations.

Lemma pow31 : 2 ^ 31 = 2147483648. Proof. reflexivity. Qed.
Lemma pow63' : 2 ^ 63 = 9223372036854775808. Proof. reflexivity. Qed.

Lemma in_I32 z : - 2 ^ 31 <= z < 2 ^ 31 -> go_wrap (I 32) z = z.
Proof. intro H. apply wrapS_id; [lia | exact H]. Qed.

(* ---------------------------------------------------------------- isLowEntropyProtocol *)

Theorem xl_isLowEntropyProtocol_eq_model p : xl_protocol_isLowEntropyProtocol p = is_le_proto p.
Proof. reflexivity. Qed.

(* ---------------------------------------------------------------- isValidLowEntropyRotation *)

Theorem xl_isValidLowEntropyRotation_eq_model r : - 2 ^ 31 <= r < 2 ^ 31 ->
  xl_protocol_isValidLowEntropyRotation r = valid_rotation r.
Proof.
  intro Hr. rewrite pow31 in Hr.
  unfold xl_protocol_isValidLowEntropyRotation, valid_rotation, C17_rotNone, C17_rotRight1, C17_rotRight15, C17_rotLeft1, C17_rotLeft15.
  f_equal.
  destruct (Z.leb_spec 16 r) as [H16|H16]; [|reflexivity].
  destruct (Z.leb_spec r 240) as [H240|H240]; [|reflexivity].
  cbn [andb]. f_equal.
  unfold go_rem. rewrite in_I32.
  - apply Z.rem_mod_nonneg; lia.
  - rewrite pow31. destruct (rem_bounds r 16 ltac:(lia)) as [B _]. specialize (B ltac:(lia)). lia.
Qed.

(* ---------------------------------------------------------------- lowBits *)

Theorem xl_lowBits_eq_model n : 0 <= n -> xl_protocol_lowBits n = Some (Z.of_N (lowbits (Z.to_N n))).
Proof.
  intro Hn. unfold xl_protocol_lowBits, lowbits.
  destruct (Z.leb_spec 64 n) as [H|H].
  - assert (E : (64 <=? Z.to_N n)%N = true) by (apply N.leb_le; lia). rewrite E. reflexivity.
  - assert (E : (64 <=? Z.to_N n)%N = false) by (apply N.leb_gt; lia). rewrite E.
    assert (E0 : (0 <=? n) = true) by (apply Z.leb_le; exact Hn). rewrite E0.
    f_equal. rewrite N.ones_equiv, N2Z.inj_pred by (apply N.neq_0_lt_0, N.pow_nonzero; discriminate).
    rewrite N2Z.inj_pow, Z2N.id by exact Hn. change (Z.of_N 2) with 2.
    assert (P : 1 <= 2 ^ n < 2 ^ 64) by (split; [pose proof (Z.pow_pos_nonneg 2 n); lia | apply Z.pow_lt_mono_r; lia]).
    unfold go_shl, go_bits. assert (E1 : (64 <=? n) = false) by (apply Z.leb_gt; exact H). rewrite E1.
    unfold go_sub, go_wrap. rewrite (wrapU_id 64 (1 * 2 ^ n)) by lia. rewrite wrapU_id by lia. lia.
Qed.

(* the source panics on a negative count; the translation says so *)
Theorem xl_lowBits_panics n : n < 0 -> xl_protocol_lowBits n = None.
Proof.
  intro Hn. unfold xl_protocol_lowBits.
  assert (E : (64 <=? n) = false) by (apply Z.leb_gt; lia). rewrite E.
  assert (E0 : (0 <=? n) = false) by (apply Z.leb_gt; lia). rewrite E0. reflexivity.
Qed.

(* ---------------------------------------------------------------- math/bits.RotateLeft64 *)

Lemma go_rotl64_of_N (x : N) (k : Z) : (x < W64)%N ->
  go_rotl64 (Z.of_N x) k = Z.of_N (rotl64 x (Z.to_N (k mod 64))).
Proof.
  intro Hx. unfold go_rotl64. cbv zeta.
  assert (Hs : 0 <= k mod 64 < 64) by (apply Z.mod_pos_bound; lia).
  set (s := Z.to_N (k mod 64)). assert (Es : k mod 64 = Z.of_N s) by (subst s; rewrite Z2N.id; lia).
  assert (Hs' : (s < 64)%N) by lia. rewrite Es.
  rewrite go_shl_U64_of_N by exact Hs'.
  replace (64 - Z.of_N s) with (Z.of_N (64 - s)) by lia.
  rewrite go_shr_U_of_N, <- of_N_lor. f_equal.
  unfold rotl64. rewrite N.shiftr_div_pow2.
  pose proof (pow2_split s ltac:(lia)) as E. unfold W64 in E, Hx.
  assert (P1 : (2 ^ (64 - s) <> 0)%N) by (apply N.pow_nonzero; discriminate).
  assert (P2 : (2 ^ s <> 0)%N) by (apply N.pow_nonzero; discriminate).
  rewrite <- E at 1. rewrite N.mul_mod_distr_r by assumption.
  apply lor_shifted_N. apply N.div_lt_upper_bound; [exact P1 | rewrite E; exact Hx].
Qed.

(* ---------------------------------------------------------------- rotateLowEntropyMask *)

Theorem xl_rotateLowEntropyMask_eq_model (init : N) (rot ci : Z) :
  (init < W64)%N -> - 2 ^ 31 <= rot < 2 ^ 31 -> 0 <= ci < 2 ^ 63 ->
  xl_protocol_rotateLowEntropyMask (Z.of_N init) rot ci = Z.of_N (rotate_mask init rot (Z.to_N ci)).
Proof.
  intros Hi Hr Hc. rewrite pow31 in Hr. rewrite pow63' in Hc.
  unfold xl_protocol_rotateLowEntropyMask, rotate_mask, C17_rotNone, C17_rotRight15.
  assert (E0 : (Z.to_N ci =? 0)%N = (ci =? 0)).
  { destruct (Z.eqb_spec ci 0) as [->|H]; [reflexivity | apply N.eqb_neq; lia]. }
  rewrite E0. destruct ((rot =? 0) || (ci =? 0)); [reflexivity|].
  assert (Em : Z.of_N (Z.to_N ci mod 64) = Z.rem ci 64).
  { rewrite N2Z.inj_mod, Z2N.id by lia. change (Z.of_N 64) with 64. symmetry. apply Z.rem_mod_nonneg; lia. }
  rewrite Em.
  assert (Rm : 0 <= Z.rem ci 64 < 64) by (apply Z.rem_bound_pos; lia).
  rewrite (go_rem_I64 ci 64) by (rewrite ?pow63'; lia).
  rewrite (go_cast_I64 rot) by (rewrite pow63'; lia).
  destruct (Z.leb_spec rot 15) as [H15|H15].
  - rewrite go_mul_I64 by (rewrite pow63'; nia). rewrite go_neg_I64 by (rewrite pow63'; nia).
    rewrite go_rotl64_of_N by exact Hi. reflexivity.
  - assert (Eq : go_quo (I 32) rot 16 = rot / 16).
    { unfold go_quo. rewrite Z.quot_div_nonneg by lia. apply in_I32. rewrite pow31. lia. }
    rewrite Eq. rewrite (go_cast_I64 (rot / 16)) by (rewrite pow63'; lia).
    rewrite go_mul_I64 by (rewrite pow63'; nia).
    rewrite go_rotl64_of_N by exact Hi. reflexivity.
Qed.

(* non-vacuity *)
Example ex_xl_low_entropy :
  xl_protocol_lowBits 12 = Some 4095 /\ xl_protocol_lowBits 64 = Some (2 ^ 64 - 1) /\ xl_protocol_lowBits 0 = Some 0 /\
  xl_protocol_isValidLowEntropyRotation 48 = true /\ xl_protocol_isValidLowEntropyRotation 50 = false /\
  xl_protocol_rotateLowEntropyMask 1 16 3 = 8 /\ xl_protocol_rotateLowEntropyMask 1 1 3 = 2 ^ 61.
Proof. repeat split; reflexivity. Qed.
