(* The integer helpers of pkg/protocol/low_entropy.go as the source says them NOW (gen/Translated.v) equal the
   functions of model/LowEntropy.v and base/Bits64.v that the C17 theorems are about:
     isValidLowEntropyRotation = valid_rotation      (rotation is an int32 enum)
     lowBits                   = lowbits             (n >= 0; the source panics for n < 0: shift by a negative count)
     rotateLowEntropyMask      = rotate_mask         (math/bits.RotateLeft64 by its specification, MiniGo.go_rotl64)
     isLowEntropyProtocol      = is_le_proto *)
From Coq Require Import ZArith NArith Bool Lia ZifyN ZifyBool.
From M Require Import gen.Consts base.MiniGo base.Bits64 gen.Translated model.LowEntropy.
From M Require Import proofs.MiniGoProofs proofs.Bits64Proofs.
Open Scope Z_scope.
Ltac Zify.zify_post_hook ::= Z.div_mod_to_equations.

Lemma pow31 : 2 ^ 31 = 2147483648. Proof. reflexivity. Qed.
Lemma pow63' : 2 ^ 63 = 9223372036854775808. Proof. reflexivity. Qed.

Lemma in_I32 z : - 2 ^ 31 <= z < 2 ^ 31 -> go_wrap (I 32) z = z.
Proof. intro H. apply wrapS_id; [lia | exact H]. Qed.

(* ---------------------------------------------------------------- isLowEntropyProtocol *)

Theorem xl_isLowEntropyProtocol_eq_model p : xl_protocol_isLowEntropyProtocol p = is_le_proto p.
Proof. reflexivity. Qed.

(* ---------------------------------------------------------------- isValidLowEntropyRotation *)

Theorem xl_isValidLowEntropyRotation_eq_model r : - 2 ^ 31 <= r < 2 ^ 31 ->
  xl_protocol_isValidLowEntropyRotation r = valid_rotation r.
Proof.
  intro Hr. rewrite pow31 in Hr.
  unfold xl_protocol_isValidLowEntropyRotation, valid_rotation, C17_rotNone, C17_rotRight1, C17_rotRight15, C17_rotLeft1, C17_rotLeft15.
  f_equal.
  destruct (Z.leb_spec 16 r) as [H16|H16]; [|reflexivity].
  destruct (Z.leb_spec r 240) as [H240|H240]; [|reflexivity].
  cbn [andb]. f_equal.
  unfold go_rem. rewrite in_I32.
  - apply Z.rem_mod_nonneg; lia.
  - rewrite pow31. destruct (rem_bounds r 16 ltac:(lia)) as [B _]. specialize (B ltac:(lia)). lia.
Qed.

(* ---------------------------------------------------------------- lowBits *)

Theorem xl_lowBits_eq_model n : 0 <= n -> xl_protocol_lowBits n = Some (Z.of_N (lowbits (Z.to_N n))).
Proof.
  intro Hn. unfold xl_protocol_lowBits, lowbits.
  destruct (Z.leb_spec 64 n) as [H|H].
  - assert (E : (64 <=? Z.to_N n)%N = true) by (apply N.leb_le; lia). rewrite E. reflexivity.
  - assert (E : (64 <=? Z.to_N n)%N = false) by (apply N.leb_gt; lia). rewrite E.
    assert (E0 : (0 <=? n) = true) by (apply Z.leb_le; exact Hn). rewrite E0.
    f_equal. rewrite N.ones_equiv, N2Z.inj_pred by (apply N.neq_0_lt_0, N.pow_nonzero; discriminate).
    rewrite N2Z.inj_pow, Z2N.id by exact Hn. change (Z.of_N 2) with 2.
    assert (P : 1 <= 2 ^ n < 2 ^ 64) by (split; [pose proof (Z.pow_pos_nonneg 2 n); lia | apply Z.pow_lt_mono_r; lia]).
    unfold go_shl, go_bits. assert (E1 : (64 <=? n) = false) by (apply Z.leb_gt; exact H). rewrite E1.
    unfold go_sub, go_wrap. rewrite (wrapU_id 64 (1 * 2 ^ n)) by lia. rewrite wrapU_id by lia. lia.
Qed.

(* the source panics on a negative count; the translation says so *)
Theorem xl_lowBits_panics n : n < 0 -> xl_protocol_lowBits n = None.
Proof.
  intro Hn. unfold xl_protocol_lowBits.
  assert (E : (64 <=? n) = false) by (apply Z.leb_gt; lia). rewrite E.
  assert (E0 : (0 <=? n) = false) by (apply Z.leb_gt; lia). rewrite E0. reflexivity.
Qed.

(* ---------------------------------------------------------------- math/bits.RotateLeft64 *)

Lemma go_rotl64_of_N (x : N) (k : Z) : (x < W64)%N ->
  go_rotl64 (Z.of_N x) k = Z.of_N (rotl64 x (Z.to_N (k mod 64))).
Proof.
  intro Hx. unfold go_rotl64. cbv zeta.
  assert (Hs : 0 <= k mod 64 < 64) by (apply Z.mod_pos_bound; lia).
  set (s := Z.to_N (k mod 64)). assert (Es : k mod 64 = Z.of_N s) by (subst s; rewrite Z2N.id; lia).
  assert (Hs' : (s < 64)%N) by lia. rewrite Es.
  rewrite go_shl_U64_of_N by exact Hs'.
  replace (64 - Z.of_N s) with (Z.of_N (64 - s)) by lia.
  rewrite go_shr_U_of_N, <- of_N_lor. f_equal.
  unfold rotl64. rewrite N.shiftr_div_pow2.
  pose proof (pow2_split s ltac:(lia)) as E. unfold W64 in E, Hx.
  assert (P1 : (2 ^ (64 - s) <> 0)%N) by (apply N.pow_nonzero; discriminate).
  assert (P2 : (2 ^ s <> 0)%N) by (apply N.pow_nonzero; discriminate).
  rewrite <- E at 1. rewrite N.mul_mod_distr_r by assumption.
  apply lor_shifted_N. apply N.div_lt_upper_bound; [exact P1 | rewrite E; exact Hx].
Qed.

(* ---------------------------------------------------------------- rotateLowEntropyMask *)

Theorem xl_rotateLowEntropyMask_eq_model (init : N) (rot ci : Z) :
  (init < W64)%N -> - 2 ^ 31 <= rot < 2 ^ 31 -> 0 <= ci < 2 ^ 63 ->
  xl_protocol_rotateLowEntropyMask (Z.of_N init) rot ci = Z.of_N (rotate_mask init rot (Z.to_N ci)).
Proof.
  intros Hi Hr Hc. rewrite pow31 in Hr. rewrite pow63' in Hc.
  unfold xl_protocol_rotateLowEntropyMask, rotate_mask, C17_rotNone, C17_rotRight15.
  assert (E0 : (Z.to_N ci =? 0)%N = (ci =? 0)).
  { destruct (Z.eqb_spec ci 0) as [->|H]; [reflexivity | apply N.eqb_neq; lia]. }
  rewrite E0. destruct ((rot =? 0) || (ci =? 0)); [reflexivity|].
  assert (Em : Z.of_N (Z.to_N ci mod 64) = Z.rem ci 64).
  { rewrite N2Z.inj_mod, Z2N.id by lia. change (Z.of_N 64) with 64. symmetry. apply Z.rem_mod_nonneg; lia. }
  rewrite Em.
  assert (Rm : 0 <= Z.rem ci 64 < 64) by (apply Z.rem_bound_pos; lia).
  rewrite (go_rem_I64 ci 64) by (rewrite ?pow63'; lia).
  rewrite (go_cast_I64 rot) by (rewrite pow63'; lia).
  destruct (Z.leb_spec rot 15) as [H15|H15].
  - rewrite go_mul_I64 by (rewrite pow63'; nia). rewrite go_neg_I64 by (rewrite pow63'; nia).
    rewrite go_rotl64_of_N by exact Hi. reflexivity.
  - assert (Eq : go_quo (I 32) rot 16 = rot / 16).
    { unfold go_quo. rewrite Z.quot_div_nonneg by lia. apply in_I32. rewrite pow31. lia. }
    rewrite Eq. rewrite (go_cast_I64 (rot / 16)) by (rewrite pow63'; lia).
    rewrite go_mul_I64 by (rewrite pow63'; nia).
    rewrite go_rotl64_of_N by exact Hi. reflexivity.
Qed.

(* non-vacuity *)
Example ex_xl_low_entropy :
  xl_protocol_lowBits 12 = Some 4095 /\ xl_protocol_lowBits 64 = Some (2 ^ 64 - 1) /\ xl_protocol_lowBits 0 = Some 0 /\
  xl_protocol_isValidLowEntropyRotation 48 = true /\ xl_protocol_isValidLowEntropyRotation 50 = false /\
  xl_protocol_rotateLowEntropyMask 1 16 3 = 8 /\ xl_protocol_rotateLowEntropyMask 1 1 3 = 2 ^ 61.
Proof. repeat split; reflexivity. Qed.

(* ---------------------------------------------------------------- buildLowEntropyParams, lowEntropyEncodedPayloadLen
   (error results are booleans in the translation, true = an error was returned; the parameter struct is a pair) *)

Theorem xl_buildLowEntropyParams_eq_mode_params mode :
  xl_protocol_buildLowEntropyParams mode =
  match mode_params mode with Some (c, w) => ((c, w), false) | None => ((0, 0), true) end.
Proof.
  unfold mode_params.
  destruct (Z.leb_spec 0 mode) as [H0|H0]; [destruct (Z.ltb_spec mode 8) as [H8|H8]|]; cbn [andb].
  - assert (C : mode = 0 \/ mode = 1 \/ mode = 2 \/ mode = 3 \/ mode = 4 \/ mode = 5 \/ mode = 6 \/ mode = 7) by lia.
    destruct C as [->|[->|[->|[->|[->|[->|[->| ->]]]]]]]; reflexivity.
  - unfold xl_protocol_buildLowEntropyParams.
    repeat match goal with |- context [mode =? ?k] => destruct (Z.eqb_spec mode k); [lia|] end. reflexivity.
  - unfold xl_protocol_buildLowEntropyParams.
    repeat match goal with |- context [mode =? ?k] => destruct (Z.eqb_spec mode k); [lia|] end. reflexivity.
Qed.

Lemma mode_params_range mode c w : mode_params mode = Some (c, w) -> 4 <= c <= 7.
Proof.
  unfold mode_params.
  destruct (Z.leb_spec 0 mode) as [H0|H0]; [destruct (Z.ltb_spec mode 8) as [H8|H8]|]; cbn [andb]; try discriminate.
  assert (C : mode = 0 \/ mode = 1 \/ mode = 2 \/ mode = 3 \/ mode = 4 \/ mode = 5 \/ mode = 6 \/ mode = 7) by lia.
  destruct C as [->|[->|[->|[->|[->|[->|[->| ->]]]]]]]; cbn; intro E; inversion E; lia.
Qed.

Definition of_res (r : res Z) : Z * bool := match r with Ok v => (v, false) | Err _ => (0, true) end.

Theorem xl_lowEntropyEncodedPayloadLen_eq_enc_len n mode : - 2 ^ 61 < n < 2 ^ 61 ->
  xl_protocol_lowEntropyEncodedPayloadLen n mode = Some (of_res (enc_len n mode)).
Proof.
  intro Hn. assert (P61 : 2 ^ 61 = 2305843009213693952) by reflexivity. rewrite P61 in Hn.
  unfold xl_protocol_lowEntropyEncodedPayloadLen, enc_len.
  rewrite xl_buildLowEntropyParams_eq_mode_params.
  destruct (mode_params mode) as [[c w]|] eqn:Em; [|reflexivity].
  pose proof (mode_params_range _ _ _ Em) as Rc.
  cbv beta iota zeta. cbn [Bool.eqb negb].
  destruct (Z.leb_spec n 0) as [H0|H0]; [reflexivity|].
  assert (E0 : (c =? 0) = false) by (apply Z.eqb_neq; lia). rewrite E0. cbn [negb].
  rewrite go_quo_I64, go_rem_I64 by (rewrite ?pow63'; lia).
  rewrite Z.quot_div_nonneg, Z.rem_mod_nonneg by lia.
  assert (Q : 0 <= n / c <= n) by (split; [apply Z.div_pos; lia | apply Z.div_le_upper_bound; nia]).
  rewrite if_negb.
  assert (Ec : (if n mod c =? 0 then n / c else go_add (I 64) (n / c) 1) = nchunks n c).
  { unfold nchunks. destruct (n mod c =? 0); [lia | apply go_add_I64; rewrite pow63'; lia]. }
  rewrite Ec. assert (0 <= nchunks n c <= n + 1) by (unfold nchunks; destruct (n mod c =? 0); lia).
  unfold C17_lowEntropyChunkLen. change (65535 / 8) with 8191. rewrite Z.gtb_ltb.
  destruct (Z.ltb_spec 8191 (nchunks n c)) as [Hc|Hc]; [reflexivity|].
  rewrite go_mul_I64 by (rewrite ?pow63'; lia).
  unfold go_cast, go_wrap. rewrite wrapU_id by lia. reflexivity.
Qed.

(* ---- validateLowEntropyCodecParams: the gate in front of the codec and of the metadata check ---- *)
Lemma go_popP_eq p : go_popP p = Z.of_N (popP p).
Proof. induction p as [q IH|q IH|]; cbn [go_popP popP]; rewrite ?IH; lia. Qed.

Lemma go_popcount_of_N (m : N) : go_popcount (Z.of_N m) = Z.of_N (popcount m).
Proof. destruct m as [|p]; [reflexivity|]. cbn [Z.of_N go_popcount popcount]. apply go_popP_eq. Qed.

(* the source as it is now accepts exactly the parameter triples validate_params accepts (mode of the table, half mask of
   the mode's weight - counted bit by bit, not estimated -, valid rotation) and returns the mode's parameters *)
Theorem xl_validateLowEntropyCodecParams_eq_model (mode : Z) (hm : N) (rot : Z) : - 2 ^ 31 <= rot < 2 ^ 31 ->
  xl_protocol_validateLowEntropyCodecParams mode (Z.of_N hm) rot =
  match validate_params mode hm rot with Ok (c, w) => ((c, w), false) | Err _ => ((0, 0), true) end.
Proof.
  intro Hr. unfold xl_protocol_validateLowEntropyCodecParams, validate_params.
  rewrite xl_buildLowEntropyParams_eq_mode_params, go_popcount_of_N, xl_isValidLowEntropyRotation_eq_model by exact Hr.
  destruct (mode_params mode) as [[c w]|]; cbn [Bool.eqb negb]; [|reflexivity].
  destruct (Z.of_N (popcount hm) =? w); cbn [negb]; [|reflexivity].
  destruct (valid_rotation rot); reflexivity.
Qed.

(* ---- lowEntropyChunkMask: the mask of chunk i, or an error for an invalid rotation / a negative index ---- *)
Theorem xl_lowEntropyChunkMask_eq_model (init : N) (rot ci : Z) :
  (init < W64)%N -> - 2 ^ 31 <= rot < 2 ^ 31 -> - 2 ^ 63 <= ci < 2 ^ 63 ->
  xl_protocol_lowEntropyChunkMask (Z.of_N init) rot ci =
  match chunk_mask init rot ci with Ok v => (Z.of_N v, false) | Err _ => (0, true) end.
Proof.
  intros Hi Hr Hc. unfold xl_protocol_lowEntropyChunkMask, chunk_mask.
  rewrite xl_isValidLowEntropyRotation_eq_model by exact Hr.
  destruct (valid_rotation rot); cbn [negb]; [|reflexivity].
  destruct (Z.ltb_spec ci 0) as [Hn|Hn]; [reflexivity|].
  rewrite xl_rotateLowEntropyMask_eq_model by (assumption || lia). reflexivity.
Qed.
