(* C04 - proofs about model/Tamper.v (and the TCP receiver of model/TcpStream.v) *)
From Coq Require Import List NArith ZArith Bool Arith Lia.
From Coq Require Import ZifyN ZifyNat ZifyBool.
From M Require Import gen.Consts model.TcpStream proofs.TcpStreamProofs model.Tamper.
Import ListNotations.
Open Scope N_scope.

(* ------------------------------------------------------------------ small facts *)
Lemma nonce_add_S : forall k n, nonce_add (S k) n = nonce_inc (nonce_add k n).
Proof.
  induction k as [|k IH]; intros n; [reflexivity|].
  change (nonce_add (S (S k)) n) with (nonce_add (S k) (nonce_inc n)).
  rewrite IH. reflexivity.
Qed.

Lemma list_eqb_true : forall a b, list_eqb a b = true -> a = b.
Proof.
  induction a as [|x a IH]; intros [|y b] H; cbn [list_eqb] in H; try discriminate; [reflexivity|].
  apply andb_prop in H. destruct H as [H1 H2]. apply N.eqb_eq in H1. subst y. f_equal. apply IH, H2.
Qed.

Lemma list_eqb_refl : forall a, list_eqb a a = true.
Proof. induction a as [|x a IH]; cbn [list_eqb]; [reflexivity|]. rewrite N.eqb_refl, IH. reflexivity. Qed.

Lemma stream_boxes_app : forall mm ll a b, stream_boxes mm ll (a ++ b) = stream_boxes mm ll a ++ stream_boxes mm ll b.
Proof. intros. unfold stream_boxes. rewrite map_app, concat_app. reflexivity. Qed.

Lemma parse1_header : forall op pm ld n rest, length n = nonceLen ->
  parse1 op pm ld None (n ++ rest) = parse1 op pm ld (Some n) rest.
Proof.
  intros op pm ld n rest Hn. unfold parse1. rewrite <- Hn, take_app_exact. cbn [take]. reflexivity.
Qed.

(* ------------------------------------------------------------------ TCP: every delivered segment is authentic *)
Section TcpAuthentic.
  Variable open : list N -> list N -> option (list N).
  Variable parse_meta : list N -> option minfo.
  Variable le_decode : leparams -> N -> list N -> option (list N).
  (* the (nonce, plaintext) pairs sealed by holders of the key: this direction, the other direction,
     other connections of the same user *)
  Variable sealed : list N -> list N -> Prop.
  Hypothesis open_sound : forall n c p, open n c = Some p -> sealed n p.

  Notation parse1 := (parse1 open parse_meta le_decode).
  Notation drain := (drain open parse_meta le_decode).
  Notation feed := (feed open parse_meta le_decode).

  (* metadata sealed under some nonce n, payload (if any) sealed under n + 1 *)
  Definition authentic (r : rseg) : Prop :=
    exists n mp, sealed n mp /\ parse_meta mp = Some (fst r) /\ (snd r = [] \/ sealed (nonce_inc n) (snd r)).

  Lemma parse1_authentic : forall nx buf s n' rest, parse1 nx buf = Got s n' rest -> authentic s.
  Proof.
    intros nx buf s n' rest H. unfold TcpStream.parse1 in H.
    repeat match type of H with
    | context [match ?x with _ => _ end] => destruct x eqn:?; try discriminate H
    | context [if ?x then _ else _] => destruct x eqn:?; try discriminate H
    end; inversion H; subst; clear H; unfold authentic; cbn [fst snd];
    match goal with
    | Ho : open ?n _ = Some ?mp, Hp : parse_meta ?mp = Some _ |- _ =>
        exists n, mp; split; [exact (open_sound _ _ _ Ho)|split; [exact Hp|]]
    end; try (left; reflexivity);
    right; match goal with Ho : open (nonce_inc _) _ = Some _ |- _ => exact (open_sound _ _ _ Ho) end.
  Qed.

  Lemma drain_authentic : forall fuel nx buf, Forall authentic (fst (drain fuel nx buf)).
  Proof.
    induction fuel as [|f IH]; intros nx buf; cbn [TcpStream.drain]; [constructor|].
    destruct (parse1 nx buf) as [| |s n' rest] eqn:E; cbn [fst]; try constructor.
    specialize (IH (Some n') rest). destruct (drain f (Some n') rest) as [l st]. cbn [fst] in *.
    constructor; [exact (parse1_authentic _ _ _ _ _ E)|exact IH].
  Qed.

  Theorem tcp_authentic : forall st chunk, Forall authentic (fst (feed st chunk)).
  Proof.
    intros st chunk. unfold TcpStream.feed. destruct (r_failed st); [constructor|]. apply drain_authentic.
  Qed.
End TcpAuthentic.

Lemma c04_inc_le_len : forall l, length (inc_le l) = length l.
Proof. induction l as [|b t IH]; cbn [inc_le length]; [reflexivity|]. destruct (b + 1 <? 256); cbn [length]; [reflexivity|rewrite IH; reflexivity]. Qed.
Lemma c04_nonce_add_len : forall k n, length (nonce_add k n) = length n.
Proof.
  induction k as [|k IH]; intros n; cbn [nonce_add]; [reflexivity|]. rewrite IH. unfold nonce_inc.
  rewrite rev_length, c04_inc_le_len, rev_length. reflexivity.
Qed.

Lemma c04_firstn_in {A} : forall n (l : list A) x, In x (firstn n l) -> In x l.
Proof. induction n as [|n IH]; intros [|y l] x H; cbn [firstn] in H; try contradiction. destruct H as [H|H]; [left; exact H|right; apply (IH _ _ H)]. Qed.

Lemma session_in_other : forall client sid l, Forall (fun r : rseg => mi_sid (fst r) <> sid) l -> session_in client sid l = [].
Proof.
  intros client sid l H. induction H as [|r t Hr _ IH]; cbn [session_in]; [reflexivity|].
  destruct (mi_sid (fst r) =? sid) eqn:E; [apply N.eqb_eq in E; contradiction|exact IH].
Qed.

(* ------------------------------------------------------------------ TCP: prefix *)
Section TcpPrefix.
  Variable open : list N -> list N -> option (list N).
  Variable parse_meta : list N -> option minfo.
  Variable le_decode : leparams -> N -> list N -> option (list N).
  Variable marshal_meta : minfo -> list N.
  Variable le_len : leparams -> N -> N.
  Variable segs : list segment.     (* what the sender of this direction sent *)
  Variable n0 : list N.             (* its first nonce *)

  Notation P := (stream_boxes marshal_meta le_len segs).
  Notation fill_meta := (fill_meta le_len).
  Notation deliver := (deliver le_len).
  Notation parse1 := (parse1 open parse_meta le_decode).
  Notation drain := (drain open parse_meta le_decode).
  Notation feed := (feed open parse_meta le_decode).
  Notation sboxes := (stream_boxes marshal_meta le_len).

  (* INT-CTXT for this direction: only the sender's boxes open, each under its own counter value *)
  Hypothesis open_sound : forall n c p, open n c = Some p ->
    exists k, n = nonce_add k n0 /\ nth_error P k = Some p.
  (* the counter does not wrap within the stream *)
  Hypothesis nonce_distinct : forall i k, (i <= length P)%nat -> (k < length P)%nat ->
    nonce_add i n0 = nonce_add k n0 -> i = k.
  (* what was sent parses back, and a body is present iff payloadLen > 0 *)
  Hypothesis sent_ok : forall s, In s segs ->
    parse_meta (marshal_meta (fill_meta s)) = Some (fill_meta s) /\
    (mi_plen (fill_meta s) =? 0) = is_nil (s_payload s).

  Lemma open_at : forall i c p, (i <= length P)%nat -> open (nonce_add i n0) c = Some p -> nth_error P i = Some p.
  Proof.
    intros i c p Hi Ho. destruct (open_sound _ _ _ Ho) as [k [Hn Hk]].
    assert (Hlt : (k < length P)%nat) by (apply nth_error_Some; rewrite Hk; discriminate).
    rewrite (nonce_distinct i k Hi Hlt Hn). exact Hk.
  Qed.

  Lemma seg_boxes_len : forall s, (1 <= length (seg_boxes marshal_meta le_len s))%nat.
  Proof. intros s. unfold seg_boxes. cbn [length]. lia. Qed.

  Lemma parse1_aligned : forall pre l buf s n' rest, segs = pre ++ l ->
    parse1 (Some (nonce_add (length (sboxes pre)) n0)) buf = Got s n' rest ->
    exists s0 l', l = s0 :: l' /\ s = deliver s0 /\ n' = nonce_add (length (sboxes (pre ++ [s0]))) n0.
  Proof.
    intros pre l buf s n' rest Hsegs H.
    set (i := length (sboxes pre)) in *.
    assert (HP : P = sboxes pre ++ sboxes l) by (rewrite Hsegs; apply stream_boxes_app).
    unfold TcpStream.parse1 in H. cbn [take] in H.
    destruct (take (metaLen + tagLen) buf) as [[mbox b2]|] eqn:E1; [|discriminate H].
    destruct (open (nonce_add i n0) mbox) as [mp|] eqn:Eo; [|discriminate H].
    destruct (parse_meta mp) as [mi|] eqn:Ep; [|discriminate H].
    (* the metadata box is box i of the sender: the metadata of the first remaining segment *)
    assert (Hi : (i <= length P)%nat) by (rewrite HP, app_length; unfold i; lia).
    pose proof (open_at _ _ _ Hi Eo) as Hnth.
    rewrite HP, nth_error_app2 in Hnth by (unfold i; lia).
    replace (i - length (sboxes pre))%nat with 0%nat in Hnth by (unfold i; lia).
    destruct l as [|s0 l']; [discriminate Hnth|].
    assert (Hin : In s0 segs) by (rewrite Hsegs; apply in_or_app; right; left; reflexivity).
    destruct (sent_ok s0 Hin) as [Hpm Hpl].
    change (sboxes (s0 :: l')) with (seg_boxes marshal_meta le_len s0 ++ sboxes l') in *.
    unfold seg_boxes in Hnth. cbn [app nth_error] in Hnth. inversion Hnth; subst mp; clear Hnth.
    rewrite Hpm in Ep. inversion Ep; subst mi; clear Ep.
    assert (Hlen : length (sboxes (pre ++ [s0])) = (i + length (seg_boxes marshal_meta le_len s0))%nat).
    { rewrite stream_boxes_app, app_length. unfold i. f_equal. unfold stream_boxes. cbn [map concat].
      rewrite app_nil_r. reflexivity. }
    exists s0, l'. split; [reflexivity|].
    destruct (take (if is_session (mi_proto (fill_meta s0)) then 0%nat else N.to_nat (mi_pre (fill_meta s0))) b2)
      as [[p1 b3]|] eqn:E2; [|discriminate H].
    destruct (mi_plen (fill_meta s0) =? 0) eqn:Ez.
    - (* no body *)
      symmetry in Hpl. apply is_nil_true in Hpl.
      destruct (take (N.to_nat (mi_suf (fill_meta s0))) b3) as [[p2 r]|] eqn:E3; [|discriminate H].
      injection H as Hs Hn' Hr. subst s n' rest. split.
      + unfold TcpStream.deliver. rewrite Hpl. reflexivity.
      + rewrite Hlen. unfold seg_boxes. rewrite Hpl. cbn [is_nil length].
        replace (i + 1)%nat with (S i) by lia. rewrite nonce_add_S. reflexivity.
    - (* body: box i + 1 *)
      assert (Hnn : is_nil (s_payload s0) = false) by (rewrite <- Hpl; reflexivity).
      assert (Hsb : seg_boxes marshal_meta le_len s0 = [marshal_meta (fill_meta s0); s_payload s0])
        by (unfold seg_boxes; rewrite Hnn; reflexivity).
      destruct (take (N.to_nat (mi_plen (fill_meta s0)) + tagLen) b3) as [[body b4]|] eqn:E3; [|discriminate H].
      match type of H with context [match ?x with _ => _ end] => destruct x as [box|] eqn:Eb; [|discriminate H] end.
      rewrite <- nonce_add_S in H.
      destruct (open (nonce_add (S i) n0) box) as [pl|] eqn:Eo2; [|discriminate H].
      destruct (take (N.to_nat (mi_suf (fill_meta s0))) b4) as [[p2 r]|] eqn:E4; [|discriminate H].
      injection H as Hs Hn' Hr. subst s n' rest.
      assert (Hi2 : (S i <= length P)%nat).
      { rewrite HP, app_length. change (sboxes (s0 :: l')) with (seg_boxes marshal_meta le_len s0 ++ sboxes l').
        rewrite app_length, Hsb. cbn [length]. unfold i. lia. }
      pose proof (open_at _ _ _ Hi2 Eo2) as Hnth.
      rewrite HP, nth_error_app2 in Hnth by (unfold i; lia).
      replace (S i - length (sboxes pre))%nat with 1%nat in Hnth by (unfold i; lia).
      change (sboxes (s0 :: l')) with (seg_boxes marshal_meta le_len s0 ++ sboxes l') in Hnth.
      rewrite Hsb in Hnth. cbn [app nth_error] in Hnth. inversion Hnth; subst pl; clear Hnth.
      split; [reflexivity|].
      rewrite Hlen, Hsb. cbn [length]. replace (i + 2)%nat with (S (S i)) by lia.
      rewrite (nonce_add_S (S i)). reflexivity.
  Qed.

  Lemma drain_aligned : forall fuel pre l buf, segs = pre ++ l ->
    exists m, fst (drain fuel (Some (nonce_add (length (sboxes pre)) n0)) buf) = map deliver (firstn m l).
  Proof.
    induction fuel as [|f IH]; intros pre l buf Hsegs; cbn [TcpStream.drain].
    - exists 0%nat. reflexivity.
    - destruct (parse1 (Some (nonce_add (length (sboxes pre)) n0)) buf) as [| |s n' rest] eqn:E;
        try (exists 0%nat; reflexivity).
      destruct (parse1_aligned _ _ _ _ _ _ Hsegs E) as [s0 [l' [Hl [Hs Hn]]]]. subst l s n'.
      assert (Hsegs' : segs = (pre ++ [s0]) ++ l') by (rewrite <- app_assoc; exact Hsegs).
      destruct (IH (pre ++ [s0]) l' rest Hsegs') as [m Hm].
      destruct (drain f (Some (nonce_add (length (sboxes (pre ++ [s0]))) n0)) rest) as [l2 st2].
      cbn [fst] in *. exists (S m). cbn [firstn map]. rewrite Hm. reflexivity.
  Qed.

  (* the receiver started on the sender's nonce: whatever follows, a prefix is delivered *)
  Theorem tcp_prefix_header_intact : length n0 = nonceLen -> forall rest,
    exists j, fst (feed r_init (n0 ++ rest)) = map deliver (firstn j segs).
  Proof.
    intros Hn rest. unfold TcpStream.feed. cbn [r_failed r_init r_buf r_next app].
    cbn [TcpStream.drain]. rewrite (parse1_header _ _ _ _ _ Hn).
    change n0 with (nonce_add (length (sboxes [])) n0) at 1.
    destruct (parse1 (Some (nonce_add (length (sboxes [])) n0)) rest) as [| |s n' r] eqn:E;
      try (exists 0%nat; reflexivity).
    destruct (parse1_aligned [] segs _ _ _ _ eq_refl E) as [s0 [l' [Hl [Hs Hn']]]]. subst s n'.
    assert (Hsegs' : segs = ([] ++ [s0]) ++ l') by (cbn [app]; exact Hl).
    destruct (drain_aligned (length (n0 ++ rest)) ([] ++ [s0]) l' r Hsegs') as [m Hm].
    destruct (drain (length (n0 ++ rest)) (Some (nonce_add (length (sboxes ([] ++ [s0]))) n0)) r) as [l2 st2].
    cbn [fst] in *. exists (S m). rewrite Hl. cbn [firstn map]. rewrite Hm. reflexivity.
  Qed.

  (* the receiver started on the sender's nonce advanced to a SEGMENT BOUNDARY (nonce header rewritten, leading
     segments removed; or a whole stream of this sender fed to another receiver): a contiguous run of the sender's
     segments from that boundary is delivered *)
  Theorem tcp_infix_from_boundary : length n0 = nonceLen -> forall pre l rest, segs = pre ++ l ->
    exists m, fst (feed r_init (nonce_add (length (sboxes pre)) n0 ++ rest)) = map deliver (firstn m l).
  Proof.
    intros Hn pre l rest Hsegs. unfold TcpStream.feed. cbn [r_failed r_init r_buf r_next app].
    cbn [TcpStream.drain].
    assert (Hk : length (nonce_add (length (sboxes pre)) n0) = nonceLen) by (rewrite c04_nonce_add_len; exact Hn).
    rewrite (parse1_header _ _ _ _ _ Hk).
    destruct (parse1 (Some (nonce_add (length (sboxes pre)) n0)) rest) as [| |s n' r] eqn:E;
      try (exists 0%nat; reflexivity).
    destruct (parse1_aligned pre l _ _ _ _ Hsegs E) as [s0 [l' [Hl [Hs Hn']]]]. subst s n' l.
    assert (Hsegs' : segs = (pre ++ [s0]) ++ l') by (rewrite <- app_assoc; exact Hsegs).
    destruct (drain_aligned (length (nonce_add (length (sboxes pre)) n0 ++ rest)) (pre ++ [s0]) l' r Hsegs') as [m Hm].
    destruct (drain (length (nonce_add (length (sboxes pre)) n0 ++ rest)) (Some (nonce_add (length (sboxes (pre ++ [s0]))) n0)) r)
      as [l2 st2].
    cbn [fst] in *. exists (S m). cbn [firstn map]. rewrite Hm. reflexivity.
  Qed.

  (* cross-connection splice: this sender's stream (whole, or from any segment boundary, followed by anything) fed to a
     receiver whose session id is not among this sender's session ids hands nothing to that session *)
  Theorem tcp_cross_connection_splice_refused : length n0 = nonceLen -> forall client sidB,
    Forall (fun s => mi_sid (s_meta s) <> sidB) segs ->
    forall pre l rest, segs = pre ++ l ->
      session_in client sidB (fst (feed r_init (nonce_add (length (sboxes pre)) n0 ++ rest))) = [].
  Proof.
    intros Hn client sidB Hd pre l rest Hsegs.
    destruct (tcp_infix_from_boundary Hn pre l rest Hsegs) as [m Hm]. rewrite Hm.
    apply session_in_other. rewrite Forall_forall. intros r Hr.
    apply in_map_iff in Hr. destruct Hr as [s [Hs Hin]]. subst r.
    rewrite Forall_forall in Hd. apply (Hd s). rewrite Hsegs. apply in_or_app. right.
    exact (c04_firstn_in _ _ _ Hin).
  Qed.

End TcpPrefix.

(* fewer than 24 bytes: nothing is delivered *)
Lemma tcp_short_nothing : forall op pm ld s', (length s' < nonceLen)%nat -> fst (feed op pm ld r_init s') = [].
Proof.
  intros op pm ld s' Hl. unfold feed. cbn [r_failed r_init r_buf r_next app]. cbn [drain].
  unfold parse1. destruct (take nonceLen s') as [[a b]|] eqn:E; [|reflexivity].
  apply take_some_split in E. destruct E as [E1 E2]. subst s'. rewrite app_length in Hl. lia.
Qed.

(* no resynchronisation: once the receiver has failed, nothing that follows is delivered *)
Theorem tcp_no_resync : forall op pm ld a b,
  r_failed (snd (feed op pm ld r_init a)) = true -> feed op pm ld r_init (a ++ b) = feed op pm ld r_init a.
Proof.
  intros op pm ld a b H. rewrite feed_app. destruct (feed op pm ld r_init a) as [l1 st1]. cbn [snd] in H.
  rewrite (feed_failed _ _ _ _ b H). rewrite app_nil_r. reflexivity.
Qed.

(* ------------------------------------------------------------------ the table AEAD satisfies INT-CTXT *)
Lemma tab_open_tcp_sound : forall boxes n n' c p,
  tab_open (tcp_tab n boxes) n' c = Some p -> exists k, n' = nonce_add k n /\ nth_error boxes k = Some p.
Proof.
  induction boxes as [|p0 t IH]; intros n n' c p H; cbn [tcp_tab tab_open] in H; [discriminate|].
  destruct (list_eqb n' n && list_eqb c (toy_seal n p0)) eqn:E.
  - inversion H; subst. apply andb_prop in E. destruct E as [E1 _]. apply list_eqb_true in E1.
    exists 0%nat. split; [exact E1|reflexivity].
  - destruct (IH _ _ _ _ H) as [k [Hn Hk]]. exists (S k). split; [exact Hn|exact Hk].
Qed.

(* ------------------------------------------------------------------ padding contents are never looked at (TCP) *)
Definition same_but_pad (s t : segment) : Prop :=
  s_meta s = s_meta t /\ s_payload s = s_payload t /\ s_pb s = s_pb t /\
  length (s_pad1 s) = length (s_pad1 t) /\ length (s_pad2 s) = length (s_pad2 t).

Lemma same_but_pad_deliver : forall ll s t, same_but_pad s t -> deliver ll s = deliver ll t.
Proof.
  intros ll s t [Hm [Hp [_ [H1 H2]]]]. unfold deliver, fill_meta, eff_pad1, lenN. rewrite Hm, Hp, H2.
  destruct (is_session (mi_proto (s_meta t))); [reflexivity|]. rewrite H1. reflexivity.
Qed.

Section PaddingTcp.
  Variable seal : list N -> list N -> list N.
  Variable open : list N -> list N -> option (list N).
  Variable marshal_meta : minfo -> list N.
  Variable parse_meta : list N -> option minfo.
  Variable le_len : leparams -> N -> N.
  Variable le_encode : leparams -> bool -> list N -> list N.
  Variable le_decode : leparams -> N -> list N -> option (list N).
  Variable ok : segment -> Prop.
  (* the round trip of C01 (C01_feed_serialize establishes it from AEAD / codec correctness for ok = seg_ok) *)
  Hypothesis round_trip : forall segs n, Forall ok segs -> length n = nonceLen ->
    fst (feed open parse_meta le_decode r_init (serialize seal marshal_meta le_len le_encode false n segs)) =
    map (deliver le_len) segs.

  Theorem tcp_padding_only : forall segs segs' n,
    Forall ok segs -> Forall ok segs' -> Forall2 same_but_pad segs segs' -> length n = nonceLen ->
    fst (feed open parse_meta le_decode r_init (serialize seal marshal_meta le_len le_encode false n segs')) =
    fst (feed open parse_meta le_decode r_init (serialize seal marshal_meta le_len le_encode false n segs)) /\
    fst (feed open parse_meta le_decode r_init (serialize seal marshal_meta le_len le_encode false n segs)) =
    map (deliver le_len) segs.
  Proof.
    intros segs segs' n Hok Hok' H2 Hn.
    rewrite (round_trip segs n Hok Hn), (round_trip segs' n Hok' Hn). split; [|reflexivity].
    clear Hok Hok'. induction H2 as [|s t l l' Hst _ IH]; [reflexivity|].
    cbn [map]. rewrite IH, (same_but_pad_deliver le_len s t Hst). reflexivity.
  Qed.
End PaddingTcp.

(* ------------------------------------------------------------------ low entropy: decode, then open; tag untouched *)
Section LowEntropy.
  Variable le_encode : leparams -> bool -> list N -> list N.
  Variable le_decode : leparams -> N -> list N -> option (list N).
  (* canonicity of the codec (props/C17.v: C17_canonical / C17_accepts_iff_canonical) *)
  Hypothesis canonical : forall lp e enc ct, le_decode lp e enc = Some ct -> exists pb, enc = le_encode lp pb ct.

  Theorem le_decode_before_open : forall mi body,
    is_le (mi_proto mi) = true ->
    match le_unwrap le_decode mi body with
    | None => le_decode (mi_le mi) (mi_elen mi) (firstn (N.to_nat (mi_plen mi)) body) = None
    | Some box =>
        exists ct pb,
          box = ct ++ skipn (N.to_nat (mi_plen mi)) body /\
          firstn (N.to_nat (mi_plen mi)) body = le_encode (mi_le mi) pb ct
    end.
  Proof.
    intros mi body Hle. unfold le_unwrap. rewrite Hle.
    destruct (le_decode (mi_le mi) (mi_elen mi) (firstn (N.to_nat (mi_plen mi)) body)) as [ct|] eqn:E; [|reflexivity].
    destruct (canonical _ _ _ _ E) as [pb Hpb]. exists ct, pb. split; [reflexivity|exact Hpb].
  Qed.

End LowEntropy.

(* ------------------------------------------------------------------ UDP *)
Section UdpSize.
  Variable open : list N -> list N -> option (list N).
  Variable parse_meta : list N -> option minfo.
  Variable le_decode : leparams -> N -> list N -> option (list N).
  Notation udp_parse := (udp_parse open parse_meta le_decode).
  Notation udp_body := (udp_body open le_decode).

  (* the size equations determine the length of an accepted datagram *)
  Lemma udp_body_size : forall mi n rem pl, udp_body mi n rem = Some pl ->
    length rem = ((if is_session (mi_proto mi) then 0 else N.to_nat (mi_pre mi))
                  + (if (mi_plen mi =? 0)%N then 0 else N.to_nat (mi_plen mi) + tagLen) + N.to_nat (mi_suf mi))%nat.
  Proof.
    intros mi n rem pl H. unfold Tamper.udp_body in H.
    destruct (is_session (mi_proto mi)).
    - destruct (mi_plen mi =? 0).
      + destruct (N.to_nat (mi_suf mi) =? length rem)%nat eqn:E; [|discriminate H]. apply Nat.eqb_eq in E. lia.
      + destruct (length rem <? N.to_nat (mi_plen mi) + tagLen)%nat; [discriminate H|].
        destruct (open n (firstn (N.to_nat (mi_plen mi) + tagLen) rem)); [|discriminate H].
        destruct (N.to_nat (mi_plen mi) + tagLen + N.to_nat (mi_suf mi) =? length rem)%nat eqn:E; [|discriminate H].
        apply Nat.eqb_eq in E. lia.
    - destruct (length rem <? N.to_nat (mi_pre mi))%nat eqn:E0; [discriminate H|].
      apply Nat.ltb_ge in E0.
      assert (Hs : length (skipn (N.to_nat (mi_pre mi)) rem) = (length rem - N.to_nat (mi_pre mi))%nat)
        by apply skipn_length.
      destruct (mi_plen mi =? 0).
      + destruct (N.to_nat (mi_suf mi) =? length (skipn (N.to_nat (mi_pre mi)) rem))%nat eqn:E; [|discriminate H].
        apply Nat.eqb_eq in E. lia.
      + destruct (length (skipn (N.to_nat (mi_pre mi)) rem) <? N.to_nat (mi_plen mi) + tagLen)%nat; [discriminate H|].
        destruct (length (skipn (N.to_nat (mi_pre mi)) rem) =? N.to_nat (mi_plen mi) + tagLen + N.to_nat (mi_suf mi))%nat eqn:E;
          [|discriminate H].
        apply Nat.eqb_eq in E. lia.
  Qed.

  Theorem udp_size_exact : forall d mi pl, udp_parse d = Some (mi, pl) -> length d = udp_total mi.
  Proof.
    intros d mi pl H. unfold Tamper.udp_parse in H.
    destruct (length d <? hdrLen)%nat eqn:E0; [discriminate H|]. apply Nat.ltb_ge in E0.
    destruct (open (firstn nonceLen d) (firstn (metaLen + tagLen) (skipn nonceLen d))) as [mp|]; [|discriminate H].
    destruct (parse_meta mp) as [mi'|]; [|discriminate H].
    destruct (udp_body mi' (firstn nonceLen d) (skipn hdrLen d)) as [pl'|] eqn:Eb; [|discriminate H].
    inversion H; subst; clear H. apply udp_body_size in Eb. rewrite skipn_length in Eb.
    unfold udp_total. lia.
  Qed.

End UdpSize.

Section Udp.
  Variable open : list N -> list N -> option (list N).
  Variable parse_meta : list N -> option minfo.
  Variable le_decode : leparams -> N -> list N -> option (list N).
  Variable marshal_meta : minfo -> list N.
  Variable le_len : leparams -> N -> N.
  (* every datagram sealed by a holder of a registered key: (nonce, segment) *)
  Variable sent : list (list N * segment).

  Notation fill_meta := (fill_meta le_len).
  Notation udp_parse := (udp_parse open parse_meta le_decode).
  Notation udp_body := (udp_body open le_decode).
  Notation sboxes := (seg_boxes marshal_meta le_len).

  (* INT-CTXT: a box opens only if a registered peer sealed exactly this plaintext under exactly this nonce *)
  Hypothesis open_sound_udp : forall n c p, open n c = Some p -> exists s, In (n, s) sent /\ In p (sboxes s).
  (* a nonce is drawn afresh for every datagram *)
  Hypothesis nonce_once : forall n s1 s2, In (n, s1) sent -> In (n, s2) sent -> s1 = s2.
  Hypothesis sent_ok : forall n s, In (n, s) sent ->
    parse_meta (marshal_meta (fill_meta s)) = Some (fill_meta s) /\
    (mi_plen (fill_meta s) =? 0) = is_nil (s_payload s).
  (* an application payload never parses as metadata *)
  Hypothesis payload_not_meta : forall n s, In (n, s) sent -> is_nil (s_payload s) = false ->
    parse_meta (s_payload s) = None.

  Lemma udp_body_sealed : forall mi n rem pl, udp_body mi n rem = Some pl ->
    pl = [] /\ (mi_plen mi =? 0) = true \/ (mi_plen mi =? 0) = false /\ exists c, open n c = Some pl.
  Proof.
    intros mi n rem pl H. unfold Tamper.udp_body in H.
    repeat match type of H with
    | context [match ?x with _ => _ end] => destruct x eqn:?; try discriminate H
    | context [if ?x then _ else _] => destruct x eqn:?; try discriminate H
    end; try (injection H as H; subst).
    all: try (left; split; reflexivity).
    all: right; split; [reflexivity|eexists; eassumption].
  Qed.

  (* any datagram whatsoever: discarded, or metadata of a datagram a registered peer sealed under the same nonce,
     with the payload of that datagram - or (no role separation between the two boxes of a datagram) with the
     marshalled metadata of that datagram in place of the payload *)
  Theorem udp_drop_or_same : forall d,
    udp_parse d = None \/
    exists s pl, In (firstn nonceLen d, s) sent /\
      udp_parse d = Some (fill_meta s, pl) /\
      (pl = s_payload s \/ pl = marshal_meta (fill_meta s)) /\
      length d = udp_total (fill_meta s).
  Proof.
    intros d. destruct (udp_parse d) as [[mi pl]|] eqn:H; [right|left; reflexivity].
    pose proof (udp_size_exact open parse_meta le_decode _ _ _ H) as Hsz.
    unfold Tamper.udp_parse in H.
    destruct (length d <? hdrLen)%nat; [discriminate H|].
    set (n := firstn nonceLen d) in *.
    destruct (open n (firstn (metaLen + tagLen) (skipn nonceLen d))) as [mp|] eqn:Eo; [|discriminate H].
    destruct (parse_meta mp) as [mi'|] eqn:Ep; [|discriminate H].
    destruct (udp_body mi' n (skipn hdrLen d)) as [pl'|] eqn:Eb; [|discriminate H].
    inversion H; subst mi' pl'; clear H.
    destruct (open_sound_udp _ _ _ Eo) as [s [Hin Hbox]].
    destruct (sent_ok _ _ Hin) as [Hpm Hpl].
    assert (Hmi : mi = fill_meta s).
    { unfold seg_boxes in Hbox. destruct Hbox as [Hb|Hb].
      - subst mp. rewrite Hpm in Ep. inversion Ep. reflexivity.
      - destruct (is_nil (s_payload s)) eqn:En; [destruct Hb|].
        destruct Hb as [Hb|[]]. subst mp. rewrite (payload_not_meta _ _ Hin En) in Ep. discriminate Ep. }
    subst mi. exists s, pl. split; [exact Hin|]. split; [reflexivity|]. split; [|exact Hsz].
    destruct (udp_body_sealed _ _ _ _ Eb) as [[Hnil Hz]|[Hz [c Hc]]].
    - left. subst pl. rewrite Hz in Hpl. symmetry in Hpl. apply is_nil_true in Hpl. symmetry. exact Hpl.
    - destruct (open_sound_udp _ _ _ Hc) as [s' [Hin' Hbox']].
      rewrite (nonce_once _ _ _ Hin' Hin) in Hbox'. unfold seg_boxes in Hbox'.
      destruct Hbox' as [Hb|Hb]; [right; symmetry; exact Hb|].
      destruct (is_nil (s_payload s)); [destruct Hb|]. destruct Hb as [Hb|[]]. left. symmetry. exact Hb.
  Qed.
End Udp.

Lemma tab_open_sound : forall t n c p, tab_open t n c = Some p -> exists c', In (n, c', p) t.
Proof.
  induction t as [|[[n' c'] p'] t IH]; intros n c p H; cbn [tab_open] in H; [discriminate|].
  destruct (list_eqb n n' && list_eqb c c') eqn:E.
  - inversion H; subst. apply andb_prop in E. destruct E as [E1 E2]. apply list_eqb_true in E1. subst.
    exists c'. left. reflexivity.
  - destruct (IH _ _ _ H) as [c'' Hc]. exists c''. right. exact Hc.
Qed.

Lemma udp_tab_sound : forall mm ll ds n c p, tab_open (udp_tab mm ll ds) n c = Some p ->
  exists s, In (n, s) ds /\ In p (seg_boxes mm ll s).
Proof.
  intros mm ll ds n c p H. apply tab_open_sound in H. destruct H as [c' H].
  unfold udp_tab in H. apply in_concat in H. destruct H as [l [Hl Hin]].
  apply in_map_iff in Hl. destruct Hl as [[n' s] [Hl Hd]]. subst l.
  apply in_map_iff in Hin. destruct Hin as [p' [He Hp]]. inversion He; subst.
  exists s. split; assumption.
Qed.

(* ------------------------------------------------------------------ concrete instances (non-vacuity, witnesses) *)
Definition ex_now : N := 21000000.
Definition ex_n0 : list N := [1;2;3;4;5;6;7;8;9;10;11;12;13;14;15;16;17;18;19;20;21;22;23;254].
Definition ex_meta (proto seq : N) : minfo := mkMinfo proto 0 ex_now 77 seq 0 0 0 0 100 0 0 0 0 0.
Definition ex_s1 : segment := mkSeg (mkMinfo pOpenResp 0 ex_now 77 0 0 0 0 0 0 0 0 0 0 0) [] [] [9; 9] false.
Definition ex_s2 : segment := mkSeg (ex_meta pDataS2C 1) [101; 102; 103] [8] [7; 7; 7] false.
Definition ex_s3 : segment := mkSeg (ex_meta pDataS2C 2) [104; 105] [] [] false.
Definition ex_segs : list segment := [ex_s1; ex_s2; ex_s3].
Definition ex_boxes : list (list N) := stream_boxes meta_marshal_c le_len_id ex_segs.
Definition ex_open := tab_open (tcp_tab ex_n0 ex_boxes).
Definition ex_stream : list N := serialize toy_seal meta_marshal_c le_len_id le_encode_id false ex_n0 ex_segs.
Definition ex_feed (s : list N) := feed ex_open (meta_parse_c ex_now) le_decode_id r_init s.
Definition ex_deliver := deliver le_len_id.

(* length of the first segment on the wire: nonce 24 + box 48 + suffix 2 *)
Definition ex_len1 : nat := 74.
(* the attack: drop the first segment, rewrite the nonce header to n0 + 1 *)
Definition ex_skiphead : list N := nonce_add 1 ex_n0 ++ skipn ex_len1 ex_stream.

Lemma ex_genuine : ex_feed ex_stream = (map ex_deliver ex_segs, mkR [] (Some (nonce_add 5 ex_n0)) false).
Proof. vm_compute. reflexivity. Qed.

Lemma ex_skiphead_delivers : fst (ex_feed ex_skiphead) = map ex_deliver [ex_s2; ex_s3].
Proof. vm_compute. reflexivity. Qed.

Lemma ex_open_sound : forall n c p, ex_open n c = Some p ->
  exists k, n = nonce_add k ex_n0 /\ nth_error ex_boxes k = Some p.
Proof. intros n c p H. exact (tab_open_tcp_sound _ _ _ _ _ H). Qed.

Lemma ex_nonce_distinct : forall i k, (i <= length ex_boxes)%nat -> (k < length ex_boxes)%nat ->
  nonce_add i ex_n0 = nonce_add k ex_n0 -> i = k.
Proof.
  change (length ex_boxes) with 5%nat. intros i k Hi Hk H.
  do 6 (destruct i as [|i]; [do 5 (destruct k as [|k]; [first [reflexivity | (vm_compute in H; discriminate H)]|]); lia|]).
  lia.
Qed.

Lemma ex_sent_ok : forall s, In s ex_segs ->
  meta_parse_c ex_now (meta_marshal_c (fill_meta le_len_id s)) = Some (fill_meta le_len_id s) /\
  (mi_plen (fill_meta le_len_id s) =? 0) = is_nil (s_payload s).
Proof. intros s [H|[H|[H|[]]]]; subst s; vm_compute; split; reflexivity. Qed.

Theorem tcp_prefix_refuted :
  exists (open : list N -> list N -> option (list N)) (parse_meta : list N -> option minfo)
         (le_decode : leparams -> N -> list N -> option (list N)) (marshal_meta : minfo -> list N)
         (le_len : leparams -> N -> N) (segs : list segment) (n0 s' : list N),
    (forall n c p, open n c = Some p ->
       exists k, n = nonce_add k n0 /\ nth_error (stream_boxes marshal_meta le_len segs) k = Some p) /\
    (forall i k, (i <= length (stream_boxes marshal_meta le_len segs))%nat ->
       (k < length (stream_boxes marshal_meta le_len segs))%nat -> nonce_add i n0 = nonce_add k n0 -> i = k) /\
    (forall s, In s segs -> parse_meta (marshal_meta (fill_meta le_len s)) = Some (fill_meta le_len s) /\
                            (mi_plen (fill_meta le_len s) =? 0) = is_nil (s_payload s)) /\
    length n0 = nonceLen /\
    ~ exists j, fst (feed open parse_meta le_decode r_init s') = map (deliver le_len) (firstn j segs).
Proof.
  exists ex_open, (meta_parse_c ex_now), le_decode_id, meta_marshal_c, le_len_id, ex_segs, ex_n0, ex_skiphead.
  split; [exact ex_open_sound|]. split; [exact ex_nonce_distinct|]. split; [exact ex_sent_ok|].
  split; [reflexivity|].
  intros [j H]. change (fst (ex_feed ex_skiphead) = map ex_deliver (firstn j ex_segs)) in H.
  rewrite ex_skiphead_delivers in H.
  destruct j as [|[|[|[|j]]]]; vm_compute in H; discriminate H.
Qed.

(* a tampered stream: one byte of the payload tag of the second segment replaced *)
Definition ex_flip : list N := splice 130 1 [200] ex_stream.
Lemma ex_flip_prefix : ex_feed ex_flip = (map ex_deliver [ex_s1], mkR [] (Some (nonce_add 1 ex_n0)) true).
Proof. vm_compute. reflexivity. Qed.
(* second and third segment swapped; second segment duplicated; second segment dropped *)
Lemma ex_layout : length ex_stream = (74 + (48 + 1 + 19 + 3) + (48 + 18))%nat /\ ex_len1 = 74%nat.
Proof. vm_compute. split; reflexivity. Qed.
Definition ex_b2 : list N := firstn 71 (skipn 74 ex_stream).
Definition ex_b3 : list N := skipn 145 ex_stream.
Lemma ex_swap_prefix : fst (ex_feed (firstn 74 ex_stream ++ ex_b3 ++ ex_b2)) = map ex_deliver [ex_s1]
  /\ r_failed (snd (ex_feed (firstn 74 ex_stream ++ ex_b3 ++ ex_b2))) = true.
Proof. vm_compute. split; reflexivity. Qed.
Lemma ex_dup_prefix : fst (ex_feed (firstn 145 ex_stream ++ ex_b2 ++ ex_b3)) = map ex_deliver [ex_s1; ex_s2]
  /\ r_failed (snd (ex_feed (firstn 145 ex_stream ++ ex_b2 ++ ex_b3))) = true.
Proof. vm_compute. split; reflexivity. Qed.
Lemma ex_drop_prefix : fst (ex_feed (firstn 74 ex_stream ++ ex_b3)) = map ex_deliver [ex_s1]
  /\ r_failed (snd (ex_feed (firstn 74 ex_stream ++ ex_b3))) = true.
Proof. vm_compute. split; reflexivity. Qed.
(* padding bytes replaced, lengths kept: everything is delivered *)
Definition ex_padchg : list N := splice 72 2 [0; 255] (splice 122 1 [33] ex_stream).
Lemma ex_padchg_all : ex_padchg <> ex_stream /\ ex_feed ex_padchg = ex_feed ex_stream.
Proof. split; [vm_compute; discriminate|vm_compute; reflexivity]. Qed.

(* ---- UDP: a datagram with a 32 byte payload *)
Definition ex_pl32 : list N := map N.of_nat (seq 1 32).
Definition ex_u : segment := mkSeg (ex_meta pDataS2C 1) ex_pl32 [8; 8] [7] false.
Definition ex_sent : list (list N * segment) := [(ex_n0, ex_u); (nonce_inc ex_n0, ex_s3)].
Definition ex_uopen := tab_open (udp_tab meta_marshal_c le_len_id ex_sent).
Definition ex_dgram : list N := udp_encode toy_seal meta_marshal_c le_len_id le_encode_id ex_n0 ex_u.
Definition ex_uparse := udp_parse ex_uopen (meta_parse_c ex_now) le_decode_id.
(* the payload box (offset 72 + 2, 48 bytes) overwritten with the metadata box (offset 24, 48 bytes) *)
Definition ex_dgram_bad : list N := splice 74 48 (firstn 48 (skipn 24 ex_dgram)) ex_dgram.

Lemma ex_udp_genuine : ex_uparse ex_dgram = Some (ex_deliver ex_u).
Proof. vm_compute. reflexivity. Qed.
Lemma ex_udp_bad : ex_uparse ex_dgram_bad = Some (fill_meta le_len_id ex_u, meta_marshal_c (fill_meta le_len_id ex_u))
  /\ length ex_dgram_bad = length ex_dgram.
Proof. vm_compute. split; reflexivity. Qed.
Lemma ex_udp_trunc_ext : ex_uparse (removelast ex_dgram) = None /\ ex_uparse (ex_dgram ++ [0]) = None
  /\ ex_uparse (splice 100 1 [0] ex_dgram) = None /\ ex_uparse (splice 3 1 [0] ex_dgram) = None
  /\ ex_uparse (splice 72 2 [1; 2] ex_dgram) = ex_uparse ex_dgram.
Proof. vm_compute. repeat split; reflexivity. Qed.

Lemma ex_uopen_sound : forall n c p, ex_uopen n c = Some p ->
  exists s, In (n, s) ex_sent /\ In p (seg_boxes meta_marshal_c le_len_id s).
Proof. intros n c p H. exact (udp_tab_sound _ _ _ _ _ _ H). Qed.

Lemma ex_nonce_once : forall n s1 s2, In (n, s1) ex_sent -> In (n, s2) ex_sent -> s1 = s2.
Proof.
  intros n s1 s2 [H1|[H1|[]]] [H2|[H2|[]]]; inversion H1; inversion H2; subst; try reflexivity;
    match goal with H : _ = _ :> list N |- _ => vm_compute in H; discriminate H end.
Qed.

Lemma ex_usent_ok : forall n s, In (n, s) ex_sent ->
  meta_parse_c ex_now (meta_marshal_c (fill_meta le_len_id s)) = Some (fill_meta le_len_id s) /\
  (mi_plen (fill_meta le_len_id s) =? 0) = is_nil (s_payload s).
Proof. intros n s [H|[H|[]]]; inversion H; subst; vm_compute; split; reflexivity. Qed.

Lemma ex_payload_not_meta : forall n s, In (n, s) ex_sent -> is_nil (s_payload s) = false ->
  meta_parse_c ex_now (s_payload s) = None.
Proof. intros n s [H|[H|[]]] _; inversion H; subst; vm_compute; reflexivity. Qed.

(* "payload equal to what the peer sealed" is false of the model: *)
Theorem udp_same_payload_refuted :
  exists (open : list N -> list N -> option (list N)) (parse_meta : list N -> option minfo)
         (le_decode : leparams -> N -> list N -> option (list N)) (marshal_meta : minfo -> list N)
         (le_len : leparams -> N -> N) (sent : list (list N * segment)) (d : list N),
    (forall n c p, open n c = Some p -> exists s, In (n, s) sent /\ In p (seg_boxes marshal_meta le_len s)) /\
    (forall n s1 s2, In (n, s1) sent -> In (n, s2) sent -> s1 = s2) /\
    (forall n s, In (n, s) sent -> parse_meta (marshal_meta (fill_meta le_len s)) = Some (fill_meta le_len s) /\
                                   (mi_plen (fill_meta le_len s) =? 0) = is_nil (s_payload s)) /\
    (forall n s, In (n, s) sent -> is_nil (s_payload s) = false -> parse_meta (s_payload s) = None) /\
    exists mi pl, udp_parse open parse_meta le_decode d = Some (mi, pl) /\
      ~ exists s, In (firstn nonceLen d, s) sent /\ pl = s_payload s.
Proof.
  exists ex_uopen, (meta_parse_c ex_now), le_decode_id, meta_marshal_c, le_len_id, ex_sent, ex_dgram_bad.
  split; [exact ex_uopen_sound|]. split; [exact ex_nonce_once|]. split; [exact ex_usent_ok|].
  split; [exact ex_payload_not_meta|].
  exists (fill_meta le_len_id ex_u), (meta_marshal_c (fill_meta le_len_id ex_u)).
  split; [exact (proj1 ex_udp_bad)|].
  intros [s [[H|[H|[]]] Hp]]; inversion H; subst; vm_compute in Hp; discriminate Hp.
Qed.

(* ------------------------------------------------------------------ reflection: a side never accepts its own boxes *)
Lemma own_not_accepted : forall client p, own_side client p = true -> accepts client p = false.
Proof.
  intros [] p H; unfold own_side in H; repeat rewrite orb_true_iff in H;
    destruct H as [[[H|H]|H]|H]; apply N.eqb_eq in H; subst p; reflexivity.
Qed.

Theorem session_in_not_own : forall client sid l,
  Forall (fun r : rseg => own_side client (mi_proto (fst r)) = false) (session_in client sid l).
Proof.
  intros client sid l. induction l as [|r t IH]; cbn [session_in]; [constructor|].
  destruct (mi_sid (fst r) =? sid); [|exact IH].
  destruct (accepts client (mi_proto (fst r))) eqn:Ha; [|constructor].
  destruct (is_close (mi_proto (fst r))); [constructor|].
  destruct (is_queued (mi_proto (fst r))); [|exact IH].
  constructor; [|exact IH].
  destruct (own_side client (mi_proto (fst r))) eqn:Eo; [|reflexivity].
  rewrite (own_not_accepted _ _ Eo) in Ha. discriminate Ha.
Qed.

(* all datagrams a socket receives, through the parser *)
Definition udp_recv_all (op : list N -> list N -> option (list N)) (pm : list N -> option minfo)
           (ld : leparams -> N -> list N -> option (list N)) (ds : list (list N)) : list rseg :=
  flat_map (fun d => match udp_parse op pm ld d with Some r => [r] | None => [] end) ds.

Theorem reflection_refused : forall op pm ld client sid,
  (forall s' : list N,
     Forall (fun r : rseg => own_side client (mi_proto (fst r)) = false)
            (session_in client sid (fst (feed op pm ld r_init s')))) /\
  (forall ds : list (list N),
     Forall (fun r : rseg => own_side client (mi_proto (fst r)) = false)
            (session_in client sid (udp_recv_all op pm ld ds))).
Proof. intros. split; intros; apply session_in_not_own. Qed.

(* the reflection of the TCP example: the client is fed its own second segment behind its own nonce + 1 *)
Definition ex_c1 : segment := mkSeg (mkMinfo pOpenReq 0 ex_now 77 0 0 0 0 0 0 0 0 0 0 0) [] [] [5] false.
Definition ex_c2 : segment := mkSeg (ex_meta pDataC2S 1) [201; 202; 203] [] [6] false.
Definition ex_csegs : list segment := [ex_c1; ex_c2].
Definition ex_cn0 : list N := map (fun b => (b + 100) mod 256) ex_n0.
Definition ex_cstream : list N := serialize toy_seal meta_marshal_c le_len_id le_encode_id false ex_cn0 ex_csegs.
(* the key is shared: the client's receiver opens the boxes of both directions *)
Definition ex_open2 := tab_open (tcp_tab ex_n0 ex_boxes ++ tcp_tab ex_cn0 (stream_boxes meta_marshal_c le_len_id ex_csegs)).
Definition ex_reflect : list N := nonce_add 1 ex_cn0 ++ skipn (24 + 48 + 1) ex_cstream.
Lemma ex_reflect_opens_but_refused :
  fst (feed ex_open2 (meta_parse_c ex_now) le_decode_id r_init ex_reflect) = [ex_deliver ex_c2] /\
  session_in true 77 (fst (feed ex_open2 (meta_parse_c ex_now) le_decode_id r_init ex_reflect)) = [] /\
  session_in true 77 (fst (feed ex_open2 (meta_parse_c ex_now) le_decode_id r_init ex_stream)) = map ex_deliver ex_segs.
Proof. vm_compute. repeat split; reflexivity. Qed.

(* ------------------------------------------------------------------ UDP: nothing is released across a gap *)
Lemma firstn_snoc_nth {A} : forall (l : list A) n x, nth_error l n = Some x -> firstn (S n) l = firstn n l ++ [x].
Proof.
  induction l as [|y l IH]; intros [|n] x H; cbn in H; try discriminate.
  - inversion H. reflexivity.
  - cbn [firstn app]. f_equal. apply IH, H.
Qed.

Section UdpRelease.
  Variable sent : list (list N).     (* payload of the sequenced segment number i of the sender *)
  Definition gen (kp : nat * list N) : Prop := nth_error sent (fst kp) = Some (snd kp).
  Definition genuine (e : uevent) : Prop :=
    match e with UArrive q p => nth_error sent q = Some p | UClose => True | UAck => True end.

  Lemma buf_lookup_in : forall b q p, buf_lookup q b = Some p -> In (q, p) b.
  Proof.
    induction b as [|[k p'] t IH]; intros q p H; cbn [buf_lookup] in H; [discriminate|].
    destruct (k =? q)%nat eqn:E.
    - apply Nat.eqb_eq in E. inversion H. subst. left. reflexivity.
    - right. apply IH, H.
  Qed.

  Lemma buf_remove_gen : forall b q, Forall gen b -> Forall gen (buf_remove q b).
  Proof.
    induction b as [|[k p] t IH]; intros q H; cbn [buf_remove]; [constructor|].
    inversion H; subst. destruct (k =? q)%nat; [apply IH; assumption|constructor; [assumption|apply IH; assumption]].
  Qed.

  Lemma release_inv : forall fuel next b n' b' r, Forall gen b -> u_release fuel next b = (n', b', r) ->
    firstn n' sent = firstn next sent ++ r /\ Forall gen b'.
  Proof.
    induction fuel as [|f IH]; intros next b n' b' r Hg H; cbn [u_release] in H.
    - inversion H; subst. rewrite app_nil_r. split; [reflexivity|exact Hg].
    - destruct (buf_lookup next b) as [p|] eqn:El.
      + destruct (u_release f (S next) (buf_remove next b)) as [[n1 b1] r1] eqn:Er.
        inversion H; subst. destruct (IH _ _ _ _ _ (buf_remove_gen _ next Hg) Er) as [H1 H2].
        split; [|exact H2]. rewrite H1.
        assert (Hp : nth_error sent next = Some p).
        { apply buf_lookup_in in El. rewrite Forall_forall in Hg. exact (Hg _ El). }
        rewrite (firstn_snoc_nth _ _ _ Hp), <- app_assoc. reflexivity.
      + inversion H; subst. rewrite app_nil_r. split; [reflexivity|exact Hg].
  Qed.

  Definition u_inv (st : ust) : Prop := u_q st = firstn (u_next st) sent /\ Forall gen (u_buf st).

  Lemma u_step_inv : forall st e, u_inv st -> genuine e -> u_inv (u_step st e).
  Proof.
    intros st e [Hq Hb] He. unfold u_step. destruct (u_closed st); [split; assumption|].
    destruct e as [q p| |]; [|split; assumption|split; assumption].
    destruct (q <? u_next st)%nat; [split; assumption|].
    destruct (u_release (S (length ((q, p) :: buf_remove q (u_buf st)))) (u_next st) ((q, p) :: buf_remove q (u_buf st)))
      as [[n1 b1] r1] eqn:Er.
    assert (Hg : Forall gen ((q, p) :: buf_remove q (u_buf st))).
    { constructor; [exact He|apply buf_remove_gen, Hb]. }
    destruct (release_inv _ _ _ _ _ _ Hg Er) as [H1 H2].
    split; cbn [u_q u_next u_buf]; [rewrite Hq, H1; reflexivity|exact H2].
  Qed.

  (* whatever arrives in whatever order, with whatever missing, and wherever the close falls: the application's
     queue is exactly the first u_next segments of the sender - never a segment behind a missing one *)
  Theorem udp_no_release_across_gap : forall evs, Forall genuine evs ->
    u_q (u_run evs) = firstn (u_next (u_run evs)) sent.
  Proof.
    intros evs H. unfold u_run.
    assert (G : forall st, u_inv st -> u_inv (fold_left u_step evs st)).
    { induction H as [|e t He _ IH]; intros st Hst; cbn [fold_left]; [exact Hst|].
      apply IH, u_step_inv; assumption. }
    apply G. split; [reflexivity|constructor].
  Qed.
End UdpRelease.

(* segment 1 missing, 2 and 3 parked, the close arrives, then the retransmission of 1: only segment 0 is released *)
Lemma ex_gap : u_q (u_run [UArrive 0 [1]; UArrive 2 [3]; UArrive 3 [4]; UClose; UArrive 1 [2]]) = [[1]]
  /\ u_q (u_run [UArrive 0 [1]; UArrive 2 [3]; UArrive 3 [4]; UArrive 1 [2]; UClose]) = [[1]; [2]; [3]; [4]].
Proof. vm_compute. split; reflexivity. Qed.

(* ------------------------------------------------------------------ a refused (reflected) datagram is NOT "as if lost" *)
(* the client's own data datagram (same key, same session id) between two genuine server datagrams *)
Definition ex_sent3 : list (list N * segment) := [(ex_n0, ex_u); (nonce_inc ex_n0, ex_s3); (ex_cn0, ex_c2)].
Definition ex_uopen3 := tab_open (udp_tab meta_marshal_c le_len_id ex_sent3).
Definition ex_dg (n : list N) (s : segment) : list N := udp_encode toy_seal meta_marshal_c le_len_id le_encode_id n s.
Definition ex_recv3 (ds : list (list N)) : list rseg := udp_recv_all ex_uopen3 (meta_parse_c ex_now) le_decode_id ds.

Theorem udp_reflection_closes_session_refuted :
  exists (op : list N -> list N -> option (list N)) (pm : list N -> option minfo)
         (ld : leparams -> N -> list N -> option (list N)) (client : bool) (sid : N)
         (ds1 : list (list N)) (d : list N) (ds2 : list (list N)) (r : rseg),
    udp_parse op pm ld d = Some r /\ own_side client (mi_proto (fst r)) = true /\ mi_sid (fst r) = sid /\
    session_in client sid (udp_recv_all op pm ld (ds1 ++ d :: ds2)) <>
    session_in client sid (udp_recv_all op pm ld (ds1 ++ ds2)).
Proof.
  exists ex_uopen3, (meta_parse_c ex_now), le_decode_id, true, 77,
         [ex_dg ex_n0 ex_u], (ex_dg ex_cn0 ex_c2), [ex_dg (nonce_inc ex_n0) ex_s3], (ex_deliver ex_c2).
  split; [vm_compute; reflexivity|]. split; [reflexivity|]. split; [reflexivity|].
  vm_compute. discriminate.
Qed.

(* ------------------------------------------------------------------ UDP: a replayed copy of ANY authentic datagram is a no-op *)
Definition beq (b1 b2 : list (nat * list N)) : Prop := forall k, buf_lookup k b1 = buf_lookup k b2.
Definition steq (s1 s2 : ust) : Prop :=
  u_next s1 = u_next s2 /\ u_q s1 = u_q s2 /\ u_closed s1 = u_closed s2 /\ beq (u_buf s1) (u_buf s2).

Lemma lookup_remove : forall b q k, buf_lookup k (buf_remove q b) = if (k =? q)%nat then None else buf_lookup k b.
Proof.
  induction b as [|[j p] t IH]; intros q k; cbn [buf_remove buf_lookup].
  - destruct (k =? q)%nat; reflexivity.
  - destruct (j =? q)%nat eqn:Ejq.
    + rewrite IH. apply Nat.eqb_eq in Ejq. subst j. destruct (k =? q)%nat eqn:Ekq; [reflexivity|].
      rewrite Nat.eqb_sym, Ekq. reflexivity.
    + cbn [buf_lookup]. rewrite IH. destruct (j =? k)%nat eqn:Ejk; [|reflexivity].
      apply Nat.eqb_eq in Ejk. subst k. rewrite Ejq. reflexivity.
Qed.

Lemma remove_len : forall b q, (length (buf_remove q b) <= length b)%nat.
Proof. induction b as [|[j p] t IH]; intros q; cbn [buf_remove length]; [lia|]. destruct (j =? q)%nat; cbn [length]; specialize (IH q); lia. Qed.

Lemma remove_len_lt : forall b q p, buf_lookup q b = Some p -> (length (buf_remove q b) < length b)%nat.
Proof.
  induction b as [|[j x] t IH]; intros q p H; cbn [buf_lookup] in H; [discriminate|].
  cbn [buf_remove length]. destruct (j =? q)%nat.
  - pose proof (remove_len t q). lia.
  - cbn [length]. specialize (IH _ _ H). lia.
Qed.

Lemma remove_beq : forall b1 b2 q, beq b1 b2 -> beq (buf_remove q b1) (buf_remove q b2).
Proof. intros b1 b2 q H k. rewrite !lookup_remove, (H k). reflexivity. Qed.

(* a release with enough fuel stops at a missing sequence number, only moves forward, and removes exactly the
   released keys *)
Lemma release_spec : forall fuel next b n' b' r, (length b < fuel)%nat -> u_release fuel next b = (n', b', r) ->
  buf_lookup n' b' = None /\ (next <= n')%nat /\
  (forall k, buf_lookup k b' = if (next <=? k)%nat && (k <? n')%nat then None else buf_lookup k b).
Proof.
  induction fuel as [|f IH]; intros next b n' b' r Hl H; [lia|].
  cbn [u_release] in H. destruct (buf_lookup next b) as [p|] eqn:El.
  - destruct (u_release f (S next) (buf_remove next b)) as [[n1 b1] r1] eqn:Er. inversion H; subst; clear H.
    pose proof (remove_len_lt _ _ _ El) as Hlt.
    assert (Hf : (length (buf_remove next b) < f)%nat) by lia.
    destruct (IH _ _ _ _ _ Hf Er) as [H1 [H2 H3]].
    split; [exact H1|]. split; [lia|]. intros k. rewrite H3, lookup_remove.
    destruct (k =? next)%nat eqn:Ek.
    + apply Nat.eqb_eq in Ek. subst k.
      replace (next <=? next)%nat with true by (symmetry; apply Nat.leb_le; lia).
      replace (next <? n')%nat with true by (symmetry; apply Nat.ltb_lt; lia).
      destruct (S next <=? next)%nat; reflexivity.
    + apply Nat.eqb_neq in Ek.
      destruct (S next <=? k)%nat eqn:E1; destruct (next <=? k)%nat eqn:E2; try reflexivity.
      * apply Nat.leb_le in E1. apply Nat.leb_gt in E2. lia.
      * apply Nat.leb_gt in E1. apply Nat.leb_le in E2. lia.
  - inversion H; subst; clear H. split; [exact El|]. split; [lia|]. intros k.
    destruct (n' <=? k)%nat eqn:E1; destruct (k <? n')%nat eqn:E2; try reflexivity.
    apply Nat.leb_le in E1. apply Nat.ltb_lt in E2. lia.
Qed.

Lemma release_beq : forall f1 f2 next b1 b2, beq b1 b2 -> (length b1 < f1)%nat -> (length b2 < f2)%nat ->
  fst (fst (u_release f1 next b1)) = fst (fst (u_release f2 next b2)) /\
  snd (u_release f1 next b1) = snd (u_release f2 next b2) /\
  beq (snd (fst (u_release f1 next b1))) (snd (fst (u_release f2 next b2))).
Proof.
  induction f1 as [|f1 IH]; intros f2 next b1 b2 Hb H1 H2; [lia|]. destruct f2 as [|f2]; [lia|].
  cbn [u_release]. rewrite <- (Hb next). destruct (buf_lookup next b1) as [p|] eqn:El.
  - assert (El2 : buf_lookup next b2 = Some p) by (rewrite <- (Hb next); exact El).
    pose proof (remove_len_lt _ _ _ El). pose proof (remove_len_lt _ _ _ El2).
    destruct (IH f2 (S next) (buf_remove next b1) (buf_remove next b2) (remove_beq _ _ next Hb) ltac:(lia) ltac:(lia))
      as [A [B C]].
    destruct (u_release f1 (S next) (buf_remove next b1)) as [[n1 c1] r1].
    destruct (u_release f2 (S next) (buf_remove next b2)) as [[n2 c2] r2].
    cbn [fst snd] in *. subst. repeat split; assumption.
  - cbn [fst snd]. repeat split; assumption.
Qed.

Lemma steq_refl : forall s, steq s s.
Proof. intros s. repeat split. Qed.

Lemma step_steq : forall s1 s2 e, steq s1 s2 -> steq (u_step s1 e) (u_step s2 e).
Proof.
  intros s1 s2 e H0. pose proof H0 as [Hn [Hq [Hc Hb]]]. unfold u_step. rewrite <- Hc.
  destruct (u_closed s1) eqn:Ec; [exact H0|].
  destruct e as [q p| |]; [| |exact H0].
  - rewrite <- Hn. destruct (q <? u_next s1)%nat; [exact H0|].
    assert (Hb' : beq ((q, p) :: buf_remove q (u_buf s1)) ((q, p) :: buf_remove q (u_buf s2))).
    { intros k. cbn [buf_lookup]. destruct (q =? k)%nat; [reflexivity|]. apply remove_beq, Hb. }
    assert (L1 : (length ((q, p) :: buf_remove q (u_buf s1)) < S (length ((q, p) :: buf_remove q (u_buf s1))))%nat) by lia.
    assert (L2 : (length ((q, p) :: buf_remove q (u_buf s2)) < S (length ((q, p) :: buf_remove q (u_buf s2))))%nat) by lia.
    destruct (release_beq _ _ (u_next s1) _ _ Hb' L1 L2) as [A [B C]].
    destruct (u_release (S (length ((q, p) :: buf_remove q (u_buf s1)))) (u_next s1) ((q, p) :: buf_remove q (u_buf s1)))
      as [[n1 c1] r1].
    destruct (u_release (S (length ((q, p) :: buf_remove q (u_buf s2)))) (u_next s1) ((q, p) :: buf_remove q (u_buf s2)))
      as [[n2 c2] r2].
    cbn [fst snd] in A, B, C. subst n2 r2.
    split; [reflexivity|]. split; [cbn [u_q]; rewrite Hq; reflexivity|]. split; [reflexivity|exact C].
  - split; [exact Hn|]. split; [exact Hq|]. split; [reflexivity|exact Hb].
Qed.

Section UdpReplay.
  Variable sent : list (list N).
  Notation genuine := (genuine sent).

  (* every reachable state has stopped at a missing sequence number *)
  Definition stable (st : ust) : Prop := buf_lookup (u_next st) (u_buf st) = None.
  (* the event has been handed to the session before *)
  Definition seen (e : uevent) (st : ust) : Prop :=
    match e with
    | UArrive q p => u_closed st = true \/ (q < u_next st)%nat \/ buf_lookup q (u_buf st) = Some p
    | UClose => u_closed st = true
    | UAck => True
    end.

  Lemma step_arrive : forall st q p, u_closed st = false -> (q <? u_next st)%nat = false ->
    exists n' b' r, u_step st (UArrive q p) = mkU n' b' (u_q st ++ r) false /\
      buf_lookup n' b' = None /\ (u_next st <= n')%nat /\
      (forall k, buf_lookup k b' = if (u_next st <=? k)%nat && (k <? n')%nat then None
                                   else if (q =? k)%nat then Some p else buf_lookup k (u_buf st)).
  Proof.
    intros st q p Hc Hq. unfold u_step. rewrite Hc, Hq.
    destruct (u_release (S (length ((q, p) :: buf_remove q (u_buf st)))) (u_next st) ((q, p) :: buf_remove q (u_buf st)))
      as [[n' b'] r] eqn:Er.
    assert (Hf : (length ((q, p) :: buf_remove q (u_buf st)) < S (length ((q, p) :: buf_remove q (u_buf st))))%nat) by lia.
    destruct (release_spec _ _ _ _ _ _ Hf Er) as [H1 [H2 H3]].
    exists n', b', r. split; [reflexivity|]. split; [exact H1|]. split; [exact H2|].
    intros k. rewrite H3. destruct ((u_next st <=? k)%nat && (k <? n')%nat); [reflexivity|].
    cbn [buf_lookup]. destruct (q =? k)%nat eqn:E; [reflexivity|]. rewrite lookup_remove.
    rewrite Nat.eqb_sym, E. reflexivity.
  Qed.

  Lemma stable_step : forall st e, stable st -> stable (u_step st e).
  Proof.
    intros st e Hs. destruct (u_closed st) eqn:Hc; [unfold u_step; rewrite Hc; exact Hs|].
    destruct e as [q p| |].
    - destruct (q <? u_next st)%nat eqn:Hq; [unfold u_step; rewrite Hc, Hq; exact Hs|].
      destruct (step_arrive st q p Hc Hq) as [n' [b' [r [E [H1 _]]]]]. rewrite E. exact H1.
    - unfold u_step. rewrite Hc. exact Hs.
    - unfold u_step. rewrite Hc. exact Hs.
  Qed.

  Lemma seen_after : forall st e, seen e (u_step st e).
  Proof.
    intros st e. destruct (u_closed st) eqn:Hc.
    - unfold u_step. rewrite Hc. destruct e; cbn [seen]; auto.
    - destruct e as [q p| |]; cbn [seen]; [|unfold u_step; rewrite Hc; reflexivity|exact I].
      destruct (q <? u_next st)%nat eqn:Hq.
      + unfold u_step. rewrite Hc, Hq. right. left. apply Nat.ltb_lt, Hq.
      + destruct (step_arrive st q p Hc Hq) as [n' [b' [r [E [_ [H2 H3]]]]]]. rewrite E. cbn [u_closed u_next u_buf].
        right. apply Nat.ltb_ge in Hq. destruct (q <? n')%nat eqn:Eq; [left; apply Nat.ltb_lt, Eq|].
        right. rewrite H3, Eq, andb_false_r, Nat.eqb_refl. reflexivity.
  Qed.

  Lemma seen_step : forall st e e', genuine e -> genuine e' -> seen e st -> seen e (u_step st e').
  Proof.
    intros st e e' Ge Ge' Hs. destruct (u_closed st) eqn:Hc; [unfold u_step; rewrite Hc; exact Hs|].
    destruct e as [q p| |]; cbn [seen] in *; [|rewrite Hc in Hs; discriminate|exact I].
    destruct Hs as [Hs|Hs]; [rewrite Hc in Hs; discriminate|].
    destruct e' as [q' p'| |]; [|left; unfold u_step; rewrite Hc; reflexivity|right; unfold u_step; rewrite Hc; exact Hs].
    destruct (q' <? u_next st)%nat eqn:Hq; [right; unfold u_step; rewrite Hc, Hq; exact Hs|].
    destruct (step_arrive st q' p' Hc Hq) as [n' [b' [r [E [_ [H2 H3]]]]]]. rewrite E. cbn [u_closed u_next u_buf].
    right. destruct Hs as [Hs|Hs]; [left; lia|].
    destruct (q <? n')%nat eqn:Eq; [left; apply Nat.ltb_lt, Eq|]. right.
    rewrite H3, Eq, andb_false_r. destruct (q' =? q)%nat eqn:Eqq; [|exact Hs].
    apply Nat.eqb_eq in Eqq. subst q'. cbn in Ge, Ge'. rewrite Ge in Ge'. exact (eq_sym Ge').
  Qed.

  (* handing an already seen event to a stable session changes nothing (up to the order inside recvBuf) *)
  Lemma redeliver_noop : forall st e, stable st -> seen e st -> steq (u_step st e) st.
  Proof.
    intros st e Hst Hs. destruct (u_closed st) eqn:Hc; [unfold u_step; rewrite Hc; apply steq_refl|].
    destruct e as [q p| |]; cbn [seen] in Hs.
    - destruct Hs as [Hs|[Hs|Hs]]; [rewrite Hc in Hs; discriminate| |].
      + unfold u_step. rewrite Hc. replace (q <? u_next st)%nat with true by (symmetry; apply Nat.ltb_lt, Hs). apply steq_refl.
      + destruct (q <? u_next st)%nat eqn:Hq; [unfold u_step; rewrite Hc, Hq; apply steq_refl|].
        unfold u_step. rewrite Hc, Hq.
        assert (Hb : beq ((q, p) :: buf_remove q (u_buf st)) (u_buf st)).
        { intros k. cbn [buf_lookup]. destruct (q =? k)%nat eqn:E.
          - apply Nat.eqb_eq in E. subst k. symmetry. exact Hs.
          - rewrite lookup_remove, Nat.eqb_sym, E. reflexivity. }
        assert (L1 : (length ((q, p) :: buf_remove q (u_buf st)) < S (length ((q, p) :: buf_remove q (u_buf st))))%nat) by lia.
        assert (L2 : (length (u_buf st) < S (length (u_buf st)))%nat) by lia.
        destruct (release_beq _ _ (u_next st) _ _ Hb L1 L2) as [A [B C]].
        assert (Hr : u_release (S (length (u_buf st))) (u_next st) (u_buf st) = (u_next st, u_buf st, [])).
        { unfold stable in Hst. cbn [u_release]. rewrite Hst. reflexivity. }
        rewrite Hr in A, B, C.
        destruct (u_release (S (length ((q, p) :: buf_remove q (u_buf st)))) (u_next st) ((q, p) :: buf_remove q (u_buf st)))
          as [[n1 c1] r1].
        cbn [fst snd] in A, B, C. subst n1 r1.
        split; [reflexivity|]. split; [cbn [u_q]; apply app_nil_r|]. split; [cbn [u_closed]; symmetry; exact Hc|exact C].
    - rewrite Hc in Hs. discriminate.
    - unfold u_step. rewrite Hc. apply steq_refl.
  Qed.

  Lemma fold_stable : forall evs st, stable st -> stable (fold_left u_step evs st).
  Proof. induction evs as [|e t IH]; intros st H; cbn [fold_left]; [exact H|]. apply IH, stable_step, H. Qed.
  Lemma fold_seen : forall evs st e, genuine e -> Forall genuine evs -> seen e st -> seen e (fold_left u_step evs st).
  Proof.
    induction evs as [|e' t IH]; intros st e Ge H Hs; cbn [fold_left]; [exact Hs|].
    inversion H; subst. apply IH; [assumption|assumption|]. apply seen_step; assumption.
  Qed.
  Lemma fold_steq : forall evs s1 s2, steq s1 s2 -> steq (fold_left u_step evs s1) (fold_left u_step evs s2).
  Proof. induction evs as [|e t IH]; intros s1 s2 H; cbn [fold_left]; [exact H|]. apply IH, step_steq, H. Qed.

  (* a second copy of ANY authentic datagram - data, open request / response (they carry a sequence number and go through
     recvBuf too), close request / response, ack - inserted at ANY later point: the same nextRecv, the same bytes for
     the application, the same open / closed state as without the copy *)
  Theorem udp_replayed_copy_is_idempotent : forall evs1 e evs2 evs3,
    Forall genuine (evs1 ++ e :: evs2 ++ evs3) ->
    let a := u_run (evs1 ++ e :: evs2 ++ e :: evs3) in
    let b := u_run (evs1 ++ e :: evs2 ++ evs3) in
    u_next a = u_next b /\ u_q a = u_q b /\ u_closed a = u_closed b.
  Proof.
    intros evs1 e evs2 evs3 H. cbv zeta. unfold u_run.
    apply Forall_app in H. destruct H as [H1 H]. inversion H as [|x y Ge H']; subst.
    apply Forall_app in H'. destruct H' as [H2 H3].
    rewrite !fold_left_app. cbn [fold_left]. rewrite !fold_left_app. cbn [fold_left].
    set (s0 := fold_left u_step evs1 u_init).
    set (s1 := fold_left u_step evs2 (u_step s0 e)).
    assert (St : stable s1).
    { apply fold_stable, stable_step, fold_stable. reflexivity. }
    assert (Se : seen e s1) by (apply fold_seen; [assumption|assumption|apply seen_after]).
    pose proof (fold_steq evs3 _ _ (redeliver_noop s1 e St Se)) as [A [B [C _]]].
    repeat split; assumption.
  Qed.
End UdpReplay.

(* the copy of the open response (sequence number 0) after two data segments: nothing changes *)
Lemma ex_replay : u_next (u_run [UArrive 0 []; UArrive 1 [5]; UArrive 2 [6]; UArrive 0 []; UArrive 3 [7]]) = 4%nat
  /\ u_q (u_run [UArrive 0 []; UArrive 1 [5]; UArrive 2 [6]; UArrive 0 []; UArrive 3 [7]]) = [[]; [5]; [6]; [7]].
Proof. vm_compute. split; reflexivity. Qed.
