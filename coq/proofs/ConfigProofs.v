(* C20 — proofs about model/Config.v *)
From Coq Require Import List NArith ZArith Bool Lia.
From M Require Import gen.Consts model.Config.
Import ListNotations.

(* ================================================================ specification vocabulary *)

(* an optional field of the result takes the patch's value when set, else keeps the old one *)
Definition takes {A : Type} (r p o : option A) : Prop :=
  (forall v, p = Some v -> r = Some v) /\ (p = None -> r = o).
(* a "required" scalar: same, but the result is always set (to the getter's default when unset in both) *)
Definition takes_z (r p o : option Z) : Prop :=
  (forall v, p = Some v -> r = Some v) /\ (p = None -> r = Some (getz o)).
Definition takes_b (r p o : option bytes) : Prop :=
  (forall v, p = Some v -> r = Some v) /\ (p = None -> r = Some (getb o)).

(* strictly increasing names: no two entries share a name *)
Fixpoint names_sorted {V : Type} (key : V -> bytes) (l : list V) : Prop :=
  match l with
  | [] => True
  | x :: t => Forall (fun y => bytes_cmp (key x) (key y) = Lt) t /\ names_sorted key t
  end.

Definition no_plaintext (u : user) : Prop := u_pw u = None \/ u_pw u = Some [].

(* ================================================================ byte-string order *)

Lemma bytes_cmp_eq : forall a b, bytes_cmp a b = Eq <-> a = b.
Proof.
  induction a as [|x a IH]; destruct b as [|y b]; simpl; split; intro Hc; try congruence; try reflexivity.
  - destruct (N.compare x y) eqn:E; try discriminate.
    apply N.compare_eq in E. subst. f_equal. apply IH; assumption.
  - inversion Hc; subst. rewrite N.compare_refl. apply IH; reflexivity.
Qed.

Lemma bytes_cmp_refl : forall a, bytes_cmp a a = Eq.
Proof. intro a. apply bytes_cmp_eq. reflexivity. Qed.

Lemma bytes_eqb_eq : forall a b, bytes_eqb a b = true <-> a = b.
Proof.
  intros a b. unfold bytes_eqb. split; intro Hc.
  - apply bytes_cmp_eq. destruct (bytes_cmp a b); congruence.
  - apply bytes_cmp_eq in Hc. rewrite Hc. reflexivity.
Qed.

Lemma bytes_eqb_refl : forall a, bytes_eqb a a = true.
Proof. intro a. apply bytes_eqb_eq. reflexivity. Qed.

Lemma bytes_eqb_neq : forall a b, bytes_eqb a b = false <-> a <> b.
Proof.
  intros a b. split; intro Hc.
  - intro E. apply bytes_eqb_eq in E. congruence.
  - destruct (bytes_eqb a b) eqn:E; [apply bytes_eqb_eq in E; contradiction | reflexivity].
Qed.

Lemma bytes_cmp_antisym : forall a b, bytes_cmp b a = CompOpp (bytes_cmp a b).
Proof.
  induction a as [|x a IH]; destruct b as [|y b]; simpl; auto.
  rewrite (N.compare_antisym x y). destruct (N.compare x y); simpl; auto.
Qed.

Lemma bytes_cmp_lt_trans : forall a b c, bytes_cmp a b = Lt -> bytes_cmp b c = Lt -> bytes_cmp a c = Lt.
Proof.
  induction a as [|x a IH]; destruct b as [|y b]; destruct c as [|z c]; simpl; try discriminate; auto.
  intros H1 H2.
  destruct (N.compare x y) eqn:E1; destruct (N.compare y z) eqn:E2; try discriminate.
  - apply N.compare_eq in E1. apply N.compare_eq in E2. subst. rewrite N.compare_refl. eauto.
  - apply N.compare_eq in E1. subst. rewrite E2. reflexivity.
  - apply N.compare_eq in E2. subst. rewrite E1. reflexivity.
  - apply N.compare_lt_iff in E1. apply N.compare_lt_iff in E2.
    assert (E3 : N.compare x z = Lt) by (apply N.compare_lt_iff; eapply N.lt_trans; eassumption).
    rewrite E3. reflexivity.
Qed.

Lemma bytes_cmp_lt_neq : forall a b, bytes_cmp a b = Lt -> bytes_eqb a b = false.
Proof. intros a b Hc. unfold bytes_eqb. rewrite Hc. reflexivity. Qed.

Lemma bytes_cmp_gt_lt : forall a b, bytes_cmp a b = Gt -> bytes_cmp b a = Lt.
Proof. intros a b Hc. rewrite bytes_cmp_antisym, Hc. reflexivity. Qed.

Lemma bytes_eqb_sym : forall a b, bytes_eqb a b = bytes_eqb b a.
Proof.
  intros a b. destruct (bytes_eqb a b) eqn:E.
  - apply bytes_eqb_eq in E. subst. symmetry. apply bytes_eqb_refl.
  - symmetry. apply bytes_eqb_neq. apply bytes_eqb_neq in E. congruence.
Qed.

(* ================================================================ sorted association lists *)

Section AssocProofs.
  Variable V : Type.
  Variable key : V -> bytes.

  Fixpoint sorted (l : list (bytes * V)) : Prop :=
    match l with
    | [] => True
    | (k, _) :: t => Forall (fun e => bytes_cmp k (fst e) = Lt) t /\ sorted t
    end.

  Definition keys_ok (l : list (bytes * V)) : Prop := Forall (fun e => fst e = key (snd e)) l.

  Lemma lookup_ins : forall k (v : V) l k',
    lookup k' (ins k v l) = if bytes_eqb k' k then Some v else lookup k' l.
  Proof.
    intros k v l k'. induction l as [|[k0 v0] t IH]; simpl.
    - reflexivity.
    - destruct (bytes_cmp k k0) eqn:E; simpl.
      + apply bytes_cmp_eq in E. subst k0. destruct (bytes_eqb k' k); reflexivity.
      + reflexivity.
      + rewrite IH. destruct (bytes_eqb k' k0) eqn:E0; [|reflexivity].
        apply bytes_eqb_eq in E0. subst k0.
        destruct (bytes_eqb k' k) eqn:E1; [|reflexivity].
        apply bytes_eqb_eq in E1. subst k'. rewrite bytes_cmp_refl in E. discriminate.
  Qed.

  Lemma forall_lt_ins : forall k0 k v l,
    bytes_cmp k0 k = Lt -> Forall (fun e : bytes * V => bytes_cmp k0 (fst e) = Lt) l ->
    Forall (fun e : bytes * V => bytes_cmp k0 (fst e) = Lt) (ins k v l).
  Proof.
    intros k0 k v l Hk Hl. induction l as [|[k1 v1] t IH]; simpl.
    - constructor; [exact Hk | constructor].
    - inversion Hl as [|? ? H1 H2]; subst.
      destruct (bytes_cmp k k1) eqn:E.
      + constructor; [exact Hk | exact H2].
      + constructor; [exact Hk | exact Hl].
      + constructor; [exact H1 | apply IH; exact H2].
  Qed.

  Lemma forall_lt_weaken : forall k k0 (l : list (bytes * V)),
    bytes_cmp k k0 = Lt -> Forall (fun e => bytes_cmp k0 (fst e) = Lt) l ->
    Forall (fun e => bytes_cmp k (fst e) = Lt) l.
  Proof.
    intros k k0 l Hk Hl. induction Hl as [|e t He Ht IH]; constructor.
    - eapply bytes_cmp_lt_trans; eassumption.
    - exact IH.
  Qed.

  Lemma ins_sorted : forall k v l, sorted l -> sorted (ins k v l).
  Proof.
    intros k v l. induction l as [|[k0 v0] t IH]; simpl; intro Hs.
    - split; [constructor | exact I].
    - destruct Hs as [Hall Hs].
      destruct (bytes_cmp k k0) eqn:E; simpl.
      + apply bytes_cmp_eq in E. subst k0. split; assumption.
      + split.
        * constructor; [exact E | eapply forall_lt_weaken; eassumption].
        * split; assumption.
      + split.
        * apply forall_lt_ins; [apply bytes_cmp_gt_lt; exact E | exact Hall].
        * apply IH. exact Hs.
  Qed.

  Lemma ins_keys_ok : forall x l, keys_ok l -> keys_ok (ins (key x) x l).
  Proof.
    intros x l. unfold keys_ok. induction l as [|[k0 v0] t IH]; simpl; intro Hk.
    - constructor; [reflexivity | constructor].
    - inversion Hk as [|? ? H1 H2]; subst.
      destruct (bytes_cmp (key x) k0); constructor; simpl; auto.
  Qed.

  Lemma ins_all_sorted : forall xs m, sorted m -> sorted (ins_all key xs m).
  Proof.
    unfold ins_all. induction xs as [|x t IH]; simpl; intros m Hm; [exact Hm|].
    apply IH. apply ins_sorted. exact Hm.
  Qed.

  Lemma ins_all_keys_ok : forall xs m, keys_ok m -> keys_ok (ins_all key xs m).
  Proof.
    unfold ins_all. induction xs as [|x t IH]; simpl; intros m Hm; [exact Hm|].
    apply IH. apply ins_keys_ok. exact Hm.
  Qed.

  Lemma lookup_ins_all : forall xs m k,
    lookup k (ins_all key xs m) =
    match find_last key k xs with Some y => Some y | None => lookup k m end.
  Proof.
    unfold ins_all. induction xs as [|x t IH]; simpl; intros m k; [reflexivity|].
    rewrite IH. destruct (find_last key k t); [reflexivity|].
    rewrite lookup_ins. destruct (bytes_eqb k (key x)); reflexivity.
  Qed.

  Lemma lookup_none_lt : forall k (l : list (bytes * V)),
    Forall (fun e => bytes_cmp k (fst e) = Lt) l -> lookup k l = None.
  Proof.
    intros k l Hl. induction Hl as [|[k0 v0] t He Ht IH]; simpl; [reflexivity|].
    simpl in He. rewrite (bytes_cmp_lt_neq _ _ He). exact IH.
  Qed.

  Lemma sorted_ext : forall l1 l2, sorted l1 -> sorted l2 ->
    (forall k, lookup k l1 = lookup k l2) -> l1 = l2.
  Proof.
    induction l1 as [|[k1 v1] t1 IH]; destruct l2 as [|[k2 v2] t2]; intros S1 S2 Hx.
    - reflexivity.
    - specialize (Hx k2). simpl in Hx. rewrite bytes_eqb_refl in Hx. discriminate.
    - specialize (Hx k1). simpl in Hx. rewrite bytes_eqb_refl in Hx. discriminate.
    - destruct S1 as [A1 S1]. destruct S2 as [A2 S2].
      destruct (bytes_cmp k1 k2) eqn:E.
      + apply bytes_cmp_eq in E. subst k2.
        pose proof (Hx k1) as Hk. simpl in Hk. rewrite bytes_eqb_refl in Hk. inversion Hk; subst v2.
        f_equal. apply IH; try assumption.
        intro k. destruct (bytes_eqb k k1) eqn:Ek.
        * apply bytes_eqb_eq in Ek. subst k.
          rewrite (lookup_none_lt _ _ A1), (lookup_none_lt _ _ A2). reflexivity.
        * specialize (Hx k). simpl in Hx. rewrite Ek in Hx. exact Hx.
      + exfalso. specialize (Hx k1). simpl in Hx. rewrite bytes_eqb_refl in Hx.
        rewrite (bytes_cmp_lt_neq _ _ E) in Hx.
        rewrite (lookup_none_lt k1 t2) in Hx; [discriminate|].
        eapply forall_lt_weaken; eassumption.
      + exfalso. apply bytes_cmp_gt_lt in E. specialize (Hx k2). simpl in Hx. rewrite bytes_eqb_refl in Hx.
        rewrite (bytes_cmp_lt_neq _ _ E) in Hx.
        rewrite (lookup_none_lt k2 t1) in Hx; [discriminate|].
        eapply forall_lt_weaken; eassumption.
  Qed.

  Lemma find_last_map_snd : forall l k, sorted l -> keys_ok l ->
    find_last key k (map snd l) = lookup k l.
  Proof.
    induction l as [|[k0 v0] t IH]; simpl; intros k Hs Hk; [reflexivity|].
    destruct Hs as [Hall Hs]. inversion Hk as [|? ? H1 H2]; subst. simpl in H1. subst k0.
    rewrite IH by assumption.
    destruct (bytes_eqb k (key v0)) eqn:E.
    - apply bytes_eqb_eq in E. subst k. rewrite (lookup_none_lt _ _ Hall). reflexivity.
    - destruct (lookup k t); reflexivity.
  Qed.

  Lemma forall_lt_map_snd : forall k (t : list (bytes * V)),
    Forall (fun e => bytes_cmp k (fst e) = Lt) t -> keys_ok t ->
    Forall (fun y => bytes_cmp k (key y) = Lt) (map snd t).
  Proof.
    intros k t Hall. induction Hall as [|[k1 v1] t' Ha Hb IHt]; simpl; intro Hk; constructor.
    - inversion Hk as [|? ? Hc Hd]; subst. simpl in *. subst k1. exact Ha.
    - inversion Hk; subst. apply IHt; assumption.
  Qed.

  Lemma sorted_names_sorted : forall l, sorted l -> keys_ok l -> names_sorted key (map snd l).
  Proof.
    induction l as [|[k0 v0] t IH]; simpl; intros Hs Hk; [exact I|].
    destruct Hs as [Hall Hs]. inversion Hk as [|? ? H1 H2]; subst. simpl in H1. subst k0.
    split; [|apply IH; assumption].
    apply forall_lt_map_snd; assumption.
  Qed.

  Definition merged_assoc (dst src : list V) := ins_all key src (ins_all key dst []).

  Lemma merged_assoc_sorted : forall dst src, sorted (merged_assoc dst src).
  Proof. intros. unfold merged_assoc. apply ins_all_sorted. apply ins_all_sorted. exact I. Qed.

  Lemma merged_assoc_keys_ok : forall dst src, keys_ok (merged_assoc dst src).
  Proof. intros. unfold merged_assoc. apply ins_all_keys_ok. apply ins_all_keys_ok. constructor. Qed.

  Lemma merged_assoc_lookup : forall dst src k,
    lookup k (merged_assoc dst src) =
    match find_last key k src with Some y => Some y | None => find_last key k dst end.
  Proof.
    intros. unfold merged_assoc. rewrite !lookup_ins_all. simpl.
    destruct (find_last key k src); [reflexivity|]. destruct (find_last key k dst); reflexivity.
  Qed.

  (* the entry found under a name in the merged list is the patch's last entry of that name if the patch
     names it, else the old list's; in particular names the patch does not mention are untouched and no
     name disappears *)
  Theorem merge_by_name_spec : forall dst src k,
    find_last key k (merge_by_name key dst src) =
    match find_last key k src with Some y => Some y | None => find_last key k dst end.
  Proof.
    intros. unfold merge_by_name. fold (merged_assoc dst src).
    rewrite find_last_map_snd by (apply merged_assoc_sorted || apply merged_assoc_keys_ok).
    apply merged_assoc_lookup.
  Qed.

  Theorem merge_by_name_sorted : forall dst src, names_sorted key (merge_by_name key dst src).
  Proof.
    intros. unfold merge_by_name. fold (merged_assoc dst src).
    apply sorted_names_sorted; [apply merged_assoc_sorted | apply merged_assoc_keys_ok].
  Qed.

  Theorem merge_by_name_idempotent : forall dst src,
    merge_by_name key (merge_by_name key dst src) src = merge_by_name key dst src.
  Proof.
    intros. unfold merge_by_name at 1 3. fold (merged_assoc dst src).
    fold (merged_assoc (merge_by_name key dst src) src).
    f_equal. apply sorted_ext; try apply merged_assoc_sorted.
    intro k. rewrite !merged_assoc_lookup, merge_by_name_spec.
    destruct (find_last key k src); reflexivity.
  Qed.

  (* every entry of the merged list comes from one of the two inputs *)
  Lemma find_last_in : forall k xs y, find_last key k xs = Some y -> In y xs /\ key y = k.
  Proof.
    induction xs as [|x t IH]; simpl; intros y Hf; [discriminate|].
    destruct (find_last key k t) eqn:E.
    - inversion Hf; subst. destruct (IH y eq_refl) as [Hi Hk]. split; [right; exact Hi | exact Hk].
    - destruct (bytes_eqb k (key x)) eqn:E1; [|discriminate].
      inversion Hf; subst. apply bytes_eqb_eq in E1. split; [left; reflexivity | symmetry; exact E1].
  Qed.

  Lemma names_sorted_find : forall l x, names_sorted key l -> In x l -> find_last key (key x) l = Some x.
  Proof.
    induction l as [|y t IH]; simpl; intros x Hs Hi; [contradiction|].
    destruct Hs as [Hall Hs]. destruct Hi as [Hi|Hi].
    - subst y. destruct (find_last key (key x) t) eqn:E.
      + exfalso. apply find_last_in in E. destruct E as [Hin Hk].
        rewrite Forall_forall in Hall. specialize (Hall _ Hin). rewrite Hk, bytes_cmp_refl in Hall. discriminate.
      + rewrite bytes_eqb_refl. reflexivity.
    - rewrite (IH x Hs Hi). reflexivity.
  Qed.

  Theorem merge_by_name_in : forall dst src x,
    In x (merge_by_name key dst src) -> In x src \/ In x dst.
  Proof.
    intros dst src x Hi.
    pose proof (names_sorted_find _ _ (merge_by_name_sorted dst src) Hi) as Hf.
    rewrite merge_by_name_spec in Hf.
    destruct (find_last key (key x) src) eqn:E.
    - inversion Hf; subst. left. apply (find_last_in _ _ _ E).
    - right. apply (find_last_in _ _ _ Hf).
  Qed.
End AssocProofs.

Arguments merge_by_name_spec {V}. Arguments merge_by_name_sorted {V}. Arguments merge_by_name_idempotent {V}.
Arguments merge_by_name_in {V}.

(* ================================================================ merge of server / client configuration *)

Lemma orelse_takes : forall (A : Type) (p o : option A), takes (orelse p o) p o.
Proof. intros A p o. split; [intros v Hp; subst; reflexivity | intro Hp; subst; reflexivity]. Qed.

Lemma orelse_takes_z : forall p o, takes_z (Some (getz (orelse p o))) p o.
Proof. intros p o. split; [intros v Hp; subst; reflexivity | intro Hp; subst; reflexivity]. Qed.

Lemma orelse_takes_b : forall p o, takes_b (Some (getb (orelse p o))) p o.
Proof. intros p o. split; [intros v Hp; subst; reflexivity | intro Hp; subst; reflexivity]. Qed.

Lemma orelse_idem : forall (A : Type) (p o : option A), orelse p (orelse p o) = orelse p o.
Proof. intros A [x|] o; reflexivity. Qed.

Lemma orelse_idem_z : forall p o, Some (getz (orelse p (Some (getz (orelse p o))))) = Some (getz (orelse p o)).
Proof. intros [x|] o; reflexivity. Qed.

Lemma orelse_idem_b : forall p o, Some (getb (orelse p (Some (getb (orelse p o))))) = Some (getb (orelse p o)).
Proof. intros [x|] o; reflexivity. Qed.

Theorem merge_server_only_set : forall old patch : server_cfg,
  let r := merge_server old patch in
  takes (s_ports r) (s_ports patch) (s_ports old) /\
  takes (s_adv r) (s_adv patch) (s_adv old) /\
  takes_z (s_log r) (s_log patch) (s_log old) /\
  takes_z (s_mtu r) (s_mtu patch) (s_mtu old) /\
  takes (s_egress r) (s_egress patch) (s_egress old) /\
  takes (s_dns r) (s_dns patch) (s_dns old) /\
  takes (s_tp r) (s_tp patch) (s_tp old) /\
  (forall name, find_last uname name (s_users r) =
                match find_last uname name (s_users patch) with
                | Some u => Some u
                | None => find_last uname name (s_users old)
                end) /\
  names_sorted uname (s_users r) /\
  (forall u, In u (s_users r) -> In u (s_users patch) \/ In u (s_users old)).
Proof.
  intros old patch r. unfold r, merge_server; simpl.
  repeat split; try apply orelse_takes; try apply orelse_takes_z;
    try (intros v Hp; rewrite Hp; reflexivity); try (intro Hp; rewrite Hp; reflexivity).
  - intro name. apply merge_by_name_spec.
  - apply merge_by_name_sorted.
  - intros u Hu. apply (merge_by_name_in uname _ _ _ Hu).
Qed.

Theorem merge_server_idempotent : forall old patch,
  merge_server (merge_server old patch) patch = merge_server old patch.
Proof.
  intros old patch. unfold merge_server; simpl.
  rewrite merge_by_name_idempotent, !orelse_idem, !orelse_idem_z. reflexivity.
Qed.

Theorem merge_client_only_set : forall old patch : client_cfg,
  let r := merge_client old patch in
  takes_b (c_active r) (c_active patch) (c_active old) /\
  takes (c_rpc r) (c_rpc patch) (c_rpc old) /\
  takes_z (c_socks5 r) (c_socks5 patch) (c_socks5 old) /\
  takes (c_adv r) (c_adv patch) (c_adv old) /\
  takes_z (c_log r) (c_log patch) (c_log old) /\
  takes (c_s5lan r) (c_s5lan patch) (c_s5lan old) /\
  takes (c_http r) (c_http patch) (c_http old) /\
  takes (c_httplan r) (c_httplan patch) (c_httplan old) /\
  takes (c_auth r) (c_auth patch) (c_auth old) /\
  (forall name, find_last pname name (c_profiles r) =
                match find_last pname name (c_profiles patch) with
                | Some p => Some p
                | None => find_last pname name (c_profiles old)
                end) /\
  names_sorted pname (c_profiles r) /\
  (forall p, In p (c_profiles r) -> In p (c_profiles patch) \/ In p (c_profiles old)).
Proof.
  intros old patch r. unfold r, merge_client; simpl.
  repeat split; try (intros v Hp; rewrite Hp; reflexivity); try (intro Hp; rewrite Hp; reflexivity).
  - intro name. apply merge_by_name_spec.
  - apply merge_by_name_sorted.
  - intros p Hp. apply (merge_by_name_in pname _ _ _ Hp).
Qed.

Theorem merge_client_idempotent : forall old patch,
  merge_client (merge_client old patch) patch = merge_client old patch.
Proof.
  intros old patch. unfold merge_client; simpl.
  rewrite merge_by_name_idempotent, !orelse_idem, !orelse_idem_z, orelse_idem_b. reflexivity.
Qed.

(* non-vacuity: a patch that sets the MTU, replaces bob and adds carol *)
Definition ex_user (n pw : bytes) : user := mkUser (Some n) (Some pw) None [] [].
Definition ex_old : server_cfg :=
  mkServer (Some [mkPB (Some 2012%Z) (Some 2%Z) None]) [ex_user [98]%N [1]%N; ex_user [97]%N [2]%N] None None (Some 1400%Z) None None None.
Definition ex_patch : server_cfg :=
  mkServer None [ex_user [99]%N [3]%N; ex_user [98]%N [4]%N] None (Some 3%Z) None None None None.
Example ex_merge_server :
  merge_server ex_old ex_patch =
  mkServer (Some [mkPB (Some 2012%Z) (Some 2%Z) None]) [ex_user [97]%N [2]%N; ex_user [98]%N [4]%N; ex_user [99]%N [3]%N]
           None (Some 3%Z) (Some 1400%Z) None None None.
Proof. vm_compute. reflexivity. Qed.

(* ================================================================ password hashing *)

Section HashProofs.
  Variable H : bytes -> bytes.

  Lemma hash_user_no_plaintext : forall u, no_plaintext (hash_user H false u).
  Proof.
    intro u. unfold no_plaintext, hash_user.
    destruct (u_pw u) as [[|b pw]|] eqn:E; simpl; auto.
  Qed.

  (* what exactly happens to one user *)
  Definition hashed_from (keep : bool) (u u' : user) : Prop :=
    u_name u' = u_name u /\ u_rest u' = u_rest u /\ u_quotas u' = u_quotas u /\
    match u_pw u with
    | None => u' = u
    | Some [] => u' = u
    | Some pw => u_hpw u' = Some (H (pw ++ 0%N :: uname u)) /\
                 u_pw u' = (if keep then Some pw else Some [])
    end.

  Lemma hash_user_spec : forall keep u, hashed_from keep u (hash_user H keep u).
  Proof.
    intros keep u. unfold hashed_from, hash_user.
    destruct (u_pw u) as [[|b pw]|] eqn:E; simpl; rewrite ?E; auto.
  Qed.

  Theorem hash_users_no_plaintext : forall us,
    Forall no_plaintext (hash_users H false us) /\
    Forall2 (hashed_from false) us (hash_users H false us).
  Proof.
    intro us. unfold hash_users. split.
    - apply Forall_forall. intros u' Hin. apply in_map_iff in Hin. destruct Hin as [u [Hu _]]. subst u'.
      apply hash_user_no_plaintext.
    - induction us as [|u t IH]; simpl; constructor; [apply hash_user_spec | exact IH].
  Qed.

  (* the whole apply pipeline: whatever was loaded and whatever the patch holds, nothing that is written has a plaintext password *)
  Theorem apply_then_store_no_plaintext : forall old patch,
    Forall no_plaintext (s_users (store_server H (merge_server old patch))) /\
    (let c := merge_server old patch in
     let w := store_server H c in
     s_ports w = s_ports c /\ s_adv w = s_adv c /\ s_log w = s_log c /\ s_mtu w = s_mtu c /\
     s_egress w = s_egress c /\ s_dns w = s_dns c /\ s_tp w = s_tp c /\
     Forall2 (hashed_from false) (s_users c) (s_users w)).
  Proof.
    intros old patch. unfold store_server; simpl. split.
    - apply hash_users_no_plaintext.
    - repeat split. apply hash_users_no_plaintext.
  Qed.

  (* client side: the plaintext password is kept and a hash is added *)
  Theorem store_client_spec : forall c,
    let w := store_client H c in
    c_active w = c_active c /\ c_rpc w = c_rpc c /\ c_socks5 w = c_socks5 c /\ c_adv w = c_adv c /\
    c_log w = c_log c /\ c_s5lan w = c_s5lan c /\ c_http w = c_http c /\ c_httplan w = c_httplan c /\
    c_auth w = c_auth c /\
    Forall2 (fun p p' => p_name p' = p_name p /\ p_rest p' = p_rest p /\
                         match p_user p with
                         | None => p_user p' = None
                         | Some u => exists u', p_user p' = Some u' /\ hashed_from true u u'
                         end) (c_profiles c) (c_profiles w).
  Proof.
    intro c. simpl. repeat split.
    induction (c_profiles c) as [|p t IH]; simpl; constructor; [|exact IH].
    unfold store_profile; simpl. repeat split.
    destruct (p_user p) as [u|]; [|reflexivity].
    exists (hash_user H true u). split; [reflexivity | apply hash_user_spec].
  Qed.
End HashProofs.

Example ex_hash :
  hash_users toy_hash false [ex_user [97]%N [112; 119]%N; mkUser (Some [98]%N) None (Some [1;2]%N) [] [7]%N] =
  [mkUser (Some [97]%N) (Some []) (Some [256; 112; 119; 0; 97]%N) [] []; mkUser (Some [98]%N) None (Some [1;2]%N) [] [7]%N].
Proof. vm_compute. reflexivity. Qed.

(* ================================================================ mieru:// guard *)

Lemma has_prefix_app : forall p s, has_prefix p s = true -> exists r, s = p ++ r.
Proof.
  induction p as [|x p IH]; simpl; intros s Hp.
  - exists s. reflexivity.
  - destruct s as [|y s]; [discriminate|].
    apply andb_true_iff in Hp. destruct Hp as [Hxy Hp]. apply N.eqb_eq in Hxy. subst y.
    destruct (IH s Hp) as [r Hr]. exists r. subst s. reflexivity.
Qed.

Theorem link_guard_total : forall s u, link_guard s u <> Panic.
Proof.
  intros s u. unfold link_guard.
  destruct (negb (ul_ok u)); [discriminate|].
  destruct (negb (bytes_eqb (ul_scheme u) s_mieru)); [discriminate|].
  destruct (negb (is_empty (ul_opaque u))); [discriminate|].
  destruct (has_prefix s_mieru_prefix s) eqn:Hp; simpl; [|discriminate].
  apply has_prefix_app in Hp. destruct Hp as [r Hr]. subst s.
  unfold go_slice_from. simpl. discriminate.
Qed.

(* what is handed to the base64 decoder is exactly the text after "mieru://" *)
Theorem link_guard_payload : forall s u p,
  link_guard s u = Ok p ->
  s = s_mieru_prefix ++ p /\ ul_ok u = true /\ ul_scheme u = s_mieru /\ ul_opaque u = [].
Proof.
  intros s u p. unfold link_guard.
  destruct (ul_ok u); cbn [negb]; [|discriminate].
  destruct (bytes_eqb (ul_scheme u) s_mieru) eqn:Es; cbn [negb]; [|discriminate].
  destruct (ul_opaque u) as [|o os]; cbn [negb is_empty]; [|discriminate].
  destruct (has_prefix s_mieru_prefix s) eqn:Hp; cbn [negb]; [|discriminate].
  apply has_prefix_app in Hp. destruct Hp as [r Hr]. subst s.
  unfold go_slice_from. simpl. intro Hok. inversion Hok; subst.
  repeat split. apply bytes_eqb_eq. exact Es.
Qed.

(* the pinned commit: "mieru:" panics although url.Parse accepts it *)
Theorem link_guard_v0_panics :
  exists s u, ul_ok u = true /\ link_guard_v0 s u = Panic.
Proof.
  exists [109; 105; 101; 114; 117; 58]%N, (mkUrl true s_mieru []). split; reflexivity.
Qed.

Theorem link_guard_v0_partial : forall s u, (8 <= length s)%nat -> link_guard_v0 s u <> Panic.
Proof.
  intros s u Hl. unfold link_guard_v0.
  destruct (negb (ul_ok u)); [discriminate|].
  destruct (negb (bytes_eqb (ul_scheme u) s_mieru)); [discriminate|].
  destruct (negb (is_empty (ul_opaque u))); [discriminate|].
  unfold go_slice_from. destruct (Nat.ltb (length s) 8) eqn:E; [|discriminate].
  apply Nat.ltb_lt in E. lia.
Qed.

Example ex_link_ok :
  link_guard (s_mieru_prefix ++ [81; 81; 61; 61])%N (mkUrl true s_mieru []) = Ok [81; 81; 61; 61]%N.
Proof. reflexivity. Qed.
Example ex_link_short : link_guard [109; 105; 101; 114; 117; 58]%N (mkUrl true s_mieru []) = Err 4.
Proof. reflexivity. Qed.

(* ================================================================ mierus:// *)

Lemma parse_url_ports_no_panic : forall ports protos idx acc,
  (idx + length ports = length protos)%nat -> parse_url_ports idx ports protos acc <> Panic.
Proof.
  induction ports as [|p t IH]; simpl; intros protos idx acc Hl; [discriminate|].
  destruct (parse_url_port p) as [up|e]; [|discriminate].
  destruct (nth_error protos idx) as [pv|] eqn:E.
  - apply IH. lia.
  - apply nth_error_None in E. lia.
Qed.

Theorem simple_link_total : forall u, simple_link u <> Panic.
Proof.
  intro u. unfold simple_link.
  repeat match goal with
  | |- (if ?c then _ else _) <> Panic => destruct c eqn:?; [discriminate|]
  end.
  destruct (if is_empty (su_mtu u) then Some None
            else match atoi (su_mtu u) with Some m => Some (Some (to_int32 m)) | None => None end);
    [|discriminate].
  repeat match goal with
  | |- (if ?c then _ else _) <> Panic => destruct c eqn:?; [discriminate|]
  end.
  destruct (parse_url_ports 0 (su_ports u) (su_protos u) []) eqn:E; try discriminate.
  exfalso. revert E. apply parse_url_ports_no_panic.
  match goal with Hn : negb (Nat.eqb _ _) = false |- _ =>
    apply negb_false_iff in Hn; apply Nat.eqb_eq in Hn; simpl; exact Hn end.
Qed.

(* ================================================================ port ranges *)

Lemma span_digits_spec : forall s d r, span_digits s = (d, r) ->
  s = d ++ r /\ forallb is_digit d = true.
Proof.
  induction s as [|b t IH]; cbn [span_digits]; intros d r Hs.
  - inversion Hs; subst. auto.
  - destruct (is_digit b) eqn:Eb.
    + destruct (span_digits t) as [d' r'] eqn:Et. inversion Hs; subst.
      destruct (IH d' r eq_refl) as [H1 H2]. subst t. cbn [forallb app]. rewrite Eb, H2. auto.
    + inversion Hs; subst. auto.
Qed.

Lemma span_digits_app : forall d c r, forallb is_digit d = true -> is_digit c = false ->
  span_digits (d ++ c :: r) = (d, c :: r).
Proof.
  induction d as [|x d IH]; cbn [span_digits app forallb]; intros c r Hd Hc.
  - rewrite Hc. reflexivity.
  - apply andb_true_iff in Hd. destruct Hd as [Hx Hd]. rewrite Hx, (IH _ _ Hd Hc). reflexivity.
Qed.

Lemma digit_not_sign : forall c, is_digit c = true -> N.eqb c 43 = false /\ N.eqb c 45 = false.
Proof.
  intros c Hc. unfold is_digit in Hc. apply andb_true_iff in Hc. destruct Hc as [A B].
  apply N.leb_le in A. apply N.leb_le in B.
  split; apply N.eqb_neq; intro E; subst c; [apply (N.lt_irrefl 43) | apply (N.lt_irrefl 45)];
    eapply N.lt_le_trans; try eassumption; reflexivity.
Qed.

Lemma atoi_digits : forall d, d <> [] -> forallb is_digit d = true ->
  atoi d = if (Z.leb int64_min (digits_val d) && Z.leb (digits_val d) int64_max)
           then Some (digits_val d) else None.
Proof.
  intros [|c t] Hne Hd; [congruence|]. unfold atoi.
  assert (Hc : is_digit c = true) by (cbn [forallb] in Hd; apply andb_true_iff in Hd; tauto).
  destruct (digit_not_sign c Hc) as [E1 E2]. rewrite E1, E2. cbn [orb]. rewrite Hd. reflexivity.
Qed.

Definition port_range_spec (s : bytes) (a b : Z) : Prop :=
  exists d1 d2, s = d1 ++ 45%N :: d2 /\ d1 <> [] /\ d2 <> [] /\
    forallb is_digit d1 = true /\ forallb is_digit d2 = true /\
    a = digits_val d1 /\ b = digits_val d2 /\
    (1 <= a <= 65535)%Z /\ (1 <= b <= 65535)%Z /\ (a <= b)%Z.

Lemma int64_min_val : int64_min = (-9223372036854775808)%Z. Proof. reflexivity. Qed.
Lemma int64_max_val : int64_max = 9223372036854775807%Z. Proof. reflexivity. Qed.

Theorem parse_port_range_iff : forall s a b,
  parse_port_range s = Some (a, b) <-> port_range_spec s a b.
Proof.
  intros s a b. unfold parse_port_range, match_port_range, port_range_spec. split.
  - destruct (span_digits s) as [d1 r] eqn:Es. apply span_digits_spec in Es. destruct Es as [Hs Hd1].
    destruct d1 as [|c1 t1]; [discriminate|]. destruct r as [|c d2]; [discriminate|].
    destruct (N.eqb c 45) eqn:Ec; [|discriminate]. apply N.eqb_eq in Ec. subst c.
    destruct d2 as [|c2 t2]; [discriminate|].
    destruct (forallb is_digit (c2 :: t2)) eqn:Hd2; [|discriminate].
    rewrite (atoi_digits (c1 :: t1)) by (discriminate || assumption).
    rewrite (atoi_digits (c2 :: t2)) by (discriminate || assumption).
    destruct (Z.leb int64_min (digits_val (c1 :: t1)) && Z.leb (digits_val (c1 :: t1)) int64_max); [|discriminate].
    destruct (Z.leb int64_min (digits_val (c2 :: t2)) && Z.leb (digits_val (c2 :: t2)) int64_max); [|discriminate].
    destruct (port_ok (digits_val (c1 :: t1)) && port_ok (digits_val (c2 :: t2)) &&
              Z.leb (digits_val (c1 :: t1)) (digits_val (c2 :: t2))) eqn:Ep; [|discriminate].
    intro Hx. inversion Hx; subst a b. exists (c1 :: t1), (c2 :: t2).
    apply andb_true_iff in Ep. destruct Ep as [Ep E3].
    apply andb_true_iff in Ep. destruct Ep as [E1 E2].
    unfold port_ok in E1, E2.
    apply andb_true_iff in E1. destruct E1 as [E1a E1b].
    apply andb_true_iff in E2. destruct E2 as [E2a E2b].
    apply Z.leb_le in E1a, E1b, E2a, E2b, E3.
    repeat split; try assumption; discriminate.
  - intros (d1 & d2 & Hs & Hn1 & Hn2 & Hd1 & Hd2 & Ha & Hb & Ra & Rb & Hab). subst s.
    rewrite span_digits_app by (assumption || reflexivity).
    destruct d1 as [|c1 t1]; [congruence|]. rewrite N.eqb_refl.
    destruct d2 as [|c2 t2]; [congruence|]. rewrite Hd2.
    rewrite (atoi_digits (c1 :: t1)) by (discriminate || assumption).
    rewrite (atoi_digits (c2 :: t2)) by (discriminate || assumption).
    rewrite <- Ha, <- Hb.
    assert (Ia : Z.leb int64_min a && Z.leb a int64_max = true).
    { rewrite int64_min_val, int64_max_val. apply andb_true_iff; split; apply Z.leb_le; lia. }
    assert (Ib : Z.leb int64_min b && Z.leb b int64_max = true).
    { rewrite int64_min_val, int64_max_val. apply andb_true_iff; split; apply Z.leb_le; lia. }
    rewrite Ia, Ib.
    assert (Ip : port_ok a && port_ok b && Z.leb a b = true).
    { unfold port_ok. repeat (apply andb_true_iff; split); apply Z.leb_le; lia. }
    rewrite Ip. reflexivity.
Qed.

Example ex_port_range : parse_port_range [50; 48; 49; 50; 45; 50; 48; 50; 50]%N = Some (2012, 2022)%Z.
Proof. vm_compute. reflexivity. Qed.
Example ex_port_range_bad : parse_port_range [50; 48; 45; 49; 48]%N = None /\ parse_port_range [45; 49]%N = None
  /\ parse_port_range [48; 45; 49]%N = None /\ parse_port_range [49; 45; 54; 53; 53; 51; 54]%N = None.
Proof. vm_compute. auto. Qed.

(* a binding written by the URL importer ("%d-%d" of an accepted range) is accepted by FlatPortBindings:
   stated on the parsed values, the decimal printer being library code *)
Theorem url_range_ports_ok : forall s a b, parse_url_port s = inl (URange a b) ->
  (1 <= a <= 65535)%Z /\ (1 <= b <= 65535)%Z /\ (a <= b)%Z.
Proof.
  intros s a b. unfold parse_url_port.
  destruct (atoi s) as [n|].
  - destruct (port_ok n); discriminate.
  - destruct (split_dash s) as [|x [|y [|z l]]]; try discriminate.
    destruct (atoi x) as [a'|]; [|discriminate]. destruct (atoi y) as [b'|]; [|discriminate].
    destruct (port_ok a') eqn:Ea; cbn [negb]; [|discriminate].
    destruct (port_ok b') eqn:Eb; cbn [negb]; [|discriminate].
    destruct (Z.ltb b' a') eqn:El; [discriminate|].
    intro Hx. inversion Hx; subst a' b'.
    unfold port_ok in Ea, Eb. apply andb_true_iff in Ea. apply andb_true_iff in Eb.
    destruct Ea as [A1 A2]. destruct Eb as [B1 B2].
    apply Z.leb_le in A1, A2, B1, B2. apply Z.ltb_ge in El. lia.
Qed.

Theorem url_port_ok : forall s p, parse_url_port s = inl (UPort p) -> (1 <= p <= 65535)%Z.
Proof.
  intros s p. unfold parse_url_port.
  destruct (atoi s) as [n|].
  - destruct (port_ok n) eqn:E; [|discriminate]. intro Hx. inversion Hx; subst n.
    unfold port_ok in E. apply andb_true_iff in E. destruct E as [A B]. apply Z.leb_le in A, B. lia.
  - destruct (split_dash s) as [|x [|y [|z l]]]; try discriminate.
    destruct (atoi x) as [a'|]; [|discriminate]. destruct (atoi y) as [b'|]; [|discriminate].
    destruct (port_ok a'); cbn [negb]; [|discriminate].
    destruct (port_ok b'); cbn [negb]; [|discriminate].
    destruct (Z.ltb b' a'); discriminate.
Qed.

(* ================================================================ validation *)

Lemma first_err_zero : forall (A : Type) (f : A -> N) l,
  first_err f l = 0%N <-> Forall (fun x => f x = 0%N) l.
Proof.
  intros A f. induction l as [|x t IH]; simpl; split; intro Hh; try constructor; auto.
  - destruct (N.eqb (f x) 0) eqn:E; [apply N.eqb_eq in E; exact E | rewrite Hh in E; discriminate].
  - destruct (N.eqb (f x) 0) eqn:E; [apply IH; exact Hh | rewrite Hh in E; discriminate].
  - inversion Hh as [|? ? H1 H2]; subst. rewrite H1. simpl. apply IH. exact H2.
Qed.

Definition egress_ok (e : option egress_rec) : Prop :=
  exists used, validate_proxies [] (match e with Some r => eg_proxies r | None => [] end) = Some used /\
               forallb (rule_valid used) (match e with Some r => eg_rules r | None => [] end) = true.

Definition server_patch_ok (c : server_cfg) : Prop :=
  flat_ok (getports (s_ports c)) = true /\
  Forall (fun u => validate_user u = 0%N) (s_users c) /\
  mtu_valid (getz (s_mtu c)) = true /\
  egress_ok (s_egress c) /\
  dns_valid (s_dns c) = true /\
  interval_valid (s_adv c) = true /\
  tp_valid (s_tp c) = true.

Lemma validate_server_patch_ok : forall c, validate_server_patch c = 0%N <-> server_patch_ok c.
Proof.
  intro c. unfold validate_server_patch, server_patch_ok, egress_ok. split.
  - destruct (flat_ok (getports (s_ports c))); cbn [negb]; [|discriminate].
    destruct (N.eqb (first_err validate_user (s_users c)) 0) eqn:Eu; cbn [negb];
      [|intro Hh; rewrite Hh in Eu; discriminate].
    apply N.eqb_eq in Eu. apply first_err_zero in Eu.
    destruct (mtu_valid (getz (s_mtu c))); cbn [negb]; [|discriminate].
    destruct (validate_proxies [] match s_egress c with Some e => eg_proxies e | None => [] end) as [used|]; [|discriminate].
    destruct (forallb (rule_valid used) match s_egress c with Some e => eg_rules e | None => [] end) eqn:Er; cbn [negb]; [|discriminate].
    destruct (dns_valid (s_dns c)); cbn [negb]; [|discriminate].
    destruct (interval_valid (s_adv c)); cbn [negb]; [|discriminate].
    destruct (tp_valid (s_tp c)); cbn [negb]; [|discriminate].
    intros _. repeat split; auto. exists used. split; [reflexivity | exact Er].
  - intros (Hp & Hu & Hm & (used & Hx & Hr) & Hd & Hi & Ht).
    rewrite Hp. cbn [negb]. apply first_err_zero in Hu. rewrite Hu. cbn [N.eqb negb].
    rewrite Hm. cbn [negb]. rewrite Hx, Hr. cbn [negb]. rewrite Hd, Hi, Ht. reflexivity.
Qed.

Lemma orelse_cases : forall (A : Type) (P : option A -> Prop) (p o : option A), P p -> P o -> P (orelse p o).
Proof. intros A P [x|] o Hp Ho; simpl; assumption. Qed.

Lemma merged_users_valid : forall (f : user -> N) dst src,
  Forall (fun u => f u = 0%N) dst -> Forall (fun u => f u = 0%N) src ->
  Forall (fun u => f u = 0%N) (merge_by_name uname dst src).
Proof.
  intros f dst src Hd Hs. apply Forall_forall. intros u Hu.
  apply (merge_by_name_in uname) in Hu. rewrite Forall_forall in Hd, Hs. destruct Hu; auto.
Qed.

Theorem merge_server_patch_valid : forall old patch,
  validate_server_patch old = 0%N -> validate_server_patch patch = 0%N ->
  validate_server_patch (merge_server old patch) = 0%N.
Proof.
  intros old patch Ho Hp. apply validate_server_patch_ok in Ho. apply validate_server_patch_ok in Hp.
  apply validate_server_patch_ok.
  destruct Ho as (O1 & O2 & O3 & O4 & O5 & O6 & O7). destruct Hp as (P1 & P2 & P3 & P4 & P5 & P6 & P7).
  unfold server_patch_ok, merge_server; cbn [s_ports s_users s_adv s_log s_mtu s_egress s_dns s_tp].
  repeat split.
  - destruct (s_ports patch); simpl; assumption.
  - apply merged_users_valid; assumption.
  - destruct (s_mtu patch); simpl; assumption.
  - destruct (s_egress patch); simpl; assumption.
  - destruct (s_dns patch); simpl; assumption.
  - destruct (s_adv patch); simpl; assumption.
  - destruct (s_tp patch); simpl; assumption.
Qed.

Lemma validate_full_server_ok : forall c,
  validate_full_server c = 0%N <-> validate_server_patch c = 0%N /\ getports (s_ports c) <> [].
Proof.
  intro c. unfold validate_full_server, server_is_empty. split.
  - destruct (N.eqb (validate_server_patch c) 0) eqn:E; cbn [negb]; [|intro Hh; rewrite Hh in E; discriminate].
    apply N.eqb_eq in E. destruct (getports (s_ports c)) as [|b l]; cbn [is_empty_list andb].
    + destruct (is_empty_list (s_users c)); cbn [andb]; [|discriminate].
      destruct (s_adv c), (s_log c), (s_mtu c), (s_egress c), (s_dns c), (s_tp c); discriminate.
    + intros _. split; [exact E | discriminate].
  - intros [E Hne]. rewrite E. cbn [N.eqb negb]. destruct (getports (s_ports c)) as [|b l]; [congruence|]. reflexivity.
Qed.

(* what the code guarantees for a server patch: a valid configuration merged with a valid patch is valid,
   unless the patch carries a non-nil EMPTY portBindings list *)
Theorem merge_server_full_valid : forall old patch,
  validate_full_server old = 0%N -> validate_server_patch patch = 0%N -> s_ports patch <> Some [] ->
  validate_full_server (merge_server old patch) = 0%N.
Proof.
  intros old patch Ho Hp Hne. apply validate_full_server_ok in Ho. destruct Ho as [Ho Hports].
  apply validate_full_server_ok. split; [apply merge_server_patch_valid; assumption|].
  unfold merge_server; cbn [s_ports]. destruct (s_ports patch) as [[|b l]|]; simpl; [congruence | discriminate | exact Hports].
Qed.

Definition ex_full_old : server_cfg :=
  mkServer (Some [mkPB (Some 2012%Z) (Some 2%Z) None]) [] None None None None None None.
Definition ex_empty_ports_patch : server_cfg := mkServer (Some []) [] None None None None None None.

Theorem merge_server_empty_ports_invalid :
  validate_full_server ex_full_old = 0%N /\ validate_server_patch ex_empty_ports_patch = 0%N /\
  validate_full_server (merge_server ex_full_old ex_empty_ports_patch) = 10%N.
Proof. vm_compute. auto. Qed.

(* ---- client *)

Definition client_patch_ok (c : client_cfg) : Prop :=
  Forall (fun p => validate_profile p = 0%N) (c_profiles c) /\
  forallb (fun a => negb (is_empty (au_user a)) && negb (is_empty (au_pw a))) (getauth (c_auth c)) = true /\
  interval_valid (c_adv c) = true.

Lemma validate_client_patch_ok : forall c, validate_client_patch c = 0%N <-> client_patch_ok c.
Proof.
  intro c. unfold validate_client_patch, client_patch_ok. split.
  - destruct (N.eqb (first_err validate_profile (c_profiles c)) 0) eqn:E; cbn [negb]; [|intro Hh; rewrite Hh in E; discriminate].
    apply N.eqb_eq in E. apply first_err_zero in E.
    destruct (forallb _ (getauth (c_auth c))); cbn [negb]; [|discriminate].
    destruct (interval_valid (c_adv c)); cbn [negb]; [|discriminate]. auto.
  - intros (H1 & H2 & H3). apply first_err_zero in H1. rewrite H1. cbn [N.eqb negb]. rewrite H2, H3. reflexivity.
Qed.

Theorem merge_client_patch_valid : forall old patch,
  validate_client_patch old = 0%N -> validate_client_patch patch = 0%N ->
  validate_client_patch (merge_client old patch) = 0%N.
Proof.
  intros old patch Ho Hp. apply validate_client_patch_ok in Ho. apply validate_client_patch_ok in Hp.
  apply validate_client_patch_ok. destruct Ho as (O1 & O2 & O3). destruct Hp as (P1 & P2 & P3).
  unfold client_patch_ok, merge_client; cbn [c_profiles c_auth c_adv]. repeat split.
  - apply Forall_forall. intros p Hin. apply (merge_by_name_in pname) in Hin.
    rewrite Forall_forall in O1, P1. destruct Hin; auto.
  - destruct (c_auth patch); simpl; assumption.
  - destruct (c_adv patch); simpl; assumption.
Qed.

(* a valid client configuration merged with a valid patch can be INVALID: the patch validator does not look
   at the ports or at the active profile.  (applyClientConfig re-validates the merged configuration.) *)
Definition ex_profile : profile :=
  mkProfile (Some [112]%N) (Some (mkUser (Some [117]%N) (Some [120]%N) None [] []))
            [mkEp [49]%N true [] false [mkPB (Some 2012%Z) (Some 2%Z) None]] None None None None None [].
Definition ex_client : client_cfg :=
  mkClient [ex_profile] (Some [112]%N) (Some 8964%Z) (Some 1080%Z) None None None None None None.
Definition ex_bad_port_patch : client_cfg :=
  mkClient [] None None (Some 70000%Z) None None None None None None.
Definition ex_bad_active_patch : client_cfg :=
  mkClient [] (Some [113]%N) None None None None None None None None.

Theorem merge_client_full_can_be_invalid :
  validate_full_client ex_client = 0%N /\
  validate_client_patch ex_bad_port_patch = 0%N /\
  validate_full_client (merge_client ex_client ex_bad_port_patch) = 57%N /\
  validate_client_patch ex_bad_active_patch = 0%N /\
  validate_full_client (merge_client ex_client ex_bad_active_patch) = 55%N.
Proof. vm_compute. auto 10. Qed.

Lemma find_last_of_in : forall (V : Type) (key : V -> bytes) xs x,
  In x xs -> exists y, find_last key (key x) xs = Some y.
Proof.
  intros V key. induction xs as [|a t IH]; simpl; intros x Hin; [contradiction|].
  destruct Hin as [Ha|Ht].
  - subst a. destruct (find_last key (key x) t); [eexists; reflexivity|]. rewrite bytes_eqb_refl. eexists; reflexivity.
  - destruct (IH x Ht) as [y Hy]. rewrite Hy. eexists; reflexivity.
Qed.

(* ... but a patch that leaves activeProfile, rpcPort, socks5Port and httpProxyPort alone keeps it valid *)
Theorem merge_client_full_valid : forall old patch,
  validate_full_client old = 0%N -> validate_client_patch patch = 0%N ->
  c_active patch = None -> c_rpc patch = None -> c_socks5 patch = None -> c_http patch = None ->
  validate_full_client (merge_client old patch) = 0%N.
Proof.
  intros old patch Ho Hp Ha Hr Hs Hh.
  assert (Hpo : validate_client_patch old = 0%N).
  { unfold validate_full_client in Ho. destruct (N.eqb (validate_client_patch old) 0) eqn:E;
      [apply N.eqb_eq in E; exact E | cbn [negb] in Ho; rewrite Ho in E; discriminate]. }
  pose proof (merge_client_patch_valid old patch Hpo Hp) as Hm.
  unfold validate_full_client in *. rewrite Hm. rewrite Hpo in Ho. cbn [N.eqb negb] in *.
  unfold merge_client; cbn [c_profiles c_active c_rpc c_socks5 c_http].
  rewrite Ha, Hr, Hs, Hh. cbn [orelse getb getz].
  destruct (c_profiles old) as [|p0 t0] eqn:Ep; [discriminate|]. cbn [is_empty_list] in Ho.
  destruct (is_empty (getb (c_active old))) eqn:Ea; [discriminate|].
  destruct (existsb (fun p => bytes_eqb (pname p) (getb (c_active old))) (p0 :: t0)) eqn:Ex; cbn [negb] in Ho; [|discriminate].
  apply existsb_exists in Ex. destruct Ex as [q [Hq Hqn]]. apply bytes_eqb_eq in Hqn.
  destruct (find_last_of_in _ pname _ _ Hq) as [y Hy].
  pose proof (merge_by_name_spec pname (p0 :: t0) (c_profiles patch) (pname q)) as Hspec.
  assert (Hex : exists z, find_last pname (pname q) (merge_by_name pname (p0 :: t0) (c_profiles patch)) = Some z).
  { rewrite Hspec. destruct (find_last pname (pname q) (c_profiles patch)); eexists; [reflexivity | exact Hy]. }
  destruct Hex as [z Hz]. apply find_last_in in Hz. destruct Hz as [Hzin Hzk].
  destruct (merge_by_name pname (p0 :: t0) (c_profiles patch)) as [|m0 mt] eqn:Em; [contradiction|].
  cbn [is_empty_list].
  assert (Hex2 : existsb (fun p => bytes_eqb (pname p) (getb (c_active old))) (m0 :: mt) = true).
  { apply existsb_exists. exists z. split; [exact Hzin|]. apply bytes_eqb_eq. congruence. }
  rewrite Hex2. cbn [negb]. exact Ho.
Qed.

(* ---- storing a validated server configuration *)

Section StoreValid.
  Variable H : bytes -> bytes.
  Hypothesis H_nonempty : forall x, H x <> [].

  Lemma hash_user_valid : forall u, validate_user u = 0%N -> validate_user (hash_user H false u) = 0%N.
  Proof.
    intros u Hv. unfold hash_user. destruct (u_pw u) as [[|b pw]|] eqn:E; try exact Hv.
    unfold validate_user in *. unfold uname in *. cbn [u_name u_pw u_hpw u_quotas getb].
    rewrite E in Hv. cbn [getb] in Hv.
    destruct (is_empty (getb (u_name u))); [discriminate|].
    cbn [is_empty andb negb] in *.
    destruct (H ((b :: pw) ++ 0%N :: getb (u_name u))) eqn:Eh; [exfalso; eapply H_nonempty; exact Eh|].
    cbn [is_empty]. destruct (Z.ltb C20_MaxUserNameLen (blen (getb (u_name u)))); [discriminate|].
    destruct (Z.ltb C20_MaxPasswordLen (blen (b :: pw))); [discriminate|]. exact Hv.
  Qed.

  Theorem store_valid_server : forall c,
    validate_full_server c = 0%N ->
    validate_full_server (store_server H c) = 0%N /\ Forall no_plaintext (s_users (store_server H c)).
  Proof.
    intros c Hv. split; [|apply hash_users_no_plaintext].
    apply validate_full_server_ok in Hv. destruct Hv as [Hp Hne].
    apply validate_full_server_ok. split; [|exact Hne].
    apply validate_server_patch_ok in Hp. apply validate_server_patch_ok.
    destruct Hp as (P1 & P2 & P3 & P4 & P5 & P6 & P7).
    unfold server_patch_ok, store_server; cbn [s_ports s_users s_adv s_log s_mtu s_egress s_dns s_tp].
    repeat split; try assumption.
    unfold hash_users. apply Forall_forall. intros u' Hin. apply in_map_iff in Hin.
    destruct Hin as [u [Hu Hin]]. subst u'. apply hash_user_valid. rewrite Forall_forall in P2. auto.
  Qed.
End StoreValid.

(* ================================================================ mierus:// export then import *)

Lemma split_dash_aux_digits : forall d rest cur, forallb is_digit d = true ->
  split_dash_aux (d ++ rest) cur = split_dash_aux rest (rev d ++ cur).
Proof.
  induction d as [|b d IH]; intros rest cur Hd; [reflexivity|].
  cbn [forallb] in Hd. apply andb_true_iff in Hd. destruct Hd as [Hb Hd].
  destruct (digit_not_sign b Hb) as [_ E].
  change ((b :: d) ++ rest) with (b :: (d ++ rest)). cbn [split_dash_aux]. rewrite E.
  rewrite IH by assumption. cbn [rev]. rewrite <- app_assoc. reflexivity.
Qed.

Lemma split_dash_two : forall d1 d2, forallb is_digit d1 = true -> forallb is_digit d2 = true ->
  split_dash (d1 ++ 45%N :: d2) = [d1; d2].
Proof.
  intros d1 d2 H1 H2. unfold split_dash. rewrite split_dash_aux_digits by assumption.
  cbn [split_dash_aux]. rewrite N.eqb_refl. rewrite app_nil_r, rev_involutive.
  rewrite <- (app_nil_r d2) at 1. rewrite split_dash_aux_digits by assumption.
  cbn [split_dash_aux]. rewrite app_nil_r, rev_involutive. reflexivity.
Qed.

Lemma atoi_with_dash : forall d1 d2, d1 <> [] -> forallb is_digit d1 = true -> atoi (d1 ++ 45%N :: d2) = None.
Proof.
  intros [|c t] d2 Hne Hd; [congruence|].
  assert (Hc : is_digit c = true) by (cbn [forallb] in Hd; apply andb_true_iff in Hd; tauto).
  destruct (digit_not_sign c Hc) as [E1 E2].
  assert (Hf : forallb is_digit ((c :: t) ++ 45%N :: d2) = false).
  { rewrite forallb_app. cbn [forallb]. change (is_digit 45) with false. cbn [andb]. apply andb_false_r. }
  cbn [app] in *. unfold atoi. rewrite E1, E2. cbn [orb]. rewrite Hf. reflexivity.
Qed.

Lemma atoi_small : forall d, d <> [] -> forallb is_digit d = true -> (1 <= digits_val d <= 65535)%Z ->
  atoi d = Some (digits_val d).
Proof.
  intros d Hne Hd Hr. rewrite atoi_digits by assumption.
  assert (Hi : Z.leb int64_min (digits_val d) && Z.leb (digits_val d) int64_max = true).
  { rewrite int64_min_val, int64_max_val. apply andb_true_iff; split; apply Z.leb_le; lia. }
  rewrite Hi. reflexivity.
Qed.

Lemma range_url : forall s a b, parse_port_range s = Some (a, b) -> parse_url_port s = inl (URange a b).
Proof.
  intros s a b Hp. apply parse_port_range_iff in Hp.
  destruct Hp as (d1 & d2 & Hs & Hn1 & Hn2 & Hd1 & Hd2 & Ha & Hb & Ra & Rb & Hab). subst s.
  unfold parse_url_port. rewrite atoi_with_dash, split_dash_two by assumption.
  rewrite (atoi_small d1), (atoi_small d2) by (assumption || (rewrite <- ?Ha, <- ?Hb; assumption)).
  rewrite <- Ha, <- Hb.
  assert (Pa : port_ok a = true) by (unfold port_ok; apply andb_true_iff; split; apply Z.leb_le; lia).
  assert (Pb : port_ok b = true) by (unfold port_ok; apply andb_true_iff; split; apply Z.leb_le; lia).
  rewrite Pa, Pb. cbn [negb].
  assert (Hlt : Z.ltb b a = false) by (apply Z.ltb_ge; lia). rewrite Hlt. reflexivity.
Qed.

Definition binding_unambiguous (b : port_binding) : Prop := getz (pb_port b) = 0%Z \/ getb (pb_range b) = [].
Definition port_text (itoa : Z -> bytes) (x : bytes + Z) : bytes := match x with inl r => r | inr n => itoa n end.

Section LinkRoundTrip.
  Variable itoa : Z -> bytes.
  Variable b64 : bytes -> bytes.
  Variables mux_name hs_name : Z -> bytes.
  (* the library steps invert each other *)
  Hypothesis itoa_atoi : forall n, (- 2 ^ 31 <= n < 2 ^ 31)%Z -> atoi (itoa n) = Some n.
  Hypothesis b64_empty : forall x, b64 x = [] <-> x = [].
  Hypothesis mux_name_nonempty : forall v, mux_name v <> [].
  Hypothesis hs_name_nonempty : forall v, hs_name v <> [].

  Lemma binding_roundtrip : forall b, flat_binding b <> None ->
    parse_url_port (port_text itoa (export_port b)) = inl (fst (binding_view b)).
  Proof.
    intros b Hv. unfold binding_view, export_port, flat_binding in *.
    destruct (Z.eqb (getz (pb_proto b)) C20_TransportUnknown); [congruence|].
    destruct (Z.eqb (getz (pb_port b)) 0) eqn:E0; cbn [negb port_text fst] in *.
    - destruct (parse_port_range (getb (pb_range b))) as [[a z]|] eqn:Ep; [|congruence].
      apply range_url. exact Ep.
    - destruct (port_ok (getz (pb_port b))) eqn:Ep; cbn [andb] in Hv; [|congruence].
      unfold parse_url_port. pose proof Ep as Ep'. unfold port_ok in Ep'.
      apply andb_true_iff in Ep'. destruct Ep' as [A B]. apply Z.leb_le in A. apply Z.leb_le in B.
      rewrite itoa_atoi by lia. rewrite Ep. reflexivity.
  Qed.

  Lemma ports_roundtrip : forall bs pre acc,
    Forall (fun b => flat_binding b <> None) bs ->
    parse_url_ports (length pre) (map (port_text itoa) (map export_port bs))
                    (pre ++ map (fun b => getz (pb_proto b)) bs) acc =
    Ok (rev acc ++ map binding_view bs).
  Proof.
    induction bs as [|b t IH]; intros pre acc Hall; cbn [map parse_url_ports].
    - rewrite app_nil_r. reflexivity.
    - inversion Hall as [|? ? Hv Ht]; subst.
      rewrite (binding_roundtrip b Hv).
      rewrite nth_error_app2 by lia. rewrite Nat.sub_diag. cbn [nth_error].
      replace (S (length pre)) with (length (pre ++ [getz (pb_proto b)])) by (rewrite app_length; simpl; lia).
      replace (pre ++ getz (pb_proto b) :: map (fun b0 => getz (pb_proto b0)) t)
        with ((pre ++ [getz (pb_proto b)]) ++ map (fun b0 => getz (pb_proto b0)) t) by (rewrite <- app_assoc; reflexivity).
      rewrite IH by assumption. cbn [rev]. rewrite <- app_assoc.
      unfold binding_view at 2. reflexivity.
  Qed.

  Lemma flat_ok_forall : forall bs, flat_ok bs = true -> Forall (fun b => flat_binding b <> None) bs.
  Proof.
    intros bs Hf. unfold flat_ok in Hf. rewrite forallb_forall in Hf. apply Forall_forall.
    intros b Hin. specialize (Hf b Hin). destruct (flat_binding b); [discriminate | discriminate].
  Qed.

  Lemma is_empty_false : forall x : bytes, is_empty x = false <-> x <> [].
  Proof. intros [|a l]; simpl; split; intro Hh; congruence. Qed.

  (* for every validated profile and every server of it: if the exporter produces a link, the importer returns
     exactly the part of the profile a link carries *)
  Theorem link_roundtrip : forall p s f,
    validate_profile p = 0%N -> In s (p_servers p) ->
    export_server p s = Some f ->
    simple_link (link_as_parsed itoa b64 mux_name hs_name f) = Ok (simple_view p s f).
  Proof.
    intros p s f Hv Hin He.
    (* facts from validation *)
    unfold validate_profile in Hv.
    destruct (is_empty (pname p)) eqn:En; [discriminate|].
    destruct (is_empty (uname (puser p))) eqn:Eu; [discriminate|].
    destruct (is_empty (getb (u_pw (puser p))) && is_empty (getb (u_hpw (puser p)))); [discriminate|].
    destruct (Z.ltb C20_MaxUserNameLen (blen (uname (puser p)))); [discriminate|].
    destruct (negb (is_empty (getb (u_pw (puser p)))) && Z.ltb C20_MaxPasswordLen (blen (getb (u_pw (puser p))))); [discriminate|].
    destruct (negb (is_empty_list (u_quotas (puser p)))); [discriminate|].
    destruct (is_empty_list (p_servers p)); [discriminate|].
    destruct (N.eqb (first_err server_ep_check (p_servers p)) 0) eqn:Es; cbn [negb] in Hv;
      [|rewrite Hv in Es; discriminate].
    apply N.eqb_eq in Es. apply first_err_zero in Es. rewrite Forall_forall in Es. specialize (Es s Hin).
    destruct (mtu_valid (getz (p_mtu p))) eqn:Em; cbn [negb] in Hv; [|discriminate]. clear Hv.
    unfold server_ep_check in Es.
    destruct (is_empty (se_ip s) && is_empty (se_domain s)); [discriminate|].
    destruct (negb (is_empty (se_ip s)) && negb (se_ip_ok s)); [discriminate|].
    destruct (is_empty_list (se_bindings s)) eqn:Eb; [discriminate|].
    destruct (flat_ok (se_bindings s)) eqn:Ef; cbn [negb] in Es; [|discriminate]. clear Es.
    (* the exported fields *)
    unfold export_server, export_server_with in He. rewrite En, Eu in He. cbn [orb] in He.
    destruct (is_empty (getb (u_pw (puser p)))) eqn:Epw; [discriminate|].
    destruct (if negb (is_empty (se_domain s)) then Some (se_domain s, se_domain_is_ip s)
              else if negb (is_empty (se_ip s)) then Some (se_ip s, se_ip_ok s) else None)
      as [[host isip]|] eqn:Eh; [|discriminate].
    assert (Hhost : is_empty host = false).
    { destruct (is_empty (se_domain s)) eqn:Ed; cbn [negb] in Eh.
      - destruct (is_empty (se_ip s)) eqn:Ei; cbn [negb] in Eh; [discriminate|]. inversion Eh; subst. exact Ei.
      - inversion Eh; subst. exact Ed. }
    rewrite Eb in He. inversion He; subst f. clear He.
    unfold simple_link, link_as_parsed, simple_view.
    cbn [su_url su_has_user su_user su_pw su_host su_host_is_ip su_query_ok su_profile su_mtu su_mux su_mux_val
         su_hs su_hs_val su_tp su_tp_status su_ports su_protos ul_ok ul_scheme ul_opaque
         lf_user lf_pw lf_host lf_host_is_ip lf_profile lf_mtu lf_mux lf_hs lf_tp lf_ports lf_protos negb is_empty].
    rewrite bytes_eqb_refl. cbn [negb]. rewrite Eu, Epw, Hhost, En.
    (* MTU *)
    assert (Hmtu : (if is_empty match p_mtu p with Some m => itoa m | None => [] end then Some None
                    else match atoi match p_mtu p with Some m => itoa m | None => [] end with
                         | Some m => Some (Some (to_int32 m)) | None => None end) = Some (p_mtu p)).
    { destruct (p_mtu p) as [m|]; [|reflexivity].
      unfold mtu_valid, zin in Em. cbn [getz] in Em.
      assert (Hr : (- 2 ^ 31 <= m < 2 ^ 31)%Z).
      { apply orb_true_iff in Em. destruct Em as [E0|E1].
        - apply Z.eqb_eq in E0. subst m. split; [apply Z.leb_le; reflexivity | apply Z.ltb_lt; reflexivity].
        - apply andb_true_iff in E1. destruct E1 as [A B]. apply Z.leb_le in A. apply Z.leb_le in B.
          unfold C20_MtuMin in A. unfold C20_MtuMax in B. split; [|].
          + apply Z.le_trans with 0%Z; [apply Z.leb_le; reflexivity | lia].
          + apply Z.le_lt_trans with 1500%Z; [exact B | apply Z.ltb_lt; reflexivity]. }
      pose proof (itoa_atoi m Hr) as Ha.
      destruct (itoa m) as [|c t] eqn:Ei; [cbn in Ha; discriminate|]. cbn [is_empty]. rewrite Ha.
      unfold to_int32. f_equal. f_equal.
      rewrite Z.mod_small; [lia|]. change (2 ^ 32)%Z with 4294967296%Z. change (2 ^ 31)%Z with 2147483648%Z in *. lia. }
    rewrite Hmtu.
    (* traffic pattern *)
    assert (Htp : is_empty match match p_tp p with Some t => Some (tp_raw t) | None => None end with Some raw => b64 raw | None => [] end =
                  negb match p_tp p with Some t => negb (is_empty (tp_raw t)) | None => false end).
    { destruct (p_tp p) as [t|]; [|reflexivity]. rewrite negb_involutive.
      destruct (tp_raw t) as [|x l] eqn:Er.
      - assert (Hb : b64 [] = []) by (apply b64_empty; reflexivity). rewrite Hb. reflexivity.
      - cbn [is_empty]. apply is_empty_false. intro Hb. apply (proj1 (b64_empty _)) in Hb. discriminate Hb. }
    rewrite Htp. change (N.eqb 0 1) with false. change (N.eqb 0 0) with true. rewrite !andb_false_r. cbn [negb].
    rewrite !map_length, Nat.eqb_refl. cbn [negb].
    pose proof (ports_roundtrip (se_bindings s) [] []) as Hp. cbn [length app rev] in Hp.
    change (fun x : bytes + Z => match x with inl r => r | inr n => itoa n end) with (port_text itoa).
    rewrite Hp.
    2:{ apply flat_ok_forall. exact Ef. }
    f_equal. f_equal.
    - destruct (p_mux p) as [v|]; cbn [getz is_empty]; [|reflexivity].
      destruct (mux_name v) eqn:E; [exfalso; eapply mux_name_nonempty; exact E | reflexivity].
    - destruct (p_hs p) as [v|]; cbn [getz is_empty]; [|reflexivity].
      destruct (hs_name v) eqn:E; [exfalso; eapply hs_name_nonempty; exact E | reflexivity].
    - apply negb_involutive.
  Qed.
End LinkRoundTrip.

(* the exporter of the pinned commit (range text whenever there is one) failed on a VALIDATED profile: a binding
   with both a port and a (garbage) port range is accepted by FlatPortBindings (it looks at the port) but was
   exported by its range *)
Definition ex_ambiguous_profile : profile :=
  mkProfile (Some [112]%N) (Some (mkUser (Some [117]%N) (Some [120]%N) None [] []))
            [mkEp [49]%N true [] false [mkPB (Some 2012%Z) (Some 2%Z) (Some [120]%N)]] None None None None None [].
Theorem link_roundtrip_v0_ambiguous_binding_fails :
  validate_profile ex_ambiguous_profile = 0%N /\
  exists s f, In s (p_servers ex_ambiguous_profile) /\ export_server_v0 ex_ambiguous_profile s = Some f /\
    forall itoa b64 mn hn, simple_link (link_as_parsed itoa b64 mn hn f) = Err 14.
Proof.
  split; [vm_compute; reflexivity|].
  eexists. eexists. split; [left; reflexivity|]. split; [vm_compute; reflexivity|].
  intros. vm_compute. reflexivity.
Qed.

(* and the same profile through the fixed exporter (non-vacuity of link_roundtrip) *)
Example ex_ambiguous_now_exports_port :
  exists f, export_server ex_ambiguous_profile (mkEp [49]%N true [] false [mkPB (Some 2012%Z) (Some 2%Z) (Some [120]%N)]) = Some f /\
            lf_ports f = [inr 2012%Z].
Proof. eexists. split; vm_compute; reflexivity. Qed.

(* ================================================================ operation histories *)

Definition store_clean (s : option server_cfg) : Prop :=
  match s with Some c => Forall no_plaintext (s_users c) | None => True end.
Definition out_clean (o : sout) : Prop :=
  match o with Accepted s => store_clean s | Rejected _ => True end.

Section History.
  Variable H : bytes -> bytes.

  Lemma step_rejected_noop : forall s o s' c, step H s o = (s', Rejected c) -> s' = s.
  Proof.
    intros s o s' c. destruct o as [p| | | |cfg|names]; cbn [step].
    - destruct (negb (N.eqb (validate_server_patch p) 0)); [intro E; inversion E; reflexivity|].
      destruct s as [old|]; [|intro E; inversion E; reflexivity].
      destruct (negb (N.eqb (validate_full_server (merge_server old p)) 0)); intro E; inversion E; reflexivity.
    - intro E; inversion E; reflexivity.
    - intro E; inversion E; reflexivity.
    - intro E; inversion E; reflexivity.
    - intro E; inversion E.
    - destruct s; intro E; inversion E; reflexivity.
  Qed.

  Lemma run_outs_app : forall h1 h2 s,
    run_outs H s (h1 ++ h2) =
    (fst (run_outs H (fst (run_outs H s h1)) h2), snd (run_outs H s h1) ++ snd (run_outs H (fst (run_outs H s h1)) h2)).
  Proof.
    induction h1 as [|o t IH]; intros h2 s; cbn [app run_outs fst snd].
    - destruct (run_outs H s h2); reflexivity.
    - destruct (step H s o) as [s1 x]. rewrite IH.
      destruct (run_outs H s1 t) as [sf xs]. cbn [fst snd]. reflexivity.
  Qed.

  (* a rejected operation anywhere in a history changes neither the final state nor any later output *)
  Theorem rejected_apply_is_noop : forall h1 o h2 s,
    is_rejected (snd (step H (fst (run_outs H s h1)) o)) = true ->
    fst (run_outs H s (h1 ++ o :: h2)) = fst (run_outs H s (h1 ++ h2)) /\
    exists c, snd (run_outs H s (h1 ++ o :: h2)) =
              snd (run_outs H s h1) ++ Rejected c :: snd (run_outs H (fst (run_outs H s h1)) h2) /\
              snd (run_outs H s (h1 ++ h2)) =
              snd (run_outs H s h1) ++ snd (run_outs H (fst (run_outs H s h1)) h2).
  Proof.
    intros h1 o h2 s Hr. rewrite !run_outs_app. cbn [fst snd run_outs].
    destruct (step H (fst (run_outs H s h1)) o) as [s1 x] eqn:E. cbn [snd] in Hr.
    destruct x as [obs|c]; [discriminate|].
    pose proof (step_rejected_noop _ _ _ _ E) as Hs. subst s1.
    destruct (run_outs H (fst (run_outs H s h1)) h2) as [sf xs]. cbn [fst snd].
    split; [reflexivity|]. exists c. split; reflexivity.
  Qed.

  (* a read returns what is stored and stores nothing; after a write that reported w, a read returns w *)
  Theorem load_returns_stored : forall s o,
    let s' := fst (step H s o) in
    step H s' OpLoad = (s', match s' with Some c => Accepted (Some c) | None => Rejected 101 end) /\
    step H s' OpGetJSON = step H s' OpLoad /\
    (forall w, snd (step H s o) = Accepted w -> s' = w) /\
    (match o with OpLoad | OpGetJSON => s' = s | _ => True end).
  Proof.
    intros s o. cbn zeta. repeat split.
    - intros w. destruct o as [p| | | |cfg|names]; cbn [step].
      + destruct (negb (N.eqb (validate_server_patch p) 0)); cbn [snd]; [discriminate|].
        destruct s as [old|]; cbn [snd]; [|discriminate].
        destruct (negb (N.eqb (validate_full_server (merge_server old p)) 0)); cbn [fst snd]; [discriminate|].
        intro E; inversion E; reflexivity.
      + cbn [snd]. discriminate.
      + destruct s; cbn [fst snd]; [intro E; inversion E; reflexivity | discriminate].
      + destruct s; cbn [fst snd]; [intro E; inversion E; reflexivity | discriminate].
      + cbn [fst snd]. intro E; inversion E; reflexivity.
      + destruct s; cbn [fst snd]; [intro E; inversion E; reflexivity | discriminate].
    - destruct o; exact I || reflexivity.
  Qed.

  Lemma step_clean : forall s o, store_clean s ->
    store_clean (fst (step H s o)) /\ out_clean (snd (step H s o)).
  Proof.
    intros s o Hc. destruct o as [p| | | |cfg|names]; cbn [step].
    - destruct (negb (N.eqb (validate_server_patch p) 0)); cbn [fst snd]; [split; [exact Hc | exact I]|].
      destruct s as [old|]; cbn [fst snd]; [|split; exact I].
      destruct (negb (N.eqb (validate_full_server (merge_server old p)) 0)); cbn [fst snd]; [split; [exact Hc | exact I]|].
      split; cbn [store_clean out_clean]; apply hash_users_no_plaintext.
    - split; [exact Hc | exact I].
    - destruct s; cbn [fst snd]; split; try exact Hc; exact I.
    - destruct s; cbn [fst snd]; split; try exact Hc; exact I.
    - cbn [fst snd]. split; cbn [store_clean out_clean]; apply hash_users_no_plaintext.
    - destruct s; cbn [fst snd]; [|split; exact I].
      split; cbn [store_clean out_clean]; apply hash_users_no_plaintext.
  Qed.

  (* over any history starting from no file (or a clean file): neither the file nor anything returned ever holds a
     plaintext password *)
  Theorem history_no_plaintext : forall h s, store_clean s ->
    store_clean (fst (run_outs H s h)) /\ Forall out_clean (snd (run_outs H s h)).
  Proof.
    induction h as [|o t IH]; intros s Hc; cbn [run_outs].
    - split; [exact Hc | constructor].
    - destruct (step_clean s o Hc) as [H1 H2]. destruct (step H s o) as [s1 x]. cbn [fst snd] in *.
      destruct (IH s1 H1) as [H3 H4]. destruct (run_outs H s1 t) as [sf xs]. cbn [fst snd] in *.
      split; [exact H3 | constructor; assumption].
  Qed.
End History.

(* non-vacuity: users-only patch on a stored empty configuration is rejected (no port binding) *)
Definition ex_empty_server : server_cfg := mkServer None [] None None None None None None.
Definition ex_users_patch : server_cfg := mkServer None [ex_user [97]%N [112; 119]%N] None None None None None None.
Example ex_rejected_history :
  run_outs toy_hash None [OpStore ex_empty_server; OpApply ex_users_patch; OpLoad] =
  (Some ex_empty_server, [Accepted (Some ex_empty_server); Rejected 10; Accepted (Some ex_empty_server)]).
Proof. vm_compute. reflexivity. Qed.

(* ================================================================ validated names fit the user hint *)

Lemma firstn_all_le : forall (A : Type) (l : list A) n, (length l <= n)%nat -> firstn n l = l.
Proof. intros A l n Hl. apply firstn_all2. exact Hl. Qed.

Lemma name_fits_hint : forall name prefix,
  is_empty name = false -> Z.ltb C20_MaxUserNameLen (blen name) = false ->
  blen prefix = NoncePrefixLenForUserHint ->
  hint_input name prefix = Ok (name ++ prefix).
Proof.
  intros name prefix Hne Hlen Hp. unfold hint_input.
  assert (Hz : Z.eqb (blen name) 0 = false).
  { apply Z.eqb_neq. unfold blen. destruct name; [discriminate|]. simpl length. lia. }
  rewrite Hz, Hlen. f_equal. apply firstn_all_le.
  apply Z.ltb_ge in Hlen. unfold blen in *. rewrite app_length.
  assert (0 <= C20_MaxUserNameLen + NoncePrefixLenForUserHint)%Z by (unfold C20_MaxUserNameLen, NoncePrefixLenForUserHint; lia).
  lia.
Qed.

(* a validated server user / client profile has a name of 1..MaxUserNameLen BYTES (model strings are byte lists):
   the hint computation does not panic and hashes the whole name *)
Theorem validated_name_fits_hint : forall prefix, blen prefix = NoncePrefixLenForUserHint ->
  (forall u, validate_user u = 0%N -> hint_input (uname u) prefix = Ok (uname u ++ prefix)) /\
  (forall p, validate_profile p = 0%N -> hint_input (uname (puser p)) prefix = Ok (uname (puser p) ++ prefix)).
Proof.
  intros prefix Hp. split.
  - intros u Hv. unfold validate_user in Hv.
    destruct (is_empty (uname u)) eqn:E1; [discriminate|].
    destruct (is_empty (getb (u_pw u)) && is_empty (getb (u_hpw u))); [discriminate|].
    destruct (Z.ltb C20_MaxUserNameLen (blen (uname u))) eqn:E2; [discriminate|].
    apply name_fits_hint; assumption.
  - intros p Hv. unfold validate_profile in Hv.
    destruct (is_empty (pname p)); [discriminate|].
    destruct (is_empty (uname (puser p))) eqn:E1; [discriminate|].
    destruct (is_empty (getb (u_pw (puser p))) && is_empty (getb (u_hpw (puser p)))); [discriminate|].
    destruct (Z.ltb C20_MaxUserNameLen (blen (uname (puser p)))) eqn:E2; [discriminate|].
    apply name_fits_hint; assumption.
Qed.

(* 30 three-byte characters: 30 runes, 90 bytes -- rejected by the validator, would panic in the hint *)
Example ex_multibyte_name :
  let n := concat (repeat [230; 151; 165]%N 30) in
  validate_user (mkUser (Some n) (Some [120]%N) None [] []) = 23%N /\ hint_input n [] = Panic.
Proof. vm_compute. auto. Qed.
