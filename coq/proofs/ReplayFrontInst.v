(* C06, end-to-end half: the generic replay lemmas of proofs/ServerFrontProofs.v (stated over an abstract
   replay cache) instantiated with the concrete cache of model/Replay.v -
     rcache := Replay.cache, rc_dup := Replay.is_duplicate (tags and source addresses are both list N),
     rc0 := the cache made by new_cache with the process-wide parameters of gen/Consts,
     rc_within := non-decreasing times from t0, t1 < t0 + interval, fewer than capacity other distinct signatures -
   with the no-miss hypothesis discharged by ReplayProofs.replay_no_miss and tag_rule_true.
   What remains as hypothesis is only cands_registered (discovery tries registered keys); the ciphers are
   universally quantified functions. *)
From Coq Require Import ZArith NArith List Bool Lia.
From M Require Import gen.Consts model.Replay proofs.ReplayProofs model.ServerFront proofs.ServerFrontProofs.
Import ListNotations.
Open Scope Z_scope.

Lemma rc_final_is_final (h : list op) : forall c : cache, rc_final cache is_duplicate c h = final c h.
Proof. induction h as [|o h IH]; intros c; [reflexivity|]. cbn [rc_final final]. rewrite IH. reflexivity. Qed.

(* the side condition of the no-miss theorem, spelled out *)
Definition within (capv iv : Z) (t0 : Z) (x : N) (h2 : list op) (tq : tag) (t1 : Z) : Prop :=
  mono_from t0 (h2 ++ [(x, tq, t1)]) /\ t1 < t0 + iv /\
  Z.of_nat (length (nodup N.eq_dec (remove N.eq_dec x (map op_sig h2)))) < capv.

Lemma real_no_miss (capv iv T0 : Z) (c0 : cache) :
  new_cache capv iv T0 = Some c0 -> capv <> 0 ->
  forall (h1 : list rc_op) (x : N) (ta : addr) (t0 : Z) (h2 : list rc_op) (tq : addr) (t1 : Z),
  fst (is_duplicate (rc_final cache is_duplicate c0 h1) x ta t0) = false ->
  within capv iv t0 x h2 tq t1 ->
  ta = [] \/ tq = [] \/ ta <> tq ->
  fst (is_duplicate (rc_final cache is_duplicate c0 (h1 ++ (x, ta, t0) :: h2)) x tq t1) = true.
Proof.
  intros NC NZ h1 x ta t0 h2 tq t1 F [M [T C]] R.
  rewrite rc_final_is_final in F. rewrite rc_final_is_final.
  pose proof (replay_no_miss capv iv T0 c0 h1 x ta t0 h2 tq t1 NC NZ F M T C) as Q.
  transitivity (tag_rule ta tq); [exact Q | apply tag_rule_true; exact R].
Qed.

Lemma stream_cap_nonzero : streamReplayCapacity <> 0.
Proof. pose proof process_caches_enabled. lia. Qed.
Lemma packet_cap_nonzero : packetReplayCapacity <> 0.
Proof. pose proof process_caches_enabled. lia. Qed.

Section Inst.
  Variable key : Type.
  Variable user_of : key -> N.
  Variable open_hdr : key -> bytes -> option bytes.
  Variable open_body_tcp : key -> bytes -> bytes -> option bytes.
  Variable open_body_udp : key -> bytes -> bytes -> option bytes.
  Variable le_ok : bytes -> bool.
  Variable le_decode : bytes -> bytes -> option bytes.
  Variable cands : bytes -> addr -> list key.
  Variable sig_of : bytes -> N.
  Variable keys : list key.
  Hypothesis cands_registered : forall h src k, In k (cands h src) -> In k keys.

  Lemma c06_replay_rejected_tcp_real (T0 : Z) (c0 : cache)
        (key' : Type) oh ob lo ld (cd : bytes -> addr -> list key')
        (h1 : list op) (src0 : addr) (input0 : bytes) (t0 : Z)
        (h2 : list op) (src1 : addr) (input1 : bytes) (t1 : Z) :
    new_cache streamReplayCapacity streamReplayInterval_ns T0 = Some c0 ->
    t_created (fst (tcp_front key open_hdr open_body_tcp le_ok le_decode cands sig_of cache is_duplicate
                              (final c0 h1) src0 input0 t0)) <> [] ->
    firstn hdr_len input1 = firstn hdr_len input0 ->
    let x := sig_of (firstn sig_len (firstn hdr_len input0)) in
    mono_from t0 (h2 ++ [(x, [], t1)]) ->
    t1 < t0 + streamReplayInterval_ns ->
    Z.of_nat (length (nodup N.eq_dec (remove N.eq_dec x (map op_sig h2)))) < streamReplayCapacity ->
    let r := fst (tcp_front key' oh ob lo ld cd sig_of cache is_duplicate
                            (final c0 (h1 ++ (x, [], t0) :: h2)) src1 input1 t1) in
    t_out r = [] /\ t_created r = [] /\ t_app r = [] /\ t_verdict r = V_replay.
  Proof.
    intros NC ACC SAME x M T C.
    rewrite <- rc_final_is_final in ACC. rewrite <- rc_final_is_final.
    apply (c06_replay_rejected_tcp key open_hdr open_body_tcp le_ok le_decode cands sig_of cache is_duplicate keys
             cands_registered c0 (within streamReplayCapacity streamReplayInterval_ns)
             (real_no_miss _ _ T0 c0 NC stream_cap_nonzero)
             key' oh ob lo ld cd h1 src0 input0 t0 h2 src1 input1 t1 ACC SAME).
    unfold within. auto.
  Qed.

  Lemma c06_replay_rejected_udp_real (T0 : Z) (c0 : cache)
        (key' : Type) uo oh ob lo ld (cd : bytes -> addr -> list key')
        (h1 : list op) (ss0 : list (usession key)) (d : bytes) (srcA : addr) (t0 : Z)
        (h2 : list op) (ss1 : list (usession key')) (srcB : addr) (t1 : Z) :
    new_cache packetReplayCapacity packetReplayInterval_ns T0 = Some c0 ->
    (let r0 := fst (udp_front key user_of open_hdr open_body_udp le_ok le_decode cands sig_of cache is_duplicate
                              (mkU key cache (final c0 h1) ss0) d srcA t0) in
     u_created r0 <> [] \/ u_delivered r0 <> [] \/ u_out r0 <> []) ->
    srcB <> srcA ->
    let x := sig_of (firstn sig_len (firstn hdr_len d)) in
    mono_from t0 (h2 ++ [(x, srcB, t1)]) ->
    t1 < t0 + packetReplayInterval_ns ->
    Z.of_nat (length (nodup N.eq_dec (remove N.eq_dec x (map op_sig h2)))) < packetReplayCapacity ->
    let st1 := mkU key' cache (final c0 (h1 ++ (x, srcA, t0) :: h2)) ss1 in
    let r := udp_front key' uo oh ob lo ld cd sig_of cache is_duplicate st1 d srcB t1 in
    u_out (fst r) = [] /\ u_created (fst r) = [] /\ u_delivered (fst r) = [] /\
    u_sessions (snd r) = ss1 /\
    (u_verdict (fst r) = V_replay_drop \/ u_verdict (fst r) = V_undecryptable).
  Proof.
    intros NC ACC NE x M T C.
    rewrite <- rc_final_is_final in ACC. rewrite <- rc_final_is_final.
    apply (c06_replay_rejected_udp key user_of open_hdr open_body_udp le_ok le_decode cands sig_of cache is_duplicate
             c0 (within packetReplayCapacity packetReplayInterval_ns)
             (real_no_miss _ _ T0 c0 NC packet_cap_nonzero)
             key' uo oh ob lo ld cd h1 ss0 d srcA t0 h2 ss1 srcB t1 ACC NE).
    unfold within. auto.
  Qed.
End Inst.

(* ---- histories interleaved with management reloads (Mux.SetServerUsers) ----
   The server state is (users generation, replay cache) (model/Replay.v [server]); the front door reads both:
   discovery tries the keys of the CURRENT generation ([cands_of g]), the replay test uses the cache.  A reload
   replaces the generation and leaves the cache alone, so a copy of a first segment accepted under generation gA
   is refused under whatever generation is current at t1 - same users, users added or removed, quotas changed,
   any number of reloads at any position between acceptance and replay. *)
Section Reloads.
  Variable key : Type.
  Variable user_of : key -> N.
  Variable open_hdr : key -> bytes -> option bytes.
  Variable open_body_tcp : key -> bytes -> bytes -> option bytes.
  Variable open_body_udp : key -> bytes -> bytes -> option bytes.
  Variable le_ok : bytes -> bool.
  Variable le_decode : bytes -> bytes -> option bytes.
  Variable sig_of : bytes -> N.
  Variable cands_of : N -> bytes -> addr -> list key.      (* discovery under users generation g *)
  Variable keys_of : N -> list key.                        (* the keys registered in generation g *)
  Hypothesis cands_registered : forall g h src k, In k (cands_of g h src) -> In k (keys_of g).

  Definition tcp_front_at (s : server) :=
    tcp_front key open_hdr open_body_tcp le_ok le_decode (cands_of (s_users s)) sig_of cache is_duplicate (s_rc s).
  Definition udp_front_at (s : server) (ss : list (usession key)) :=
    udp_front key user_of open_hdr open_body_udp le_ok le_decode (cands_of (s_users s)) sig_of cache is_duplicate
              (mkU key cache (s_rc s) ss).

  Lemma c06_replay_rejected_tcp_across_reload (T0 : Z) (c0 : cache) (g0 : N)
        (hs1 : list sop) (src0 : addr) (input0 : bytes) (t0 : Z)
        (hs2 : list sop) (src1 : addr) (input1 : bytes) (t1 : Z) :
    new_cache streamReplayCapacity streamReplayInterval_ns T0 = Some c0 ->
    let s0 := mkServer g0 c0 in
    t_created (fst (tcp_front_at (sfinal s0 hs1) src0 input0 t0)) <> [] ->
    firstn hdr_len input1 = firstn hdr_len input0 ->
    let x := sig_of (firstn sig_len (firstn hdr_len input0)) in
    mono_from t0 (presents hs2 ++ [(x, [], t1)]) ->
    t1 < t0 + streamReplayInterval_ns ->
    Z.of_nat (length (nodup N.eq_dec (remove N.eq_dec x (map op_sig (presents hs2))))) < streamReplayCapacity ->
    let r := fst (tcp_front_at (sfinal s0 (hs1 ++ Present (x, [], t0) :: hs2)) src1 input1 t1) in
    t_out r = [] /\ t_created r = [] /\ t_app r = [] /\ t_verdict r = V_replay.
  Proof.
    intros NC s0 ACC SAME x M T C. unfold tcp_front_at in *.
    rewrite sfinal_cache in ACC. rewrite sfinal_cache. subst s0. cbn [s_rc] in *.
    rewrite presents_app. cbn [presents].
    exact (c06_replay_rejected_tcp_real key open_hdr open_body_tcp le_ok le_decode
             (cands_of (s_users (sfinal (mkServer g0 c0) hs1))) sig_of
             (keys_of (s_users (sfinal (mkServer g0 c0) hs1))) (cands_registered _)
             T0 c0 key open_hdr open_body_tcp le_ok le_decode
             (cands_of (s_users (sfinal (mkServer g0 c0) (hs1 ++ Present (x, [], t0) :: hs2))))
             (presents hs1) src0 input0 t0 (presents hs2) src1 input1 t1 NC ACC SAME M T C).
  Qed.

  Lemma c06_replay_rejected_udp_across_reload (T0 : Z) (c0 : cache) (g0 : N)
        (hs1 : list sop) (ss0 : list (usession key)) (d : bytes) (srcA : addr) (t0 : Z)
        (hs2 : list sop) (ss1 : list (usession key)) (srcB : addr) (t1 : Z) :
    new_cache packetReplayCapacity packetReplayInterval_ns T0 = Some c0 ->
    let s0 := mkServer g0 c0 in
    (let r0 := fst (udp_front_at (sfinal s0 hs1) ss0 d srcA t0) in
     u_created r0 <> [] \/ u_delivered r0 <> [] \/ u_out r0 <> []) ->
    srcB <> srcA ->
    let x := sig_of (firstn sig_len (firstn hdr_len d)) in
    mono_from t0 (presents hs2 ++ [(x, srcB, t1)]) ->
    t1 < t0 + packetReplayInterval_ns ->
    Z.of_nat (length (nodup N.eq_dec (remove N.eq_dec x (map op_sig (presents hs2))))) < packetReplayCapacity ->
    let r := udp_front_at (sfinal s0 (hs1 ++ Present (x, srcA, t0) :: hs2)) ss1 d srcB t1 in
    u_out (fst r) = [] /\ u_created (fst r) = [] /\ u_delivered (fst r) = [] /\
    u_sessions (snd r) = ss1 /\
    (u_verdict (fst r) = V_replay_drop \/ u_verdict (fst r) = V_undecryptable).
  Proof.
    intros NC s0 ACC NE x M T C. unfold udp_front_at in *.
    rewrite sfinal_cache in ACC. rewrite sfinal_cache. subst s0. cbn [s_rc] in *.
    rewrite presents_app. cbn [presents].
    exact (c06_replay_rejected_udp_real key user_of open_hdr open_body_udp le_ok le_decode
             (cands_of (s_users (sfinal (mkServer g0 c0) hs1))) sig_of
             T0 c0 key user_of open_hdr open_body_udp le_ok le_decode
             (cands_of (s_users (sfinal (mkServer g0 c0) (hs1 ++ Present (x, srcA, t0) :: hs2))))
             (presents hs1) ss0 d srcA t0 (presents hs2) ss1 srcB t1 NC ACC NE M T C).
  Qed.
End Reloads.

(* non-vacuity: the process-wide parameters do construct a cache *)
Example ex_new_caches :
  (exists c, new_cache streamReplayCapacity streamReplayInterval_ns 0 = Some c) /\
  (exists c, new_cache packetReplayCapacity packetReplayInterval_ns 0 = Some c).
Proof. split; eexists; reflexivity. Qed.
