(* C01 - proofs about model/TcpStream.v *)
From Coq Require Import List NArith ZArith Bool Arith Lia.
From Coq Require Import ZifyN ZifyNat ZifyBool.
From M Require Import gen.Consts model.TcpStream.
Import ListNotations.
Open Scope N_scope.

(* ------------------------------------------------------------------ take *)
Lemma take_app_exact : forall (a b : list N), take (length a) (a ++ b) = Some (a, b).
Proof. induction a as [|x a IH]; intros b; cbn [take length app]; [reflexivity|]. rewrite IH. reflexivity. Qed.

Lemma take_some_app : forall n l a b e, take n l = Some (a, b) -> take n (l ++ e) = Some (a, b ++ e).
Proof.
  induction n as [|n IH]; intros l a b e H; cbn [take] in *.
  - inversion H; subst. reflexivity.
  - destruct l as [|x t]; [discriminate|]. cbn [app].
    destruct (take n t) as [[a' b']|] eqn:E; [|discriminate]. inversion H; subst.
    rewrite (IH _ _ _ e E). reflexivity.
Qed.

Lemma take_some_split : forall n l a b, take n l = Some (a, b) -> l = a ++ b /\ length a = n.
Proof.
  induction n as [|n IH]; intros l a b H; cbn [take] in *.
  - inversion H; subst. split; reflexivity.
  - destruct l as [|x t]; [discriminate|].
    destruct (take n t) as [[a' b']|] eqn:E; [|discriminate]. inversion H; subst.
    destruct (IH _ _ _ E) as [-> <-]. split; reflexivity.
Qed.

Lemma take_none_short : forall n l, take n l = None -> (length l < n)%nat.
Proof.
  induction n as [|n IH]; intros l H; cbn [take] in *; [discriminate|].
  destruct l as [|x t]; cbn [length]; [lia|].
  destruct (take n t) as [[a' b']|] eqn:E; [discriminate|]. specialize (IH _ E). lia.
Qed.

Lemma take_O : forall l, take O l = Some ([], l).
Proof. reflexivity. Qed.

Lemma firstn_app_exact {A} n (l1 l2 : list A) : length l1 = n -> firstn n (l1 ++ l2) = l1.
Proof. intros <-. rewrite firstn_app, Nat.sub_diag, firstn_all. cbn. apply app_nil_r. Qed.
Lemma skipn_app_exact {A} n (l1 l2 : list A) : length l1 = n -> skipn n (l1 ++ l2) = l2.
Proof. intros <-. rewrite skipn_app, Nat.sub_diag, skipn_all. reflexivity. Qed.

Lemma lenN_nat {A} (l : list A) : N.to_nat (lenN l) = length l.
Proof. unfold lenN. apply Nat2N.id. Qed.

Lemma is_nil_true {A} (l : list A) : is_nil l = true <-> l = [].
Proof. destruct l; cbn; split; congruence. Qed.

Lemma tagLen_16 : tagLen = 16%nat. Proof. reflexivity. Qed.
Lemma metaLen_32 : metaLen = 32%nat. Proof. reflexivity. Qed.
Lemma nonceLen_24 : nonceLen = 24%nat. Proof. reflexivity. Qed.
Lemma maxPDU_pos : (0 < maxPDU)%nat. Proof. unfold maxPDU, C01_maxPDU. lia. Qed.

(* ------------------------------------------------------------------ the receiver *)
Section StreamProofs.
  Variable open : list N -> list N -> option (list N).
  Variable parse_meta : list N -> option minfo.
  Variable le_decode : leparams -> N -> list N -> option (list N).

  Notation parse1 := (parse1 open parse_meta le_decode).
  Notation drain := (drain open parse_meta le_decode).
  Notation feed := (feed open parse_meta le_decode).
  Notation feed_all := (feed_all open parse_meta le_decode).

  Ltac crunch H e :=
    repeat match type of H with
    | context [match take ?n ?l with _ => _ end] =>
        let E := fresh "E" in
        destruct (take n l) as [[? ?]|] eqn:E;
        [ rewrite (take_some_app _ _ _ _ e E); cbv beta iota | discriminate H ]
    | context [match ?x with _ => _ end] => destruct x eqn:?; try discriminate H
    | context [if ?x then _ else _] => destruct x eqn:?; try discriminate H
    end.

  Lemma parse1_got_app : forall nx buf e s n' rest,
    parse1 nx buf = Got s n' rest -> parse1 nx (buf ++ e) = Got s n' (rest ++ e).
  Proof.
    intros nx buf e s n' rest H. unfold TcpStream.parse1 in *. cbv zeta in *.
    crunch H e; inversion H; subst; reflexivity.
  Qed.

  Lemma parse1_bad_app : forall nx buf e, parse1 nx buf = Bad -> parse1 nx (buf ++ e) = Bad.
  Proof.
    intros nx buf e H. unfold TcpStream.parse1 in *. cbv zeta in *.
    crunch H e; reflexivity.
  Qed.

  Lemma parse1_got_shorter : forall nx buf s n' rest,
    parse1 nx buf = Got s n' rest -> (length rest < length buf)%nat.
  Proof.
    intros nx buf s n' rest H. unfold TcpStream.parse1 in H. cbv zeta in H.
    repeat match type of H with
    | context [match take ?n ?l with _ => _ end] =>
        let E := fresh "E" in
        destruct (take n l) as [[? ?]|] eqn:E; [ apply take_some_split in E; destruct E as [? ?] | discriminate H ]
    | context [match ?x with _ => _ end] => destruct x eqn:?; try discriminate H
    | context [if ?x then _ else _] => destruct x eqn:?; try discriminate H
    end; inversion H; subst; repeat rewrite app_length in *;
    rewrite metaLen_32, tagLen_16 in *; lia.
  Qed.

  Lemma drain_fuel : forall f1 f2 nx buf, (length buf < f1)%nat -> (length buf < f2)%nat ->
    drain f1 nx buf = drain f2 nx buf.
  Proof.
    induction f1 as [|f1 IH]; intros f2 nx buf H1 H2; [lia|].
    destruct f2 as [|f2]; [lia|]. cbn [TcpStream.drain].
    destruct (parse1 nx buf) as [| |s n' rest] eqn:P; try reflexivity.
    apply parse1_got_shorter in P. rewrite (IH f2); [reflexivity| lia | lia].
  Qed.

  Lemma drain_app : forall f f1 nx buf e l1 st1,
    (length buf + length e < f)%nat -> (length buf < f1)%nat ->
    drain f1 nx buf = (l1, st1) ->
    (r_failed st1 = true -> drain f nx (buf ++ e) = (l1, st1)) /\
    (r_failed st1 = false -> forall f2, (length (r_buf st1) + length e < f2)%nat ->
       forall l2 st2, drain f2 (r_next st1) (r_buf st1 ++ e) = (l2, st2) ->
       drain f nx (buf ++ e) = (l1 ++ l2, st2)).
  Proof.
    induction f as [|f IH]; intros f1 nx buf e l1 st1 Hf Hf1 D; [lia|].
    destruct f1 as [|f1]; [lia|]. cbn [TcpStream.drain] in D |- *.
    destruct (parse1 nx buf) as [| |s n' rest] eqn:P.
    - inversion D; subst. cbn [r_failed r_buf r_next]. split; [discriminate|].
      intros _ f2 Hf2 l2 st2 D2. cbn [app].
      change (drain (S f) nx (buf ++ e) = (l2, st2)). rewrite <- D2.
      apply drain_fuel; rewrite app_length; lia.
    - inversion D; subst. rewrite (parse1_bad_app _ _ e P). cbn [r_failed]. split; [reflexivity|discriminate].
    - rewrite (parse1_got_app _ _ e _ _ _ P).
      pose proof (parse1_got_shorter _ _ _ _ _ P) as Hs.
      destruct (drain f1 (Some n') rest) as [l st] eqn:D1. inversion D; subst.
      destruct (IH f1 (Some n') rest e l st1) as [A B]; [lia|lia|exact D1|].
      split.
      + intros Hfail. rewrite (A Hfail). reflexivity.
      + intros Hok f2 Hf2 l2 st2 D2. rewrite (B Hok f2 Hf2 l2 st2 D2). reflexivity.
  Qed.

  (* chunking independence *)
  Theorem feed_app : forall st a b,
    feed st (a ++ b) =
    let (l1, st1) := feed st a in let (l2, st2) := feed st1 b in (l1 ++ l2, st2).
  Proof.
    intros st a b. unfold TcpStream.feed.
    destruct (r_failed st) eqn:F.
    - rewrite F. reflexivity.
    - rewrite app_assoc.
      destruct (drain (S (length (r_buf st ++ a))) (r_next st) (r_buf st ++ a)) as [l1 st1] eqn:D1.
      assert (H1 : (length (r_buf st ++ a) + length b < S (length ((r_buf st ++ a) ++ b)))%nat)
        by (rewrite (app_length (r_buf st ++ a) b); lia).
      assert (H2 : (length (r_buf st ++ a) < S (length (r_buf st ++ a)))%nat) by lia.
      destruct (drain_app _ _ _ _ b _ _ H1 H2 D1) as [A B].
      destruct (r_failed st1) eqn:F1.
      + rewrite (A eq_refl). rewrite app_nil_r. reflexivity.
      + destruct (drain (S (length (r_buf st1 ++ b))) (r_next st1) (r_buf st1 ++ b)) as [l2 st2] eqn:D2.
        assert (H3 : (length (r_buf st1) + length b < S (length (r_buf st1 ++ b)))%nat)
          by (rewrite app_length; lia).
        apply (B eq_refl _ H3 _ _ D2).
  Qed.

  (* after a failure nothing is ever delivered *)
  Lemma feed_failed : forall st x, r_failed st = true -> feed st x = ([], st).
  Proof. intros st x H. unfold TcpStream.feed. rewrite H. reflexivity. Qed.

End StreamProofs.

(* ================================================================== *)
Section RoundTrip.
  Variable seal : list N -> list N -> list N.
  Variable open : list N -> list N -> option (list N).
  Variable marshal_meta : minfo -> list N.
  Variable parse_meta : list N -> option minfo.
  Variable le_len : leparams -> N -> N.
  Variable le_encode : leparams -> bool -> list N -> list N.
  Variable le_decode : leparams -> N -> list N -> option (list N).
  Variable meta_ok : minfo -> bool.
  Variable le_ok : leparams -> N -> bool.   (* parameters and plaintext length *)

  Hypothesis seal_len : forall n p, length (seal n p) = (length p + tagLen)%nat.
  Hypothesis open_seal : forall n p, open n (seal n p) = Some p.
  Hypothesis marshal_len : forall m, meta_ok m = true -> length (marshal_meta m) = metaLen.
  Hypothesis parse_marshal : forall m, meta_ok m = true -> parse_meta (marshal_meta m) = Some m.
  (* the low entropy codec is only ever applied to the ciphertext body of a sealed payload *)
  Hypothesis le_encode_len : forall lp pb n p, le_ok lp (lenN p) = true ->
    length (le_encode lp pb (firstn (length p) (seal n p))) = N.to_nat (le_len lp (lenN p)).
  Hypothesis le_round : forall lp pb n p, le_ok lp (lenN p) = true ->
    le_decode lp (lenN p) (le_encode lp pb (firstn (length p) (seal n p))) = Some (firstn (length p) (seal n p)).

  Notation parse1 := (parse1 open parse_meta le_decode).
  Notation drain := (drain open parse_meta le_decode).
  Notation feed := (feed open parse_meta le_decode).
  Notation serialize1 := (serialize1 seal marshal_meta le_len le_encode).
  Notation serialize := (serialize seal marshal_meta le_len le_encode).
  Notation fill_meta := (fill_meta le_len).
  Notation deliver := (deliver le_len).

  (* a segment the sender may emit: its marshalled metadata is well formed, paddings fit their
     one byte length fields (inside meta_ok), a body is present iff payloadLen > 0, and low
     entropy parameters are valid *)
  Definition seg_ok (s : segment) : Prop :=
    meta_ok (fill_meta s) = true /\
    ((mi_plen (fill_meta s) =? 0) = is_nil (s_payload s)) /\
    (is_le (mi_proto (s_meta s)) = true -> is_nil (s_payload s) = false ->
       le_ok (mi_le (s_meta s)) (lenN (s_payload s)) = true).

  Lemma fill_proto (s : segment) : mi_proto (fill_meta s) = mi_proto (s_meta s). Proof. reflexivity. Qed.
  Lemma fill_le (s : segment) : mi_le (fill_meta s) = mi_le (s_meta s). Proof. reflexivity. Qed.

  Lemma parse1_serialize1 : forall (sent : bool) n s rest,
    seg_ok s -> length n = nonceLen ->
    parse1 (if sent then Some n else None) (fst (serialize1 sent n s) ++ rest) =
    Got (deliver s) (snd (serialize1 sent n s)) rest.
  Proof.
    intros sent n s rest [Hm [Hb Hle]] Hn.
    unfold TcpStream.parse1, TcpStream.serialize1. cbv zeta.
    set (mi := fill_meta s) in *.
    assert (Hpre : (if is_session (mi_proto mi) then 0%nat else N.to_nat (mi_pre mi)) = length (eff_pad1 s)).
    { unfold mi. rewrite fill_proto. unfold eff_pad1. destruct (is_session (mi_proto (s_meta s))) eqn:Es.
      - reflexivity.
      - cbn [TcpStream.fill_meta mi_pre]. unfold eff_pad1. rewrite Es. apply lenN_nat. }
    assert (Hsuf : N.to_nat (mi_suf mi) = length (s_pad2 s)) by (unfold mi; cbn [TcpStream.fill_meta mi_suf]; apply lenN_nat).
    assert (Hmb : length (seal n (marshal_meta mi)) = (metaLen + tagLen)%nat) by (rewrite seal_len, (marshal_len _ Hm); reflexivity).
    (* header *)
    assert (Hhdr : forall tail,
      take (if sent then 0%nat else nonceLen) ((if sent then [] else n) ++ tail) = Some ((if sent then [] else n), tail)).
    { intros tail. destruct sent; [reflexivity|]. rewrite <- Hn. apply take_app_exact. }
    destruct (is_nil (s_payload s)) eqn:Enil.
    - cbn [fst snd]. rewrite <- !app_assoc.
      replace (match (if sent then Some n else None) with Some _ => 0%nat | None => nonceLen end)
        with (if sent then 0%nat else nonceLen) by (destruct sent; reflexivity).
      rewrite Hhdr. cbv beta iota.
      replace (match (if sent then Some n else None) with Some n0 => n0 | None => if sent then [] else n end) with n
        by (destruct sent; reflexivity).
      rewrite <- Hmb, take_app_exact, open_seal, (parse_marshal _ Hm). cbv beta iota.
      rewrite Hpre, take_app_exact. rewrite Hb. rewrite Hsuf, take_app_exact.
      unfold TcpStream.deliver. apply is_nil_true in Enil. rewrite Enil. reflexivity.
    - cbn [fst snd]. rewrite <- !app_assoc.
      replace (match (if sent then Some n else None) with Some _ => 0%nat | None => nonceLen end)
        with (if sent then 0%nat else nonceLen) by (destruct sent; reflexivity).
      rewrite Hhdr. cbv beta iota.
      replace (match (if sent then Some n else None) with Some n0 => n0 | None => if sent then [] else n end) with n
        by (destruct sent; reflexivity).
      rewrite <- Hmb, take_app_exact, open_seal, (parse_marshal _ Hm). cbv beta iota.
      rewrite Hpre, take_app_exact. rewrite Hb.
      set (pl := s_payload s) in *. set (box := seal (nonce_inc n) pl).
      assert (Hbox : length box = (length pl + tagLen)%nat) by apply seal_len.
      assert (Hct : length (firstn (length pl) box) = length pl) by (rewrite firstn_length; lia).
      change (mi_proto mi) with (mi_proto (s_meta s)).
      destruct (is_le (mi_proto (s_meta s))) eqn:Ele.
      + specialize (Hle eq_refl eq_refl).
        change (mi_le mi) with (mi_le (s_meta s)).
        set (lp := mi_le (s_meta s)) in *.
        set (ct := firstn (length pl) box) in *.
        set (tg := skipn (length pl) box).
        set (enc := le_encode lp (s_pb s) ct).
        assert (Hpl : N.to_nat (mi_plen mi) = length enc).
        { unfold mi. cbn [TcpStream.fill_meta mi_plen]. rewrite Ele. symmetry.
          apply (le_encode_len lp (s_pb s) (nonce_inc n) pl Hle). }
        assert (Hbody : (N.to_nat (mi_plen mi) + tagLen)%nat = length (enc ++ tg)).
        { rewrite app_length. unfold tg. rewrite skipn_length, <- Hpl. lia. }
        rewrite Hbody, take_app_exact. cbv beta iota.
        rewrite Hpl, (firstn_app_exact _ enc tg eq_refl), (skipn_app_exact _ enc tg eq_refl).
        assert (He : mi_elen mi = lenN pl).
        { unfold mi. cbn [TcpStream.fill_meta mi_elen]. rewrite Ele. reflexivity. }
        assert (R : le_decode lp (lenN pl) enc = Some ct) by (apply (le_round lp (s_pb s) (nonce_inc n) pl Hle)).
        rewrite He, R.
        unfold ct, tg. rewrite firstn_skipn. unfold box. rewrite open_seal.
        rewrite Hsuf, take_app_exact. reflexivity.
      + assert (Hpl : (N.to_nat (mi_plen mi) + tagLen)%nat = length box).
        { unfold mi. cbn [TcpStream.fill_meta mi_plen]. rewrite Ele, lenN_nat, Hbox. reflexivity. }
        rewrite Hpl, take_app_exact. unfold box. rewrite open_seal.
        rewrite Hsuf, take_app_exact. reflexivity.
  Qed.

  Fixpoint ser_next (sent : bool) (n : list N) (l : list segment) : option (list N) :=
    match l with
    | [] => if sent then Some n else None
    | s :: t => ser_next true (snd (serialize1 sent n s)) t
    end.

  Lemma inc_le_len : forall l, length (inc_le l) = length l.
  Proof. induction l as [|b t IH]; cbn [inc_le]; [reflexivity|]. destruct (b + 1 <? 256); cbn [length]; congruence. Qed.
  Lemma nonce_inc_len : forall n, length (nonce_inc n) = length n.
  Proof. intros n. unfold nonce_inc. rewrite rev_length, inc_le_len, rev_length. reflexivity. Qed.
  Lemma serialize1_next_len : forall sent n s, length (snd (serialize1 sent n s)) = length n.
  Proof.
    intros sent n s. unfold TcpStream.serialize1. cbv zeta. destruct (is_nil (s_payload s)); cbn [snd];
    rewrite ?nonce_inc_len; reflexivity.
  Qed.

  Lemma drain_serialize : forall segs (sent : bool) n f,
    Forall seg_ok segs -> length n = nonceLen -> (length (serialize sent n segs) < f)%nat ->
    drain f (if sent then Some n else None) (serialize sent n segs) =
    (map deliver segs, mkR [] (ser_next sent n segs) false).
  Proof.
    induction segs as [|s t IH]; intros sent n f Hok Hn Hf.
    - cbn [TcpStream.serialize map ser_next]. destruct f as [|f]; [cbn in Hf; lia|].
      cbn [TcpStream.drain]. destruct sent; reflexivity.
    - cbn [TcpStream.serialize map ser_next] in *.
      inversion Hok as [|? ? Hs Ht]; subst.
      pose proof (parse1_serialize1 sent n s (serialize true (snd (serialize1 sent n s)) t) Hs Hn) as P.
      destruct (serialize1 sent n s) as [b n'] eqn:S1. cbn [fst snd] in *.
      destruct f as [|f]; [lia|]. cbn [TcpStream.drain]. rewrite P.
      pose proof (parse1_got_shorter _ _ _ _ _ _ _ _ P) as Hsh.
      assert (Hn' : length n' = nonceLen).
      { pose proof (serialize1_next_len sent n s) as L. rewrite S1 in L. cbn [snd] in L. congruence. }
      assert (Hf' : (length (serialize true n' t) < f)%nat) by lia.
      rewrite (IH true n' f Ht Hn' Hf'). reflexivity.
  Qed.

  (* round trip of any list of valid segments *)
  Theorem feed_serialize : forall segs n, Forall seg_ok segs -> length n = nonceLen ->
    feed r_init (serialize false n segs) = (map deliver segs, mkR [] (ser_next false n segs) false).
  Proof.
    intros segs n Hok Hn. unfold TcpStream.feed. cbn [r_failed r_init r_buf r_next app].
    apply (drain_serialize segs false n); [assumption|assumption|lia].
  Qed.
End RoundTrip.

(* feeding chunk by chunk = feeding the concatenation *)
Section Chunks.
  Variable open : list N -> list N -> option (list N).
  Variable parse_meta : list N -> option minfo.
  Variable le_decode : leparams -> N -> list N -> option (list N).
  Notation feed := (feed open parse_meta le_decode).
  Notation feed_all := (feed_all open parse_meta le_decode).

  Lemma feed_all_cons : forall t c st, feed_all st (c :: t) = feed st (concat (c :: t)).
  Proof.
    induction t as [|c2 t IH]; intros c st.
    - cbn [TcpStream.feed_all concat]. rewrite app_nil_r. destruct (feed st c) as [l1 st1]. rewrite app_nil_r. reflexivity.
    - change (feed_all st (c :: c2 :: t)) with
        (let (l1, st1) := feed st c in let (l2, st2) := feed_all st1 (c2 :: t) in (l1 ++ l2, st2)).
      change (concat (c :: c2 :: t)) with (c ++ concat (c2 :: t)).
      rewrite (feed_app open parse_meta le_decode). destruct (feed st c) as [l1 st1]. rewrite IH. reflexivity.
  Qed.

  Lemma feed_all_init : forall chunks, feed_all r_init chunks = feed r_init (concat chunks).
  Proof. intros [|c t]; [reflexivity|apply feed_all_cons]. Qed.
End Chunks.

(* ------------------------------------------------------------------ Session.Write *)
Lemma seqs_from_app : forall l1 l2 n, seqs_from n (l1 ++ l2) <-> seqs_from n l1 /\ seqs_from (n + lenN l1) l2.
Proof.
  induction l1 as [|p t IH]; intros l2 n; cbn [app seqs_from].
  - unfold lenN. cbn [length]. rewrite N.add_0_r. tauto.
  - rewrite IH. unfold lenN. cbn [length]. replace (n + 1 + N.of_nat (length t)) with (n + N.of_nat (S (length t))) by lia. tauto.
Qed.

Fixpoint frag_chain (l : list pseg) : Prop :=
  match l with
  | [] => True
  | p :: t => (p_frag p = 0 \/ match t with q :: _ => p_frag p = p_frag q + 1 | [] => False end) /\ frag_chain t
  end.

Lemma frag_chain_app : forall l1 l2, frag_chain l1 -> frag_chain l2 -> frag_chain (l1 ++ l2).
Proof.
  induction l1 as [|p t IH]; intros l2 H1 H2; [exact H2|].
  cbn [app frag_chain] in *. destruct H1 as [H H1]. split; [|apply IH; assumption].
  destruct t as [|q t']; [left; tauto|exact H].
Qed.

Lemma nfrag_spec : forall fs len, (0 < fs)%nat -> (0 < len)%nat ->
  exists j, nfrag fs len = S j /\ (j * fs < len)%nat /\ (len <= fs + j * fs)%nat.
Proof.
  intros fs len Hfs Hlen. unfold nfrag. destruct (fs <? len)%nat eqn:E.
  - exists ((len - 1) / fs)%nat. split; [lia|].
    pose proof (Nat.div_mod (len - 1) fs ltac:(lia)) as D.
    pose proof (Nat.mod_upper_bound (len - 1) fs ltac:(lia)) as M.
    rewrite (Nat.mul_comm fs) in D. split; lia.
  - exists 0%nat. apply Nat.ltb_ge in E. cbn. split; [reflexivity|lia].
Qed.

Section Frags.
  Variable proto : N.
  Variable fs : nat.
  Hypothesis Hproto : is_session proto = false.
  Hypothesis Hfs : (0 < fs)%nat.
  Hypothesis Hfs2 : (fs <= maxPDU)%nat.

  Lemma plan_frags_len : forall k seq b, length (plan_frags proto fs k seq b) = k.
  Proof. induction k; intros; cbn [plan_frags length]; [reflexivity|]. rewrite IHk. reflexivity. Qed.

  Lemma plan_frags_seqs : forall k seq b, seqs_from seq (plan_frags proto fs k seq b).
  Proof. induction k; intros; cbn [plan_frags seqs_from p_seq]; [exact I|]. split; [reflexivity|apply IHk]. Qed.

  Lemma plan_frags_payload : forall k seq b, (length b <= k * fs)%nat ->
    concat (map p_payload (plan_frags proto fs k seq b)) = b.
  Proof.
    induction k as [|k IH]; intros seq b H; cbn [plan_frags map concat p_payload].
    - destruct b; [reflexivity|cbn in H; lia].
    - rewrite IH; [apply firstn_skipn|]. rewrite skipn_length. cbn [Nat.mul] in H. lia.
  Qed.

  Lemma plan_frags_ok : forall j seq b, (j * fs < length b)%nat -> (length b <= fs + j * fs)%nat ->
    Forall pseg_ok (plan_frags proto fs (S j) seq b) /\ frag_chain (plan_frags proto fs (S j) seq b) /\
    Forall (fun p => p_proto p = proto) (plan_frags proto fs (S j) seq b).
  Proof.
    induction j as [|j IH]; intros seq b H1 H2.
    - cbn [plan_frags]. split; [|split].
      + constructor; [|constructor]. split; cbn [p_proto p_payload p_frag]; intros Hs; [congruence|].
        rewrite firstn_length. lia.
      + cbn [frag_chain]. split; [left; reflexivity|exact I].
      + constructor; [reflexivity|constructor].
    - assert (E : plan_frags proto fs (S (S j)) seq b =
                  mkP proto seq (N.of_nat (S j)) (firstn fs b) :: plan_frags proto fs (S j) (seq + 1) (skipn fs b)) by reflexivity.
      rewrite E. rewrite Nat.mul_succ_l in H1, H2.
      destruct (IH (seq + 1) (skipn fs b)) as [A [B C]]; [rewrite skipn_length; lia|rewrite skipn_length; lia|].
      split; [|split].
      + constructor; [|exact A]. split; cbn [p_proto p_payload p_frag]; intros Hs; [congruence|].
        rewrite firstn_length. lia.
      + cbn [frag_chain]. split; [|exact B]. right. cbn [plan_frags p_frag]. lia.
      + constructor; [reflexivity|exact C].
  Qed.
End Frags.

(* ================================================================== *)
Definition mode_ok (mode : N) : Prop := (0 < frag_size mode)%nat.
Definition wevent_ok (e : wevent) : Prop :=
  match e with WWrite m _ => mode_ok m | WCtl p => is_session p = true end.

Lemma frag_size_le : forall mode, (frag_size mode <= maxPDU)%nat.
Proof. intros mode. unfold frag_size. destruct (mode =? 0); lia. Qed.

Lemma data_proto_not_session : forall client le, is_session (data_proto client le) = false.
Proof. intros [|] [|]; reflexivity. Qed.

Lemma plan_chunk_ok : forall client mode seq b, mode_ok mode -> (0 < length b)%nat -> (length b <= maxPDU)%nat ->
  let c := plan_chunk client mode seq b in
  concat (map p_payload c) = b /\ seqs_from seq c /\ Forall pseg_ok c /\ frag_chain c.
Proof.
  intros client mode seq b Hm H0 H1. unfold plan_chunk. cbv zeta.
  set (fs := frag_size mode). set (proto := data_proto client (negb (mode =? 0))).
  assert (Hfs : (0 < fs)%nat) by exact Hm.
  assert (Hfs2 : (fs <= maxPDU)%nat) by apply frag_size_le.
  assert (Hpr : is_session proto = false) by apply data_proto_not_session.
  clearbody fs proto.
  destruct (nfrag_spec fs (length b) Hfs H0) as [j [E [A B]]]. rewrite E.
  split; [|split].
  - apply plan_frags_payload; assumption.
  - apply plan_frags_seqs.
  - destruct (plan_frags_ok proto fs Hpr Hfs Hfs2 j seq b A B) as [X [Y _]].
    split; assumption.
Qed.

Lemma plan_chunks_ok : forall fuel client mode seq b, mode_ok mode -> (length b <= fuel)%nat ->
  let l := plan_chunks fuel client mode seq b in
  concat (map p_payload l) = b /\ seqs_from seq l /\ Forall pseg_ok l /\ frag_chain l.
Proof.
  induction fuel as [|f IH]; intros client mode seq b Hm Hf; cbv zeta.
  - destruct b; [|cbn in Hf; lia]. cbn. auto.
  - destruct b as [|x t]; [cbn; auto|].
    cbn [plan_chunks]. set (b := x :: t) in *.
    pose proof maxPDU_pos as Hp.
    assert (L1 : (0 < length (firstn maxPDU b))%nat) by (rewrite firstn_length; unfold b; cbn [length]; lia).
    assert (L2 : (length (firstn maxPDU b) <= maxPDU)%nat) by (rewrite firstn_length; lia).
    destruct (plan_chunk_ok client mode seq (firstn maxPDU b) Hm L1 L2) as [A1 [A2 [A3 A4]]].
    assert (L3 : (length (skipn maxPDU b) <= f)%nat) by (rewrite skipn_length; unfold b in *; cbn [length] in *; lia).
    destruct (IH client mode (seq + lenN (plan_chunk client mode seq (firstn maxPDU b))) (skipn maxPDU b) Hm L3) as [B1 [B2 [B3 B4]]].
    split; [|split; [|split]].
    + rewrite map_app, concat_app, A1, B1. apply firstn_skipn.
    + apply seqs_from_app. split; assumption.
    + apply Forall_app. split; assumption.
    + apply frag_chain_app; assumption.
Qed.

Lemma is_session_openreq : is_session pOpenReq = true. Proof. reflexivity. Qed.

Lemma plan_event_ok : forall client st e, wevent_ok e ->
  let l := fst (plan_event client st e) in
  concat (map p_payload l) = (match e with WWrite _ b => b | WCtl _ => [] end) /\
  seqs_from (w_seq st) l /\ Forall pseg_ok l /\ frag_chain l /\
  w_seq (snd (plan_event client st e)) = w_seq st + lenN l.
Proof.
  intros client st e He. cbv zeta. destruct e as [mode b|p]; cbn [plan_event].
  - cbn [wevent_ok] in He.
    destruct (client && negb (w_opened st)) eqn:E1.
    + destruct ((mode =? 0) && (length b <=? maxOpenPayload)%nat) eqn:E2.
      * cbn [fst snd map concat p_payload seqs_from p_seq frag_chain p_frag w_seq]. rewrite app_nil_r.
        split; [reflexivity|]. split; [auto|]. split; [|split; [auto|unfold lenN; cbn [length]; lia]].
        constructor; [|constructor]. split; cbn [p_proto p_payload p_frag]; intros Hs.
        -- split; [|reflexivity]. apply andb_true_iff in E2. destruct E2 as [_ E2]. apply Nat.leb_le in E2. exact E2.
        -- rewrite is_session_openreq in Hs. discriminate.
      * destruct (plan_chunks_ok (length b) client mode (w_seq st + 1) b He (le_n _)) as [A1 [A2 [A3 A4]]].
        cbn [fst snd map concat p_payload seqs_from p_seq frag_chain p_frag w_seq app].
        split; [exact A1|]. split; [split; [reflexivity|exact A2]|]. split; [|split].
        -- constructor; [|exact A3]. split; cbn [p_proto p_payload p_frag]; intros Hs.
           ++ split; [cbn; lia|reflexivity].
           ++ rewrite is_session_openreq in Hs. discriminate.
        -- split; [left; reflexivity|exact A4].
        -- unfold lenN. cbn [length]. lia.
    + destruct (plan_chunks_ok (length b) client mode (w_seq st) b He (le_n _)) as [A1 [A2 [A3 A4]]].
      cbn [fst snd w_seq]. repeat (split; [assumption|]). reflexivity.
  - cbn [wevent_ok] in He.
    cbn [fst snd map concat p_payload seqs_from p_seq frag_chain p_frag w_seq app].
    split; [reflexivity|]. split; [auto|]. split; [|split; [auto|unfold lenN; cbn [length]; lia]].
    constructor; [|constructor]. split; cbn [p_proto p_payload p_frag]; intros Hs.
    + split; [cbn; lia|reflexivity].
    + congruence.
Qed.

Lemma plan_events_ok : forall client evs st, Forall wevent_ok evs ->
  let l := plan_events client st evs in
  concat (map p_payload l) = written evs /\ seqs_from (w_seq st) l /\ Forall pseg_ok l /\ frag_chain l.
Proof.
  intros client evs. induction evs as [|e t IH]; intros st Hok; cbv zeta.
  - cbn. auto.
  - inversion Hok as [|? ? He Ht]; subst.
    cbn [plan_events]. pose proof (plan_event_ok client st e He) as P. cbv zeta in P.
    destruct (plan_event client st e) as [l st'] eqn:E. cbn [fst snd] in P.
    destruct P as [P1 [P2 [P3 [P4 P5]]]].
    destruct (IH st' Ht) as [Q1 [Q2 [Q3 Q4]]]. rewrite P5 in Q2.
    split; [|split; [|split]].
    + rewrite map_app, concat_app, P1, Q1. destruct e; reflexivity.
    + apply seqs_from_app. split; assumption.
    + apply Forall_app. split; assumption.
    + apply frag_chain_app; assumption.
Qed.

(* the payloads of the planned segments concatenate to the written bytes; every planned segment is valid *)
Theorem plan_concat : forall client evs, Forall wevent_ok evs ->
  let l := plan_events client w_init evs in
  concat (map p_payload l) = written evs /\ seqs_from 0 l /\ Forall pseg_ok l /\ frag_chain l.
Proof. intros client evs H. apply (plan_events_ok client evs w_init H). Qed.

(* ================================================================== *)
(* ------------------------------------------------------------------ Session.Read *)
Lemma read_q_spec : forall q k, (0 < k)%nat ->
  fst (read_q k q) ++ rd_flat (snd (read_q k q)) = concat q /\
  length (fst (read_q k q)) = Nat.min k (length (concat q)).
Proof.
  induction q as [|p q IH]; intros k Hk; cbn [read_q].
  - cbn. split; [reflexivity|lia].
  - cbn [concat]. rewrite app_length.
    destruct (length p <=? k)%nat eqn:E1.
    + apply Nat.leb_le in E1. destruct (length p =? k)%nat eqn:E2.
      * apply Nat.eqb_eq in E2. cbn [fst snd]. unfold rd_flat. cbn [rd_unread rd_queue app]. split; [reflexivity|lia].
      * apply Nat.eqb_neq in E2. destruct (IH (k - length p)%nat ltac:(lia)) as [A B].
        destruct (read_q (k - length p) q) as [d st]. cbn [fst snd] in *.
        split; [rewrite <- app_assoc, A; reflexivity|rewrite app_length, B; lia].
    + apply Nat.leb_gt in E1. cbn [fst snd]. unfold rd_flat. cbn [rd_unread rd_queue].
      split; [rewrite app_assoc, firstn_skipn; reflexivity|rewrite firstn_length; lia].
Qed.

Lemma read1_spec : forall k st,
  fst (read1 k st) ++ rd_flat (snd (read1 k st)) = rd_flat st /\
  length (fst (read1 k st)) = Nat.min k (length (rd_flat st)).
Proof.
  intros k st. destruct k as [|k']; [cbn; split; reflexivity|].
  unfold read1. cbv iota beta. remember (S k') as k eqn:Ek.
  assert (Hfl : rd_flat st = rd_unread st ++ concat (rd_queue st)) by reflexivity. rewrite Hfl, app_length.
  set (a := firstn k (rd_unread st)). set (u := skipn k (rd_unread st)).
  assert (Ha : length a = Nat.min k (length (rd_unread st))) by apply firstn_length.
  assert (Hu : length u = (length (rd_unread st) - k)%nat) by apply skipn_length.
  assert (Hau : a ++ u = rd_unread st) by apply firstn_skipn.
  clearbody a u.
  destruct (negb (is_nil u) || (length a =? k)%nat) eqn:E.
  - cbn [fst snd]. unfold rd_flat. cbn [rd_unread rd_queue]. rewrite app_assoc, Hau. split; [reflexivity|].
    apply orb_true_iff in E. destruct E as [E|E].
    + destruct u; [discriminate|]. cbn [length] in Hu. lia.
    + apply Nat.eqb_eq in E. lia.
  - apply orb_false_iff in E. destruct E as [E1 E2]. apply Nat.eqb_neq in E2.
    apply negb_false_iff, is_nil_true in E1.
    assert (k - length a > 0)%nat by lia.
    destruct (read_q_spec (rd_queue st) (k - length a)%nat ltac:(lia)) as [A B].
    destruct (read_q (k - length a) (rd_queue st)) as [d st']. cbn [fst snd] in *.
    rewrite E1, app_nil_r in Hau. split.
    + rewrite <- app_assoc, A, Hau. reflexivity.
    + rewrite app_length, B. rewrite <- Hau. lia.
Qed.

Lemma concat_snoc {A} (q : list (list A)) p : concat (q ++ [p]) = concat q ++ p.
Proof. rewrite concat_app. cbn. rewrite app_nil_r. reflexivity. Qed.

(* every schedule of arrivals and reads: what has been read so far is a prefix of what arrived *)
Lemma run_reads_prefix : forall evs st,
  exists rest, concat (run_reads st evs) ++ rest = rd_flat st ++ concat (arrivals_of evs).
Proof.
  induction evs as [|e t IH]; intros st.
  - exists (rd_flat st). cbn. rewrite app_nil_r. reflexivity.
  - destruct e as [p|k]; cbn [run_reads arrivals_of concat].
    + destruct (IH (mkRd (rd_unread st) (rd_queue st ++ [p]))) as [rest Hr]. exists rest. rewrite Hr.
      unfold rd_flat. cbn [rd_unread rd_queue]. rewrite concat_snoc, !app_assoc. reflexivity.
    + destruct (read1_spec k st) as [A _]. destruct (read1 k st) as [o st']. cbn [fst snd] in A.
      destruct (IH st') as [rest Hr]. exists rest. cbn [concat]. rewrite <- app_assoc, Hr, app_assoc, A. reflexivity.
Qed.

Lemma run_reads_all : forall ks st,
  concat (run_reads st (map Rd ks)) = firstn (sum_nat ks) (rd_flat st).
Proof.
  induction ks as [|k t IH]; intros st; cbn [map run_reads sum_nat fold_right concat]; [reflexivity|].
  destruct (read1_spec k st) as [A B]. destruct (read1 k st) as [o st']. cbn [fst snd] in A, B.
  cbn [concat]. rewrite IH. fold (sum_nat t). rewrite <- A.
  destruct (Nat.eq_dec (length o) k) as [E|E].
  - rewrite <- E. rewrite firstn_app_2. reflexivity.
  - assert (Hl : length (rd_flat st') = 0%nat).
    { rewrite <- A, app_length in B. lia. }
    apply length_zero_iff_nil in Hl. rewrite Hl, app_nil_r, firstn_nil, app_nil_r.
    rewrite firstn_all2; [reflexivity|]. rewrite <- A, Hl, app_nil_r in B. lia.
Qed.

Lemma read_all_spec : forall ks q, concat (read_all ks q) = firstn (sum_nat ks) (concat q).
Proof. intros ks q. unfold read_all. rewrite run_reads_all. reflexivity. Qed.

(* ------------------------------------------------------------------ receive queue *)
Fixpoint incr (l : list (N * list N)) : Prop :=
  match l with [] => True | x :: t => Forall (fun y => fst x < fst y) t /\ incr t end.

Lemma rq_insert_last : forall q x, Forall (fun y => fst y < fst x) q -> rq_insert x q = q ++ [x].
Proof.
  induction q as [|y t IH]; intros x H; cbn [rq_insert app]; [reflexivity|].
  inversion H as [|? ? Hy Ht]; subst.
  destruct (fst x <? fst y) eqn:E1; [lia|]. destruct (fst x =? fst y) eqn:E2; [lia|].
  rewrite IH; [reflexivity|assumption].
Qed.

Lemma recv_queue_incr_gen : forall l acc, incr (acc ++ l) ->
  fold_left (fun q x => rq_insert x q) l acc = acc ++ l.
Proof.
  induction l as [|x t IH]; intros acc H; cbn [fold_left]; [rewrite app_nil_r; reflexivity|].
  assert (Hx : Forall (fun y => fst y < fst x) acc).
  { clear IH. induction acc as [|a acc IHa]; [constructor|]. cbn [app incr] in H. destruct H as [H1 H2].
    constructor; [|apply IHa; exact H2]. rewrite Forall_forall in H1. apply H1. apply in_or_app. right. left. reflexivity. }
  rewrite (rq_insert_last _ _ Hx). rewrite IH; rewrite <- app_assoc; [reflexivity|exact H].
Qed.

Lemma recv_queue_incr : forall l, incr l -> recv_queue l = l.
Proof. intros l H. unfold recv_queue. apply (recv_queue_incr_gen l []). exact H. Qed.

(* planned segments: consecutive seqs make the queued sub-list increasing *)
Definition arr_of_plan (l : list pseg) : list (N * list N) :=
  map (fun p => (p_seq p, p_payload p)) (filter (fun p => is_queued (p_proto p)) l).

Lemma seqs_from_lower : forall l n, seqs_from n l -> Forall (fun y => n <= fst y) (arr_of_plan l).
Proof.
  induction l as [|p t IH]; intros n H; [constructor|]. cbn [seqs_from] in H. destruct H as [H1 H2].
  specialize (IH _ H2). unfold arr_of_plan in *. cbn [filter].
  destruct (is_queued (p_proto p)); cbn [map].
  - constructor; [cbn; lia|]. eapply Forall_impl; [|exact IH]. cbn. intros; lia.
  - eapply Forall_impl; [|exact IH]. cbn. intros; lia.
Qed.

Lemma seqs_from_incr : forall l n, seqs_from n l -> incr (arr_of_plan l).
Proof.
  induction l as [|p t IH]; intros n H; [exact I|]. cbn [seqs_from] in H. destruct H as [H1 H2].
  unfold arr_of_plan in *. cbn [filter]. destruct (is_queued (p_proto p)); cbn [map incr]; [|eapply IH; exact H2].
  split; [|eapply IH; exact H2].
  pose proof (seqs_from_lower _ _ H2) as L. eapply Forall_impl; [|exact L]. cbn. intros; lia.
Qed.

Definition pq_ok (p : pseg) : Prop := is_queued (p_proto p) = true \/ p_payload p = [].

Lemma arr_payload : forall l, Forall pq_ok l -> concat (map snd (arr_of_plan l)) = concat (map p_payload l).
Proof.
  induction l as [|p t IH]; intros H; [reflexivity|]. inversion H as [|? ? Hp Ht]; subst.
  unfold arr_of_plan in *. cbn [filter map concat].
  destruct (is_queued (p_proto p)) eqn:E; cbn [map concat snd]; rewrite (IH Ht); [reflexivity|].
  destruct Hp as [Hp|Hp]; [congruence|]. rewrite Hp. reflexivity.
Qed.

(* every planned segment is either queued on the receiving side or carries no payload *)
Lemma is_queued_data : forall client le, is_queued (data_proto client le) = true.
Proof. intros [|] [|]; reflexivity. Qed.

Lemma plan_frags_pq : forall client le fs k seq b, Forall pq_ok (plan_frags (data_proto client le) fs k seq b).
Proof.
  induction k; intros; cbn [plan_frags]; constructor; [|apply IHk]. left. cbn [p_proto]. apply is_queued_data.
Qed.

Lemma plan_chunks_pq : forall fuel client mode seq b, Forall pq_ok (plan_chunks fuel client mode seq b).
Proof.
  induction fuel; intros; cbn [plan_chunks]; [constructor|]. destruct b; [constructor|].
  apply Forall_app. split; [apply plan_frags_pq|apply IHfuel].
Qed.

Lemma plan_events_pq : forall client evs st, Forall pq_ok (plan_events client st evs).
Proof.
  induction evs as [|e t IH]; intros st; cbn [plan_events]; [constructor|].
  destruct (plan_event client st e) as [l st'] eqn:E. apply Forall_app. split; [|apply IH].
  destruct e as [mode b|p]; cbn [plan_event] in E.
  - destruct (client && negb (w_opened st)).
    + destruct ((mode =? 0) && (length b <=? maxOpenPayload)%nat); inversion E; subst.
      * constructor; [left; reflexivity|constructor].
      * constructor; [left; reflexivity|apply plan_chunks_pq].
    + inversion E; subst. apply plan_chunks_pq.
  - inversion E; subst. constructor; [right; reflexivity|constructor].
Qed.

(* ------------------------------------------------------------------ multiplexing *)
Lemma combine_app {A B} : forall (a1 a2 : list A) (b1 b2 : list B), length a1 = length b1 ->
  combine (a1 ++ a2) (b1 ++ b2) = combine a1 b1 ++ combine a2 b2.
Proof.
  induction a1 as [|x a1 IH]; intros a2 b1 b2 H; destruct b1 as [|y b1]; cbn in H; try discriminate; [reflexivity|].
  cbn. rewrite IH; [reflexivity|congruence].
Qed.

Lemma Forall2_len {A B} (R : A -> B -> Prop) : forall l1 l2, Forall2 R l1 l2 -> length l1 = length l2.
Proof. induction 1; cbn; congruence. Qed.

Definition has_sid (id : N) (s : segment) : bool := s_sid s =? id.

Lemma filter_none : forall id (l : list segment), Forall (fun s => s_sid s <> id) l -> filter (has_sid id) l = [].
Proof.
  induction l as [|s t IH]; intros H; [reflexivity|]. inversion H; subst. cbn [filter]. unfold has_sid at 1.
  destruct (s_sid s =? id) eqn:E; [lia|]. apply IH; assumption.
Qed.

Lemma interleave_filter : forall (ls : list (list segment)) w, interleave ls w ->
  forall ids, Forall2 (fun id l => Forall (fun s => s_sid s = id) l) ids ls -> NoDup ids ->
  forall id l, In (id, l) (combine ids ls) -> filter (has_sid id) w = l.
Proof.
  intros ls w H. induction H as [ls Hnil | ls1 x l0 ls2 w H IH]; intros ids HF ND id l Hin.
  - apply in_combine_r in Hin. rewrite Forall_forall in Hnil. rewrite (Hnil _ Hin). reflexivity.
  - apply Forall2_app_inv_r in HF. destruct HF as [ids1 [ids' [F1 [F2 ->]]]].
    inversion F2 as [|id0 ? ids2 ? Fx F3]; subst.
    inversion Fx as [|? ? Hx Hl0]; subst.
    assert (HF' : Forall2 (fun id l => Forall (fun s => s_sid s = id) l) (ids1 ++ s_sid x :: ids2) (ls1 ++ l0 :: ls2)).
    { apply Forall2_app; [exact F1|]. constructor; [exact Hl0|exact F3]. }
    specialize (IH _ HF' ND).
    pose proof (Forall2_len _ _ _ F1) as L1.
    rewrite (combine_app ids1 (s_sid x :: ids2) ls1 ((x :: l0) :: ls2) L1) in Hin.
    assert (C : combine (ids1 ++ s_sid x :: ids2) (ls1 ++ l0 :: ls2) =
                combine ids1 ls1 ++ (s_sid x, l0) :: combine ids2 ls2) by (rewrite (combine_app ids1 (s_sid x :: ids2) ls1 (l0 :: ls2) L1); reflexivity).
    apply NoDup_remove_2 in ND.
    apply in_app_or in Hin. cbn [combine] in Hin. destruct Hin as [Hin|[Hin|Hin]].
    + assert (id <> s_sid x) by (intros ->; apply ND; apply in_or_app; left; eapply in_combine_l; exact Hin).
      cbn [filter]. unfold has_sid at 1. destruct (s_sid x =? id) eqn:E; [lia|].
      apply IH. rewrite C. apply in_or_app. left. exact Hin.
    + inversion Hin; subst. cbn [filter]. unfold has_sid at 1. rewrite N.eqb_refl. f_equal.
      apply IH. rewrite C. apply in_or_app. right. left. reflexivity.
    + assert (id <> s_sid x) by (intros ->; apply ND; apply in_or_app; right; eapply in_combine_l; exact Hin).
      cbn [filter]. unfold has_sid at 1. destruct (s_sid x =? id) eqn:E; [lia|].
      apply IH. rewrite C. apply in_or_app. right. right. exact Hin.
Qed.

Lemma in_combine_map {A B C} (f : A -> B) (g : A -> C) : forall (l : list A) t,
  In t l -> In (f t, g t) (combine (map f l) (map g l)).
Proof. induction l as [|a l IH]; intros t H; [contradiction|]. cbn. destruct H as [->|H]; [left; reflexivity|right; apply IH; exact H]. Qed.

Lemma filter_andb {A} (f g : A -> bool) : forall l, filter (fun x => f x && g x) l = filter g (filter f l).
Proof. induction l as [|x t IH]; [reflexivity|]. cbn [filter]. destruct (f x); cbn [andb filter]; [destruct (g x)|]; rewrite IH; reflexivity. Qed.

Lemma realizes_arr : forall sid segs plan, Forall2 (realizes sid) segs plan ->
  map (fun s => (mi_seq (s_meta s), s_payload s)) (filter (fun s => is_queued (mi_proto (s_meta s))) segs) = arr_of_plan plan /\
  Forall (fun s => s_sid s = sid) segs.
Proof.
  intros sid segs plan H. induction H as [|s p segs plan [R1 [R2 [R3 [R4 R5]]]] H [IH1 IH2]]; [split; [reflexivity|constructor]|].
  split; [|constructor; assumption]. unfold arr_of_plan in *. cbn [filter]. rewrite R1.
  destruct (is_queued (p_proto p)); cbn [map]; rewrite IH1; [rewrite R3, R5|]; reflexivity.
Qed.

(* ================================================================== *)
Lemma filter_map_comm {A B} (f : B -> bool) (h : A -> B) : forall l, filter f (map h l) = map h (filter (fun x => f (h x)) l).
Proof. induction l as [|x t IH]; [reflexivity|]. cbn [map filter]. destruct (f (h x)); cbn [map]; rewrite IH; reflexivity. Qed.

Lemma Forall2_maps {A B C} (R : B -> C -> Prop) (f : A -> B) (g : A -> C) : forall l,
  Forall (fun t => R (f t) (g t)) l -> Forall2 R (map f l) (map g l).
Proof. induction 1; cbn; constructor; assumption. Qed.

(* one session of a connection: id, what happened on its sending side, its segments on the wire *)
Definition sess : Set := (N * list wevent * list segment)%type.
Definition sess_id (t : sess) : N := fst (fst t).
Definition sess_ok (client : bool) (t : sess) : Prop :=
  Forall wevent_ok (snd (fst t)) /\ Forall2 (realizes (sess_id t)) (snd t) (plan_events client w_init (snd (fst t))).

Section Integrity.
  Variable seal : list N -> list N -> list N.
  Variable open : list N -> list N -> option (list N).
  Variable marshal_meta : minfo -> list N.
  Variable parse_meta : list N -> option minfo.
  Variable le_len : leparams -> N -> N.
  Variable le_encode : leparams -> bool -> list N -> list N.
  Variable le_decode : leparams -> N -> list N -> option (list N).
  Variable meta_ok : minfo -> bool.
  Variable le_ok : leparams -> N -> bool.   (* parameters and plaintext length *)

  Hypothesis seal_len : forall n p, length (seal n p) = (length p + tagLen)%nat.
  Hypothesis open_seal : forall n p, open n (seal n p) = Some p.
  Hypothesis marshal_len : forall m, meta_ok m = true -> length (marshal_meta m) = metaLen.
  Hypothesis parse_marshal : forall m, meta_ok m = true -> parse_meta (marshal_meta m) = Some m.
  (* the low entropy codec is only ever applied to the ciphertext body of a sealed payload *)
  Hypothesis le_encode_len : forall lp pb n p, le_ok lp (lenN p) = true ->
    length (le_encode lp pb (firstn (length p) (seal n p))) = N.to_nat (le_len lp (lenN p)).
  Hypothesis le_round : forall lp pb n p, le_ok lp (lenN p) = true ->
    le_decode lp (lenN p) (le_encode lp pb (firstn (length p) (seal n p))) = Some (firstn (length p) (seal n p)).

  Notation feed_all := (feed_all open parse_meta le_decode).
  Notation serialize := (serialize seal marshal_meta le_len le_encode).
  Notation deliver := (deliver le_len).
  Notation seg_ok := (seg_ok le_len meta_ok le_ok).

  Lemma demux_deliver : forall sid wire,
    demux sid (map deliver wire) =
    map (fun s => (mi_seq (s_meta s), s_payload s))
        (filter (fun s => is_queued (mi_proto (s_meta s))) (filter (has_sid sid) wire)).
  Proof.
    intros sid wire. unfold demux. rewrite filter_map_comm, map_map.
    rewrite <- (filter_andb (has_sid sid) (fun s => is_queued (mi_proto (s_meta s)))). reflexivity.
  Qed.

  Theorem tcp_integrity : forall client (ss : list sess) wire n0 chunks,
    Forall (sess_ok client) ss -> NoDup (map sess_id ss) ->
    interleave (map snd ss) wire -> Forall seg_ok wire -> length n0 = nonceLen ->
    concat chunks = serialize false n0 wire ->
    r_failed (snd (feed_all r_init chunks)) = false /\
    forall t, In t ss ->
      let q := map snd (recv_queue (demux (sess_id t) (fst (feed_all r_init chunks)))) in
      let w := written (snd (fst t)) in
      concat q = w /\
      (forall ks, concat (read_all ks q) = firstn (sum_nat ks) w) /\
      (forall ks, (length w <= sum_nat ks)%nat -> concat (read_all ks q) = w) /\
      (forall sched more, arrivals_of sched ++ more = q ->
         exists rest, concat (run_reads (mkRd [] []) sched) ++ rest = w).
  Proof.
    intros client ss wire n0 chunks Hss ND IL Hok Hn Hc.
    rewrite (feed_all_init open parse_meta le_decode), Hc.
    rewrite (feed_serialize seal open marshal_meta parse_meta le_len le_encode le_decode meta_ok le_ok
               seal_len open_seal marshal_len parse_marshal le_encode_len le_round wire n0 Hok Hn).
    cbn [fst snd r_failed]. split; [reflexivity|].
    intros t Hin. cbv zeta.
    rewrite Forall_forall in Hss. destruct (Hss t Hin) as [Hev Hre].
    destruct (realizes_arr _ _ _ Hre) as [Harr Hsid].
    assert (HF : Forall2 (fun id l => Forall (fun s => s_sid s = id) l) (map sess_id ss) (map snd ss)).
    { apply Forall2_maps. apply Forall_forall. intros t' Hin'. destruct (Hss t' Hin') as [_ Hre'].
      destruct (realizes_arr _ _ _ Hre') as [_ X]. exact X. }
    pose proof (interleave_filter _ _ IL _ HF ND (sess_id t) (snd t) (in_combine_map sess_id snd ss t Hin)) as Hf.
    rewrite demux_deliver, Hf, Harr.
    destruct (plan_concat client (snd (fst t)) Hev) as [P1 [P2 [P3 P4]]].
    rewrite (recv_queue_incr _ (seqs_from_incr _ _ P2)).
    assert (Hq : concat (map snd (arr_of_plan (plan_events client w_init (snd (fst t))))) = written (snd (fst t))).
    { rewrite (arr_payload _ (plan_events_pq client _ w_init)). exact P1. }
    split; [exact Hq|]. split; [|split].
    - intros ks. rewrite read_all_spec, Hq. reflexivity.
    - intros ks Hle. rewrite read_all_spec, Hq. apply firstn_all2. exact Hle.
    - intros sched more Hs. destruct (run_reads_prefix sched (mkRd [] [])) as [rest Hr].
      exists (rest ++ concat more). rewrite app_assoc, Hr. unfold rd_flat. cbn [rd_unread rd_queue concat app].
      rewrite <- concat_app, Hs. exact Hq.
  Qed.
End Integrity.

(* ================================================================== *)
(* ------------------------------------------------------------------ tampering (used by C04) *)
Lemma NoDup_fst_inj {A B} : forall (L : list (A * B)) a b b',
  NoDup (map fst L) -> In (a, b) L -> In (a, b') L -> b = b'.
Proof.
  induction L as [|[x y] L IH]; intros a b b' ND H1 H2; [contradiction|].
  cbn [map fst] in ND. inversion ND as [|? ? Hx ND']; subst.
  destruct H1 as [H1|H1], H2 as [H2|H2].
  - congruence.
  - inversion H1; subst. exfalso. apply Hx. apply (in_map fst) in H2. exact H2.
  - inversion H2; subst. exfalso. apply Hx. apply (in_map fst) in H1. exact H1.
  - eapply IH; eassumption.
Qed.

Section Tamper.
  Variable open : list N -> list N -> option (list N).
  Variable marshal_meta : minfo -> list N.
  Variable parse_meta : list N -> option minfo.
  Variable le_len : leparams -> N -> N.
  Variable le_decode : leparams -> N -> list N -> option (list N).
  Variable meta_ok : minfo -> bool.
  Variable le_ok : leparams -> N -> bool.   (* parameters and plaintext length *)

  Hypothesis parse_marshal : forall m, meta_ok m = true -> parse_meta (marshal_meta m) = Some m.

  Notation parse1 := (parse1 open parse_meta le_decode).
  Notation drain := (drain open parse_meta le_decode).
  Notation feed := (feed open parse_meta le_decode).
  Notation fill_meta := (fill_meta le_len).
  Notation deliver := (deliver le_len).
  Notation seg_ok := (seg_ok le_len meta_ok le_ok).

  (* the boxes the sender seals for a list of segments: (nonce, plaintext), in order *)
  Fixpoint sealed (n : list N) (l : list segment) : list (list N * list N) :=
    match l with
    | [] => []
    | s :: t =>
      if is_nil (s_payload s) then (n, marshal_meta (fill_meta s)) :: sealed (nonce_inc n) t
      else (n, marshal_meta (fill_meta s)) :: (nonce_inc n, s_payload s) :: sealed (nonce_inc (nonce_inc n)) t
    end.
  Fixpoint nonce_after (n : list N) (l : list segment) : list N :=
    match l with
    | [] => n
    | s :: t => if is_nil (s_payload s) then nonce_after (nonce_inc n) t else nonce_after (nonce_inc (nonce_inc n)) t
    end.

  Lemma parse1_got_inv : forall n buf mi pl n' rest,
    parse1 (Some n) buf = Got (mi, pl) n' rest ->
    exists mbox mp, open n mbox = Some mp /\ parse_meta mp = Some mi /\
      (((mi_plen mi =? 0) = true /\ pl = [] /\ n' = nonce_inc n) \/
       ((mi_plen mi =? 0) = false /\ (exists box, open (nonce_inc n) box = Some pl) /\ n' = nonce_inc (nonce_inc n))).
  Proof.
    intros n buf mi pl n' rest H. unfold TcpStream.parse1 in H. cbv zeta in H.
    repeat match type of H with
    | context [match take ?k ?l with _ => _ end] => destruct (take k l) as [[? ?]|] eqn:?; [|discriminate H]
    | context [match open ?a ?b with _ => _ end] => destruct (open a b) eqn:?; [|discriminate H]
    | context [match parse_meta ?a with _ => _ end] => destruct (parse_meta a) eqn:?; [|discriminate H]
    | context [if (?a =? 0) then _ else _] => destruct (a =? 0) eqn:?
    | context [if is_le ?a then _ else _] => destruct (is_le a) eqn:?
    | context [match le_decode ?a ?b ?c with _ => _ end] => destruct (le_decode a b c) eqn:?; [|discriminate H]
    end; inversion H; subst; do 2 eexists; (split; [eassumption|]); (split; [eassumption|]);
    first [ left; repeat split; assumption | right; repeat split; try assumption; eexists; eassumption ].
  Qed.

  Lemma parse1_none : forall buf nb b1, take nonceLen buf = Some (nb, b1) -> parse1 None buf = parse1 (Some nb) b1.
  Proof. intros buf nb b1 H. unfold TcpStream.parse1. rewrite H. reflexivity. Qed.

  Section Sent.
    Variable L : list (list N * list N).
    (* INT-CTXT with the nonce bound in: a box opens under a nonce only if the sender sealed that plaintext under that nonce *)
    Hypothesis int_ctxt : forall n c p, open n c = Some p -> In (n, p) L.
    Hypothesis nonces_distinct : NoDup (map fst L).

    Lemma drain_tamper : forall f t n buf pre,
      L = pre ++ sealed n t -> ~ In (nonce_after n t) (map fst L) -> Forall seg_ok t ->
      exists k, fst (drain f (Some n) buf) = firstn k (map deliver t).
    Proof.
      induction f as [|f IH]; intros t n buf pre HL Hend Hok; [exists 0%nat; reflexivity|].
      cbn [TcpStream.drain]. destruct (parse1 (Some n) buf) as [| |[mi pl] n' rest] eqn:P;
        try (exists 0%nat; reflexivity).
      destruct (parse1_got_inv _ _ _ _ _ _ P) as [mbox [mp [O1 [PM Hc]]]].
      pose proof (int_ctxt _ _ _ O1) as I1.
      destruct t as [|s t'].
      - exfalso. apply Hend. cbn [nonce_after]. apply (in_map fst) in I1. exact I1.
      - apply Forall_cons_iff in Hok. destruct Hok as [[Hm [Hb Hle]] Hok'].
        assert (Hmeta : In (n, marshal_meta (fill_meta s)) (pre ++ sealed n (s :: t'))).
        { apply in_or_app. right. cbn [sealed]. destruct (is_nil (s_payload s)); left; reflexivity. }
        rewrite <- HL in Hmeta.
        pose proof (NoDup_fst_inj _ _ _ _ nonces_distinct I1 Hmeta) as Emp. subst mp.
        rewrite (parse_marshal _ Hm) in PM. inversion PM; subst mi. clear PM.
        destruct (is_nil (s_payload s)) eqn:Enil.
        + (* no payload box *)
          rewrite Hb in Hc. destruct Hc as [[_ [-> ->]]|[Hc _]]; [|discriminate].
          destruct (drain f (Some (nonce_inc n)) rest) as [l st] eqn:D.
          destruct (IH t' (nonce_inc n) rest (pre ++ [(n, marshal_meta (fill_meta s))])) as [k Hk].
          * rewrite HL. cbn [sealed]. rewrite Enil, <- app_assoc. reflexivity.
          * cbn [nonce_after] in Hend. rewrite Enil in Hend. exact Hend.
          * exact Hok'.
          * rewrite D in Hk. cbn [fst] in Hk. exists (S k). cbn [fst map firstn]. rewrite Hk.
            unfold TcpStream.deliver. apply is_nil_true in Enil. rewrite Enil. reflexivity.
        + rewrite Hb in Hc. destruct Hc as [[Hc _]|[_ [[box O2] ->]]]; [discriminate|].
          pose proof (int_ctxt _ _ _ O2) as I2.
          assert (Hpay : In (nonce_inc n, s_payload s) (pre ++ sealed n (s :: t'))).
          { apply in_or_app. right. cbn [sealed]. rewrite Enil. right. left. reflexivity. }
          rewrite <- HL in Hpay.
          pose proof (NoDup_fst_inj _ _ _ _ nonces_distinct I2 Hpay) as Epl. subst pl.
          destruct (drain f (Some (nonce_inc (nonce_inc n))) rest) as [l st] eqn:D.
          destruct (IH t' (nonce_inc (nonce_inc n)) rest
                       (pre ++ [(n, marshal_meta (fill_meta s)); (nonce_inc n, s_payload s)])) as [k Hk].
          * rewrite HL. cbn [sealed]. rewrite Enil, <- app_assoc. reflexivity.
          * cbn [nonce_after] in Hend. rewrite Enil in Hend. exact Hend.
          * exact Hok'.
          * rewrite D in Hk. cbn [fst] in Hk. exists (S k). cbn [fst map firstn]. rewrite Hk. reflexivity.
    Qed.
  End Sent.

  (* For ANY received byte stream x that still starts with the sender's nonce: the segments the
     receiver delivers are a prefix of the segments the sender sent (a dropped, duplicated, swapped,
     altered or foreign box does not open under the counter nonce), and after the first failure nothing
     is delivered.  (If the first 24 bytes are altered as well, a box opens only under the nonce it was
     sealed with, so what is delivered is a run of sent segments starting at a later segment boundary -
     see the report.) *)
  Theorem tamper_prefix : forall (n0 : list N) (segs : list segment),
    (forall n c p, open n c = Some p -> In (n, p) (sealed n0 segs)) ->
    NoDup (map fst (sealed n0 segs) ++ [nonce_after n0 segs]) ->
    Forall seg_ok segs ->
    forall x x1, take nonceLen x = Some (n0, x1) ->
      (exists k, fst (feed r_init x) = firstn k (map deliver segs)) /\
      (forall y, r_failed (snd (feed r_init x)) = true -> fst (feed (snd (feed r_init x)) y) = []).
  Proof.
    intros n0 segs IC ND Hok x x1 Hx. split.
    - unfold TcpStream.feed. cbn [r_failed r_init r_buf r_next app TcpStream.drain].
      rewrite (parse1_none _ _ _ Hx).
      pose proof (NoDup_remove_1 _ _ _ ND) as ND1. rewrite app_nil_r in ND1.
      pose proof (NoDup_remove_2 _ _ _ ND) as Hend. rewrite app_nil_r in Hend.
      pose proof (drain_tamper _ IC ND1 (S (length x)) segs n0 x1 [] eq_refl Hend Hok) as [k Hk].
      cbn [TcpStream.drain] in Hk.
      destruct (parse1 (Some n0) x1) as [| |s n' rest]; [exists 0%nat; reflexivity|exists 0%nat; reflexivity|].
      exists k. exact Hk.
    - intros y Hf. rewrite (feed_failed open parse_meta le_decode _ y Hf). reflexivity.
  Qed.
End Tamper.

(* ================================================================== *)
(* ------------------------------------------------------------------ non-vacuity: a toy instance *)
(* The premises of the theorems are satisfiable: a toy AEAD (plaintext followed by 16 zero bytes), a toy
   metadata layout (one list element per field; the abstract theorems do not bound byte values) and a toy
   low entropy codec (the body written twice). *)
Definition t_seal (n p : list N) : list N := p ++ repeat 0 16.
Definition t_open (n c : list N) : option (list N) :=
  if (16 <=? length c)%nat && forallb (N.eqb 0) (skipn (length c - 16) c) then Some (firstn (length c - 16) c) else None.
Definition t_marshal (m : minfo) : list N :=
  [mi_proto m; mi_lemode m; mi_ts m; mi_sid m; mi_seq m; mi_status m; mi_plen m; mi_suf m; mi_unack m;
   mi_window m; mi_frag m; mi_pre m; mi_mask m; mi_elen m; mi_rot m] ++ repeat 0 17.
Definition t_parse (b : list N) : option minfo :=
  match b with
  | a1 :: a2 :: a3 :: a4 :: a5 :: a6 :: a7 :: a8 :: a9 :: a10 :: a11 :: a12 :: a13 :: a14 :: a15 :: r =>
    if (length r =? 17)%nat then Some (mkMinfo a1 a2 a3 a4 a5 a6 a7 a8 a9 a10 a11 a12 a13 a14 a15) else None
  | _ => None
  end.
Definition t_le_len (lp : leparams) (n : N) : N := 2 * n.
Definition t_le_encode (lp : leparams) (pb : bool) (ct : list N) : list N := ct ++ ct.
Definition t_le_decode (lp : leparams) (elen : N) (enc : list N) : option (list N) := Some (firstn (N.to_nat elen) enc).
Definition t_ok {A} (_ : A) : bool := true.

Lemma t_seal_len : forall n p, length (t_seal n p) = (length p + tagLen)%nat.
Proof. intros. unfold t_seal. rewrite app_length, repeat_length. reflexivity. Qed.
Lemma t_open_seal : forall n p, t_open n (t_seal n p) = Some p.
Proof.
  intros. unfold t_open, t_seal. rewrite app_length, repeat_length.
  replace (16 <=? length p + 16)%nat with true by (symmetry; apply Nat.leb_le; lia).
  replace (length p + 16 - 16)%nat with (length p) by lia.
  rewrite firstn_app_exact, skipn_app_exact; reflexivity.
Qed.
Lemma t_marshal_len : forall m, t_ok m = true -> length (t_marshal m) = metaLen.
Proof. intros. reflexivity. Qed.
Lemma t_parse_marshal : forall m, t_ok m = true -> t_parse (t_marshal m) = Some m.
Proof. intros [] _. reflexivity. Qed.
Definition t_okle (lp : leparams) (n : N) : bool := true.
Lemma t_le_encode_len : forall lp pb n p, t_okle lp (lenN p) = true ->
  length (t_le_encode lp pb (firstn (length p) (t_seal n p))) = N.to_nat (t_le_len lp (lenN p)).
Proof.
  intros. unfold t_le_encode, t_le_len, t_seal, lenN. rewrite (firstn_app_exact (length p) p _ eq_refl).
  rewrite app_length. lia.
Qed.
Lemma t_le_round : forall lp pb n p, t_okle lp (lenN p) = true ->
  t_le_decode lp (lenN p) (t_le_encode lp pb (firstn (length p) (t_seal n p))) = Some (firstn (length p) (t_seal n p)).
Proof.
  intros. unfold t_le_decode, t_le_encode, t_seal. rewrite (firstn_app_exact (length p) p _ eq_refl).
  rewrite lenN_nat, (firstn_app_exact (length p) p p eq_refl). reflexivity.
Qed.

Definition mk_seg (proto sid seq frag : N) (payload pad1 pad2 : list N) : segment :=
  mkSeg (mkMinfo proto 1 20964900 sid seq 0 0 0 0 256 frag 0 252645135 0 3) payload pad1 pad2 true.
Definition ex_n0 : list N := repeat 255 23 ++ [254].   (* two increments away from wrapping to zero *)

(* an open request with payload, a data segment with both paddings, a low entropy data segment, an empty ack-like segment *)
Definition ex_segs : list segment :=
  [mk_seg pOpenReq 7 0 0 [1; 2; 3] [9; 9] [8]; mk_seg pDataC2S 7 1 0 [4; 5] [1; 1; 1] [];
   mk_seg pDataC2SLE 7 2 0 [6; 7; 8; 9] [] [5; 5]; mk_seg pCloseReq 7 3 0 [] [] [0]].

Lemma ex_segs_ok : Forall (seg_ok t_le_len t_ok t_okle) ex_segs.
Proof. repeat constructor. Qed.

Example ex_feed_serialize :
  feed t_open t_parse t_le_decode r_init (serialize t_seal t_marshal t_le_len t_le_encode false ex_n0 ex_segs) =
  (map (deliver t_le_len) ex_segs, mkR [] (ser_next t_seal t_marshal t_le_len t_le_encode false ex_n0 ex_segs) false).
Proof.
  apply (feed_serialize t_seal t_open t_marshal t_parse t_le_len t_le_encode t_le_decode t_ok t_okle
           t_seal_len t_open_seal t_marshal_len t_parse_marshal t_le_encode_len t_le_round ex_segs ex_n0 ex_segs_ok).
  reflexivity.
Qed.

(* the definitions compute: payloads come out, the nonce wraps like increaseNonce, a flipped byte stops delivery for ever *)
Example ex_feed_computes :
  map snd (fst (feed t_open t_parse t_le_decode r_init (serialize t_seal t_marshal t_le_len t_le_encode false ex_n0 ex_segs)))
  = [[1; 2; 3]; [4; 5]; [6; 7; 8; 9]; []].
Proof. vm_compute. reflexivity. Qed.
Example ex_nonce_wrap : nonce_add 2 ex_n0 = repeat 0 24.
Proof. vm_compute. reflexivity. Qed.
Example ex_feed_app_split :
  let s := serialize t_seal t_marshal t_le_len t_le_encode false ex_n0 ex_segs in
  let '(l1, st1) := feed t_open t_parse t_le_decode r_init (firstn 100 s) in
  let '(l2, st2) := feed t_open t_parse t_le_decode st1 (skipn 100 s) in
  (length l1, length l2, r_buf st2, r_failed st2) = (1%nat, 3%nat, [], false).
Proof. vm_compute. reflexivity. Qed.
Example ex_short_metadata_fails_for_ever :
  let s := serialize t_seal t_marshal t_le_len t_le_encode false ex_n0 ex_segs in
  let bad := firstn 24 s ++ firstn 20 (skipn 24 s) ++ skipn 45 s in   (* one byte of the first metadata removed *)
  let '(l1, st1) := feed t_open t_parse t_le_decode r_init bad in
  (l1, r_failed st1, fst (feed t_open t_parse t_le_decode st1 s)) = ([], true, []).
Proof. vm_compute. reflexivity. Qed.

(* Session.Write at the boundaries: kinds, seqs, fragments, lengths *)
Definition pview (l : list pseg) := map (fun p => (p_proto p, p_seq p, p_frag p, lenN (p_payload p))) l.
Definition zerosN (n : N) : list N := repeat 0 (N.to_nat n).
Example ex_plan_0 : pview (plan_events true w_init [WWrite 0 []; WWrite 0 [5]]) = [(2, 0, 0, 0); (6, 1, 0, 1)].
Proof. vm_compute. reflexivity. Qed.
Example ex_plan_1024 : pview (plan_events true w_init [WWrite 0 (zerosN 1024)]) = [(2, 0, 0, 1024)].
Proof. vm_compute. reflexivity. Qed.
Example ex_plan_1025 : pview (plan_events true w_init [WWrite 0 (zerosN 1025)]) = [(2, 0, 0, 0); (6, 1, 0, 1025)].
Proof. vm_compute. reflexivity. Qed.
Example ex_plan_le_no_piggyback : pview (plan_events true w_init [WWrite 2 (zerosN 10)]) = [(2, 0, 0, 0); (10, 1, 0, 10)].
Proof. vm_compute. reflexivity. Qed.
Example ex_frag_sizes : map (fun m => N.of_nat (frag_size m)) [0; 1; 2; 3; 4] = [32768; 32764; 32768; 32768; 32768].
Proof. vm_compute. reflexivity. Qed.


(* Further Example instances (plan_concat, tcp_integrity, tamper_prefix applied; fragment size boundaries):
   proofs/TcpStreamExamples.v.  Concrete codecs: proofs/TcpStreamInst.v. *)
