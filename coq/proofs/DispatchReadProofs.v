(* C10 — proofs about model/Dispatch.v, part 1: protocol classes, typed errors, well-formedness, readOneSegment *)
From Coq Require Import NArith ZArith List Bool Lia.
From M Require Import gen.Consts model.Dispatch.
Import ListNotations.
Open Scope N_scope.

(* ------------------------------------------------------------------ tactics *)
Ltac neq :=
  repeat match goal with
  | H : (_ =? _) = true |- _ => apply N.eqb_eq in H
  | H : (_ =? _) = false |- _ => apply N.eqb_neq in H
  end.

Ltac bsplit :=
  repeat match goal with
  | H : _ && _ = true |- _ => apply andb_true_iff in H; destruct H
  | H : _ || _ = false |- _ => apply orb_false_iff in H; destruct H
  | H : negb _ = true |- _ => apply negb_true_iff in H
  | H : negb _ = false |- _ => apply negb_false_iff in H
  end.

(* ------------------------------------------------------------------ protocol classes *)
Lemma proto_numbers_distinct :
  NoDup [P_openReq; P_openResp; P_closeReq; P_closeResp; P_dataC2S; P_dataS2C; P_ackC2S; P_ackS2C; P_dataC2SLE; P_dataS2CLE].
Proof.
  vm_compute.
  repeat (constructor; [ simpl; intuition discriminate | ]). constructor.
Qed.

Lemma session_dataack_disjoint : forall p, is_session_proto p = true -> is_dataack_proto p = false.
Proof.
  intros p H. unfold is_session_proto, is_dataack_proto, is_data_proto, is_ack_proto, is_le_proto in *.
  repeat (apply orb_true_iff in H; destruct H as [H|H]); apply N.eqb_eq in H; subst p; vm_compute; reflexivity.
Qed.

Lemma ack_not_data : forall p, is_ack_proto p = true -> is_data_proto p = false /\ is_session_proto p = false.
Proof.
  intros p H. unfold is_ack_proto in H.
  apply orb_true_iff in H; destruct H as [H|H]; apply N.eqb_eq in H; subst p; vm_compute; auto.
Qed.

Lemma data_is_dataack : forall p, is_data_proto p = true -> is_dataack_proto p = true.
Proof. intros p H. unfold is_dataack_proto. rewrite H. reflexivity. Qed.
Lemma ack_is_dataack : forall p, is_ack_proto p = true -> is_dataack_proto p = true.
Proof. intros p H. unfold is_dataack_proto. rewrite H. apply orb_true_r. Qed.

Lemma openreq_is_session : is_session_proto P_openReq = true. Proof. vm_compute. reflexivity. Qed.
Lemma openresp_is_session : is_session_proto P_openResp = true. Proof. vm_compute. reflexivity. Qed.
Lemma closereq_is_session : is_session_proto P_closeReq = true. Proof. vm_compute. reflexivity. Qed.
Lemma closeresp_is_session : is_session_proto P_closeResp = true. Proof. vm_compute. reflexivity. Qed.

(* ------------------------------------------------------------------ typed errors (underlay_stream.go:213/216) *)
Definition typed_ok (err : goerr) : Prop :=
  get_error_type (Some err) <> NO_ERROR /\ get_error_type (Some err) <> UNKNOWN_ERROR.

Lemma tcp_parse_error_typed : forall e1 w u pol na err, tcp_parse e1 w u pol na = RErr err -> typed_ok err.
Proof.
  intros e1 w u pol na err H. unfold tcp_parse in H.
  repeat match type of H with
  | (if ?b then _ else _) = _ => destruct b
  | (match ?b with BodyOK => _ | _ => _ end) = _ => destruct b
  end; inversion H; subst; unfold typed_ok; simpl; split; discriminate.
Qed.

(* every error that leaves StreamUnderlay.readOneSegment is a top-level TypedError of a real type *)
Lemma read_one_error_typed : forall e w err, read_one e w = RErr err -> typed_ok err.
Proof.
  intros e w err H. unfold read_one in H. destruct (is_tcp e).
  - unfold tcp_read in H.
    repeat match type of H with
    | (if ?b then _ else _) = _ => destruct b
    | (match ?a with AuthNone => _ | _ => _ end) = _ => destruct a
    end;
    try (apply tcp_parse_error_typed in H; exact H);
    inversion H; subst; unfold typed_ok; simpl; split; discriminate.
  - unfold udp_read in H.
    assert (Hp : forall blk pol na, udp_parse e w blk pol na <> RErr err).
    { intros blk pol na Hc. unfold udp_parse in Hc.
      repeat match type of Hc with
      | (if ?b then _ else _) = _ => destruct b
      | (match ?b with BodyOK => _ | _ => _ end) = _ => destruct b
      | (match ?b with Some _ => _ | None => _ end) = _ => destruct b
      end; discriminate. }
    repeat match type of H with
    | (if ?b then _ else _) = _ => destruct b
    | (match ?a with AuthNone => _ | _ => _ end) = _ => destruct a
    | (match ?a with Some _ => _ | None => _ end) = _ => destruct a
    | (let (_, _) := ?a in _) = _ => destruct a
    end; try discriminate; try (exfalso; eapply Hp; eassumption).
Qed.

(* the wrapping that would break it: fmt.Errorf("%w", typed) is UNKNOWN_ERROR *)
Lemma wrapped_typed_is_unknown : forall t e, get_error_type (Some (EWrapf (ETyped t e))) = UNKNOWN_ERROR.
Proof. reflexivity. Qed.

(* ------------------------------------------------------------------ well-formedness *)
(* cl: underlay is a client; tcp; eu: e_user *)
Definition session_ok (cl tcp : bool) (eu : N) (s : session) : Prop :=
  s_client s = cl /\
  if cl then s_policy s = None /\ (s_block s = None \/ (tcp = true /\ s_block s = Some eu))
  else exists o, o <> 0 /\ s_policy s = Some o /\ (s_block s = None \/ s_block s = Some o) /\
                 (s_user s = 0 \/ s_user s = o) /\ (tcp = true -> o = eu).

Definition wf (e : endpoint) : Prop :=
  (is_client e = true -> e_user e <> 0) /\
  Forall (session_ok (is_client e) (is_tcp e) (e_user e)) (e_sessions e) /\
  NoDup (map s_id (e_sessions e)).

Definition kind_ok (g : segment) : Prop :=
  (is_session_proto (g_proto g) = true /\ g_kind g = KSession) \/
  (is_dataack_proto (g_proto g) = true /\ g_kind g = KDataAck).

(* what readOneSegment guarantees about the segment it returns, relative to the endpoint after the read *)
Definition seg_ok (e1 : endpoint) (g : segment) : Prop :=
  kind_ok g /\
  if is_client e1 then g_policy g = 0 /\ g_block g = (if is_tcp e1 then Some (e_user e1) else None)
  else exists u, u <> 0 /\ g_block g = Some u /\
                 (if is_tcp e1 then u = e_user e1 /\ g_policy g = (if g_new_auth g then u else 0) else g_policy g = u).

Lemma server_owner : forall tcp eu s, session_ok false tcp eu s ->
  exists o, o <> 0 /\ session_owner s = o /\ s_policy s = Some o /\ (s_block s = None \/ s_block s = Some o) /\ (tcp = true -> o = eu).
Proof.
  intros tcp eu s [_ [o [Ho [Hp [Hb [_ Ht]]]]]]. exists o. repeat split; auto.
  unfold session_owner. rewrite Hp. destruct (o =? 0) eqn:E; neq; [congruence|].
  destruct (o =? 0) eqn:E2; neq; congruence.
Qed.

Lemma find_session_In : forall id l s, find_session id l = Some s -> In s l /\ s_id s = id.
Proof.
  induction l as [|a l IH]; simpl; intros s H; [discriminate|].
  destruct (s_id a =? id) eqn:E.
  - inversion H; subst. neq. auto.
  - apply IH in H. tauto.
Qed.

Lemma find_session_none : forall id l, find_session id l = None -> ~ In id (map s_id l).
Proof.
  induction l as [|a l IH]; simpl; intros H; [tauto|].
  destruct (s_id a =? id) eqn:E; [discriminate|]. neq. intros [H1|H1]; [congruence|]. apply IH; auto.
Qed.

Lemma put_session_ids : forall s' l, map s_id (put_session s' l) = map s_id l.
Proof.
  induction l as [|a l IH]; simpl; [reflexivity|].
  destruct (s_id a =? s_id s') eqn:E; simpl; [neq; congruence | rewrite IH; reflexivity].
Qed.

Lemma put_session_Forall : forall (P : session -> Prop) s' l, P s' -> Forall P l -> Forall P (put_session s' l).
Proof.
  induction l as [|a l IH]; simpl; intros Hs Hl; [constructor|].
  inversion Hl; subst. destruct (s_id a =? s_id s'); constructor; auto.
Qed.

Lemma find_put_other : forall s' l id, id <> s_id s' -> find_session id (put_session s' l) = find_session id l.
Proof.
  induction l as [|a l IH]; simpl; intros id Hne; [reflexivity|].
  destruct (s_id a =? s_id s') eqn:E; simpl.
  - neq. destruct (s_id s' =? id) eqn:E1; destruct (s_id a =? id) eqn:E2; neq; try congruence.
  - destruct (s_id a =? id); auto.
Qed.

Lemma session_ok_user_irrelevant : forall cl eu eu' s, session_ok cl false eu s -> session_ok cl false eu' s.
Proof.
  intros cl eu eu' s [H1 H2]. split; auto. destruct cl.
  - destruct H2 as [Hp [Hb|[Hc _]]]; [auto|discriminate].
  - destruct H2 as [o H]. exists o. intuition discriminate.
Qed.

(* a fresh TCP server underlay has no sessions *)
Lemma fresh_tcp_server_empty : forall e, wf e -> is_client e = false -> is_tcp e = true -> e_user e = 0 -> e_sessions e = [].
Proof.
  intros e [_ [HF _]] Hc Ht Hu. rewrite Hc, Ht, Hu in HF.
  destruct (e_sessions e) as [|s l]; [reflexivity|]. inversion HF; subst.
  destruct H1 as [_ [o [Ho [_ [_ [_ H]]]]]]. specialize (H eq_refl). congruence.
Qed.

(* ------------------------------------------------------------------ readOneSegment: no panic, segments well formed *)
Lemma kind_ok_session : forall w blk pol na, is_session_proto (w_proto w) = true -> kind_ok (mk_seg KSession w blk pol na).
Proof. intros. left. simpl. auto. Qed.
Lemma kind_ok_dataack : forall w blk pol na, is_dataack_proto (w_proto w) = true -> kind_ok (mk_seg KDataAck w blk pol na).
Proof. intros. right. simpl. auto. Qed.

Lemma tcp_parse_seg : forall e1 w u pol na e2 g,
  tcp_parse e1 w u pol na = RSeg e2 g ->
  e2 = e1 /\ kind_ok g /\ g_block g = Some u /\ g_policy g = pol /\ g_new_auth g = na.
Proof.
  intros e1 w u pol na e2 g H. unfold tcp_parse in H.
  destruct (negb (w_metalen_ok w)); [discriminate|].
  destruct (is_session_proto (w_proto w)) eqn:Es.
  - repeat match type of H with
    | (if ?b then _ else _) = _ => destruct b
    | (match ?b with BodyOK => _ | _ => _ end) = _ => destruct b
    end; try discriminate; inversion H; subst; (split; [reflexivity|]); (split; [apply kind_ok_session; assumption|]); simpl; auto.
  - destruct (is_dataack_proto (w_proto w)) eqn:Ed; [|discriminate].
    repeat match type of H with
    | (if ?b then _ else _) = _ => destruct b
    | (match ?b with BodyOK => _ | _ => _ end) = _ => destruct b
    end; try discriminate; inversion H; subst; (split; [reflexivity|]); (split; [apply kind_ok_dataack; assumption|]); simpl; auto.
Qed.

Lemma tcp_parse_no_panic : forall e1 w u pol na x, tcp_parse e1 w u pol na <> RPanic x.
Proof.
  intros e1 w u pol na x H. unfold tcp_parse in H.
  repeat match type of H with
  | (if ?b then _ else _) = _ => destruct b
  | (match ?b with BodyOK => _ | _ => _ end) = _ => destruct b
  end; discriminate.
Qed.

Lemma udp_parse_seg : forall e w blk pol na e2 g,
  udp_parse e w blk pol na = RSeg e2 g ->
  e2 = e /\ kind_ok g /\ g_block g = blk /\ g_policy g = pol.
Proof.
  intros e w blk pol na e2 g H. unfold udp_parse in H.
  destruct (negb (w_metalen_ok w)); [discriminate|].
  destruct (is_session_proto (w_proto w)) eqn:Es.
  - repeat match type of H with
    | (if ?b then _ else _) = _ => destruct b
    | (match ?b with BodyOK => _ | _ => _ end) = _ => destruct b
    | (match ?b with Some _ => _ | None => _ end) = _ => destruct b
    end; try discriminate; inversion H; subst; (split; [reflexivity|]); (split; [apply kind_ok_session; assumption|]); simpl; auto.
  - destruct (is_dataack_proto (w_proto w)) eqn:Ed; [|discriminate].
    repeat match type of H with
    | (if ?b then _ else _) = _ => destruct b
    | (match ?b with BodyOK => _ | _ => _ end) = _ => destruct b
    | (match ?b with Some _ => _ | None => _ end) = _ => destruct b
    end; try discriminate; inversion H; subst; (split; [reflexivity|]); (split; [apply kind_ok_dataack; assumption|]); simpl; auto.
Qed.

(* nil-cipher assertions of parseSessionSegment / parseDataAckSegment: unreachable once a cipher decrypted the metadata *)
Lemma udp_parse_no_panic : forall e w blk pol na x,
  (is_client e = false -> blk <> None) -> udp_parse e w blk pol na <> RPanic x.
Proof.
  intros e w blk pol na x Hb H. unfold udp_parse in H.
  destruct (is_client e) eqn:Ec.
  - repeat match type of H with
    | (if ?b then _ else _) = _ => destruct b
    | (match ?b with BodyOK => _ | _ => _ end) = _ => destruct b
    | (match ?b with Some _ => _ | None => _ end) = _ => destruct b
    end; discriminate.
  - destruct blk as [b|]; [|exfalso; apply Hb; auto].
    repeat match type of H with
    | (if ?b then _ else _) = _ => destruct b
    | (match ?b with BodyOK => _ | _ => _ end) = _ => destruct b
    end; discriminate.
Qed.

Lemma wf_with_user_fresh : forall e u, wf e -> is_client e = false -> is_tcp e = true -> e_user e = 0 -> wf (with_user e u).
Proof.
  intros e u H Hc Ht Hu. pose proof (fresh_tcp_server_empty e H Hc Ht Hu) as Hs.
  destruct H as [H1 [H2 H3]]. unfold wf, with_user, is_client, is_tcp in *. simpl in *.
  rewrite Hs. split; [intros Hx; rewrite Hx in Hc; discriminate|]. split; constructor.
Qed.

Lemma read_one_ok : forall e w, wf e ->
  (forall x, read_one e w <> RPanic x) /\
  (forall e1 g, read_one e w = RSeg e1 g ->
     wf e1 /\ seg_ok e1 g /\ e_role e1 = e_role e /\ e_tr e1 = e_tr e /\ e_sessions e1 = e_sessions e).
Proof.
  intros e w Hwf. unfold read_one. destruct (is_tcp e) eqn:Et.
  - (* TCP *)
    unfold tcp_read. destruct (w_short w); [split; intros; discriminate|].
    destruct (negb (is_client e) && (e_user e =? 0)) eqn:Efresh.
    + apply andb_true_iff in Efresh. destruct Efresh as [Ecl Eu0].
      apply negb_true_iff in Ecl. apply N.eqb_eq in Eu0.
      destruct (w_auth w) as [|sid|u]; try (destruct (w_replay w); split; intros; discriminate).
      destruct (u =? 0) eqn:Eu; [destruct (w_replay w); split; intros; discriminate|]. apply N.eqb_neq in Eu.
      destruct (w_replay w); [split; intros; discriminate|].
      split; [intros x; apply tcp_parse_no_panic|].
      intros e1 g Hrd. apply tcp_parse_seg in Hrd. destruct Hrd as [-> [Hk [Hb [Hp Hn]]]].
      split; [apply wf_with_user_fresh; auto|].
      split; [|unfold with_user; simpl; auto].
      split; [exact Hk|].
      assert (Hc1 : is_client (with_user e u) = false) by (unfold is_client, with_user in *; simpl; exact Ecl).
      assert (Ht1 : is_tcp (with_user e u) = true) by (unfold is_tcp, with_user in *; simpl; exact Et).
      rewrite Hc1, Ht1. exists u. rewrite Hn, Hp. simpl. auto.
    + assert (Hnp : forall x, tcp_parse e w (e_user e) 0 false <> RPanic x) by (intros; apply tcp_parse_no_panic).
      assert (Hsg : forall e1 g, tcp_parse e w (e_user e) 0 false = RSeg e1 g ->
                wf e1 /\ seg_ok e1 g /\ e_role e1 = e_role e /\ e_tr e1 = e_tr e /\ e_sessions e1 = e_sessions e).
      { intros e1 g H. apply tcp_parse_seg in H. destruct H as [-> [Hk [Hb [Hp Hn]]]].
        split; [exact Hwf|]. split; [|auto]. split; [exact Hk|]. rewrite Et.
        destruct (is_client e) eqn:Ec.
        - split; [exact Hp | exact Hb].
        - simpl in Efresh. neq. exists (e_user e). rewrite Hn. auto. }
      destruct (w_auth w); [split; intros; discriminate | split; auto | split; auto].
  - (* UDP *)
    unfold udp_read. destruct (is_client e) eqn:Ec.
    + destruct (negb (w_from_server w)); [split; intros; discriminate|].
      destruct (w_short w); [split; intros; discriminate|].
      assert (Hnp : forall x, udp_parse e w None 0 false <> RPanic x)
        by (intros; apply udp_parse_no_panic; intros Hx; rewrite Hx in Ec; discriminate).
      assert (Hsg : forall e1 g, udp_parse e w None 0 false = RSeg e1 g ->
                wf e1 /\ seg_ok e1 g /\ e_role e1 = e_role e /\ e_tr e1 = e_tr e /\ e_sessions e1 = e_sessions e).
      { intros e1 g H. apply udp_parse_seg in H. destruct H as [-> [Hk [Hb Hp]]].
        split; [exact Hwf|]. split; [|auto]. split; [exact Hk|]. rewrite Ec, Et. auto. }
      destruct (w_auth w); [split; intros; discriminate | split; auto | split; auto].
    + destruct (w_short w); [split; intros; discriminate|].
      (* the decrypting cipher and its policy *)
      set (r := match w_auth w with
                | AuthNone => None
                | AuthExisting sid =>
                    match find_session sid (e_sessions e) with
                    | Some s => match s_block s with
                                | Some b => Some (Some b, match s_policy s with Some p => p | None => 0 end, false)
                                | None => None
                                end
                    | None => None
                    end
                | AuthUser u => if u =? 0 then None else Some (Some u, u, true)
                end).
      assert (Hr : forall blk pol na, r = Some (blk, pol, na) -> exists u, u <> 0 /\ blk = Some u /\ pol = u).
      { intros blk pol na Hr. subst r. destruct (w_auth w) as [|sid|u]; [discriminate| |].
        - destruct (find_session sid (e_sessions e)) as [s|] eqn:Ef; [|discriminate].
          apply find_session_In in Ef. destruct Ef as [Hin _].
          destruct Hwf as [_ [HF _]]. rewrite Forall_forall in HF. specialize (HF s Hin). rewrite Ec in HF.
          destruct HF as [_ [o [Ho [Hp [Hb _]]]]].
          destruct (s_block s) as [b|] eqn:Eb; [|discriminate].
          assert (Hbp : blk = Some b /\ pol = match s_policy s with Some p => p | None => 0 end) by (inversion Hr; auto).
          destruct Hbp as [-> ->].
          destruct Hb as [Hb|Hb]; [discriminate|]. injection Hb as ->. exists o. rewrite Hp. auto.
        - destruct (u =? 0) eqn:Eu; [discriminate|]. apply N.eqb_neq in Eu.
          assert (Hbp : blk = Some u /\ pol = u) by (inversion Hr; auto). destruct Hbp as [-> ->]. exists u. auto. }
      destruct r as [[[blk pol] na]|] eqn:Er; [|split; intros; discriminate].
      destruct (Hr blk pol na eq_refl) as [u [Hu [-> ->]]].
      destruct (w_replay w); [split; intros; discriminate|].
      split; [intros x; apply udp_parse_no_panic; intros _; discriminate|].
      intros e1 g H. apply udp_parse_seg in H. destruct H as [-> [Hk [Hb Hp]]].
      split; [exact Hwf|]. split; [|auto]. split; [exact Hk|]. rewrite Ec, Et. exists u. auto.
Qed.


(* ------------------------------------------------------------------ the same fact, read off the Go syntax tree
   harness/cmd/dumpconsts/consts_c10_ast.go walks StreamUnderlay.readOneSegment and every package function
   whose error result it hands on, and counts the `return ..., err` statements whose error is neither nil, nor a
   stderror.Wrap.../New... call, nor a variable whose reaching assignments are of these kinds (or calls of
   functions that pass the same check). The count is regenerated from /repo on every run. *)
Lemma stream_read_returns_typed_in_source :
  C10_StreamReadUntypedReturns = 0%Z /\ (0 < C10_StreamReadErrorReturns)%Z.
Proof. split; reflexivity. Qed.
