(* Proofs for C15: Deadline.v (deadline state) and Lifecycle.v (close / wait points). *)
From Coq Require Import ZArith List Bool Arith Lia.
From M Require Import gen.Consts model.Deadline model.Lifecycle.
Import ListNotations.

(* ------------------------------------------------------------------------------------------ constants *)

Lemma C15_consts_ok :
  (C15_closeWaitIterations = 1000 /\ C15_closeWaitSleep_ns = 1000000 /\ C15_serverRespTimeout_ns = 10000000000
   /\ 60000000000 <= C15_readOneSegmentTimeout_ns <= 120000000000 /\ C15_idleSessionTimeout_ns = 60000000000
   /\ C15_sessionCleanInterval_ns = 5000000000 /\ C15_backPressureDelay_ns = 100000)%Z.
Proof. vm_compute. intuition congruence. Qed.

(* graceful close waits at most 1 s *)
Lemma close_wait_bound : (C15_closeWaitIterations * C15_closeWaitSleep_ns = 1000000000)%Z.
Proof. reflexivity. Qed.

(* ------------------------------------------------------------------------------------------ Deadline.v *)
Section DeadlineFacts.
Open Scope Z_scope.

Lemma omin_some_l : forall x b, exists m, omin (Some x) b = Some m /\ m <= x.
Proof. intros x [y|]; simpl; eexists; split; eauto; lia. Qed.

Lemma omin_le_r : forall a y, exists m, omin a (Some y) = Some m /\ m <= y.
Proof. intros [x|] y; simpl; eexists; split; eauto; lia. Qed.

(* the first Read after a deadline was stored returns by the deadline, whatever else happens *)
Lemma read_single_call : forall now eff data closed err,
  eff <> 0 -> exists c t, read_outcome now eff data closed err = (c, Some t) /\ t <= Z.max now eff /\ now <= t.
Proof.
  intros now eff data closed err Hne. unfold read_outcome, dl_exit.
  destruct (eff =? 0) eqn:E; [apply Z.eqb_eq in E; contradiction|].
  destruct data as [d|], closed as [c|], err as [e|]; simpl;
  repeat match goal with |- context [if ?b then _ else _] => destruct b eqn:? end;
  eexists; eexists; (split; [reflexivity|]); lia.
Qed.

Definition persists_read (cl : bool) : Prop :=
  forall t0 d l, 0 < d -> t0 <= d -> forallb is_read l = true ->
    length (Deadline.run (mkSt t0 (mkD d 0) cl) l) = length l /\ forallb (returns_by d) (Deadline.run (mkSt t0 (mkD d 0) cl) l) = true.

Definition never : option Z := None.

Lemma read_deadline_witness : forall cl,
  Deadline.run (mkSt 0 (mkD 0 0) cl) [OSet WhR 200000; ORead never never never; ORead never never never]
  = [(TIMEOUT, Some 200000); (BLOCKED, None)].
Proof. intros []; vm_compute; reflexivity. Qed.

Lemma read_deadline_refuted : forall cl, ~ persists_read cl.
Proof.
  intros cl H. specialize (H 0 200000 [ORead never never never; ORead never never never]).
  destruct H as [_ H]; [lia|lia|reflexivity|]. destruct cl; vm_compute in H; discriminate.
Qed.

(* the same shape for the write deadline: the first Write times out at d, the second never returns *)
Lemma write_deadline_witness : forall cl,
  Deadline.run (mkSt 0 (mkD 0 0) cl) [OSet WhW 200000; OWrite false never (Some 0) (Some 0) never never; OWrite false never (Some 0) (Some 0) never never]
  = [(TIMEOUT, Some 200000); (BLOCKED, None)].
Proof. intros []; vm_compute; reflexivity. Qed.

Definition persists_write (cl : bool) : Prop :=
  forall t0 d l, 0 < d -> t0 <= d -> forallb is_write l = true ->
    forallb (returns_by d) (Deadline.run (mkSt t0 (mkD 0 d) cl) l) = true /\ length (Deadline.run (mkSt t0 (mkD 0 d) cl) l) = length l.

Lemma write_deadline_refuted : forall cl, ~ persists_write cl.
Proof.
  intros cl H. specialize (H 0 200000 [OWrite false never (Some 0) (Some 0) never never; OWrite false never (Some 0) (Some 0) never never]).
  destruct H as [H _]; [lia|lia|reflexivity|]. destruct cl; vm_compute in H; discriminate.
Qed.

(* a Write whose queue has room but whose output side does not move (oLock held in conn.Write, or the queue
   does not drain) does not look at its deadline at all *)
Lemma write_deadline_ignored_when_stalled : forall now eff closed oerr,
  write_outcome now eff false (Some now) None (Some now) closed oerr = (BLOCKED, None)
  /\ write_outcome now eff false (Some now) (Some now) None None oerr =
     (if (match dl_exit now eff with Some x => x <=? now | None => false end) then write_outcome now eff false (Some now) (Some now) None None oerr
      else if (match at_or_after now oerr with Some x => x <=? now | None => false end) then write_outcome now eff false (Some now) (Some now) None None oerr
      else (BLOCKED, None)).
Proof.
  intros. split.
  - unfold write_outcome, dl_exit. destruct closed, oerr; simpl; destruct (eff =? 0); simpl;
    repeat match goal with |- context [if ?b then _ else _] => destruct b eqn:? end; try reflexivity;
    repeat match goal with H : (_ =? _) = false |- _ => apply Z.eqb_neq in H end; try lia.
  - destruct (match dl_exit now eff with Some x => x <=? now | None => false end) eqn:A; [reflexivity|].
    destruct (match at_or_after now oerr with Some x => x <=? now | None => false end) eqn:B; [reflexivity|].
    unfold write_outcome, dl_exit in *. destruct oerr; simpl in *; destruct (eff =? 0); simpl in *;
    repeat match goal with |- context [if ?b then _ else _] => destruct b eqn:? end; try reflexivity;
    repeat match goal with
           | H : (_ =? _) = false |- _ => apply Z.eqb_neq in H
           | H : (_ =? _) = true |- _ => apply Z.eqb_eq in H
           | H : (_ <=? _) = false |- _ => apply Z.leb_gt in H
           | H : (_ <=? _) = true |- _ => apply Z.leb_le in H end; try lia.
Qed.

(* first Write after a deadline was stored, output side live (lock free and queue draining at once): by the deadline *)
Lemma write_single_call_live : forall now eff space closed oerr,
  eff <> 0 -> exists c t, write_outcome now eff false space (Some now) (Some now) closed oerr = (c, Some t) /\ t <= Z.max now eff.
Proof.
  intros now eff space closed oerr Hne. unfold write_outcome, dl_exit.
  destruct (eff =? 0) eqn:E; [apply Z.eqb_eq in E; contradiction|].
  destruct space as [sp|], closed as [c|], oerr as [e|]; simpl;
  repeat match goal with |- context [if ?b then _ else _] => destruct b eqn:? end;
  eexists; eexists; (split; [reflexivity|]);
  repeat match goal with
         | H : (_ =? _) = false |- _ => apply Z.eqb_neq in H
         | H : (_ =? _) = true |- _ => apply Z.eqb_eq in H
         | H : (_ <=? _) = false |- _ => apply Z.leb_gt in H
         | H : (_ <=? _) = true |- _ => apply Z.leb_le in H end; lia.
Qed.

(* the client's own arming: a completed client Write replaces whatever read deadline the user had set *)
Lemma client_write_overwrites_read_deadline : forall t s,
  rd (write_return true false OK t s) = t + 10000000 /\ wd (write_return true false OK t s) = 0.
Proof. intros; split; reflexivity. Qed.

Lemma server_write_keeps_read_deadline : forall c t s, rd (write_return false false c t s) = rd s.
Proof. intros; reflexivity. Qed.

Lemma client_write_witness :
  Deadline.run (mkSt 0 (mkD 0 0) true) [OSet WhR 300000; OWrite false (Some 0) (Some 0) (Some 50000) never never; ORead never never never]
  = [(OK, Some 50000); (TIMEOUT, Some 10050000)].
Proof. vm_compute; reflexivity. Qed.

End DeadlineFacts.
Close Scope Z_scope.
Open Scope nat_scope.

(* ------------------------------------------------------------------------------------------ Lifecycle.v *)

Definition active (p : cpc) : nat := match p with CIdle | CRet => 0 | _ => 1 end.
Definition b2n (b : bool) : nat := if b then 1 else 0.
Definition activeO (p : lpc) : nat := match p with LErr _ c => active c | _ => 0 end.

Record inv (s : state) : Prop := mkInv {
  inv_closed_req : closedChan s = true -> closeRequested s = true;
  inv_nclosed : nclosed s = b2n (closedChan s);
  inv_one_closer : active (pC1 s) + active (pC2 s) + activeO (pO s) + b2n (closedChan s) = b2n (closeRequested s);
  inv_queue : closedChan s = true -> sendMoved s = true /\ sendFull s = false;
  inv_held : forall h c, pO s = LErr h c -> h = keepLock s
}.

Lemma inv_init_v : forall k c a, inv (init_v k c a).
Proof. intros; constructor; simpl; intros; try discriminate; reflexivity. Qed.

Lemma inv_init : forall c a, inv (init c a).
Proof. intros; apply inv_init_v. Qed.

Ltac brk :=
  repeat match goal with
         | H : Some _ = Some _ |- _ => inversion H; subst; clear H
         | H : None = Some _ |- _ => discriminate H
         | H : context [match ?x with _ => _ end] |- _ => destruct x eqn:?; simpl in H
         end.

Lemma call_close_inv : forall one s s', inv s -> call_close one s = Some s' -> inv s'.
Proof.
  intros one s s' [I1 I2 I3 I4 I5] H. unfold call_close, close_begin in H.
  destruct one; simpl in H; brk; constructor; simpl in *; intros; auto; try (eapply I5; eassumption);
  try (rewrite ?Heqc in *; simpl in *);
  repeat match goal with H : closeRequested _ = _ |- _ => rewrite H in * end;
  try (destruct (closedChan s) eqn:CC; [specialize (I1 eq_refl); congruence|]); simpl in *; try lia; try congruence; auto;
  destruct (attached s); simpl; lia.
Qed.

Lemma step_closer_inv : forall one s s', inv s -> step_closer one s = Some s' -> inv s'.
Proof.
  intros one s s' [I1 I2 I3 I4 I5] H. unfold step_closer in H.
  destruct one; simpl in H; brk; constructor; simpl in *; intros; auto; try (eapply I5; eassumption);
  repeat match goal with H : pC1 _ = _ |- _ => rewrite H in * end;
  repeat match goal with H : pC2 _ = _ |- _ => rewrite H in * end;
  simpl in *;
  try (destruct (closedChan s) eqn:CC; destruct (closeRequested s) eqn:CR; simpl in *; try lia; try congruence; auto; fail);
  auto.
Qed.

Lemma step_inv : forall l s s', inv s -> step l s = Some s' -> inv s'.
Proof.
  intros l s s' I H.
  destruct l; simpl in H;
  try (eapply call_close_inv; eassumption);
  try (eapply step_closer_inv; eassumption).
  all: try (destruct I as [I1 I2 I3 I4 I5]; brk; constructor; simpl in *; intros; auto; try (eapply I5; eassumption);
            try (destruct (I4 ltac:(assumption)); split; congruence); try congruence; fail).
  all: try (destruct I as [I1 I2 I3 I4 I5]; brk; constructor; simpl in *; intros; auto; try (eapply I5; eassumption);
            destruct (closedChan s) eqn:CC; try discriminate;
            try (pose proof (I1 eq_refl)); try (destruct (I4 eq_refl)); simpl in *; try congruence; try (split; congruence); fail).
  all: try (destruct I as [I1 I2 I3 I4 I5]; brk; constructor; simpl in *; intros; auto; try (eapply I5; eassumption);
            repeat match goal with Hq : closeRequested ?x = _ |- context [closeRequested ?x] => rewrite Hq end; simpl; auto;
            destruct (closedChan s) eqn:CC; try discriminate;
            try (pose proof (I1 eq_refl)); try (destruct (I4 eq_refl)); simpl in *; try congruence; try (split; congruence); fail).
  (* TO *)
  - destruct I as [I1 I2 I3 I4 I5]. destruct (pO s) eqn:PO; try discriminate; simpl in *; try (destruct c).
    all: brk; constructor; simpl in *; intros; auto; try discriminate;
         try (match goal with Hx : LErr _ _ = LErr _ _ |- _ => inversion Hx; subst; try reflexivity; eapply (I5 _ _ eq_refl) end);
         repeat match goal with Hq : closeRequested ?x = _ |- context [closeRequested ?x] => rewrite Hq end;
         destruct (closedChan s) eqn:CC; destruct (closeRequested s) eqn:CR; simpl in *; try lia; try congruence; auto;
         try (destruct (attached s); simpl; lia); try (destruct (I4 eq_refl); split; congruence).
  (* TU *)
  - destruct (pU s) eqn:PU; try discriminate.
    + destruct (pC2 s) eqn:PC; try (eapply step_closer_inv; eassumption).
      * eapply call_close_inv; eassumption.
      * inversion H; subst; clear H. destruct I as [I1 I2 I3 I4 I5]. constructor; simpl in *; intros; auto; try (eapply I5; eassumption).
        rewrite PC in I3; simpl in *. lia.
    + destruct I as [I1 I2 I3 I4 I5]; brk; constructor; simpl in *; intros; auto; rewrite ?Heql0 in *; simpl; auto; try discriminate.
    + destruct I as [I1 I2 I3 I4 I5]; inversion H; subst; constructor; simpl in *; intros; auto; try (eapply I5; eassumption).
Qed.

Lemma run_inv : forall ls s s', inv s -> run s ls = Some s' -> inv s'.
Proof.
  induction ls; simpl; intros s s' I H.
  - inversion H; subst; auto.
  - destruct (step a s) eqn:E; [|discriminate]. eapply IHls; [eapply step_inv; eauto|eauto].
Qed.

Definition reachable (s : state) : Prop := exists c a ls, run (init c a) ls = Some s.

Lemma reachable_inv : forall s, reachable s -> inv s.
Proof. intros s (c & a & ls & H). eapply run_inv; [apply inv_init|eauto]. Qed.

(* closed exactly once: close(closedChan) is never executed twice, in any interleaving *)
Lemma closed_at_most_once : forall s, reachable s -> nclosed s <= 1.
Proof. intros s R. destruct (reachable_inv s R) as [_ I2 _ _ _]. rewrite I2. destruct (closedChan s); simpl; lia. Qed.

Lemma closed_exactly_once : forall s, reachable s -> closedChan s = true -> nclosed s = 1.
Proof. intros s R H. destruct (reachable_inv s R) as [_ I2 _ _ _]. rewrite I2, H. reflexivity. Qed.

(* a later Close is a no-op that returns at once: nothing but the caller's own program counter changes *)
Lemma later_close_noop : forall (one : bool) s, closeRequested s = true -> (if one then pC1 s else pC2 s) = CIdle ->
  call_close one s = Some (setC one s CRet).
Proof. intros one s H P. unfold call_close. rewrite P, H. reflexivity. Qed.

(* only one caller ever runs the closing sequence *)
Lemma single_closer : forall s, reachable s -> active (pC1 s) + active (pC2 s) <= 1.
Proof. intros s R. destruct (reachable_inv s R) as [_ _ I3 _ _]. destruct (closeRequested s), (closedChan s); simpl in *; lia. Qed.

(* closedChan, closeRequested, connDL, udone never go back *)
Lemma step_monotone : forall l s s', step l s = Some s' ->
  (closedChan s = true -> closedChan s' = true) /\ (closeRequested s = true -> closeRequested s' = true)
  /\ (connDL s = true -> connDL s' = true) /\ (udone s = true -> udone s' = true).
Proof.
  intros l s s' H.
  assert (CC : forall one s s', call_close one s = Some s' ->
     (closedChan s = true -> closedChan s' = true) /\ (closeRequested s = true -> closeRequested s' = true)
     /\ (connDL s = true -> connDL s' = true) /\ (udone s = true -> udone s' = true)).
  { clear. intros one s s' H. unfold call_close, close_begin in H. destruct one; simpl in H; brk; simpl; auto. }
  assert (SC : forall one s s', step_closer one s = Some s' ->
     (closedChan s = true -> closedChan s' = true) /\ (closeRequested s = true -> closeRequested s' = true)
     /\ (connDL s = true -> connDL s' = true) /\ (udone s = true -> udone s' = true)).
  { clear. intros one s s' H. unfold step_closer in H. destruct one; simpl in H; brk; simpl; auto. }
  destruct l; simpl in H; try (eapply SC; eassumption); try (eapply CC; eassumption).
  all: try (brk; simpl; repeat split; intros; simpl; auto; congruence).
  destruct (pU s) eqn:PU; try discriminate.
  - destruct (pC2 s) eqn:PC; try (eapply SC; eassumption); try (eapply CC; eassumption).
    inversion H; subst; simpl; repeat split; auto.
  - brk; simpl; repeat split; auto.
  - inversion H; subst; simpl; repeat split; auto.
Qed.

(* --- every wait point of an affected call has an enabled exit once the session is closed ----------------- *)

Lemma unblock_reader : forall s a, closedChan s = true -> pR s = RWait a ->
  exists s' c, step TR s = Some s' /\ pR s' = RRet c /\ (c = DATA \/ c = EOF).
Proof.
  intros s a H P. simpl. rewrite P. unfold read_exits. rewrite H.
  destruct (recvNonEmpty s); simpl; eexists; eexists; (split; [reflexivity|]); simpl; auto.
Qed.

Lemma unblock_writer : forall s, inv s -> closedChan s = true ->
  (forall a, pW s = WSpace a -> exists s', step TW s = Some s' /\ pW s' = WRet EOF)
  /\ (forall a, pW s = WOLock a -> olock_free s = true -> exists s', step TW s = Some s' /\ pW s' = WRet EOF)
  /\ (pW s = WMove -> exists s', step TW s = Some s' /\ pW s' = WRet OK).
Proof.
  intros s I H. destruct (inv_queue s I H) as [M F]. repeat split; intros.
  - simpl. rewrite H0. unfold wspace_exits. rewrite H. simpl. eexists; split; reflexivity.
  - simpl. rewrite H0, H1, H. eexists; split; reflexivity.
  - simpl. rewrite H0, M. eexists; split; reflexivity.
Qed.

Lemma write_after_close_requested : forall s, closeRequested s = true -> pW s = WIdle ->
  exists s', step ACallWrite s = Some s' /\ pW s' = WRet CLOSED.
Proof. intros s H P. simpl. rewrite P, H. eexists; split; reflexivity. Qed.

Lemma read_after_closed : forall s, closedChan s = true -> pR s = RIdle ->
  exists s1, step ACallRead s = Some s1 /\
    ((exists c, pR s1 = RRet c) \/ exists a s2 c, pR s1 = RWait a /\ step TR s1 = Some s2 /\ pR s2 = RRet c).
Proof.
  intros s H P. simpl. rewrite P. destruct (recvNonEmpty s) eqn:D.
  - eexists; split; [reflexivity|]. left. eexists. reflexivity.
  - eexists; split; [reflexivity|]. right. exists (rdSet s). simpl. unfold read_exits; simpl. rewrite ?H, ?D. simpl.
    eexists; eexists; repeat split; reflexivity.
Qed.

Lemma unblock_loops : forall s, closedChan s = true ->
  (pI s = LRun -> exists s', step TI s = Some s' /\ pI s' = LExited)
  /\ (pI s = LRecvSpace -> exists s', step TI s = Some s' /\ pI s' = LRun)
  /\ (pO s = LRun -> exists s', step TO s = Some s' /\ pO s' = LExited)
  /\ (pO s = LConnWrite -> net_ok s = true -> exists s', step TO s = Some s' /\ (pO s' = LRun \/ pO s' = LErr (keepLock s) CIdle))
  /\ (pE s = EDeliver -> exists s', step TE s = Some s' /\ pE s' = ERun).
Proof.
  intros s H. repeat split; intros; simpl.
  - rewrite H0, H. eexists; split; reflexivity.
  - rewrite H0, H. eexists; split; reflexivity.
  - rewrite H0, H. eexists; split; reflexivity.
  - rewrite H0. unfold net_ok in H1. destruct (netStalled s), (connDL s), (netBroken s); simpl in *; try discriminate;
    eexists; (split; [reflexivity|]); simpl; auto.
  - rewrite H0, H. rewrite orb_true_r. eexists; split; reflexivity.
Qed.

(* --- for EVERY interleaving: once closed, a waiting Read returns at its first own step and stays returned -- *)

Lemma step_pR_frame : forall l s s', step l s = Some s' -> l <> TR -> l <> ATakeR -> l <> ACallRead -> pR s' = pR s.
Proof.
  intros l s s' H N1 N2 N3.
  assert (CC : forall one s s', call_close one s = Some s' -> pR s' = pR s).
  { clear. intros one s s' H. unfold call_close, close_begin in H. destruct one; simpl in H; brk; reflexivity. }
  assert (SC : forall one s s', step_closer one s = Some s' -> pR s' = pR s).
  { clear. intros one s s' H. unfold step_closer in H. destruct one; simpl in H; brk; reflexivity. }
  destruct l; try congruence; simpl in H; try (eapply SC; eassumption); try (eapply CC; eassumption).
  all: try (brk; reflexivity).
  destruct (pU s) eqn:PU; try discriminate.
  - destruct (pC2 s) eqn:PC; try (eapply SC; eassumption); try (eapply CC; eassumption).
    inversion H; subst; reflexivity.
  - brk; reflexivity.
  - inversion H; subst; reflexivity.
Qed.

Lemma run_closed : forall ls s s', run s ls = Some s' -> closedChan s = true -> closedChan s' = true.
Proof.
  induction ls; simpl; intros s s' H C.
  - inversion H; subst; auto.
  - destruct (step a s) eqn:E; [|discriminate]. eapply IHls; eauto. eapply step_monotone; eauto.
Qed.

Definition no_retake (ls : list label) : Prop := ~ In ATakeR ls.

Lemma reader_returned_stays : forall ls s s' c, pR s = RRet c -> no_retake ls -> run s ls = Some s' -> pR s' = RRet c.
Proof.
  induction ls; simpl; intros s s' c P N H.
  - inversion H; subst; auto.
  - destruct (step a s) eqn:E; [|discriminate].
    assert (Na : a <> ATakeR) by (intro; subst; apply N; left; reflexivity).
    assert (N' : no_retake ls) by (intro X; apply N; right; exact X).
    destruct a; try congruence;
      try (eapply IHls; [|exact N'|exact H]; erewrite step_pR_frame; [exact P|exact E| | |]; congruence).
    + simpl in E. rewrite P in E. discriminate.
    + simpl in E. rewrite P in E. discriminate.
Qed.

Lemma unblock_reader_trace : forall ls s s' a,
  closedChan s = true -> pR s = RWait a -> no_retake ls -> run s ls = Some s' ->
  (In TR ls -> exists c, pR s' = RRet c /\ (c = DATA \/ c = EOF \/ c = UEOF \/ c = TIMEOUT))
  /\ (~ In TR ls -> pR s' = RWait a /\ exists s'', step TR s' = Some s'').
Proof.
  induction ls; simpl; intros s s' a0 C P N H.
  - inversion H; subst. split; [tauto|]. intros _. split; auto.
    destruct (unblock_reader s' a0 C P) as (s2 & c & E & _). eauto.
  - destruct (step a s) eqn:E; [|discriminate].
    assert (Na : a <> ATakeR) by (intro; subst; apply N; left; reflexivity).
    assert (N' : no_retake ls) by (intro X; apply N; right; exact X).
    assert (C' : closedChan s0 = true) by (eapply step_monotone; eauto).
    destruct a; try congruence;
      try (assert (P' : pR s0 = RWait a0) by (erewrite step_pR_frame; [exact P|exact E| | |]; congruence);
           destruct (IHls s0 s' a0 C' P' N' H) as [A B]; split;
           [intros [X|X]; [congruence|auto] | intros X; apply B; intro Y; apply X; right; exact Y]).
    + (* ACallRead: not idle *) simpl in E. rewrite P in E. discriminate.
    + (* TR *) split; [|intros X; exfalso; apply X; left; reflexivity]. intros _.
      simpl in E. rewrite P in E. unfold read_exits in E. rewrite C in E.
      assert (exists c, pR s0 = RRet c /\ (c = DATA \/ c = EOF \/ c = UEOF \/ c = TIMEOUT)).
      { destruct (recvNonEmpty s); simpl in E; inversion E; subst; simpl; eexists; split; eauto. }
      destruct H0 as (c & Pc & Hc). exists c. split; auto. eapply reader_returned_stays; eauto.
Qed.

(* --- Close itself: bounded, unless the output lock is held by a stalled conn.Write ------------------------ *)

Lemma closer_step_decreases : forall one s s', step_closer one s = Some s' ->
  mC (if one then pC1 s' else pC2 s') < mC (if one then pC1 s else pC2 s).
Proof.
  intros one s s' H. unfold step_closer in H. destruct one; simpl in H; brk; simpl; lia.
Qed.

Lemma closer_start_bound : forall (one : bool) s s', call_close one s = Some s' ->
  mC (if one then pC1 s' else pC2 s') <= grace_iters + 4.
Proof.
  intros one s s' H. unfold call_close, close_begin in H. destruct one; simpl in H; brk; simpl;
  repeat match goal with |- context [if ?b then _ else _] => destruct b end; simpl; lia.
Qed.

Lemma closer_enabled : forall (one : bool) s, active (if one then pC1 s else pC2 s) = 1 ->
  olock_free s = true \/ (if one then pC1 s else pC2 s) <> COLock ->
  net_ok s = true \/ (if one then pC1 s else pC2 s) <> COutput ->
  exists s', step_closer one s = Some s'.
Proof.
  intros one s A L N. unfold step_closer. destruct one; simpl in *.
  - destruct (pC1 s) eqn:P; simpl in A; try discriminate.
    + destruct n; [eexists; reflexivity|]. destruct (olock_free s && net_ok s && negb (outputErr s)); eexists; reflexivity.
    + destruct L as [L|L]; [rewrite L; eexists; reflexivity|congruence].
    + destruct N as [N|N]; [rewrite N; eexists; reflexivity|congruence].
    + eexists; reflexivity.
  - destruct (pC2 s) eqn:P; simpl in A; try discriminate.
    + destruct n; [eexists; reflexivity|]. destruct (olock_free s && net_ok s && negb (outputErr s)); eexists; reflexivity.
    + destruct L as [L|L]; [rewrite L; eexists; reflexivity|congruence].
    + destruct N as [N|N]; [rewrite N; eexists; reflexivity|congruence].
    + eexists; reflexivity.
Qed.

(* the session Close of the application can be stuck for good: output loop inside a stalled conn.Write holds the
   lock, the 1000 polls run out, Close waits for the lock; no thread of this end can move *)
Definition stall_trace : list label :=
  [ENetStall true; TO; ACallClose1] ++ repeat TC1 (S grace_iters).

Lemma session_close_can_block :
  exists s, run (init true true) stall_trace = Some s
    /\ pC1 s = COLock /\ pO s = LConnWrite /\ closedChan s = false
    /\ step TC1 s = None /\ step TO s = None /\ step TC2 s = None /\ step TR s = None /\ step TW s = None.
Proof. vm_compute. eexists. repeat split; reflexivity. Qed.

(* the underlay / mux Close sets the connection deadline first: from then on the stalled write returns, the lock
   is released and the closing sequence completes *)
Lemma underlay_close_releases : forall s, run (init true true) stall_trace = Some s ->
  exists s', run s [ACallUnderlayClose; TO; TO; TO; TC1; TC1; TC1; TO; TI; TU; TU; TU; TU] = Some s'
    /\ closedChan s' = true /\ pC1 s' = CRet /\ pO s' = LExited /\ pI s' = LExited /\ pU s' = URet /\ udone s' = true /\ nclosed s' = 1.
Proof.
  intros s H. vm_compute in H. inversion H; subst; clear H. vm_compute. eexists. repeat split; reflexivity.
Qed.

(* BEFORE the fix (variant fixedLoop = false): the event loop, woken by the first SetDeadline(now), finds done still
   open, re-arms its long read timeout (which replaces the past deadline) and blocks in the read; the underlay Close
   then finishes - and the loop stays in the read until the timeout fires or a segment arrives: a Mux.Close that waits
   for its event loops waits that long *)
Definition rearm_trace : list label := [TE; TE; ACallUnderlayClose; TE; TE; TE; TU; TU; TU; TU; TO; TI; TU].

Lemma event_loop_rearm_before_fix :
  exists s, run (init_vv false false true true) rearm_trace = Some s
    /\ pU s = URet /\ udone s = true /\ pE s = ERead /\ readDL s = false /\ step TE s = None.
Proof. vm_compute. eexists. repeat split; reflexivity. Qed.

(* the same schedule on the fixed code: the second SetDeadline(now) comes after close(done) and wakes the read *)
Lemma event_loop_rearm_trace_fixed :
  exists s, run (init true true) (rearm_trace ++ [TU; TE; TE]) = Some s /\ pU s = URet /\ pE s = EExited.
Proof. vm_compute. eexists. repeat split; reflexivity. Qed.

(* closed exactly once; later Close calls are no-ops that return *)
Lemma close_idempotent_all : forall s, reachable s ->
  nclosed s <= 1 /\ (closedChan s = true -> nclosed s = 1) /\ active (pC1 s) + active (pC2 s) <= 1
  /\ (forall one : bool, closeRequested s = true -> (if one then pC1 s else pC2 s) = CIdle -> call_close one s = Some (setC one s CRet)).
Proof.
  intros s R. repeat split.
  - apply closed_at_most_once; auto.
  - apply closed_exactly_once; auto.
  - apply single_closer; auto.
  - intros. apply later_close_noop; auto.
Qed.

(* Close is bounded: its measure starts at most at grace_iters + 4, every own step lowers it, and an own step is
   enabled unless it waits for the output lock held by a stalled conn.Write (or its own conn.Write is stalled) *)
Lemma close_bounded_all :
  (forall (one : bool) s s', call_close one s = Some s' -> mC (if one then pC1 s' else pC2 s') <= grace_iters + 4)
  /\ (forall one s s', step_closer one s = Some s' -> mC (if one then pC1 s' else pC2 s') < mC (if one then pC1 s else pC2 s))
  /\ (forall (one : bool) s, active (if one then pC1 s else pC2 s) = 1 ->
        olock_free s = true \/ (if one then pC1 s else pC2 s) <> COLock ->
        net_ok s = true \/ (if one then pC1 s else pC2 s) <> COutput -> exists s', step_closer one s = Some s')
  /\ grace_iters = 1000.
Proof.
  repeat split.
  - apply closer_start_bound.
  - apply closer_step_decreases.
  - apply closer_enabled.
Qed.

Lemma unblock_waitpoints_all : forall s, inv s -> closedChan s = true ->
  (forall a, pR s = RWait a -> exists s' c, step TR s = Some s' /\ pR s' = RRet c /\ (c = DATA \/ c = EOF))
  /\ (forall a, pW s = WSpace a -> exists s', step TW s = Some s' /\ pW s' = WRet EOF)
  /\ (forall a, pW s = WOLock a -> olock_free s = true -> exists s', step TW s = Some s' /\ pW s' = WRet EOF)
  /\ (pW s = WMove -> exists s', step TW s = Some s' /\ pW s' = WRet OK)
  /\ (pI s = LRun -> exists s', step TI s = Some s' /\ pI s' = LExited)
  /\ (pI s = LRecvSpace -> exists s', step TI s = Some s' /\ pI s' = LRun)
  /\ (pO s = LRun -> exists s', step TO s = Some s' /\ pO s' = LExited)
  /\ (pO s = LConnWrite -> net_ok s = true -> exists s', step TO s = Some s' /\ (pO s' = LRun \/ pO s' = LErr (keepLock s) CIdle))
  /\ (pE s = EDeliver -> exists s', step TE s = Some s' /\ pE s' = ERun).
Proof.
  intros s I H. destruct (unblock_writer s I H) as (W1 & W2 & W3). destruct (unblock_loops s H) as (L1 & L2 & L3 & L4 & L5).
  repeat split; auto. intros a P. eapply unblock_reader; eauto.
Qed.


(* --- the write-error path of the output loop ------------------------------------------------------------ *)

Lemma step_keepLock : forall l s s', step l s = Some s' -> keepLock s' = keepLock s.
Proof.
  intros l s s' H.
  assert (CC : forall one s s', call_close one s = Some s' -> keepLock s' = keepLock s).
  { clear. intros one s s' H. unfold call_close, close_begin in H. destruct one; simpl in H; brk; reflexivity. }
  assert (SC : forall one s s', step_closer one s = Some s' -> keepLock s' = keepLock s).
  { clear. intros one s s' H. unfold step_closer in H. destruct one; simpl in H; brk; reflexivity. }
  destruct l; simpl in H; try (eapply SC; eassumption); try (eapply CC; eassumption).
  all: try (brk; reflexivity).
  destruct (pU s) eqn:PU; try discriminate.
  - destruct (pC2 s) eqn:PC; try (eapply SC; eassumption); try (eapply CC; eassumption).
    inversion H; subst; reflexivity.
  - brk; reflexivity.
  - inversion H; subst; reflexivity.
Qed.

Lemma run_keepLock : forall ls s s', run s ls = Some s' -> keepLock s' = keepLock s.
Proof.
  induction ls; simpl; intros s s' H.
  - inversion H; reflexivity.
  - destruct (step a s) eqn:E; [|discriminate]. rewrite (IHls _ _ H). eapply step_keepLock; eauto.
Qed.

Lemma reachable_keepLock : forall s, reachable s -> keepLock s = false.
Proof. intros s (c & a & ls & H). rewrite (run_keepLock _ _ _ H). reflexivity. Qed.

(* what is left of the closing sequence, whoever runs it *)
Definition closing_measure (s : state) : nat := mC (pC1 s) + mC (pC2 s) + mO (pO s).

Ltac go l tac :=
  exists l; eexists; split; [simpl; tauto | split; [simpl; unfold step_closer; simpl; tac; reflexivity | simpl; tac; simpl; lia]].

(* Once closeRequested is set on a connection whose I/O fails (deadline set by the underlay Close, or connection
   broken), and the code's lock discipline holds (keepLock = false), SOME thread of the closing sequence can take a
   step that lowers the closing measure - in every reachable state, so for every interleaving: the output loop that
   met the write error never waits for a lock that it holds itself, and whoever won the CAS reaches close(closedChan). *)
Lemma output_error_close_progress : forall s,
  inv s -> keepLock s = false -> (connDL s = true \/ netBroken s = true) ->
  closeRequested s = true -> closedChan s = false ->
  exists l s', In l [TC1; TC2; TO] /\ step l s = Some s' /\ closing_measure s' < closing_measure s.
Proof.
  intros s [I1 I2 I3 I4 I5] K N CR CC. unfold closing_measure.
  assert (NO : net_ok s = true) by (unfold net_ok; destruct N as [N|N]; rewrite N; auto with bool).
  assert (DB : connDL s || netBroken s = true) by (destruct N as [N|N]; rewrite N; auto with bool).
  rewrite CR, CC in I3. simpl in I3.
  assert (HO : forall c, pO s = LErr true c -> False) by (intros c E; pose proof (I5 _ _ E); congruence).
  destruct (outputErr s) eqn:OE.
  all: destruct (olock_free s) eqn:F.
  all: destruct (pC1 s) eqn:P1; simpl in I3; try (destruct n).
  all: try (go TC1 ltac:(rewrite ?P1, ?F, ?NO, ?OE; simpl); fail).
  all: destruct (pC2 s) eqn:P2; simpl in I3; try lia; try (destruct n).
  all: try (go TC2 ltac:(rewrite ?P1, ?P2, ?F, ?NO, ?OE; simpl); fail).
  all: destruct (pO s) eqn:PO; simpl in I3; try lia.
  all: try (destruct held; [exfalso; eapply HO; reflexivity|]).
  all: try (destruct c; simpl in I3; try lia).
  all: try (unfold olock_free in F; rewrite ?P1, ?P2, ?PO in F; simpl in F; discriminate F).
  all: try (go TO ltac:(rewrite ?PO, ?DB, ?NO; unfold olock_free; rewrite ?P1, ?P2, ?PO; simpl); fail).
Qed.

(* the output loop on its write-error path is never stuck, and leaves the path after at most 7 own steps *)
Lemma output_loop_error_path_not_stuck : forall s h c,
  inv s -> keepLock s = false -> (connDL s = true \/ netBroken s = true) -> pO s = LErr h c ->
  h = false /\ exists s', step TO s = Some s' /\ mO (pO s') < mO (pO s) /\ mO (pO s) <= 7 + (match c with CGrace n => n + 1 | _ => 0 end).
Proof.
  intros s h c [I1 I2 I3 I4 I5] K N PO.
  assert (NO : net_ok s = true) by (unfold net_ok; destruct N as [N|N]; rewrite N; auto with bool).
  assert (Hh : h = false) by (rewrite (I5 _ _ PO); exact K). subst h. split; [reflexivity|].
  simpl. rewrite PO.
  destruct c; simpl.
  - destruct (closeRequested s); [|destruct (attached s)]; eexists; (split; [reflexivity|]); simpl; lia.
  - eexists; (split; [reflexivity|]); simpl; lia.
  - assert (F : olock_free s = true).
    { unfold olock_free. rewrite PO. rewrite PO in I3. simpl in I3.
      destruct (pC1 s), (pC2 s); simpl in *; try reflexivity; destruct (closedChan s), (closeRequested s); simpl in *; lia. }
    rewrite F. eexists; (split; [reflexivity|]); simpl; lia.
  - rewrite NO. eexists; (split; [reflexivity|]); simpl; lia.
  - eexists; (split; [reflexivity|]); simpl; lia.
  - eexists; (split; [reflexivity|]); simpl; lia.
Qed.

(* the variant that keeps oLock across closeWithError(err) (defer Unlock): the first write error on a session that
   nobody closed yet dead-locks the output loop against itself; closeRequested is set, closedChan never closes: a
   waiting Read has no exit, a later Close is a no-op, the underlay Close waits for the session loops for ever *)
Definition self_deadlock_trace : list label :=
  [ACallRead; ENetBreak; TO; TO; TO; ACallClose1; ACallUnderlayClose; TU; TU].

Lemma output_error_close_keep_lock_deadlocks :
  exists s, run (init_v true true true) self_deadlock_trace = Some s
    /\ pO s = LErr true COLock /\ closeRequested s = true /\ closedChan s = false /\ outputErr s = true
    /\ pR s = RWait false /\ pC1 s = CRet /\ pU s = UWg
    /\ step TO s = None /\ step TC1 s = None /\ step TC2 s = None /\ step TR s = None /\ step TU s = None /\ step TI s <> None.
Proof. vm_compute. eexists. repeat split; try reflexivity. discriminate. Qed.

(* the same trace under the code's discipline (lock released first) ends with everything closed and returned *)
Lemma output_error_close_code_completes :
  exists s, run (init true true) (self_deadlock_trace ++ [TO; TO; TO; TO; TO; TI; TR; TU; TU]) = Some s
    /\ closedChan s = true /\ nclosed s = 1 /\ pO s = LExited /\ pI s = LExited /\ pR s = RRet EOF /\ pU s = URet /\ udone s = true.
Proof. vm_compute. eexists. repeat split; reflexivity. Qed.


(* --- the underlay event loop after the underlay Close (fixed code) ---------------------------------------- *)

Definition invK (s : state) : Prop := (pU s = USecondDL \/ pU s = URet) -> udone s = true.

Lemma invK_init : forall k f c a, invK (init_vv k f c a).
Proof. intros k f c a [H|H]; discriminate H. Qed.

Lemma step_fixedLoop : forall l s s', step l s = Some s' -> fixedLoop s' = fixedLoop s.
Proof.
  intros l s s' H.
  assert (CC : forall one s s', call_close one s = Some s' -> fixedLoop s' = fixedLoop s).
  { clear. intros one s s' H. unfold call_close, close_begin in H. destruct one; simpl in H; brk; reflexivity. }
  assert (SC : forall one s s', step_closer one s = Some s' -> fixedLoop s' = fixedLoop s).
  { clear. intros one s s' H. unfold step_closer in H. destruct one; simpl in H; brk; reflexivity. }
  destruct l; simpl in H; try (eapply SC; eassumption); try (eapply CC; eassumption).
  all: try (brk; reflexivity).
  destruct (pU s) eqn:PU; try discriminate.
  - destruct (pC2 s) eqn:PC; try (eapply SC; eassumption); try (eapply CC; eassumption).
    inversion H; subst; reflexivity.
  - brk; reflexivity.
  - inversion H; subst; reflexivity.
Qed.

(* frame: closers do not touch the underlay / event-loop part of the state *)
Lemma closer_frame : forall s s', (exists one, call_close one s = Some s' \/ step_closer one s = Some s') ->
  pU s' = pU s /\ pE s' = pE s /\ udone s' = udone s /\ readDL s' = readDL s /\ tickPending s' = tickPending s /\ fixedLoop s' = fixedLoop s.
Proof.
  intros s s' [one [H|H]].
  - unfold call_close, close_begin in H. destruct one; simpl in H; brk; simpl; auto 10.
  - unfold step_closer in H. destruct one; simpl in H; brk; simpl; auto 10.
Qed.

Lemma step_invK : forall l s s', invK s -> step l s = Some s' -> invK s'.
Proof.
  intros l s s' K H. unfold invK in *.
  destruct l; simpl in H;
    try (destruct (closer_frame s s' ltac:(eexists; eauto)) as (A & _ & C & _); rewrite A, C; exact K).
  all: try (brk; simpl in *; intros X; try (destruct X; discriminate); try (specialize (K X)); auto; congruence).
  destruct (pU s) eqn:PU; try discriminate.
  - destruct (pC2 s) eqn:PC;
      try (destruct (closer_frame s s' ltac:(eexists; eauto)) as (A & _ & C & _); rewrite A, C, PU; intros [X|X]; discriminate X).
    inversion H; subst; simpl. intros [X|X]; discriminate X.
  - brk; simpl; auto.
  - inversion H; subst; simpl. intros _. apply K. auto.
  - destruct (pU s) eqn:PU; try discriminate. inversion H; subst; simpl. rewrite PU. intros [X|X]; discriminate X.
Qed.

(* J: the underlay Close of the fixed code has returned *)
Definition released (s : state) : Prop :=
  fixedLoop s = true /\ pU s = URet /\ udone s = true /\ (pE s = ERead -> readDL s = true).

Lemma released_established : forall s s', invK s -> fixedLoop s = true -> pU s = USecondDL -> step TU s = Some s' -> released s'.
Proof.
  intros s s' K F P H. simpl in H. rewrite P in H. inversion H; subst; simpl. repeat split; auto.
Qed.

Lemma released_step : forall l s s', released s -> step l s = Some s' -> released s'.
Proof.
  intros l s s' (F & P & D & R) H. unfold released.
  destruct l; simpl in H;
    try (destruct (closer_frame s s' ltac:(eexists; eauto)) as (A & B & C & E & _ & G);
         rewrite G, A, B, C, E; auto; fail).
  all: try (rewrite ?P in H; brk; simpl in *; repeat split; auto; try discriminate; try congruence; fail).
  all: try (rewrite ?P, ?F, ?D in H; simpl in H; brk; simpl in *; repeat split; auto; try discriminate; try congruence; fail).
Qed.

Lemma released_progress : forall s, released s -> pE s <> EExited ->
  exists s', step TE s = Some s' /\ mEv s' < mEv s.
Proof.
  intros s (F & P & D & R) NE. unfold mEv. simpl.
  destruct (pE s) eqn:PE; try congruence.
  - destruct (tickPending s) eqn:T; [|rewrite D]; eexists; (split; [reflexivity|]); simpl; rewrite ?PE, ?T; simpl; lia.
  - rewrite F, D. eexists; (split; [reflexivity|]); simpl; destruct (tickPending s); simpl; lia.
  - rewrite (R eq_refl). eexists; (split; [reflexivity|]); simpl; destruct (tickPending s); simpl; lia.
  - rewrite D, !orb_true_r. eexists; (split; [reflexivity|]); simpl; destruct (tickPending s); simpl; lia.
Qed.

Lemma released_others_do_not_delay : forall l s s', released s -> step l s = Some s' -> l <> TE -> mEv s' <= mEv s.
Proof.
  intros l s s' (F & P & D & R) H N. unfold mEv.
  destruct l; try congruence; simpl in H;
    try (destruct (closer_frame s s' ltac:(eexists; eauto)) as (_ & B & _ & _ & T & _); rewrite B, T; lia).
  all: try (rewrite ?P in H; brk; simpl; try lia; destruct (tickPending s); simpl; lia).
Qed.

Lemma run_invK : forall ls s0 s, invK s0 -> run s0 ls = Some s -> invK s.
Proof.
  induction ls; simpl; intros s0 s K H; [inversion H; subst; auto|].
  destruct (step a s0) eqn:E; [|discriminate]. eapply IHls; [eapply step_invK; eauto|eauto].
Qed.

Lemma run_fixedLoop : forall ls s0 s, run s0 ls = Some s -> fixedLoop s = fixedLoop s0.
Proof.
  induction ls; simpl; intros s0 s H; [inversion H; reflexivity|].
  destruct (step a s0) eqn:E; [|discriminate]. rewrite (IHls _ _ H). eapply step_fixedLoop; eauto.
Qed.

(* once the underlay Close of the fixed code has returned, the event loop leaves within 6 of its own steps in every
   interleaving: it never waits for the read timeout; a Mux.Close that waits for its event loops is bounded *)
Lemma underlay_close_releases_event_loop_all :
  (forall s s', invK s -> fixedLoop s = true -> pU s = USecondDL -> step TU s = Some s' -> released s')
  /\ (forall l s s', released s -> step l s = Some s' -> released s')
  /\ (forall s, released s -> pE s <> EExited -> exists s', step TE s = Some s' /\ mEv s' < mEv s)
  /\ (forall l s s', released s -> step l s = Some s' -> l <> TE -> mEv s' <= mEv s)
  /\ (forall s, mEv s <= 6) /\ (forall s, mEv s = 0 -> pE s = EExited)
  /\ (forall c a ls s, run (init c a) ls = Some s -> invK s /\ fixedLoop s = true).
Proof.
  split; [exact released_established|].
  split; [exact released_step|].
  split; [exact released_progress|].
  split; [exact released_others_do_not_delay|].
  split; [intros s; unfold mEv; destruct (pE s), (tickPending s); simpl; lia|].
  split; [intros s; unfold mEv; destruct (pE s), (tickPending s); simpl; intros; try reflexivity; lia|].
  intros c a ls s H. split.
  - eapply run_invK; [apply invK_init|exact H].
  - rewrite (run_fixedLoop _ _ _ H). reflexivity.
Qed.


(* --- the multiplexer's underlay table ------------------------------------------------------------------- *)

Lemma clean_one_tracked : forall u, tracked u = true -> tracked (clean_one u) = true.
Proof.
  intros [d l n i] H. unfold clean_one, tracked in *. simpl in *.
  destruct l, d; simpl in *; try discriminate; try reflexivity; destruct (n =? 0), i; reflexivity.
Qed.

Lemma mux_close_one_done : forall u, tracked u = true -> u_done (mux_close_one u) = true.
Proof. intros [d l n i] H. unfold mux_close_one, tracked in *. simpl in *. destruct l, d; simpl in *; auto. Qed.

Lemma forallb_map_imp : forall (P Q : urec -> bool) (f : urec -> urec) l,
  (forall u, P u = true -> Q (f u) = true) -> forallb P l = true -> forallb Q (map f l) = true.
Proof.
  induction l; simpl; intros Hf H; auto. apply andb_true_iff in H. destruct H as [A B].
  rewrite (Hf _ A), (IHl Hf B). reflexivity.
Qed.

Lemma forallb_upd : forall (P : urec -> bool) (f : urec -> urec) l i,
  (forall u, P u = true -> P (f u) = true) -> forallb P l = true -> forallb P (upd l i f) = true.
Proof.
  induction l; simpl; intros i Hf H; auto. apply andb_true_iff in H. destruct H as [A B].
  destruct i; simpl; [rewrite (Hf _ A), B|rewrite A, (IHl i Hf B)]; reflexivity.
Qed.

Lemma mux_step_tracked : forall l o, forallb tracked l = true -> forallb tracked (mux_step clean_one l o) = true.
Proof.
  intros l o H. destruct o; simpl.
  - rewrite forallb_app, H. reflexivity.
  - eapply forallb_map_imp; [apply clean_one_tracked|exact H].
  - apply forallb_upd; auto.
  - apply forallb_upd; auto.
  - eapply forallb_map_imp; [|exact H]. intros u T. unfold tracked. rewrite (mux_close_one_done u T). reflexivity.
Qed.

Lemma mux_run_tracked : forall ops l, forallb tracked l = true -> forallb tracked (mux_run clean_one l ops) = true.
Proof.
  unfold mux_run. induction ops; simpl; intros l H; auto. apply IHops. apply mux_step_tracked. exact H.
Qed.

(* for every history of dials, housekeeping runs, session / scheduler changes and underlays ending by themselves:
   every underlay whose loops run is in the table (or closed), and Mux.Close closes every one of them *)
Lemma mux_close_releases_all : forall ops,
  forallb tracked (mux_run clean_one [] ops) = true
  /\ forallb u_done (mux_step clean_one (mux_run clean_one [] ops) MClose) = true
  /\ (forall u, tracked u = true -> tracked (clean_one u) = true
                /\ (clean_one u = u \/ (u_done (clean_one u) = true /\ u_listed (clean_one u) = false))).
Proof.
  intros ops. assert (T := mux_run_tracked ops [] eq_refl). split; [exact T|]. split.
  - simpl. eapply forallb_map_imp; [apply mux_close_one_done|exact T].
  - intros [d l n i] H. split; [apply clean_one_tracked; exact H|].
    unfold clean_one. simpl. destruct l, d; simpl; auto; destruct (n =? 0), i; simpl; auto.
Qed.

(* the variant that drops an idle underlay which still has sessions: after one housekeeping run a running underlay
   is in no table, and Mux.Close leaves it running *)
Lemma mux_clean_dropping_refuted :
  exists ops, forallb tracked (mux_run clean_one_dropping [] ops) = false
    /\ forallb u_done (mux_step clean_one_dropping (mux_run clean_one_dropping [] ops) MClose) = false
    /\ forallb u_done (mux_step clean_one (mux_run clean_one [] ops) MClose) = true.
Proof. exists [MNew; MEnv 0 2 true; MClean]. vm_compute. repeat split; reflexivity. Qed.

(* closeWithError sends the close request from every state in which the peer may hold the session; the variant that
   sends it only when ESTABLISHED misses the attached client session (open request sent, nothing read yet) *)
Lemma close_request_whenever_peer_may_hold :
  (forall st, peer_may_hold st = true -> code_sends_close_request st = true)
  /\ (exists st, peer_may_hold st = true /\ established_only_sends_close_request st = false).
Proof. split; [intros [] H; auto|exists SAttached; auto]. Qed.
