(* C01 - the receiver-side hand-off never loses a parsed segment while the session is open. *)
From Coq Require Import List NArith ZArith Bool Arith Lia.
From Coq Require Import ZifyN ZifyNat ZifyBool.
From M Require Import gen.Consts model.TcpStream proofs.TcpStreamProofs.
Import ListNotations.
Open Scope N_scope.

Lemma h_deliver_open : forall cap st, h_closed st = false ->
  h_closed (h_deliver cap st) = false /\ h_flat (h_deliver cap st) = h_flat st /\
  (length (rd_queue (h_rd (h_deliver cap st))) <= Nat.max cap (length (rd_queue (h_rd st))))%nat.
Proof.
  intros cap st Ho. unfold h_deliver, wait_space. rewrite Ho.
  destruct (h_pending st) as [|p t] eqn:Ep; [repeat split; try assumption; lia|].
  destruct (length (rd_queue (h_rd st)) <? cap)%nat eqn:E.
  - cbn [h_closed h_rd rd_queue]. split; [first [reflexivity|assumption]|]. split.
    + unfold h_flat, rd_flat. cbn [h_rd h_pending rd_unread rd_queue]. rewrite Ep, concat_snoc. cbn [concat].
      rewrite <- !app_assoc. reflexivity.
    + apply Nat.ltb_lt in E. rewrite app_length. cbn [length]. lia.
  - repeat split; try assumption; lia.
Qed.

(* for every capacity and every interleaving of parsing, input-loop attempts and reads, while the session is open:
   what was read so far, followed by what is still held (unreadBuf, recvQueue, pending), is exactly what was held
   before followed by what was parsed since, in order - nothing is dropped, duplicated or reordered; and the queue
   never exceeds its capacity *)
Theorem backpressure_lossless : forall cap evs st,
  h_closed st = false -> no_close evs = true ->
  let (outs, st') := run_h cap st evs in
  h_closed st' = false /\
  concat outs ++ h_flat st' = h_flat st ++ concat (parsed_of evs) /\
  (length (rd_queue (h_rd st')) <= Nat.max cap (length (rd_queue (h_rd st))))%nat.
Proof.
  intros cap evs. induction evs as [|e t IH]; intros st Ho Hn.
  - cbn. rewrite app_nil_r. repeat split; try assumption; lia.
  - destruct e as [p| |k|]; cbn [run_h parsed_of no_close] in *.
    + specialize (IH (mkH (h_pending st ++ [p]) (h_rd st) (h_closed st)) Ho Hn).
      destruct (run_h cap (mkH (h_pending st ++ [p]) (h_rd st) (h_closed st)) t) as [outs st'].
      destruct IH as [A [B C]]. split; [exact A|]. split; [|exact C].
      rewrite B. unfold h_flat. cbn [h_rd h_pending concat]. rewrite concat_snoc, <- !app_assoc. reflexivity.
    + destruct (h_deliver_open cap st Ho) as [D1 [D2 D3]].
      specialize (IH (h_deliver cap st) D1 Hn). destruct (run_h cap (h_deliver cap st) t) as [outs st'].
      destruct IH as [A [B C]]. split; [exact A|]. split; [rewrite B, D2; reflexivity|lia].
    + destruct (read1_spec k (h_rd st)) as [R1 _].
      assert (RQ : (length (rd_queue (snd (read1 k (h_rd st)))) <= length (rd_queue (h_rd st)))%nat).
      { clear. unfold read1. destruct k as [|k']; [cbn; lia|].
        destruct (negb (is_nil (skipn (S k') (rd_unread (h_rd st)))) || (length (firstn (S k') (rd_unread (h_rd st))) =? S k')%nat);
          [cbn; lia|].
        generalize (S k' - length (firstn (S k') (rd_unread (h_rd st))))%nat as j. generalize (rd_queue (h_rd st)) as q.
        induction q as [|x q IHq]; intros j; cbn [read_q]; [cbn; lia|].
        destruct (length x <=? j)%nat; [|cbn; lia]. destruct (length x =? j)%nat; [cbn; lia|].
        specialize (IHq (j - length x)%nat). destruct (read_q (j - length x) q) as [d st0]. cbn [snd] in *. cbn [length]. lia. }
      destruct (read1 k (h_rd st)) as [o rd'] eqn:ER. cbn [fst snd] in *.
      specialize (IH (mkH (h_pending st) rd' (h_closed st)) Ho Hn).
      destruct (run_h cap (mkH (h_pending st) rd' (h_closed st)) t) as [outs st'].
      destruct IH as [A [B C]]. cbn [h_rd] in C. split; [exact A|]. split; [|lia].
      cbn [concat]. rewrite <- app_assoc, B. unfold h_flat. cbn [h_rd h_pending]. rewrite <- R1, <- !app_assoc. reflexivity.
    + discriminate Hn.
Qed.

(* hence: once nothing is held any more, everything that was parsed has been read, in order *)
Corollary backpressure_complete : forall cap evs,
  no_close evs = true ->
  let (outs, st') := run_h cap (mkH [] (mkRd [] []) false) evs in
  h_flat st' = [] -> concat outs = concat (parsed_of evs).
Proof.
  intros cap evs Hn. pose proof (backpressure_lossless cap evs (mkH [] (mkRd [] []) false) eq_refl Hn) as H.
  destruct (run_h cap (mkH [] (mkRd [] []) false) evs) as [outs st']. destruct H as [_ [B _]].
  intros E. rewrite E, app_nil_r in B. exact B.
Qed.

(* progress: an open session with room takes the oldest pending segment *)
Lemma h_deliver_progress : forall cap st p t, h_closed st = false -> h_pending st = p :: t ->
  (length (rd_queue (h_rd st)) < cap)%nat ->
  h_pending (h_deliver cap st) = t /\ rd_queue (h_rd (h_deliver cap st)) = rd_queue (h_rd st) ++ [p].
Proof.
  intros cap st p t Ho Ep Hl. unfold h_deliver, wait_space. rewrite Ho, Ep.
  apply Nat.ltb_lt in Hl. rewrite Hl. split; reflexivity.
Qed.

(* non-vacuity: capacity 2, five segments, the reader sleeps while the input loop keeps trying, then reads *)
Definition ex_bp_evs : list hev :=
  [HParsed [1; 2]; HParsed [3]; HParsed [4; 5; 6]; HDeliver; HDeliver; HDeliver; HDeliver; HParsed [7]; HParsed [8; 9];
   HDeliver; HRead 2; HDeliver; HRead 100; HDeliver; HDeliver; HDeliver; HRead 100].
Example ex_backpressure :
  run_h 2 (mkH [] (mkRd [] []) false) ex_bp_evs =
  ([[1; 2]; [3; 4; 5; 6]; [7; 8; 9]], mkH [] (mkRd [] []) false).
Proof. vm_compute. reflexivity. Qed.
Example ex_backpressure_thm :
  let (outs, st') := run_h 2 (mkH [] (mkRd [] []) false) ex_bp_evs in
  h_closed st' = false /\ concat outs ++ h_flat st' = h_flat (mkH [] (mkRd [] []) false) ++ concat (parsed_of ex_bp_evs) /\
  (length (rd_queue (h_rd st')) <= Nat.max 2 0)%nat.
Proof. apply (backpressure_lossless 2 ex_bp_evs (mkH [] (mkRd [] []) false)); reflexivity. Qed.
(* contrast: an input loop whose wait gives up while the session is open (the seeded change) loses [4;5;6] *)
Example ex_bounded_wait_loses :
  let st := mkH [[4; 5; 6]; [7]] (mkRd [] [[1; 2]; [3]]) false in
  h_flat (h_deliver_bounded_wait 2 st) = [1; 2; 3; 7] /\ h_flat (h_deliver 2 st) = [1; 2; 3; 4; 5; 6; 7].
Proof. vm_compute. split; reflexivity. Qed.
