(* C19 — proofs about model/Account.v *)
From Coq Require Import ZArith NArith List Bool Lia.
From M Require Import gen.Consts model.Counter model.Quota model.Account proofs.CounterProofs proofs.QuotaProofs.
Import ListNotations.
Open Scope Z_scope.

(* ------------------------------------------------------------------ Session.Read *)

Lemma take_segs_spec : forall q want,
  let '(out, un, q') := take_segs want q in out ++ un ++ concat q' = concat q.
Proof.
  induction q as [|seg q IH]; intros want; cbn [take_segs concat]; [reflexivity|].
  destruct (want <=? length seg)%nat.
  - rewrite app_assoc, firstn_skipn. reflexivity.
  - specialize (IH (want - length seg)%nat). destruct (take_segs (want - length seg) q) as [[out un] q''].
    rewrite <- app_assoc, IH. reflexivity.
Qed.

(* one Read: what it returns is the front of what was pending, and exactly its length is counted *)
Lemma read_step : forall st want,
  let '(r, st') := read st want in
  returned r ++ pending st' = pending st /\ r_counted st' = r_counted st + Z.of_nat (length (returned r)).
Proof.
  intros st want. unfold read. destruct want as [|w]; [cbn; split; [reflexivity|lia]|].
  set (want := S w).
  destruct ((length (firstn want (r_unread st)) =? want)%nat || negb (is_nil (skipn want (r_unread st)))) eqn:E.
  - unfold pending. cbn [returned r_unread r_queue r_counted]. split; [|reflexivity].
    rewrite app_assoc, firstn_skipn. reflexivity.
  - apply orb_false_iff in E. destruct E as [_ E]. apply negb_false_iff in E.
    assert (Hun : skipn want (r_unread st) = []) by (destruct (skipn want (r_unread st)); [reflexivity|discriminate]).
    assert (Ha : firstn want (r_unread st) = r_unread st).
    { rewrite <- (firstn_skipn want (r_unread st)) at 2. rewrite Hun, app_nil_r. reflexivity. }
    pose proof (take_segs_spec (r_queue st) (want - length (firstn want (r_unread st)))%nat) as Hs.
    destruct (take_segs (want - length (firstn want (r_unread st))) (r_queue st)) as [[out un'] q'].
    rewrite Ha in *. unfold pending.
    destruct (r_unread st ++ out) as [|x o] eqn:Eo.
    + cbn [returned r_unread r_queue r_counted app length]. split; [|lia].
      apply app_eq_nil in Eo. destruct Eo as [-> ->]. cbn in *. exact Hs.
    + cbn [returned r_unread r_queue r_counted]. split; [|reflexivity].
      rewrite <- Eo, <- app_assoc, Hs. reflexivity.
Qed.

(* any sequence of Read calls (any buffer sizes, including 0 and calls that find nothing): the returned slices
   concatenate to the front of the stream and the counted total grows by exactly the sum of the returned lengths *)
Theorem reads_count : forall wants st,
  let '(outs, st') := reads st wants in
  concat outs ++ pending st' = pending st /\
  r_counted st' = r_counted st + Z.of_nat (length (concat outs)).
Proof.
  induction wants as [|w ws IH]; intros st; cbn [reads].
  - cbn. split; [reflexivity|lia].
  - pose proof (read_step st w) as H1. destruct (read st w) as [r st1].
    specialize (IH st1). destruct (reads st1 ws) as [outs st2].
    destruct H1 as [H1 H2], IH as [H3 H4]. cbn [concat]. split.
    + rewrite <- app_assoc, H3. exact H1.
    + rewrite H4, H2, app_length. lia.
Qed.

(* partition independence: however two applications cut the same stream into reads, once both have drained it
   the same number of bytes has been counted — the length of the stream *)
Theorem count_is_partition_independent : forall st wants1 wants2,
  pending (snd (reads st wants1)) = [] -> pending (snd (reads st wants2)) = [] ->
  r_counted (snd (reads st wants1)) = r_counted (snd (reads st wants2)) /\
  r_counted (snd (reads st wants1)) = r_counted st + Z.of_nat (length (pending st)) /\
  concat (fst (reads st wants1)) = pending st /\ concat (fst (reads st wants2)) = pending st.
Proof.
  intros st w1 w2 H1 H2.
  pose proof (reads_count w1 st) as A. pose proof (reads_count w2 st) as B.
  destruct (reads st w1) as [o1 s1], (reads st w2) as [o2 s2]. cbn [fst snd] in *.
  destruct A as [A1 A2], B as [B1 B2]. rewrite H1, app_nil_r in A1. rewrite H2, app_nil_r in B1.
  rewrite A2, B2, A1, B1. repeat split; reflexivity.
Qed.

(* the variant with the early-returning leftover fast path loses bytes: a 4-byte segment read 2 + 2 *)
Lemma fastpath_not_partition_independent :
  exists st wants1 wants2,
    pending (snd (reads_fastpath st wants1)) = [] /\ pending (snd (reads_fastpath st wants2)) = [] /\
    concat (fst (reads_fastpath st wants1)) = concat (fst (reads_fastpath st wants2)) /\
    r_counted (snd (reads_fastpath st wants1)) <> r_counted (snd (reads_fastpath st wants2)).
Proof.
  exists (mkR [[1%N; 2%N; 3%N; 4%N]] [] 0), [2%nat; 2%nat], [4%nat].
  repeat split; vm_compute; try reflexivity; discriminate.
Qed.

Example ex_reads :
  let st := mkR [[1%N; 2%N; 3%N]; []; [4%N; 5%N; 6%N; 7%N; 8%N]] [] 10 in
  reads st [2%nat; 0%nat; 2%nat; 1%nat; 7%nat; 3%nat] =
    ([[1%N; 2%N]; []; [3%N; 4%N]; [5%N]; [6%N; 7%N; 8%N]; []], mkR [] [] 18).
Proof. vm_compute. reflexivity. Qed.

(* ------------------------------------------------------------------ reloads *)

Lemma run_registry_app r a b : run_registry r (a ++ b) = run_registry (run_registry r a) b.
Proof. unfold run_registry. apply fold_left_app. Qed.

Lemma run_registry_traffic : forall post r, Forall is_traffic post -> run_registry r post = r.
Proof.
  induction post as [|e post IH]; intros r H; [reflexivity|]. inversion H as [|? ? He Hp]; subst.
  destruct e; [destruct He|]. cbn. apply IH. exact Hp.
Qed.

(* after any history, the generation consulted is the configuration of the most recent SetUsers *)
Lemma registry_after_reload r0 pre cfg post :
  Forall is_traffic post -> run_registry r0 (pre ++ EvReload cfg :: post) = Some cfg.
Proof.
  intros H. rewrite run_registry_app. change (EvReload cfg :: post) with ([EvReload cfg] ++ post).
  rewrite run_registry_app, run_registry_traffic by exact H. reflexivity.
Qed.

Theorem reload_takes_effect : forall r0 pre cfg post u m now,
  Forall is_traffic post ->
  policy_in_force (run_registry r0 (pre ++ EvReload cfg :: post)) u =
    option_map (fun x => mkP (ur_name x) (ur_quotas x)) (find_user u cfg) /\
  decision (run_registry r0 (pre ++ EvReload cfg :: post)) u m now =
    check_quota (option_map (fun x => mkP (ur_name x) (ur_quotas x)) (find_user u cfg)) u m now.
Proof.
  intros r0 pre cfg post u m now H. unfold decision. rewrite registry_after_reload by exact H. split; reflexivity.
Qed.

Lemma find_user_name u : forall g x, find_user u g = Some x -> ur_name x = u.
Proof.
  induction g as [|y g IH]; intros x H; [discriminate|]. cbn in H.
  destruct (name_eqb (ur_name y) u) eqn:E; [|apply IH; exact H].
  inversion H; subst. apply name_eqb_eq. exact E.
Qed.

(* ... so the next session of u is refused iff a quota of the reloaded configuration is exceeded *)
Theorem reload_refuse_iff : forall r0 pre cfg post u m now,
  Forall is_traffic post ->
  (forall x, find_user u cfg = Some x -> validate_user_quotas (ur_quotas x) = true) ->
  (refused (decision (run_registry r0 (pre ++ EvReload cfg :: post)) u m now) = true <->
   exists x up down q, find_user u cfg = Some x /\ lookup u m = Some (up, down) /\
                       In q (ur_quotas x) /\ exceeded q up down now).
Proof.
  intros r0 pre cfg post u m now Ht Hv.
  destruct (reload_takes_effect r0 pre cfg post u m now Ht) as [_ ->].
  rewrite quota_refuse_iff_validated.
  2:{ intros p Ep. destruct (find_user u cfg) as [x|] eqn:Ef; [|discriminate]. inversion Ep; subst. cbn. apply Hv. reflexivity. }
  split.
  - intros (p & up & down & q & Ep & _ & El & Hin & He).
    destruct (find_user u cfg) as [x|] eqn:Ef; [|discriminate]. inversion Ep; subst. cbn in Hin.
    exists x, up, down, q. repeat split; assumption.
  - intros (x & up & down & q & Ef & El & Hin & He).
    exists (mkP (ur_name x) (ur_quotas x)), up, down, q. rewrite Ef. cbn.
    repeat split; try assumption. apply (find_user_name u cfg x Ef).
Qed.

(* the shortcut "same ids, names and credentials: keep the current generation" drops a quota-only reload *)
Lemma shortcut_drops_quota_reload :
  exists cfg1 cfg2 u,
    policy_in_force (set_users_shortcut (set_users_shortcut None cfg1) cfg2) u <>
    option_map (fun x => mkP (ur_name x) (ur_quotas x)) (find_user u cfg2).
Proof.
  exists [mkU ex_alice 7 []], [mkU ex_alice 7 [mkQ 1 1]], ex_alice. vm_compute. discriminate.
Qed.

Example ex_reload :
  let cfg1 := [mkU ex_bob 1 []; mkU ex_alice 2 []] in
  let cfg2 := [mkU ex_bob 1 []; mkU ex_alice 2 [mkQ 1 2]] in      (* only alice's quota differs *)
  decision (run_registry None [EvReload cfg1; EvTraffic]) ex_alice ex_m ex_now = QAllow /\
  decision (run_registry None [EvReload cfg1; EvTraffic; EvReload cfg2; EvTraffic]) ex_alice ex_m ex_now = QRefuse /\
  decision (run_registry None [EvReload cfg1; EvTraffic; EvReload cfg2; EvTraffic]) ex_bob ex_m ex_now = QAllow.
Proof. repeat split; vm_compute; reflexivity. Qed.
