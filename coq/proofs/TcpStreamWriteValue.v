(* C01 - Write captures the value of the caller's buffer (and what goes wrong if it only keeps a reference). *)
From Coq Require Import List NArith ZArith Bool Arith Lia.
From M Require Import gen.Consts model.TcpStream.
Import ListNotations.
Open Scope N_scope.

Definition allval (q : list qent) : Prop := Forall (fun e => exists v, e = QVal v) q.
Definition vals (q : list qent) : list (list N) := map (resolve []) q.

Lemma resolve_allval : forall q buf, allval q -> map (resolve buf) q = vals q.
Proof.
  induction q as [|e q IH]; intros buf H; [reflexivity|]. inversion H as [|? ? [v ->] Hq]; subst.
  cbn [map resolve vals]. f_equal. apply IH. exact Hq.
Qed.

Lemma run_copy_inv : forall steps st, allval (a_queue st) ->
  allval (a_queue (a_run true st steps)) /\
  a_sent (a_run true st steps) ++ vals (a_queue (a_run true st steps)) =
  a_sent st ++ vals (a_queue st) ++ values_written (a_buf st) steps.
Proof.
  induction steps as [|s t IH]; intros st H.
  - cbn. rewrite app_nil_r. split; [exact H|reflexivity].
  - change (a_run true st (s :: t)) with (a_run true (a_step true st s) t).
    destruct s as [b| |]; cbn [a_step values_written].
    + destruct (IH (mkA b (a_queue st) (a_sent st)) H) as [A B]. split; [exact A|exact B].
    + assert (H' : allval (a_queue st ++ [QVal (a_buf st)])).
      { apply Forall_app. split; [exact H|]. constructor; [eexists; reflexivity|constructor]. }
      destruct (IH (mkA (a_buf st) (a_queue st ++ [QVal (a_buf st)]) (a_sent st)) H') as [A B]. split; [exact A|].
      rewrite B. cbn [a_sent a_queue a_buf]. unfold vals. rewrite map_app. cbn [map resolve]. rewrite <- !app_assoc. reflexivity.
    + destruct (IH (mkA (a_buf st) [] (a_sent st ++ map (resolve (a_buf st)) (a_queue st))) (Forall_nil _)) as [A B].
      split; [exact A|]. rewrite B. cbn [a_sent a_queue a_buf vals map]. rewrite (resolve_allval _ _ H), <- !app_assoc. reflexivity.
Qed.

Lemma written_values : forall mode vs, written (map (WWrite mode) vs) = concat vs.
Proof. induction vs as [|v vs IH]; [reflexivity|]. cbn [map written concat]. rewrite IH. reflexivity. Qed.

(* For ANY sequence of (fill the buffer | Write | output goroutine runs) steps: because the enqueue copies, what is
   sent after the final flush is exactly the list of buffer contents at the moments of the Write calls, whatever the
   application did to its buffer afterwards; handed to the planner as values it concatenates to b_1 ++ ... ++ b_n,
   which C01_plan_concat / C01_tcp_integrity then carry to the peer. *)
Theorem write_captures_value : forall steps,
  let st := a_run true a_init (steps ++ [AFlush]) in
  a_queue st = [] /\ a_sent st = values_written [] steps /\
  forall mode, written (map (WWrite mode) (a_sent st)) = concat (values_written [] steps).
Proof.
  intros steps. cbv zeta. unfold a_run. rewrite fold_left_app. cbn [fold_left a_step a_queue a_sent].
  destruct (run_copy_inv steps a_init (Forall_nil _)) as [A B]. fold (a_run true a_init steps).
  cbn [a_init a_sent a_queue a_buf vals map app] in B.
  rewrite (resolve_allval _ _ A), B. split; [reflexivity|]. split; [reflexivity|]. intros mode. apply written_values.
Qed.

(* the aliasing variant: two writes from one reused buffer, the output goroutine runs afterwards:
   the stream carries b_2 b_2 instead of b_1 b_2 *)
Definition alias_witness : list astep := [ASet [1; 1; 1]; AWrite; ASet [2; 2; 2]; AWrite].
Theorem write_alias_refuted :
  values_written [] alias_witness = [[1; 1; 1]; [2; 2; 2]] /\
  a_sent (a_run false a_init (alias_witness ++ [AFlush])) = [[2; 2; 2]; [2; 2; 2]] /\
  a_sent (a_run true a_init (alias_witness ++ [AFlush])) = [[1; 1; 1]; [2; 2; 2]] /\
  exists steps, a_sent (a_run false a_init (steps ++ [AFlush])) <> values_written [] steps.
Proof.
  split; [reflexivity|]. split; [reflexivity|]. split; [reflexivity|].
  exists alias_witness. vm_compute. discriminate.
Qed.

Example ex_write_value :
  let steps := [ASet [1; 2]; AWrite; ASet [9; 9]; AFlush; ASet [3]; AWrite; ASet [4; 5; 6]; AWrite; ASet [0]] in
  a_sent (a_run true a_init (steps ++ [AFlush])) = [[1; 2]; [3]; [4; 5; 6]].
Proof. vm_compute. reflexivity. Qed.
