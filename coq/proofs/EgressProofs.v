(* C12 - proofs about model/Egress.v *)
From Coq Require Import List NArith ZArith Bool Lia.
From Coq Require Import ZifyN ZifyNat ZifyBool.
From M Require Import gen.Consts model.Egress.
Import ListNotations.
Open Scope N_scope.

(* ------------------------------------------------------------------ byte strings *)

Lemma bytes_eqb_eq a b : bytes_eqb a b = true <-> a = b.
Proof.
  revert b; induction a as [|x a IH]; destruct b as [|y b]; cbn [bytes_eqb]; split; intro H;
    try congruence; try reflexivity.
  - apply andb_true_iff in H as [H1 H2]. apply N.eqb_eq in H1. apply IH in H2. congruence.
  - injection H as Hx Ha. subst y. rewrite N.eqb_refl. cbn [andb]. apply IH. exact Ha.
Qed.

Lemma bytes_eqb_refl a : bytes_eqb a a = true.
Proof. apply bytes_eqb_eq. reflexivity. Qed.

Lemma mem_bytes_In s l : mem_bytes s l = true <-> In s l.
Proof.
  unfold mem_bytes. rewrite existsb_exists. split.
  - intros (x & Hin & He). apply bytes_eqb_eq in He. subst. exact Hin.
  - intro Hin. exists s. split; [exact Hin | apply bytes_eqb_refl].
Qed.

Lemma byte_forall (f : N -> bool) :
  forallb f (map N.of_nat (seq 0 256)) = true -> forall b, b < 256 -> f b = true.
Proof.
  intros H b Hb. rewrite forallb_forall in H. apply H.
  rewrite <- (N2Nat.id b). apply in_map. apply in_seq. lia.
Qed.

Lemma land240 b : b < 256 -> (N.land b 240 =? 16) = ((16 <=? b) && (b <? 32)).
Proof. intro Hb. apply eqb_prop. revert b Hb. apply byte_forall. vm_compute. reflexivity. Qed.

Lemma land254 b : b < 256 -> (N.land b 254 =? 252) = (b / 2 =? 126).
Proof. intro Hb. apply eqb_prop. revert b Hb. apply byte_forall. vm_compute. reflexivity. Qed.

Lemma bytes_ok_app a b : bytes_ok (a ++ b) <-> bytes_ok a /\ bytes_ok b.
Proof. unfold bytes_ok. apply Forall_app. Qed.

Lemma bytes_ok4 a b c d : bytes_ok [a; b; c; d] -> a < 256 /\ b < 256 /\ c < 256 /\ d < 256.
Proof.
  intro H. pose proof (Forall_inv H) as Ha. apply Forall_inv_tail in H.
  pose proof (Forall_inv H) as Hb. apply Forall_inv_tail in H.
  pose proof (Forall_inv H) as Hc. apply Forall_inv_tail in H.
  pose proof (Forall_inv H) as Hd. auto.
Qed.

Lemma len4 (v : bytes) : length v = 4%nat -> exists a b c d, v = [a; b; c; d].
Proof.
  destruct v as [|a [|b [|c [|d [|e t]]]]]; cbn [length]; intro H; try discriminate H.
  eauto.
Qed.

(* ------------------------------------------------------------------ To4 *)

Lemma to4_inv ip v : to4 ip = Some v -> length v = 4%nat /\ (ip = v \/ ip = mapped v).
Proof.
  intro H.
  destruct ip as [|b0 [|b1 [|b2 [|b3 [|b4 [|b5 [|b6 [|b7 [|b8 [|b9 [|b10 [|b11 [|b12 [|b13 [|b14 [|b15 [|b16 t]]]]]]]]]]]]]]]]];
    cbv beta iota delta [to4] in H; try discriminate H.
  - injection H as <-. split; [reflexivity | left; reflexivity].
  - match type of H with (if ?c then _ else _) = _ => destruct c eqn:E end; [|discriminate H].
    injection H as <-.
    repeat match goal with Hc : _ && _ = true |- _ => apply andb_true_iff in Hc; destruct Hc end.
    repeat match goal with Hc : (_ =? _) = true |- _ => apply N.eqb_eq in Hc end.
    subst. split; [reflexivity | right; reflexivity].
Qed.

Lemma to4_4 v : length v = 4%nat -> to4 v = Some v.
Proof. intro H. apply len4 in H as (a & b & c & d & ->). reflexivity. Qed.

Lemma to4_mapped v : length v = 4%nat -> to4 (mapped v) = Some v.
Proof. intro H. apply len4 in H as (a & b & c & d & ->). reflexivity. Qed.

Lemma to4_none_hd b t : b <> 0 -> length t = 15%nat -> to4 (b :: t) = None.
Proof.
  intros Hb Hl.
  destruct (to4 (b :: t)) as [v|] eqn:E; [|reflexivity].
  apply to4_inv in E as [Hv [E | E]].
  - subst v. cbn [length] in Hv. rewrite Hl in Hv. discriminate Hv.
  - unfold mapped in E. cbn [app] in E. injection E as E _. contradiction.
Qed.

(* ------------------------------------------------------------------ numeric ranges vs Go's byte tests *)

Lemma pow24 : 2 ^ 24 = 16777216. Proof. reflexivity. Qed.
Lemma pow16 : 2 ^ 16 = 65536. Proof. reflexivity. Qed.

Lemma v4loop_iff a b c d : a < 256 -> b < 256 -> c < 256 -> d < 256 ->
  (127 * 2^24 <= v4num [a; b; c; d] < 128 * 2^24 <-> a = 127).
Proof. intros. cbv beta iota delta [v4num]. rewrite pow24. lia. Qed.

Lemma v4priv_iff a b c d : a < 256 -> b < 256 -> c < 256 -> d < 256 ->
  ((10 * 2^24 <= v4num [a; b; c; d] < 11 * 2^24 \/
    (172 * 256 + 16) * 2^16 <= v4num [a; b; c; d] < (172 * 256 + 32) * 2^16 \/
    (192 * 256 + 168) * 2^16 <= v4num [a; b; c; d] < (192 * 256 + 169) * 2^16)
   <-> (a = 10 \/ (a = 172 /\ 16 <= b < 32) \/ (a = 192 /\ b = 168))).
Proof. intros. cbv beta iota delta [v4num]. rewrite pow24, pow16. lia. Qed.

Lemma v4priv_bool a b : b < 256 ->
  ((a =? 10) || ((a =? 172) && (N.land b 240 =? 16)) || ((a =? 192) && (b =? 168)) = true
   <-> (a = 10 \/ (a = 172 /\ 16 <= b < 32) \/ (a = 192 /\ b = 168))).
Proof.
  intro Hb. rewrite (land240 b Hb).
  rewrite !orb_true_iff, !andb_true_iff, !N.eqb_eq, N.leb_le, N.ltb_lt. tauto.
Qed.

(* ------------------------------------------------------------------ soundness: the sets of the property are
   recognised by the byte tests *)

Lemma loop_sound ip : LoopbackIP ip -> is_loopback ip = true.
Proof.
  intros [v (Hl & Hok & Hr) | v (Hl & Hok & Hr) | ].
  - unfold is_loopback. rewrite (to4_4 v Hl). apply len4 in Hl as (a & b & c & d & ->).
    apply bytes_ok4 in Hok as (? & ? & ? & ?). apply v4loop_iff in Hr; auto. subst a. reflexivity.
  - unfold is_loopback. rewrite (to4_mapped v Hl). apply len4 in Hl as (a & b & c & d & ->).
    apply bytes_ok4 in Hok as (? & ? & ? & ?). apply v4loop_iff in Hr; auto. subst a. reflexivity.
  - reflexivity.
Qed.

Lemma priv_sound ip : PrivateIP ip -> is_private ip = true.
Proof.
  intros [v (Hl & Hok & Hr) | v (Hl & Hok & Hr) | ip' Hl Hok Hd].
  - unfold is_private. rewrite (to4_4 v Hl). apply len4 in Hl as (a & b & c & d & ->).
    apply bytes_ok4 in Hok as (? & ? & ? & ?). apply v4priv_iff in Hr; auto.
    cbv zeta. cbn [nth]. apply v4priv_bool; auto.
  - unfold is_private. rewrite (to4_mapped v Hl). apply len4 in Hl as (a & b & c & d & ->).
    apply bytes_ok4 in Hok as (? & ? & ? & ?). apply v4priv_iff in Hr; auto.
    cbv zeta. cbn [nth]. apply v4priv_bool; auto.
  - destruct ip' as [|b0 t]; [discriminate Hl|]. cbn [nth] in Hd.
    assert (Hb : b0 < 256) by exact (Forall_inv Hok).
    assert (Hlt : length t = 15%nat) by (cbn [length] in Hl; lia).
    assert (Hnz : b0 <> 0) by (intro; subst b0; discriminate Hd).
    unfold is_private. rewrite (to4_none_hd b0 t Hnz Hlt). cbn [nth].
    rewrite Hl. rewrite (land254 b0 Hb). apply N.eqb_eq in Hd. rewrite Hd. reflexivity.
Qed.

Lemma unspec_sound ip : UnspecIP ip -> is_unspecified ip = true.
Proof. intros []; reflexivity. Qed.

(* ------------------------------------------------------------------ completeness: what the byte tests accept
   lies in the sets of the property (for byte values < 256) *)

Lemma to4_ok ip v : bytes_ok ip -> to4 ip = Some v -> bytes_ok v.
Proof.
  intros Hok E. apply to4_inv in E as [_ [-> | ->]]; [exact Hok|].
  unfold mapped in Hok. apply bytes_ok_app in Hok. tauto.
Qed.

Lemma loop_inv ip : bytes_ok ip -> is_loopback ip = true -> LoopbackIP ip.
Proof.
  intros Hok H. unfold is_loopback in H. destruct (to4 ip) as [v|] eqn:E.
  - pose proof (to4_ok ip v Hok E) as Hv. apply to4_inv in E as [Hl E].
    assert (HV : V4Loopback v).
    { split; [exact Hl|]. split; [exact Hv|].
      apply len4 in Hl as (a & b & c & d & ->). cbn [nth] in H. apply N.eqb_eq in H.
      apply bytes_ok4 in Hv as (? & ? & ? & ?). apply v4loop_iff; auto. }
    destruct E as [-> | ->]; [apply LI_v4 | apply LI_mapped]; exact HV.
  - apply bytes_eqb_eq in H. subst ip. apply LI_v6.
Qed.

Lemma priv_inv ip : bytes_ok ip -> is_private ip = true -> PrivateIP ip.
Proof.
  intros Hok H. unfold is_private in H. destruct (to4 ip) as [v|] eqn:E.
  - pose proof (to4_ok ip v Hok E) as Hv. apply to4_inv in E as [Hl E].
    assert (HV : V4Private v).
    { split; [exact Hl|]. split; [exact Hv|].
      apply len4 in Hl as (a & b & c & d & ->). cbv zeta in H. cbn [nth] in H.
      apply bytes_ok4 in Hv as (? & ? & ? & ?). apply v4priv_iff; auto. apply v4priv_bool in H; auto. }
    destruct E as [-> | ->]; [apply PI_v4 | apply PI_mapped]; exact HV.
  - apply andb_true_iff in H as [Hl Hb]. apply Nat.eqb_eq in Hl.
    destruct ip as [|b0 t]; [discriminate Hl|]. cbn [nth] in Hb.
    assert (Hb0 : b0 < 256) by exact (Forall_inv Hok).
    rewrite (land254 b0 Hb0) in Hb. apply N.eqb_eq in Hb.
    apply PI_v6; [exact Hl | exact Hok | exact Hb].
Qed.

Lemma unspec_inv ip : is_unspecified ip = true -> UnspecIP ip.
Proof.
  intro H. unfold is_unspecified in H. destruct (to4 ip) as [v|] eqn:E.
  - apply bytes_eqb_eq in H. subst v. apply to4_inv in E as [_ [-> | ->]]; constructor.
  - apply bytes_eqb_eq in H. subst ip. constructor.
Qed.

(* loopback, private and unspecified are pairwise disjoint for the byte tests *)
Lemma loop_not_priv ip : is_loopback ip = true -> is_private ip = false.
Proof.
  unfold is_loopback, is_private. destruct (to4 ip) as [v|] eqn:E; intro H.
  - apply N.eqb_eq in H. cbv zeta. rewrite H. reflexivity.
  - apply bytes_eqb_eq in H. subst ip. reflexivity.
Qed.

Lemma unspec_not_priv ip : is_unspecified ip = true -> is_private ip = false.
Proof. intro H. apply unspec_inv in H. destruct H; reflexivity. Qed.

(* ------------------------------------------------------------------ the host and the judged IP *)

Lemma v4loop16_facts : is_unspecified v4loop16 = false /\ is_loopback v4loop16 = true /\ is_private v4loop16 = false.
Proof. repeat split; reflexivity. Qed.
Lemma v6loop_facts : is_unspecified v6loop = false /\ is_loopback v6loop = true /\ is_private v6loop = false.
Proof. repeat split; reflexivity. Qed.


Definition wf_addr (a : addr) : Prop := bytes_ok (a_ip a) /\ (a_ip a = [] \/ a_fqdn a = []).

Lemma is_private_nil : is_private [] = false. Proof. reflexivity. Qed.
Lemma is_loopback_nil : is_loopback [] = false. Proof. reflexivity. Qed.
Lemma is_unspecified_nil : is_unspecified [] = false. Proof. reflexivity. Qed.


(* ------------------------------------------------------------------ parsing *)

Lemma take_spec n l x r : take n l = Some (x, r) -> l = x ++ r /\ length x = n.
Proof.
  revert l x r. induction n as [|n IH]; intros l x r H; cbn [take] in H.
  - injection H as <- <-. auto.
  - destruct l as [|y l]; [discriminate H|]. destruct (take n l) as [[a b]|] eqn:E; [|discriminate H].
    injection H as <- <-. apply IH in E as [-> <-]. auto.
Qed.

Lemma take_app x r : take (length x) (x ++ r) = Some (x, r).
Proof. induction x as [|y x IH]; cbn [take length app]; [reflexivity|]. rewrite IH. reflexivity. Qed.

(* what parse_addr consumed parses to the same address with nothing left *)
Lemma parse_addr_consumed l a rest : parse_addr l = Some (a, rest) ->
  exists c, l = c ++ rest /\ parse_addr c = Some (a, []).
Proof.
  unfold parse_addr. destruct l as [|t r]; [discriminate|].
  destruct (t =? ATYP4) eqn:E4; [|destruct (t =? ATYP6) eqn:E6; [|destruct (t =? ATYPD) eqn:ED; [|discriminate]]].
  - destruct (take 4 r) as [[ip r1]|] eqn:T1; [|discriminate].
    destruct (take 2 r1) as [[pt r2]|] eqn:T2; [|discriminate]. intro H. injection H as <- <-.
    apply take_spec in T1 as [-> L1]. apply take_spec in T2 as [-> L2].
    exists (t :: ip ++ pt). split; [cbn [app]; rewrite <- app_assoc; reflexivity|].
    rewrite E4. rewrite <- L1 at 1. rewrite take_app.
    rewrite <- (app_nil_r pt) at 1. rewrite <- L2 at 1. rewrite take_app. reflexivity.
  - destruct (take 16 r) as [[ip r1]|] eqn:T1; [|discriminate].
    destruct (take 2 r1) as [[pt r2]|] eqn:T2; [|discriminate]. intro H. injection H as <- <-.
    apply take_spec in T1 as [-> L1]. apply take_spec in T2 as [-> L2].
    exists (t :: ip ++ pt). split; [cbn [app]; rewrite <- app_assoc; reflexivity|].
    rewrite E4, E6. rewrite <- L1 at 1. rewrite take_app.
    rewrite <- (app_nil_r pt) at 1. rewrite <- L2 at 1. rewrite take_app. reflexivity.
  - destruct r as [|n r0]; [discriminate|].
    destruct (take (N.to_nat n) r0) as [[d r1]|] eqn:T1; [|discriminate].
    destruct (take 2 r1) as [[pt r2]|] eqn:T2; [|discriminate]. intro H. injection H as <- <-.
    apply take_spec in T1 as [-> L1]. apply take_spec in T2 as [-> L2].
    exists (t :: n :: d ++ pt). split; [cbn [app]; rewrite <- app_assoc; reflexivity|].
    rewrite E4, E6, ED. rewrite <- L1 at 1. rewrite take_app.
    rewrite <- (app_nil_r pt) at 1. rewrite <- L2 at 1. rewrite take_app. reflexivity.
Qed.

Lemma parse_addr_wf l a rest : bytes_ok l -> parse_addr l = Some (a, rest) -> wf_addr a.
Proof.
  unfold parse_addr, wf_addr. destruct l as [|t r]; [discriminate|]. intro Hok.
  apply Forall_inv_tail in Hok.
  destruct (t =? ATYP4); [|destruct (t =? ATYP6); [|destruct (t =? ATYPD); [|discriminate]]].
  - destruct (take 4 r) as [[ip r1]|] eqn:T1; [|discriminate].
    destruct (take 2 r1) as [[pt r2]|]; [|discriminate]. intro H. injection H as <- _.
    apply take_spec in T1 as [-> _]. apply bytes_ok_app in Hok. cbn [a_ip a_fqdn]. tauto.
  - destruct (take 16 r) as [[ip r1]|] eqn:T1; [|discriminate].
    destruct (take 2 r1) as [[pt r2]|]; [|discriminate]. intro H. injection H as <- _.
    apply take_spec in T1 as [-> _]. apply bytes_ok_app in Hok. cbn [a_ip a_fqdn]. tauto.
  - destruct r as [|n r0]; [discriminate|].
    destruct (take (N.to_nat n) r0) as [[d r1]|]; [|discriminate].
    destruct (take 2 r1) as [[pt r2]|]; [|discriminate]. intro H. injection H as <- _.
    cbn [a_ip a_fqdn]. split; [constructor | auto].
Qed.

Lemma parse_request_wf data cmd a : bytes_ok data -> parse_request data = Some (cmd, a) -> wf_addr a.
Proof.
  unfold parse_request. destruct data as [|v [|c [|z r]]]; try discriminate. intro Hok.
  do 3 apply Forall_inv_tail in Hok.
  destruct (v =? VER); [|discriminate]. destruct (parse_addr r) as [[a' rest]|] eqn:E; [|discriminate].
  intro H. injection H as _ <-. eapply parse_addr_wf; eauto.
Qed.

Definition is_conn_or_assoc (cmd : N) : Prop := cmd = CMD_CONNECT \/ cmd = CMD_ASSOC.

(* ------------------------------------------------------------------ the model with fixes/C12-domain-literal.diff
   (fx = true), for an arbitrary reading lit of domain strings as IP literals *)

Section Lit.
Variable lit : bytes -> option bytes.

Lemma host_ip_cases a h : host_ip true lit a = Some h ->
  (a_ip a = h /\ h <> []) \/
  (a_ip a = [] /\ lit (a_fqdn a) = Some h) \/
  (a_ip a = [] /\ lit (a_fqdn a) = None /\ a_fqdn a = [] /\ h = v4loop16) \/
  (a_ip a = [] /\ lit (a_fqdn a) = None /\ LocalName (a_fqdn a) /\ (h = v4loop16 \/ h = v6loop)).
Proof.
  destruct a as [ip fq]. unfold host_ip. cbn [a_ip a_fqdn]. destruct ip as [|b t].
  - destruct (lit fq) as [l|] eqn:EL.
    + intro H. injection H as <-. right. left. auto.
    + cbv zeta. unfold LocalName. destruct (ascii_lower fq) as [|c d] eqn:Ed.
      * intro H. injection H as <-. right. right. left.
        unfold ascii_lower in Ed. apply map_eq_nil in Ed. auto.
      * destruct (mem_bytes (strip_dot (c :: d)) names4) eqn:E4.
        { intro H. injection H as <-. right. right. right. repeat split; auto.
          apply in_or_app. left. apply mem_bytes_In. exact E4. }
        destruct (mem_bytes (strip_dot (c :: d)) names6) eqn:E6; [|discriminate].
        intro H. injection H as <-. right. right. right. repeat split; auto.
        apply in_or_app. right. apply mem_bytes_In. exact E6.
  - intro H. injection H as <-. left. split; [reflexivity | discriminate].
Qed.

Lemma host_ip_of_hostis a ip : HostIs lit a ip -> ip <> [] -> host_ip true lit a = Some ip.
Proof.
  destruct a as [aip fq]. unfold HostIs, host_ip. cbn [a_ip a_fqdn]. intros [[-> ->] | [-> EL]] Hne.
  - destruct ip as [|b t]; [contradiction Hne; reflexivity | reflexivity].
  - rewrite EL. reflexivity.
Qed.

Lemma host_ip_empty : lit [] = None -> host_ip true lit (mkAddr [] []) = Some v4loop16.
Proof. intro H. unfold host_ip. cbn [a_ip a_fqdn]. rewrite H. reflexivity. Qed.

Lemma host_ip_nolit fq : lit fq = None ->
  host_ip true lit (mkAddr [] fq) =
  match ascii_lower fq with
  | [] => Some v4loop16
  | _ :: _ => if mem_bytes (strip_dot (ascii_lower fq)) names4 then Some v4loop16
              else if mem_bytes (strip_dot (ascii_lower fq)) names6 then Some v6loop else None
  end.
Proof. intro H. unfold host_ip. cbn [a_ip a_fqdn]. rewrite H. reflexivity. Qed.

Lemma local_name_mem fq : LocalName fq ->
  mem_bytes (strip_dot (ascii_lower fq)) names4 = true \/ mem_bytes (strip_dot (ascii_lower fq)) names6 = true.
Proof.
  unfold LocalName. intro HN. apply in_app_or in HN.
  destruct HN as [HN | HN]; [left | right]; apply mem_bytes_In; exact HN.
Qed.

Lemma host_ip_local fq : lit_sane lit -> LocalName fq ->
  exists h, host_ip true lit (mkAddr [] fq) = Some h /\ (h = v4loop16 \/ h = v6loop).
Proof.
  intros [_ Hn] HN.
  assert (EL : lit fq = None).
  { destruct (lit fq) as [l|] eqn:EL; [exfalso; exact (Hn fq l EL HN) | reflexivity]. }
  rewrite (host_ip_nolit fq EL). apply local_name_mem in HN.
  destruct (ascii_lower fq) as [|c d] eqn:Ed.
  - exists v4loop16. split; [reflexivity | left; reflexivity].
  - destruct (mem_bytes (strip_dot (c :: d)) names4) eqn:E4.
    + exists v4loop16. split; [reflexivity | left; reflexivity].
    + destruct HN as [HN | HN]; [discriminate HN|]. rewrite HN.
      exists v6loop. split; [reflexivity | right; reflexivity].
Qed.

Lemma eff_of_const cmd ip : ip = v4loop16 \/ ip = v6loop ->
  (if is_unspecified ip && (cmd =? CMD_CONNECT) then Some v4loop16 else Some ip) = Some ip.
Proof.
  intros [-> | ->].
  - replace (is_unspecified v4loop16) with false by (vm_compute; reflexivity). reflexivity.
  - replace (is_unspecified v6loop) with false by (vm_compute; reflexivity). reflexivity.
Qed.

Lemma eff_host_loop cmd a h : host_ip true lit a = Some h -> is_loopback h = true ->
  exists ip, effective_ip true lit cmd a = Some ip /\ is_loopback ip = true.
Proof.
  intros Hh Hl. unfold effective_ip. rewrite Hh.
  destruct (is_unspecified h && (cmd =? CMD_CONNECT)).
  - exists v4loop16. split; [reflexivity | apply v4loop16_facts].
  - exists h. split; [reflexivity | exact Hl].
Qed.

Lemma eff_host_unspec a h : host_ip true lit a = Some h -> is_unspecified h = true ->
  exists ip, effective_ip true lit CMD_CONNECT a = Some ip /\ is_loopback ip = true.
Proof.
  intros Hh Hu. unfold effective_ip. rewrite Hh, Hu, N.eqb_refl. cbn [andb].
  exists v4loop16. split; [reflexivity | apply v4loop16_facts].
Qed.

Lemma eff_host_priv cmd a h : host_ip true lit a = Some h -> is_private h = true ->
  effective_ip true lit cmd a = Some h.
Proof.
  intros Hh Hp. unfold effective_ip. rewrite Hh.
  destruct (is_unspecified h) eqn:Eu; [apply unspec_not_priv in Eu; congruence|]. reflexivity.
Qed.

(* soundness for the loopback class *)
Lemma eff_loop_sound cmd a : lit_sane lit -> LoopDest lit cmd a ->
  exists ip, effective_ip true lit cmd a = Some ip /\ is_loopback ip = true.
Proof.
  intros Hs [(ip & HH & HL) | [[Hi Hf] | [[Hi HN] | (ip & HH & HU & Hc)]]].
  - pose proof (loop_sound ip HL) as Hl.
    assert (Hne : ip <> []) by (intro; subst ip; discriminate Hl).
    exact (eff_host_loop cmd a ip (host_ip_of_hostis a ip HH Hne) Hl).
  - destruct a as [aip fq]. cbn [a_ip a_fqdn] in Hi, Hf. subst aip fq.
    exact (eff_host_loop cmd _ v4loop16 (host_ip_empty (proj1 Hs)) (proj1 (proj2 v4loop16_facts))).
  - destruct a as [aip fq]. cbn [a_ip a_fqdn] in Hi, HN. subst aip.
    destruct (host_ip_local fq Hs HN) as (h & Hh & Hc).
    apply (eff_host_loop cmd _ h Hh). destruct Hc as [-> | ->]; [apply v4loop16_facts | apply v6loop_facts].
  - pose proof (unspec_sound ip HU) as Hu.
    assert (Hne : ip <> []) by (intro; subst ip; discriminate Hu).
    subst cmd. exact (eff_host_unspec a ip (host_ip_of_hostis a ip HH Hne) Hu).
Qed.

(* soundness for the private class *)
Lemma eff_priv_sound cmd a : PrivDest lit a ->
  exists ip, effective_ip true lit cmd a = Some ip /\ is_private ip = true.
Proof.
  intros (ip & HH & HP). pose proof (priv_sound ip HP) as Hp.
  assert (Hne : ip <> []) by (intro; subst ip; discriminate Hp).
  exists ip. split; [|exact Hp]. exact (eff_host_priv cmd a ip (host_ip_of_hostis a ip HH Hne) Hp).
Qed.

(* from the host the code judges back to the sets of the property *)
Lemma host_is_of_cases a h : wf_addr a ->
  (a_ip a = h /\ h <> []) \/ (a_ip a = [] /\ lit (a_fqdn a) = Some h) -> HostIs lit a h.
Proof.
  intros [_ Hx] [[Hi Hne] | [Hi EL]].
  - left. split; [exact Hi|]. destruct Hx as [Hx | Hx]; [congruence | exact Hx].
  - right. auto.
Qed.

Lemma host_bytes_ok a h : wf_addr a -> lit_bytes_ok lit ->
  (a_ip a = h /\ h <> []) \/ (a_ip a = [] /\ lit (a_fqdn a) = Some h) -> bytes_ok h.
Proof.
  intros [Hok _] Hl [[Hi _] | [_ EL]]; [rewrite <- Hi; exact Hok | exact (Hl _ _ EL)].
Qed.

Lemma eff_loop_complete cmd a ip : wf_addr a -> lit_bytes_ok lit ->
  effective_ip true lit cmd a = Some ip -> is_loopback ip = true -> LoopDest lit cmd a.
Proof.
  intros Hwf Hlb He Hl. unfold effective_ip in He.
  destruct (host_ip true lit a) as [h|] eqn:Eh; [|discriminate He].
  pose proof (host_ip_cases a h Eh) as Hc.
  destruct (is_unspecified h) eqn:Eu; destruct (cmd =? CMD_CONNECT) eqn:Ec; cbn [andb] in He; injection He as <-.
  - (* CONNECT to the unspecified address *)
    apply N.eqb_eq in Ec. right. right. right. exists h.
    destruct Hc as [Hc | [Hc | [(_ & _ & _ & ->) | (_ & _ & _ & [-> | ->])]]];
      try discriminate Eu.
    + split; [apply host_is_of_cases; auto | split; [apply unspec_inv; exact Eu | exact Ec]].
    + split; [apply host_is_of_cases; auto | split; [apply unspec_inv; exact Eu | exact Ec]].
  - destruct Hc as [Hc | [Hc | [(Hi & _ & Hf & _) | (Hi & _ & HN & _)]]].
    + left. exists h. split; [apply host_is_of_cases; auto | apply loop_inv; [eapply host_bytes_ok; eauto | exact Hl]].
    + left. exists h. split; [apply host_is_of_cases; auto | apply loop_inv; [eapply host_bytes_ok; eauto | exact Hl]].
    + right. left. auto.
    + right. right. left. auto.
  - destruct Hc as [Hc | [Hc | [(Hi & _ & Hf & _) | (Hi & _ & HN & _)]]].
    + left. exists h. split; [apply host_is_of_cases; auto | apply loop_inv; [eapply host_bytes_ok; eauto | exact Hl]].
    + left. exists h. split; [apply host_is_of_cases; auto | apply loop_inv; [eapply host_bytes_ok; eauto | exact Hl]].
    + right. left. auto.
    + right. right. left. auto.
  - destruct Hc as [Hc | [Hc | [(Hi & _ & Hf & _) | (Hi & _ & HN & _)]]].
    + left. exists h. split; [apply host_is_of_cases; auto | apply loop_inv; [eapply host_bytes_ok; eauto | exact Hl]].
    + left. exists h. split; [apply host_is_of_cases; auto | apply loop_inv; [eapply host_bytes_ok; eauto | exact Hl]].
    + right. left. auto.
    + right. right. left. auto.
Qed.

Lemma eff_priv_complete cmd a ip : wf_addr a -> lit_bytes_ok lit ->
  effective_ip true lit cmd a = Some ip -> is_private ip = true -> PrivDest lit a.
Proof.
  intros Hwf Hlb He Hp. unfold effective_ip in He.
  destruct (host_ip true lit a) as [h|] eqn:Eh; [|discriminate He].
  pose proof (host_ip_cases a h Eh) as Hc.
  destruct (is_unspecified h && (cmd =? CMD_CONNECT)); injection He as <-; [discriminate Hp|].
  destruct Hc as [Hc | [Hc | [(_ & _ & _ & ->) | (_ & _ & _ & [-> | ->])]]]; try discriminate Hp.
  - exists h. split; [apply host_is_of_cases; auto | apply priv_inv; [eapply host_bytes_ok; eauto | exact Hp]].
  - exists h. split; [apply host_is_of_cases; auto | apply priv_inv; [eapply host_bytes_ok; eauto | exact Hp]].
Qed.

(* ------------------------------------------------------------------ the decision on a parsed request *)

Lemma find_user_loop cfg uname : user_loop cfg uname = false ->
  match find_user cfg uname with Some u => u_loop u = false | None => True end.
Proof. unfold user_loop. destruct (find_user cfg uname); auto. Qed.
Lemma find_user_priv cfg uname : user_priv cfg uname = false ->
  match find_user cfg uname with Some u => u_priv u = false | None => True end.
Proof. unfold user_priv. destruct (find_user cfg uname); auto. Qed.

Lemma reject_loop cfg uname cmd a : lit_sane lit ->
  LoopDest lit cmd a -> c_allow_loop_dest cfg = false -> user_loop cfg uname = false ->
  reject_local true lit cfg uname cmd a = true.
Proof.
  intros Hs HL Hc Hu. destruct (eff_loop_sound cmd a Hs HL) as (ip & He & Hl).
  unfold reject_local. rewrite He. cbv zeta. rewrite Hl, (loop_not_priv ip Hl), Hc. cbn [negb andb].
  apply find_user_loop in Hu. destruct (find_user cfg uname) as [u|]; [|reflexivity].
  rewrite Hu. reflexivity.
Qed.

Lemma reject_priv cfg uname cmd a :
  PrivDest lit a -> user_priv cfg uname = false -> reject_local true lit cfg uname cmd a = true.
Proof.
  intros HP Hu. destruct (eff_priv_sound cmd a HP) as (ip & He & Hp).
  assert (Hl : is_loopback ip = false).
  { destruct (is_loopback ip) eqn:E; [|reflexivity]. apply loop_not_priv in E. congruence. }
  unfold reject_local. rewrite He. cbv zeta. rewrite Hp, Hl. cbn [negb andb].
  apply find_user_priv in Hu. destruct (find_user cfg uname) as [u|]; [|reflexivity].
  rewrite Hu. reflexivity.
Qed.

Lemma not_reject cfg uname cmd a : wf_addr a -> lit_bytes_ok lit ->
  (LoopDest lit cmd a -> user_loop cfg uname = true \/ c_allow_loop_dest cfg = true) ->
  (PrivDest lit a -> user_priv cfg uname = true) ->
  reject_local true lit cfg uname cmd a = false.
Proof.
  intros Hwf Hlb HL HP. unfold reject_local.
  destruct (effective_ip true lit cmd a) as [ip|] eqn:He; [|reflexivity]. cbv zeta.
  destruct (is_private ip) eqn:Ep; destruct (is_loopback ip) eqn:El; cbn [negb andb]; try reflexivity.
  - apply loop_not_priv in El. congruence.
  - pose proof (HP (eff_priv_complete cmd a ip Hwf Hlb He Ep)) as Hu. unfold user_priv in Hu.
    destruct (find_user cfg uname) as [u|]; [|discriminate Hu]. rewrite Hu. reflexivity.
  - destruct (HL (eff_loop_complete cmd a ip Hwf Hlb He El)) as [Hu | Hc].
    + destruct (c_allow_loop_dest cfg); [reflexivity|]. unfold user_loop in Hu.
      destruct (find_user cfg uname) as [u|]; [|discriminate Hu]. rewrite Hu. reflexivity.
    + rewrite Hc. reflexivity.
Qed.

(* ------------------------------------------------------------------ FindAction on requests *)

Lemma decide_cmd fx cfg uname cmd a idx : is_conn_or_assoc cmd ->
  decide fx lit cfg uname cmd a idx =
  if reject_local fx lit cfg uname cmd a then (ACT_REJECT, None) else rules_action cfg a idx.
Proof.
  intros [-> | ->]; unfold decide; rewrite N.eqb_refl; [reflexivity | rewrite orb_true_r; reflexivity].
Qed.

Lemma c12_reject_local : lit_sane lit -> forall cfg uname data idx cmd a,
  parse_request data = Some (cmd, a) -> is_conn_or_assoc cmd ->
  (LoopDest lit cmd a -> c_allow_loop_dest cfg = false -> user_loop cfg uname = false ->
     find_action true lit cfg true uname data idx = (ACT_REJECT, None)) /\
  (PrivDest lit a -> user_priv cfg uname = false ->
     find_action true lit cfg true uname data idx = (ACT_REJECT, None)).
Proof.
  intros Hs cfg uname data idx cmd a Hp Hc. unfold find_action. rewrite Hp, (decide_cmd _ _ _ _ _ _ Hc). split.
  - intros HL Ha Hu. rewrite (reject_loop cfg uname cmd a Hs HL Ha Hu). reflexivity.
  - intros HP Hu. rewrite (reject_priv cfg uname cmd a HP Hu). reflexivity.
Qed.

Lemma c12_allowed_unaffected : lit_bytes_ok lit -> forall cfg uname data idx cmd a,
  bytes_ok data -> parse_request data = Some (cmd, a) -> is_conn_or_assoc cmd ->
  (LoopDest lit cmd a -> user_loop cfg uname = true \/ c_allow_loop_dest cfg = true) ->
  (PrivDest lit a -> user_priv cfg uname = true) ->
  find_action true lit cfg true uname data idx = rules_action cfg a idx.
Proof.
  intros Hlb cfg uname data idx cmd a Hok Hp Hc HL HP. unfold find_action.
  rewrite Hp, (decide_cmd _ _ _ _ _ _ Hc).
  rewrite (not_reject cfg uname cmd a (parse_request_wf data cmd a Hok Hp) Hlb HL HP). reflexivity.
Qed.

(* ------------------------------------------------------------------ the UDP relay *)

Lemma relay_step_sent fx cfg uname stop pkt a : relay_step fx lit cfg uname stop pkt = RSent a ->
  exists data, parse_request data = Some (CMD_CONNECT, a) /\
               fst (find_action fx lit cfg true uname data 0) <> ACT_REJECT.
Proof.
  unfold relay_step. destruct pkt as [|r0 [|r1 [|frag r]]]; try (destruct stop; discriminate).
  destruct (length (r0 :: r1 :: frag :: r) <=? 6)%nat; [destruct stop; discriminate|].
  destruct (negb ((r0 =? 0) && (r1 =? 0))); [destruct stop; discriminate|].
  destruct (negb (frag =? 0)); [destruct stop; discriminate|].
  destruct (parse_addr r) as [[a' rest]|] eqn:E; [|destruct stop; discriminate].
  apply parse_addr_consumed in E as (c & -> & Ec).
  replace (firstn (length (c ++ rest) - length rest) (c ++ rest)) with c.
  2:{ rewrite app_length, Nat.add_sub, firstn_app, Nat.sub_diag, firstn_all, firstn_O, app_nil_r. reflexivity. }
  destruct (fst (find_action fx lit cfg true uname (VER :: CMD_CONNECT :: 0 :: c) 0) =? ACT_REJECT) eqn:Er;
    [discriminate|].
  intro H. assert (a' = a) as ->.
  { destruct (a_ip a'); destruct (a_fqdn a'); try discriminate H; injection H as <-; reflexivity. }
  exists (VER :: CMD_CONNECT :: 0 :: c). split.
  - unfold parse_request. rewrite N.eqb_refl, Ec. reflexivity.
  - apply N.eqb_neq. exact Er.
Qed.

Lemma relay_run_in fx cfg uname stop pkts a : In a (relay_run fx lit cfg uname stop pkts) ->
  exists pkt, In pkt pkts /\ relay_step fx lit cfg uname stop pkt = RSent a.
Proof.
  induction pkts as [|p ps IH]; cbn [relay_run]; [intros []|].
  destruct (relay_step fx lit cfg uname stop p) as [a'| |] eqn:E.
  - intros [<- | Hin]; [exists p; split; [left; reflexivity | exact E]|].
    destruct (IH Hin) as (q & Hq & Hs). exists q. split; [right; exact Hq | exact Hs].
  - intro Hin. destruct (IH Hin) as (q & Hq & Hs). exists q. split; [right; exact Hq | exact Hs].
  - intros [].
Qed.

(* no datagram of any association goes to a local destination the user is not allowed to reach - whether the
   header carries the address in binary or as a literal in a domain; the unspecified address counts without
   exception *)
Lemma c12_relay_no_local : lit_sane lit -> forall cfg uname stop pkts a,
  In a (relay_run true lit cfg uname stop pkts) ->
  (LoopDestFull lit a -> c_allow_loop_dest cfg = false -> user_loop cfg uname = true) /\
  (PrivDest lit a -> user_priv cfg uname = true).
Proof.
  intros Hsane cfg uname stop pkts a Hin.
  destruct (relay_run_in _ _ _ _ _ _ Hin) as (pkt & _ & Hs).
  destruct (relay_step_sent _ _ _ _ _ _ Hs) as (data & Hp & Hne).
  destruct (c12_reject_local Hsane cfg uname data 0 CMD_CONNECT a Hp (or_introl eq_refl)) as [H1 H2].
  split.
  - intros HL Hc. destruct (user_loop cfg uname) eqn:Eu; [reflexivity|].
    exfalso. apply Hne. rewrite (H1 HL Hc eq_refl). reflexivity.
  - intros HP. destruct (user_priv cfg uname) eqn:Eu; [reflexivity|].
    exfalso. apply Hne. rewrite (H2 HP eq_refl). reflexivity.
Qed.

(* and a datagram to any other destination is relayed exactly when the rule list does not say REJECT *)
Lemma relay_step_filter fx cfg uname stop c a : parse_addr c = Some (a, []) ->
  ~ (a_ip a = [] /\ a_fqdn a = []) ->
  forall payload, (3 < length (c ++ payload))%nat ->
  relay_step fx lit cfg uname stop ([0; 0; 0] ++ c ++ payload) =
  if fst (find_action fx lit cfg true uname (VER :: CMD_CONNECT :: 0 :: c) 0) =? ACT_REJECT then RDropped else RSent a.
Proof.
  intros Hc Hh payload Hlen. unfold relay_step. cbn [app].
  match goal with |- context [(?n <=? 6)%nat] => destruct (n <=? 6)%nat eqn:El end.
  { apply Nat.leb_le in El. cbn [length] in El. lia. }
  cbn [N.eqb andb negb].
  assert (Hp : parse_addr (c ++ payload) = Some (a, payload)).
  { revert Hc. unfold parse_addr. destruct c as [|t r]; [discriminate|]. cbn [app].
    destruct (t =? ATYP4); [|destruct (t =? ATYP6); [|destruct (t =? ATYPD); [|discriminate]]].
    - destruct (take 4 r) as [[ip r1]|] eqn:T1; [|discriminate].
      destruct (take 2 r1) as [[pt r2]|] eqn:T2; [|discriminate]. intro H. injection H as <- ->.
      apply take_spec in T1 as [-> L1]. apply take_spec in T2 as [-> L2].
      rewrite <- app_assoc. rewrite <- L1 at 1. rewrite take_app. rewrite app_nil_r.
      rewrite <- L2 at 1. rewrite take_app. reflexivity.
    - destruct (take 16 r) as [[ip r1]|] eqn:T1; [|discriminate].
      destruct (take 2 r1) as [[pt r2]|] eqn:T2; [|discriminate]. intro H. injection H as <- ->.
      apply take_spec in T1 as [-> L1]. apply take_spec in T2 as [-> L2].
      rewrite <- app_assoc. rewrite <- L1 at 1. rewrite take_app. rewrite app_nil_r.
      rewrite <- L2 at 1. rewrite take_app. reflexivity.
    - destruct r as [|n r0]; [discriminate|]. cbn [app].
      destruct (take (N.to_nat n) r0) as [[d r1]|] eqn:T1; [|discriminate].
      destruct (take 2 r1) as [[pt r2]|] eqn:T2; [|discriminate]. intro H. injection H as <- ->.
      apply take_spec in T1 as [-> L1]. apply take_spec in T2 as [-> L2].
      rewrite <- app_assoc. rewrite <- L1 at 1. rewrite take_app. rewrite app_nil_r.
      rewrite <- L2 at 1. rewrite take_app. reflexivity. }
  rewrite Hp.
  replace (firstn (length (c ++ payload) - length payload) (c ++ payload)) with c.
  2:{ rewrite app_length, Nat.add_sub, firstn_app, Nat.sub_diag, firstn_all, firstn_O, app_nil_r. reflexivity. }
  destruct (fst (find_action fx lit cfg true uname (VER :: CMD_CONNECT :: 0 :: c) 0) =? ACT_REJECT); [reflexivity|].
  destruct (a_ip a); destruct (a_fqdn a); try reflexivity. exfalso. apply Hh. auto.
Qed.

End Lit.

(* ------------------------------------------------------------------ first match *)

Lemma first_match_app a rs1 r rs2 :
  (forall r', In r' rs1 -> match_rule a r' = false) -> match_rule a r = true ->
  first_match a (rs1 ++ r :: rs2) = Some r.
Proof.
  induction rs1 as [|x rs1 IH]; intros Hn Hm; cbn [app first_match].
  - rewrite Hm. reflexivity.
  - rewrite (Hn x (or_introl eq_refl)). apply IH; [|exact Hm]. intros r' Hin. apply Hn. right. exact Hin.
Qed.

Lemma first_match_none a rs : (forall r, In r rs -> match_rule a r = false) -> first_match a rs = None.
Proof.
  induction rs as [|x rs IH]; intro Hn; cbn [first_match]; [reflexivity|].
  rewrite (Hn x (or_introl eq_refl)). apply IH. intros r Hin. apply Hn. right. exact Hin.
Qed.

Lemma match_rule_host a r : match_rule a r = true -> ~ (a_ip a = [] /\ a_fqdn a = []).
Proof. unfold match_rule. intros H [E1 E2]. rewrite E1, E2 in H. discriminate H. Qed.

Lemma c12_first_match : forall cfg a idx,
  (forall rs1 r rs2, c_rules cfg = rs1 ++ r :: rs2 ->
     (forall r', In r' rs1 -> match_rule a r' = false) -> match_rule a r = true ->
     rules_action cfg a idx = rule_result cfg r idx) /\
  ((forall r, In r (c_rules cfg) -> match_rule a r = false) -> rules_action cfg a idx = (ACT_DIRECT, None)).
Proof.
  intros cfg a idx. split.
  - intros rs1 r rs2 Hr Hn Hm. unfold rules_action. rewrite Hr, (first_match_app a rs1 r rs2 Hn Hm).
    pose proof (match_rule_host a r Hm) as Hh.
    destruct (a_ip a); destruct (a_fqdn a); try reflexivity. exfalso. apply Hh. auto.
  - intro Hn. unfold rules_action. rewrite (first_match_none a _ Hn).
    destruct (a_ip a); destruct (a_fqdn a); reflexivity.
Qed.


(* ------------------------------------------------------------------ witnesses *)

Definition no_lit : bytes -> option bytes := fun _ => None.

Lemma no_lit_sane : lit_sane no_lit.
Proof. split; [reflexivity | intros s ip H; discriminate H]. Qed.
Lemma no_lit_ok : lit_bytes_ok no_lit.
Proof. intros s ip H. discriminate H. Qed.

(* the one exception to the text of the property, kept on purpose (RFC 1928: a client that does not
   know its address sends all zeros in UDP ASSOCIATE; the server never sends anything there) *)
Definition assoc_unspec_witness : bytes := [5; 3; 0; 1; 0; 0; 0; 0; 0; 0].
Definition empty_cfg : config := mkConfig false [] [] [].

Lemma c12_assoc_unspecified_refuted :
  exists lit cfg uname data idx a,
    lit_sane lit /\
    parse_request data = Some (CMD_ASSOC, a) /\ UnspecIP (a_ip a) /\ a_fqdn a = [] /\
    c_allow_loop_dest cfg = false /\ user_loop cfg uname = false /\
    find_action true lit cfg true uname data idx = (ACT_DIRECT, None).
Proof.
  exists no_lit, empty_cfg, [], assoc_unspec_witness, 0, (mkAddr zero4 []).
  split; [exact no_lit_sane|]. repeat split; try reflexivity. constructor.
Qed.

(* the code before fixes/C12-domain-literal.diff (fx = false): a CONNECT of the unknown user to the
   domain-typed literal "127.0.0.1", and to "localhost.", is in LoopDest and gets DIRECT *)
Definition s_127_0_0_1 : bytes := [49; 50; 55; 46; 48; 46; 48; 46; 49].
Definition lit_127 : bytes -> option bytes := fun s => if bytes_eqb s s_127_0_0_1 then Some [127; 0; 0; 1] else None.
Definition req_lit_127 : bytes := [5; 1; 0; 3; 9] ++ s_127_0_0_1 ++ [0; 80].
Definition s_localhost_dot : bytes := [108; 111; 99; 97; 108; 104; 111; 115; 116; 46].
Definition req_localhost_dot : bytes := [5; 1; 0; 3; 10] ++ s_localhost_dot ++ [0; 80].

Lemma v4_127_0_0_1_loopback : LoopbackIP [127; 0; 0; 1].
Proof.
  apply LI_v4. split; [reflexivity|]. split; [repeat constructor|].
  vm_compute. split; [discriminate | reflexivity].
Qed.

Lemma lit_127_sane : lit_sane lit_127.
Proof.
  split; [reflexivity|]. intros s ip H. unfold lit_127 in H.
  destruct (bytes_eqb s s_127_0_0_1) eqn:E; [|discriminate H]. apply bytes_eqb_eq in E. subst s.
  unfold LocalName. vm_compute. intuition discriminate.
Qed.
Lemma lit_127_ok : lit_bytes_ok lit_127.
Proof.
  intros s ip H. unfold lit_127 in H. destruct (bytes_eqb s s_127_0_0_1); [|discriminate H].
  injection H as <-. repeat constructor.
Qed.

Lemma c12_domain_literal_refuted_before_fix :
  (exists lit cfg uname data idx a,
     lit_sane lit /\ parse_request data = Some (CMD_CONNECT, a) /\ LoopDest lit CMD_CONNECT a /\
     c_allow_loop_dest cfg = false /\ user_loop cfg uname = false /\
     find_action false lit cfg true uname data idx = (ACT_DIRECT, None)) /\
  (exists lit cfg uname data idx a,
     lit_sane lit /\ parse_request data = Some (CMD_CONNECT, a) /\ a_ip a = [] /\ LocalName (a_fqdn a) /\
     c_allow_loop_dest cfg = false /\ user_loop cfg uname = false /\
     find_action false lit cfg true uname data idx = (ACT_DIRECT, None)).
Proof.
  split.
  - exists lit_127, empty_cfg, [], req_lit_127, 0, (mkAddr [] s_127_0_0_1).
    split; [exact lit_127_sane|]. repeat split; try reflexivity.
    left. exists [127; 0; 0; 1]. split; [right; split; reflexivity | exact v4_127_0_0_1_loopback].
  - exists no_lit, empty_cfg, [], req_localhost_dot, 0, (mkAddr [] s_localhost_dot).
    split; [exact no_lit_sane|]. repeat split; try reflexivity.
    unfold LocalName. vm_compute. left. reflexivity.
Qed.

(* the same two requests on the fixed model: REJECT (instances of c12_reject_local) *)
Example ex_literal_fixed :
  find_action true lit_127 empty_cfg true [] req_lit_127 0 = (ACT_REJECT, None) /\
  find_action true no_lit empty_cfg true [] req_localhost_dot 0 = (ACT_REJECT, None).
Proof. split; reflexivity. Qed.

(* the tree the constants were regenerated from contains fixes/C12-domain-literal.diff: the model the
   correspondence run executes (fx = tree_fixed) is the fixed one the theorems speak about *)
Lemma c12_tree_fixed : tree_fixed = true.
Proof. reflexivity. Qed.

(* ------------------------------------------------------------------ non-vacuity: concrete instances *)

Definition s_LoCaLhOsT : bytes := [76; 111; 67; 97; 76; 104; 79; 115; 84].
Definition req_name : bytes := [5; 1; 0; 3; 9] ++ s_LoCaLhOsT ++ [0; 80].
Definition u_alice : bytes := [97].
Definition u_bob : bytes := [98].
Definition cfg_ex : config :=
  mkConfig false
    [(u_alice, mkUser false false); (u_bob, mkUser true true)]
    [ mkRule [IpCidr [8;8;0;0] 16] [] ACT_REJECT [];
      mkRule [IpCidr [8;0;0;0] 8; IpStar] [[101;120;97;109;112;108;101;46;99;111;109]] ACT_PROXY [[112]];
      mkRule [] [STAR] ACT_REJECT [] ]
    [[112]].

(* hypotheses of c12_reject_local hold for "LoCaLhOsT" and user alice (no flags); the answer is REJECT *)
Example ex_reject_name :
  parse_request req_name = Some (CMD_CONNECT, mkAddr [] s_LoCaLhOsT) /\
  LoopDest no_lit CMD_CONNECT (mkAddr [] s_LoCaLhOsT) /\
  user_loop cfg_ex u_alice = false /\
  find_action true no_lit cfg_ex true u_alice req_name 0 = (ACT_REJECT, None).
Proof.
  repeat split; try reflexivity.
  right. right. left. split; [reflexivity|]. unfold LocalName. vm_compute. left. reflexivity.
Qed.

(* ::ffff:172.31.255.255 (upper boundary of 172.16/12, mapped form) is in PrivDest and rejected for alice *)
Definition req_mapped_priv : bytes := [5; 3; 0; 4] ++ mapped [172; 31; 255; 255] ++ [0; 53].
Example ex_reject_mapped_private :
  parse_request req_mapped_priv = Some (CMD_ASSOC, mkAddr (mapped [172; 31; 255; 255]) []) /\
  PrivDest no_lit (mkAddr (mapped [172; 31; 255; 255]) []) /\
  user_priv cfg_ex u_alice = false /\
  find_action true no_lit cfg_ex true u_alice req_mapped_priv 0 = (ACT_REJECT, None).
Proof.
  repeat split; try reflexivity.
  exists (mapped [172; 31; 255; 255]). split; [left; split; reflexivity|].
  apply PI_mapped. split; [reflexivity|]. split; [repeat constructor|].
  right. left. vm_compute. split; [discriminate | reflexivity].
Qed.

(* bob has both flags: the same requests get what the rule list says (here: the third rule REJECTs every
   name, the second rule PROXYs every IP) - the hypotheses of c12_allowed_unaffected are satisfiable *)
Example ex_allowed :
  find_action true no_lit cfg_ex true u_bob req_name 0 = rules_action cfg_ex (mkAddr [] s_LoCaLhOsT) 0 /\
  rules_action cfg_ex (mkAddr [] s_LoCaLhOsT) 0 = (ACT_REJECT, None) /\
  find_action true no_lit cfg_ex true u_bob req_mapped_priv 0 = (ACT_PROXY, Some [112]).
Proof. repeat split; reflexivity. Qed.

(* overlapping rules: 8.8.8.8 meets rules 1 and 2, the first one wins; 8.9.9.9 only rule 2 *)
Example ex_first_match :
  rules_action cfg_ex (mkAddr [8; 8; 8; 8] []) 0 = (ACT_REJECT, None) /\
  rules_action cfg_ex (mkAddr [8; 9; 9; 9] []) 0 = (ACT_PROXY, Some [112]) /\
  match_rule (mkAddr [8; 8; 8; 8] []) (nth 1 (c_rules cfg_ex) (mkRule [] [] 0 [])) = true.
Proof. repeat split; reflexivity. Qed.

(* a relay run for alice: 127.0.0.1, 0.0.0.0, "LOCALHOST", the domain-typed literal "127.0.0.1" and
   "localhost." are dropped, 9.9.9.9 is sent (cfg without rules), and a malformed datagram ends the
   stream-mode loop *)
Definition cfg_norules : config := mkConfig false [(u_alice, mkUser false false)] [] [].
Definition dg (addrenc : bytes) : bytes := [0; 0; 0] ++ addrenc ++ [1; 2; 3].
Example ex_relay :
  relay_run true lit_127 cfg_norules u_alice true
    [ dg [1; 127; 0; 0; 1; 0; 53]; dg [1; 0; 0; 0; 0; 0; 53];
      dg ([3; 9; 76; 79; 67; 65; 76; 72; 79; 83; 84] ++ [0; 53]);
      dg ([3; 9] ++ s_127_0_0_1 ++ [0; 53]); dg ([3; 10] ++ s_localhost_dot ++ [0; 53]);
      dg [1; 9; 9; 9; 9; 0; 53]; [0; 0; 1; 1; 9; 9; 9; 9; 0; 53; 1]; dg [1; 9; 9; 9; 9; 0; 53] ]
  = [ mkAddr [9; 9; 9; 9] [] ].
Proof. reflexivity. Qed.
