(* C07 — proofs about model/Discover.v (tryState and the discovery loop). *)
From Coq Require Import List NArith ZArith Bool Lia ZifyN ZifyNat ZifyBool.
From M Require Import gen.Consts model.Discover.
Import ListNotations.
Open Scope N_scope.

(* ---------- list helpers ---------- *)

Lemma nodup_app_intro {A} (a b : list A) :
  NoDup a -> NoDup b -> (forall x, In x a -> In x b -> False) -> NoDup (a ++ b).
Proof.
  induction a as [|x a IH]; intros Ha Hb Hd; cbn [app]; [exact Hb|].
  inversion Ha as [|? ? Hx Ha']; subst. constructor.
  - rewrite in_app_iff. intros [H|H]; [exact (Hx H)|]. exact (Hd x (or_introl eq_refl) H).
  - apply IH; [exact Ha'|exact Hb|]. intros y Hy1 Hy2. exact (Hd y (or_intror Hy1) Hy2).
Qed.

Lemma nodup_app_l {A} (a b : list A) : NoDup (a ++ b) -> NoDup a.
Proof.
  induction a as [|x a IH]; intros H; [constructor|].
  cbn [app] in H. inversion H as [|? ? Hx H']; subst. constructor.
  - intros Hin. apply Hx. apply in_or_app. left. exact Hin.
  - exact (IH H').
Qed.

Lemma nodup_app_disj {A} (a b : list A) x : NoDup (a ++ b) -> In x a -> In x b -> False.
Proof.
  induction a as [|y a IH]; intros H Ha Hb; [destruct Ha|].
  cbn [app] in H. inversion H as [|? ? Hy H']; subst. destruct Ha as [-> | Ha].
  - apply Hy. apply in_or_app. right. exact Hb.
  - exact (IH H' Ha Hb).
Qed.

Section Proofs.
  Variable U : Type.
  Variables hint auth : U -> bool.

  Notation ubi := (user_by_id U).
  Notation pc := (phase_cached U hint auth).
  Notation pr := (phase_registry U hint auth).
  Notation ts := (try_state U hint auth).

  (* ---------- ids ---------- *)

  Lemma index_from_spec : forall us s i u,
    In (i, u) (index_from U s us) <-> (s <= i /\ nth_error us (N.to_nat (i - s)) = Some u).
  Proof.
    induction us as [|u0 r IH]; intros s i u; cbn [index_from In].
    - split; [tauto|]. intros [_ H]. destruct (N.to_nat (i - s)); discriminate.
    - rewrite IH. split.
      + intros [H | [H1 H2]].
        * inversion H; subst. split; [lia|]. replace (N.to_nat (i - i)) with 0%nat by lia. reflexivity.
        * split; [lia|]. replace (N.to_nat (i - s)) with (S (N.to_nat (i - (s + 1)))) by lia. exact H2.
      + intros [H1 H2]. destruct (N.eq_dec i s) as [-> | Hne].
        * left. replace (N.to_nat (s - s)) with 0%nat in H2 by lia. cbn in H2. inversion H2; reflexivity.
        * right. split; [lia|].
          replace (N.to_nat (i - s)) with (S (N.to_nat (i - (s + 1)))) in H2 by lia. exact H2.
  Qed.

  Lemma ubi_spec : forall users i u,
    ubi users i = Some u <-> (i <> 0 /\ nth_error users (N.to_nat (i - 1)) = Some u).
  Proof.
    intros users i u. unfold user_by_id.
    destruct (N.eqb_spec i 0) as [-> | Hne]; cbn [orb].
    - split; [discriminate|]. intros [H _]. congruence.
    - destruct (N.ltb_spec (N.of_nat (length users)) i) as [Hlt|Hge].
      + split; [discriminate|]. intros [_ H].
        assert (Hl : (N.to_nat (i - 1) < length users)%nat) by (apply nth_error_Some; congruence). lia.
      + split; [intros H; split; [exact Hne|exact H] | intros [_ H]; exact H].
  Qed.

  Lemma index_ubi : forall users i u, In (i, u) (index_from U 1 users) <-> ubi users i = Some u.
  Proof.
    intros. rewrite index_from_spec, ubi_spec. split.
    - intros [H1 H2]. split; [lia|exact H2].
    - intros [H1 H2]. split; [lia|exact H2].
  Qed.

  Lemma index_nodup : forall us s, NoDup (map fst (index_from U s us)).
  Proof.
    induction us as [|u r IH]; intros s; cbn [index_from map fst]; constructor.
    - rewrite in_map_iff. intros [[j v] [Hj Hin]]. cbn in Hj. subst j.
      apply index_from_spec in Hin. lia.
    - apply IH.
  Qed.

  Lemma ubi_in : forall users i u, ubi users i = Some u -> In u users.
  Proof.
    intros users i u H. apply ubi_spec in H. destruct H as [_ H]. exact (nth_error_In _ _ H).
  Qed.

  Lemma ubi_range : forall users i u, ubi users i = Some u -> 1 <= i /\ i <= N.of_nat (length users).
  Proof.
    intros users i u H. apply ubi_spec in H. destruct H as [Hne H].
    assert (Hlt : (N.to_nat (i - 1) < length users)%nat) by (apply nth_error_Some; congruence). lia.
  Qed.

  Lemma wa_spec : forall att i, was_attempted att i = true <-> In i att.
  Proof.
    intros. unfold was_attempted. rewrite existsb_exists. split.
    - intros [x [Hx He]]. apply N.eqb_eq in He. subst. exact Hx.
    - intros H. exists i. split; [exact H|apply N.eqb_refl].
  Qed.

  Lemma wa_false : forall att i, was_attempted att i = false <-> ~ In i att.
  Proof. intros. rewrite <- wa_spec. destruct (was_attempted att i); split; congruence. Qed.

  Lemma mark_incl : forall att c i, In i (mark att c) -> In i att \/ i = c.
  Proof.
    intros att c i. unfold mark. destruct (_ && _); [|tauto].
    rewrite in_app_iff. cbn. intuition.
  Qed.

  (* a user that was tried and did not authenticate / the value of its hint *)
  Definition failed (users : list U) (i : N) : Prop := exists u, ubi users i = Some u /\ auth u = false.
  Definition hv (users : list U) (i : N) (w : bool) : Prop := exists u, ubi users i = Some u /\ hint u = w.

  Lemma hv_excl : forall users i, hv users i true -> hv users i false -> False.
  Proof. intros users i [u [H1 H2]] [v [H3 H4]]. congruence. Qed.

  (* ---------- phase lemmas: soundness and exhaustion ---------- *)

  Lemma pc_sound : forall want users cached att tried i u a t,
    pc want users cached att tried = (Some (i, u), a, t) ->
    ubi users i = Some u /\ auth u = true /\ hint u = want.
  Proof.
    induction cached as [|c rest IH]; intros att tried i u a t H; cbn [phase_cached] in H; [discriminate|].
    destruct (ubi users c) as [uc|] eqn:Hc; [|exact (IH _ _ _ _ _ _ H)].
    destruct (was_attempted att c || negb (Bool.eqb (hint uc) want)) eqn:Hs; [exact (IH _ _ _ _ _ _ H)|].
    apply orb_false_iff in Hs. destruct Hs as [_ Hh]. apply negb_false_iff, eqb_prop in Hh.
    destruct (auth uc) eqn:Ha; [|exact (IH _ _ _ _ _ _ H)].
    inversion H; subst. auto.
  Qed.

  Lemma pc_none_inv : forall want users cached att tried a t,
    pc want users cached att tried = (None, a, t) ->
    (forall i, In i att -> failed users i) -> (forall i, In i a -> failed users i).
  Proof.
    induction cached as [|c rest IH]; intros att tried a t H Hinv; cbn [phase_cached] in H.
    - inversion H; subst. exact Hinv.
    - destruct (ubi users c) as [uc|] eqn:Hc; [|exact (IH _ _ _ _ H Hinv)].
      destruct (was_attempted att c || negb (Bool.eqb (hint uc) want)); [exact (IH _ _ _ _ H Hinv)|].
      destruct (auth uc) eqn:Ha; [discriminate|].
      apply (IH _ _ _ _ H). intros i Hi. apply mark_incl in Hi. destruct Hi as [Hi | ->]; [exact (Hinv i Hi)|].
      exists uc. auto.
  Qed.

  Lemma pr_sound : forall want ius att tried i u t,
    pr want ius att tried = (Some (i, u), t) -> In (i, u) ius /\ auth u = true /\ hint u = want.
  Proof.
    induction ius as [|[j v] rest IH]; intros att tried i u t H; cbn [phase_registry] in H; [discriminate|].
    destruct (was_attempted att j || negb (Bool.eqb (hint v) want)) eqn:Hs.
    - destruct (IH _ _ _ _ _ H) as [H1 H2]. split; [right; exact H1|exact H2].
    - apply orb_false_iff in Hs. destruct Hs as [_ Hh]. apply negb_false_iff, eqb_prop in Hh.
      destruct (auth v) eqn:Ha.
      + inversion H; subst. split; [left; reflexivity|auto].
      + destruct (IH _ _ _ _ _ H) as [H1 H2]. split; [right; exact H1|exact H2].
  Qed.

  Lemma pr_none : forall want ius att tried t,
    pr want ius att tried = (None, t) ->
    forall i u, In (i, u) ius -> hint u = want -> In i att \/ auth u = false.
  Proof.
    induction ius as [|[j v] rest IH]; intros att tried t H i u Hin Hh; [destruct Hin|].
    cbn [phase_registry] in H.
    destruct (was_attempted att j || negb (Bool.eqb (hint v) want)) eqn:Hs.
    - destruct Hin as [Heq|Hin]; [|exact (IH _ _ _ H _ _ Hin Hh)].
      inversion Heq; subst. apply orb_true_iff in Hs. destruct Hs as [Hs|Hs].
      + left. apply wa_spec. exact Hs.
      + rewrite eqb_reflx in Hs. discriminate.
    - destruct (auth v) eqn:Ha; [discriminate|].
      destruct Hin as [Heq|Hin]; [inversion Heq; subst; right; exact Ha|exact (IH _ _ _ H _ _ Hin Hh)].
  Qed.

  Definition origin_hint (o : origin) : bool :=
    match o with OCachedHint | ORegistryHint => true | _ => false end.

  (* ---------- attr_sound ---------- *)

  Theorem attr_sound : forall users cached mandatory i u o,
    r_hit (ts users cached mandatory) = Some (i, u, o) ->
    ubi users i = Some u /\ In u users /\ auth u = true /\ hint u = origin_hint o /\
    (mandatory = true -> origin_hint o = true).
  Proof.
    intros users cached mandatory i u o H. unfold try_state in H.
    assert (G : forall o', ubi users i = Some u /\ auth u = true /\ hint u = origin_hint o' ->
                (mandatory = true -> origin_hint o' = true) -> o' = o ->
                ubi users i = Some u /\ In u users /\ auth u = true /\ hint u = origin_hint o /\
                (mandatory = true -> origin_hint o = true)).
    { intros o' [H1 [H2 H3]] H4 <-. repeat split; auto. exact (ubi_in _ _ _ H1). }
    destruct (pc true users cached [] []) as [[[[i1 u1]|] a1] t1] eqn:P1.
    - cbn in H. inversion H; subst.
      apply (G OCachedHint); [exact (pc_sound _ _ _ _ _ _ _ _ _ P1)|reflexivity|reflexivity].
    - destruct (pr true (index_from U 1 users) a1 t1) as [[[i2 u2]|] t2] eqn:P2.
      + cbn in H. inversion H; subst.
        destruct (pr_sound _ _ _ _ _ _ _ P2) as [Hin Hr]. apply index_ubi in Hin.
        apply (G ORegistryHint); [split; [exact Hin|exact Hr]|reflexivity|reflexivity].
      + destruct mandatory; [cbn in H; discriminate|].
        destruct (pc false users cached a1 t2) as [[[[i3 u3]|] a3] t3] eqn:P3.
        * cbn in H. inversion H; subst.
          apply (G OCachedFallback); [exact (pc_sound _ _ _ _ _ _ _ _ _ P3)|discriminate|reflexivity].
        * destruct (pr false (index_from U 1 users) a3 t3) as [[[i4 u4]|] t4] eqn:P4;
            cbn in H; [|discriminate].
          inversion H; subst.
          destruct (pr_sound _ _ _ _ _ _ _ P4) as [Hin Hr]. apply index_ubi in Hin.
          apply (G ORegistryFallback); [split; [exact Hin|exact Hr]|discriminate|reflexivity].
  Qed.

  (* ---------- attr_complete ---------- *)

  Theorem attr_complete : forall users cached mandatory,
    r_hit (ts users cached mandatory) = None ->
    forall i u, ubi users i = Some u -> (mandatory = true -> hint u = true) -> auth u = false.
  Proof.
    intros users cached mandatory H i u Hu Hel. unfold try_state in H.
    assert (I0 : forall j, In j (@nil N) -> failed users j) by (intros j []).
    destruct (pc true users cached [] []) as [[[[i1 u1]|] a1] t1] eqn:P1; [cbn in H; discriminate|].
    pose proof (pc_none_inv _ _ _ _ _ _ _ P1 I0) as I1.
    destruct (pr true (index_from U 1 users) a1 t1) as [[[i2 u2]|] t2] eqn:P2; [cbn in H; discriminate|].
    assert (Hin : In (i, u) (index_from U 1 users)) by (apply index_ubi; exact Hu).
    assert (Ht : hint u = true -> auth u = false).
    { intros Hh. destruct (pr_none _ _ _ _ _ P2 _ _ Hin Hh) as [Ha|Ha]; [|exact Ha].
      destruct (I1 _ Ha) as [v [Hv Hf]]. congruence. }
    destruct mandatory; [apply Ht; auto|].
    destruct (hint u) eqn:Hh; [apply Ht; reflexivity|].
    destruct (pc false users cached a1 t2) as [[[[i3 u3]|] a3] t3] eqn:P3; [cbn in H; discriminate|].
    pose proof (pc_none_inv _ _ _ _ _ _ _ P3 I1) as I3.
    destruct (pr false (index_from U 1 users) a3 t3) as [[[i4 u4]|] t4] eqn:P4; [cbn in H; discriminate|].
    destruct (pr_none _ _ _ _ _ P4 _ _ Hin Hh) as [Ha|Ha]; [|exact Ha].
    destruct (I3 _ Ha) as [v [Hv Hf]]. congruence.
  Qed.

  (* accept / reject is decided by the users and the segment alone *)
  Theorem attr_accept_iff : forall users cached mandatory,
    r_hit (ts users cached mandatory) <> None <->
    exists i u, ubi users i = Some u /\ auth u = true /\ (mandatory = true -> hint u = true).
  Proof.
    intros. split.
    - destruct (r_hit (ts users cached mandatory)) as [[[i u] o]|] eqn:H; [intros _|congruence].
      destruct (attr_sound _ _ _ _ _ _ H) as [H1 [_ [H2 [H3 H4]]]].
      exists i, u. repeat split; auto. intros Hm. rewrite H3. auto.
    - intros [i [u [H1 [H2 H3]]]] Hn.
      pose proof (attr_complete _ _ _ Hn _ _ H1 H3). congruence.
  Qed.

  (* ---------- attr_hint_pref ---------- *)

  Theorem attr_hint_pref : forall users cached mandatory,
    (exists i u, ubi users i = Some u /\ hint u = true /\ auth u = true) ->
    exists j v o, r_hit (ts users cached mandatory) = Some (j, v, o) /\ hint v = true /\ origin_hint o = true.
  Proof.
    intros users cached mandatory [i [u [Hu [Hh Ha]]]]. unfold try_state.
    assert (I0 : forall j, In j (@nil N) -> failed users j) by (intros j []).
    destruct (pc true users cached [] []) as [[[[i1 u1]|] a1] t1] eqn:P1.
    - exists i1, u1, OCachedHint. cbn. destruct (pc_sound _ _ _ _ _ _ _ _ _ P1) as [_ [_ H]]. auto.
    - pose proof (pc_none_inv _ _ _ _ _ _ _ P1 I0) as I1.
      destruct (pr true (index_from U 1 users) a1 t1) as [[[i2 u2]|] t2] eqn:P2.
      + exists i2, u2, ORegistryHint. cbn. destruct (pr_sound _ _ _ _ _ _ _ P2) as [_ [_ H]]. auto.
      + exfalso. assert (Hin : In (i, u) (index_from U 1 users)) by (apply index_ubi; exact Hu).
        destruct (pr_none _ _ _ _ _ P2 _ _ Hin Hh) as [Hx|Hx]; [|congruence].
        destruct (I1 _ Hx) as [v [Hv Hf]]. congruence.
  Qed.

  (* ---------- attr_once ---------- *)

  Lemma pc_trace : forall full, N.of_nat (length full) <= att_cap ->
    forall want users cached att tried hit a t,
    incl cached full -> NoDup att -> incl att full ->
    pc want users cached att tried = (hit, a, t) ->
    exists new, t = tried ++ new /\ a = att ++ new /\ NoDup a /\ incl a full /\
                (forall i, In i new -> hv users i want).
  Proof.
    intros full Hcap want users.
    induction cached as [|c rest IH]; intros att tried hit a t Hc Hnd Hinc H; cbn [phase_cached] in H.
    - inversion H; subst. exists []. rewrite !app_nil_r. repeat split; auto. intros i [].
    - assert (Hrest : incl rest full) by (intros x Hx; apply Hc; right; exact Hx).
      destruct (ubi users c) as [uc|] eqn:Huc; [|exact (IH _ _ _ _ _ Hrest Hnd Hinc H)].
      destruct (was_attempted att c || negb (Bool.eqb (hint uc) want)) eqn:Hs;
        [exact (IH _ _ _ _ _ Hrest Hnd Hinc H)|].
      apply orb_false_iff in Hs. destruct Hs as [Hw Hh]. apply negb_false_iff, eqb_prop in Hh.
      apply wa_false in Hw.
      assert (Hnd' : NoDup (att ++ [c])).
      { apply nodup_app_intro; [exact Hnd|constructor; [intros []|constructor]|].
        intros x Hx [<-|[]]. exact (Hw Hx). }
      assert (Hinc' : incl (att ++ [c]) full).
      { intros x Hx. apply in_app_iff in Hx. destruct Hx as [Hx|[<-|[]]]; [exact (Hinc x Hx)|].
        apply Hc. left. reflexivity. }
      assert (Hmark : mark att c = att ++ [c]).
      { unfold mark. pose proof (NoDup_incl_length Hnd' Hinc') as Hl. rewrite app_length in Hl. cbn in Hl.
        assert (Hlt : N.of_nat (length att) <? att_cap = true) by (apply N.ltb_lt; lia).
        rewrite Hlt. apply wa_false in Hw. rewrite Hw. reflexivity. }
      rewrite Hmark in H.
      assert (Hhv : hv users c want) by (exists uc; auto).
      destruct (auth uc).
      + inversion H; subst. exists [c]. repeat split; auto. intros i [<-|[]]. exact Hhv.
      + destruct (IH _ _ _ _ _ Hrest Hnd' Hinc' H) as [new [E1 [E2 [E3 [E4 E5]]]]].
        exists (c :: new). rewrite <- !app_assoc in E1, E2. cbn [app] in E1, E2.
        repeat split; auto. intros i [<-|Hi]; [exact Hhv|exact (E5 i Hi)].
  Qed.

  Lemma pr_trace : forall want ius att tried hit t,
    pr want ius att tried = (hit, t) ->
    exists new, t = tried ++ new /\
      (forall i, In i new -> ~ In i att /\ In i (map fst ius) /\ exists u, In (i, u) ius /\ hint u = want) /\
      (NoDup (map fst ius) -> NoDup new).
  Proof.
    induction ius as [|[j v] rest IH]; intros att tried hit t H; cbn [phase_registry] in H.
    - inversion H; subst. exists []. rewrite app_nil_r. split; [reflexivity|]. split; [intros i []|]. intros _. constructor.
    - assert (Lift : forall new,
                (forall i, In i new -> ~ In i att /\ In i (map fst rest) /\ exists u, In (i, u) rest /\ hint u = want) ->
                forall i, In i new -> ~ In i att /\ In i (map fst ((j, v) :: rest)) /\
                                      exists u, In (i, u) ((j, v) :: rest) /\ hint u = want).
      { intros new Hn i Hi. destruct (Hn i Hi) as [A [B [u [C D]]]].
        split; [exact A|]. split; [right; exact B|]. exists u. split; [right; exact C|exact D]. }
      destruct (was_attempted att j || negb (Bool.eqb (hint v) want)) eqn:Hs.
      + destruct (IH _ _ _ _ H) as [new [E1 [E2 E3]]]. exists new. split; [exact E1|].
        split; [exact (Lift new E2)|]. intros Hnd. apply E3. cbn in Hnd. inversion Hnd; assumption.
      + apply orb_false_iff in Hs. destruct Hs as [Hw Hh]. apply negb_false_iff, eqb_prop in Hh.
        apply wa_false in Hw.
        assert (Hj : ~ In j att /\ In j (map fst ((j, v) :: rest)) /\
                     exists u, In (j, u) ((j, v) :: rest) /\ hint u = want).
        { split; [exact Hw|]. split; [left; reflexivity|]. exists v. split; [left; reflexivity|exact Hh]. }
        destruct (auth v).
        * inversion H; subst. exists [j]. split; [reflexivity|]. split.
          -- intros i [<-|[]]. exact Hj.
          -- intros _. constructor; [intros []|constructor].
        * destruct (IH _ _ _ _ H) as [new [E1 [E2 E3]]]. exists (j :: new).
          rewrite <- app_assoc in E1. cbn [app] in E1. split; [exact E1|]. split.
          -- intros i [<-|Hi]; [exact Hj|exact (Lift new E2 i Hi)].
          -- intros Hnd. cbn in Hnd. inversion Hnd as [|? ? Hnj Hnd']; subst. constructor; [|exact (E3 Hnd')].
             intros Hin. destruct (E2 j Hin) as [_ [B _]]. exact (Hnj B).
  Qed.

  Theorem attr_once : forall users cached mandatory,
    N.of_nat (length cached) <= att_cap ->
    NoDup (r_tried (ts users cached mandatory)).
  Proof.
    intros users cached mandatory Hcap. unfold try_state.
    pose proof (index_nodup users 1) as Hix.
    assert (Hprhv : forall w new att ius', ius' = index_from U 1 users ->
              (forall i, In i new -> ~ In i att /\ In i (map fst ius') /\ exists u, In (i, u) ius' /\ hint u = w) ->
              forall i, In i new -> hv users i w).
    { intros w new att ius' -> Hn i Hi. destruct (Hn i Hi) as [_ [_ [u [Hu Hh]]]].
      exists u. split; [apply index_ubi; exact Hu|exact Hh]. }
    destruct (pc true users cached [] []) as [[hit1 a1] t1] eqn:P1.
    destruct (pc_trace cached Hcap _ _ _ _ _ _ _ _ (incl_refl _) (NoDup_nil _) (incl_nil_l _) P1)
      as [n1 [E1 [A1 [ND1 [IN1 HV1]]]]].
    cbn [app] in E1, A1. subst t1 a1.
    destruct hit1 as [[i1 u1]|]; [cbn; exact ND1|].
    destruct (pr true (index_from U 1 users) n1 n1) as [hit2 t2] eqn:P2.
    destruct (pr_trace _ _ _ _ _ _ P2) as [n2 [E2 [Q2 ND2]]]. subst t2.
    assert (ND12 : NoDup (n1 ++ n2)).
    { apply nodup_app_intro; [exact ND1|exact (ND2 Hix)|]. intros x Hx1 Hx2. destruct (Q2 x Hx2) as [Hn _]. exact (Hn Hx1). }
    pose proof (Hprhv true n2 n1 _ eq_refl Q2) as HV2.
    destruct hit2 as [[i2 u2]|]; [cbn; exact ND12|].
    destruct mandatory; [cbn; exact ND12|].
    destruct (pc false users cached n1 (n1 ++ n2)) as [[hit3 a3] t3] eqn:P3.
    destruct (pc_trace cached Hcap _ _ _ _ _ _ _ _ (incl_refl _) ND1 IN1 P3)
      as [n3 [E3 [A3 [ND3 [IN3 HV3]]]]]. subst t3 a3.
    assert (ND123 : NoDup ((n1 ++ n2) ++ n3)).
    { apply nodup_app_intro; [exact ND12| |].
      - clear -ND3. induction n1 as [|x l IH]; [exact ND3|]. cbn in ND3. inversion ND3; auto.
      - intros x Hx12 Hx3. apply in_app_iff in Hx12. destruct Hx12 as [Hx|Hx].
        + exact (nodup_app_disj _ _ _ ND3 Hx Hx3).
        + exact (hv_excl _ _ (HV2 x Hx) (HV3 x Hx3)). }
    destruct hit3 as [[i3 u3]|]; [cbn; exact ND123|].
    destruct (pr false (index_from U 1 users) (n1 ++ n3) ((n1 ++ n2) ++ n3)) as [hit4 t4] eqn:P4.
    destruct (pr_trace _ _ _ _ _ _ P4) as [n4 [E4 [Q4 ND4]]]. subst t4.
    pose proof (Hprhv false n4 (n1 ++ n3) _ eq_refl Q4) as HV4.
    assert (ND1234 : NoDup (((n1 ++ n2) ++ n3) ++ n4)).
    { apply nodup_app_intro; [exact ND123|exact (ND4 Hix)|].
      intros x Hx Hx4. destruct (Q4 x Hx4) as [Hn _].
      apply in_app_iff in Hx. destruct Hx as [Hx|Hx]; [|apply Hn; apply in_or_app; right; exact Hx].
      apply in_app_iff in Hx. destruct Hx as [Hx|Hx]; [apply Hn; apply in_or_app; left; exact Hx|].
      exact (hv_excl _ _ (HV2 x Hx) (HV4 x Hx4)). }
    destruct hit4 as [[i4 u4]|]; cbn; exact ND1234.
  Qed.

  (* every trial is a trial of a registered user of this generation *)
  Theorem attr_tried_registered : forall users cached mandatory i,
    In i (r_tried (ts users cached mandatory)) -> exists u, ubi users i = Some u.
  Proof.
    intros users cached mandatory. unfold try_state.
    assert (PC : forall want cached att tried hit a t, pc want users cached att tried = (hit, a, t) ->
              (forall i, In i tried -> exists u, ubi users i = Some u) ->
              forall i, In i t -> exists u, ubi users i = Some u).
    { intros want. induction cached0 as [|c rest IH]; intros att tried hit a t H Hinv; cbn [phase_cached] in H.
      - inversion H; subst. exact Hinv.
      - destruct (ubi users c) as [uc|] eqn:Huc; [|exact (IH _ _ _ _ _ H Hinv)].
        destruct (was_attempted att c || negb (Bool.eqb (hint uc) want)); [exact (IH _ _ _ _ _ H Hinv)|].
        assert (Hinv' : forall i, In i (tried ++ [c]) -> exists u, ubi users i = Some u).
        { intros i Hi. apply in_app_iff in Hi. destruct Hi as [Hi|[<-|[]]]; [exact (Hinv i Hi)|eauto]. }
        destruct (auth uc); [inversion H; subst; exact Hinv'|exact (IH _ _ _ _ _ H Hinv')]. }
    assert (PR : forall want att tried hit t, pr want (index_from U 1 users) att tried = (hit, t) ->
              (forall i, In i tried -> exists u, ubi users i = Some u) ->
              forall i, In i t -> exists u, ubi users i = Some u).
    { intros want att tried hit t H Hinv i Hi. destruct (pr_trace _ _ _ _ _ _ H) as [new [E [Q _]]]. subst t.
      apply in_app_iff in Hi. destruct Hi as [Hi|Hi]; [exact (Hinv i Hi)|].
      destruct (Q i Hi) as [_ [_ [u [Hu _]]]]. exists u. apply index_ubi. exact Hu. }
    assert (I0 : forall i, In i (@nil N) -> exists u, ubi users i = Some u) by (intros i []).
    destruct (pc true users cached [] []) as [[hit1 a1] t1] eqn:P1.
    pose proof (PC _ _ _ _ _ _ _ P1 I0) as I1.
    destruct hit1 as [[i1 u1]|]; [cbn; exact I1|].
    destruct (pr true (index_from U 1 users) a1 t1) as [hit2 t2] eqn:P2.
    pose proof (PR _ _ _ _ _ P2 I1) as I2.
    destruct hit2 as [[i2 u2]|]; [cbn; exact I2|].
    destruct mandatory; [cbn; exact I2|].
    destruct (pc false users cached a1 t2) as [[hit3 a3] t3] eqn:P3.
    pose proof (PC _ _ _ _ _ _ _ P3 I2) as I3.
    destruct hit3 as [[i3 u3]|]; [cbn; exact I3|].
    destruct (pr false (index_from U 1 users) a3 t3) as [hit4 t4] eqn:P4.
    pose proof (PR _ _ _ _ _ P4 I3) as I4.
    destruct hit4 as [[i4 u4]|]; cbn; exact I4.
  Qed.

  (* ---------- cache independence ---------- *)

  Definition distinct_credentials (users : list U) : Prop :=
    forall i j u v, ubi users i = Some u -> ubi users j = Some v ->
                    auth u = true -> auth v = true -> i = j.

  Theorem cache_independent : forall users mandatory,
    distinct_credentials users ->
    forall cached cached',
      outcome U (ts users cached mandatory) = outcome U (ts users cached' mandatory).
  Proof.
    intros users mandatory Hd cached cached'. unfold outcome.
    destruct (r_hit (ts users cached mandatory)) as [[[i u] o]|] eqn:H1;
      destruct (r_hit (ts users cached' mandatory)) as [[[j v] o']|] eqn:H2; try reflexivity.
    - destruct (attr_sound _ _ _ _ _ _ H1) as [A1 [_ [A2 _]]].
      destruct (attr_sound _ _ _ _ _ _ H2) as [B1 [_ [B2 _]]].
      assert (i = j) by exact (Hd _ _ _ _ A1 B1 A2 B2). subst j. congruence.
    - exfalso. destruct (attr_sound _ _ _ _ _ _ H1) as [A1 [_ [A2 [A3 A4]]]].
      assert (auth u = false); [|congruence].
      apply (attr_complete _ _ _ H2 _ _ A1). intros Hm. rewrite A3. auto.
    - exfalso. destruct (attr_sound _ _ _ _ _ _ H2) as [A1 [_ [A2 [A3 A4]]]].
      assert (auth v = false); [|congruence].
      apply (attr_complete _ _ _ H1 _ _ A1). intros Hm. rewrite A3. auto.
  Qed.

  (* with shared credentials the hint still decides: a unique hint-matching authenticating
     user is the result for every cache content *)
  Theorem cache_independent_hinted : forall users mandatory i u,
    ubi users i = Some u -> hint u = true -> auth u = true ->
    (forall j v, ubi users j = Some v -> hint v = true -> auth v = true -> j = i) ->
    forall cached, outcome U (ts users cached mandatory) = Some (i, u).
  Proof.
    intros users mandatory i u Hu Hh Ha Huniq cached.
    destruct (attr_hint_pref users cached mandatory) as [j [v [o [Hr [Hv _]]]]]; [eauto|].
    destruct (attr_sound _ _ _ _ _ _ Hr) as [A1 [_ [A2 _]]].
    assert (j = i) by exact (Huniq _ _ A1 Hv A2). subst j.
    unfold outcome. rewrite Hr. congruence.
  Qed.

  (* ---------- the discovery loop ---------- *)

  Notation dl := (discover_loop U hint auth).

  Definition retried (it : iter U) : Prop :=
    exists g', it_state it = Some g' /\ g_users g' <> [] /\ same_gen U (it_check it) g' = false.

  Lemma discover_loop_ok : forall rc its g i u o t,
    dl rc its = DOk g i u o t ->
    exists pre it post,
      its = pre ++ it :: post /\
      it_state it = Some g /\ g_users g <> [] /\
      (rc = true -> it_check it = Some (g_id g) /\ forall it', In it' pre -> retried it') /\
      (rc = false -> pre = []) /\
      r_hit (ts (g_users g) (it_cached it) (it_mand it)) = Some (i, u, o) /\
      t = r_tried (ts (g_users g) (it_cached it) (it_mand it)).
  Proof.
    intros rc. induction its as [|it rest IH]; intros g i u o t H; cbn [discover_loop] in H; [discriminate|].
    destruct (it_state it) as [g0|] eqn:Hs; [|discriminate].
    destruct (g_users g0) as [|u0 us0] eqn:Hus; [discriminate|].
    destruct (rc && negb (same_gen U (it_check it) g0)) eqn:Hc.
    - apply andb_true_iff in Hc. destruct Hc as [Hrc Hng]. apply negb_true_iff in Hng.
      destruct (IH _ _ _ _ _ H) as [pre [it1 [post [E [S1 [S2 [S3 [S4 [S5 S6]]]]]]]]].
      exists (it :: pre), it1, post. subst rest. split; [reflexivity|]. split; [exact S1|]. split; [exact S2|].
      split; [|split; [intros Hf; congruence|auto]].
      intros Hr. destruct (S3 Hr) as [C1 C2]. split; [exact C1|].
      intros it' [<-|Hin]; [|exact (C2 it' Hin)].
      exists g0. split; [exact Hs|]. split; [congruence|exact Hng].
    - destruct (r_hit (ts (u0 :: us0) (it_cached it) (it_mand it))) as [[[i1 u1] o1]|] eqn:Hr; [|discriminate].
      inversion H; subst. exists [], it, rest. rewrite Hus. repeat split; auto; try congruence.
      + apply andb_false_iff in Hc. destruct Hc as [Hc|Hc]; [congruence|].
        apply negb_false_iff in Hc. unfold same_gen in Hc.
        destruct (it_check it) as [c|]; [|discriminate]. apply N.eqb_eq in Hc. congruence.
      + intros it' [].
  Qed.

  (* With requireCurrent the generation used is the one the final load returned; the attributed
     user is registered in that generation and its credential authenticates the segment.
     Every generation the loop tried before was found replaced and its result discarded. *)
  Theorem discover_current : forall its g i u o t,
    dl true its = DOk g i u o t ->
    exists pre it post,
      its = pre ++ it :: post /\ it_state it = Some g /\ it_check it = Some (g_id g) /\
      (forall it', In it' pre -> retried it') /\
      ubi (g_users g) i = Some u /\ In u (g_users g) /\ auth u = true /\
      (it_mand it = true -> hint u = true).
  Proof.
    intros its g i u o t H.
    destruct (discover_loop_ok _ _ _ _ _ _ _ H) as [pre [it [post [E [S1 [S2 [S3 [_ [S5 _]]]]]]]]].
    destruct (S3 eq_refl) as [C1 C2].
    destruct (attr_sound _ _ _ _ _ _ S5) as [A1 [A2 [A3 [A4 A5]]]].
    exists pre, it, post. repeat split; auto. intros Hm. rewrite A4. auto.
  Qed.

  (* Either mode: the generation used is one that a load of this very call returned, so a
     discovery all of whose loads happen after SetUsers number k returned (ids count
     publications) uses generation k or a later one; the user belongs to it. *)
  Theorem discover_not_older : forall rc its g i u o t k,
    dl rc its = DOk g i u o t ->
    (forall it g', In it its -> it_state it = Some g' -> k <= g_id g') ->
    k <= g_id g /\ ubi (g_users g) i = Some u /\ In u (g_users g) /\ auth u = true.
  Proof.
    intros rc its g i u o t k H Hk.
    destruct (discover_loop_ok _ _ _ _ _ _ _ H) as [pre [it [post [E [S1 [_ [_ [_ [S5 _]]]]]]]]].
    destruct (attr_sound _ _ _ _ _ _ S5) as [A1 [A2 [A3 _]]].
    split; [|auto]. apply (Hk it g); [|exact S1]. subst its. apply in_or_app. right. left. reflexivity.
  Qed.

  (* Without requireCurrent (the UDP path) the loop never retries: the first load decides. *)
  Theorem discover_snapshot : forall it rest,
    dl false (it :: rest) = dl false [it].
  Proof.
    intros it rest. cbn [discover_loop]. destruct (it_state it) as [g|]; [|reflexivity].
    destruct (g_users g); reflexivity.
  Qed.

  Theorem discover_reject_complete : forall rc its,
    dl rc its = DNoAuth ->
    exists it g, In it its /\ it_state it = Some g /\
      forall i u, ubi (g_users g) i = Some u -> (it_mand it = true -> hint u = true) -> auth u = false.
  Proof.
    intros rc. induction its as [|it rest IH]; intros H; cbn [discover_loop] in H; [discriminate|].
    destruct (it_state it) as [g0|] eqn:Hs; [|discriminate].
    destruct (g_users g0) as [|u0 us0] eqn:Hus; [discriminate|].
    destruct (rc && negb (same_gen U (it_check it) g0)).
    - destruct (IH H) as [it1 [g1 [H1 H2]]]. exists it1, g1. split; [right; exact H1|exact H2].
    - destruct (r_hit (ts (u0 :: us0) (it_cached it) (it_mand it))) as [[[i1 u1] o1]|] eqn:Hr; [discriminate|].
      exists it, g0. split; [left; reflexivity|]. split; [exact Hs|]. rewrite Hus.
      exact (attr_complete _ _ _ Hr).
  Qed.
End Proofs.

(* ---------- non-vacuity: concrete instances (users are numbers; hint/auth by table) ---------- *)

Definition ex_hint (u : N) : bool := (u =? 20) || (u =? 30).       (* users 20 and 30 collide on the hint *)
Definition ex_auth (u : N) : bool := (u =? 30) || (u =? 40).       (* 30 and 40 share a credential *)
Definition ex_users : list N := [10; 20; 30; 40].

(* cached ids: stale (9), zero, repeated, a real one *)
Example ex_try1 :
  try_state N ex_hint ex_auth ex_users [9; 0; 4; 4; 2] false
  = {| r_hit := Some (3, 30, ORegistryHint); r_tried := [2; 3] |}.
Proof. vm_compute. reflexivity. Qed.

Example ex_try2 :   (* no hint match authenticates for this auth: fallback prefers the cached user *)
  try_state N (fun _ => false) ex_auth ex_users [4] false
  = {| r_hit := Some (4, 40, OCachedFallback); r_tried := [4] |}.
Proof. vm_compute. reflexivity. Qed.

Example ex_try3 :   (* the same segment from a source with an empty cache is attributed to user 3 *)
  try_state N (fun _ => false) ex_auth ex_users [] false
  = {| r_hit := Some (3, 30, ORegistryFallback); r_tried := [1; 2; 3] |}.
Proof. vm_compute. reflexivity. Qed.

(* the hypothesis of cache_independent is needed: with a shared credential and no usable hint
   the attributed user does depend on the cache (this is outside the property, which is
   conditional on distinct credentials) *)
Lemma shared_credential_cache_dependent :
  exists users cached cached',
    outcome N (try_state N (fun _ => false) ex_auth users cached false)
    <> outcome N (try_state N (fun _ => false) ex_auth users cached' false).
Proof. exists ex_users, [4], []. vm_compute. discriminate. Qed.

Example ex_distinct : distinct_credentials N (fun u => u =? 30) ex_users.
Proof.
  intros i j u v Hi Hj Hu Hv. apply N.eqb_eq in Hu, Hv. subst.
  pose proof (ubi_range N ex_hint ex_auth _ _ _ Hi) as Ri. pose proof (ubi_range N ex_hint ex_auth _ _ _ Hj) as Rj. cbn in Ri, Rj.
  assert (Ci : i = 1 \/ i = 2 \/ i = 3 \/ i = 4) by lia.
  assert (Cj : j = 1 \/ j = 2 \/ j = 3 \/ j = 4) by lia.
  destruct Ci as [-> | [-> | [-> | ->]]]; vm_compute in Hi; try discriminate;
  destruct Cj as [-> | [-> | [-> | ->]]]; vm_compute in Hj; try discriminate; reflexivity.
Qed.

Example ex_once_hyp : N.of_nat (length [9; 0; 4; 4; 2]) <= att_cap.
Proof. vm_compute. discriminate. Qed.

(* attr_once needs the bound: 17 distinct hint-matching cached ids overflow the attempted array
   and user 17 is tried twice (the code never passes more than sourceUserCacheUsers ids) *)
Example ex_once_overflow :
  let users := map N.of_nat (seq 1 17) in
  r_tried (try_state N (fun _ => true) (fun _ => false) users users true)
  = users ++ [17].
Proof. vm_compute. reflexivity. Qed.

(* a reload between the attempt and the check: generation 1 is discarded, generation 2 decides *)
Definition ex_g1 : gen N := {| g_id := 1; g_users := [10; 20] |}.
Definition ex_g2 : gen N := {| g_id := 2; g_users := [20; 50] |}.
Definition ex_its : list (iter N) :=
  [ {| it_state := Some ex_g1; it_mand := false; it_cached := [1]; it_check := Some 2 |};
    {| it_state := Some ex_g2; it_mand := false; it_cached := []; it_check := Some 2 |} ].

Example ex_discover_current :   (* credential of user 10 (removed by the reload) no longer authenticates *)
  discover N (fun _ => false) (fun u => u =? 10) false true ex_its = DNoAuth.
Proof. vm_compute. reflexivity. Qed.

Example ex_discover_current_ok :
  discover N (fun _ => false) (fun u => u =? 50) false true ex_its = DOk ex_g2 2 50 ORegistryFallback [1; 2].
Proof. vm_compute. reflexivity. Qed.

(* the same observations without requireCurrent (UDP path): the snapshot generation is used *)
Example ex_discover_snapshot :
  discover N (fun _ => false) (fun u => u =? 10) false false ex_its = DOk ex_g1 1 10 OCachedFallback [1].
Proof. vm_compute. reflexivity. Qed.

(* ---------- UDP: the existing-session shortcut ---------- *)

Lemma shortcut_same_peer : forall opens ss ip port s,
  shortcut same_peer opens ss ip port = Some s ->
  In s ss /\ us_ip s = ip /\ us_port s = port /\ opens s = true.
Proof.
  intros opens ss ip port s H. unfold shortcut in H. apply find_some in H. destruct H as [Hin Hb].
  apply andb_true_iff in Hb. destruct Hb as [Hp Ho]. unfold same_peer in Hp.
  apply andb_true_iff in Hp. destruct Hp as [H1 H2]. apply N.eqb_eq in H1, H2. auto.
Qed.

(* no session from exactly this socket address: discovery decides, whatever the ciphers of the
   other sessions open (sessions of users with the same credential, from the same IP, ...) *)
Lemma shortcut_other_sockets_irrelevant : forall opens ss ip port disc,
  (forall s, In s ss -> us_ip s = ip -> us_port s <> port) ->
  udp_attribute same_peer opens ss ip port disc = disc.
Proof.
  intros opens ss ip port disc H. unfold udp_attribute.
  destruct (shortcut same_peer opens ss ip port) as [s|] eqn:Hs; [|reflexivity].
  destruct (shortcut_same_peer _ _ _ _ _ Hs) as [Hin [H1 [H2 _]]]. exfalso. exact (H s Hin H1 H2).
Qed.

(* [D ip port] = what discovery answers for first segments sent from that socket (a UDP socket
   belongs to one client, i.e. one user name and credential; by C07_cache_independent(_hinted)
   the answer does not depend on the cache).  Invariant: every session was attributed D of its
   own peer address. *)
Definition sessions_ok (D : N -> N -> option N) (ss : list usession) : Prop :=
  forall s, In s ss -> D (us_ip s) (us_port s) = Some (us_user s).

Lemma udp_attribute_sound : forall D opens ss ip port,
  sessions_ok D ss ->
  udp_attribute same_peer opens ss ip port (D ip port) = D ip port.
Proof.
  intros D opens ss ip port I. unfold udp_attribute.
  destruct (shortcut same_peer opens ss ip port) as [s|] eqn:Hs; [|reflexivity].
  destruct (shortcut_same_peer _ _ _ _ _ Hs) as [Hin [H1 [H2 _]]]. rewrite <- (I s Hin), H1, H2. reflexivity.
Qed.

(* For every sequence of session openings, every family of "opens" predicates and every order
   of establishment: each new session is attributed exactly what discovery answers for its
   first segment — the shortcut never changes an attribution — and the invariant is kept. *)
Theorem existing_session_shortcut_sound : forall D evs ss,
  sessions_ok D ss ->
  (forall e, In e evs -> ev_disc e = D (ev_ip e) (ev_port e)) ->
  snd (udp_run same_peer ss evs) = map ev_disc evs /\ sessions_ok D (fst (udp_run same_peer ss evs)).
Proof.
  intros D. induction evs as [|e rest IH]; intros ss I He; cbn [udp_run map]; [split; [reflexivity|exact I]|].
  assert (Ha : udp_attribute same_peer (ev_opens e) ss (ev_ip e) (ev_port e) (ev_disc e) = ev_disc e).
  { rewrite (He e (or_introl eq_refl)). apply udp_attribute_sound. exact I. }
  rewrite Ha.
  set (ss' := match ev_disc e with
              | Some u => ss ++ [{| us_ip := ev_ip e; us_port := ev_port e; us_user := u |}]
              | None => ss end).
  assert (I' : sessions_ok D ss').
  { subst ss'. destruct (ev_disc e) as [u|] eqn:Hd; [|exact I].
    intros s Hs. apply in_app_iff in Hs. destruct Hs as [Hs|[<-|[]]]; [exact (I s Hs)|].
    cbn. rewrite <- (He e (or_introl eq_refl)). exact Hd. }
  destruct (IH ss' I' (fun e' H' => He e' (or_intror H'))) as [E1 E2].
  destruct (udp_run same_peer ss' rest) as [fin outs]. cbn [fst snd] in *. split; [f_equal; exact E1|exact E2].
Qed.

(* shared credentials: alice (1) and bob (2) have the same password, every session cipher opens
   every datagram.  alice from 10.0.0.2:1000, then bob from 10.0.0.2:2000 (same IP, other
   port), a second session of alice's client over its socket, bob from another IP. *)
Definition ex_all_open (_ : usession) : bool := true.
Definition ex_udp_events : list uevent :=
  [ {| ev_ip := 10; ev_port := 1000; ev_disc := Some 1; ev_opens := ex_all_open |};
    {| ev_ip := 10; ev_port := 2000; ev_disc := Some 2; ev_opens := ex_all_open |};
    {| ev_ip := 10; ev_port := 1000; ev_disc := Some 1; ev_opens := ex_all_open |};
    {| ev_ip := 11; ev_port := 3000; ev_disc := Some 2; ev_opens := ex_all_open |} ].

Example ex_udp_shared_credential :
  snd (udp_run same_peer [] ex_udp_events) = [Some 1; Some 2; Some 1; Some 2].
Proof. vm_compute. reflexivity. Qed.

(* the port is essential: with an address test that ignores it, bob's session from alice's host
   is attributed to alice *)
Definition ip_only_peer (ip port : N) (s : usession) : bool := us_ip s =? ip.

Lemma shortcut_port_needed :
  exists evs D, sessions_ok D [] /\ (forall e, In e evs -> ev_disc e = D (ev_ip e) (ev_port e)) /\
    snd (udp_run ip_only_peer [] evs) <> map ev_disc evs.
Proof.
  exists ex_udp_events, (fun ip port => if port =? 1000 then Some 1 else Some 2).
  split; [intros s []|]. split.
  - intros e He. cbn in He. destruct He as [<-|[<-|[<-|[<-|[]]]]]; reflexivity.
  - vm_compute. discriminate.
Qed.
