(* C14 — ties between model/Sizes.v and the neighbouring models:
   TcpStream.v (C01: fragmenting plan of Session.Write on a stream), Wire.v (C09: datagram layout),
   UdpProto.v (C02/C13: what a UDP endpoint may emit). *)
From Coq Require Import ZArith NArith Lia List Bool Arith.
From M Require Import gen.Consts model.Sizes proofs.SizesProofs.
From M Require model.TcpStream model.Wire proofs.WireProofs model.UdpProto.
Import ListNotations.
Open Scope Z_scope.

(* ====================================================================== C09: datagram layout *)
Lemma dgram_len_agrees_with_wire : forall (seal : list N -> list N -> list N -> list N),
  (forall k n p, length (seal k n p) = (length p + N.to_nat Wire.TagOverhead)%nat) ->
  forall key nonce meta pad1 payload pad2 (s : seg) p1 p2,
  N.of_nat (length nonce) = Wire.NonceSize -> N.of_nat (length meta) = Wire.MetadataLength ->
  Z.of_nat (length pad1) = (if is_session (s_kind s) then 0 else p1) ->
  Z.of_nat (length pad2) = p2 ->
  Z.of_nat (length payload) =
    (if s_body s >? 0 then match s_kind s with KDataLE => s_plen s | _ => s_body s end else 0) ->
  (s_kind s = KDataLE -> 0 < s_body s -> 0 < s_plen s) ->
  Z.of_nat (length (Wire.udp_datagram seal key nonce meta pad1 payload pad2 (fun x => x))) = dgram_len s p1 p2.
Proof.
  intros seal Hseal key nonce meta pad1 payload pad2 s p1 p2 Hn Hm H1 H2 Hp Hle.
  rewrite (WireProofs.udp_datagram_length seal Hseal key nonce meta pad1 payload pad2 Hn Hm).
  change (N.to_nat (Z.to_N C09_packetNonHeaderPosition)) with 72%nat.
  change (N.to_nat Wire.TagOverhead) with 16%nat.
  unfold dgram_len, header_len, wire_payload.
  change (C14_MetadataLength + C14_NonceSize + C14_TagOverhead) with 72. change C14_TagOverhead with 16.
  destruct (Z.gtb_spec (s_body s) 0) as [Hb|Hb].
  - destruct payload as [|x l].
    + cbn [length] in Hp. destruct (s_kind s); try lia; specialize (Hle eq_refl Hb); lia.
    + remember (x :: l) as pl. destruct (s_kind s); destruct (is_session _); lia.
  - destruct payload as [|x l]; [|cbn [length] in Hp; lia].
    destruct (is_session (s_kind s)); lia.
Qed.

(* ====================================================================== C02: every kind a UDP endpoint may emit *)
(* UdpProto: side false = client endpoint, true = server *)
Lemma write_kinds : forall is_client first mtu t mode fs n s,
  frag_facts mtu t mode fs -> 0 <= n ->
  In s (fst (fst (write is_client first mtu t mode n))) ->
  s_kind s = KData \/ s_kind s = KDataLE \/ (s_kind s = KOpenReq /\ is_client = true).
Proof.
  intros is_client first mtu t mode fs n s F Hn Hin.
  destruct is_client.
  - destruct (write_spec true first mtu t mode fs n F Hn) as (segs & Hw & _ & Hall).
    rewrite Hw in Hin. cbn [fst] in Hin. rewrite Forall_forall in Hall. specialize (Hall s Hin).
    destruct Hall as [[_ [(_ & Hk & _)|(_ & Hk & _)]]|(Hk & _)]; auto.
  - unfold write in Hin. cbn [andb] in Hin.
    destruct (chunk_loop_spec (chunk_fuel n) mtu t mode fs n F Hn (chunk_fuel_enough n Hn)) as (segs & Hc & _ & Hall).
    rewrite Hc in Hin. cbn [fst] in Hin. rewrite Forall_forall in Hall. specialize (Hall s Hin).
    destruct Hall as [_ [(_ & Hk & _)|(_ & Hk & _)]]; auto.
Qed.

Lemma every_segment_kind_within_mtu : forall mtu mode (X first : bool) (b : list N) cfg_mid cfg_end,
  mtu_ok mtu -> mode_ok mode ->
  (forall s p, In (s, p) (fst (fst (plan_write (negb X) first mtu C14_TransportPacket mode b))) ->
     let c := UdpProto.mkC (Z.to_N (proto_of (negb X) (s_kind s))) (Z.to_N (s_frag s)) p in
     UdpProto.is_seq X (UdpProto.c_ty c) = true /\ Z.of_nat (length (UdpProto.c_pay c)) = s_body s /\
     forall p1 p2, draws_ok mtu C14_TransportPacket cfg_mid cfg_end s p1 p2 -> dgram_len s p1 p2 <= mtu) /\
  (forall ty, UdpProto.is_seq X ty = true \/ UdpProto.is_ack X ty = true ->
     exists k, ty = Z.to_N (proto_of (negb X) k) /\
       (k <> KData -> k <> KDataLE ->
        forall p1 p2, draws_ok mtu C14_TransportPacket cfg_mid cfg_end (control_seg k) p1 p2 ->
                      dgram_len (control_seg k) p1 p2 <= mtu)).
Proof.
  intros mtu mode X first b c1 c2 Hmtu Hmode. split.
  - intros s p Hin. cbv zeta. cbn [UdpProto.c_ty UdpProto.c_pay].
    destruct (plan_concat_lemma (negb X) first mtu C14_TransportPacket mode b Hmode (or_intror eq_refl) (fun _ => Hmtu))
      as (segs & Hpl & _ & Hmap & Hlens).
    rewrite Hpl in Hin. cbn [fst] in Hin.
    assert (Hs : In s (fst (fst (write (negb X) first mtu C14_TransportPacket mode (Z.of_nat (length b)))))).
    { rewrite <- Hmap. apply (in_map fst) in Hin. exact Hin. }
    destruct (frag_facts_in_range mtu C14_TransportPacket mode Hmode (or_intror eq_refl) (fun _ => Hmtu)) as [fs F].
    pose proof (write_kinds _ _ _ _ _ _ _ s F (Nat2Z.is_nonneg _) Hs) as Hk.
    split; [|split].
    + destruct Hk as [Hk|[Hk|[Hk Hc]]]; rewrite Hk; destruct X; try discriminate Hc; reflexivity.
    + unfold lens_ok in Hlens. rewrite Forall_forall in Hlens. exact (Hlens (s, p) Hin).
    + intros p1 p2 Hd. apply (c14_mtu mtu mode (negb X) first (Z.of_nat (length b)) c1 c2 s p1 p2); auto.
      * lia.
      * left. exact Hs.
  - intros ty Hty.
    assert (Hctl : forall k, k = KOpenReq \/ k = KOpenResp \/ k = KCloseReq \/ k = KCloseResp \/ k = KAck ->
              forall p1 p2, draws_ok mtu C14_TransportPacket c1 c2 (control_seg k) p1 p2 -> dgram_len (control_seg k) p1 p2 <= mtu).
    { intros k Hk p1 p2 Hd. apply (c14_mtu mtu mode true true 0 c1 c2 _ p1 p2); auto; try lia.
      right. exists k. split; [exact Hk|reflexivity]. }
    destruct Hty as [Hty|Hty].
    + unfold UdpProto.is_seq, UdpProto.seq_types in Hty. destruct X; cbn [existsb] in Hty;
      repeat (apply orb_prop in Hty; destruct Hty as [Hty|Hty]); try discriminate Hty;
      apply N.eqb_eq in Hty; subst ty.
      * exists KOpenResp. split; [reflexivity|]. intros _ _. apply Hctl. auto.
      * exists KCloseReq. split; [reflexivity|]. intros _ _. apply Hctl. auto.
      * exists KCloseResp. split; [reflexivity|]. intros _ _. apply Hctl. auto 6.
      * exists KData. split; [reflexivity|]. intros H; congruence.
      * exists KDataLE. split; [reflexivity|]. intros _ H; congruence.
      * exists KOpenReq. split; [reflexivity|]. intros _ _. apply Hctl. auto.
      * exists KCloseReq. split; [reflexivity|]. intros _ _. apply Hctl. auto.
      * exists KCloseResp. split; [reflexivity|]. intros _ _. apply Hctl. auto 6.
      * exists KData. split; [reflexivity|]. intros H; congruence.
      * exists KDataLE. split; [reflexivity|]. intros _ H; congruence.
    + unfold UdpProto.is_ack in Hty. apply N.eqb_eq in Hty. subst ty.
      exists KAck. split; [destruct X; reflexivity|]. intros _ _. apply Hctl. auto 6.
Qed.

(* ====================================================================== C01: the stream plan *)
(* what both plans say about one queued segment: protocol number, fragment number, payload bytes *)
Definition proj14 (is_client : bool) (sp : seg * list N) : N * N * list N :=
  (Z.to_N (proto_of is_client (s_kind (fst sp))), Z.to_N (s_frag (fst sp)), snd sp).
Definition proj01 (p : TcpStream.pseg) : N * N * list N :=
  (TcpStream.p_proto p, TcpStream.p_frag p, TcpStream.p_payload p).

Lemma firstn_zmin : forall (A : Type) (b : list A) fs, 0 <= fs ->
  firstn (Z.to_nat (Z.min fs (Z.of_nat (length b)))) b = firstn (Z.to_nat fs) b.
Proof.
  intros A b fs H. destruct (Z.le_ge_cases fs (Z.of_nat (length b))).
  - rewrite Z.min_l by lia. reflexivity.
  - rewrite Z.min_r by lia. rewrite Nat2Z.id, firstn_all. symmetry. apply firstn_all2. lia.
Qed.

Lemma skipn_zmin : forall (A : Type) (b : list A) fs, 0 <= fs ->
  skipn (Z.to_nat (Z.min fs (Z.of_nat (length b)))) b = skipn (Z.to_nat fs) b.
Proof.
  intros A b fs H. destruct (Z.le_ge_cases fs (Z.of_nat (length b))).
  - rewrite Z.min_l by lia. reflexivity.
  - rewrite Z.min_r by lia. rewrite Nat2Z.id, skipn_all. symmetry. apply skipn_all2. lia.
Qed.

Lemma frag_loop_attach : forall client k le mode fs (b : list N) segs seq,
  0 <= fs -> Z.of_nat k <= 256 ->
  frag_loop k le mode fs (Z.of_nat (length b)) = (segs, true) ->
  map (proj14 client) (attach segs b) =
  map proj01 (TcpStream.plan_frags (Z.to_N (proto_of client (if le then KDataLE else KData))) (Z.to_nat fs) k seq b).
Proof.
  induction k as [|j IH]; intros le mode fs b segs seq Hfs Hk H.
  - cbn [frag_loop] in H. inversion H; subst. reflexivity.
  - cbn [frag_loop] in H. set (part := Z.min fs (Z.of_nat (length b))) in *.
    destruct (if le then le_encoded_len part mode else Some (u16 part)) as [plen|]; [|discriminate H].
    assert (Hrem : Z.of_nat (length b) - part = Z.of_nat (length (skipn (Z.to_nat fs) b))).
    { rewrite skipn_length. unfold part. lia. }
    rewrite Hrem in H.
    destruct (frag_loop j le mode fs (Z.of_nat (length (skipn (Z.to_nat fs) b)))) as [rest ok] eqn:E.
    inversion H; subst segs ok. clear H.
    cbn [attach map TcpStream.plan_frags s_body].
    assert (Hf1 : firstn (Z.to_nat part) b = firstn (Z.to_nat fs) b) by (apply firstn_zmin; exact Hfs).
    assert (Hs1 : skipn (Z.to_nat part) b = skipn (Z.to_nat fs) b) by (apply skipn_zmin; exact Hfs).
    rewrite Hf1, Hs1.
    f_equal.
    + unfold proj14, proj01. cbn [fst snd s_kind s_frag TcpStream.p_proto TcpStream.p_frag TcpStream.p_payload].
      f_equal. f_equal. unfold u8. change (C14_MaxUint8 + 1) with 256. rewrite Z.mod_small by lia. lia.
    + apply (IH le mode fs _ rest (seq + 1)%N Hfs); [lia|exact E].
Qed.

Lemma nfrag_conv : forall fsn len, (0 < fsn)%nat -> (0 < len)%nat ->
  Z.to_nat (n_fragments (Z.of_nat fsn) (Z.of_nat len)) = TcpStream.nfrag fsn len.
Proof.
  intros fsn len Hf Hl. unfold n_fragments, TcpStream.nfrag.
  destruct (Nat.ltb_spec fsn len); destruct (Z.gtb_spec (Z.of_nat len) (Z.of_nat fsn)); try lia.
  rewrite Z.quot_div_nonneg by lia.
  replace (Z.of_nat len - 1) with (Z.of_nat (len - 1)) by lia.
  rewrite <- Nat2Z.inj_div. set (q := ((len - 1) / fsn)%nat). lia.
Qed.

(* the hypotheses under which one stream configuration of Sizes corresponds to one of TcpStream *)
Record stream_cfg (mtu mode fs : Z) (modeN : N) (client : bool) : Prop := {
  sc_facts : frag_facts mtu C14_TransportStream mode fs;
  sc_fs    : fs = Z.of_nat (TcpStream.frag_size modeN);
  sc_proto : TcpStream.data_proto client (negb (modeN =? 0)%N) =
             Z.to_N (proto_of client (if negb (mode =? C14_ModeOff) then KDataLE else KData))
}.

Lemma write_chunk_attach : forall mtu mode fs modeN client seq (c : list N),
  stream_cfg mtu mode fs modeN client ->
  (0 < length c <= TcpStream.maxPDU)%nat ->
  exists segs, write_chunk mtu C14_TransportStream mode (Z.of_nat (length c)) = (segs, Ok) /\
    map (proj14 client) (attach segs c) = map proj01 (TcpStream.plan_chunk client modeN seq c).
Proof.
  intros mtu mode fs modeN client seq c [F Hfs Hproto] Hc.
  assert (Hlen : 0 < Z.of_nat (length c) <= C14_maxPDU).
  { change C14_maxPDU with (Z.of_nat TcpStream.maxPDU) at 1. lia. }
  destruct (write_chunk_spec mtu C14_TransportStream mode fs _ F Hlen) as (segs & Hw & _ & _ & _ & _).
  exists segs. split; [exact Hw|].
  pose proof (ff_range _ _ _ _ F) as Fr. pose proof (ff_eq _ _ _ _ F) as Feq.
  unfold write_chunk in Hw. rewrite Feq in Hw.
  destruct (Z.eqb_spec fs 0); [lia|]. rewrite andb_false_r in Hw.
  destruct (frag_loop (Z.to_nat (n_fragments fs (Z.of_nat (length c)))) (negb (mode =? C14_ModeOff)) mode fs (Z.of_nat (length c)))
    as [segs' ok] eqn:E.
  destruct ok; [|discriminate Hw]. inversion Hw; subst segs'. clear Hw.
  pose proof (n_fragments_spec fs (Z.of_nat (length c)) ltac:(lia) Hlen) as Hn. cbv zeta in Hn.
  unfold TcpStream.plan_chunk. cbv zeta. rewrite Hproto.
  assert (Hfsn : (0 < TcpStream.frag_size modeN)%nat) by lia.
  rewrite <- (nfrag_conv _ _ Hfsn (proj1 Hc)). rewrite <- Hfs.
  replace (TcpStream.frag_size modeN) with (Z.to_nat fs) by lia.
  apply (frag_loop_attach client _ _ mode fs c segs seq); [lia|lia|exact E].
Qed.

Lemma plan_chunks_unfold : forall f client modeN seq (b : list N), b <> [] ->
  TcpStream.plan_chunks (S f) client modeN seq b =
  TcpStream.plan_chunk client modeN seq (firstn TcpStream.maxPDU b) ++
  TcpStream.plan_chunks f client modeN (seq + TcpStream.lenN (TcpStream.plan_chunk client modeN seq (firstn TcpStream.maxPDU b))) (skipn TcpStream.maxPDU b).
Proof. intros f client modeN seq b Hb. destruct b; [congruence|reflexivity]. Qed.

Lemma chunk_loop_bytes_agree : forall f1 f2 mtu mode fs modeN client seq (b : list N),
  stream_cfg mtu mode fs modeN client ->
  Z.of_nat (length b) <= Z.of_nat f1 * C14_maxPDU -> (length b <= f2)%nat ->
  map (proj14 client) (fst (fst (chunk_loop_bytes f1 mtu C14_TransportStream mode b))) =
  map proj01 (TcpStream.plan_chunks f2 client modeN seq b).
Proof.
  induction f1 as [|f IH]; intros f2 mtu mode fs modeN client seq b SC H1 H2.
  - assert (Hb : length b = O) by (revert H1; unfold C14_maxPDU; lia). destruct b; [|discriminate].
    cbn. destruct f2; reflexivity.
  - cbn [chunk_loop_bytes]. destruct (Z.leb_spec (Z.of_nat (length b)) 0) as [Hz|Hz].
    + assert (Hb : length b = O) by lia. destruct b; [|discriminate]. cbn. destruct f2; reflexivity.
    + assert (Hne : b <> []) by (intros ->; cbn in Hz; lia).
      destruct f2 as [|f2']; [lia|]. rewrite (plan_chunks_unfold f2' client modeN seq b Hne).
      set (c := firstn TcpStream.maxPDU b).
      assert (Hmin : Z.min (Z.of_nat (length b)) C14_maxPDU = Z.of_nat (length c)).
      { unfold c. rewrite firstn_length. change C14_maxPDU with (Z.of_nat TcpStream.maxPDU). lia. }
      assert (Hfirst : firstn (Z.to_nat (Z.min (Z.of_nat (length b)) C14_maxPDU)) b = c).
      { rewrite Z.min_comm. rewrite firstn_zmin by (unfold C14_maxPDU; lia). reflexivity. }
      assert (Hskip : skipn (Z.to_nat (Z.min (Z.of_nat (length b)) C14_maxPDU)) b = skipn TcpStream.maxPDU b).
      { rewrite Z.min_comm. rewrite skipn_zmin by (unfold C14_maxPDU; lia). reflexivity. }
      rewrite Hfirst, Hskip, Hmin.
      assert (Hc : (0 < length c <= TcpStream.maxPDU)%nat).
      { unfold c. rewrite firstn_length. change TcpStream.maxPDU with (Z.to_nat 32768). lia. }
      destruct (write_chunk_attach mtu mode fs modeN client seq c SC Hc) as (segs & Hw & Hmap).
      rewrite Hw.
      specialize (IH f2' mtu mode fs modeN client
                     (seq + TcpStream.lenN (TcpStream.plan_chunk client modeN seq c))%N (skipn TcpStream.maxPDU b) SC).
      destruct (chunk_loop_bytes f mtu C14_TransportStream mode (skipn TcpStream.maxPDU b)) as [[rest w] o].
      cbn [fst] in *. rewrite map_app, map_app, Hmap. f_equal. apply IH.
      * rewrite skipn_length. rewrite Nat2Z.inj_succ in H1. revert H1.
        change TcpStream.maxPDU with (Z.to_nat 32768). unfold C14_maxPDU. lia.
      * rewrite skipn_length. change TcpStream.maxPDU with (Z.to_nat 32768). lia.
Qed.

Lemma stream_cfg_all : forall mtu (modeN : N) client, (modeN <= 4)%N ->
  exists fs, stream_cfg mtu (Z.of_N modeN) fs modeN client.
Proof.
  intros mtu modeN client Hm.
  assert (Hcases : (modeN = 0 \/ modeN = 1 \/ modeN = 2 \/ modeN = 3 \/ modeN = 4)%N) by lia.
  assert (Hok : mode_ok (Z.of_N modeN)).
  { unfold mode_ok. destruct Hcases as [-> | [-> | [-> | [-> | -> ]]]]; cbn; auto 6. }
  destruct (frag_facts_in_range mtu C14_TransportStream (Z.of_N modeN) Hok (or_introl eq_refl)) as [fs F].
  { intros X; discriminate X. }
  exists fs. pose proof (ff_eq _ _ _ _ F) as Feq.
  pose proof (c14_stream_limits mtu) as (L0 & L1 & L2 & L3 & L4 & _).
  constructor; [exact F| |].
  - destruct Hcases as [-> | [-> | [-> | [-> | -> ]]]];
      [change (Z.of_N 0) with C14_ModeOff in Feq; rewrite L0 in Feq
      |change (Z.of_N 1) with C14_Mode32 in Feq; rewrite L1 in Feq
      |change (Z.of_N 2) with C14_Mode40 in Feq; rewrite L2 in Feq
      |change (Z.of_N 3) with C14_Mode48 in Feq; rewrite L3 in Feq
      |change (Z.of_N 4) with C14_Mode56 in Feq; rewrite L4 in Feq];
      inversion Feq; subst fs; vm_compute; reflexivity.
  - destruct Hcases as [-> | [-> | [-> | [-> | -> ]]]]; destruct client; reflexivity.
Qed.

(* Sizes.plan_write on the stream transport and TcpStream.plan_event say the same about every queued segment:
   protocol number, fragment number and payload bytes (hence payload length), in the same order, for every
   first/later write of a client or server session, every low-entropy mode and every byte string *)
Lemma plan_agrees_with_tcpstream : forall (client : bool) (st : TcpStream.wst) (modeN : N) (b : list N) mtu,
  (modeN <= 4)%N ->
  map (proj14 client)
      (fst (fst (plan_write client (negb (TcpStream.w_opened st)) mtu C14_TransportStream (Z.of_N modeN) b))) =
  map proj01 (fst (TcpStream.plan_event client st (TcpStream.WWrite modeN b))).
Proof.
  intros client st modeN b mtu Hm.
  destruct (stream_cfg_all mtu modeN client Hm) as [fs SC].
  set (n := Z.of_nat (length b)). assert (Hn : 0 <= n) by (unfold n; lia).
  pose proof (chunk_fuel_enough n Hn) as Hfuel.
  unfold plan_write, TcpStream.plan_event. fold n.
  destruct (client && negb (TcpStream.w_opened st)).
  2:{ destruct (TcpStream.plan_chunks (length b) client modeN (TcpStream.w_seq st) b) eqn:E; cbn [fst];
      rewrite <- E; apply (chunk_loop_bytes_agree _ _ mtu _ fs modeN client _ b SC Hfuel (le_n _)). }
  assert (Hmode : (Z.of_N modeN =? C14_ModeOff) = (modeN =? 0)%N).
  { assert (Hcases : (modeN = 0 \/ modeN = 1 \/ modeN = 2 \/ modeN = 3 \/ modeN = 4)%N) by lia.
    destruct Hcases as [-> | [-> | [-> | [-> | -> ]]]]; reflexivity. }
  assert (Hleb : (n <=? C14_MaxSessionOpenPayload) = (length b <=? TcpStream.maxOpenPayload)%nat).
  { change TcpStream.maxOpenPayload with (Z.to_nat 1024). unfold C14_MaxSessionOpenPayload.
    destruct (Z.leb_spec n 1024); destruct (Nat.leb_spec (length b) (Z.to_nat 1024)); unfold n in *; lia. }
  rewrite Hmode, Hleb.
  destruct ((modeN =? 0)%N && (length b <=? TcpStream.maxOpenPayload)%nat).
  - destruct (Z.gtb_spec n 0) as [Hp|Hp]; cbn [fst map].
    + reflexivity.
    + assert (Hb : length b = O) by (unfold n in Hp; lia). destruct b; [|discriminate]. reflexivity.
  - change (0 >? 0) with false. cbv iota.
    pose proof (chunk_loop_bytes_agree (chunk_fuel n) (length b) mtu _ fs modeN client (TcpStream.w_seq st + 1)%N b SC Hfuel (le_n _)) as Hag.
    destruct (chunk_loop_bytes (chunk_fuel n) mtu C14_TransportStream (Z.of_N modeN) b) as [[segs w] o].
    cbn [fst map] in *. rewrite Hag. reflexivity.
Qed.

(* non-vacuity: a low-entropy first write of 5 bytes on a client stream session — open request without
   payload, then one low-entropy data segment, in both models *)
Example ex_plan_agreement :
  map (proj14 true) (fst (fst (plan_write true true 1400 C14_TransportStream 1 [1; 2; 3; 4; 5]%N))) =
    [(2, 0, []); (10, 0, [1; 2; 3; 4; 5])]%N /\
  map proj01 (fst (TcpStream.plan_event true TcpStream.w_init (TcpStream.WWrite 1 [1; 2; 3; 4; 5]%N))) =
    [(2, 0, []); (10, 0, [1; 2; 3; 4; 5])]%N.
Proof. split; vm_compute; reflexivity. Qed.
