(* Proofs about model/Wire.v (property C09). *)
From Coq Require Import NArith ZArith List Bool Lia.
From Coq Require Import ZifyN ZifyNat ZifyBool.
From M Require Import gen.Consts model.Wire.
Import ListNotations.
Open Scope N_scope.

Ltac Zify.zify_post_hook ::= Z.div_mod_to_equations.

(* ---------------------------------------------------------------- constants equal the documented ones *)

Lemma consts_sizes :
  MetadataLength = 32 /\ MaxSessionOpenPayload = 1024 /\ NonceSize = 24 /\ TagOverhead = 16 /\
  C09_KeyLen = 32%Z /\ HintInputLen = 16 /\ HintLen = 4 /\ maxPDU = 32768 /\ chunkLen = 8.
Proof. repeat split; reflexivity. Qed.

Lemma consts_keygen : C09_KeyIter = 64%Z /\ C09_KeyRefreshInterval_s = 120%Z.
Proof. split; reflexivity. Qed.

Lemma consts_types :
  T_openSessionRequest = 2 /\ T_openSessionResponse = 3 /\ T_closeSessionRequest = 4 /\ T_closeSessionResponse = 5 /\
  T_dataClientToServer = 6 /\ T_dataServerToClient = 7 /\ T_ackClientToServer = 8 /\ T_ackServerToClient = 9 /\
  T_dataClientToServerLE = 10 /\ T_dataServerToClientLE = 11.
Proof. repeat split; reflexivity. Qed.

Lemma consts_overheads :
  Z.to_N C09_streamOverhead = MetadataLength + 2 * TagOverhead /\
  Z.to_N C09_packetOverhead = NonceSize + MetadataLength + 2 * TagOverhead /\
  Z.to_N C09_packetNonHeaderPosition = NonceSize + MetadataLength + TagOverhead.
Proof. repeat split; reflexivity. Qed.

(* mode table of the document: mode 1..4 carry 4..7 source bytes, half mask with 16..28 ones; every other mode is invalid *)
Lemma consts_modes :
  map mode_source_bytes [0; 1; 2; 3; 4; 5; 6; 7] = [0; 4; 5; 6; 7; 0; 0; 0] /\
  map mode_mask_ones [0; 1; 2; 3; 4; 5; 6; 7] = [0; 16; 20; 24; 28; 0; 0; 0] /\
  (forall m, 8 <= m -> mode_source_bytes m = 0).
Proof.
  repeat split; try reflexivity.
  intros m Hm. unfold mode_source_bytes.
  rewrite nth_overflow; [reflexivity|]. change (length C09_modeSourceBytes) with 8%nat. lia.
Qed.

(* ---------------------------------------------------------------- big endian *)

Lemma be_val_be16 v : be_val (be16 v) = v mod 65536.
Proof. unfold be_val, be16. cbn [rev app le_val]. lia. Qed.

Lemma be_val_be32 v : be_val (be32 v) = v mod 4294967296.
Proof. unfold be_val, be32. cbn [rev app le_val]. lia. Qed.

Lemma be_val_be16_small v : v < 65536 -> be_val (be16 v) = v.
Proof. intros. rewrite be_val_be16. lia. Qed.

Lemma be_val_be32_small v : v < 4294967296 -> be_val (be32 v) = v.
Proof. intros. rewrite be_val_be32. lia. Qed.

Lemma b8_small v : v < 256 -> b8 v = v.
Proof. unfold b8. lia. Qed.

Lemma b8_ok v : byte_ok (b8 v).
Proof. unfold byte_ok, b8. lia. Qed.

Lemma be16_ok v : Forall byte_ok (be16 v).
Proof. unfold be16, byte_ok. repeat constructor; lia. Qed.

Lemma be32_ok v : Forall byte_ok (be32 v).
Proof. unfold be32, byte_ok. repeat constructor; lia. Qed.

Lemma zeros_ok n : Forall byte_ok (zeros n).
Proof. unfold zeros. induction n; cbn [repeat]; constructor; auto. unfold byte_ok. lia. Qed.

(* ---------------------------------------------------------------- classification over 0..255 *)

Definition class_ok (p : N) : bool :=
  Bool.eqb (is_session p) ((2 <=? p) && (p <=? 5)) &&
  Bool.eqb (is_data p) ((p =? 6) || (p =? 7) || (p =? 10) || (p =? 11)) &&
  Bool.eqb (is_ack p) ((p =? 8) || (p =? 9)) &&
  Bool.eqb (is_low_entropy p) ((p =? 10) || (p =? 11)) &&
  Bool.eqb (is_data_ack p) ((6 <=? p) && (p <=? 11)).

Lemma class_all : forallb class_ok (map N.of_nat (seq 0 256)) = true.
Proof. vm_compute. reflexivity. Qed.

Lemma class_byte p : p < 256 -> class_ok p = true.
Proof.
  intros Hp. apply (proj1 (forallb_forall _ _) class_all).
  apply in_map_iff. exists (N.to_nat p). split; [apply N2Nat.id|]. apply in_seq. lia.
Qed.

Lemma classification p : p < 256 ->
  is_session p = ((2 <=? p) && (p <=? 5)) /\
  is_data p = ((p =? 6) || (p =? 7) || (p =? 10) || (p =? 11)) /\
  is_ack p = ((p =? 8) || (p =? 9)) /\
  is_low_entropy p = ((p =? 10) || (p =? 11)) /\
  is_data_ack p = ((6 <=? p) && (p <=? 11)).
Proof.
  intros Hp. pose proof (class_byte p Hp) as H. unfold class_ok in H.
  repeat (apply andb_true_iff in H; destruct H as [H ?]).
  repeat split; apply eqb_prop; assumption.
Qed.

(* outside a byte nothing is a protocol type (the predicates compare with numbers below 12) *)
Lemma classification_large p : 12 <= p ->
  is_session p = false /\ is_data p = false /\ is_ack p = false /\ is_low_entropy p = false /\ is_data_ack p = false.
Proof.
  intros Hp. unfold is_data_ack, is_data, is_ack, is_low_entropy, is_session.
  change T_openSessionRequest with 2. change T_openSessionResponse with 3. change T_closeSessionRequest with 4.
  change T_closeSessionResponse with 5. change T_dataClientToServer with 6. change T_dataServerToClient with 7.
  change T_ackClientToServer with 8. change T_ackServerToClient with 9. change T_dataClientToServerLE with 10.
  change T_dataServerToClientLE with 11.
  repeat match goal with |- context [p =? ?c] => destruct (N.eqb_spec p c); [lia|] end.
  repeat split; reflexivity.
Qed.

Lemma is_session_byte p : is_session p = true -> p < 256.
Proof.
  intros H. destruct (N.lt_ge_cases p 12) as [?|Hge]; [lia|].
  destruct (classification_large p Hge) as (E & _). congruence.
Qed.

Lemma is_data_ack_byte p : is_data_ack p = true -> p < 256.
Proof.
  intros H. destruct (N.lt_ge_cases p 12) as [?|Hge]; [lia|].
  destruct (classification_large p Hge) as (_ & _ & _ & _ & E). congruence.
Qed.

Lemma is_low_entropy_data_ack p : is_low_entropy p = true -> is_data_ack p = true.
Proof. intros H. unfold is_data_ack, is_data. rewrite H. rewrite orb_true_r. reflexivity. Qed.

(* the partition: a byte is a session type, a data/ack type, or no type at all; never two *)
Lemma partition p : p < 256 ->
  (is_session p && is_data_ack p = false) /\ (is_data p && is_ack p = false) /\
  (is_data_ack p = is_data p || is_ack p) /\ (is_low_entropy p = true -> is_data p = true) /\
  (is_session p || is_data_ack p = ((2 <=? p) && (p <=? 11))).
Proof.
  intros Hp.
  assert (A : forallb (fun p => negb (is_session p && is_data_ack p) && negb (is_data p && is_ack p) &&
              Bool.eqb (is_data_ack p) (is_data p || is_ack p) && implb (is_low_entropy p) (is_data p) &&
              Bool.eqb (is_session p || is_data_ack p) ((2 <=? p) && (p <=? 11)))
            (map N.of_nat (seq 0 256)) = true) by (vm_compute; reflexivity).
  assert (I : In p (map N.of_nat (seq 0 256))).
  { apply in_map_iff. exists (N.to_nat p). split; [apply N2Nat.id|]. apply in_seq. lia. }
  pose proof (proj1 (forallb_forall _ _) A p I) as H. cbv beta in H.
  apply andb_true_iff in H; destruct H as [H H5]. apply andb_true_iff in H; destruct H as [H H4].
  apply andb_true_iff in H; destruct H as [H H3]. apply andb_true_iff in H; destruct H as [H1 H2].
  split; [|split; [|split; [|split]]].
  - apply negb_true_iff. exact H1.
  - apply negb_true_iff. exact H2.
  - apply eqb_prop. exact H3.
  - intros E. rewrite E in H4. exact H4.
  - apply eqb_prop. exact H5.
Qed.

(* ---------------------------------------------------------------- offsets: one lemma per table row *)

(* Session metadata: | protocol type 1 | unused 1 | timestamp 4 | session ID 4 | sequence number 4 | status code 1 |
   payload length 2 | suffix length 1 | unused 14 | *)
Lemma session_row_protocol_type m : slice 0 1 (marshal_session m) = [b8 (s_proto m)]. Proof. reflexivity. Qed.
Lemma session_row_unused_1 m : slice 1 1 (marshal_session m) = zeros 1. Proof. reflexivity. Qed.
Lemma session_row_timestamp m : slice 2 4 (marshal_session m) = be32 (s_ts m). Proof. reflexivity. Qed.
Lemma session_row_session_id m : slice 6 4 (marshal_session m) = be32 (s_sid m). Proof. reflexivity. Qed.
Lemma session_row_sequence_number m : slice 10 4 (marshal_session m) = be32 (s_seq m). Proof. reflexivity. Qed.
Lemma session_row_status_code m : slice 14 1 (marshal_session m) = [b8 (s_status m)]. Proof. reflexivity. Qed.
Lemma session_row_payload_length m : slice 15 2 (marshal_session m) = be16 (s_plen m). Proof. reflexivity. Qed.
Lemma session_row_suffix_length m : slice 17 1 (marshal_session m) = [b8 (s_slen m)]. Proof. reflexivity. Qed.
Lemma session_row_unused_14 m : slice 18 14 (marshal_session m) = zeros 14. Proof. reflexivity. Qed.
Lemma session_rows_cover m : length (marshal_session m) = (1 + 1 + 4 + 4 + 4 + 1 + 2 + 1 + 14)%nat. Proof. reflexivity. Qed.

(* Data metadata: | protocol type 1 | unused 1 | timestamp 4 | session ID 4 | sequence number 4 | unack sequence number 4 |
   window size 2 | fragment number 1 | prefix length 1 | payload length 2 | suffix length 1 | unused 7 | *)
Lemma data_row_protocol_type m : slice 0 1 (marshal_data m) = [b8 (d_proto m)]. Proof. reflexivity. Qed.
Lemma data_row_unused_1 m : is_low_entropy (b8 (d_proto m)) = false -> slice 1 1 (marshal_data m) = zeros 1.
Proof. intros H. unfold marshal_data. rewrite H. reflexivity. Qed.
Lemma data_row_timestamp m : slice 2 4 (marshal_data m) = be32 (d_ts m). Proof. reflexivity. Qed.
Lemma data_row_session_id m : slice 6 4 (marshal_data m) = be32 (d_sid m). Proof. reflexivity. Qed.
Lemma data_row_sequence_number m : slice 10 4 (marshal_data m) = be32 (d_seq m). Proof. reflexivity. Qed.
Lemma data_row_unack_sequence_number m : slice 14 4 (marshal_data m) = be32 (d_unack m). Proof. reflexivity. Qed.
Lemma data_row_window_size m : slice 18 2 (marshal_data m) = be16 (d_win m). Proof. reflexivity. Qed.
Lemma data_row_fragment_number m : slice 20 1 (marshal_data m) = [b8 (d_frag m)]. Proof. reflexivity. Qed.
Lemma data_row_prefix_length m : slice 21 1 (marshal_data m) = [b8 (d_prefix m)]. Proof. reflexivity. Qed.
Lemma data_row_payload_length m : slice 22 2 (marshal_data m) = be16 (d_plen m). Proof. reflexivity. Qed.
Lemma data_row_suffix_length m : slice 24 1 (marshal_data m) = [b8 (d_slen m)]. Proof. reflexivity. Qed.
Lemma data_row_unused_7 m : is_low_entropy (b8 (d_proto m)) = false -> slice 25 7 (marshal_data m) = zeros 7.
Proof. intros H. unfold marshal_data. rewrite H. reflexivity. Qed.
Lemma data_rows_cover m : length (marshal_data m) = (1 + 1 + 4 + 4 + 4 + 4 + 2 + 1 + 1 + 2 + 1 + 7)%nat.
Proof. unfold marshal_data. destruct (is_low_entropy (b8 (d_proto m))); reflexivity. Qed.

(* Low entropy extension: byte 1 = low entropy mode; the last 7 bytes = | low entropy mask 4 | extracted payload length 2 |
   low entropy mask rotation 1 |; all other rows are those of the data metadata (lemmas data_row_* above hold for every type) *)
Lemma le_row_low_entropy_mode m : is_low_entropy (b8 (d_proto m)) = true -> slice 1 1 (marshal_data m) = [b8 (d_mode m)].
Proof. intros H. unfold marshal_data. rewrite H. reflexivity. Qed.
Lemma le_row_low_entropy_mask m : is_low_entropy (b8 (d_proto m)) = true -> slice 25 4 (marshal_data m) = be32 (d_mask m).
Proof. intros H. unfold marshal_data. rewrite H. reflexivity. Qed.
Lemma le_row_extracted_payload_length m : is_low_entropy (b8 (d_proto m)) = true -> slice 29 2 (marshal_data m) = be16 (d_elen m).
Proof. intros H. unfold marshal_data. rewrite H. reflexivity. Qed.
Lemma le_row_low_entropy_mask_rotation m : is_low_entropy (b8 (d_proto m)) = true -> slice 31 1 (marshal_data m) = [b8 (d_rot m)].
Proof. intros H. unfold marshal_data. rewrite H. reflexivity. Qed.

Lemma session_offsets m :
  slice 0 1 (marshal_session m) = [b8 (s_proto m)] /\
  slice 1 1 (marshal_session m) = zeros 1 /\
  slice 2 4 (marshal_session m) = be32 (s_ts m) /\
  slice 6 4 (marshal_session m) = be32 (s_sid m) /\
  slice 10 4 (marshal_session m) = be32 (s_seq m) /\
  slice 14 1 (marshal_session m) = [b8 (s_status m)] /\
  slice 15 2 (marshal_session m) = be16 (s_plen m) /\
  slice 17 1 (marshal_session m) = [b8 (s_slen m)] /\
  slice 18 14 (marshal_session m) = zeros 14 /\
  length (marshal_session m) = 32%nat.
Proof. repeat split. Qed.

Lemma data_offsets m : is_low_entropy (b8 (d_proto m)) = false ->
  slice 0 1 (marshal_data m) = [b8 (d_proto m)] /\
  slice 1 1 (marshal_data m) = zeros 1 /\
  slice 2 4 (marshal_data m) = be32 (d_ts m) /\
  slice 6 4 (marshal_data m) = be32 (d_sid m) /\
  slice 10 4 (marshal_data m) = be32 (d_seq m) /\
  slice 14 4 (marshal_data m) = be32 (d_unack m) /\
  slice 18 2 (marshal_data m) = be16 (d_win m) /\
  slice 20 1 (marshal_data m) = [b8 (d_frag m)] /\
  slice 21 1 (marshal_data m) = [b8 (d_prefix m)] /\
  slice 22 2 (marshal_data m) = be16 (d_plen m) /\
  slice 24 1 (marshal_data m) = [b8 (d_slen m)] /\
  slice 25 7 (marshal_data m) = zeros 7 /\
  length (marshal_data m) = 32%nat.
Proof.
  intros H. repeat split; try reflexivity.
  - apply data_row_unused_1; assumption.
  - apply data_row_unused_7; assumption.
  - apply data_rows_cover.
Qed.

Lemma le_offsets m : is_low_entropy (b8 (d_proto m)) = true ->
  slice 0 1 (marshal_data m) = [b8 (d_proto m)] /\
  slice 1 1 (marshal_data m) = [b8 (d_mode m)] /\
  slice 2 4 (marshal_data m) = be32 (d_ts m) /\
  slice 6 4 (marshal_data m) = be32 (d_sid m) /\
  slice 10 4 (marshal_data m) = be32 (d_seq m) /\
  slice 14 4 (marshal_data m) = be32 (d_unack m) /\
  slice 18 2 (marshal_data m) = be16 (d_win m) /\
  slice 20 1 (marshal_data m) = [b8 (d_frag m)] /\
  slice 21 1 (marshal_data m) = [b8 (d_prefix m)] /\
  slice 22 2 (marshal_data m) = be16 (d_plen m) /\
  slice 24 1 (marshal_data m) = [b8 (d_slen m)] /\
  slice 25 4 (marshal_data m) = be32 (d_mask m) /\
  slice 29 2 (marshal_data m) = be16 (d_elen m) /\
  slice 31 1 (marshal_data m) = [b8 (d_rot m)] /\
  length (marshal_data m) = 32%nat.
Proof.
  intros H. repeat split; try reflexivity.
  - apply le_row_low_entropy_mode; assumption.
  - apply le_row_low_entropy_mask; assumption.
  - apply le_row_extracted_payload_length; assumption.
  - apply le_row_low_entropy_mask_rotation; assumption.
  - apply data_rows_cover.
Qed.

(* ---------------------------------------------------------------- length and byte range of Marshal *)

Lemma marshal_session_length m :
  N.of_nat (length (marshal_session m)) = MetadataLength /\ Forall byte_ok (marshal_session m).
Proof.
  split; [reflexivity|]. unfold marshal_session.
  repeat (apply Forall_app; split); auto using be32_ok, be16_ok, zeros_ok;
    repeat constructor; auto using b8_ok; unfold byte_ok; lia.
Qed.

Lemma marshal_data_length m :
  N.of_nat (length (marshal_data m)) = MetadataLength /\ Forall byte_ok (marshal_data m).
Proof.
  split; [rewrite data_rows_cover; reflexivity|]. unfold marshal_data.
  destruct (is_low_entropy (b8 (d_proto m)));
  repeat (apply Forall_app; split); auto using be32_ok, be16_ok, zeros_ok;
    repeat constructor; auto using b8_ok; unfold byte_ok; lia.
Qed.

(* ---------------------------------------------------------------- round trips *)

Lemma session_roundtrip m : session_valid m -> unmarshal_session (marshal_session m) = Some m.
Proof.
  destruct m as [p ts sid seq st pl sl]. unfold session_valid. cbn [s_proto s_ts s_sid s_seq s_status s_plen s_slen].
  change MaxSessionOpenPayload with 1024. change (2 ^ 32) with 4294967296.
  intros (Hp & Hts & Hsid & Hseq & Hst & Hpl & Hsl).
  pose proof (is_session_byte p Hp) as Hp8.
  unfold unmarshal_session.
  set (b := marshal_session _).
  change (N.of_nat (length b) =? MetadataLength) with true. cbn [negb].
  change (byte_at 0 b) with (b8 p). rewrite (b8_small p Hp8). rewrite Hp. cbn [negb].
  change (slice 15 2 b) with (be16 pl). rewrite be_val_be16_small by lia.
  change MaxSessionOpenPayload with 1024.
  destruct (N.ltb_spec 1024 pl) as [?|_]; [lia|].
  change (slice 2 4 b) with (be32 ts). change (slice 6 4 b) with (be32 sid). change (slice 10 4 b) with (be32 seq).
  change (byte_at 14 b) with (b8 st). change (byte_at 17 b) with (b8 sl).
  rewrite !be_val_be32_small by assumption. rewrite !b8_small by assumption. reflexivity.
Qed.

Lemma data_roundtrip m : data_valid m -> unmarshal_data (marshal_data m) = Some m.
Proof.
  destruct m as [p mode ts sid seq un win fr pre pl sl mask el rot]. unfold data_valid, data_common_valid.
  cbn [d_proto d_mode d_ts d_sid d_seq d_unack d_win d_frag d_prefix d_plen d_slen d_mask d_elen d_rot].
  change (2 ^ 32) with 4294967296. change (2 ^ 16) with 65536.
  intros (Hp & Hle & (Hts & Hsid & Hseq & Hun & Hwin & Hfr & Hpre & Hpl & Hsl) & -> & -> & -> & ->).
  pose proof (is_data_ack_byte p Hp) as Hp8.
  unfold unmarshal_data, marshal_data.
  cbn [d_proto d_mode d_ts d_sid d_seq d_unack d_win d_frag d_prefix d_plen d_slen d_mask d_elen d_rot].
  rewrite (b8_small p Hp8). rewrite Hle.
  set (b := _ ++ _).
  change (N.of_nat (length b) =? MetadataLength) with true. cbn [negb].
  change (byte_at 0 b) with p. rewrite Hp, Hle. cbn [negb andb].
  change (slice 2 4 b) with (be32 ts). change (slice 6 4 b) with (be32 sid). change (slice 10 4 b) with (be32 seq).
  change (slice 14 4 b) with (be32 un). change (slice 18 2 b) with (be16 win). change (slice 22 2 b) with (be16 pl).
  change (byte_at 20 b) with (b8 fr). change (byte_at 21 b) with (b8 pre). change (byte_at 24 b) with (b8 sl).
  rewrite !be_val_be32_small by assumption. rewrite !be_val_be16_small by assumption.
  rewrite !b8_small by assumption. reflexivity.
Qed.

Lemma le_roundtrip m : le_valid m -> unmarshal_data (marshal_data m) = Some m.
Proof.
  destruct m as [p mode ts sid seq un win fr pre pl sl mask el rot]. unfold le_valid, data_common_valid.
  cbn [d_proto d_mode d_ts d_sid d_seq d_unack d_win d_frag d_prefix d_plen d_slen d_mask d_elen d_rot].
  change (2 ^ 32) with 4294967296. change (2 ^ 16) with 65536.
  intros (Hle & (Hts & Hsid & Hseq & Hun & Hwin & Hfr & Hpre & Hpl & Hsl) & Hmode & Hmask & Hel & Hrot & Hok).
  pose proof (is_low_entropy_data_ack p Hle) as Hp.
  pose proof (is_data_ack_byte p Hp) as Hp8.
  unfold unmarshal_data, marshal_data.
  cbn [d_proto d_mode d_ts d_sid d_seq d_unack d_win d_frag d_prefix d_plen d_slen d_mask d_elen d_rot].
  rewrite (b8_small p Hp8). rewrite Hle.
  set (b := _ ++ _).
  change (N.of_nat (length b) =? MetadataLength) with true. cbn [negb].
  change (byte_at 0 b) with p. rewrite Hp, Hle. cbn [negb andb].
  change (byte_at 1 b) with (b8 mode). change (byte_at 31 b) with (b8 rot).
  change (slice 25 4 b) with (be32 mask). change (slice 29 2 b) with (be16 el).
  change (slice 2 4 b) with (be32 ts). change (slice 6 4 b) with (be32 sid). change (slice 10 4 b) with (be32 seq).
  change (slice 14 4 b) with (be32 un). change (slice 18 2 b) with (be16 win). change (slice 22 2 b) with (be16 pl).
  change (byte_at 20 b) with (b8 fr). change (byte_at 21 b) with (b8 pre). change (byte_at 24 b) with (b8 sl).
  rewrite !be_val_be32_small by assumption. rewrite !be_val_be16_small by assumption.
  rewrite !b8_small by assumption. rewrite Hok. cbn [negb]. reflexivity.
Qed.

Lemma some_inj {A} (x y : A) : Some x = Some y -> x = y.
Proof. intros H. injection H. auto. Qed.

Lemma session_injective m1 m2 :
  session_valid m1 -> session_valid m2 -> marshal_session m1 = marshal_session m2 -> m1 = m2.
Proof.
  intros V1 V2 E. apply some_inj. rewrite <- (session_roundtrip m1 V1), <- (session_roundtrip m2 V2), E. reflexivity.
Qed.

Lemma data_injective m1 m2 :
  data_valid m1 \/ le_valid m1 -> data_valid m2 \/ le_valid m2 -> marshal_data m1 = marshal_data m2 -> m1 = m2.
Proof.
  intros V1 V2 E. apply some_inj.
  assert (R1 : unmarshal_data (marshal_data m1) = Some m1) by (destruct V1; auto using data_roundtrip, le_roundtrip).
  assert (R2 : unmarshal_data (marshal_data m2) = Some m2) by (destruct V2; auto using data_roundtrip, le_roundtrip).
  rewrite <- R1, <- R2, E. reflexivity.
Qed.

(* what Unmarshal accepts is valid, and Marshal gives the bytes back (the unused bytes excepted, which Unmarshal ignores):
   stated as: the result of a successful Unmarshal is a valid value of its layout *)
Lemma le_val_bound l : Forall byte_ok l -> le_val l < 256 ^ N.of_nat (length l).
Proof.
  induction 1 as [|b t Hb _ IH]; cbn [le_val length]; [reflexivity|].
  rewrite Nat2N.inj_succ, N.pow_succ_r'. unfold byte_ok in Hb. lia.
Qed.

(* ---------------------------------------------------------------- nonce increment *)

Lemma inc_le_length l : length (inc_le l) = length l.
Proof. induction l as [|b t IH]; cbn [inc_le]; [reflexivity|]. destruct (_ =? 0); cbn [length]; congruence. Qed.

Lemma inc_le_ok l : Forall byte_ok l -> Forall byte_ok (inc_le l).
Proof.
  induction 1 as [|b t Hb Ht IH]; cbn [inc_le]; [constructor|].
  destruct (_ =? 0); constructor; auto; unfold byte_ok in *; lia.
Qed.

Lemma inc_le_val l : Forall byte_ok l -> le_val (inc_le l) = (le_val l + 1) mod 256 ^ N.of_nat (length l).
Proof.
  induction 1 as [|b t Hb Ht IH]; [reflexivity|].
  cbn [inc_le le_val length]. rewrite Nat2N.inj_succ, N.pow_succ_r'.
  pose proof (le_val_bound t Ht) as Hv. unfold byte_ok in Hb.
  set (X := 256 ^ N.of_nat (length t)) in *. set (v := le_val t) in *.
  destruct (N.eqb_spec ((b + 1) mod 256) 0) as [E|E]; cbn [le_val].
  - rewrite IH. assert (b = 255) by lia. subst b.
    replace (255 + 256 * v + 1) with (256 * (v + 1)) by lia.
    rewrite N.mul_mod_distr_l by lia. lia.
  - assert (b + 1 < 256) by lia.
    rewrite (N.mod_small (b + 1)) by lia. rewrite N.mod_small; nia.
Qed.

Lemma rev_ok l : Forall byte_ok l -> Forall byte_ok (rev l).
Proof. intros H. apply Forall_forall. intros x Hx. apply in_rev in Hx. revert x Hx. apply Forall_forall. assumption. Qed.

Lemma nonce_inc_length n : length (nonce_inc n) = length n.
Proof. unfold nonce_inc. rewrite rev_length, inc_le_length, rev_length. reflexivity. Qed.

Lemma nonce_inc_ok n : Forall byte_ok n -> Forall byte_ok (nonce_inc n).
Proof. intros H. unfold nonce_inc. apply rev_ok, inc_le_ok, rev_ok. assumption. Qed.

Lemma nonce_inc_val n : Forall byte_ok n ->
  be_val (nonce_inc n) = (be_val n + 1) mod 256 ^ N.of_nat (length n).
Proof.
  intros H. unfold be_val, nonce_inc. rewrite rev_involutive.
  rewrite inc_le_val by (apply rev_ok; assumption). rewrite rev_length. reflexivity.
Qed.

Lemma pow_256_24 : 256 ^ 24 = 2 ^ 192.
Proof. vm_compute. reflexivity. Qed.

Lemma nonce_inc_is_succ n : N.of_nat (length n) = NonceSize -> Forall byte_ok n ->
  be_val (nonce_inc n) = (be_val n + 1) mod 2 ^ 192 /\
  N.of_nat (length (nonce_inc n)) = NonceSize /\ Forall byte_ok (nonce_inc n).
Proof.
  intros Hl Hb. change NonceSize with 24 in *. repeat split.
  - rewrite nonce_inc_val by assumption. rewrite Hl, pow_256_24. reflexivity.
  - rewrite nonce_inc_length. assumption.
  - apply nonce_inc_ok. assumption.
Qed.

Lemma nonce_iter_length k n : length (nonce_iter k n) = length n.
Proof. induction k; cbn [nonce_iter]; [reflexivity|]. rewrite nonce_inc_length. assumption. Qed.

Lemma nonce_iter_ok k n : Forall byte_ok n -> Forall byte_ok (nonce_iter k n).
Proof. intros H. induction k; cbn [nonce_iter]; auto using nonce_inc_ok. Qed.

(* the k-th encryption of a TCP direction uses nonce0 + k (mod 2^192) *)
Lemma nonce_iter_val k n : N.of_nat (length n) = NonceSize -> Forall byte_ok n ->
  be_val (nonce_iter k n) = (be_val n + N.of_nat k) mod 2 ^ 192.
Proof.
  intros Hl Hb. change NonceSize with 24 in *.
  induction k as [|k IH].
  - cbn [nonce_iter]. rewrite N.add_0_r. symmetry. apply N.mod_small.
    pose proof (le_val_bound (rev n) (rev_ok n Hb)) as B. rewrite rev_length, Hl, pow_256_24 in B. exact B.
  - cbn [nonce_iter]. rewrite nonce_inc_val by (apply nonce_iter_ok; assumption).
    rewrite nonce_iter_length, Hl, pow_256_24, IH.
    rewrite N.add_mod_idemp_l by (vm_compute; discriminate).
    f_equal. lia.
Qed.

(* hence no nonce repeats within 2^192 encryptions of one direction *)
Lemma nonce_iter_distinct j k n : N.of_nat (length n) = NonceSize -> Forall byte_ok n ->
  (j < k)%nat -> N.of_nat (k - j) < 2 ^ 192 -> nonce_iter j n <> nonce_iter k n.
Proof.
  intros Hl Hb Hjk Hd E.
  pose proof (nonce_iter_val j n Hl Hb) as Vj. pose proof (nonce_iter_val k n Hl Hb) as Vk.
  rewrite E in Vj. rewrite Vj in Vk. clear E Vj.
  change (2 ^ 192) with 6277101735386680763835789423207666416102355444464034512896 in *.
  lia.
Qed.

(* ---------------------------------------------------------------- user hint and segment layout (uninterpreted crypto) *)

Section HashFacts.
  Variable H : list N -> list N.
  Hypothesis H_len : forall x, length (H x) = 32%nat.

  Lemma user_hint_length user nonce : length (user_hint H user nonce) = N.to_nat HintLen.
  Proof. unfold user_hint. rewrite firstn_length, H_len. change (N.to_nat HintLen) with 4%nat. reflexivity. Qed.

  (* the hint replaces exactly the last 4 bytes and is a function of the user name and the first 16 bytes *)
  Lemma set_user_hint_spec user nonce : N.of_nat (length nonce) = NonceSize ->
    length (set_user_hint H user nonce) = length nonce /\
    firstn 20 (set_user_hint H user nonce) = firstn 20 nonce /\
    skipn 20 (set_user_hint H user nonce) = firstn 4 (H (user ++ firstn 16 nonce)) /\
    set_user_hint H user (set_user_hint H user nonce) = set_user_hint H user nonce.
  Proof.
    intros Hl. change NonceSize with 24 in Hl. assert (L : length nonce = 24%nat) by lia.
    unfold set_user_hint. rewrite L. change (24 - N.to_nat HintLen)%nat with 20%nat.
    assert (L20 : length (firstn 20 nonce) = 20%nat) by (rewrite firstn_length; lia).
    assert (F16 : forall t, firstn 16 (firstn 20 nonce ++ t) = firstn 16 nonce).
    { intros t. rewrite firstn_app, L20. change (16 - 20)%nat with 0%nat. rewrite firstn_O. rewrite app_nil_r.
      rewrite firstn_firstn. reflexivity. }
    repeat split.
    - rewrite app_length, L20, user_hint_length. reflexivity.
    - rewrite firstn_app, L20. change (20 - 20)%nat with 0%nat. rewrite firstn_O. rewrite app_nil_r.
      rewrite firstn_firstn. reflexivity.
    - rewrite skipn_app, L20. change (20 - 20)%nat with 0%nat. rewrite skipn_O.
      rewrite skipn_all2 by lia. reflexivity.
    - rewrite app_length, L20, user_hint_length. change (20 + N.to_nat HintLen - N.to_nat HintLen)%nat with 20%nat.
      rewrite firstn_app, L20. change (20 - 20)%nat with 0%nat. rewrite firstn_O. rewrite app_nil_r, firstn_firstn.
      change (Init.Nat.min 20 20) with 20%nat. f_equal.
      unfold user_hint. change (N.to_nat HintInputLen) with 16%nat. rewrite F16. reflexivity.
  Qed.

End HashFacts.

Section SealFacts.
  Variable seal : list N -> list N -> list N -> list N.
  Hypothesis seal_len : forall k n p, length (seal k n p) = (length p + N.to_nat TagOverhead)%nat.

  (* a UDP datagram has exactly the length the metadata announces: nonce, sealed metadata, paddings, payload box *)
  Lemma udp_datagram_length key nonce meta pad1 payload pad2 :
    N.of_nat (length nonce) = NonceSize -> N.of_nat (length meta) = MetadataLength ->
    length (udp_datagram seal key nonce meta pad1 payload pad2 (fun x => x)) =
    (N.to_nat (Z.to_N C09_packetNonHeaderPosition) + length pad1 +
     (match payload with [] => 0 | _ => length payload + N.to_nat TagOverhead end) + length pad2)%nat.
  Proof.
    intros Hn Hm. change NonceSize with 24 in Hn. change MetadataLength with 32 in Hm.
    unfold udp_datagram, segment_wire. rewrite !app_length, seal_len.
    change (N.to_nat (Z.to_N C09_packetNonHeaderPosition)) with 72%nat. change (N.to_nat TagOverhead) with 16%nat.
    destruct payload as [|x t]; [cbn [length]; lia|]. rewrite seal_len. change (N.to_nat TagOverhead) with 16%nat. lia.
  Qed.
End SealFacts.

(* ---------------------------------------------------------------- non-vacuity: concrete valid values *)

Definition ex_session : session_meta :=
  {| s_proto := 2; s_ts := 28333333; s_sid := 305419896; s_seq := 7; s_status := 1; s_plen := 1024; s_slen := 255 |}.
Definition ex_data : data_meta :=
  {| d_proto := 6; d_mode := 0; d_ts := 28333333; d_sid := 305419896; d_seq := 4294967295; d_unack := 9; d_win := 256;
     d_frag := 3; d_prefix := 200; d_plen := 32768; d_slen := 255; d_mask := 0; d_elen := 0; d_rot := 0 |}.
Definition ex_le : data_meta :=
  {| d_proto := 10; d_mode := 1; d_ts := 28333333; d_sid := 1; d_seq := 2; d_unack := 3; d_win := 4;
     d_frag := 0; d_prefix := 5; d_plen := 8; d_slen := 6; d_mask := 252645135; d_elen := 4; d_rot := 48 |}.

Example ex_session_valid : session_valid ex_session.
Proof. unfold session_valid; repeat split; vm_compute; congruence. Qed.
Example ex_data_valid : data_valid ex_data.
Proof. unfold data_valid, data_common_valid; repeat split; vm_compute; congruence. Qed.
Example ex_le_valid : le_valid ex_le.
Proof. unfold le_valid, data_common_valid; repeat split; vm_compute; congruence. Qed.
Example ex_session_bytes : marshal_session ex_session =
  [2;0; 1;176;85;21; 18;52;86;120; 0;0;0;7; 1; 4;0; 255; 0;0;0;0;0;0;0;0;0;0;0;0;0;0].
Proof. vm_compute. reflexivity. Qed.
Example ex_le_bytes : marshal_data ex_le =
  [10;1; 1;176;85;21; 0;0;0;1; 0;0;0;2; 0;0;0;3; 0;4; 0; 5; 0;8; 6; 15;15;15;15; 0;4; 48].
Proof. vm_compute. reflexivity. Qed.
(* rejected inputs are rejected for the documented reason, not by a default value *)
Example ex_reject_session_payload : unmarshal_session (marshal_session {| s_proto := 2; s_ts := 0; s_sid := 0; s_seq := 0; s_status := 0; s_plen := 1025; s_slen := 0 |}) = None.
Proof. vm_compute. reflexivity. Qed.
Example ex_reject_unknown_type : unmarshal_data (marshal_data {| d_proto := 12; d_mode := 0; d_ts := 0; d_sid := 0; d_seq := 0; d_unack := 0; d_win := 0; d_frag := 0; d_prefix := 0; d_plen := 0; d_slen := 0; d_mask := 0; d_elen := 0; d_rot := 0 |}) = None.
Proof. vm_compute. reflexivity. Qed.
Example ex_reject_short : unmarshal_session (firstn 31 (marshal_session ex_session)) = None.
Proof. vm_compute. reflexivity. Qed.
Example ex_reject_le_mode0 : unmarshal_data (marshal_data {| d_proto := 10; d_mode := 0; d_ts := 0; d_sid := 0; d_seq := 0; d_unack := 0; d_win := 0; d_frag := 0; d_prefix := 0; d_plen := 4; d_slen := 0; d_mask := 0; d_elen := 4; d_rot := 0 |}) = None.
Proof. vm_compute. reflexivity. Qed.
Example ex_nonce_carry : nonce_inc (repeat 0 21 ++ [1; 255; 255]) = repeat 0 21 ++ [2; 0; 0].
Proof. vm_compute. reflexivity. Qed.
Example ex_nonce_wrap : nonce_inc (repeat 255 24) = repeat 0 24.
Proof. vm_compute. reflexivity. Qed.

(* ---------------------------------------------------------------- UDP reply key *)

Lemma sess_run_last {K} (st : option K) (ks : list K) (k : K) : sess_run K st (ks ++ [k]) = Some k.
Proof. unfold sess_run. rewrite fold_left_app. reflexivity. Qed.

Lemma sess_run_nil {K} (st : option K) : sess_run K st [] = st.
Proof. reflexivity. Qed.

Example ex_sess_run : sess_run N None [1700000040; 1700000040; 1700000160; 1700000280] = Some 1700000280.
Proof. reflexivity. Qed.
