(* pkg/cipher: (c *aeadBlockCipher) increaseNonce as the source says it NOW (gen/Translated.v: the receiver's fields
   enableImplicitNonce / implicitNonce are parameters, the assigned field implicitNonce is the result, None = panic)
   equals model/Wire.v's [nonce_inc] (C09) for every non-empty nonce of bytes with implicit nonce mode enabled; it
   panics exactly when the mode is off or the nonce is empty.  Bytes are N in the model and Z in the translation. *)
From Coq Require Import ZArith NArith Bool Lia List ZifyN ZifyBool.
From M Require Import gen.Consts base.MiniGo gen.Translated model.Wire proofs.MiniGoProofs proofs.WireProofs.
Import ListNotations.
Open Scope Z_scope.
Ltac Zify.zify_post_hook ::= Z.div_mod_to_equations.

Definition zs (l : list N) : list Z := map Z.of_N l.

Lemma zs_app a b : zs (a ++ b) = zs a ++ zs b.
Proof. apply map_app. Qed.
Lemma zs_len a : length (zs a) = length a.
Proof. apply map_length. Qed.
Lemma zs_repeat0 i : zs (repeat 0%N i) = repeat 0 i.
Proof. induction i; cbn; [reflexivity | f_equal; assumption]. Qed.

(* the model on a nonce whose last byte is x *)
Lemma nonce_inc_snoc p x :
  nonce_inc (p ++ [x]) = if ((x + 1) mod 256 =? 0)%N then nonce_inc p ++ [0%N] else p ++ [((x + 1) mod 256)%N].
Proof.
  unfold nonce_inc. rewrite rev_app_distr. cbn [rev app inc_le].
  destruct ((x + 1) mod 256 =? 0)%N; cbn [rev]; [reflexivity | rewrite rev_involutive; reflexivity].
Qed.

Lemma go_add_U8_byte x : (x < 256)%N -> go_add (U 8) (Z.of_N x) 1 = Z.of_N ((x + 1) mod 256).
Proof.
  intro Hx. unfold go_add, go_wrap, wrapU. change (2 ^ 8) with 256.
  rewrite N2Z.inj_mod, N2Z.inj_add. reflexivity.
Qed.

Theorem xl_increaseNonce_eq_model (n : list N) :
  n <> [] -> Forall byte_ok n -> Z.of_nat (length n) < 2 ^ 63 ->
  xl_cipher_increaseNonce true (zs n) = Some (zs (nonce_inc n)).
Proof.
  intros Hne Hok Hlen. assert (P63 : 2 ^ 63 = 9223372036854775808) by reflexivity. rewrite P63 in Hlen.
  unfold xl_cipher_increaseNonce. cbn [negb orb].
  assert (E0 : (go_len (zs n) =? 0) = false).
  { apply Z.eqb_neq. unfold go_len. rewrite zs_len. destruct n; [contradiction | cbn; lia]. }
  rewrite E0. cbv zeta.
  set (L := go_len (zs n)).
  assert (HLn : L = Z.of_nat (length n)) by (subst L; unfold go_len; rewrite zs_len; reflexivity).
  assert (LB : 0 <= L < 9223372036854775808) by lia.
  match goal with |- context [whileP _ ?c0 ?b0 _] => set (c := c0); set (b := b0) end.
  (* the loop from a state where the last i bytes have wrapped to 0: p is what is left of the nonce *)
  assert (Run : forall (p : list N) (i f : nat),
            Forall byte_ok p -> Z.of_nat (length p + i) = L -> (length p < f)%nat ->
            exists brk i', whileP f c b (false, zs p ++ repeat 0 i, Z.of_nat i) = Some (brk, zs (nonce_inc p) ++ repeat 0 i, i')).
  { intro p. induction p as [|x p IH] using rev_ind; intros i f Hp HL Hf.
    - destruct f as [|f]; [lia|]. rewrite whileP_unroll.
      assert (Ec : c (false, zs [] ++ repeat 0 i, Z.of_nat i) = false).
      { subst c. cbv beta iota. cbn [negb andb]. apply Z.ltb_ge. cbn [length Nat.add] in HL. lia. }
      rewrite Ec. exists false, (Z.of_nat i). reflexivity.
    - destruct f as [|f]; [lia|]. rewrite whileP_unroll.
      apply Forall_app in Hp. destruct Hp as [Hp Hx]. inversion Hx as [|? ? Hx1 _]; subst. unfold byte_ok in Hx1.
      rewrite app_length in HL, Hf. cbn [length] in HL, Hf.
      assert (Ec : c (false, zs (p ++ [x]) ++ repeat 0 i, Z.of_nat i) = true).
      { subst c. cbv beta iota. cbn [negb andb]. apply Z.ltb_lt. lia. }
      rewrite Ec.
      (* one iteration *)
      assert (Eb : b (false, zs (p ++ [x]) ++ repeat 0 i, Z.of_nat i) =
                   if ((x + 1) mod 256 =? 0)%N
                   then Some (false, zs p ++ repeat 0 (S i), Z.of_nat (S i))
                   else Some (true, zs (p ++ [((x + 1) mod 256)%N]) ++ repeat 0 i, Z.of_nat i)).
      { subst b. cbv beta iota zeta.
        assert (El : go_len (zs (p ++ [x]) ++ repeat 0 i) = L).
        { unfold go_len. rewrite app_length, zs_len, app_length, repeat_length. cbn [length]. exact HL. }
        rewrite El.
        assert (Ej : go_sub (I 64) (go_sub (I 64) L 1) (Z.of_nat i) = Z.of_nat (length (zs p))).
        { rewrite zs_len. rewrite (go_sub_I64 L 1) by (rewrite P63; lia). rewrite go_sub_I64 by (rewrite P63; lia). lia. }
        rewrite Ej.
        assert (Eg : (0 <=? Z.of_nat (length (zs p))) && (Z.of_nat (length (zs p)) <? L) = true).
        { apply andb_true_iff. split; [apply Z.leb_le | apply Z.ltb_lt]; rewrite ?zs_len; lia. }
        rewrite Eg. cbn [andb].
        rewrite zs_app, <- app_assoc. cbn [zs map app].
        rewrite go_nth_mid, go_upd_mid, go_add_U8_byte by exact Hx1.
        assert (El2 : go_len (zs p ++ Z.of_N ((x + 1) mod 256) :: repeat 0 i) = L).
        { unfold go_len. rewrite app_length, zs_len. cbn [length]. rewrite repeat_length. lia. }
        rewrite El2, Eg, go_nth_mid, eqb_of_N_0, if_negb.
        destruct ((x + 1) mod 256 =? 0)%N eqn:Ez.
        - apply N.eqb_eq in Ez. rewrite Ez.
          rewrite go_add_I64 by (rewrite P63; lia).
          replace (Z.of_nat i + 1) with (Z.of_nat (S i)) by lia. reflexivity.
        - rewrite zs_app, <- app_assoc. reflexivity. }
      rewrite Eb, nonce_inc_snoc.
      destruct ((x + 1) mod 256 =? 0)%N.
      + destruct (IH (S i) f Hp ltac:(lia) ltac:(lia)) as (brk & i' & Hw).
        exists brk, i'. rewrite Hw. rewrite zs_app, <- app_assoc. reflexivity.
      + destruct f as [|f]; [lia|]. rewrite whileP_unroll.
        assert (Ec2 : c (true, zs (p ++ [((x + 1) mod 256)%N]) ++ repeat 0 i, Z.of_nat i) = false) by reflexivity.
        rewrite Ec2. exists true, (Z.of_nat i). reflexivity. }
  destruct (Run n 0%nat (S (Z.to_nat L)) Hok) as (brk & i' & Hw).
  - lia.
  - rewrite HLn, Nat2Z.id. lia.
  - cbn [repeat] in Hw. rewrite !app_nil_r in Hw. change (Z.of_nat 0) with 0 in Hw. rewrite Hw. reflexivity.
Qed.

(* the panics of the source *)
Theorem xl_increaseNonce_panics (n : list Z) :
  xl_cipher_increaseNonce false n = None /\ xl_cipher_increaseNonce true [] = None.
Proof. split; reflexivity. Qed.

(* C09's nonce progression over the translated function: k calls of the source's increaseNonce on a 24-byte nonce *)
Fixpoint xl_nonce_iter (k : nat) (n : list Z) : option (list Z) :=
  match k with
  | O => Some n
  | S k' => match xl_nonce_iter k' n with None => None | Some m => xl_cipher_increaseNonce true m end
  end.

Lemma xl_nonce_iter_eq_model k n : N.of_nat (length n) = NonceSize -> Forall byte_ok n ->
  xl_nonce_iter k (zs n) = Some (zs (nonce_iter k n)).
Proof.
  intros Hl Hok. induction k as [|k IH]; [reflexivity|]. cbn [xl_nonce_iter nonce_iter]. rewrite IH.
  pose proof (nonce_iter_length k n) as Hlen. pose proof (nonce_iter_ok k n Hok) as Hok'.
  assert (E24 : length n = 24%nat) by (unfold NonceSize, C09_NonceSize in Hl; lia).
  apply xl_increaseNonce_eq_model; [ | exact Hok' | rewrite Hlen, E24; reflexivity].
  intro E. rewrite E in Hlen. cbn in Hlen. lia.
Qed.

Lemma zs_inj a b : zs a = zs b -> a = b.
Proof.
  revert b. induction a as [|x a IH]; intros [|y b] H; try discriminate; [reflexivity|].
  cbn in H. inversion H as [[Hx Ht]]. f_equal; [lia | apply IH; exact Ht].
Qed.

Theorem xl_nonce_progression k n : N.of_nat (length n) = NonceSize -> Forall byte_ok n ->
  exists m, xl_nonce_iter k (zs n) = Some (zs m) /\ be_val m = ((be_val n + N.of_nat k) mod 2 ^ 192)%N.
Proof.
  intros Hl Hok. exists (nonce_iter k n). split; [apply xl_nonce_iter_eq_model; assumption | apply nonce_iter_val; assumption].
Qed.

Theorem xl_nonce_never_repeats j k n : N.of_nat (length n) = NonceSize -> Forall byte_ok n ->
  (j < k)%nat -> (N.of_nat (k - j) < 2 ^ 192)%N ->
  exists a b, xl_nonce_iter j (zs n) = Some a /\ xl_nonce_iter k (zs n) = Some b /\ a <> b.
Proof.
  intros Hl Hok Hjk Hd. exists (zs (nonce_iter j n)), (zs (nonce_iter k n)).
  repeat split; try (apply xl_nonce_iter_eq_model; assumption).
  intro E. apply zs_inj in E. exact (nonce_iter_distinct j k n Hl Hok Hjk Hd E).
Qed.

Example ex_xl_nonce :
  xl_cipher_increaseNonce true [0; 1; 255; 255] = Some [0; 2; 0; 0] /\
  xl_cipher_increaseNonce true [255; 255] = Some [0; 0] /\ xl_cipher_increaseNonce true [7] = Some [8].
Proof. repeat split; reflexivity. Qed.
