(* Proofs about base/Bits64.v: PDEP/PEXT laws, the Go loops and the Intel loops equal the
   structural definition, popcount under rotation. *)
From Coq Require Import NArith PArith Bool Lia.
From M Require Import base.Bits64.
Open Scope N_scope.

(* ---------- bit blasting over N ---------- *)
Ltac bb_core :=
  repeat (rewrite N.land_spec || rewrite N.lor_spec || rewrite N.lxor_spec || rewrite N.bits_0);
  repeat match goal with |- context [N.testbit ?a ?i] => destruct (N.testbit a i) end;
  simpl; intros; congruence.
Ltac bb_hyp H i := generalize (f_equal (fun z => N.testbit z i) H); cbv beta.
Tactic Notation "bitblast" := apply N.bits_inj; (let i := fresh "i" in intro i; bb_core).
Tactic Notation "bitblast" "using" constr(H1) :=
  apply N.bits_inj; (let i := fresh "i" in intro i; bb_hyp H1 i; bb_core).
Tactic Notation "bitblast" "using" constr(H1) constr(H2) :=
  apply N.bits_inj; (let i := fresh "i" in intro i; bb_hyp H1 i; bb_hyp H2 i; bb_core).
Tactic Notation "bitblast" "using" constr(H1) constr(H2) constr(H3) :=
  apply N.bits_inj; (let i := fresh "i" in intro i; bb_hyp H1 i; bb_hyp H2 i; bb_hyp H3 i; bb_core).
Tactic Notation "bitblast" "using" constr(H1) constr(H2) constr(H3) constr(H4) :=
  apply N.bits_inj; (let i := fresh "i" in intro i; bb_hyp H1 i; bb_hyp H2 i; bb_hyp H3 i; bb_hyp H4 i; bb_core).

(* ---------- bcons ---------- *)
Lemma bcons_spec b a : bcons b a = 2 * a + N.b2n b.
Proof. destruct b; unfold bcons; [rewrite N.succ_double_spec | rewrite N.double_spec]; simpl N.b2n; lia. Qed.
Lemma bcons_odd b a : N.odd (bcons b a) = b.
Proof. destruct b, a; reflexivity. Qed.
Lemma bcons_div2 b a : N.div2 (bcons b a) = a.
Proof. destruct b, a; reflexivity. Qed.
Lemma bcons_decomp x : x = bcons (N.odd x) (N.div2 x).
Proof. destruct x as [|[p|p|]]; reflexivity. Qed.
Lemma bcons_inj b a b' a' : bcons b a = bcons b' a' -> b = b' /\ a = a'.
Proof.
  intro H. split.
  - rewrite <- (bcons_odd b a), H. apply bcons_odd.
  - rewrite <- (bcons_div2 b a), H. apply bcons_div2.
Qed.
Lemma double_bcons a : N.double a = bcons false a.
Proof. reflexivity. Qed.

Lemma land_bcons p a q b : N.land (bcons p a) (bcons q b) = bcons (p && q) (N.land a b).
Proof.
  destruct p, q, a as [|a], b as [|b]; try reflexivity; simpl; destruct (Pos.land a b); reflexivity.
Qed.
Lemma lor_bcons p a q b : N.lor (bcons p a) (bcons q b) = bcons (p || q) (N.lor a b).
Proof. destruct p, q, a as [|a], b as [|b]; reflexivity. Qed.
Lemma odd_land x y : N.odd (N.land x y) = N.odd x && N.odd y.
Proof. rewrite (bcons_decomp x) at 1. rewrite (bcons_decomp y) at 1. rewrite land_bcons. apply bcons_odd. Qed.
Lemma div2_land x y : N.div2 (N.land x y) = N.land (N.div2 x) (N.div2 y).
Proof. rewrite (bcons_decomp x) at 1. rewrite (bcons_decomp y) at 1. rewrite land_bcons. apply bcons_div2. Qed.
Lemma odd_lor x y : N.odd (N.lor x y) = N.odd x || N.odd y.
Proof. rewrite (bcons_decomp x) at 1. rewrite (bcons_decomp y) at 1. rewrite lor_bcons. apply bcons_odd. Qed.
Lemma div2_lor x y : N.div2 (N.lor x y) = N.lor (N.div2 x) (N.div2 y).
Proof. rewrite (bcons_decomp x) at 1. rewrite (bcons_decomp y) at 1. rewrite lor_bcons. apply bcons_div2. Qed.

Lemma mod_pow2_succ x k : x mod 2 ^ (1 + k) = bcons (N.odd x) (N.div2 x mod 2 ^ k).
Proof.
  rewrite N.pow_add_r, N.pow_1_r.
  rewrite N.mod_mul_r by (try apply N.pow_nonzero; lia).
  rewrite bcons_spec, N.div2_div, <- N.bit0_mod, N.bit0_odd. lia.
Qed.

Lemma popcount_bcons b a : popcount (bcons b a) = N.b2n b + popcount a.
Proof. destruct b, a; reflexivity. Qed.

(* ---------- PDEP / PEXT laws ---------- *)
Lemma pextP_pdepP m : forall x, pextP (pdepP x m) m = x mod 2 ^ popP m.
Proof.
  induction m as [m IH|m IH|]; intro x; cbn [pextP pdepP popP].
  - rewrite bcons_odd, bcons_div2, IH, mod_pow2_succ. reflexivity.
  - rewrite N.div2_double. apply IH.
  - rewrite bcons_odd. change (2 ^ 1) with (2 ^ (1 + 0)). rewrite mod_pow2_succ.
    rewrite N.pow_0_r, N.mod_1_r. reflexivity.
Qed.

Theorem pext_pdep x m : pext (pdep x m) m = x mod 2 ^ popcount m.
Proof.
  destruct m as [|m]; cbn [pext pdep popcount].
  - rewrite N.pow_0_r, N.mod_1_r. reflexivity.
  - apply pextP_pdepP.
Qed.

Lemma land_decomp_r x q b : N.land x (bcons q b) = bcons (N.odd x && q) (N.land (N.div2 x) b).
Proof.
  transitivity (N.land (bcons (N.odd x) (N.div2 x)) (bcons q b)); [f_equal; apply bcons_decomp | apply land_bcons].
Qed.

Lemma pdepP_pextP m : forall x, pdepP (pextP x m) m = N.land x (Npos m).
Proof.
  induction m as [m IH|m IH|]; intro x; cbn [pextP pdepP].
  - rewrite bcons_odd, bcons_div2, IH.
    change (Npos m~1) with (bcons true (Npos m)).
    rewrite land_decomp_r, andb_true_r. reflexivity.
  - rewrite IH. change (Npos m~0) with (bcons false (Npos m)).
    rewrite land_decomp_r, andb_false_r. reflexivity.
  - rewrite bcons_odd. replace (N.land x 1) with (N.land x (bcons true 0)) by reflexivity.
    rewrite land_decomp_r, andb_true_r, N.land_0_r. reflexivity.
Qed.

Theorem pdep_pext x m : pdep (pext x m) m = N.land x m.
Proof.
  destruct m as [|m]; cbn [pext pdep].
  - rewrite N.land_0_r. reflexivity.
  - apply pdepP_pextP.
Qed.

Lemma pdepP_land m : forall x y, pdepP (N.land x y) m = N.land (pdepP x m) (pdepP y m).
Proof.
  induction m as [m IH|m IH|]; intros x y; cbn [pdepP].
  - rewrite land_bcons, odd_land, div2_land, IH. reflexivity.
  - rewrite IH. change N.double with (bcons false). rewrite land_bcons. reflexivity.
  - rewrite land_bcons, odd_land. reflexivity.
Qed.
Lemma pdep_land x y m : pdep (N.land x y) m = N.land (pdep x m) (pdep y m).
Proof. destruct m; cbn [pdep]; [reflexivity | apply pdepP_land]. Qed.

Lemma pextP_lor m : forall x y, pextP (N.lor x y) m = N.lor (pextP x m) (pextP y m).
Proof.
  induction m as [m IH|m IH|]; intros x y; cbn [pextP].
  - rewrite lor_bcons, odd_lor, div2_lor, IH. reflexivity.
  - rewrite div2_lor, IH. reflexivity.
  - rewrite lor_bcons, odd_lor. reflexivity.
Qed.
Lemma pext_lor x y m : pext (N.lor x y) m = N.lor (pext x m) (pext y m).
Proof. destruct m; cbn [pext]; [reflexivity | apply pextP_lor]. Qed.

Lemma pdepP_sub_mask m : forall x, N.land (pdepP x m) (Npos m) = pdepP x m.
Proof.
  induction m as [m IH|m IH|]; intro x; cbn [pdepP].
  - change (Npos m~1) with (bcons true (Npos m)). rewrite land_bcons, IH, andb_true_r. reflexivity.
  - change (Npos m~0) with (bcons false (Npos m)). change N.double with (bcons false). rewrite land_bcons, IH. reflexivity.
  - replace (N.land (bcons (N.odd x) 0) 1) with (N.land (bcons (N.odd x) 0) (bcons true 0)) by reflexivity.
    rewrite land_bcons, andb_true_r. reflexivity.
Qed.
Lemma pdep_sub_mask x m : N.land (pdep x m) m = pdep x m.
Proof. destruct m; cbn [pdep]; [reflexivity | apply pdepP_sub_mask]. Qed.

Lemma pext_0 m : pext 0 m = 0.
Proof.
  destruct m as [|m]; [reflexivity|]. cbn [pext].
  induction m as [m IH|m IH|]; cbn [pextP]; change (N.div2 0) with 0; change (N.odd 0) with false; rewrite ?IH; reflexivity.
Qed.
Lemma pdep_0 m : pdep 0 m = 0.
Proof.
  destruct m as [|m]; [reflexivity|]. cbn [pdep].
  induction m as [m IH|m IH|]; cbn [pdepP]; change (N.div2 0) with 0; change (N.odd 0) with false; rewrite ?IH; reflexivity.
Qed.

(* pdep is injective on sources below 2^popcount *)
Lemma pdep_inj_low x y m : x < 2 ^ popcount m -> y < 2 ^ popcount m -> pdep x m = pdep y m -> x = y.
Proof.
  intros Hx Hy H. apply (f_equal (fun z => pext z m)) in H.
  rewrite !pext_pdep, !N.mod_small in H; assumption.
Qed.

(* ---------- 64-bit words ---------- *)
Definition fits64 (a : N) : Prop := N.land a ones64 = a.
Lemma W64_nz : W64 <> 0. Proof. discriminate. Qed.
Lemma fits64_lt a : a < W64 <-> fits64 a.
Proof.
  unfold fits64, ones64, W64. rewrite N.land_ones. split; intro H.
  - apply N.mod_small; assumption.
  - rewrite <- H. apply N.mod_lt. discriminate.
Qed.
Lemma fits64_lor a b : fits64 a -> fits64 b -> fits64 (N.lor a b).
Proof. unfold fits64; intros Ha Hb. bitblast using Ha Hb. Qed.
Lemma fits64_land_l a b : fits64 a -> fits64 (N.land a b).
Proof. unfold fits64; intros Ha. bitblast using Ha. Qed.
Lemma fits64_sub a b : N.land a b = a -> fits64 b -> fits64 a.
Proof. unfold fits64; intros Ha Hb. bitblast using Ha Hb. Qed.
Lemma fits64_ones : fits64 ones64.
Proof. unfold fits64. apply N.land_diag. Qed.
Lemma fits64_not64 a : fits64 a -> fits64 (not64 a).
Proof. unfold fits64, not64. intro Ha. bitblast using Ha. Qed.
Lemma fits64_pdep x m : fits64 m -> fits64 (pdep x m).
Proof. intro H. eapply fits64_sub; [apply pdep_sub_mask | exact H]. Qed.

(* ---------- popcount ---------- *)
Lemma popcount_decomp b : popcount b = N.b2n (N.odd b) + popcount (N.div2 b).
Proof. rewrite (bcons_decomp b) at 1. apply popcount_bcons. Qed.

Lemma popcount_split (n : nat) : forall a b, b < 2 ^ N.of_nat n ->
  popcount (a * 2 ^ N.of_nat n + b) = popcount a + popcount b.
Proof.
  induction n as [|n IH]; intros a b Hb.
  - change (2 ^ N.of_nat 0) with 1 in *. assert (b = 0) by lia. subst b.
    rewrite N.mul_1_r, N.add_0_r. change (popcount 0) with 0. lia.
  - rewrite Nat2N.inj_succ, N.pow_succ_r' in *.
    assert (Hd : N.div2 b < 2 ^ N.of_nat n).
    { rewrite N.div2_div. apply N.div_lt_upper_bound; lia. }
    replace (a * (2 * 2 ^ N.of_nat n) + b) with (bcons (N.odd b) (a * 2 ^ N.of_nat n + N.div2 b)).
    + rewrite popcount_bcons, IH by exact Hd. rewrite (popcount_decomp b). lia.
    + rewrite bcons_spec. rewrite (bcons_decomp b) at 3. rewrite bcons_spec. lia.
Qed.

Lemma popcount_splitN n a b : b < 2 ^ n -> popcount (a * 2 ^ n + b) = popcount a + popcount b.
Proof. rewrite <- (N2Nat.id n). apply popcount_split. Qed.

Lemma pow2_split s : s <= 64 -> 2 ^ (64 - s) * 2 ^ s = W64.
Proof. intro H. rewrite <- N.pow_add_r. unfold W64. f_equal. lia. Qed.

Lemma rotl64_lt x s : s <= 64 -> x < W64 -> rotl64 x s < W64.
Proof.
  intros Hs Hx. unfold rotl64. pose proof (pow2_split s Hs) as E.
  assert (P1 : 2 ^ (64 - s) <> 0) by (apply N.pow_nonzero; lia).
  assert (P2 : 2 ^ s <> 0) by (apply N.pow_nonzero; lia).
  pose proof (N.mod_lt x _ P1) as Hlo.
  assert (Hhi : x / 2 ^ (64 - s) < 2 ^ s).
  { apply N.div_lt_upper_bound; [exact P1 | rewrite E; exact Hx]. }
  nia.
Qed.

Lemma popcount_rotl64 x s : s <= 64 -> x < W64 -> popcount (rotl64 x s) = popcount x.
Proof.
  intros Hs Hx. unfold rotl64. pose proof (pow2_split s Hs) as E.
  assert (P1 : 2 ^ (64 - s) <> 0) by (apply N.pow_nonzero; lia).
  pose proof (N.mod_lt x _ P1) as Hlo.
  assert (Hhi : x / 2 ^ (64 - s) < 2 ^ s).
  { apply N.div_lt_upper_bound; [exact P1 | rewrite E; exact Hx]. }
  rewrite popcount_splitN by exact Hhi.
  rewrite (N.div_mod x (2 ^ (64 - s)) P1) at 3.
  rewrite (N.mul_comm (2 ^ (64 - s))).
  rewrite popcount_splitN by exact Hlo. lia.
Qed.

Lemma repeat32_lt v : v < 2 ^ 32 -> repeat32 v < W64.
Proof. unfold repeat32, W64. change (2 ^ 64) with (2 ^ 32 * 2 ^ 32). nia. Qed.
Lemma popcount_repeat32 v : v < 2 ^ 32 -> popcount (repeat32 v) = 2 * popcount v.
Proof.
  intro H. unfold repeat32. rewrite popcount_splitN by exact H. lia.
Qed.
Lemma popcount_ones64 : popcount ones64 = 64.
Proof. reflexivity. Qed.
