(* The protocol type predicates of pkg/protocol/metadata.go as the source says them NOW (gen/Translated.v) equal the
   predicates of model/Wire.v (C09; protocolType is a uint8, carried as N in the model and as Z in the translation),
   and through them the copies of the same predicates in model/Dispatch.v (C10). *)
From Coq Require Import ZArith NArith Bool Lia ZifyN ZifyBool.
From M Require Import gen.Consts base.MiniGo gen.Translated model.Wire proofs.MiniGoProofs.
Open Scope Z_scope.

Lemma eqb_of_N_const p c : 0 <= c -> (Z.of_N p =? c) = (p =? Z.to_N c)%N.
Proof. intro Hc. rewrite <- (Z2N.id c) at 1 by exact Hc. apply eqb_of_N. Qed.

Local Ltac protos :=
  unfold T_openSessionRequest, T_openSessionResponse, T_closeSessionRequest, T_closeSessionResponse,
    T_dataClientToServer, T_dataServerToClient, T_ackClientToServer, T_ackServerToClient,
    T_dataClientToServerLE, T_dataServerToClientLE,
    C09_ProtoOpenSessionRequest, C09_ProtoOpenSessionResponse, C09_ProtoCloseSessionRequest, C09_ProtoCloseSessionResponse,
    C09_ProtoDataClientToServer, C09_ProtoDataServerToClient, C09_ProtoAckClientToServer, C09_ProtoAckServerToClient,
    C09_ProtoDataClientToServerLE, C09_ProtoDataServerToClientLE.

Theorem xl_isSessionProtocol_eq_model (p : N) : xl_protocol_isSessionProtocol (Z.of_N p) = is_session p.
Proof. unfold xl_protocol_isSessionProtocol, is_session. rewrite !eqb_of_N_const by lia. protos. reflexivity. Qed.

Theorem xl_isLowEntropyProtocol_eq_wire (p : N) : xl_protocol_isLowEntropyProtocol (Z.of_N p) = is_low_entropy p.
Proof. unfold xl_protocol_isLowEntropyProtocol, is_low_entropy. rewrite !eqb_of_N_const by lia. protos. reflexivity. Qed.

Theorem xl_isDataProtocol_eq_model (p : N) : xl_protocol_isDataProtocol (Z.of_N p) = is_data p.
Proof.
  unfold xl_protocol_isDataProtocol, is_data. rewrite xl_isLowEntropyProtocol_eq_wire, !eqb_of_N_const by lia.
  protos. reflexivity.
Qed.

Theorem xl_isAckProtocol_eq_model (p : N) : xl_protocol_isAckProtocol (Z.of_N p) = is_ack p.
Proof. unfold xl_protocol_isAckProtocol, is_ack. rewrite !eqb_of_N_const by lia. protos. reflexivity. Qed.

Theorem xl_isDataAckProtocol_eq_model (p : N) : xl_protocol_isDataAckProtocol (Z.of_N p) = is_data_ack p.
Proof.
  unfold xl_protocol_isDataAckProtocol, is_data_ack.
  rewrite xl_isDataProtocol_eq_model, xl_isAckProtocol_eq_model. reflexivity.
Qed.

(* all five at once, as C09 states it *)
Theorem xl_protocol_predicates_eq_model (p : N) :
  xl_protocol_isSessionProtocol (Z.of_N p) = is_session p /\
  xl_protocol_isDataProtocol (Z.of_N p) = is_data p /\
  xl_protocol_isAckProtocol (Z.of_N p) = is_ack p /\
  xl_protocol_isDataAckProtocol (Z.of_N p) = is_data_ack p /\
  xl_protocol_isLowEntropyProtocol (Z.of_N p) = is_low_entropy p.
Proof.
  repeat split; [apply xl_isSessionProtocol_eq_model | apply xl_isDataProtocol_eq_model | apply xl_isAckProtocol_eq_model
                | apply xl_isDataAckProtocol_eq_model | apply xl_isLowEntropyProtocol_eq_wire].
Qed.

Example ex_xl_predicates :
  xl_protocol_isSessionProtocol 2 = true /\ xl_protocol_isSessionProtocol 6 = false /\
  xl_protocol_isDataAckProtocol 9 = true /\ xl_protocol_isDataAckProtocol 12 = false /\ xl_protocol_isLowEntropyProtocol 11 = true.
Proof. repeat split; reflexivity. Qed.
