(* C05 x C07: the server's front door (model/ServerFront.v) composed with user discovery (model/Discover.v).
   ServerFront is parameterised by [cands h src], "the keys discovery tries for this header", and the C05
   theorems carried the premise H1 [cands_registered] (discovery only tries registered keys).  Here the
   parameters are INSTANTIATED with the discovery model of C07:
     key            := the id (N, dense from 1) of a user in the published generation [users : list U]
     open_hdr i h   := open_k (key_of u) h  for the user u with id i (None for an unregistered id)
     auth h u       := "u's key opens h",  hint h u := CheckUserFromHint(u.name, nonce of h) - any function
     cands h src    := the user that try_state attributes the segment to (registry.go tryState: cached hint
                       matches, registry hint matches, cached fallback, registry fallback; [cached src] is
                       whatever the source-address cache returns, [mandatory] the hint-mandatory switch)
   so that tcp_front / udp_front run "Discover, then decrypt with the winning user's cipher".  H1 becomes a
   lemma (from C07's attr_sound / attr_tried_registered), the silent-server theorems keep INT-CTXT as their
   only cryptographic premise, and the user a created session is attributed to is characterised by C07. *)
From Coq Require Import List NArith ZArith Bool Lia.
From M Require Import gen.Consts model.Discover proofs.DiscoverProofs model.ServerFront proofs.ServerFrontProofs.
Import ListNotations.
Open Scope Z_scope.

(* ---------- two more generic facts about tcp_front (any instantiation) ---------- *)
Section Generic.
  Variable key : Type.
  Variable open_hdr : key -> bytes -> option bytes.
  Variable open_body_tcp : key -> bytes -> bytes -> option bytes.
  Variable le_ok : bytes -> bool.
  Variable le_decode : bytes -> bytes -> option bytes.
  Variable cands : bytes -> addr -> list key.
  Variable sig_of : bytes -> N.
  Variable rcache : Type.
  Variable rc_dup : rcache -> N -> addr -> Z -> bool * rcache.
  Notation tcpF := (tcp_front key open_hdr open_body_tcp le_ok le_decode cands sig_of rcache rc_dup).

  (* the receive cipher is the one discovery returned for the first 72 bytes *)
  Lemma tcp_recv_from_discovery rc src input now k :
    t_recv (fst (tcpF rc src input now)) = Some k ->
    exists m, first_open key open_hdr (cands (firstn hdr_len input) src) (firstn hdr_len input) = Some (k, m).
  Proof.
    unfold tcp_front. destruct (take hdr_len input) as [[hdr rest]|] eqn:T; [|discriminate].
    apply take_some in T. destruct T as [-> [-> _]].
    destruct (rc_dup rc _ [] now) as [dup rc'].
    destruct (first_open _ _ _ _) as [[k0 m]|] eqn:F; [|simpl; destruct dup; discriminate].
    assert (G : forall r : tcp_result key * rcache, t_recv (fst r) = Some k0 -> t_recv (fst r) = Some k ->
               exists m', Some (k0, m) = Some (k, m')).
    { intros r A B. rewrite A in B. inversion B; subst. eauto. }
    destruct dup; [apply G; reflexivity|].
    destruct (parse_meta le_ok now m) as [p sid plen slen|p sid un pre plen slen|]; [| |apply G; reflexivity].
    - destruct (tcp_read_session _ _ _ _ _ _ _); [apply G; reflexivity|].
      destruct (negb _); [apply G; reflexivity|]. destruct (sid =? 0); apply G; reflexivity.
    - destruct (tcp_read_data _ _ _ _ _ _ _ _ _ _ _); apply G; reflexivity.
  Qed.

  (* a created session comes with a receive cipher *)
  Lemma tcp_created_has_recv rc src input now :
    t_created (fst (tcpF rc src input now)) <> [] ->
    exists k, t_recv (fst (tcpF rc src input now)) = Some k.
  Proof.
    unfold tcp_front. destruct (take hdr_len input) as [[hdr rest]|]; [|simpl; congruence].
    destruct (rc_dup rc _ [] now) as [dup rc'].
    destruct (first_open _ _ _ _) as [[k m]|]; [|simpl; destruct dup; simpl; congruence].
    destruct dup; [simpl; congruence|].
    destruct (parse_meta le_ok now m) as [p sid plen slen|p sid un pre plen slen|]; [| |simpl; congruence].
    - destruct (tcp_read_session _ _ _ _ _ _ _); [simpl; congruence|].
      destruct (negb _); [simpl; congruence|]. destruct (sid =? 0); simpl; [congruence|]. eauto.
    - destruct (tcp_read_data _ _ _ _ _ _ _ _ _ _ _); simpl; congruence.
  Qed.
End Generic.

(* ---------- the instantiation ---------- *)

(* user id -> cipher operation of that user (nothing for an id that is not registered) *)
Definition by_id {U K A} (users : list U) (key_of : U -> K) (f : K -> A) (dflt : A) (i : N) : A :=
  match user_by_id U users i with Some u => f (key_of u) | None => dflt end.

Definition d_open {U K} (users : list U) (key_of : U -> K) (open_k : K -> bytes -> option bytes) (i : N) (h : bytes) : option bytes :=
  by_id users key_of (fun k => open_k k h) None i.
Definition d_body {U K} (users : list U) (key_of : U -> K) (body : K -> bytes -> bytes -> option bytes) (i : N) (h box : bytes) : option bytes :=
  by_id users key_of (fun k => body k h box) None i.

(* "u's credential opens the header" *)
Definition d_auth {U K} (key_of : U -> K) (open_k : K -> bytes -> option bytes) (h : bytes) (u : U) : bool :=
  match open_k (key_of u) h with Some _ => true | None => false end.

(* tryState on this header and source *)
Definition d_try {U K} (users : list U) (key_of : U -> K) (open_k : K -> bytes -> option bytes)
           (hint : bytes -> U -> bool) (cached : addr -> list N) (mandatory : bool) (h : bytes) (src : addr) : result U :=
  try_state U (hint h) (d_auth key_of open_k h) users (cached src) mandatory.

(* the candidate list handed to ServerFront: the user discovery attributes the header to *)
Definition d_cands {U K} (users : list U) (key_of : U -> K) (open_k : K -> bytes -> option bytes)
           (hint : bytes -> U -> bool) (cached : addr -> list N) (mandatory : bool) (h : bytes) (src : addr) : list N :=
  match r_hit (d_try users key_of open_k hint cached mandatory h src) with
  | Some (i, _, _) => [i]
  | None => []
  end.

(* ids of the registered users: 1 .. length users *)
Definition reg_ids {U} (users : list U) : list N := map fst (index_from U 1%N users).

(* the front door running on discovery *)
Definition tcp_front_d {U K} (users : list U) (key_of : U -> K) (open_k : K -> bytes -> option bytes)
           (body_tcp : K -> bytes -> bytes -> option bytes) (hint : bytes -> U -> bool) (cached : addr -> list N) (mandatory : bool)
           (le_ok : bytes -> bool) (le_decode : bytes -> bytes -> option bytes) (sig_of : bytes -> N)
           (rcache : Type) (rc_dup : rcache -> N -> addr -> Z -> bool * rcache) :=
  tcp_front N (d_open users key_of open_k) (d_body users key_of body_tcp) le_ok le_decode
            (d_cands users key_of open_k hint cached mandatory) sig_of rcache rc_dup.

Definition udp_run_d {U K} (users : list U) (key_of : U -> K) (open_k : K -> bytes -> option bytes)
           (body_udp : K -> bytes -> bytes -> option bytes) (hint : bytes -> U -> bool) (cached : addr -> list N) (mandatory : bool)
           (le_ok : bytes -> bool) (le_decode : bytes -> bytes -> option bytes) (sig_of : bytes -> N)
           (rcache : Type) (rc_dup : rcache -> N -> addr -> Z -> bool * rcache) :=
  udp_run N (fun i => i) (d_open users key_of open_k) (d_body users key_of body_udp) le_ok le_decode
          (d_cands users key_of open_k hint cached mandatory) sig_of rcache rc_dup.

(* the definitions above, unfolded once (for the reader of props/C05.v) *)
Lemma d_cands_unfold {U K} (users : list U) (key_of : U -> K) (open_k : K -> bytes -> option bytes)
      (hint : bytes -> U -> bool) (cached : addr -> list N) (mandatory : bool) (h : bytes) (src : addr) :
  d_cands users key_of open_k hint cached mandatory h src =
  match r_hit (try_state U (hint h) (fun u => match open_k (key_of u) h with Some _ => true | None => false end)
                         users (cached src) mandatory) with
  | Some (i, _, _) => [i]
  | None => []
  end.
Proof. reflexivity. Qed.

Lemma d_open_unfold {U K} (users : list U) (key_of : U -> K) (open_k : K -> bytes -> option bytes) (i : N) (h : bytes) :
  d_open users key_of open_k i h = match user_by_id U users i with Some u => open_k (key_of u) h | None => None end.
Proof. reflexivity. Qed.

Section DiscoverInst.
  Variables U K : Type.
  Variable users : list U.
  Variable key_of : U -> K.
  Variable open_k : K -> bytes -> option bytes.
  Variable body_tcp body_udp : K -> bytes -> bytes -> option bytes.
  Variable hint : bytes -> U -> bool.
  Variable cached : addr -> list N.
  Variable mandatory : bool.
  Variable le_ok : bytes -> bool.
  Variable le_decode : bytes -> bytes -> option bytes.
  Variable sig_of : bytes -> N.
  Variable rcache : Type.
  Variable rc_dup : rcache -> N -> addr -> Z -> bool * rcache.

  Notation dtry := (d_try users key_of open_k hint cached mandatory).
  Notation dcands := (d_cands users key_of open_k hint cached mandatory).
  Notation dopen := (d_open users key_of open_k).
  Notation tcpD := (tcp_front_d users key_of open_k body_tcp hint cached mandatory le_ok le_decode sig_of rcache rc_dup).
  Notation udpD := (udp_run_d users key_of open_k body_udp hint cached mandatory le_ok le_decode sig_of rcache rc_dup).

  Lemma registered_id_in (i : N) (u : U) : user_by_id U users i = Some u -> In i (reg_ids users).
  Proof.
    intros H. apply (index_ubi U (fun _ => true) (fun _ => true)) in H.
    unfold reg_ids. change i with (fst (i, u)). apply in_map. exact H.
  Qed.

  Lemma reg_id_user (i : N) : In i (reg_ids users) -> exists u, user_by_id U users i = Some u /\ In u users.
  Proof.
    unfold reg_ids. intros H. apply in_map_iff in H. destruct H as [[j u] [E I]]. simpl in E. subst j.
    apply (index_ubi U (fun _ => true) (fun _ => true)) in I. exists u. split; [exact I|].
    exact (ubi_in U (fun _ => true) (fun _ => true) users i u I).
  Qed.

  (* (a) H1 is a lemma: whatever discovery hands to the front door is the id of a registered user ... *)
  Lemma d_cands_registered (h : bytes) (src : addr) (i : N) : In i (dcands h src) -> In i (reg_ids users).
  Proof.
    unfold d_cands. destruct (r_hit (dtry h src)) as [[[j u] o]|] eqn:E; [|intros []].
    intros [<-|[]]. apply attr_sound in E. destruct E as [E _]. exact (registered_id_in j u E).
  Qed.

  (* ... and so is every user that tryState TRIES on the way (C07_attr_tried_registered) *)
  Lemma d_tried_registered (h : bytes) (src : addr) (i : N) : In i (r_tried (dtry h src)) -> In i (reg_ids users).
  Proof. intros H. apply attr_tried_registered in H. destruct H as [u H]. exact (registered_id_in i u H). Qed.

  (* INT-CTXT, stated about the users' real keys *)
  Variable produced : bytes -> Prop.
  Hypothesis int_ctxt : forall h, ~ produced h -> forall u, In u users -> open_k (key_of u) h = None.

  Lemma d_open_forged_none (h : bytes) : ~ produced h -> forall i, In i (reg_ids users) -> dopen i h = None.
  Proof.
    intros NP i Hi. destruct (reg_id_user i Hi) as [u [E I]].
    unfold d_open, by_id. rewrite E. exact (int_ctxt h NP u I).
  Qed.

  (* (b) silent server, TCP: only INT-CTXT left *)
  Lemma c05_silent_tcp_discover (rc : rcache) (src : addr) (input : bytes) (now : Z) :
    ~ produced (firstn hdr_len input) ->
    let r := fst (tcpD rc src input now) in
    (t_out r = [] /\ t_created r = [] /\ t_app r = [] /\ t_recv r = None /\ send_cipher N (t_recv r) = None) /\
    (t_verdict r = V_blocked \/ t_verdict r = V_crypto \/ t_verdict r = V_replay).
  Proof.
    intros NP.
    exact (c05_silent_tcp N dopen (d_body users key_of body_tcp) le_ok le_decode dcands sig_of rcache rc_dup
             (reg_ids users) produced d_cands_registered d_open_forged_none rc src input now NP).
  Qed.

  (* (b) silent server, UDP histories *)
  Lemma c05_silent_udp_discover (probe : event -> bool) (evs : list event) (st : ustate N rcache) :
    (forall s, In s (u_sessions st) -> In (us_key s) (reg_ids users)) ->
    (forall e, In e evs -> probe e = true ->
       match e with Dgram d src now => ~ produced (firstn hdr_len d) | Clean _ => False end) ->
    forall (e : event) (r : udp_result N),
    In (e, r) (fst (udpD st evs)) -> probe e = true ->
    (u_out r = [] /\ u_created r = [] /\ u_delivered r = []) /\ (u_verdict r = V_short \/ u_verdict r = V_undecryptable).
  Proof.
    intros OK HP.
    exact (c05_silent_udp N (fun i => i) dopen (d_body users key_of body_udp) le_ok le_decode dcands sig_of rcache rc_dup
             (reg_ids users) produced d_cands_registered d_open_forged_none probe evs st OK HP).
  Qed.
End DiscoverInst.

(* (c) attribution: no INT-CTXT needed *)
Section Attribution.
  Variables U K : Type.
  Variable users : list U.
  Variable key_of : U -> K.
  Variable open_k : K -> bytes -> option bytes.
  Variable body_tcp : K -> bytes -> bytes -> option bytes.
  Variable hint : bytes -> U -> bool.
  Variable cached : addr -> list N.
  Variable mandatory : bool.
  Variable le_ok : bytes -> bool.
  Variable le_decode : bytes -> bytes -> option bytes.
  Variable sig_of : bytes -> N.
  Variable rcache : Type.
  Variable rc_dup : rcache -> N -> addr -> Z -> bool * rcache.
  Notation tcpD := (tcp_front_d users key_of open_k body_tcp hint cached mandatory le_ok le_decode sig_of rcache rc_dup).

  (* whenever the step leaves a receive cipher (in particular whenever it creates a session), that cipher belongs to
     the user tryState attributed the header to: a registered user whose key opens the header, hint-matching if
     hints are mandatory, and hint-matching whenever SOME registered hint-matching user's key opens the header *)
  Lemma c05_recv_attribution (rc : rcache) (src : addr) (input : bytes) (now : Z) (i : N) :
    t_recv (fst (tcpD rc src input now)) = Some i ->
    let h := firstn hdr_len input in
    exists u o m,
      r_hit (d_try users key_of open_k hint cached mandatory h src) = Some (i, u, o) /\
      user_by_id U users i = Some u /\ In u users /\
      open_k (key_of u) h = Some m /\
      hint h u = origin_hint o /\
      (mandatory = true -> hint h u = true) /\
      ((exists j v, user_by_id U users j = Some v /\ hint h v = true /\ open_k (key_of v) h <> None) -> hint h u = true).
  Proof.
    intros R h. unfold tcp_front_d in R. apply tcp_recv_from_discovery in R. destruct R as [m F]. fold h in F.
    unfold d_cands in F.
    destruct (r_hit (d_try users key_of open_k hint cached mandatory h src)) as [[[j u] o]|] eqn:E; [|discriminate].
    simpl in F. destruct (d_open users key_of open_k j h) as [m'|] eqn:O; [|discriminate].
    inversion F; subst j m'. clear F.
    pose proof (attr_sound _ _ _ _ _ _ _ _ _ E) as [A1 [A2 [A3 [A4 A5]]]].
    unfold d_open, by_id in O. rewrite A1 in O.
    exists u, o, m. repeat split; auto.
    - intros M. rewrite A4. apply A5. exact M.
    - intros [j [v [V1 [V2 V3]]]].
      destruct (attr_hint_pref U (hint h) (d_auth key_of open_k h) users (cached src) mandatory) as [j' [v' [o' [E' [H1 H2]]]]].
      { exists j, v. repeat split; auto. unfold d_auth. destruct (open_k (key_of v) h); [reflexivity | contradiction]. }
      unfold d_try in E. rewrite E in E'. inversion E'; subst. exact H1.
  Qed.

  Lemma c05_attribution (rc : rcache) (src : addr) (input : bytes) (now : Z) :
    t_created (fst (tcpD rc src input now)) <> [] ->
    let h := firstn hdr_len input in
    exists i u o m,
      t_recv (fst (tcpD rc src input now)) = Some i /\
      r_hit (d_try users key_of open_k hint cached mandatory h src) = Some (i, u, o) /\
      user_by_id U users i = Some u /\ In u users /\
      open_k (key_of u) h = Some m /\
      hint h u = origin_hint o /\
      (mandatory = true -> hint h u = true) /\
      ((exists j v, user_by_id U users j = Some v /\ hint h v = true /\ open_k (key_of v) h <> None) -> hint h u = true).
  Proof.
    intros C h. unfold tcp_front_d in *. destruct (tcp_created_has_recv _ _ _ _ _ _ _ _ _ _ _ _ _ C) as [i R].
    destruct (c05_recv_attribution rc src input now i R) as [u [o [m Q]]].
    exists i, u, o, m. split; [exact R | exact Q].
  Qed.
End Attribution.

(* non-vacuity: a table of two users with toy keys 1 and 2 (the toy cipher of ServerFrontProofs.Toy); the genuine
   first segment sealed under key 1 creates session 7 attributed to user id 1; a flipped header is refused *)
Module ToyD.
  Import Toy.
  Definition tusers : list N := [1%N; 2%N].       (* a user is its own key *)
  Notation ttcpD := (tcp_front_d tusers (fun u => u) topen tbody (fun _ _ => false) (fun _ => []) false
                                 (fun _ => true) (fun _ w => Some w) tsig tcache tdup).
  Example ex_discover_accepts :
    let r := fst (ttcpD [] A first_segment now0) in
    t_created r = [7] /\ t_recv r = Some 1%N /\ t_verdict r = V_session.
  Proof. vm_compute. auto. Qed.
  Example ex_discover_flip_silent :
    let r := fst (ttcpD [] A (flip_bit 100 first_segment) now0) in
    t_created r = [] /\ t_recv r = None /\ t_verdict r = V_crypto.
  Proof. vm_compute. auto. Qed.
  Example ex_int_ctxt_toy : forall h, ~ tproduced h -> forall u, In u tusers -> topen u h = None.
  Proof. exact toy_open_forged_none. Qed.
End ToyD.
