(* Proofs about model/Socks5Auth.v (property C11). *)
From Coq Require Import NArith ZArith List Bool Lia.
From M Require Import gen.Consts model.Socks5Auth.
Import ListNotations.
Open Scope N_scope.

(* ---------- io.ReadFull ---------- *)
Lemma read_full_some : forall n i a b,
  read_full n i = Some (a, b) -> i = a ++ b /\ length a = n.
Proof.
  unfold read_full; intros n i a b H.
  destruct (length i <? n)%nat eqn:E; [discriminate|].
  apply Nat.ltb_ge in E. inversion H; subst; clear H.
  split; [symmetry; apply firstn_skipn | apply firstn_length_le; exact E].
Qed.

Lemma read_full_app : forall a b, read_full (length a) (a ++ b) = Some (a, b).
Proof.
  intros a b. unfold read_full.
  assert (E : (length (a ++ b) <? length a)%nat = false)
    by (apply Nat.ltb_ge; rewrite app_length; lia).
  rewrite E. f_equal. f_equal.
  - rewrite firstn_app, Nat.sub_diag, firstn_all, firstn_O, app_nil_r; reflexivity.
  - rewrite skipn_app, Nat.sub_diag, skipn_all; reflexivity.
Qed.

Lemma read_full_none : forall n i, read_full n i = None -> (length i < n)%nat.
Proof.
  unfold read_full; intros n i H. destruct (length i <? n)%nat eqn:E; [|discriminate].
  apply Nat.ltb_lt; exact E.
Qed.

(* ---------- comparisons ---------- *)
Lemma bytes_eqb_eq : forall a b, bytes_eqb a b = true <-> a = b.
Proof.
  induction a as [|x a IH]; destruct b as [|y b]; simpl; split; intro H; try reflexivity; try discriminate.
  - apply andb_true_iff in H as [H1 H2]. apply N.eqb_eq in H1. apply IH in H2. subst; reflexivity.
  - inversion H; subst. rewrite N.eqb_refl. simpl. apply IH; reflexivity.
Qed.

Lemma cred_match_In : forall creds u p, cred_match creds u p = true <-> In (u, p) creds.
Proof.
  intros creds u p. unfold cred_match. rewrite existsb_exists. split.
  - intros [[cu cp] [Hin H]]. simpl in H. apply andb_true_iff in H as [H1 H2].
    apply bytes_eqb_eq in H1. apply bytes_eqb_eq in H2. subst. exact Hin.
  - intro Hin. exists (u, p). split; [exact Hin|]. simpl.
    apply andb_true_iff; split; apply bytes_eqb_eq; reflexivity.
Qed.

Lemma has_In : forall m l, has m l = true <-> In m l.
Proof.
  intros m l. unfold has. rewrite existsb_exists. split.
  - intros [x [Hin H]]. apply N.eqb_eq in H. subst. exact Hin.
  - intro Hin. exists m. split; [exact Hin | apply N.eqb_refl].
Qed.

Lemma has_false_not_In : forall m l, has m l = false -> ~ In m l.
Proof. intros m l H Hin. apply has_In in Hin. congruence. Qed.

Lemma is_nil_false : forall A (l : list A), l <> [] -> is_nil l = false.
Proof. intros A [|x l] H; [congruence | reflexivity]. Qed.

(* ---------- constants (regenerated from apis/constant/socks5.go) ---------- *)
Lemma consts_distinct :
  M_NOAUTH <> M_USERPASS /\ M_NONE <> M_USERPASS /\ M_NONE <> M_NOAUTH /\ ST_OK <> ST_FAIL /\ VER <> SUBVER.
Proof. vm_compute. repeat split; discriminate. Qed.

(* RFC 1928 section 3 and RFC 1929 section 2 values *)
Lemma consts_rfc :
  VER = 5 /\ M_NOAUTH = 0 /\ M_USERPASS = 2 /\ M_NONE = 255 /\ SUBVER = 1 /\ ST_OK = 0 /\ ST_FAIL <> 0.
Proof. vm_compute. repeat split; discriminate. Qed.

(* ---------- sub-negotiation ---------- *)
Lemma subneg_authenticated : forall creds w i,
  out (subneg creds w i) = Authenticated ->
  exists ulen plen u p,
    i = [SUBVER; ulen] ++ u ++ [plen] ++ p ++ rest (subneg creds w i) /\
    length u = N.to_nat ulen /\ length p = N.to_nat plen /\ In (u, p) creds /\
    replies (subneg creds w i) = w ++ [[SUBVER; ST_OK]].
Proof.
  intros creds w i. unfold subneg.
  destruct i as [|v i1]; [discriminate|].
  destruct (v =? SUBVER) eqn:Ev; [|discriminate]. apply N.eqb_eq in Ev. subst v. cbn [negb].
  destruct i1 as [|ulen i2]; [discriminate|].
  destruct (read_full (N.to_nat ulen) i2) as [[u i3]|] eqn:Eu; [|discriminate].
  destruct i3 as [|plen i4]; [discriminate|].
  destruct (read_full (N.to_nat plen) i4) as [[p i5]|] eqn:Ep; [|discriminate].
  destruct (cred_match creds u p) eqn:Ec; [|discriminate].
  intros _. cbn [rest replies].
  apply read_full_some in Eu as [Eu Lu]. apply read_full_some in Ep as [Ep Lp].
  apply cred_match_In in Ec.
  exists ulen, plen, u, p. subst i2 i4. repeat split; auto.
Qed.

Lemma subneg_accepts : forall creds w ulen plen u p r,
  length u = N.to_nat ulen -> length p = N.to_nat plen -> In (u, p) creds ->
  subneg creds w ([SUBVER; ulen] ++ u ++ [plen] ++ p ++ r) =
  {| replies := w ++ [[SUBVER; ST_OK]]; out := Authenticated; rest := r |}.
Proof.
  intros creds w ulen plen u p r Lu Lp Hin. unfold subneg. cbn [app].
  rewrite N.eqb_refl. cbn [negb].
  rewrite <- Lu, read_full_app. cbn [app].
  rewrite <- Lp, read_full_app.
  apply cred_match_In in Hin. rewrite Hin. reflexivity.
Qed.

Lemma subneg_replies : forall creds w i,
  let r := replies (subneg creds w i) in
  r = w \/ r = w ++ [[SUBVER; ST_OK]] \/ r = w ++ [[SUBVER; ST_FAIL]].
Proof.
  intros creds w i. unfold subneg.
  destruct i as [|v i1]; [left; reflexivity|].
  destruct (negb (v =? SUBVER)); [left; reflexivity|].
  destruct i1 as [|ulen i2]; [left; reflexivity|].
  destruct (read_full (N.to_nat ulen) i2) as [[u i3]|]; [|left; reflexivity].
  destruct i3 as [|plen i4]; [left; reflexivity|].
  destruct (read_full (N.to_nat plen) i4) as [[p i5]|]; [|left; reflexivity].
  destruct (cred_match creds u p); [right; left|right; right]; reflexivity.
Qed.

(* ---------- method selection, fixed code (legacy = false) ---------- *)
Lemma select_authenticated_creds : forall creds methods i3,
  creds <> [] ->
  out (select false creds methods i3) = Authenticated ->
  In M_USERPASS methods /\ select false creds methods i3 = subneg creds [[VER; M_USERPASS]] i3.
Proof.
  intros creds methods i3 Hc. unfold select.
  rewrite (is_nil_false _ _ Hc). cbn [negb orb].
  destruct (has M_NOAUTH methods) eqn:Ena; destruct (has M_USERPASS methods) eqn:Eup;
    cbn [negb andb]; try discriminate.
  - intros _. split; [apply has_In; exact Eup | reflexivity].
  - intros _. split; [apply has_In; exact Eup | reflexivity].
Qed.

Lemma handle_auth_greeting : forall legacy creds i,
  out (handle_auth legacy creds i) = Authenticated ->
  exists n methods i3,
    i = [VER; n] ++ methods ++ i3 /\ length methods = N.to_nat n /\ n <> 0 /\
    handle_auth legacy creds i = select legacy creds methods i3.
Proof.
  intros legacy creds i. unfold handle_auth.
  destruct i as [|v i1]; [discriminate|].
  destruct (v =? VER) eqn:Ev; [|discriminate]. apply N.eqb_eq in Ev. subst v. cbn [negb].
  destruct i1 as [|n i2]; [discriminate|].
  destruct (n =? 0) eqn:En; [discriminate|]. apply N.eqb_neq in En.
  destruct (read_full (N.to_nat n) i2) as [[methods i3]|] eqn:Em; [|discriminate].
  intros _. apply read_full_some in Em as [Em Lm].
  exists n, methods, i3. subst i2. repeat split; auto.
Qed.

Lemma handle_auth_on_greeting : forall legacy creds n methods i3,
  length methods = N.to_nat n -> n <> 0 ->
  handle_auth legacy creds ([VER; n] ++ methods ++ i3) = select legacy creds methods i3.
Proof.
  intros legacy creds n methods i3 Lm Hn. unfold handle_auth. cbn [app].
  rewrite N.eqb_refl. cbn [negb].
  apply N.eqb_neq in Hn. rewrite Hn.
  rewrite <- Lm, read_full_app. reflexivity.
Qed.

(* C11, first half, on handleAuthentication *)
Lemma auth_required : forall creds i,
  creds <> [] ->
  out (handle_auth false creds i) = Authenticated ->
  exists u p,
    In (u, p) creds /\ presents i u p (rest (handle_auth false creds i)) /\
    replies (handle_auth false creds i) = [[VER; M_USERPASS]; [SUBVER; ST_OK]].
Proof.
  intros creds i Hc Ha.
  destruct (handle_auth_greeting _ _ _ Ha) as (n & methods & i3 & Ei & Lm & Hn & Eh).
  rewrite Eh in Ha |- *.
  destruct (select_authenticated_creds _ _ _ Hc Ha) as [Hup Es].
  rewrite Es in Ha |- *.
  destruct (subneg_authenticated _ _ _ Ha) as (ulen & plen & u & p & Ei3 & Lu & Lp & Hin & Er).
  exists u, p. split; [exact Hin|]. split; [|exact Er].
  exists n, methods, ulen, plen. repeat split; auto.
  rewrite Ei. rewrite Ei3 at 1. reflexivity.
Qed.

(* ... and conversely a configured pair, properly presented, is accepted (nothing else changes) *)
Lemma valid_pair_accepted : forall (creds : list cred) i u p r,
  In (u, p) creds -> presents i u p r ->
  handle_auth false creds i =
  {| replies := [[VER; M_USERPASS]; [SUBVER; ST_OK]]; out := Authenticated; rest := r |}.
Proof.
  intros creds i u p r Hin (n & methods & ulen & plen & Ei & Lm & Hup & Lu & Lp).
  assert (Hn : n <> 0).
  { intro; subst n. destruct methods; [destruct Hup | discriminate]. }
  assert (Hc : creds <> []) by (intro; subst; destruct Hin).
  subst i. rewrite handle_auth_on_greeting by assumption.
  unfold select. rewrite (is_nil_false _ _ Hc).
  apply has_In in Hup. rewrite Hup. cbn [negb orb andb].
  rewrite !andb_false_r. cbn [negb andb].
  rewrite subneg_accepts by assumption. reflexivity.
Qed.

(* ---------- ServeConn ---------- *)
Lemma serve_request_only_after_auth : forall use_proxy csa creds i,
  local_auth use_proxy csa = true -> creds <> [] ->
  let s := serve false use_proxy csa creds i in
  (s_dialed s = true -> use_proxy = true /\ s_next s <> None) /\
  (s_next s <> None ->
     exists u p r, In (u, p) creds /\ presents i u p r /\ s_next s = Some r /\
                   s_replies s = [[VER; M_USERPASS]; [SUBVER; ST_OK]] /\ s_dialed s = use_proxy).
Proof.
  intros use_proxy csa creds i Hl Hc. unfold serve. rewrite Hl.
  destruct (out (handle_auth false creds i)) eqn:Eo; cbn [s_dialed s_next s_replies].
  - split.
    + intro Hd. split; [exact Hd | discriminate].
    + intros _. destruct (auth_required _ _ Hc Eo) as (u & p & Hin & Hp & Er).
      exists u, p, (rest (handle_auth false creds i)). repeat split; auto.
  - split; [discriminate | congruence].
  - split; [discriminate | congruence].
Qed.

Lemma serve_delegated : forall legacy use_proxy csa creds i,
  local_auth use_proxy csa = false ->
  serve legacy use_proxy csa creds i = {| s_replies := []; s_dialed := use_proxy; s_next := Some i |}.
Proof. intros. unfold serve. rewrite H. reflexivity. Qed.

(* ---------- no credentials configured ---------- *)
Lemma noauth_accepts : forall legacy i methods r,
  greets i methods r -> In M_NOAUTH methods ->
  handle_auth legacy [] i = {| replies := [[VER; M_NOAUTH]]; out := Authenticated; rest := r |}.
Proof.
  intros legacy i methods r (n & Ei & Lm & Hn) Hna. subst i.
  rewrite handle_auth_on_greeting by assumption.
  unfold select. apply has_In in Hna. rewrite Hna. cbn [is_nil negb andb].
  rewrite andb_false_r. cbn [negb]. rewrite orb_true_r. cbn [andb].
  rewrite andb_false_r. reflexivity.
Qed.

Lemma noauth_only : forall legacy i,
  out (handle_auth legacy [] i) = Authenticated ->
  exists methods, greets i methods (rest (handle_auth legacy [] i)) /\ In M_NOAUTH methods /\
                  replies (handle_auth legacy [] i) = [[VER; M_NOAUTH]].
Proof.
  intros legacy i Ha.
  destruct (handle_auth_greeting _ _ _ Ha) as (n & methods & i3 & Ei & Lm & Hn & Eh).
  rewrite Eh in Ha |- *. revert Ha. unfold select. cbn [is_nil negb].
  rewrite andb_false_r. cbn [negb]. rewrite orb_true_r, !andb_false_r, andb_true_r.
  destruct (has M_NOAUTH methods) eqn:Ena; destruct (has M_USERPASS methods) eqn:Eup;
    cbn [negb andb]; try discriminate; intros _; cbn [rest replies];
    (exists methods; split; [exists n; auto | split; [apply has_In; exact Ena | reflexivity]]).
Qed.

Lemma select_nocreds_replies : forall legacy methods i3,
  replies (select legacy [] methods i3) = [] \/
  replies (select legacy [] methods i3) = [[VER; M_NONE]] \/
  replies (select legacy [] methods i3) = [[VER; M_NOAUTH]].
Proof.
  intros. unfold select. cbn [is_nil negb].
  destruct (negb (has M_NOAUTH methods) && negb (has M_USERPASS methods)); [right; left; reflexivity|].
  destruct (has M_NOAUTH methods && (legacy || negb (has M_USERPASS methods && false))).
  - rewrite andb_false_r. right; right; reflexivity.
  - left; reflexivity.
Qed.

Lemma handle_auth_replies_cases : forall legacy creds i,
  replies (handle_auth legacy creds i) = [] \/
  exists methods i3, handle_auth legacy creds i = select legacy creds methods i3.
Proof.
  intros. unfold handle_auth.
  destruct i as [|v i1]; [left; reflexivity|].
  destruct (negb (v =? VER)); [left; reflexivity|].
  destruct i1 as [|n i2]; [left; reflexivity|].
  destruct (n =? 0); [left; reflexivity|].
  destruct (read_full (N.to_nat n) i2) as [[methods i3]|]; [|left; reflexivity].
  right. exists methods, i3. reflexivity.
Qed.

Lemma userpass_never_selected_without_creds : forall legacy i,
  ~ In [VER; M_USERPASS] (replies (handle_auth legacy [] i)).
Proof.
  intros legacy i.
  destruct consts_distinct as (_ & Hd1 & _).
  destruct consts_distinct as (Hd2 & _).
  destruct (handle_auth_replies_cases legacy [] i) as [E | (methods & i3 & E)]; rewrite E.
  - intros [].
  - destruct (select_nocreds_replies legacy methods i3) as [E2 | [E2 | E2]]; rewrite E2.
    + intros [].
    + intros [H | []]. apply Hd1. congruence.
    + intros [H | []]. apply Hd2. congruence.
Qed.

Lemma userpass_refused_without_creds : forall legacy i methods r,
  greets i methods r -> ~ In M_NOAUTH methods ->
  out (handle_auth legacy [] i) = Rejected /\
  (In M_USERPASS methods -> replies (handle_auth legacy [] i) = []).
Proof.
  intros legacy i methods r (n & Ei & Lm & Hn) Hna. subst i.
  rewrite handle_auth_on_greeting by assumption.
  unfold select. cbn [is_nil negb].
  destruct (has M_NOAUTH methods) eqn:Ena; [apply has_In in Ena; contradiction|].
  cbn [negb andb].
  destruct (has M_USERPASS methods) eqn:Eup; cbn [negb andb out replies rejected].
  - split; [reflexivity | reflexivity].
  - split; [reflexivity|]. intro H. apply has_In in H. congruence.
Qed.

(* ---------- replies ---------- *)
Lemma select_replies_documented : forall legacy creds methods i3,
  In (replies (select legacy creds methods i3)) documented_replies.
Proof.
  intros. unfold select, documented_replies.
  destruct (negb (has M_NOAUTH methods) && negb (has M_USERPASS methods)); [cbn; tauto|].
  destruct (has M_NOAUTH methods && (legacy || negb (has M_USERPASS methods && negb (is_nil creds)))).
  - destruct (negb (has M_USERPASS methods) && negb (is_nil creds)); cbn; tauto.
  - destruct (negb (negb (is_nil creds))); [cbn; tauto|].
    destruct (subneg_replies creds [[VER; M_USERPASS]] i3) as [E | [E | E]]; rewrite E; cbn; tauto.
Qed.

Lemma replies_documented : forall legacy creds i,
  In (replies (handle_auth legacy creds i)) documented_replies /\
  Forall (fun w => length w = 2%nat) (replies (handle_auth legacy creds i)).
Proof.
  intros legacy creds i.
  assert (H : In (replies (handle_auth legacy creds i)) documented_replies).
  { destruct (handle_auth_replies_cases legacy creds i) as [E | (methods & i3 & E)]; rewrite E.
    - cbn; tauto.
    - apply select_replies_documented. }
  split; [exact H|].
  unfold documented_replies in H. cbn [In] in H.
  repeat (destruct H as [H | H]; [rewrite <- H; repeat constructor|]). destruct H.
Qed.

(* ---------- the pinned tree's rule (legacy = true): refuted; what the fix changes ---------- *)
Definition witness_creds : list cred := [([117; 115; 101; 114], [112; 97; 115; 115])].   (* "user" / "pass" *)
Definition witness_greeting : list byte := [5; 2; 0; 2].

Lemma witness_presents_nothing : forall u p r, ~ presents witness_greeting u p r.
Proof.
  intros u p r (n & methods & ulen & plen & Ei & _).
  apply (f_equal (@length byte)) in Ei. unfold witness_greeting in Ei.
  repeat (rewrite app_length in Ei; cbn [length] in Ei). lia.
Qed.

Lemma legacy_refuted :
  exists creds i,
    creds <> [] /\
    (forall u p r, ~ presents i u p r) /\
    forall req,
      handle_auth true creds (i ++ req) = {| replies := [[VER; M_NOAUTH]]; out := Authenticated; rest := req |} /\
      serve true true true creds (i ++ req) = {| s_replies := [[VER; M_NOAUTH]]; s_dialed := true; s_next := Some req |}.
Proof.
  exists witness_creds, witness_greeting.
  split; [discriminate|]. split; [exact witness_presents_nothing|].
  intro req.
  assert (G : greets (witness_greeting ++ req) [0; 2] req).
  { exists 2. split; [reflexivity | split; [reflexivity | discriminate]]. }
  destruct G as (n & Ei & Lm & Hn).
  assert (H : handle_auth true witness_creds (witness_greeting ++ req) =
              {| replies := [[VER; M_NOAUTH]]; out := Authenticated; rest := req |}).
  { rewrite Ei. rewrite handle_auth_on_greeting by assumption. reflexivity. }
  split; [exact H|]. unfold serve. cbn [local_auth eqb]. rewrite H. reflexivity.
Qed.

(* the same input on the fixed code: user/password is selected and the stream ends there *)
Lemma witness_fixed :
  handle_auth false witness_creds witness_greeting = {| replies := [[VER; M_USERPASS]]; out := Truncated; rest := [] |}.
Proof. reflexivity. Qed.

Lemma select_legacy_differs : forall creds methods i3,
  select true creds methods i3 <> select false creds methods i3 ->
  creds <> [] /\ In M_NOAUTH methods /\ In M_USERPASS methods.
Proof.
  intros creds methods i3. unfold select.
  destruct (has M_NOAUTH methods) eqn:Ena; destruct (has M_USERPASS methods) eqn:Eup;
    destruct creds as [|c creds]; cbn [is_nil negb andb orb]; intro H; try congruence.
  split; [discriminate|]. split; apply has_In; assumption.
Qed.

(* the fix changes the behaviour only when credentials are configured and both methods are offered *)
Lemma fix_is_minimal : forall creds i,
  handle_auth true creds i <> handle_auth false creds i ->
  creds <> [] /\ exists methods r, greets i methods r /\ In M_NOAUTH methods /\ In M_USERPASS methods.
Proof.
  intros creds i. unfold handle_auth.
  destruct i as [|v i1]; [congruence|].
  destruct (v =? VER) eqn:Ev; cbn [negb]; [|congruence]. apply N.eqb_eq in Ev. subst v.
  destruct i1 as [|n i2]; [congruence|].
  destruct (n =? 0) eqn:En; [congruence|]. apply N.eqb_neq in En.
  destruct (read_full (N.to_nat n) i2) as [[methods i3]|] eqn:Em; [|congruence].
  intro H. apply select_legacy_differs in H as (Hc & Hna & Hup).
  apply read_full_some in Em as [Em Lm].
  split; [exact Hc|]. exists methods, i3. split; [|split; assumption].
  exists n. subst i2. repeat split; auto.
Qed.

(* the two halves of "no credentials configured", as stated in props/C11.v *)
Lemma noauth_mode_accepts : forall legacy i,
  (forall methods r, greets i methods r -> In M_NOAUTH methods ->
     handle_auth legacy [] i = {| replies := [[VER; M_NOAUTH]]; out := Authenticated; rest := r |}) /\
  (out (handle_auth legacy [] i) = Authenticated ->
     exists methods, greets i methods (rest (handle_auth legacy [] i)) /\ In M_NOAUTH methods /\
                     replies (handle_auth legacy [] i) = [[VER; M_NOAUTH]]).
Proof. intros legacy i. split; [intros methods r; exact (noauth_accepts legacy i methods r) | exact (noauth_only legacy i)]. Qed.

Lemma noauth_mode_refuses_userpass : forall legacy i,
  ~ In [VER; M_USERPASS] (replies (handle_auth legacy [] i)) /\
  (forall methods r, greets i methods r -> ~ In M_NOAUTH methods ->
     out (handle_auth legacy [] i) = Rejected /\
     (In M_USERPASS methods -> replies (handle_auth legacy [] i) = [])).
Proof. intros legacy i. split; [exact (userpass_never_selected_without_creds legacy i) | intros methods r; exact (userpass_refused_without_creds legacy i methods r)]. Qed.

(* ---------- non-vacuity: concrete inputs that satisfy the hypotheses of the theorems ---------- *)
(* greeting 05 01 02, then 01 04 "user" 04 "pass", then a request *)
Definition ex_request : list byte := [5; 1; 0; 1; 1; 2; 3; 4; 0; 80].
Definition ex_good : list byte := [5; 1; 2; 1; 4; 117; 115; 101; 114; 4; 112; 97; 115; 115] ++ ex_request.

Example ex_good_presents : presents ex_good [117; 115; 101; 114] [112; 97; 115; 115] ex_request.
Proof. exists 1, [2], 4, 4. repeat split; try reflexivity. left; reflexivity. Qed.

Example ex_good_authenticated :
  handle_auth false witness_creds ex_good =
  {| replies := [[5; 2]; [1; 0]]; out := Authenticated; rest := ex_request |}.
Proof. reflexivity. Qed.

Example ex_good_served :
  serve false true true witness_creds ex_good =
  {| s_replies := [[5; 2]; [1; 0]]; s_dialed := true; s_next := Some ex_request |}.
Proof. reflexivity. Qed.

(* wrong password: refused with 01 01, the request is not read *)
Example ex_wrong_password :
  serve false true true witness_creds ([5; 1; 2; 1; 4; 117; 115; 101; 114; 4; 112; 97; 115; 116] ++ ex_request) =
  {| s_replies := [[5; 2]; [1; 1]]; s_dialed := false; s_next := None |}.
Proof. reflexivity. Qed.

(* both methods offered, credentials configured: fixed code selects user/password *)
Example ex_both_methods_fixed :
  serve false true true witness_creds ([5; 2; 0; 2] ++ ex_request) =
  {| s_replies := [[5; 2]]; s_dialed := false; s_next := None |}.
Proof. reflexivity. Qed.

(* no credentials: 05 01 00 accepted; 05 01 02 refused without a reply; 05 02 00 02 -> no-auth *)
Example ex_nocreds_noauth :
  handle_auth false [] ([5; 1; 0] ++ ex_request) = {| replies := [[5; 0]]; out := Authenticated; rest := ex_request |}.
Proof. reflexivity. Qed.
Example ex_nocreds_userpass :
  handle_auth false [] ([5; 1; 2] ++ ex_request) = {| replies := []; out := Rejected; rest := ex_request |}.
Proof. reflexivity. Qed.
Example ex_nocreds_both :
  handle_auth false [] ([5; 2; 0; 2] ++ ex_request) = {| replies := [[5; 0]]; out := Authenticated; rest := ex_request |}.
Proof. reflexivity. Qed.
Example ex_greets : greets ([5; 2; 0; 2] ++ ex_request) [0; 2] ex_request.
Proof. exists 2. repeat split; try reflexivity. discriminate. Qed.

(* ---------- acceptance is membership of the PAIR, not of any encoding of it ---------- *)
Lemma subneg_on_presented : forall creds w ulen plen u p r,
  length u = N.to_nat ulen -> length p = N.to_nat plen ->
  subneg creds w ([SUBVER; ulen] ++ u ++ [plen] ++ p ++ r) =
  if cred_match creds u p
  then {| replies := w ++ [[SUBVER; ST_OK]]; out := Authenticated; rest := r |}
  else rejected (w ++ [[SUBVER; ST_FAIL]]) r.
Proof.
  intros creds w ulen plen u p r Lu Lp. unfold subneg. cbn [app].
  rewrite N.eqb_refl. cbn [negb].
  rewrite <- Lu, read_full_app. cbn [app].
  rewrite <- Lp, read_full_app. reflexivity.
Qed.

Lemma handle_auth_on_presented : forall (creds : list cred) i u p r,
  creds <> [] -> presents i u p r ->
  handle_auth false creds i =
  if cred_match creds u p
  then {| replies := [[VER; M_USERPASS]; [SUBVER; ST_OK]]; out := Authenticated; rest := r |}
  else {| replies := [[VER; M_USERPASS]; [SUBVER; ST_FAIL]]; out := Rejected; rest := r |}.
Proof.
  intros creds i u p r Hc (n & methods & ulen & plen & Ei & Lm & Hup & Lu & Lp).
  assert (Hn : n <> 0).
  { intro; subst n. destruct methods; [destruct Hup | discriminate]. }
  subst i. rewrite handle_auth_on_greeting by assumption.
  unfold select. rewrite (is_nil_false _ _ Hc).
  apply has_In in Hup. rewrite Hup. cbn [negb orb andb].
  rewrite !andb_false_r. cbn [negb andb].
  rewrite subneg_on_presented by assumption.
  destruct (cred_match creds u p); reflexivity.
Qed.

(* whatever else is configured: a presented pair is accepted iff exactly that pair is configured *)
Lemma pair_membership_exact : forall (creds : list cred) i u p r,
  creds <> [] -> presents i u p r ->
  (out (handle_auth false creds i) = Authenticated <-> In (u, p) creds).
Proof.
  intros creds i u p r Hc Hp. rewrite (handle_auth_on_presented creds i u p r Hc Hp).
  rewrite <- cred_match_In. destruct (cred_match creds u p); cbn [out]; split; congruence.
Qed.

(* two pairs with the same concatenation u ++ sep ++ p (the user/password boundary moved):
   the configured one is accepted, the other one is refused with 01 01 and the request is not read *)
Lemma pair_boundary_matters : forall (creds : list cred) sep u p u' p' i i' r,
  In (u, p) creds -> ~ In (u', p') creds ->
  u ++ sep ++ p = u' ++ sep ++ p' ->
  presents i u p r -> presents i' u' p' r ->
  out (handle_auth false creds i) = Authenticated /\
  handle_auth false creds i' =
    {| replies := [[VER; M_USERPASS]; [SUBVER; ST_FAIL]]; out := Rejected; rest := r |} /\
  s_next (serve false true true creds i') = None /\ s_dialed (serve false true true creds i') = false.
Proof.
  intros creds sep u p u' p' i i' r Hin Hnin _ Hp Hp'.
  assert (Hc : creds <> []) by (intro; subst; destruct Hin).
  split; [apply (pair_membership_exact creds i u p r Hc Hp); exact Hin|].
  assert (E : handle_auth false creds i' =
              {| replies := [[VER; M_USERPASS]; [SUBVER; ST_FAIL]]; out := Rejected; rest := r |}).
  { rewrite (handle_auth_on_presented creds i' u' p' r Hc Hp').
    destruct (cred_match creds u' p') eqn:Ec; [apply cred_match_In in Ec; contradiction | reflexivity]. }
  split; [exact E|]. unfold serve. cbn [local_auth eqb]. rewrite E. cbn. split; reflexivity.
Qed.

(* witness: ("alice","wonder:land") configured; ("alice:wonder","land") has the same "user:password" string *)
Definition ex_alice : list byte := [97; 108; 105; 99; 101].
Definition ex_wonder : list byte := [119; 111; 110; 100; 101; 114].
Definition ex_land : list byte := [108; 97; 110; 100].
Definition ex_colon : list byte := [58].
Definition ex_boundary_creds : list cred := [(ex_alice, ex_wonder ++ ex_colon ++ ex_land)].
Definition ex_boundary_good : list byte :=
  [5; 1; 2; 1; 5] ++ ex_alice ++ [11] ++ (ex_wonder ++ ex_colon ++ ex_land) ++ ex_request.
Definition ex_boundary_shifted : list byte :=
  [5; 1; 2; 1; 12] ++ (ex_alice ++ ex_colon ++ ex_wonder) ++ [4] ++ ex_land ++ ex_request.

Example ex_boundary_same_key :
  ex_alice ++ ex_colon ++ (ex_wonder ++ ex_colon ++ ex_land) = (ex_alice ++ ex_colon ++ ex_wonder) ++ ex_colon ++ ex_land.
Proof. reflexivity. Qed.
Example ex_boundary_good_presents : presents ex_boundary_good ex_alice (ex_wonder ++ ex_colon ++ ex_land) ex_request.
Proof. exists 1, [2], 5, 11. repeat split; try reflexivity. left; reflexivity. Qed.
Example ex_boundary_shifted_presents : presents ex_boundary_shifted (ex_alice ++ ex_colon ++ ex_wonder) ex_land ex_request.
Proof. exists 1, [2], 12, 4. repeat split; try reflexivity. left; reflexivity. Qed.
Example ex_boundary_good_accepted :
  handle_auth false ex_boundary_creds ex_boundary_good =
  {| replies := [[5; 2]; [1; 0]]; out := Authenticated; rest := ex_request |}.
Proof. reflexivity. Qed.
Example ex_boundary_shifted_refused :
  serve false true true ex_boundary_creds ex_boundary_shifted =
  {| s_replies := [[5; 2]; [1; 1]]; s_dialed := false; s_next := None |}.
Proof. reflexivity. Qed.
