(* Proofs about model/UserTable.v and its composition with the front door (C05 management events). *)
From Coq Require Import ZArith NArith List Bool Lia.
(* model/Discover.v has names of its own (udp_run, usession ...): it is imported first so that the front door's win *)
From M Require Import gen.Consts model.Discover proofs.DiscoverProofs model.ServerFront proofs.ServerFrontProofs
                      proofs.ServerFrontDiscoverInst model.UserTable.
Import ListNotations.

Lemma insert_entry_in (e x : entry) (l : list entry) : In x (insert_entry e l) <-> x = e \/ In x l.
Proof.
  induction l as [|y r IH]; simpl; [intuition|].
  destruct (entry_ltb e y); simpl; [intuition|]. rewrite IH. intuition.
Qed.

Lemma sort_entries_in (es : list entry) (x : entry) : In x (sort_entries es) <-> In x es.
Proof.
  induction es as [|e r IH]; simpl; [tauto|].
  rewrite insert_entry_in, IH. intuition.
Qed.

Section CompileProofs.
  Variable hashpw : bytes -> bytes -> bytes.
  Notation compile := (compile_users hashpw).
  Notation adm := (admitted hashpw).
  Notation cred_of := (build_credential hashpw).

  Lemma number_in (l : list (bytes * bytes)) : forall i c,
    In c (number i l) -> In (c_name c, c_cred c) l.
  Proof.
    induction l as [|[n k] r IH]; intros i c H; simpl in *; [contradiction|].
    destruct H as [<-|H]; [left; reflexivity | right; exact (IH _ _ H)].
  Qed.

  (* every user of a compiled generation comes from an entry of the published map that the admission rule admits *)
  Lemma compiled_from_entry (es : list entry) (c : cuser) :
    In c (compile es) -> exists e, In e es /\ adm es e = Some (c_cred c) /\ c_name c = name_of e.
  Proof.
    unfold compile_users. intros H. apply number_in in H. apply in_flat_map in H.
    destruct H as [e [He Hc]]. apply (proj1 (sort_entries_in es e)) in He.
    destruct (adm es e) as [k|] eqn:A; [|contradiction].
    destruct Hc as [Hc|[]]. inversion Hc as [[Hn Hk]]. exists e.
    split; [exact He|]. split; [first [exact A | rewrite <- Hk; exact A] | first [reflexivity | symmetry; exact Hn]].
  Qed.

  (* what "admitted" means, spelled out: a present record with a non-empty name of at most MaxUserNameLen bytes
     that no other entry carries, AND a secret: a hashed password of exactly CredentialLen bytes in hexadecimal,
     or else (hashed password empty) a non-empty password *)
  Definition has_secret (e : entry) (cred : bytes) : Prop :=
    (e_hashed e <> [] /\ hex_decode (e_hashed e) = Some cred /\ length cred = cred_len) \/
    (e_hashed e = [] /\ e_password e <> [] /\ cred = hashpw (e_password e) (e_name e)).

  Lemma build_credential_secret (e : entry) (cred : bytes) :
    cred_of e = Some cred -> e_present e = true /\ has_secret e cred.
  Proof.
    unfold build_credential, has_secret. destruct (e_present e); simpl; [|discriminate].
    destruct (e_hashed e) as [|h0 hr] eqn:EH.
    - destruct (e_password e) as [|p0 pr] eqn:EP; [discriminate|].
      intros H; inversion H; subst. split; [reflexivity|]. right. repeat split; congruence.
    - destruct (hex_decode (h0 :: hr)) as [d|] eqn:HD; [|discriminate].
      destruct (Nat.eqb (length d) cred_len) eqn:L; [|discriminate].
      intros H; inversion H; subst. apply Nat.eqb_eq in L. split; [reflexivity|]. left. repeat split; auto. discriminate.
  Qed.

  Lemma admitted_inv (es : list entry) (e : entry) (cred : bytes) :
    adm es e = Some cred ->
    e_present e = true /\ e_name e <> [] /\ (length (e_name e) <= max_name_len)%nat /\
    (count_name (e_name e) es <= 1)%nat /\ has_secret e cred.
  Proof.
    unfold admitted. destruct (name_of e) as [|n0 nr] eqn:N; [discriminate|].
    destruct (Nat.ltb 1 (count_name (n0 :: nr) es)) eqn:C; [discriminate|].
    destruct (Nat.ltb max_name_len (length (n0 :: nr))) eqn:L; [discriminate|].
    intros H. apply build_credential_secret in H. destruct H as [P S].
    unfold name_of in N. rewrite P in N. rewrite N.
    apply Nat.ltb_ge in C. apply Nat.ltb_ge in L. repeat split; auto. discriminate.
  Qed.

  (* an entry without any secret contributes no credential *)
  Lemma no_secret_not_admitted (es : list entry) (e : entry) :
    e_password e = [] -> e_hashed e = [] -> adm es e = None.
  Proof.
    intros P H. destruct (adm es e) as [c|] eqn:A; [|reflexivity].
    apply admitted_inv in A. destruct A as [_ [_ [_ [_ [[Q _]|[_ [Q _]]]]]]]; congruence.
  Qed.

  Lemma compiled_has_secret (es : list entry) (c : cuser) :
    In c (compile es) ->
    exists e, In e es /\ e_present e = true /\ c_name c = e_name e /\ e_name e <> [] /\
              (length (e_name e) <= max_name_len)%nat /\ (count_name (e_name e) es <= 1)%nat /\
              has_secret e (c_cred c).
  Proof.
    intros H. apply compiled_from_entry in H. destruct H as [e [I [A N]]].
    apply admitted_inv in A. destruct A as [P [NE [L [C S]]]].
    exists e. unfold name_of in N. rewrite P in N. repeat split; auto.
  Qed.

  Lemma count_name_pos (es : list entry) (e : entry) : In e es -> (1 <= count_name (name_of e) es)%nat.
  Proof.
    intros I. unfold count_name. induction es as [|x r IH]; [contradiction|]. simpl.
    destruct I as [->|I].
    - assert (E : addr_eqb (name_of e) (name_of e) = true) by (apply addr_eqb_eq; reflexivity).
      rewrite E. simpl. lia.
    - destruct (addr_eqb (name_of x) (name_of e)); simpl; [lia | exact (IH I)].
  Qed.

  Lemma count_two (es : list entry) (e1 e2 : entry) :
    In e1 es -> In e2 es -> e1 <> e2 -> name_of e1 = name_of e2 -> (2 <= count_name (name_of e1) es)%nat.
  Proof.
    intros I1 I2 NE EQ. unfold count_name.
    induction es as [|x r IH]; [contradiction|]. simpl.
    assert (T : forall y, In y r -> name_of y = name_of e1 -> (1 <= length (filter (fun e => addr_eqb (name_of e) (name_of e1)) r))%nat).
    { intros y Iy Ey. rewrite <- Ey. apply (count_name_pos r y Iy). }
    assert (R : addr_eqb (name_of e1) (name_of e1) = true) by (apply addr_eqb_eq; reflexivity).
    destruct I1 as [->|I1]; destruct I2 as [->|I2].
    - contradiction.
    - rewrite R. simpl. specialize (T e2 I2 (eq_sym EQ)). lia.
    - rewrite <- EQ, R. simpl. specialize (T e1 I1 eq_refl). lia.
    - destruct (addr_eqb (name_of x) (name_of e1)); simpl; [specialize (IH I1 I2); lia | exact (IH I1 I2)].
  Qed.

  (* if no entry named n carries a secret, no compiled user is named n: knowing a NAME gives no credential *)
  Lemma no_secret_no_credential (es : list entry) (n : bytes) :
    (forall e, In e es -> name_of e = n -> e_password e = [] /\ e_hashed e = []) ->
    forall c, In c (compile es) -> c_name c <> n.
  Proof.
    intros NS c H E. apply compiled_from_entry in H. destruct H as [e [I [A N]]].
    rewrite N in E. destruct (NS e I E) as [P Q].
    rewrite (no_secret_not_admitted es e P Q) in A. discriminate.
  Qed.

  (* duplicate names: none of the bearers is registered, whatever their passwords *)
  Lemma duplicate_names_skipped (es : list entry) (e1 e2 : entry) :
    In e1 es -> In e2 es -> e1 <> e2 -> name_of e1 = name_of e2 ->
    forall c, In c (compile es) -> c_name c <> name_of e1.
  Proof.
    intros I1 I2 NE EQ c H E. apply compiled_from_entry in H. destruct H as [e [I [A N]]].
    pose proof (count_two es e1 e2 I1 I2 NE EQ) as C2.
    unfold admitted in A. rewrite <- N, E in A.
    destruct (name_of e1) as [|a r]; [discriminate|].
    assert (L : Nat.ltb 1 (count_name (a :: r) es) = true) by (apply Nat.ltb_lt; lia).
    rewrite L in A. discriminate.
  Qed.

  (* SetUsers: the last publication decides, the empty list included *)
  Lemma published_last (init : list entry) (h : list (list entry)) (l : list entry) :
    published hashpw init (h ++ [l]) = compile l.
  Proof. unfold published. rewrite last_last. reflexivity. Qed.

  Lemma published_none (init : list entry) : published hashpw init [] = compile init.
  Proof. reflexivity. Qed.

  Lemma compile_nil : compile [] = [].
  Proof. reflexivity. Qed.

  Lemma published_empty_list (init : list entry) (h : list (list entry)) : published hashpw init (h ++ [[]]) = [].
  Proof. rewrite published_last. reflexivity. Qed.
End CompileProofs.

(* ---------- the front door on the table published last ---------- *)
Section AfterReload.
  Variable K : Type.
  Variable hashpw : bytes -> bytes -> bytes.
  Variable kdf : bytes -> K.                                  (* credential -> cipher key (of the current time slot) *)
  Variable seal : K -> bytes -> bytes -> bytes.               (* key, nonce, metadata -> the 72-byte header *)
  Variable open_k : K -> bytes -> option bytes.
  Variable body_tcp body_udp : K -> bytes -> bytes -> option bytes.
  Variable hint : bytes -> cuser -> bool.
  Variable cached : addr -> list N.
  Variable mandatory : bool.
  Variable le_ok : bytes -> bool.
  Variable le_decode : bytes -> bytes -> option bytes.
  Variable sig_of : bytes -> N.
  Variable rcache : Type.
  Variable rc_dup : rcache -> N -> addr -> Z -> bool * rcache.

  (* key separation of the AEAD: what was sealed under one key opens under no other key *)
  Hypothesis open_other_key_none : forall k k' n m, k' <> k -> open_k k' (seal k n m) = None.

  Variable init : list entry.
  Variable h : list (list entry).
  Notation users := (published hashpw init h).
  Notation key_of := (fun u : cuser => kdf (c_cred u)).

  Definition foreign_header (hdr : bytes) : Prop :=
    exists cred n m, hdr = seal (kdf cred) n m /\ forall u, In u users -> kdf (c_cred u) <> kdf cred.

  Let produced (hdr : bytes) : Prop := exists u, In u users /\ open_k (key_of u) hdr <> None.

  Lemma produced_int_ctxt : forall hdr, ~ produced hdr -> forall u, In u users -> open_k (key_of u) hdr = None.
  Proof.
    intros hdr NP u I. destruct (open_k (key_of u) hdr) eqn:O; [|reflexivity].
    exfalso. apply NP. exists u. split; [exact I | rewrite O; discriminate].
  Qed.

  Lemma foreign_not_produced (hdr : bytes) : foreign_header hdr -> ~ produced hdr.
  Proof.
    intros [cred [n [m [-> F]]]] [u [I O]]. apply O. apply open_other_key_none. exact (F u I).
  Qed.

  Lemma c05_silent_after_reload_tcp (rc : rcache) (src : addr) (input : bytes) (now : Z) :
    foreign_header (firstn hdr_len input) ->
    let r := fst (tcp_front N (d_open users key_of open_k) (d_body users key_of body_tcp) le_ok le_decode
                            (d_cands users key_of open_k hint cached mandatory) sig_of rcache rc_dup rc src input now) in
    (t_out r = [] /\ t_created r = [] /\ t_app r = [] /\ t_recv r = None /\ send_cipher N (t_recv r) = None) /\
    (t_verdict r = V_blocked \/ t_verdict r = V_crypto \/ t_verdict r = V_replay).
  Proof.
    intros F.
    exact (c05_silent_tcp_discover cuser K users key_of open_k body_tcp hint cached mandatory le_ok le_decode sig_of rcache rc_dup
             produced produced_int_ctxt rc src input now (foreign_not_produced _ F)).
  Qed.

  Lemma c05_silent_after_reload_udp (probe : event -> bool) (evs : list event) (st : ustate N rcache) :
    (forall s, In s (u_sessions st) -> In (us_key s) (reg_ids users)) ->
    (forall e, In e evs -> probe e = true ->
       match e with Dgram d _ _ => foreign_header (firstn hdr_len d) | Clean _ => False end) ->
    forall (e : event) (r : udp_result N),
    In (e, r) (fst (udp_run N (fun i => i) (d_open users key_of open_k) (d_body users key_of body_udp) le_ok le_decode
                            (d_cands users key_of open_k hint cached mandatory) sig_of rcache rc_dup st evs)) ->
    probe e = true ->
    (u_out r = [] /\ u_created r = [] /\ u_delivered r = []) /\ (u_verdict r = V_short \/ u_verdict r = V_undecryptable).
  Proof.
    intros OK HP.
    apply (c05_silent_udp_discover cuser K users key_of open_k body_udp hint cached mandatory le_ok le_decode sig_of rcache rc_dup
             produced produced_int_ctxt probe evs st OK).
    intros e I P. specialize (HP e I P). destruct e as [d s0 n0|ids]; [|exact HP].
    apply foreign_not_produced. exact HP.
  Qed.
End AfterReload.

(* non-vacuity: a history that removes a user; the table after it; hex decoding *)
Module ToyT.
  Local Open Scope nat_scope.
  Definition s (l : list nat) : bytes := map N.of_nat l.
  Definition h0 (p n : bytes) : bytes := p ++ [0%N] ++ n.
  Definition alice := mkEntry (s [97]) (s [97]) true (s [1; 2]) [].
  Definition victim := mkEntry (s [118]) (s [118]) true (s [3]) [].
  Definition nopw := mkEntry (s [110]) (s [110]) true [] [].
  Definition dup1 := mkEntry (s [1]) (s [100]) true (s [5]) [].
  Definition dup2 := mkEntry (s [2]) (s [100]) true (s [6]) [].
  Example ex_history :
    map c_name (published h0 [alice; victim] [[alice]; [alice; victim]; [alice; nopw; dup1; dup2]]) = [s [97]] /\
    map c_name (published h0 [alice; victim] []) = [s [97]; s [118]] /\
    published h0 [alice; victim] [[alice]; []] = [].
  Proof. vm_compute. auto. Qed.
  Example ex_hex : hex_decode (s [48; 102; 65; 57]) = Some [15%N; 169%N] /\ hex_decode (s [48]) = None /\ hex_decode (s [122; 122]) = None.
  Proof. vm_compute. auto. Qed.
End ToyT.
