(* C10 — proofs about model/Dispatch.v, part 2: Session.input, dispatch, runs, locality, witnesses *)
From Coq Require Import NArith ZArith List Bool Lia ZifyN ZifyNat ZifyBool.
From M Require Import gen.Consts model.Dispatch proofs.DispatchReadProofs.
Import ListNotations.
Open Scope N_scope.

(* ------------------------------------------------------------------ Session.input *)
(* the segment was authenticated by the session's own user (server) / by the connection's cipher (client) *)
Definition seg_matches (cl tcp : bool) (eu : N) (s : session) (g : segment) : Prop :=
  if cl then g_policy g = 0 /\ g_block g = (if tcp then Some eu else None)
  else exists u, u <> 0 /\ g_block g = Some u /\ session_owner s = u /\ (g_policy g = 0 \/ g_policy g = u).

Lemma input_identity_ok : forall cl tcp eu s g,
  (cl = true -> eu <> 0) -> session_ok cl tcp eu s -> seg_matches cl tcp eu s g ->
  exists s', input_identity s g = inr s' /\ session_ok cl tcp eu s' /\ s_id s' = s_id s /\
             s_closed s' = s_closed s /\ s_client s' = s_client s.
Proof.
  intros cl tcp eu s g Heu Hs Hm. unfold input_identity. destruct cl.
  - (* client *)
    destruct Hs as [Hc [Hp Hb]]. destruct Hm as [Hgp Hgb]. rewrite Hgb.
    destruct tcp.
    + specialize (Heu eq_refl).
      assert (Hchk : match s_block s with
                     | Some prev => if prev =? 0 then Some SiteUserEmptyPrev else if eu =? 0 then Some SiteUserEmptyNext
                                    else if negb (prev =? eu) then Some SiteUserDiffers else None
                     | None => None end = None).
      { destruct Hb as [Hb|[_ Hb]]; rewrite Hb; [reflexivity|].
        destruct (eu =? 0) eqn:E; neq; [congruence|]. rewrite N.eqb_refl. reflexivity. }
      rewrite Hchk. rewrite Hc.
      destruct ((s_user (set_block s (Some eu)) =? 0) && negb (eu =? 0)); eexists; (split; [reflexivity|]);
        unfold session_ok; simpl; rewrite Hc, Hp; auto 10.
    + exists s. unfold session_ok. rewrite Hc, Hp. auto 10.
  - (* server *)
    destruct (server_owner tcp eu s Hs) as [o [Ho [Hown [Hp [Hb Ht]]]]].
    destruct Hs as [Hc [o' [_ [Hp' [_ [Hu _]]]]]]. rewrite Hp in Hp'. inversion Hp'; subst o'.
    destruct Hm as [u [Hu0 [Hgb [Hm Hgp]]]]. rewrite Hown in Hm. subst u. rewrite Hgb.
    assert (Hchk : match s_block s with
                   | Some prev => if prev =? 0 then Some SiteUserEmptyPrev else if o =? 0 then Some SiteUserEmptyNext
                                  else if negb (prev =? o) then Some SiteUserDiffers else None
                   | None => None end = None).
    { destruct Hb as [Hb|Hb]; rewrite Hb; [reflexivity|].
      destruct (o =? 0) eqn:E; neq; [congruence|]. rewrite N.eqb_refl. reflexivity. }
    rewrite Hchk. rewrite Hc. simpl. rewrite Hp. rewrite N.eqb_refl. simpl.
    assert (Hpol : negb (g_policy g =? 0) && negb (o =? g_policy g) = false).
    { destruct Hgp as [Hgp|Hgp]; rewrite Hgp; [reflexivity|]. rewrite N.eqb_refl. apply andb_false_r. }
    rewrite Hpol.
    destruct ((s_user (set_block s (Some o)) =? 0) && negb (o =? 0)); eexists; (split; [reflexivity|]);
      (split; [|simpl; auto]); unfold session_ok; simpl; (split; [exact Hc|]); exists o; auto 10.
Qed.

Lemma tree_guard_ok : forall g, kind_ok g ->
  (g_proto g =? P_openReq) || (g_proto g =? P_openResp) || is_data_proto (g_proto g) = true ->
  tree_insert_guard g = None.
Proof.
  intros g Hk Hp. unfold tree_insert_guard, seg_seq.
  assert (Hsd : is_session_proto (g_proto g) || is_data_proto (g_proto g) = true).
  { apply orb_true_iff in Hp. destruct Hp as [Hp|Hp]; [|rewrite Hp; apply orb_true_r].
    apply orb_true_iff in Hp. destruct Hp as [Hp|Hp]; neq; rewrite Hp; reflexivity. }
  destruct Hk as [[_ Hk]|[_ Hk]]; rewrite Hk; rewrite Hsd; reflexivity.
Qed.

(* which segment kinds can reach segmentTree.Insert: only session/data types that have a sequence number *)
Lemma insert_guard : forall e w e1 g, wf e -> read_one e w = RSeg e1 g ->
  (g_proto g =? P_openReq) || (g_proto g =? P_openResp) || is_data_proto (g_proto g) = true ->
  tree_insert_guard g = None.
Proof.
  intros e w e1 g Hwf Hr Hp. destruct (read_one_ok e w Hwf) as [_ H]. destruct (H e1 g Hr) as [_ [[Hk _] _]].
  apply tree_guard_ok; auto.
Qed.

Lemma set_established_ok : forall cl tcp eu s, session_ok cl tcp eu s -> session_ok cl tcp eu (set_established s).
Proof. intros cl tcp eu s H. exact H. Qed.

Lemma input_ok : forall v cl tcp eu tr s g,
  (cl = true -> eu <> 0) -> session_ok cl tcp eu s -> kind_ok g -> seg_matches cl tcp eu s g ->
  (forall x, input v tr s g <> InPanic x) /\
  (forall s', input v tr s g = InOk s' ->
     session_ok cl tcp eu s' /\ s_id s' = s_id s /\ s_closed s' = s_closed s).
Proof.
  intros v cl tcp eu tr s g Heu Hs Hk Hm. unfold input.
  destruct (negb (input_direction_ok (s_client s) (g_proto g))); [split; intros; discriminate|].
  destruct (input_identity_ok cl tcp eu s g Heu Hs Hm) as [s1 [Hid [Hs1 [Hid1 [Hcl1 _]]]]]. rewrite Hid.
  destruct ((g_proto g =? P_openReq) || (g_proto g =? P_openResp) || is_data_proto (g_proto g)) eqn:Ed.
  - (* inputData *)
    unfold input_data. rewrite (tree_guard_ok g Hk Ed).
    assert (Has : forall r, (if negb (s_client s1) && (g_proto g =? P_openReq) && negb (s_established s1)
                             then if negb (v_quota_ok v) then InClose else if v_insert_ok v then InOk (set_established s1) else InErr
                             else if s_client s1 && (g_proto g =? P_openResp) then InOk (set_established s1) else InOk s1) = r ->
              (forall x, r <> InPanic x) /\
              (forall s', r = InOk s' -> session_ok cl tcp eu s' /\ s_id s' = s_id s /\ s_closed s' = s_closed s)).
    { intros r Hr.
      repeat match type of Hr with (if ?b then _ else _) = _ => destruct b end; subst r;
        (split; [intros; discriminate|]); intros s' H'; inversion H'; subst; simpl; auto. }
    destruct tr.
    + destruct (v_insert_ok v); [apply Has; reflexivity | split; intros; discriminate].
    + destruct (negb (v_window_open v)).
      * split; [intros; discriminate|]. intros s' H'; inversion H'; subst; auto.
      * destruct (v_insert_ok v); [apply Has; reflexivity|].
        split; [intros; discriminate|]. intros s' H'; inversion H'; subst; auto.
  - destruct (is_ack_proto (g_proto g)) eqn:Ea.
    + (* inputAck *)
      unfold input_ack. destruct tr.
      * split; [intros; discriminate|]. intros s' H'; inversion H'; subst; auto.
      * assert (Hkk : g_kind g = KDataAck).
        { destruct Hk as [[Hsp _]|[_ Hkk]]; [|exact Hkk].
          apply ack_not_data in Ea. destruct Ea as [_ Ea]. congruence. }
        rewrite Hkk. split; [intros; discriminate|]. intros s' H'; inversion H'; subst; auto.
    + destruct ((g_proto g =? P_closeReq) || (g_proto g =? P_closeResp)) eqn:Ec.
      * unfold input_close. destruct (g_proto g =? P_closeReq) eqn:Ecr.
        -- neq. assert (Hkk : g_kind g = KSession).
           { destruct Hk as [[_ Hkk]|[Hda _]]; [exact Hkk|].
             rewrite Ecr in Hda. pose proof (session_dataack_disjoint _ closereq_is_session). congruence. }
           rewrite Hkk. destruct (negb (v_write_ok v)); split; intros; discriminate.
        -- destruct (g_proto g =? P_closeResp); [split; intros; discriminate|].
           split; [intros; discriminate|]. intros s' H'; inversion H'; subst; auto.
      * split; [intros; discriminate|]. intros s' H'; inversion H'; subst; auto.
Qed.

(* ------------------------------------------------------------------ one event-loop iteration *)
Lemma wf_put : forall e s', wf e -> session_ok (is_client e) (is_tcp e) (e_user e) s' ->
  wf (with_sessions e (put_session s' (e_sessions e))).
Proof.
  intros e s' [H1 [H2 H3]] Hs. unfold wf, with_sessions, is_client, is_tcp in *. simpl.
  split; [exact H1|]. split; [apply put_session_Forall; auto | rewrite put_session_ids; exact H3].
Qed.

Lemma set_closed_ok : forall cl tcp eu s, session_ok cl tcp eu s -> session_ok cl tcp eu (set_closed s).
Proof. intros cl tcp eu s H. exact H. Qed.

Lemma deliver_ok : forall v e s g, wf e -> In s (e_sessions e) -> kind_ok g ->
  seg_matches (is_client e) (is_tcp e) (e_user e) s g ->
  (forall x, deliver v e s g <> Panic x) /\ wf (outcome_state e (deliver v e s g)).
Proof.
  intros v e s g Hwf Hin Hk Hm. unfold deliver.
  destruct (s_closed s); [split; [intros; discriminate | exact Hwf]|].
  assert (Hs : session_ok (is_client e) (is_tcp e) (e_user e) s).
  { destruct Hwf as [_ [HF _]]. rewrite Forall_forall in HF. auto. }
  destruct (input_ok v _ _ _ (e_tr e) s g (proj1 Hwf) Hs Hk Hm) as [Hnp Hok].
  destruct (input v (e_tr e) s g) as [s'| | |x] eqn:Ei.
  - split; [intros; discriminate|]. simpl. apply wf_put; auto. apply (Hok s' eq_refl).
  - split; [intros; discriminate|]. simpl. apply wf_put; auto.
  - split; [intros; discriminate|]. simpl. apply wf_put; auto.
  - exfalso. eapply Hnp. reflexivity.
Qed.

(* the condition under which the unfixed dispatch is safe: the named session, if any, belongs to the authenticating user *)
Definition owner_respected (e1 : endpoint) (g : segment) : Prop :=
  forall s u, find_session (g_sid g) (e_sessions e1) = Some s -> g_block g = Some u -> session_owner s = u.

Lemma matches_of_lookup : forall fixed e g s, wf e -> seg_ok e g ->
  (fixed = true \/ is_tcp e = true \/ is_client e = true \/ owner_respected e g) ->
  lookup fixed e g = Some s ->
  In s (e_sessions e) /\ seg_matches (is_client e) (is_tcp e) (e_user e) s g.
Proof.
  intros fixed e g s Hwf [Hk Hso] Hcond Hl. unfold lookup in Hl.
  destruct (find_session (g_sid g) (e_sessions e)) as [s0|] eqn:Ef; [|discriminate].
  pose proof (find_session_In _ _ _ Ef) as [Hin _].
  assert (Hs0 : session_ok (is_client e) (is_tcp e) (e_user e) s0).
  { destruct Hwf as [_ [HF _]]. rewrite Forall_forall in HF. auto. }
  unfold seg_matches. destruct (is_client e) eqn:Ec.
  - (* client *)
    replace (fixed && negb (is_tcp e) && negb true) with false in Hl by (destruct fixed, (is_tcp e); reflexivity).
    injection Hl as <-. split; [exact Hin | exact Hso].
  - destruct Hso as [u [Hu [Hb Hrest]]].
    destruct (server_owner _ _ _ Hs0) as [o [Ho [Hown [Hp [_ Ht]]]]].
    destruct (is_tcp e) eqn:Et.
    + replace (fixed && negb true && negb false) with false in Hl by (destruct fixed; reflexivity).
      injection Hl as <-. split; [exact Hin|]. destruct Hrest as [Hue Hgp]. exists u.
      rewrite Hown, (Ht eq_refl). repeat split; auto. destruct (g_new_auth g); auto.
    + destruct fixed; simpl in Hl.
      * rewrite Hb in Hl. destruct ((session_owner s0 =? 0) || (session_owner s0 =? u)) eqn:Eo; [|discriminate].
        injection Hl as <-. split; [exact Hin|]. exists u.
        apply orb_true_iff in Eo. destruct Eo as [Eo|Eo]; neq; [congruence|]. auto.
      * injection Hl as <-. split; [exact Hin|]. exists u.
        destruct Hcond as [Hc|[Hc|[Hc|Hc]]]; try discriminate. specialize (Hc s0 u Ef Hb). auto.
Qed.

Lemma dispatch_ok : forall fixed v e g, wf e -> seg_ok e g ->
  (fixed = true \/ is_tcp e = true \/ is_client e = true \/ owner_respected e g) ->
  (forall x, dispatch fixed v e g <> Panic x) /\ wf (outcome_state e (dispatch fixed v e g)).
Proof.
  intros fixed v e g Hwf Hso Hcond. pose proof Hso as [Hk Hso'].
  assert (Hdrop : forall x, Drop e <> Panic x) by (intros; discriminate).
  assert (Hherr : (forall x, handler_error e <> Panic x) /\ wf (outcome_state e (handler_error e)))
    by (unfold handler_error; destruct (is_tcp e); split; try (intros; discriminate); exact Hwf).
  unfold dispatch.
  destruct (is_tcp e && g_new_auth g && negb ((g_proto g =? P_openReq) && negb (g_sid g =? 0))) eqn:Efirst;
    [split; [intros; discriminate | exact Hwf]|].
  destruct (is_session_proto (g_proto g)) eqn:Es.
  - destruct (g_proto g =? P_openReq) eqn:Eor.
    + (* openSessionRequest *)
      destruct (is_client e) eqn:Ec; [exact Hherr|].
      destruct (g_sid g =? 0) eqn:Esid; [exact Hherr|].
      destruct (find_session (g_sid g) (e_sessions e)) as [s|] eqn:Ef; [split; [intros; discriminate | exact Hwf]|].
      destruct Hso' as [u [Hu [Hb Hrest]]].
      set (pol := if is_tcp e then if g_new_auth g then g_policy g else e_user e else g_policy g).
      assert (Hpol : pol = u).
      { subst pol. destruct (is_tcp e); [|exact Hrest]. destruct Hrest as [Hue Hgp].
        destruct (g_new_auth g); congruence. }
      rewrite Hpol. destruct (u =? 0) eqn:Eu0; [apply N.eqb_eq in Eu0; congruence|].
      set (s0 := mkSession (g_sid g) false false false None (Some u) 0).
      set (e0 := with_sessions e (s0 :: e_sessions e)).
      assert (Hs0 : session_ok false (is_tcp e) (e_user e) s0).
      { split; [reflexivity|]. exists u. simpl. repeat split; auto.
        intros Ht. rewrite Ht in Hrest. tauto. }
      assert (Hwf0 : wf e0).
      { destruct Hwf as [H1 [H2 H3]]. unfold wf, e0, with_sessions, is_client, is_tcp in *. simpl.
        split; [exact H1|]. split.
        - constructor; [|exact H2]. unfold is_client in Ec. rewrite Ec. exact Hs0.
        - constructor; [apply find_session_none; exact Ef | exact H3]. }
      assert (Hm0 : seg_matches (is_client e0) (is_tcp e0) (e_user e0) s0 g).
      { replace (is_client e0) with false by (unfold e0, is_client, with_sessions in *; simpl; symmetry; exact Ec).
        exists u. repeat split; auto.
        - unfold session_owner, s0. simpl. rewrite Eu0. rewrite Eu0. reflexivity.
        - replace (is_tcp e0) with (is_tcp e) by reflexivity.
          destruct (is_tcp e); [|auto]. destruct Hrest as [_ Hgp]. destruct (g_new_auth g); auto. }
      destruct (deliver_ok v e0 s0 g Hwf0 (or_introl eq_refl) Hk Hm0) as [Hnp Hw].
      split; [exact Hnp|].
      destruct (deliver v e0 s0 g); simpl in *; auto.
      (* Drop e0 / CloseUnderlay / Panic keep "outcome_state e" = e or e0 *)
    + destruct (g_proto g =? P_openResp) eqn:Eop.
      * destruct (negb (is_client e)) eqn:Ec; [exact Hherr|]. bsplit.
        destruct (find_session (g_sid g) (e_sessions e)) as [s|] eqn:Ef; [|exact Hherr].
        assert (Hl : lookup false e g = Some s).
        { unfold lookup. rewrite Ef. reflexivity. }
        destruct (matches_of_lookup false e g s Hwf Hso (or_intror (or_intror (or_introl Ec))) Hl) as [Hin Hm].
        destruct (deliver_ok v e s g Hwf Hin Hk Hm) as [Hnp Hw]. split; [exact Hnp|].
        destruct (deliver v e s g); simpl in *; auto.
      * destruct (find_session (g_sid g) (e_sessions e)) as [s0|] eqn:Ef; [|split; [intros; discriminate | exact Hwf]].
        destruct (lookup fixed e g) as [s|] eqn:El; [|split; [intros; discriminate | exact Hwf]].
        destruct (matches_of_lookup fixed e g s Hwf Hso Hcond El) as [Hin Hm].
        destruct (deliver_ok v e s g Hwf Hin Hk Hm) as [Hnp Hw]. split; [exact Hnp|].
        destruct (deliver v e s g); simpl in *; auto.
  - destruct (is_dataack_proto (g_proto g)) eqn:Ed; [|split; [intros; discriminate | exact Hwf]].
    destruct (lookup fixed e g) as [s|] eqn:El.
    + destruct (matches_of_lookup fixed e g s Hwf Hso Hcond El) as [Hin Hm].
      destruct (deliver_ok v e s g Hwf Hin Hk Hm) as [Hnp Hw]. split; [exact Hnp|].
      destruct (deliver v e s g); simpl in *; auto.
    + destruct (is_client e || is_tcp e || match g_block g with Some _ => true | None => false end);
        [destruct (v_write_ok v)|]; (split; [intros; discriminate | exact Hwf]).
Qed.

(* ------------------------------------------------------------------ step and run *)
Definition step_cond (fixed : bool) (e : endpoint) (w : wire) : Prop :=
  fixed = true \/ is_tcp e = true \/ is_client e = true \/
  (forall e1 g, read_one e w = RSeg e1 g -> owner_respected e1 g).

Lemma step_ok : forall fixed v e w, wf e -> step_cond fixed e w ->
  (forall x, step fixed v e w <> Panic x) /\ wf (outcome_state e (step fixed v e w)).
Proof.
  intros fixed v e w Hwf Hc. unfold step.
  destruct (read_one_ok e w Hwf) as [Hnp Hsg].
  destruct (read_one e w) as [e1 g|err| |x] eqn:Er.
  - destruct (Hsg e1 g eq_refl) as [Hwf1 [Hso [Hro [Htr Hss]]]].
    assert (Hc1 : fixed = true \/ is_tcp e1 = true \/ is_client e1 = true \/ owner_respected e1 g).
    { unfold is_tcp, is_client in *. rewrite Hro, Htr.
      destruct Hc as [Hc|[Hc|[Hc|Hc]]]; auto; try (right; right; right; apply Hc; reflexivity). }
    destruct (dispatch_ok fixed v e1 g Hwf1 Hso Hc1) as [Hd1 Hd2]. split; [exact Hd1|].
    destruct (dispatch fixed v e1 g); simpl in *; auto.
  - apply read_one_error_typed in Er. destruct Er as [E1 E2].
    destruct (get_error_type (Some err)); try congruence; split; try (intros; discriminate); exact Hwf.
  - split; [intros; discriminate | exact Hwf].
  - exfalso. eapply Hnp. reflexivity.
Qed.

Fixpoint respects (fixed : bool) (e : endpoint) (l : list (env * wire)) : Prop :=
  match l with
  | [] => True
  | (v, w) :: r =>
    step_cond fixed e w /\
    match step fixed v e w with
    | Ok e' | Drop e' | Reply e' | CloseSession _ e' => respects fixed e' r
    | _ => True
    end
  end.

Lemma run_ok : forall fixed l e, wf e -> respects fixed e l -> forall x, run fixed e l <> RunPanic x.
Proof.
  induction l as [|[v w] r IH]; simpl; intros e Hwf Hr x; [discriminate|].
  destruct Hr as [Hc Hr]. destruct (step_ok fixed v e w Hwf Hc) as [Hnp Hw].
  destruct (step fixed v e w) as [e'|e'|e'|sid e'| |y] eqn:Es; simpl in Hw;
    try (apply IH; assumption); try discriminate.
  exfalso. eapply Hnp. reflexivity.
Qed.

Lemma respects_fixed : forall l e, respects true e l.
Proof.
  induction l as [|[v w] r IH]; simpl; intros e; [exact I|].
  split; [left; reflexivity|]. destruct (step true v e w); auto.
Qed.

(* C10_no_panic for the tree with the fix: no history of network inputs reaches a panic *)
Lemma no_panic_fixed : forall e l, wf e -> forall x, run true e l <> RunPanic x.
Proof. intros e l Hwf. apply run_ok; [exact Hwf | apply respects_fixed]. Qed.

(* the pinned code: safe as long as every named session belongs to the authenticating user (or TCP / client) *)
Lemma no_panic_partial : forall e l, wf e -> respects false e l -> forall x, run false e l <> RunPanic x.
Proof. intros e l Hwf Hr. apply run_ok; assumption. Qed.

(* ------------------------------------------------------------------ the defect of the pinned code *)
Definition env_all : env := mkEnv true true true true.
Definition wire_of (u proto sid : N) : wire :=
  mkWire false false false (AuthUser u) true proto true true sid 0 0 0 0 0 BodyOK.
Definition udp_server0 : endpoint := mkEndpoint Server UDP 0 [].
(* user 1 (alice) opens session 7; user 2 (bob) sends closeSessionRequest carrying session id 7 *)
Definition witness : list (env * wire) :=
  [(env_all, wire_of 1 P_openReq 7); (env_all, wire_of 2 P_closeReq 7)].

Lemma wf_udp_server0 : wf udp_server0.
Proof. split; [intros; discriminate|]. split; constructor. Qed.

Lemma cross_user_refuted :
  exists e l, wf e /\ e_tr e = UDP /\ e_role e = Server /\ run false e l = RunPanic SiteUserDiffers.
Proof. exists udp_server0, witness. split; [exact wf_udp_server0|]. repeat split. Qed.

(* with the fix the same history leaves alice's session untouched *)
Lemma witness_fixed :
  run true udp_server0 witness =
  RunLive (mkEndpoint Server UDP 0 [mkSession 7 false false true (Some 1) (Some 1) 1]).
Proof. vm_compute. reflexivity. Qed.

(* second consequence on the pinned code: user 2, authenticated through its own session 8 (same source
   address), sends a wrong-direction segment naming session 7 of user 1: the direction filter of
   Session.input returns an error and user 1's session is closed *)
Definition wire_existing (via proto sid : N) : wire :=
  mkWire false false false (AuthExisting via) true proto true true sid 0 0 0 0 0 BodyOK.
Lemma cross_user_close_unfixed :
  exists e', run false udp_server0
               [(env_all, wire_of 1 P_openReq 7); (env_all, wire_of 2 P_openReq 8); (env_all, wire_existing 8 P_dataS2C 7)] = RunLive e'
             /\ exists s, find_session 7 (e_sessions e') = Some s /\ s_closed s = true /\ session_owner s = 1.
Proof. eexists. split; [vm_compute; reflexivity|]. eexists. split; [vm_compute; reflexivity|]. split; reflexivity. Qed.

(* non-vacuity of the partial theorem: a history with two users that respects ownership *)
Lemma respects_example :
  respects false udp_server0
    [(env_all, wire_of 1 P_openReq 7); (env_all, wire_of 2 P_openReq 8); (env_all, wire_of 2 P_dataC2S 8); (env_all, wire_of 1 P_closeReq 7)].
Proof.
  simpl. repeat split; try (right; right; right; intros e1 g Hr; vm_compute in Hr; inversion Hr; subst;
    intros s u Hf Hb; vm_compute in Hf; vm_compute in Hb; inversion Hf; inversion Hb; subst; reflexivity);
    try (right; right; right; intros e1 g Hr; vm_compute in Hr; inversion Hr; subst;
    intros s u Hf Hb; vm_compute in Hf; discriminate).
Qed.

(* ------------------------------------------------------------------ per-site reachability *)
(* underlay_stream.go:213/216: the only place of [step] that produces these two sites is the
   error branch, and there the guard holds for every error readOneSegment can return *)
Lemma site_stream_errtype_unreachable : forall e w err, read_one e w = RErr err ->
  match get_error_type (Some err) with NO_ERROR | UNKNOWN_ERROR => False | _ => True end.
Proof.
  intros e w err H. apply read_one_error_typed in H. destruct H as [E1 E2].
  destruct (get_error_type (Some err)); auto.
Qed.

(* the cross-user assertion is reachable on the pinned UDP server and nowhere else *)
Lemma site_user_differs_reachable_unfixed : exists e l, wf e /\ run false e l = RunPanic SiteUserDiffers.
Proof. exists udp_server0, witness. split; [exact wf_udp_server0 | reflexivity]. Qed.

Lemma all_sites_unreachable_fixed : forall v e w x, wf e -> step true v e w <> Panic x.
Proof. intros v e w x Hwf. apply (step_ok true v e w Hwf). left; reflexivity. Qed.

Lemma all_sites_unreachable_tcp : forall fixed v e w x, wf e -> is_tcp e = true -> step fixed v e w <> Panic x.
Proof. intros fixed v e w x Hwf Ht. apply (step_ok fixed v e w Hwf). right; left; exact Ht. Qed.

Lemma all_sites_unreachable_client : forall fixed v e w x, wf e -> is_client e = true -> step fixed v e w <> Panic x.
Proof. intros fixed v e w x Hwf Ht. apply (step_ok fixed v e w Hwf). right; right; left; exact Ht. Qed.

(* ------------------------------------------------------------------ locality *)
Lemma deliver_local : forall v e s' g s, wf e -> In s' (e_sessions e) -> kind_ok g ->
  seg_matches (is_client e) (is_tcp e) (e_user e) s' g -> s_id s <> s_id s' ->
  find_session (s_id s) (e_sessions (outcome_state e (deliver v e s' g))) = find_session (s_id s) (e_sessions e).
Proof.
  intros v e s' g s Hwf Hin Hk Hm Hne. unfold deliver.
  destruct (s_closed s'); [reflexivity|].
  assert (Hs : session_ok (is_client e) (is_tcp e) (e_user e) s').
  { destruct Hwf as [_ [HF _]]. rewrite Forall_forall in HF. auto. }
  destruct (input_ok v _ _ _ (e_tr e) s' g (proj1 Hwf) Hs Hk Hm) as [_ Hok].
  destruct (input v (e_tr e) s' g) as [s2| | |x] eqn:Ei; simpl; try reflexivity.
  - destruct (Hok s2 eq_refl) as [_ [Hid _]]. apply find_put_other. congruence.
  - apply find_put_other. exact Hne.
  - apply find_put_other. exact Hne.
Qed.

Lemma find_same_id : forall l a b, find_session (s_id a) l = Some a -> find_session (s_id b) l = Some b -> s_id a = s_id b -> a = b.
Proof. intros l a b Ha Hb Hid. rewrite Hid in Ha. congruence. Qed.

(* a segment authenticated by user u changes no session owned by another user (server, with the fix) *)
Lemma dispatch_local : forall v e g u s, wf e -> seg_ok e g -> is_client e = false ->
  g_block g = Some u -> find_session (s_id s) (e_sessions e) = Some s -> session_owner s <> u ->
  find_session (s_id s) (e_sessions (outcome_state e (dispatch true v e g))) = Some s.
Proof.
  intros v e g u s Hwf Hso Hcl Hb Hf Hown. pose proof Hso as [Hk Hso'].
  assert (Hfix : true = true \/ is_tcp e = true \/ is_client e = true \/ owner_respected e g) by (left; reflexivity).
  (* any session the dispatch may deliver to belongs to u, hence is not s *)
  assert (Hdel : forall s', lookup true e g = Some s' ->
            find_session (s_id s) (e_sessions (outcome_state e (deliver v e s' g))) = Some s).
  { intros s' Hl. destruct (matches_of_lookup true e g s' Hwf Hso Hfix Hl) as [Hin Hm].
    rewrite deliver_local; auto.
    intros Hid. unfold lookup in Hl. destruct (find_session (g_sid g) (e_sessions e)) as [s0|] eqn:Ef; [|discriminate].
    assert (s0 = s').
    { destruct (true && negb (is_tcp e) && negb (is_client e)); [|congruence].
      destruct (g_block g); [|congruence]. destruct ((session_owner s0 =? 0) || (session_owner s0 =? n)); congruence. }
    subst s0. pose proof (find_session_In _ _ _ Ef) as [_ Hid'].
    assert (s = s') by (eapply find_same_id; eauto; congruence). subst s'.
    unfold seg_matches in Hm. rewrite Hcl in Hm. destruct Hm as [u' [_ [Hb' [Ho' _]]]]. congruence. }
  unfold dispatch.
  destruct (is_tcp e && g_new_auth g && negb ((g_proto g =? P_openReq) && negb (g_sid g =? 0))); [exact Hf|].
  assert (Hhe : find_session (s_id s) (e_sessions (outcome_state e (handler_error e))) = Some s)
    by (unfold handler_error; destruct (is_tcp e); exact Hf).
  destruct (is_session_proto (g_proto g)).
  - destruct (g_proto g =? P_openReq) eqn:Eor.
    + rewrite Hcl. destruct (g_sid g =? 0); [exact Hhe|].
      destruct (find_session (g_sid g) (e_sessions e)) as [sx|] eqn:Ef; [exact Hf|].
      rewrite Hcl in Hso'. destruct Hso' as [u0 [Hu0 [Hb0 Hrest]]].
      set (pol := if is_tcp e then if g_new_auth g then g_policy g else e_user e else g_policy g).
      assert (Hpol : pol = u0).
      { subst pol. destruct (is_tcp e); [|exact Hrest]. destruct Hrest as [Hue Hgp]. destruct (g_new_auth g); congruence. }
      rewrite Hpol. destruct (u0 =? 0) eqn:Eu0; [apply N.eqb_eq in Eu0; congruence|].
      set (s0 := mkSession (g_sid g) false false false None (Some u0) 0).
      set (e0 := with_sessions e (s0 :: e_sessions e)).
      assert (Hne : s_id s <> s_id s0).
      { simpl. intros Hid. rewrite Hid in Hf. congruence. }
      assert (Hs0 : session_ok false (is_tcp e) (e_user e) s0).
      { split; [reflexivity|]. exists u0. simpl. repeat split; auto. intros Ht. rewrite Ht in Hrest. tauto. }
      assert (Hwf0 : wf e0).
      { destruct Hwf as [H1 [H2 H3]]. unfold wf, e0, with_sessions, is_client, is_tcp in *. simpl.
        split; [exact H1|]. split.
        - constructor; [|exact H2]. rewrite Hcl. exact Hs0.
        - constructor; [apply find_session_none; exact Ef | exact H3]. }
      assert (Hm0 : seg_matches (is_client e0) (is_tcp e0) (e_user e0) s0 g).
      { replace (is_client e0) with false by (unfold e0, is_client, with_sessions in *; simpl; symmetry; exact Hcl).
        exists u0. repeat split; auto.
        - unfold session_owner, s0. simpl. rewrite Eu0. rewrite Eu0. reflexivity.
        - replace (is_tcp e0) with (is_tcp e) by reflexivity.
          destruct (is_tcp e); [|auto]. destruct Hrest as [_ Hgp]. destruct (g_new_auth g); auto. }
      assert (Hf0 : find_session (s_id s) (e_sessions e0) = Some s).
      { unfold e0. simpl. destruct (g_sid g =? s_id s) eqn:E; [apply N.eqb_eq in E; simpl in Hne; congruence | exact Hf]. }
      pose proof (deliver_local v e0 s0 g s Hwf0 (or_introl eq_refl) Hk Hm0 Hne) as Hdl.
      rewrite Hf0 in Hdl.
      destruct (deliver v e0 s0 g); simpl in *; auto.
    + destruct (g_proto g =? P_openResp).
      * rewrite Hcl. exact Hhe.
      * destruct (find_session (g_sid g) (e_sessions e)); [|exact Hf].
        destruct (lookup true e g) as [s'|] eqn:El; [|exact Hf].
        pose proof (Hdel s' eq_refl) as Hd. destruct (deliver v e s' g); simpl in *; auto.
  - destruct (is_dataack_proto (g_proto g)); [|exact Hf].
    destruct (lookup true e g) as [s'|] eqn:El.
    + pose proof (Hdel s' eq_refl) as Hd. destruct (deliver v e s' g); simpl in *; auto.
    + destruct (is_client e || is_tcp e || match g_block g with Some _ => true | None => false end);
        [destruct (v_write_ok v)|]; exact Hf.
Qed.

Lemma misbehaviour_local : forall v e w e1 g u s, wf e -> is_client e = false ->
  read_one e w = RSeg e1 g -> g_block g = Some u ->
  find_session (s_id s) (e_sessions e) = Some s -> session_owner s <> u ->
  find_session (s_id s) (e_sessions (outcome_state e (step true v e w))) = Some s.
Proof.
  intros v e w e1 g u s Hwf Hcl Hr Hb Hf Hown. unfold step. rewrite Hr.
  destruct (read_one_ok e w Hwf) as [_ Hsg]. destruct (Hsg e1 g Hr) as [Hwf1 [Hso [Hro [Htr Hss]]]].
  assert (Hcl1 : is_client e1 = false) by (unfold is_client in *; rewrite Hro; exact Hcl).
  rewrite <- Hss in Hf.
  pose proof (dispatch_local v e1 g u s Hwf1 Hso Hcl1 Hb Hf Hown) as Hd.
  destruct (dispatch true v e1 g); simpl in *; auto. rewrite <- Hss. exact Hf. rewrite <- Hss. exact Hf.
Qed.

(* an input that does not authenticate changes nothing at all *)
Lemma unauthenticated_changes_nothing : forall fixed v e w,
  w_auth w = AuthNone -> is_tcp e = false -> step fixed v e w = Drop e.
Proof.
  intros fixed v e w Ha Ht. unfold step, read_one. rewrite Ht. unfold udp_read. rewrite Ha.
  destruct (is_client e); [destruct (negb (w_from_server w)); [reflexivity|]|]; destruct (w_short w); reflexivity.
Qed.

Lemma unauthenticated_tcp_closes_only_its_underlay : forall fixed v e w, wf e ->
  w_auth w = AuthNone -> is_tcp e = true -> step fixed v e w = CloseUnderlay.
Proof.
  intros fixed v e w Hwf Ha Ht. unfold step, read_one. rewrite Ht. unfold tcp_read. rewrite Ha.
  destruct (w_short w); [reflexivity|].
  destruct (negb (is_client e) && (e_user e =? 0)); [destruct (w_replay w)|]; reflexivity.
Qed.

(* ------------------------------------------------------------------ SOCKS5 parsers are total and never read past the input *)
Lemma take_exact_len : forall n l a b, take_exact n l = Some (a, b) -> (length a = n /\ length l = n + length b)%nat.
Proof.
  intros n l a b H. unfold take_exact in H. destruct (Nat.leb n (length l)) eqn:E; [|discriminate].
  apply Nat.leb_le in E. inversion H; subst. split; [apply firstn_length_le; exact E|].
  rewrite skipn_length. lia.
Qed.

Lemma parse_socks5_addr_bounded : forall l t host port used,
  parse_socks5_addr l = Some (t, host, port, used) -> (N.to_nat used <= length l)%nat.
Proof.
  intros l t host port used H. unfold parse_socks5_addr in H. destruct l as [|t0 r]; [discriminate|].
  assert (Hfix : forall n hdr, hdr = 1 ->
            match take_exact n r with
            | Some (host0, r2) => match parse_port r2 with Some p => Some (t0, host0, p, hdr + N.of_nat n + 2) | None => None end
            | None => None end = Some (t, host, port, used) -> (N.to_nat used <= length (t0 :: r))%nat).
  { intros n hdr Hh Hx. destruct (take_exact n r) as [[h r2]|] eqn:Et; [|discriminate].
    apply take_exact_len in Et. destruct Et as [_ Hl].
    unfold parse_port in Hx. destruct r2 as [|a [|b r3]]; try discriminate. inversion Hx; subst. cbn [length] in *. lia. }
  destruct (t0 =? T_v4); [eapply Hfix; [reflexivity|exact H]|].
  destruct (t0 =? T_v6); [eapply Hfix; [reflexivity|exact H]|].
  destruct (t0 =? T_fqdn); [|discriminate].
  destruct r as [|n r1]; [discriminate|].
  destruct (take_exact (N.to_nat n) r1) as [[h r2]|] eqn:Et; [|discriminate].
  apply take_exact_len in Et. destruct Et as [_ Hl].
  unfold parse_port in H. destruct r2 as [|a [|b r3]]; try discriminate. inversion H; subst. clear Hfix H.
  cbn [length] in *. lia.
Qed.

Lemma parse_socks5_udp_bounded : forall l hl, parse_socks5_udp l = Some hl -> (N.to_nat hl <= length l)%nat.
Proof.
  intros l hl H. unfold parse_socks5_udp in H. destruct (Nat.leb (length l) 6); [discriminate|].
  destruct l as [|a [|b [|c r]]]; try discriminate.
  destruct (negb ((a =? 0) && (b =? 0))); [discriminate|]. destruct (negb (c =? 0)); [discriminate|].
  destruct (parse_socks5_addr r) as [[[[t h] p] used]|] eqn:Ea; [|discriminate].
  apply parse_socks5_addr_bounded in Ea. inversion H; subst. cbn [length] in *. lia.
Qed.

(* ------------------------------------------------------------------ the owner is defined at creation
   The step function treats "dispatch + the session goroutine's processing" as one step. In the Go code the
   two run on different goroutines: between the event loop storing a new session in sessionMap and the
   session goroutine processing its open request, further datagrams naming that id can be dispatched.
   The ownership decision of the dispatch ([lookup], Go: segmentUserOwnsSession) is immune to that window
   because the owner it uses is written by the event loop BEFORE the session becomes visible (the policy
   stored by newSessionWithServerUserPolicy) and is never changed by the session goroutine. A variant that
   reads only s.userName (written by the session goroutine) has the window: see [username_only_has_window]. *)

(* the session exactly as onOpenSessionRequest stores it in sessionMap, before anything was processed *)
Definition created_session (sid pol : N) : session := mkSession sid false false false None (Some pol) 0.

Lemma owner_of_policy : forall s o, s_policy s = Some o -> o <> 0 -> session_owner s = o.
Proof.
  intros s o Hp Ho. unfold session_owner. rewrite Hp.
  destruct (o =? 0) eqn:E; [apply N.eqb_eq in E; congruence|]. rewrite E. reflexivity.
Qed.

(* a session that has not processed a single segment already denies every other user *)
Lemma owner_defined_at_creation : forall sid pol u rest g,
  pol <> 0 -> u <> pol -> g_sid g = sid -> g_block g = Some u ->
  session_owner (created_session sid pol) = pol /\
  lookup true (mkEndpoint Server UDP 0 (created_session sid pol :: rest)) g = None.
Proof.
  intros sid pol u rest g Hp Hu Hs Hb.
  assert (Ho : session_owner (created_session sid pol) = pol) by (apply owner_of_policy; auto).
  split; [exact Ho|]. unfold lookup. cbn [e_sessions find_session]. rewrite Hs.
  cbn [created_session s_id]. rewrite N.eqb_refl. cbn [is_tcp is_client e_tr e_role andb negb]. rewrite Hb, Ho.
  destruct (pol =? 0) eqn:E1; [apply N.eqb_eq in E1; congruence|].
  destruct (pol =? u) eqn:E2; [apply N.eqb_eq in E2; congruence|]. reflexivity.
Qed.

(* every session in the table of a well-formed server has a defined owner, and it is the creation-time policy *)
Lemma owner_defined_in_table : forall e s, wf e -> is_client e = false -> In s (e_sessions e) ->
  session_owner s <> 0 /\ s_policy s = Some (session_owner s).
Proof.
  intros e s [_ [HF _]] Hc Hin. rewrite Forall_forall in HF. specialize (HF s Hin). rewrite Hc in HF.
  destruct (server_owner _ _ _ HF) as [o [Ho [Hown [Hp _]]]]. rewrite Hown. auto.
Qed.

(* processing a segment never changes the policy, hence never the owner the dispatch uses *)
Lemma input_identity_policy : forall s g s' o, s_policy s = Some o -> input_identity s g = inr s' -> s_policy s' = Some o.
Proof.
  intros s g s' o Hp H. unfold input_identity in H. cbn [s_policy set_block] in H. rewrite Hp in H.
  repeat match type of H with
  | context [if ?b then _ else _] => destruct b
  | context [match ?x with Some _ => _ | None => _ end] => destruct x
  end; try discriminate; inversion H; subst; simpl; assumption.
Qed.

Lemma input_policy : forall v tr s g s' o, s_policy s = Some o -> input v tr s g = InOk s' -> s_policy s' = Some o.
Proof.
  intros v tr s g s' o Hp H. unfold input in H.
  destruct (negb (input_direction_ok (s_client s) (g_proto g))); [discriminate|].
  destruct (input_identity s g) as [x|s1] eqn:Hid; [discriminate|].
  pose proof (input_identity_policy s g s1 o Hp Hid) as Hp1.
  unfold input_data, input_ack, input_close in H.
  repeat match type of H with
  | context [if ?b then _ else _] => destruct b
  | context [match ?x with Some _ => _ | None => _ end] => destruct x
  | context [match ?x with TCP => _ | UDP => _ end] => destruct x
  | context [match ?x with KSession => _ | _ => _ end] => destruct x
  end; try discriminate; inversion H; subst; simpl; assumption.
Qed.

Lemma owner_stable : forall v tr s g s' o, s_policy s = Some o -> o <> 0 -> input v tr s g = InOk s' ->
  session_owner s' = session_owner s.
Proof.
  intros v tr s g s' o Hp Ho H. rewrite (owner_of_policy s o Hp Ho).
  apply owner_of_policy; [eapply input_policy; eauto | exact Ho].
Qed.

(* the variant "owner = s.userName only": on the freshly created session it is undefined, every user passes *)
Definition owner_username_only (s : session) : N := s_user s.
Lemma username_only_has_window : forall sid pol, owner_username_only (created_session sid pol) = 0.
Proof. reflexivity. Qed.
