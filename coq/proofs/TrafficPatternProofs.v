(* Proofs about model/TrafficPattern.v (property C16, configuration/generation half). *)
From Coq Require Import ZArith NArith List Bool Lia.
From M Require Import gen.Consts model.TrafficPattern.
Import ListNotations.
Open Scope Z_scope.

Ltac unfold_consts :=
  unfold C16_genSleepHiU, C16_genSleepLoU, C16_valMaxSleepMs, C16_genMinHiU, C16_genMinLoU, C16_genMinHiL,
    C16_genMinLoL, C16_genMaxHiU, C16_valNonceMinLenMax, C16_valNonceMaxLenMax, C16_maxPaddingLen,
    C16_genMidHiU, C16_valPadMidMax, C16_valPadEndMax, C16_leModeCount, C16_leRotationCount, C16_leModeOff,
    C16_genTypeHiU, C16_genTypeLoU, C16_genTypeHiL, C16_genTypeLoL in *.

Lemma rng_ok_some lo hi v : rng_ok lo hi (Some v) = true <-> lo <= v <= hi.
Proof. unfold rng_ok. rewrite andb_true_iff, !Z.leb_le. tauto. Qed.

Lemma or_else_rng lo hi o d :
  rng_ok lo hi o = true -> lo <= d <= hi -> rng_ok lo hi (or_else o d) = true.
Proof. destruct o as [v|]; cbn [or_else]; intros H Hd; [exact H | apply rng_ok_some; exact Hd]. Qed.

Lemma valid_iff p :
  valid p <-> validate_tcp (tp_tcp p) = true /\ validate_nonce (tp_nonce p) = true /\
              validate_pad (tp_pad p) = true /\ validate_le (tp_le p) = true.
Proof.
  unfold valid, validate.
  destruct (validate_tcp _), (validate_nonce _), (validate_pad _), (validate_le _); cbn [negb];
    intuition discriminate.
Qed.

Lemma mem_z_nth l : forall k, (k < length l)%nat -> mem_z (nth k l 0) l = true.
Proof.
  unfold mem_z. induction l as [|a l IH]; intros k Hk; cbn [length] in Hk; [exfalso; lia|].
  destruct k as [|k]; cbn [nth existsb].
  - rewrite Z.eqb_refl. reflexivity.
  - rewrite IH by lia. apply orb_true_r.
Qed.

Lemma modes_complete v : 0 <= v < C16_leModeCount -> mem_z v C16_leModes = true.
Proof.
  unfold C16_leModeCount. intros H.
  assert (E : v = 0 \/ v = 1 \/ v = 2 \/ v = 3 \/ v = 4) by lia.
  repeat (destruct E as [E|E]; [subst; reflexivity|]). subst; reflexivity.
Qed.

Lemma mode_off_valid : mem_z C16_leModeOff C16_leModes = true.
Proof. reflexivity. Qed.

Lemma rotations_length : Z.of_nat (length C16_leRotations) = C16_leRotationCount.
Proof. reflexivity. Qed.

(* ------------------------------------------------------------------ generation *)
Section Gen.
  Variable fixed : Z -> hint -> Z.
  Hypothesis Hf : oracle_ok fixed.

  Lemma gen_tcp_valid o seed unlock :
    validate_tcp o = true -> validate_tcp (Some (gen_tcp fixed o seed unlock)) = true.
  Proof.
    intros H. unfold validate_tcp, gen_tcp; cbn [tf_max_sleep].
    apply or_else_rng.
    - destruct o as [f|]; [exact H | reflexivity].
    - destruct unlock.
      + pose proof (Hf (C16_genSleepHiU - C16_genSleepLoU + 1) (seed, TTcpMaxSleep)) as Hd.
        unfold_consts. lia.
      + unfold_consts. lia.
  Qed.

  Lemma gen_nonce_valid clamp o seed unlock :
    validate_nonce o = true ->
    (clamp = true \/ sub o np_max = None \/ sub o np_min <> None) ->
    validate_nonce (Some (gen_nonce fixed clamp o seed unlock)) = true.
  Proof.
    intros H Hc.
    pose proof (Hf (C16_genMinHiU - C16_genMinLoU + 1) (seed, TNonceMinLen)) as HdU.
    pose proof (Hf (C16_genMinHiL - C16_genMinLoL + 1) (seed, TNonceMinLen)) as HdL.
    assert (Hhex : forallb hex_ok (hex_of o) = true).
    { destruct o as [n|]; [|reflexivity]. unfold validate_nonce in H. rewrite !andb_true_iff in H. apply H. }
    assert (Hmin : forall a, sub o np_min = Some a -> 0 <= a <= C16_valNonceMinLenMax).
    { intros a Ha. destruct o as [n|]; [|discriminate]. cbn [sub] in Ha. unfold validate_nonce in H.
      rewrite Ha in H. rewrite !andb_true_iff in H. apply rng_ok_some. apply H. }
    assert (Hmax : forall b, sub o np_max = Some b -> 0 <= b <= C16_valNonceMaxLenMax).
    { intros b Hb. destruct o as [n|]; [|discriminate]. cbn [sub] in Hb. unfold validate_nonce in H.
      rewrite Hb in H. rewrite !andb_true_iff in H. apply rng_ok_some. apply H. }
    assert (Hle : forall a b, sub o np_min = Some a -> sub o np_max = Some b -> a <= b).
    { intros a b Ha Hb. destruct o as [n|]; [|discriminate]. cbn [sub] in Ha, Hb. unfold validate_nonce in H.
      rewrite Ha, Hb in H. rewrite !andb_true_iff in H. apply Z.leb_le. apply H. }
    unfold validate_nonce, gen_nonce. cbn [np_min np_max np_hex].
    fold (hex_of o). rewrite Hhex, andb_true_r.
    destruct (sub o np_min) as [a|] eqn:Ea; destruct (sub o np_max) as [b|] eqn:Eb.
    - specialize (Hmin a eq_refl). specialize (Hmax b eq_refl). specialize (Hle a b eq_refl eq_refl).
      rewrite !andb_true_iff, !rng_ok_some, Z.leb_le. lia.
    - specialize (Hmin a eq_refl).
      pose proof (Hf (C16_genMaxHiU + 1 - a) (seed, TNonceMaxLen)) as Hd.
      rewrite !andb_true_iff, !rng_ok_some, Z.leb_le. unfold_consts. lia.
    - specialize (Hmax b eq_refl).
      assert (clamp = true) as -> by (destruct Hc as [Hc|[Hc|Hc]]; [exact Hc | discriminate | congruence]).
      cbn [andb].
      rewrite !andb_true_iff, !rng_ok_some, Z.leb_le.
      destruct unlock.
      + destruct (Z.ltb_spec b (fixed (C16_genMinHiU - C16_genMinLoU + 1) (seed, TNonceMinLen) + C16_genMinLoU));
          unfold_consts; lia.
      + destruct (Z.ltb_spec b (fixed (C16_genMinHiL - C16_genMinLoL + 1) (seed, TNonceMinLen) + C16_genMinLoL));
          unfold_consts; lia.
    - rewrite !andb_true_iff, !rng_ok_some, Z.leb_le.
      destruct unlock.
      + pose proof (Hf (C16_genMaxHiU + 1 - (fixed (C16_genMinHiU - C16_genMinLoU + 1) (seed, TNonceMinLen) + C16_genMinLoU))
                       (seed, TNonceMaxLen)) as Hd.
        unfold_consts. lia.
      + pose proof (Hf (C16_genMaxHiU + 1 - (fixed (C16_genMinHiL - C16_genMinLoL + 1) (seed, TNonceMinLen) + C16_genMinLoL))
                       (seed, TNonceMaxLen)) as Hd.
        unfold_consts. lia.
  Qed.

  Lemma gen_pad_valid o seed unlock :
    validate_pad o = true -> validate_pad (Some (gen_pad fixed o seed unlock)) = true.
  Proof.
    intros H. unfold validate_pad, gen_pad; cbn [pp_mid pp_end].
    pose proof (Hf (C16_maxPaddingLen + 1) (seed, TPadMid)) as Hm.
    pose proof (Hf (C16_maxPaddingLen + 1) (seed, TPadEnd)) as He.
    apply andb_true_iff; split; apply or_else_rng.
    - destruct o as [p|]; [|reflexivity]. unfold validate_pad in H. apply andb_true_iff in H. apply H.
    - unfold_consts. lia.
    - destruct o as [p|]; [|reflexivity]. unfold validate_pad in H. apply andb_true_iff in H. apply H.
    - destruct unlock; unfold_consts; lia.
  Qed.

  Lemma or_else_enum l o d : enum_ok l o = true -> mem_z d l = true -> enum_ok l (or_else o d) = true.
  Proof. destruct o; cbn [or_else enum_ok]; auto. Qed.

  Lemma gen_le_valid o seed unlock :
    validate_le o = true -> validate_le (Some (gen_le fixed o seed unlock)) = true.
  Proof.
    intros H. unfold validate_le, gen_le; cbn [le_mode le_rot].
    apply andb_true_iff; split; apply or_else_enum.
    - destruct o as [l|]; [|reflexivity]. unfold validate_le in H. apply andb_true_iff in H. apply H.
    - destruct unlock; [apply modes_complete; apply Hf; unfold_consts; lia | apply mode_off_valid].
    - destruct o as [l|]; [|reflexivity]. unfold validate_le in H. apply andb_true_iff in H. apply H.
    - apply mem_z_nth.
      pose proof (Hf C16_leRotationCount (seed, TLeRot)) as Hd. pose proof rotations_length as HL.
      unfold_consts. lia.
  Qed.

  (* validity of the effective pattern, for the code with (clamp = true) and without the fix *)
  Lemma gen_valid_gen clamp orig seed unlock :
    valid orig ->
    (clamp = true \/ sub (tp_nonce orig) np_max = None \/ sub (tp_nonce orig) np_min <> None) ->
    valid (generate_with fixed clamp orig seed unlock).
  Proof.
    intros Hv Hc. apply valid_iff in Hv. destruct Hv as (H1 & H2 & H3 & H4).
    apply valid_iff. unfold generate_with; cbn [tp_tcp tp_nonce tp_pad tp_le].
    repeat split.
    - apply gen_tcp_valid; assumption.
    - apply gen_nonce_valid; assumption.
    - apply gen_pad_valid; assumption.
    - apply gen_le_valid; assumption.
  Qed.

  Lemma gen_valid orig host_seed : valid orig -> valid (generate fixed true orig host_seed).
  Proof. intros Hv. unfold generate. apply gen_valid_gen; [exact Hv | left; reflexivity]. Qed.

  (* the partial statement that holds of the code before the fix *)
  Lemma gen_valid_unfixed_partial orig host_seed :
    valid orig -> (sub (tp_nonce orig) np_max = None \/ sub (tp_nonce orig) np_min <> None) ->
    valid (generate fixed false orig host_seed).
  Proof. intros Hv Hc. unfold generate. apply gen_valid_gen; [exact Hv | right; exact Hc]. Qed.

  (* NewConfig succeeds exactly on valid messages and then yields a valid effective pattern *)
  Lemma new_config_ok orig host_seed :
    (valid orig -> exists e, new_config fixed true orig host_seed = (0, Some e) /\ valid e) /\
    (~ valid orig -> snd (new_config fixed true orig host_seed) = None).
  Proof.
    unfold new_config, valid. split; intros H.
    - rewrite H. cbn. eexists; split; [reflexivity|]. apply gen_valid. exact H.
    - destruct (Z.eqb_spec (validate orig) 0); [contradiction | reflexivity].
  Qed.
End Gen.

(* the witness: only nonce.maxLen = 3 is set (seed 1, unlockAll unset) *)
Definition c16_witness : pattern :=
  {| tp_seed := Some 1; tp_unlock := None; tp_tcp := None;
     tp_nonce := Some {| np_type := None; np_all_udp := None; np_min := None; np_max := Some 3; np_hex := [] |};
     tp_pad := None; tp_le := None |}.

Lemma unfixed_refuted :
  exists orig, valid orig /\
    forall fixed host_seed, oracle_ok fixed -> ~ valid (generate fixed false orig host_seed).
Proof.
  exists c16_witness. split; [reflexivity|].
  intros fixed host Hf Hv. apply valid_iff in Hv. destruct Hv as (_ & H2 & _).
  unfold generate, generate_with, c16_witness in H2. cbn [tp_nonce tp_seed tp_unlock eff_seed getB] in H2.
  unfold validate_nonce, gen_nonce in H2. cbn [sub np_min np_max np_hex andb forallb] in H2.
  rewrite !andb_true_iff in H2. destruct H2 as (((Hmn & _) & Hle) & _).
  apply Z.leb_le in Hle.
  pose proof (Hf (C16_genMinHiL - C16_genMinLoL + 1) (1, TNonceMinLen)) as Hd.
  unfold_consts. lia.
Qed.

(* ------------------------------------------------------------------ explicit fields survive *)

Lemma preserved_or_else {A : Type} (o : option A) d : preserved o (or_else o d).
Proof. intros v ->. reflexivity. Qed.

Lemma gen_preserves_explicit fixed clamp orig seed unlock :
  let e := generate_with fixed clamp orig seed unlock in
  tp_seed e = tp_seed orig /\ tp_unlock e = tp_unlock orig /\
  preserved (sub (tp_tcp orig) tf_enable) (sub (tp_tcp e) tf_enable) /\
  preserved (sub (tp_tcp orig) tf_max_sleep) (sub (tp_tcp e) tf_max_sleep) /\
  preserved (sub (tp_nonce orig) np_type) (sub (tp_nonce e) np_type) /\
  preserved (sub (tp_nonce orig) np_all_udp) (sub (tp_nonce e) np_all_udp) /\
  preserved (sub (tp_nonce orig) np_min) (sub (tp_nonce e) np_min) /\
  preserved (sub (tp_nonce orig) np_max) (sub (tp_nonce e) np_max) /\
  hex_of (tp_nonce e) = hex_of (tp_nonce orig) /\
  preserved (sub (tp_pad orig) pp_mid) (sub (tp_pad e) pp_mid) /\
  preserved (sub (tp_pad orig) pp_end) (sub (tp_pad e) pp_end) /\
  preserved (sub (tp_le orig) le_mode) (sub (tp_le e) le_mode) /\
  preserved (sub (tp_le orig) le_rot) (sub (tp_le e) le_rot).
Proof.
  cbv zeta. unfold generate_with.
  cbn [tp_seed tp_unlock tp_tcp tp_nonce tp_pad tp_le sub hex_of].
  unfold gen_tcp, gen_nonce, gen_pad, gen_le.
  cbn [tf_enable tf_max_sleep np_type np_all_udp np_min np_max np_hex pp_mid pp_end le_mode le_rot].
  repeat split; try apply preserved_or_else.
  - intros v ->. reflexivity.
  - intros v ->. reflexivity.
Qed.

(* every field of the effective pattern is set *)
Lemma gen_all_set fixed clamp orig seed unlock :
  let e := generate_with fixed clamp orig seed unlock in
  is_set (sub (tp_tcp e) tf_enable) /\ is_set (sub (tp_tcp e) tf_max_sleep) /\
  is_set (sub (tp_nonce e) np_type) /\ is_set (sub (tp_nonce e) np_all_udp) /\
  is_set (sub (tp_nonce e) np_min) /\ is_set (sub (tp_nonce e) np_max) /\
  is_set (sub (tp_pad e) pp_mid) /\ is_set (sub (tp_pad e) pp_end) /\
  is_set (sub (tp_le e) le_mode) /\ is_set (sub (tp_le e) le_rot).
Proof.
  cbv zeta. unfold generate_with, is_set.
  cbn [tp_tcp tp_nonce tp_pad tp_le sub].
  unfold gen_tcp, gen_nonce, gen_pad, gen_le.
  cbn [tf_enable tf_max_sleep np_type np_all_udp np_min np_max pp_mid pp_end le_mode le_rot].
  repeat split; try discriminate;
    match goal with |- or_else ?o _ <> None => destruct o; discriminate end.
Qed.

(* ------------------------------------------------------------------ determinism *)

(* the effective pattern depends on the oracle only through the ten hints of the seed in use *)
Lemma gen_deterministic f1 f2 clamp orig seed unlock :
  (forall n t, f1 n (seed, t) = f2 n (seed, t)) ->
  generate_with f1 clamp orig seed unlock = generate_with f2 clamp orig seed unlock.
Proof.
  intros E. unfold generate_with, gen_tcp, gen_nonce, gen_pad, gen_le.
  rewrite !E. reflexivity.
Qed.

(* with an explicit seed the host-derived seed plays no role *)
Lemma gen_seed_explicit fixed clamp orig s h1 h2 :
  tp_seed orig = Some s -> generate fixed clamp orig h1 = generate fixed clamp orig h2.
Proof. intros E. unfold generate, eff_seed. rewrite E. reflexivity. Qed.

(* ------------------------------------------------------------------ nonce rewriting *)

Lemma nonce_len_in_range draw n nonce_size :
  draw_ok draw ->
  let '(mn, mx) := nonce_rewrite_bounds n nonce_size in
  let len := nonce_rewrite_len draw n nonce_size in
  mn <= len <= mx /\
  mx = Z.min (getZ (np_max n)) nonce_size /\ mn = Z.min (getZ (np_min n)) mx /\
  (getZ (np_min n) <= getZ (np_max n) <= nonce_size ->
     getZ (np_min n) <= len <= getZ (np_max n)).
Proof.
  intros Hd. unfold nonce_rewrite_len. unfold nonce_rewrite_bounds.
  set (a := getZ (np_min n)). set (b := getZ (np_max n)).
  set (mx := if nonce_size <? b then nonce_size else b).
  set (mn := if mx <? a then mx else a).
  assert (Emx : mx = Z.min b nonce_size) by (subst mx; destruct (Z.ltb_spec nonce_size b); lia).
  assert (Emn : mn = Z.min a mx) by (subst mn; destruct (Z.ltb_spec mx a); lia).
  destruct (Z.eqb_spec mn mx) as [E|E].
  - repeat split; try lia.
  - pose proof (Hd (mx - mn + 1)) as H. repeat split; try lia.
Qed.

Lemma udp_once all_udp k : udp_packet_patterned all_udp k = (match k with O => true | S _ => all_udp end).
Proof. destruct k, all_udp; reflexivity. Qed.

Lemma stream_always applied all_udp : nonce_pattern_applies true applied all_udp = true.
Proof. reflexivity. Qed.

(* ------------------------------------------------------------------ padding *)

Lemma max_padding_size_range mtu stream frag existing :
  0 <= max_padding_size mtu stream frag existing <= C16_padHardMax.
Proof.
  unfold max_padding_size. destruct stream; [unfold C16_padHardMax; lia|].
  destruct (Z.leb_spec (mtu - frag - C16_packetOverhead) existing); unfold C16_padHardMax in *; lia.
Qed.

(* a configured maximum c >= 0 caps the budget; 0 means no padding; an actual padding length
   drawn within the returned maximum is within the configuration *)
Lemma pad_le_config mtu stream frag existing p pd pos c :
  tp_pad p = Some pd ->
  (pos = 0 /\ pp_mid pd = Some c \/ pos = 1 /\ pp_end pd = Some c) -> 0 <= c ->
  let m := max_padding_tp mtu stream frag existing (Some p) pos in
  m = Z.min (max_padding_size mtu stream frag existing) c /\ 0 <= m <= c /\ (c = 0 -> m = 0) /\
  forall pad, 0 <= pad <= m -> pad <= c.
Proof.
  intros Hp Hpos Hc. cbv zeta. unfold max_padding_tp. cbn [sub]. rewrite Hp.
  pose proof (max_padding_size_range mtu stream frag existing) as Hr.
  destruct Hpos as [[-> Hm]|[-> Hm]]; cbn [Z.eqb Pos.eqb]; rewrite Hm;
    (destruct (Z.ltb_spec c 0); [lia|]); repeat split; try lia; intros; lia.
Qed.

(* nothing configured: the budget is the transport's *)
Lemma pad_unconfigured mtu stream frag existing pos :
  max_padding_tp mtu stream frag existing None pos = max_padding_size mtu stream frag existing.
Proof. reflexivity. Qed.

(* ------------------------------------------------------------------ low entropy *)

Lemma existsb_eqb_In v l : existsb (Z.eqb v) l = true <-> In v l.
Proof.
  rewrite existsb_exists. split.
  - intros (x & Hx & E). apply Z.eqb_eq in E. subst. exact Hx.
  - intros H. exists v. split; [exact H | apply Z.eqb_refl].
Qed.

Lemma le_decision_spec tp is_client client_used :
  let '(m, r, send) := le_send_decision tp is_client client_used in
  let '(cm, cr, en) := extract_le tp in
  (send = true -> en = true /\ m = cm /\ r = cr /\ cm <> C16_leModeOff /\ (is_client = true \/ client_used = true)) /\
  (send = false -> m = C16_leModeOff /\ r = C16_leRotNone) /\
  (is_client = true -> send = en) /\
  (en = true -> cm = getZ (sub (sub tp tp_le) le_mode) /\ cr = getZ (sub (sub tp tp_le) le_rot)).
Proof.
  unfold le_send_decision, extract_le.
  destruct (sub tp tp_le) as [l|]; cbn [sub].
  - destruct (Z.eqb_spec (getZ (le_mode l)) C16_leModeOff) as [E|E]; cbn [negb].
    + repeat split; intros; try discriminate; auto.
    + destruct is_client, client_used; cbn [negb andb]; repeat split; intros; try discriminate; auto.
  - cbn [negb]. repeat split; intros; try discriminate; auto.
Qed.

Lemma server_le_only_after_client tp hist :
  let '(m, r, send) := server_send tp hist in
  (send = true -> In C16_protoDataC2SLowEntropy hist) /\
  (~ In C16_protoDataC2SLowEntropy hist -> send = false /\ m = C16_leModeOff /\ r = C16_leRotNone).
Proof.
  unfold server_send.
  pose proof (le_decision_spec tp false (client_used_after hist)) as H.
  destruct (le_send_decision tp false (client_used_after hist)) as [[m r] send].
  destruct (extract_le tp) as [[cm cr] en].
  destruct H as (H1 & H2 & _ & _).
  assert (Hs : send = true -> In C16_protoDataC2SLowEntropy hist).
  { intros Hs. destruct (H1 Hs) as (_ & _ & _ & _ & [Hc|Hc]); [discriminate|].
    unfold client_used_after in Hc. apply existsb_eqb_In. exact Hc. }
  split; [exact Hs|].
  intros Hn. destruct send; [exfalso; auto | split; [reflexivity | apply H2; reflexivity]].
Qed.

(* the flag is monotone: once the client used low entropy the server may keep using it *)
Lemma client_used_monotone h1 h2 : client_used_after h1 = true -> client_used_after (h1 ++ h2) = true.
Proof. unfold client_used_after. rewrite existsb_app. intros ->. reflexivity. Qed.

(* ------------------------------------------------------------------ non-vacuity *)

Definition ex_oracle : Z -> hint -> Z := fun n _ => n - 1.
Lemma ex_oracle_ok : oracle_ok ex_oracle.
Proof. unfold oracle_ok, ex_oracle. intros; lia. Qed.
Definition ex_draw : Z -> Z := fun n => n / 2.
Lemma ex_draw_ok : draw_ok ex_draw.
Proof. unfold draw_ok, ex_draw. intros n Hn. split; [apply Z.div_pos; lia | apply Z.div_lt_upper_bound; lia]. Qed.

(* 0x61 0x62 = "ab" *)
Definition ex_orig : pattern :=
  {| tp_seed := Some 7; tp_unlock := Some true;
     tp_tcp := Some {| tf_enable := Some true; tf_max_sleep := None |};
     tp_nonce := Some {| np_type := Some 3; np_all_udp := None; np_min := None; np_max := Some 0;
                         np_hex := [[97%N; 98%N]] |};
     tp_pad := Some {| pp_mid := Some 0; pp_end := None |};
     tp_le := Some {| le_mode := Some 2; le_rot := None |} |}.

Example ex_orig_valid : valid ex_orig.
Proof. reflexivity. Qed.
Example ex_effective :
  let e := generate ex_oracle true ex_orig 99 in
  valid e /\ sub (tp_nonce e) np_min = Some 0 /\ sub (tp_nonce e) np_max = Some 0 /\
  sub (tp_pad e) pp_mid = Some 0 /\ sub (tp_pad e) pp_end = Some 255 /\
  sub (tp_tcp e) tf_max_sleep = Some 100 /\ sub (tp_le e) le_rot = Some 240.
Proof. vm_compute. repeat split; reflexivity. Qed.
Example ex_witness_unfixed :
  sub (tp_nonce (generate ex_oracle false c16_witness 0)) np_min = Some 12 /\
  validate (generate ex_oracle false c16_witness 0) = 2 /\
  validate (generate ex_oracle true c16_witness 0) = 0.
Proof. vm_compute. repeat split; reflexivity. Qed.
Example ex_invalid : validate {| tp_seed := None; tp_unlock := None; tp_tcp := None; tp_nonce := None;
                                 tp_pad := Some {| pp_mid := Some 256; pp_end := None |}; tp_le := None |} = 3.
Proof. reflexivity. Qed.
Example ex_rewrite :
  nonce_rewrite_len ex_draw {| np_type := Some 1; np_all_udp := None; np_min := Some 4; np_max := Some 30; np_hex := [] |} 24 = 14.
Proof. reflexivity. Qed.
Example ex_pad : max_padding_tp 1400 false 1000 10 (Some (generate ex_oracle true ex_orig 0)) 0 = 0 /\
                 max_padding_tp 1400 false 1000 10 (Some (generate ex_oracle true ex_orig 0)) 1 = 255 /\
                 max_padding_tp 1400 false 1300 10 (Some (generate ex_oracle true ex_orig 0)) 1 = 2.
Proof. vm_compute. repeat split; reflexivity. Qed.
Example ex_server : server_send (Some ex_orig) [2; 6] = (0, 0, false) /\ server_send (Some ex_orig) [2; 10; 6] = (2, 0, true).
Proof. vm_compute. split; reflexivity. Qed.

(* ------------------------------------------------------------------ TCP fragmentation *)

Lemma frag_loop_spec mn k : 1 <= mn -> 1 <= k ->
  forall fuel rem draws, (length rem <= fuel)%nat ->
  concat (frag_loop fuel mn k rem draws) = rem /\
  Forall (fun p => p <> [] /\ Z.of_nat (length p) <= mn + k - 1) (frag_loop fuel mn k rem draws) /\
  (length (frag_loop fuel mn k rem draws) <= length rem)%nat.
Proof.
  intros Hmn Hk. induction fuel as [|f IH]; intros rem draws Hf.
  - destruct rem; cbn [length] in Hf; [|lia]. cbn. repeat split; [constructor | lia].
  - destruct rem as [|b rem']; [cbn; repeat split; [constructor | lia]|].
    cbn [frag_loop]. set (rem := b :: rem') in *.
    set (want := mn + hd 0 draws mod k).
    set (take := Z.to_nat (Z.min want (Z.of_nat (length rem)))).
    assert (Hw : mn <= want <= mn + k - 1).
    { subst want. pose proof (Z.mod_pos_bound (hd 0 draws) k ltac:(lia)). lia. }
    assert (Hl : (1 <= length rem)%nat) by (subst rem; cbn [length]; lia).
    assert (Ht : (1 <= take <= length rem)%nat) by (subst take; lia).
    assert (Htw : Z.of_nat take <= want) by (subst take; lia).
    destruct (IH (skipn take rem) (tl draws)) as (Hc & Hall & Hlen).
    { rewrite skipn_length. lia. }
    cbn [concat length]. rewrite Hc, firstn_skipn. repeat split.
    + constructor; [|exact Hall]. split.
      * intros E. apply (f_equal (@length N)) in E. rewrite firstn_length in E. cbn [length] in E. lia.
      * rewrite firstn_length. lia.
    + rewrite skipn_length in Hlen. lia.
Qed.

Lemma sqrt_bounds n : 0 <= n -> 1 <= frag_min_len n /\ frag_min_len n <= frag_max_len n /\
  (3 <= n -> frag_max_len n < n).
Proof.
  intros Hn. unfold frag_max_len, frag_min_len.
  pose proof (Z.sqrt_spec n Hn) as Hs. cbv zeta in Hs. pose proof (Z.sqrt_nonneg n) as Hp.
  repeat split; try lia.
  intros H3. assert (Z.sqrt n + 1 < n) by nia.
  assert (n / 2 < n) by (apply Z.div_lt_upper_bound; lia). lia.
Qed.

(* same bytes, non-empty pieces within [1, max(minLen, n/2)], at most n pieces: for every buffer and every draws *)
Lemma tcp_fragment_plan_spec data draws :
  let n := Z.of_nat (length data) in
  concat (fragment_plan data draws) = data /\
  Forall (fun p => p <> [] /\ 1 <= Z.of_nat (length p) <= frag_max_len n) (fragment_plan data draws) /\
  (length (fragment_plan data draws) <= length data)%nat /\
  (3 <= n -> (2 <= length (fragment_plan data draws))%nat).
Proof.
  cbv zeta. set (n := Z.of_nat (length data)).
  destruct (sqrt_bounds n ltac:(lia)) as (H1 & H2 & H3).
  unfold fragment_plan. fold n.
  destruct (frag_loop_spec (frag_min_len n) (frag_max_len n - frag_min_len n + 1) H1 ltac:(lia)
              (length data) data draws (le_n _)) as (Hc & Hall & Hlen).
  set (plan := frag_loop _ _ _ _ _) in *.
  assert (Hall' : Forall (fun p => p <> [] /\ 1 <= Z.of_nat (length p) <= frag_max_len n) plan).
  { eapply Forall_impl; [|exact Hall]. cbv beta. intros p [Hne Hle]. split; [exact Hne|].
    destruct p; [contradiction | cbn [length] in *; lia]. }
  repeat split; try assumption.
  intros Hn3. specialize (H3 Hn3).
  destruct plan as [|p [|q r]]; cbn [length]; try lia.
  - cbn in Hc. subst data. cbn in n. lia.
  - cbn [concat] in Hc. rewrite app_nil_r in Hc. subst p.
    inversion Hall' as [|? ? [_ Hb] _]. fold n in Hb. lia.
Qed.

Lemma tcp_fragment_same_bytes tp data draws :
  concat (tcp_writes tp data draws) = data /\
  (fragments_enabled tp = true -> Forall (fun p => p <> []) (tcp_writes tp data draws) /\
                                  (length (tcp_writes tp data draws) <= length data)%nat).
Proof.
  unfold tcp_writes. pose proof (tcp_fragment_plan_spec data draws) as H. cbv zeta in H.
  destruct H as (Hc & Hall & Hlen & _).
  destruct (fragments_enabled tp).
  - split; [exact Hc|]. intros _. split; [|exact Hlen].
    eapply Forall_impl; [|exact Hall]. cbv beta. tauto.
  - split; [cbn; apply app_nil_r | discriminate].
Qed.

Lemma tcp_fragment_honoured tp data draws :
  let n := Z.of_nat (length data) in
  (fragments_enabled tp = true ->
     Forall (fun p => 1 <= Z.of_nat (length p) <= Z.max (Z.sqrt n + 1) (n / 2)) (tcp_writes tp data draws) /\
     (3 <= n -> (2 <= length (tcp_writes tp data draws))%nat /\ Z.max (Z.sqrt n + 1) (n / 2) < n)) /\
  (fragments_enabled tp = false -> tcp_writes tp data draws = [data]) /\
  (fragments_enabled tp = true <-> sub (sub tp tp_tcp) tf_enable = Some true) /\
  (forall d s, frag_sleep tp d = Some s ->
     0 <= s <= getZ (sub (sub tp tp_tcp) tf_max_sleep) /\ 0 < getZ (sub (sub tp tp_tcp) tf_max_sleep)) /\
  (getZ (sub (sub tp tp_tcp) tf_max_sleep) <= 0 -> forall d, frag_sleep tp d = None).
Proof.
  cbv zeta. unfold tcp_writes.
  pose proof (tcp_fragment_plan_spec data draws) as H. cbv zeta in H.
  destruct H as (_ & Hall & _ & H2).
  set (ms := getZ (sub (sub tp tp_tcp) tf_max_sleep)).
  split; [|split; [|split; [|split]]].
  - intros He. rewrite He. split.
    + eapply Forall_impl; [|exact Hall]. cbv beta. unfold frag_max_len, frag_min_len. tauto.
    + intros H3. split; [apply H2; exact H3|].
      destruct (sqrt_bounds (Z.of_nat (length data)) ltac:(lia)) as (_ & _ & Hb).
      unfold frag_max_len, frag_min_len in Hb. apply Hb. exact H3.
  - intros ->. reflexivity.
  - unfold fragments_enabled. destruct (sub (sub tp tp_tcp) tf_enable) as [[|]|]; cbn [getB]; split; congruence.
  - intros d s Hs. unfold frag_sleep in Hs. fold ms in Hs.
    destruct (Z.ltb_spec 0 ms); [|discriminate]. inversion Hs.
    pose proof (Z.mod_pos_bound d (ms + 1) ltac:(lia)). lia.
  - intros Hle d. unfold frag_sleep. fold ms.
    destruct (Z.ltb_spec 0 ms); [lia | reflexivity].
Qed.

(* the threshold 3 is exact: buffers of 1 or 2 bytes leave in one piece whatever is drawn *)
Lemma tcp_fragment_small data draws :
  (1 <= length data <= 2)%nat -> fragment_plan data draws = [data].
Proof.
  intros H. destruct data as [|a [|b [|c r]]]; cbn [length] in H; try lia.
  - unfold fragment_plan. cbn [length frag_loop]. change (frag_min_len (Z.of_nat 1)) with 2.
    change (frag_max_len (Z.of_nat 1) - 2 + 1) with 1. rewrite Z.mod_1_r. reflexivity.
  - unfold fragment_plan. cbn [length frag_loop]. change (frag_min_len (Z.of_nat 2)) with 2.
    change (frag_max_len (Z.of_nat 2) - 2 + 1) with 1. rewrite Z.mod_1_r. reflexivity.
Qed.

Definition ex_tp_frag : option pattern :=
  Some {| tp_seed := None; tp_unlock := None; tp_tcp := Some {| tf_enable := Some true; tf_max_sleep := Some 5 |};
          tp_nonce := None; tp_pad := None; tp_le := None |}.
Example ex_fragments :
  tcp_writes ex_tp_frag [1;2;3;4;5;6;7;8;9;10]%N [0; 7; 2] = [[1;2;3;4]; [5;6;7;8;9]; [10]]%N /\
  tcp_writes None [1;2;3]%N [0] = [[1;2;3]]%N /\
  tcp_writes ex_tp_frag [1;2;3]%N [] = [[1;2]; [3]]%N /\
  frag_sleep ex_tp_frag 17 = Some 5 /\ frag_sleep None 17 = None.
Proof. vm_compute. repeat split; reflexivity. Qed.

(* ------------------------------------------------------------------ UDP server: pattern independent of the block's origin *)

Lemma set_nth_length {A} (l : list A) : forall i x, length (set_nth l i x) = length l.
Proof. induction l as [|h t IH]; intros [|i] x; cbn [set_nth length]; auto. Qed.

Lemma set_nth_Forall {A} (P : A -> Prop) (l : list A) : forall i x, Forall P l -> P x -> Forall P (set_nth l i x).
Proof.
  induction l as [|h t IH]; intros [|i] x Hl Hx; cbn [set_nth]; auto; inversion Hl; subst; constructor; auto.
Qed.

Section Srv.
  Variable tp : option pattern.

  Definition blk_ok (b : sblock) : Prop := bk_pattern b = server_nonce_cfg tp.
  (* the datagram carries the configured pattern, and with applyToAllUDPPacket the pattern is applied to it *)
  Definition dg_ok (d : out_dgram) : Prop :=
    dg_pattern d = server_nonce_cfg tp /\
    (forall np, server_nonce_cfg tp = Some np -> getB (np_all_udp np) = true -> dg_patterned d = true).
  Definition st_ok (st : srv_state) : Prop :=
    Forall blk_ok (st_blocks st) /\
    Forall (fun s => (us_block s < length (st_blocks st))%nat) (st_sessions st).

  Lemma emit_one_ok path b : blk_ok b ->
    dg_ok (fst (emit_one path b)) /\ blk_ok (snd (emit_one path b)) /\ dg_path (fst (emit_one path b)) = path.
  Proof.
    unfold blk_ok, dg_ok, emit_one. intros Hb.
    destruct (bk_pattern b) as [np|] eqn:E; cbn [fst snd dg_pattern dg_patterned dg_path bk_pattern].
    - split; [split|split]; try reflexivity; try exact Hb.
      intros np' Hc Hall. rewrite <- Hb in Hc. inversion Hc; subst np'.
      rewrite Hall. destruct (bk_applied b); reflexivity.
    - split; [split|split]; try reflexivity; try exact Hb; try (rewrite E; exact Hb).
      intros np' Hc. rewrite <- Hb in Hc. discriminate.
  Qed.

  Lemma emit_n_ok path : forall n b, blk_ok b ->
    Forall dg_ok (fst (emit_n path b n)) /\ blk_ok (snd (emit_n path b n)) /\
    length (fst (emit_n path b n)) = n /\ Forall (fun d => dg_path d = path) (fst (emit_n path b n)).
  Proof.
    induction n as [|n IH]; intros b Hb; cbn [emit_n].
    - cbn. repeat split; auto.
    - destruct (emit_one_ok path b Hb) as (H1 & H2 & H3).
      destruct (emit_one path b) as [d b1]. cbn [fst snd] in *.
      destruct (IH b1 H2) as (I1 & I2 & I3 & I4).
      destruct (emit_n path b1 n) as [ds b2]. cbn [fst snd length] in *.
      repeat split; auto.
  Qed.

  Lemma srv_tail path bi blocks1 sessions1 n :
    Forall blk_ok blocks1 -> (bi < length blocks1)%nat ->
    Forall (fun s => (us_block s < length blocks1)%nat) sessions1 ->
    let r := match nth_error blocks1 bi with
             | None => ([], {| st_blocks := blocks1; st_sessions := sessions1 |})
             | Some b => let '(ds, b') := emit_n path b n in
                         (ds, {| st_blocks := set_nth blocks1 bi b'; st_sessions := sessions1 |})
             end in
    Forall dg_ok (fst r) /\ st_ok (snd r) /\ length (fst r) = n /\ Forall (fun d => dg_path d = path) (fst r).
  Proof.
    intros Hb Hi Hs. cbv zeta.
    destruct (nth_error blocks1 bi) as [b|] eqn:E.
    2:{ apply nth_error_None in E. lia. }
    assert (Hbo : blk_ok b). { eapply Forall_forall; [exact Hb | eapply nth_error_In; exact E]. }
    destruct (emit_n_ok path n b Hbo) as (I1 & I2 & I3 & I4).
    destruct (emit_n path b n) as [ds b']. cbn [fst snd] in *.
    repeat split; auto.
    - cbn [st_blocks]. apply set_nth_Forall; assumption.
    - cbn [st_blocks st_sessions]. rewrite set_nth_length. exact Hs.
  Qed.

  Lemma srv_step_ok st ev : st_ok st ->
    Forall dg_ok (fst (srv_step tp true st ev)) /\ st_ok (snd (srv_step tp true st ev)) /\
    (length (fst (srv_step tp true st ev)) = ev_out ev \/ length (fst (srv_step tp true st ev)) = 1%nat).
  Proof.
    intros [Hb Hs]. unfold srv_step.
    assert (Hold : forall s, In s (st_sessions st) -> (us_block s < length (st_blocks st))%nat).
    { apply Forall_forall. exact Hs. }
    (* the block and its index *)
    assert (Hsel : exists path bi blocks1,
      (match find (fun s => us_addr s =? ev_addr ev) (st_sessions st) with
       | Some s => (OriginExisting, us_block s, st_blocks st)
       | None => (if ev_open ev then OriginOpen else OriginRediscovered, length (st_blocks st),
                  st_blocks st ++ [discover tp true (if ev_open ev then OriginOpen else OriginRediscovered)])
       end) = (path, bi, blocks1) /\
      Forall blk_ok blocks1 /\ (bi < length blocks1)%nat /\ (length (st_blocks st) <= length blocks1)%nat).
    { destruct (find (fun s => us_addr s =? ev_addr ev) (st_sessions st)) as [s|] eqn:F.
      - apply find_some in F. destruct F as [Fin _].
        do 3 eexists. split; [reflexivity|]. repeat split; auto.
      - do 3 eexists. split; [reflexivity|]. rewrite app_length. cbn [length]. repeat split; try lia.
        apply Forall_app. split; [exact Hb|]. constructor; [|constructor].
        unfold blk_ok, discover. cbn [bk_pattern orb]. reflexivity. }
    destruct Hsel as (path & bi & blocks1 & Esel & Hb1 & Hbi & Hlen).
    cbv zeta in Esel |- *. rewrite Esel.
    assert (Hs1 : Forall (fun s => (us_block s < length blocks1)%nat) (st_sessions st)).
    { eapply Forall_impl; [|exact Hs]. cbv beta. intros; lia. }
    destruct (find (fun s => us_sid s =? ev_sid ev) (st_sessions st)) as [k|].
    - pose proof (srv_tail path bi blocks1
        (map (fun s => if us_sid s =? ev_sid ev then {| us_sid := us_sid s; us_addr := us_addr s; us_block := bi |} else s)
             (st_sessions st)) (ev_out ev) Hb1 Hbi) as T. cbv zeta in T.
      destruct T as (T1 & T2 & T3 & _).
      { apply Forall_forall. intros s Hin. apply in_map_iff in Hin. destruct Hin as (s0 & <- & Hin0).
        destruct (us_sid s0 =? ev_sid ev); [cbn [us_block]; exact Hbi|].
        eapply Forall_forall in Hs1; [exact Hs1 | exact Hin0]. }
      split; [exact T1 | split; [exact T2 | left; exact T3]].
    - destruct (ev_open ev).
      + pose proof (srv_tail path bi blocks1
          (st_sessions st ++ [{| us_sid := ev_sid ev; us_addr := ev_addr ev; us_block := bi |}]) (ev_out ev) Hb1 Hbi) as T.
        cbv zeta in T. destruct T as (T1 & T2 & T3 & _).
        { apply Forall_app. split; [exact Hs1|]. constructor; [cbn [us_block]; exact Hbi | constructor]. }
        split; [exact T1 | split; [exact T2 | left; exact T3]].
      + pose proof (srv_tail path bi blocks1 (st_sessions st) 1%nat Hb1 Hbi Hs1) as T.
        cbv zeta in T. destruct T as (T1 & T2 & T3 & _).
        split; [exact T1 | split; [exact T2 | right; exact T3]].
  Qed.

  Lemma srv_run_ok : forall hist st, st_ok st ->
    Forall2 (fun ev ds => Forall dg_ok ds /\ (length ds = ev_out ev \/ length ds = 1%nat)) hist (srv_run tp true st hist).
  Proof.
    induction hist as [|ev rest IH]; intros st Hst; cbn [srv_run]; [constructor|].
    destruct (srv_step_ok st ev Hst) as (H1 & H2 & H3).
    destruct (srv_step tp true st ev) as [ds st1]. cbn [fst snd] in *.
    constructor; [split; assumption | apply IH; exact H2].
  Qed.

  Lemma srv_empty_ok : st_ok srv_empty.
  Proof. split; constructor. Qed.
End Srv.

(* for every configuration and every history of authenticated incoming datagrams: every datagram the server emits
   carries exactly the configured nonce pattern - a function of the configuration only, whichever path produced the
   cipher block - with applyToAllUDPPacket the pattern is applied to it, and every incoming datagram is answered
   with the datagrams it calls for (the totalised "invalid block index" branch is never taken) *)
Lemma udp_pattern_independent_of_block_origin tp hist :
  Forall2 (fun ev ds =>
             Forall (fun d => dg_pattern d = server_nonce_cfg tp /\
                              (forall np, server_nonce_cfg tp = Some np -> getB (np_all_udp np) = true ->
                                          dg_patterned d = true)) ds /\
             (length ds = ev_out ev \/ length ds = 1%nat))
          hist (srv_run tp true srv_empty hist).
Proof. apply srv_run_ok. apply srv_empty_ok. Qed.

(* whatever the path, the first datagram encrypted with a newly discovered block gets the pattern
   (applyToAllUDPPacket false or unset included) *)
Lemma udp_first_datagram_patterned tp path np :
  server_nonce_cfg tp = Some np -> dg_patterned (fst (emit_one path (discover tp true path))) = true.
Proof.
  intros E. unfold discover, emit_one. cbn [orb bk_pattern bk_applied]. rewrite E.
  cbn [fst dg_patterned]. unfold nonce_pattern_applies. cbn. reflexivity.
Qed.

(* the variant that sets the pattern in onOpenSessionRequest only: rebinding and an unknown session id both make
   the server emit a datagram without the configured pattern (so the statement above is not vacuous) *)
Definition ex_srv_tp : option pattern :=
  Some {| tp_seed := None; tp_unlock := None; tp_tcp := None;
          tp_nonce := Some {| np_type := Some 1; np_all_udp := Some true; np_min := Some 12; np_max := Some 12; np_hex := [] |};
          tp_pad := None; tp_le := None |}.
Definition ex_hist : list in_event :=
  [ {| ev_open := true; ev_sid := 7; ev_addr := 1; ev_out := 2 |};     (* open from address 1 *)
    {| ev_open := false; ev_sid := 7; ev_addr := 1; ev_out := 1 |};    (* data, same address: existing block *)
    {| ev_open := false; ev_sid := 7; ev_addr := 2; ev_out := 2 |};    (* same session from address 2: rediscovered *)
    {| ev_open := false; ev_sid := 9; ev_addr := 3; ev_out := 5 |} ].  (* unknown session id: one close request *)
Example ex_srv_paths :
  map (map dg_path) (srv_run ex_srv_tp true srv_empty ex_hist) =
    [[OriginOpen; OriginOpen]; [OriginExisting]; [OriginRediscovered; OriginRediscovered]; [OriginRediscovered]] /\
  map (map dg_patterned) (srv_run ex_srv_tp true srv_empty ex_hist) = [[true; true]; [true]; [true; true]; [true]] /\
  map (map dg_patterned) (srv_run ex_srv_tp false srv_empty ex_hist) = [[true; true]; [true]; [false; false]; [false]].
Proof. vm_compute. repeat split; reflexivity. Qed.
