(* C18 — proofs about model/Frame.v *)
From Coq Require Import NArith ZArith List Bool Lia.
From Coq Require Import ZifyN ZifyNat ZifyBool.
From M Require Import gen.Consts model.Frame.
Import ListNotations.
Open Scope N_scope.
Ltac Zify.zify_post_hook ::= Z.div_mod_to_equations.
Ltac fs := cbn [feed step app].

(* side conditions on the regenerated constants (a changed constant breaks these) *)
Lemma frame_consts_ok :
  START < 256 /\ END_ < 256 /\ MAXLEN = 65535 /\ C18_FrameLenBytes = 2%Z /\ C18_FrameOverhead = 4%Z.
Proof. vm_compute. repeat split; reflexivity. Qed.

Lemma lenN_app : forall a b, lenN (a ++ b) = lenN a + lenN b.
Proof. induction a as [|x a IH]; intros b; cbn [lenN app]; [|rewrite IH]; lia. Qed.

Lemma lenN_0 : forall l, lenN l = 0 -> l = [].
Proof. destruct l; cbn [lenN]; intros H; [reflexivity|lia]. Qed.

Lemma lenN_length : forall l, lenN l = N.of_nat (length l).
Proof. induction l as [|x l IH]; cbn [lenN length]; [reflexivity|rewrite IH; lia]. Qed.

Lemma frame_len : forall d, lenN (frame d) = lenN d + Z.to_N C18_FrameOverhead.
Proof. intros d. unfold frame. cbn [lenN]. rewrite lenN_app. cbn [lenN]. change (Z.to_N C18_FrameOverhead) with 4. lia. Qed.

(* ---------- chunking independence ---------- *)
Lemma feed_app : forall cap a b ph,
  feed cap ph (a ++ b) =
  (let (e1, p1) := feed cap ph a in let (e2, p2) := feed cap p1 b in (e1 ++ e2, p2)).
Proof.
  intros cap a b. induction a as [|x a IH]; intros ph; cbn [app feed].
  - destruct (feed cap ph b); reflexivity.
  - destruct (step cap ph x) as [p1 e]. rewrite IH.
    destruct (feed cap p1 a) as [e1 p2]. destruct (feed cap p2 b) as [e2 p3].
    rewrite app_assoc. reflexivity.
Qed.

Lemma feed_chunks_concat : forall cap chunks ph,
  feed_chunks cap ph chunks = feed cap ph (concat chunks).
Proof.
  intros cap chunks. induction chunks as [|c t IH]; intros ph; cbn [feed_chunks concat].
  - reflexivity.
  - rewrite feed_app. destruct (feed cap ph c) as [e1 p1]. rewrite IH. reflexivity.
Qed.

(* ---------- one frame ---------- *)
Lemma feed_data : forall cap d acc k, d <> [] ->
  feed cap (PData (lenN d + k) acc) d =
  ([], if k =? 0 then PEnd (rev d ++ acc) else PData k (rev d ++ acc)).
Proof.
  intros cap d. induction d as [|x t IH]; intros acc k Hne; [congruence|].
  cbn [feed step lenN].
  destruct t as [|y t'].
  - cbn [lenN feed rev app].
    destruct (N.eqb_spec k 0) as [Hk|Hk].
    + subst k. replace (N.succ 0 + 0 =? 1) with true by (symmetry; apply N.eqb_eq; lia). reflexivity.
    + replace (N.succ 0 + k =? 1) with false by (symmetry; apply N.eqb_neq; lia).
      replace (N.succ 0 + k - 1) with k by lia. reflexivity.
  - replace (N.succ (lenN (y :: t')) + k =? 1) with false
      by (symmetry; apply N.eqb_neq; cbn [lenN]; lia).
    replace (N.succ (lenN (y :: t')) + k - 1) with (lenN (y :: t') + k) by lia.
    rewrite IH by discriminate.
    cbn [app]. change (rev (x :: y :: t')) with (rev (y :: t') ++ [x]).
    rewrite <- app_assoc. reflexivity.
Qed.

Lemma feed_data0 : forall cap d acc, d <> [] ->
  feed cap (PData (lenN d) acc) d = ([], PEnd (rev d ++ acc)).
Proof.
  intros cap d acc Hne. pose proof (feed_data cap d acc 0 Hne) as H.
  rewrite N.add_0_r in H. exact H.
Qed.

Lemma len_split : forall L, L / 256 * 256 + L mod 256 = L.
Proof. intros L. lia. Qed.

Lemma feed_frame : forall cap d, lenN d <= cap ->
  feed cap PStart (frame d) = ([EvD d], PStart).
Proof.
  intros cap d Hcap. unfold frame. cbn [feed step]. rewrite N.eqb_refl; fs.
  rewrite len_split.
  replace (cap <? lenN d) with false by (symmetry; apply N.ltb_ge; exact Hcap); fs.
  destruct (N.eqb_spec (lenN d) 0) as [H0|H0]; fs.
  - apply lenN_0 in H0. subst d. cbn [app feed step]. rewrite N.eqb_refl; fs. reflexivity.
  - assert (Hne : d <> []) by (intros ->; apply H0; reflexivity).
    rewrite feed_app. rewrite feed_data0 by exact Hne. fs.
    cbn [feed step]. rewrite N.eqb_refl; fs. rewrite rev_append_rev, !app_nil_r, rev_involutive. reflexivity.
Qed.

Lemma feed_frames : forall cap ds, Forall (fun d => lenN d <= cap) ds ->
  feed cap PStart (concat (map frame ds)) = (map EvD ds, PStart).
Proof.
  intros cap ds H. induction H as [|d t Hd Ht IH]; cbn [map concat].
  - reflexivity.
  - rewrite feed_app, feed_frame by exact Hd. rewrite IH. reflexivity.
Qed.

(* ---------- the writer ---------- *)
Lemma write_ok : forall d, lenN d <= MAXLEN -> write d = Some (frame d).
Proof. intros d H. unfold write. replace (MAXLEN <? lenN d) with false by (symmetry; apply N.ltb_ge; exact H). reflexivity. Qed.

Lemma write_too_long : forall d, MAXLEN < lenN d -> write d = None.
Proof. intros d H. unfold write. replace (MAXLEN <? lenN d) with true by (symmetry; apply N.ltb_lt; exact H). reflexivity. Qed.

Lemma write_all_spec : forall ds s, write_all ds = Some s ->
  s = concat (map frame ds) /\ Forall (fun d => lenN d <= MAXLEN) ds.
Proof.
  induction ds as [|d t IH]; intros s H; cbn [write_all] in H.
  - inversion H. split; [reflexivity|constructor].
  - unfold write in H. destruct (N.ltb_spec MAXLEN (lenN d)) as [Hl|Hl]; [discriminate|].
    destruct (write_all t) as [r|] eqn:Er; [|discriminate].
    inversion H. destruct (IH r eq_refl) as [-> Hf]. split; [reflexivity|constructor; assumption].
Qed.

Lemma write_all_ok : forall ds, Forall (fun d => lenN d <= MAXLEN) ds ->
  write_all ds = Some (concat (map frame ds)).
Proof.
  intros ds H. induction H as [|d t Hd Ht IH]; cbn [write_all map concat]; [reflexivity|].
  rewrite write_ok by exact Hd. rewrite IH. reflexivity.
Qed.

Lemma frame_bytes_ok : forall d, bytes_ok d -> lenN d <= MAXLEN -> bytes_ok (frame d).
Proof.
  intros d Hd Hl. destruct frame_consts_ok as (Hs & He & Hm & _).
  unfold bytes_ok, frame. constructor; [exact Hs|]. constructor; [rewrite Hm in Hl; lia|].
  constructor; [lia|]. apply Forall_app. split; [exact Hd|]. constructor; [exact He|constructor].
Qed.

(* ---------- the callers' loop ---------- *)
Lemma cut_app_dgrams : forall ds es, cut (map EvD ds ++ es) = map EvD ds ++ cut es.
Proof. induction ds as [|d t IH]; intros es; cbn [map app cut]; [reflexivity|rewrite IH; reflexivity]. Qed.

Lemma read_loop_after_frames : forall cap ds x, Forall (fun d => lenN d <= cap) ds ->
  read_loop cap (concat (map frame ds) ++ x) = map EvD ds ++ read_loop cap x.
Proof.
  intros cap ds x H. unfold read_loop, run_raw. rewrite feed_app, feed_frames by exact H.
  destruct (feed cap PStart x) as [es ph]. rewrite <- app_assoc. apply cut_app_dgrams.
Qed.

Lemma read_loop_nil : forall cap, read_loop cap [] = [EvErr EEof].
Proof. reflexivity. Qed.

(* THE round trip: every list of datagrams the writer accepts, every chunking of the stream *)
Lemma frame_stream_roundtrip : forall cap ds s chunks,
  write_all ds = Some s ->
  Forall (fun d => lenN d <= cap) ds ->
  concat chunks = s ->
  feed_chunks cap PStart chunks = (map EvD ds, PStart) /\
  read_loop cap s = map EvD ds ++ [EvErr EEof].
Proof.
  intros cap ds s chunks Hw Hc Hs. apply write_all_spec in Hw. destruct Hw as [-> _]. split.
  - rewrite feed_chunks_concat, Hs. apply feed_frames. exact Hc.
  - rewrite <- (app_nil_r (concat (map frame ds))). rewrite read_loop_after_frames by exact Hc. reflexivity.
Qed.

(* with a buffer of at least the maximum (the relay loops use 1<<16) nothing else is needed: every datagram
   of 0..MAXLEN bytes, whatever its bytes *)
Lemma frame_stream_roundtrip_maxbuf : forall cap ds chunks,
  MAXLEN <= cap ->
  Forall (fun d => lenN d <= MAXLEN) ds ->
  concat chunks = concat (map frame ds) ->
  write_all ds = Some (concat (map frame ds)) /\
  feed_chunks cap PStart chunks = (map EvD ds, PStart).
Proof.
  intros cap ds chunks Hcap Hl Hs. split; [apply write_all_ok; exact Hl|].
  rewrite feed_chunks_concat, Hs. apply feed_frames.
  eapply Forall_impl; [|exact Hl]. cbn beta. intros d Hd. lia.
Qed.

(* the writer refuses what does not fit the length field; nothing is written *)
Lemma write_all_oversize : forall ds1 d ds2, MAXLEN < lenN d -> write_all (ds1 ++ d :: ds2) = None.
Proof.
  induction ds1 as [|a t IH]; intros d ds2 H; cbn [app write_all].
  - rewrite write_too_long by exact H. reflexivity.
  - rewrite IH by exact H. destruct (write a); reflexivity.
Qed.

Lemma write_oversize : forall ds1 d ds2, MAXLEN < lenN d -> write d = None /\ write_all (ds1 ++ d :: ds2) = None.
Proof. intros ds1 d ds2 H. split; [exact (write_too_long d H)|exact (write_all_oversize ds1 d ds2 H)]. Qed.

(* ---------- errors ---------- *)
Lemma close_kind : forall ph, close ph = EEof \/ close ph = EUnexpectedEof.
Proof. intros [| | |n [|a acc]|acc]; cbn [close]; auto. Qed.

Lemma err_bad_start : forall cap b rest, b <> START ->
  read_loop cap (b :: rest) = [EvErr EBadStart].
Proof.
  intros cap b rest H. unfold read_loop, run_raw. cbn [feed step].
  replace (b =? START) with false by (symmetry; apply N.eqb_neq; exact H); fs.
  destruct (feed cap PStart rest) as [es ph]. reflexivity.
Qed.

Lemma err_short_buffer : forall cap hi lo rest, cap < hi * 256 + lo ->
  read_loop cap (START :: hi :: lo :: rest) = [EvErr EShortBuf].
Proof.
  intros cap hi lo rest H. unfold read_loop, run_raw. cbn [feed step]. rewrite N.eqb_refl; fs.
  replace (cap <? hi * 256 + lo) with true by (symmetry; apply N.ltb_lt; exact H); fs.
  destruct (feed cap PStart rest) as [es ph]. reflexivity.
Qed.

Lemma err_bad_end : forall cap d b rest, lenN d <= cap -> b <> END_ ->
  read_loop cap (START :: lenN d / 256 :: lenN d mod 256 :: d ++ b :: rest) = [EvErr EBadEnd].
Proof.
  intros cap d b rest Hcap Hb. unfold read_loop, run_raw. cbn [feed step]. rewrite N.eqb_refl; fs.
  rewrite len_split.
  replace (cap <? lenN d) with false by (symmetry; apply N.ltb_ge; exact Hcap); fs.
  destruct (N.eqb_spec (lenN d) 0) as [H0|H0]; fs.
  - apply lenN_0 in H0. subst d. cbn [app feed step].
    replace (b =? END_) with false by (symmetry; apply N.eqb_neq; exact Hb); fs.
    destruct (feed cap PStart rest) as [es ph]. reflexivity.
  - assert (Hne : d <> []) by (intros ->; apply H0; reflexivity).
    rewrite feed_app. rewrite feed_data0 by exact Hne. fs. cbn [feed step].
    replace (b =? END_) with false by (symmetry; apply N.eqb_neq; exact Hb); fs.
    destruct (feed cap PStart rest) as [es ph]. reflexivity.
Qed.

Lemma app_snoc_prefix : forall (d : list N) e p q, d ++ [e] = p ++ q -> q <> [] -> exists d2, d = p ++ d2.
Proof.
  induction d as [|a d IH]; intros e p q H Hq.
  - destruct p as [|x p]; [exists []; reflexivity|].
    cbn [app] in H. inversion H as [[Hx Hr]]. destruct p; cbn [app] in Hr; [|discriminate]. subst q. congruence.
  - destruct p as [|x p]; [exists (a :: d); reflexivity|].
    cbn [app] in H. inversion H as [[Hx Hr]]. destruct (IH e p q Hr Hq) as [d2 ->]. exists d2. reflexivity.
Qed.

(* a proper prefix of a frame produces no result while the stream is open *)
Lemma feed_proper_prefix : forall cap d p q, lenN d <= cap -> frame d = p ++ q -> q <> [] ->
  exists ph, feed cap PStart p = ([], ph).
Proof.
  intros cap d p q Hcap Hf Hq. unfold frame in Hf.
  destruct p as [|p0 [|p1 [|p2 p']]]; cbn [app] in Hf.
  - eexists; reflexivity.
  - inversion Hf. cbn [feed step]. rewrite N.eqb_refl; fs. eexists; reflexivity.
  - inversion Hf. cbn [feed step]. rewrite N.eqb_refl; fs. eexists; reflexivity.
  - inversion Hf as [[H0 H1 H2 H3]]. clear Hf.
    destruct (app_snoc_prefix _ _ _ _ H3 Hq) as [d2 Hd].
    cbn [feed step]. rewrite N.eqb_refl; fs. rewrite len_split.
    replace (cap <? lenN d) with false by (symmetry; apply N.ltb_ge; exact Hcap); fs.
    destruct (N.eqb_spec (lenN d) 0) as [Hz|Hz]; fs.
    + apply lenN_0 in Hz. subst d. destruct p'; [|discriminate]. eexists; reflexivity.
    + destruct p' as [|x p'']; [eexists; reflexivity|].
      rewrite Hd, lenN_app. rewrite feed_data by discriminate. eexists; reflexivity.
Qed.

Lemma err_truncated : forall cap d p q, lenN d <= cap -> frame d = p ++ q -> q <> [] ->
  exists e, (e = EEof \/ e = EUnexpectedEof) /\ read_loop cap p = [EvErr e].
Proof.
  intros cap d p q Hcap Hf Hq. destruct (feed_proper_prefix cap d p q Hcap Hf Hq) as [ph Hph].
  exists (close ph). split; [apply close_kind|]. unfold read_loop, run_raw. rewrite Hph. reflexivity.
Qed.

(* frame_error: after any number of good frames, each kind of violation is reported as THE error of the loop,
   exactly the good datagrams are delivered before it, nothing after it *)
Lemma frame_error : forall cap ds, Forall (fun d => lenN d <= cap) ds ->
  let pre := concat (map frame ds) in
  (forall b rest, b <> START ->
     read_loop cap (pre ++ b :: rest) = map EvD ds ++ [EvErr EBadStart]) /\
  (forall hi lo rest, cap < hi * 256 + lo ->
     read_loop cap (pre ++ START :: hi :: lo :: rest) = map EvD ds ++ [EvErr EShortBuf]) /\
  (forall d b rest, lenN d <= cap -> b <> END_ ->
     read_loop cap (pre ++ START :: lenN d / 256 :: lenN d mod 256 :: d ++ b :: rest) = map EvD ds ++ [EvErr EBadEnd]) /\
  (forall d p q, lenN d <= cap -> frame d = p ++ q -> q <> [] ->
     exists e, (e = EEof \/ e = EUnexpectedEof) /\ read_loop cap (pre ++ p) = map EvD ds ++ [EvErr e]).
Proof.
  intros cap ds H pre. repeat split.
  - intros b rest Hb. unfold pre. rewrite read_loop_after_frames by exact H. rewrite err_bad_start by exact Hb. reflexivity.
  - intros hi lo rest Hl. unfold pre. rewrite read_loop_after_frames by exact H. rewrite err_short_buffer by exact Hl. reflexivity.
  - intros d b rest Hd Hb. unfold pre. rewrite read_loop_after_frames by exact H. rewrite err_bad_end by assumption. reflexivity.
  - intros d p q Hd Hf Hq. destruct (err_truncated cap d p q Hd Hf Hq) as [e [He Hr]].
    exists e. split; [exact He|]. unfold pre. rewrite read_loop_after_frames by exact H. rewrite Hr. reflexivity.
Qed.

(* the loop always ends with exactly one error and delivers nothing after it *)
Lemma read_loop_shape : forall cap s, exists ds e, read_loop cap s = map EvD ds ++ [EvErr e].
Proof.
  intros cap s. unfold read_loop, run_raw. destruct (feed cap PStart s) as [es ph].
  induction es as [|[d|e] t IH]; cbn [app cut].
  - exists [], (close ph). reflexivity.
  - destruct IH as [ds [e IH]]. exists (d :: ds), e. cbn [map app]. rewrite IH. reflexivity.
  - exists [], e. reflexivity.
Qed.

(* ---------- soundness on arbitrary streams ---------- *)
Lemma split_or_short : forall (r : list N) L,
  (exists d rest, r = d ++ rest /\ lenN d = L) \/ lenN r < L.
Proof.
  induction r as [|x r IH]; intros L.
  - destruct (N.eq_dec L 0) as [->|H]; [left; exists [], []; split; reflexivity|right; cbn [lenN]; lia].
  - destruct (N.eq_dec L 0) as [->|H]; [left; exists [], (x :: r); split; reflexivity|].
    destruct (IH (L - 1)) as [(d & rest & -> & Hl)|Hs].
    + left. exists (x :: d), rest. split; [reflexivity|cbn [lenN]; lia].
    + right. cbn [lenN]. lia.
Qed.

Lemma feed_header : forall cap hi lo r, ~ cap < hi * 256 + lo ->
  feed cap PStart (START :: hi :: lo :: r) =
  feed cap (if hi * 256 + lo =? 0 then PEnd [] else PData (hi * 256 + lo) []) r.
Proof.
  intros cap hi lo r H. cbn [feed step]. rewrite N.eqb_refl. cbn [feed step app].
  replace (cap <? hi * 256 + lo) with false by (symmetry; apply N.ltb_ge; lia).
  destruct (hi * 256 + lo =? 0); cbn [app]; destruct (feed cap _ r); reflexivity.
Qed.

Lemma read_one : forall cap s, bytes_ok s ->
  (exists d rest, s = frame d ++ rest /\ lenN d <= cap) \/ (exists e, read_loop cap s = [EvErr e]).
Proof.
  intros cap s Hb. destruct s as [|b r]; [right; exists EEof; reflexivity|].
  destruct (N.eq_dec b START) as [->|Hs]; [|right; exists EBadStart; apply err_bad_start; exact Hs].
  destruct r as [|hi [|lo r2]]; [right; exists EEof|right; exists EUnexpectedEof|].
  - unfold read_loop, run_raw. cbn [feed step]. rewrite N.eqb_refl. reflexivity.
  - unfold read_loop, run_raw. cbn [feed step]. rewrite N.eqb_refl. reflexivity.
  - assert (Hhi : hi < 256 /\ lo < 256).
    { inversion Hb as [|? ? _ Hb1]. inversion Hb1 as [|? ? Hh Hb2]. inversion Hb2 as [|? ? Hl _]. split; assumption. }
    set (L := hi * 256 + lo).
    assert (HL : L / 256 = hi /\ L mod 256 = lo) by (unfold L; lia).
    destruct (N.lt_ge_cases cap L) as [Hc|Hc]; [right; exists EShortBuf; apply err_short_buffer; exact Hc|].
    assert (Hnc : ~ cap < L) by lia.
    destruct (split_or_short r2 L) as [(d & rest & -> & Hl)|Hshort].
    + destruct rest as [|e rest'].
      * (* data complete, end marker missing *)
        right. exists EEof. unfold read_loop, run_raw. rewrite feed_header by exact Hnc. fold L.
        rewrite app_nil_r. destruct (N.eqb_spec L 0) as [H0|H0].
        -- rewrite H0 in Hl. apply lenN_0 in Hl. subst d. reflexivity.
        -- rewrite <- Hl. rewrite feed_data0 by (intros ->; apply H0; rewrite <- Hl; reflexivity). reflexivity.
      * destruct (N.eq_dec e END_) as [->|He].
        -- left. exists d, rest'. split; [|lia]. unfold frame. rewrite Hl. destruct HL as [-> ->].
           cbn [app]. rewrite <- app_assoc. reflexivity.
        -- right. exists EBadEnd. destruct HL as [H1 H2]. rewrite <- H1, <- H2, <- Hl.
           apply err_bad_end; [lia|exact He].
    + (* fewer than L data bytes *)
      right. unfold read_loop, run_raw. rewrite feed_header by exact Hnc. fold L.
      replace (L =? 0) with false by (symmetry; apply N.eqb_neq; lia).
      destruct r2 as [|x r3]; [exists EEof; reflexivity|].
      replace L with (lenN (x :: r3) + (L - lenN (x :: r3))) by lia.
      rewrite feed_data by discriminate.
      replace (L - lenN (x :: r3) =? 0) with false by (symmetry; apply N.eqb_neq; lia).
      eexists. reflexivity.
Qed.

Lemma bytes_ok_app_r : forall a b, bytes_ok (a ++ b) -> bytes_ok b.
Proof. intros a b H. apply Forall_app in H. apply H. Qed.

(* on ANY stream of bytes the loop ends with exactly one error, and what it delivered before is literally
   framed at the front of the stream *)
Lemma read_loop_sound : forall cap s, bytes_ok s -> exists ds e rest,
  read_loop cap s = map EvD ds ++ [EvErr e] /\ s = concat (map frame ds) ++ rest /\
  Forall (fun d => lenN d <= cap) ds.
Proof.
  intros cap s. remember (length s) as n eqn:Hn. revert s Hn.
  induction n as [n IH] using (well_founded_induction Wf_nat.lt_wf). intros s Hn Hb.
  destruct (read_one cap s Hb) as [(d & rest & -> & Hd)|[e He]].
  - assert (Hlt : (length rest < n)%nat).
    { subst n. rewrite app_length. unfold frame. cbn [length]. lia. }
    destruct (IH _ Hlt rest eq_refl (bytes_ok_app_r _ _ Hb)) as (ds & e & rest' & Hr & Hs & Hf).
    exists (d :: ds), e, rest'. split; [|split].
    + pose proof (read_loop_after_frames cap [d] rest) as H. cbn [map concat] in H. rewrite app_nil_r in H.
      rewrite H by (constructor; [exact Hd|constructor]). rewrite Hr. reflexivity.
    + cbn [map concat]. rewrite Hs. rewrite <- app_assoc. reflexivity.
    + constructor; assumption.
  - exists [], e, s. split; [exact He|]. split; [reflexivity|constructor].
Qed.

(* ---------- non-vacuity ---------- *)
Example ex_roundtrip_markers_in_payload :
  let ds := [[0; 255; 0; 255]; []; [255]] in
  write_all ds = Some [0;0;4;0;255;0;255;255; 0;0;0;255; 0;0;1;255;255] /\
  feed_chunks 65536 PStart [[0]; [0;4;0]; [255;0;255;255;0;0]; [0;255;0;0]; [1;255;255]] = (map EvD ds, PStart).
Proof. vm_compute. split; reflexivity. Qed.

Example ex_errors :
  read_loop 65536 [0;0;1;7;255; 1;0;0] = [EvD [7]; EvErr EBadStart] /\
  read_loop 65536 [0;0;1;7;254; 0;0;0;255] = [EvErr EBadEnd] /\
  read_loop 4 [0;0;5;1;2;3;4;5;255] = [EvErr EShortBuf] /\
  read_loop 65536 [0;0;2;9] = [EvErr EUnexpectedEof] /\
  read_loop 65536 [0;0;2] = [EvErr EEof] /\
  (* what the tunnel itself does when Read is called again after io.ErrShortBuffer: it parses the data *)
  run_raw 4 [0;0;5; 0;0;1;42;255; 255] = [EvErr EShortBuf; EvD [42]; EvErr EBadStart; EvErr EEof].
Proof. vm_compute. repeat split; reflexivity. Qed.

Example ex_sound_nonvacuous : bytes_ok [0;0;1;0;255; 0;0;0;255; 0;0;2;1] /\
  read_loop 65536 [0;0;1;0;255; 0;0;0;255; 0;0;2;1] = [EvD [0]; EvD []; EvErr EUnexpectedEof].
Proof. split; [repeat constructor|vm_compute; reflexivity]. Qed.
