(* Proofs about model/UdpProto.v: the invariant of the sliding-window LTS and its corollaries (C02 safety,
   C13), the progress / ranking lemmas (C02 liveness, partial), and soundness of the executable acceptor. *)
From Coq Require Import List NArith ZArith Bool Arith Lia.
From M Require Import gen.Consts model.UdpProto.
Import ListNotations.
Open Scope nat_scope.

(* ------------------------------------------------------------------ list helpers *)

Lemma nth_some_lt : forall A (l : list A) i x, nth_error l i = Some x -> i < length l.
Proof. intros A l i x H. apply nth_error_Some. rewrite H. discriminate. Qed.

Lemma nth_app_some : forall A (l l' : list A) i x, nth_error l i = Some x -> nth_error (l ++ l') i = Some x.
Proof. intros A l l' i x H. rewrite nth_error_app1; [exact H | eapply nth_some_lt; eauto]. Qed.

Lemma firstn_app_le : forall A (l l' : list A) n, n <= length l -> firstn n (l ++ l') = firstn n l.
Proof.
  intros A l l' n H. rewrite firstn_app. replace (n - length l) with 0 by lia.
  cbn [firstn]. apply app_nil_r.
Qed.

Lemma firstn_S_nth : forall A (l : list A) n c, nth_error l n = Some c -> firstn (S n) l = firstn n l ++ [c].
Proof.
  intros A l. induction l as [|x l IH]; intros n c H.
  - destruct n; discriminate.
  - destruct n as [|n].
    + cbn in H. injection H as ->. reflexivity.
    + cbn in H. change (firstn (S (S n)) (x :: l)) with (x :: firstn (S n) l).
      change (firstn (S n) (x :: l)) with (x :: firstn n l). rewrite (IH n c H). reflexivity.
Qed.

Lemma bytes_of_app : forall l l', bytes_of (l ++ l') = bytes_of l ++ bytes_of l'.
Proof. intros. unfold bytes_of. rewrite map_app, concat_app. reflexivity. Qed.

Lemma firstn_prefix : forall A (l : list A) n, exists r, l = firstn n l ++ r.
Proof. intros. exists (skipn n l). symmetry. apply firstn_skipn. Qed.

(* ------------------------------------------------------------------ Part 1: the invariant *)

Definition Inv (s : st) : Prop :=
  una s <= sent_hi s /\ sent_hi s <= length (assigned s) /\
  (forall i c, In (i, c) (fwd s) -> nth_error (assigned s) i = Some c /\ i < sent_hi s) /\
  (forall i c, In (i, c) (rbuf s) -> nth_error (assigned s) i = Some c /\ i < sent_hi s) /\
  got s = firstn (next_recv s) (assigned s) /\
  next_recv s <= sent_hi s /\
  (forall u g, In (u, g) (back s) -> u <= g /\ g <= next_recv s) /\
  una s <= next_recv s /\
  rd s <= length (bytes_of (got s)) /\
  (forall i, i < sent_hi s -> exists c, In (i, c) (fwd s)).

Ltac proj := cbn [assigned una sent_hi win fwd back next_recv rbuf got rd lost] in *.

Lemma init_inv : forall w, Inv (init w).
Proof.
  intros w. unfold Inv, init. proj. repeat split; try lia; try (intros; contradiction); try reflexivity.
Qed.

Lemma step_inv : forall s l s', Inv s -> lstep s l s' -> Inv s'.
Proof.
  intros s l s' HI H. destruct H; destruct HI as (I1 & I2 & I3 & I4 & I5 & I6 & I7 & I8 & I9 & I10); unfold Inv; proj.
  - (* write *)
    repeat split; try lia; try assumption.
    + rewrite app_length. cbn [length]. lia.
    + apply nth_app_some. eapply I3; eauto.
    + eapply I3; eauto.
    + apply nth_app_some. eapply I4; eauto.
    + eapply I4; eauto.
    + rewrite firstn_app_le by lia. exact I5.
    + eapply I7; eauto.
    + eapply I7; eauto.
  - (* send new *)
    pose proof (nth_some_lt _ _ _ _ H) as Hlt.
    repeat split; try lia; try assumption.
    + destruct H1 as [E | Hin]; [injection E as <- <-; exact H | eapply I3; eauto].
    + destruct H1 as [E | Hin]; [injection E as <- <-; lia | ]. apply I3 in Hin. lia.
    + eapply I4; eauto.
    + apply I4 in H1. lia.
    + eapply I7; eauto.
    + eapply I7; eauto.
    + intros i Hi. destruct (Nat.eq_dec i (sent_hi s)) as [-> | Hne].
      * exists c. left. reflexivity.
      * destruct (I10 i ltac:(lia)) as [c' Hc']. exists c'. right. exact Hc'.
  - (* retx *)
    repeat split; try lia; try assumption.
    + destruct H2 as [E | Hin]; [injection E as <- <-; exact H1 | eapply I3; eauto].
    + destruct H2 as [E | Hin]; [injection E as <- <-; lia | ]. apply I3 in Hin. lia.
    + eapply I4; eauto.
    + eapply I4; eauto.
    + eapply I7; eauto.
    + eapply I7; eauto.
    + intros j Hj. destruct (I10 j Hj) as [c' Hc']. exists c'. right. exact Hc'.
  - (* recv data *)
    repeat split; try lia; try assumption.
    + eapply I3; eauto.
    + eapply I3; eauto.
    + destruct H0 as [E | Hin]; [injection E as <- <-; eapply I3; eauto | eapply I4; eauto].
    + destruct H0 as [E | Hin]; [injection E as <- <-; eapply I3; eauto | eapply I4; eauto].
    + eapply I7; eauto.
    + eapply I7; eauto.
  - (* ignored *)
    repeat split; try lia; try assumption.
    + eapply I3; eauto.
    + eapply I3; eauto.
    + eapply I4; eauto.
    + eapply I4; eauto.
    + eapply I7; eauto.
    + eapply I7; eauto.
  - (* drop from recvBuf *)
    assert (Hsub : forall x, In x (l1 ++ l2) -> In x (rbuf s)).
    { intros x Hx. rewrite H. apply in_app_or in Hx. apply in_or_app. destruct Hx; [left | right; right]; assumption. }
    repeat split; try lia; try assumption.
    + eapply I3; eauto.
    + eapply I3; eauto.
    + eapply I4; eauto.
    + eapply I4; eauto.
    + eapply I7; eauto.
    + eapply I7; eauto.
  - (* move *)
    destruct (I4 _ _ H) as [Hn Hl].
    repeat split; try lia; try assumption.
    + eapply I3; eauto.
    + eapply I3; eauto.
    + eapply I4; eauto.
    + eapply I4; eauto.
    + rewrite (firstn_S_nth _ _ _ _ Hn). rewrite I5. reflexivity.
    + eapply I7; eauto.
    + apply I7 in H0. lia.
    + rewrite bytes_of_app, app_length. lia.
  - (* send ack *)
    assert (Hlen : length (got s) = next_recv s).
    { rewrite I5. apply firstn_length_le. lia. }
    repeat split; try lia; try assumption.
    + eapply I3; eauto.
    + eapply I3; eauto.
    + eapply I4; eauto.
    + eapply I4; eauto.
    + destruct H0 as [E | Hin]; [injection E as <- <-; lia | eapply I7; eauto].
    + destruct H0 as [E | Hin]; [injection E as <- <-; lia | eapply I7; eauto].
  - (* recv ack *)
    apply I7 in H.
    repeat split; try lia; try assumption.
    + eapply I3; eauto.
    + eapply I3; eauto.
    + eapply I4; eauto.
    + eapply I4; eauto.
    + eapply I7; eauto.
    + eapply I7; eauto.
  - (* set window *)
    repeat split; try lia; try assumption.
    + eapply I3; eauto.
    + eapply I3; eauto.
    + eapply I4; eauto.
    + eapply I4; eauto.
    + eapply I7; eauto.
    + eapply I7; eauto.
  - (* app read *)
    repeat split; try lia; try assumption.
    + eapply I3; eauto.
    + eapply I3; eauto.
    + eapply I4; eauto.
    + eapply I4; eauto.
    + eapply I7; eauto.
    + eapply I7; eauto.
Qed.

Lemma reach_inv : forall s, reach s -> Inv s.
Proof. intros s H. induction H; [apply init_inv | eapply step_inv; eauto]. Qed.

(* ------------------------------------------------------------------ corollaries *)

(* C02 safety: bytes read are a prefix of the bytes written, in every reachable state *)
Lemma exactly_once_in_order : forall s, reach s -> exists rest, written_bytes s = read_bytes s ++ rest.
Proof.
  intros s H. apply reach_inv in H. destruct H as (_ & _ & _ & _ & I5 & _).
  unfold written_bytes, read_bytes. rewrite I5.
  destruct (firstn_prefix _ (assigned s) (next_recv s)) as [r1 Hr1].
  destruct (firstn_prefix _ (bytes_of (firstn (next_recv s) (assigned s))) (rd s)) as [r2 Hr2].
  exists (r2 ++ bytes_of r1). rewrite app_assoc, <- Hr2, <- bytes_of_app, <- Hr1. reflexivity.
Qed.

(* ... and equal once every segment has been moved and every released byte read *)
Lemma exactly_once_complete : forall s, reach s ->
  next_recv s = length (assigned s) -> rd s = length (bytes_of (got s)) -> read_bytes s = written_bytes s.
Proof.
  intros s H Hn Hr. apply reach_inv in H. destruct H as (_ & _ & _ & _ & I5 & _).
  unfold written_bytes, read_bytes. rewrite Hr, firstn_all, I5, Hn, firstn_all. reflexivity.
Qed.

(* nothing is read twice or out of order: what has been read never changes, it only grows *)
Lemma read_grows : forall s l s', reach s -> lstep s l s' -> exists more, read_bytes s' = read_bytes s ++ more.
Proof.
  intros s l s' HR H. pose proof (reach_inv _ HR) as (_ & _ & _ & _ & _ & _ & _ & _ & I9 & _).
  destruct H; unfold read_bytes; proj; try (exists []; rewrite app_nil_r; reflexivity).
  - (* move *) exists []. rewrite app_nil_r, bytes_of_app. rewrite firstn_app_le by lia. reflexivity.
  - (* read *) exists (firstn k (skipn (rd s) (bytes_of (got s)))).
    rewrite <- (firstn_skipn (rd s) (bytes_of (got s))) at 1.
    rewrite firstn_app, firstn_firstn, firstn_length_le by lia.
    replace (Nat.min (rd s + k) (rd s)) with (rd s) by lia. replace (rd s + k - rd s) with k by lia. reflexivity.
Qed.

(* C13: every datagram ever emitted carries unAckSeq <= the number of in-order segments its emitter had
   received when it emitted it (and that number never exceeds what it has now) *)
Lemma ack_never_ahead : forall s u g, reach s -> In (u, g) (back s) -> u <= g /\ g <= length (got s).
Proof.
  intros s u g H Hin. apply reach_inv in H. destruct H as (_ & I2 & _ & _ & I5 & I6 & I7 & _).
  apply I7 in Hin. rewrite I5, firstn_length_le by lia. exact Hin.
Qed.

(* C13: all transmissions of one sequence number carry the same type, fragment marker and payload,
   namely what was bound to that number when it was assigned *)
Lemma retx_same_content : forall s i c1 c2, reach s -> In (i, c1) (fwd s) -> In (i, c2) (fwd s) ->
  c1 = c2 /\ nth_error (assigned s) i = Some c1.
Proof.
  intros s i c1 c2 H H1 H2. apply reach_inv in H. destruct H as (_ & _ & I3 & _).
  apply I3 in H1. apply I3 in H2. destruct H1 as [H1 _], H2 as [H2 _]. rewrite H1 in H2. injection H2 as ->. auto.
Qed.

(* C13: sequence numbers are handed out and first transmitted as 0,1,2,... : the numbers on the wire are
   exactly [0, sent_hi), a first transmission always carries number sent_hi, a Write always binds number
   length assigned, and a binding never changes afterwards *)
Lemma seq_gapless : forall s, reach s ->
  (forall i c, In (i, c) (fwd s) -> i < sent_hi s) /\
  (forall i, i < sent_hi s -> exists c, In (i, c) (fwd s)) /\
  sent_hi s <= length (assigned s) /\
  (forall l s', lstep s l s' ->
     (forall i c, nth_error (assigned s) i = Some c -> nth_error (assigned s') i = Some c) /\
     (forall i, l = LSendNew i -> i = sent_hi s /\ sent_hi s' = S i) /\
     (forall c, l = LWrite c -> nth_error (assigned s') (length (assigned s)) = Some c /\
                                length (assigned s') = S (length (assigned s)))).
Proof.
  intros s H. apply reach_inv in H. destruct H as (_ & I2 & I3 & _ & _ & _ & _ & _ & _ & I10).
  split; [intros i c Hin; apply I3 in Hin; tauto|]. split; [exact I10|]. split; [exact I2|].
  intros l s' Hs. destruct Hs; proj; (split; [|split]); try (intros; discriminate); try (intros; assumption).
  - intros i c0 Hn. apply nth_app_some. exact Hn.
  - intros c0 E. injection E as <-. split.
    + rewrite nth_error_app2 by lia. rewrite Nat.sub_diag. reflexivity.
    + rewrite app_length. cbn [length]. lia.
  - intros i E. injection E as <-. auto.
Qed.

(* C13 corollary: a segment leaves sendBuf only after the peer has it; the segment the receiver waits for
   is therefore still held by the sender (in sendBuf = [una, sent_hi) or sendQueue = [sent_hi, length)) *)
Lemma no_premature_discard : forall s, reach s ->
  una s <= next_recv s /\
  (next_recv s < length (assigned s) ->
     exists c, nth_error (assigned s) (next_recv s) = Some c /\ una s <= next_recv s < length (assigned s)).
Proof.
  intros s H. apply reach_inv in H. destruct H as (_ & _ & _ & _ & _ & _ & _ & I8 & _).
  split; [exact I8|]. intros Hlt.
  destruct (nth_error (assigned s) (next_recv s)) as [c|] eqn:E.
  - exists c. split; [reflexivity | lia].
  - apply nth_error_None in E. lia.
Qed.

Lemma next_recv_mono : forall s l s', lstep s l s' -> next_recv s <= next_recv s'.
Proof. intros s l s' H. destruct H; proj; lia. Qed.

(* C02 progress (partial): whenever data is undelivered, a step transmitting the awaited segment is enabled
   - a retransmission, whatever the window, if it was transmitted before;
   - a first transmission if the send window is open -
   and delivering that transmission advances the receiver by one. *)
Lemma progress_partial : forall s, reach s -> next_recv s < length (assigned s) ->
  (next_recv s < sent_hi s \/ 0 < win s) ->
  exists l s1 c s2 s3,
    (l = LRetx (next_recv s) \/ l = LSendNew (next_recv s)) /\
    (next_recv s < sent_hi s -> l = LRetx (next_recv s)) /\
    lstep s l s1 /\ lstep s1 (LRecvData (next_recv s) c) s2 /\ lstep s2 LMove s3 /\
    next_recv s3 = S (next_recv s) /\ nth_error (assigned s) (next_recv s) = Some c.
Proof.
  intros s HR Hund Hen. pose proof (reach_inv _ HR) as (I1 & I2 & I3 & I4 & I5 & I6 & I7 & I8 & I9 & I10).
  destruct (no_premature_discard _ HR) as [_ Hc]. destruct (Hc Hund) as (c & Hn & _).
  destruct (Nat.lt_ge_cases (next_recv s) (sent_hi s)) as [Hlt | Hge].
  - (* in sendBuf: retransmission *)
    eexists (LRetx (next_recv s)), _, c, _, _.
    split; [left; reflexivity|]. split; [reflexivity|].
    split. { apply s_retx; [lia | exact Hlt | exact Hn]. }
    split. { apply s_recvdata. proj. left. reflexivity. }
    split. { apply s_move. proj. left. reflexivity. }
    split; [reflexivity | exact Hn].
  - (* head of sendQueue: first transmission, needs the window *)
    assert (E : next_recv s = sent_hi s) by lia.
    destruct Hen as [Hlt | Hw]; [lia|].
    eexists (LSendNew (next_recv s)), _, c, _, _.
    split; [right; reflexivity|]. split; [intros; lia|].
    split. { rewrite E. apply s_sendnew; [rewrite <- E; exact Hn | exact Hw]. }
    split. { apply s_recvdata. proj. left. rewrite E. reflexivity. }
    split. { apply s_move. proj. left. reflexivity. }
    split; [reflexivity | exact Hn].
Qed.

(* The window hypothesis of progress_partial cannot be dropped: when everything transmitted so far has been
   received (next_recv = sent_hi) and the send window is closed, no step transmits the awaited segment; only a
   window update (LSetWin: an ack or heartbeat of the peer) re-enables it.  Before fix
   fixes/C02-server-write-before-open-response.diff the implementation reached this situation for good: a
   client whose session is still "opening" sends no acks, while the server's open response sat behind a full
   congestion window of data written right after Accept (driver sig server-write-overtakes-open-response). *)
Lemma progress_needs_window : forall s, next_recv s = sent_hi s -> win s = 0 ->
  forall l s', lstep s l s' -> is_awaited s l = 0.
Proof.
  intros s E W l s' H. destruct H; unfold is_awaited; proj; try reflexivity.
  - lia.
  - destruct (Nat.eqb_spec i (next_recv s)); [lia | reflexivity].
Qed.

Lemma progress_unconditional_refuted : exists s, reach s /\ next_recv s < length (assigned s) /\
  forall l s', lstep s l s' -> is_awaited s l = 0.
Proof.
  exists (mkSt [mkC 7 0 [1%N]] 0 0 0 [] [] 0 [] [] 0 0). split; [|split].
  - eapply reach_step; [apply (reach_init 0) | apply (s_write (init 0) (mkC 7 0 [1%N]))].
  - cbn. lia.
  - apply progress_needs_window; reflexivity.
Qed.

(* Ranking: n - next_recv s never increases (next_recv_mono); in a K-fair run every transmission of the awaited
   segment either is followed by an advance of the receiver or uses up one of the K - 1 tolerated losses. *)
Lemma step_count : forall K s l s1, lost s < K -> lstep s l s1 ->
  is_awaited s l + lost s <= K * (next_recv s1 - next_recv s) + lost s1.
Proof.
  intros K s l s1 HK H. destruct H; unfold is_awaited, bump; proj; try lia.
  - destruct (Nat.eqb (sent_hi s) (next_recv s)); lia.
  - destruct (Nat.eqb i (next_recv s)); lia.
Qed.

Lemma fair_run_facts : forall K s t s', fair_run K s t s' ->
  next_recv s <= next_recv s' /\ lost s' < K /\ t + lost s <= K * (next_recv s' - next_recv s) + lost s'.
Proof.
  intros K s t s' H. induction H as [s HK | s l s1 t s2 HK Hs HF (IHm & IHl & IHc)].
  - rewrite Nat.sub_diag, Nat.mul_0_r. repeat split; lia.
  - pose proof (next_recv_mono _ _ _ Hs) as Hm. pose proof (step_count K _ _ _ HK Hs) as Hc.
    repeat split; try lia.
    replace (next_recv s2 - next_recv s) with ((next_recv s1 - next_recv s) + (next_recv s2 - next_recv s1)) by lia.
    rewrite Nat.mul_add_distr_l. lia.
Qed.

(* completion under fairness: if the awaited segment is transmitted K * u times in a K-fair run, the
   receiver advances by at least u segments *)
Lemma fair_completion : forall K s t s' u, fair_run K s t s' -> K * u <= t -> next_recv s + u <= next_recv s'.
Proof.
  intros K s t s' u H Ht. destruct (fair_run_facts _ _ _ _ H) as (Hm & Hl & Hc).
  assert (K * u < K * (S (next_recv s' - next_recv s))) by (rewrite Nat.mul_succ_r; lia).
  assert (u < S (next_recv s' - next_recv s)) by (eapply Nat.mul_lt_mono_pos_l with (p := K); [lia | exact H0]).
  lia.
Qed.

(* ------------------------------------------------------------------ Part 2: the acceptor *)

Lemma bytes_eqb_eq : forall a b, bytes_eqb a b = true -> a = b.
Proof.
  induction a as [|x a IH]; destruct b as [|y b]; cbn; intros H; try discriminate; try reflexivity.
  apply andb_true_iff in H. destruct H as [H1 H2]. apply N.eqb_eq in H1. subst. f_equal. auto.
Qed.

Lemma content_eqb_eq : forall a b, content_eqb a b = true -> a = b.
Proof.
  intros [t1 f1 p1] [t2 f2 p2]. unfold content_eqb. cbn. intros H.
  apply andb_true_iff in H. destruct H as [H H3]. apply andb_true_iff in H. destruct H as [H1 H2].
  apply N.eqb_eq in H1, H2. apply bytes_eqb_eq in H3. subst. reflexivity.
Qed.

Lemma strip1_spec : forall p c,
  match strip1 p c with
  | None => True
  | Some (inl rp) => p = c ++ rp
  | Some (inr rc) => c = p ++ rc
  end.
Proof.
  induction p as [|x p IH]; intros c.
  - cbn. reflexivity.
  - destruct c as [|y c]; cbn [strip1].
    + reflexivity.
    + destruct (N.eqb_spec x y) as [-> | Hne]; [|exact I].
      specialize (IH c). destruct (strip1 p c) as [[rp | rc] |]; cbn; try exact I; f_equal; exact IH.
Qed.

Lemma strip_spec : forall cs p cs', strip p cs = Some cs' -> concat cs = p ++ concat cs'.
Proof.
  induction cs as [|c cs IH]; intros p cs' H; cbn [strip] in H.
  - destruct p; [injection H as <-; reflexivity | discriminate].
  - pose proof (strip1_spec p c) as S1. destruct (strip1 p c) as [[rp | rc] |]; [| |discriminate].
    + apply IH in H. cbn [concat]. rewrite H, S1, app_assoc. reflexivity.
    + destruct rc as [|z rc].
      * injection H as <-. cbn [concat]. rewrite S1, app_nil_r. reflexivity.
      * injection H as <-. cbn [concat]. rewrite S1, app_assoc. reflexivity.
Qed.

Lemma all_nil_concat : forall l, all_nil l = true -> concat l = [].
Proof.
  induction l as [|c l IH]; cbn; intros H; [reflexivity|].
  apply andb_true_iff in H. destruct H as [H1 H2]. destruct c; [|discriminate]. cbn. auto.
Qed.

Lemma take_spec : forall n l c r, take n l = Some (c, r) -> In (n, c) l /\ (forall x, In x r -> In x l).
Proof.
  induction l as [|[i ci] l IH]; intros c r H; cbn [take] in H; [discriminate|].
  destruct (Nat.eqb_spec i n) as [-> | Hne].
  - injection H as <- <-. split; [left; reflexivity | intros x Hx; right; exact Hx].
  - destruct (take n l) as [[c' r']|] eqn:E; [|discriminate]. injection H as <- <-.
    destruct (IH _ _ eq_refl) as [H1 H2]. split; [right; exact H1|].
    intros x [Hx | Hx]; [left; exact Hx | right; auto].
Qed.

Lemma drain_spec : forall (asg : list content) fuel nr rb nr' rb' rel,
  drain fuel nr rb = (nr', rb', rel) ->
  (forall i c, In (i, c) rb -> nth_error asg i = Some c) ->
  nr <= length asg ->
  nr <= nr' /\ nr' <= length asg /\
  bytes_of (firstn nr' asg) = bytes_of (firstn nr asg) ++ concat rel /\
  (forall x, In x rb' -> In x rb) /\
  (forall j, nr <= j < nr' -> exists c, In (j, c) rb).
Proof.
  intros asg. induction fuel as [|f IH]; intros nr rb nr' rb' rel H Hrb Hle; cbn [drain] in H.
  - injection H as <- <- <-. cbn [concat]. rewrite app_nil_r. repeat split; try lia; auto.
  - destruct (take nr rb) as [[c rb1]|] eqn:ET.
    + destruct (drain f (S nr) rb1) as [[nr2 rb2] rel2] eqn:ED. injection H as <- <- <-.
      destruct (take_spec _ _ _ _ ET) as [Hin Hsub].
      pose proof (Hrb _ _ Hin) as Hn. pose proof (nth_some_lt _ _ _ _ Hn) as Hlt.
      destruct (IH _ _ _ _ _ ED) as (A1 & A2 & A3 & A4 & A5).
      { intros i c' Hi. apply Hrb. apply Hsub. exact Hi. }
      { lia. }
      repeat split; try lia.
      * rewrite A3. rewrite (firstn_S_nth _ _ _ _ Hn), bytes_of_app. unfold bytes_of at 2. cbn [map concat].
        rewrite app_nil_r, <- app_assoc. reflexivity.
      * intros x Hx. apply Hsub. apply A4. exact Hx.
      * intros j Hj. destruct (Nat.eq_dec j nr) as [-> | Hne]; [exists c; exact Hin|].
        destruct (A5 j ltac:(lia)) as [c' Hc']. exists c'. apply Hsub. exact Hc'.
    + injection H as <- <- <-. cbn [concat]. rewrite app_nil_r. repeat split; try lia; auto.
Qed.

(* projections of a trace extended by events *)
Lemma written_app : forall X t1 t2, written X (t1 ++ t2) = written X t1 ++ written X t2.
Proof. intros. unfold written. rewrite map_app, concat_app. reflexivity. Qed.
Lemma readb_app : forall X t1 t2, readb X (t1 ++ t2) = readb X t1 ++ readb X t2.
Proof. intros. unfold readb. rewrite map_app, concat_app. reflexivity. Qed.
Lemma emitted_app : forall X t1 t2, emitted X (t1 ++ t2) = emitted X t1 ++ emitted X t2.
Proof. intros. unfold emitted. rewrite map_app, concat_app. reflexivity. Qed.
Lemma written_one : forall X e, written X [e] = ev_written X e.
Proof. intros. unfold written. cbn. apply app_nil_r. Qed.
Lemma readb_one : forall X e, readb X [e] = ev_read X e.
Proof. intros. unfold readb. cbn. apply app_nil_r. Qed.
Lemma emitted_one : forall X e, emitted X [e] = ev_emit X e.
Proof. intros. unfold emitted. cbn. apply app_nil_r. Qed.

Lemma delivered_mono : forall X tr l i, delivered X tr i -> delivered X (tr ++ l) i.
Proof.
  intros X tr l i (a & k & b & g & E & Hn & Hs & Hi). exists a, k, (b ++ l), g.
  split; [rewrite E, <- app_assoc; reflexivity | auto].
Qed.
Lemma emitted_seq_mono : forall X tr l i, emitted_seq X tr i -> emitted_seq X (tr ++ l) i.
Proof.
  intros X tr l i (g & Hin & Hs & Hi). exists g. split; [|auto]. rewrite emitted_app. apply in_or_app. left. exact Hin.
Qed.

(* per-event obligations that refer to the prefix before the event *)
Definition Pev (a : list event) (e : event) : Prop :=
  match e with
  | ES X g => (forall i, (N.of_nat i < g_unack g)%N -> delivered X a i) /\
              (is_seq X (g_ty g) = true -> forall i, (N.of_nat i < g_seq g)%N -> emitted_seq X a i)
  | ER X k => N.to_nat k < length (emitted (negb X) a)
  | _ => True
  end.
Definition hist (tr : list event) : Prop := forall a e b, tr = a ++ e :: b -> Pev a e.

Lemma hist_nil : hist [].
Proof. intros a e b E. destruct a; discriminate. Qed.

Lemma hist_snoc : forall tr e, hist tr -> Pev tr e -> hist (tr ++ [e]).
Proof.
  intros tr e H HP a e' b E. destruct b as [|y b'].
  - apply app_inj_tail in E. destruct E as [<- <-]. exact HP.
  - destruct (@exists_last _ (y :: b') ltac:(discriminate)) as (b2 & z & Eb). rewrite Eb in E.
    change (a ++ e' :: b2 ++ [z]) with (a ++ (e' :: b2) ++ [z]) in E. rewrite app_assoc in E.
    apply app_inj_tail in E. destruct E as [E _]. eapply H. exact E.
Qed.

Definition SndInv (tr : list event) (X : bool) (pend : list bytes) (asg : list content) (emit : list dg) : Prop :=
  written X tr = bytes_of asg ++ concat pend /\
  emit = emitted X tr /\
  (forall g, In g (emitted X tr) -> is_seq X (g_ty g) = true -> nth_error asg (N.to_nat (g_seq g)) = Some (cont g)) /\
  (forall i, i < length asg -> emitted_seq X tr i).

Definition RcvInv (tr : list event) (X : bool) (nr : nat) (rb : list (nat * content)) (av : list bytes)
                  (asgY : list content) : Prop :=
  (forall i, i < nr -> delivered X tr i) /\
  (forall i c, In (i, c) rb -> nth_error asgY i = Some c /\ delivered X tr i) /\
  nr <= length asgY /\
  bytes_of (firstn nr asgY) = readb X tr ++ concat av.

Definition AInv (tr : list event) (a : ast) : Prop :=
  hist tr /\
  forall X, SndInv tr X (e_pend (getE X a)) (e_asg (getE X a)) (e_emit (getE X a)) /\
            RcvInv tr X (e_nr (getE X a)) (e_rbuf (getE X a)) (e_avail (getE X a)) (e_asg (getE (negb X) a)).

Lemma snd_frame : forall tr X pend asg emit e, SndInv tr X pend asg emit ->
  ev_written X e = [] -> ev_emit X e = [] -> SndInv (tr ++ [e]) X pend asg emit.
Proof.
  intros tr X pend asg emit e (S1 & S2 & S3 & S4) Hw He. unfold SndInv.
  rewrite written_app, emitted_app, written_one, emitted_one, Hw, He, !app_nil_r.
  repeat split; auto.
  intros i Hi. destruct (S4 i Hi) as (g & Hin & Hs & Hg). exists g. rewrite emitted_app, emitted_one, He, app_nil_r. auto.
Qed.

Lemma rcv_frame : forall tr X nr rb av asgY e, RcvInv tr X nr rb av asgY ->
  ev_read X e = [] -> RcvInv (tr ++ [e]) X nr rb av asgY.
Proof.
  intros tr X nr rb av asgY e (R1 & R2 & R3 & R4) Hr. unfold RcvInv.
  rewrite readb_app, readb_one, Hr, app_nil_r. repeat split; auto.
  - intros i Hi. apply delivered_mono. auto.
  - eapply R2; eauto.
  - apply delivered_mono. eapply R2; eauto.
Qed.

Lemma rcv_asg_ext : forall tr X nr rb av asgY l, RcvInv tr X nr rb av asgY -> RcvInv tr X nr rb av (asgY ++ l).
Proof.
  intros tr X nr rb av asgY l (R1 & R2 & R3 & R4). unfold RcvInv. repeat split; auto.
  - apply nth_app_some. eapply R2; eauto.
  - eapply R2; eauto.
  - rewrite app_length. lia.
  - rewrite firstn_app_le by lia. exact R4.
Qed.

Lemma eqb_same : forall X, Bool.eqb X X = true.
Proof. destruct X; reflexivity. Qed.

Lemma snd_write : forall tr X pend asg emit b, SndInv tr X pend asg emit ->
  SndInv (tr ++ [EW X b]) X (pend ++ [b]) asg emit.
Proof.
  intros tr X pend asg emit b (S1 & S2 & S3 & S4). unfold SndInv.
  rewrite written_app, emitted_app, written_one, emitted_one. cbn [ev_written ev_emit]. rewrite eqb_same, app_nil_r.
  repeat split; auto.
  - rewrite S1, concat_app. cbn [concat]. rewrite app_nil_r, app_assoc. reflexivity.
  - intros i Hi. apply emitted_seq_mono. auto.
Qed.

Lemma snd_emit_common : forall tr X g, emitted X (tr ++ [ES X g]) = emitted X tr ++ [g].
Proof. intros. rewrite emitted_app, emitted_one. cbn [ev_emit]. rewrite eqb_same. reflexivity. Qed.

Lemma snd_new : forall tr X pend asg emit g pend', SndInv tr X pend asg emit ->
  is_seq X (g_ty g) = true -> N.to_nat (g_seq g) = length asg -> strip (g_pay g) pend = Some pend' ->
  SndInv (tr ++ [ES X g]) X pend' (asg ++ [cont g]) (emit ++ [g]).
Proof.
  intros tr X pend asg emit g pend' (S1 & S2 & S3 & S4) Hs Hn Hp. unfold SndInv.
  rewrite snd_emit_common, written_app, written_one. cbn [ev_written]. rewrite app_nil_r.
  repeat split.
  - rewrite S1, (strip_spec _ _ _ Hp), bytes_of_app. unfold bytes_of at 3. cbn [map concat cont c_pay].
    rewrite app_nil_r, <- app_assoc. reflexivity.
  - rewrite S2. reflexivity.
  - intros g' Hin Hs'. apply in_app_or in Hin. destruct Hin as [Hin | [<- | []]].
    + apply nth_app_some. auto.
    + rewrite Hn, nth_error_app2 by lia. rewrite Nat.sub_diag. reflexivity.
  - intros i Hi. rewrite app_length in Hi. cbn [length] in Hi.
    destruct (Nat.eq_dec i (length asg)) as [-> | Hne].
    + exists g. rewrite snd_emit_common. split; [apply in_or_app; right; left; reflexivity | auto].
    + apply emitted_seq_mono. apply S4. lia.
Qed.

Lemma snd_retx : forall tr X pend asg emit g, SndInv tr X pend asg emit ->
  nth_error asg (N.to_nat (g_seq g)) = Some (cont g) ->
  SndInv (tr ++ [ES X g]) X pend asg (emit ++ [g]).
Proof.
  intros tr X pend asg emit g (S1 & S2 & S3 & S4) Hn. unfold SndInv.
  rewrite snd_emit_common, written_app, written_one. cbn [ev_written]. rewrite app_nil_r.
  repeat split; auto.
  - rewrite S2. reflexivity.
  - intros g' Hin Hs'. apply in_app_or in Hin. destruct Hin as [Hin | [<- | []]]; auto.
  - intros i Hi. apply emitted_seq_mono. auto.
Qed.

Lemma snd_ack : forall tr X pend asg emit g, SndInv tr X pend asg emit ->
  is_seq X (g_ty g) = false ->
  SndInv (tr ++ [ES X g]) X pend asg (emit ++ [g]).
Proof.
  intros tr X pend asg emit g (S1 & S2 & S3 & S4) Hs. unfold SndInv.
  rewrite snd_emit_common, written_app, written_one. cbn [ev_written]. rewrite app_nil_r.
  repeat split; auto.
  - rewrite S2. reflexivity.
  - intros g' Hin Hs'. apply in_app_or in Hin. destruct Hin as [Hin | [<- | []]]; auto. congruence.
  - intros i Hi. apply emitted_seq_mono. auto.
Qed.

Lemma rcv_read : forall tr X nr rb av asgY b av', RcvInv tr X nr rb av asgY ->
  strip b av = Some av' -> RcvInv (tr ++ [EA X b]) X nr rb av' asgY.
Proof.
  intros tr X nr rb av asgY b av' (R1 & R2 & R3 & R4) Hs. unfold RcvInv.
  rewrite readb_app, readb_one. cbn [ev_read]. rewrite eqb_same. repeat split; auto.
  - intros i Hi. apply delivered_mono. auto.
  - eapply R2; eauto.
  - apply delivered_mono. eapply R2; eauto.
  - rewrite R4, (strip_spec _ _ _ Hs), app_assoc. reflexivity.
Qed.

Lemma rcv_deliver : forall tr X nr rb av asgY k i c fuel nr' rb' rel, RcvInv tr X nr rb av asgY ->
  nth_error asgY i = Some c -> delivered X (tr ++ [ER X k]) i ->
  drain fuel nr ((i, c) :: rb) = (nr', rb', rel) ->
  RcvInv (tr ++ [ER X k]) X nr' rb' (av ++ rel) asgY.
Proof.
  intros tr X nr rb av asgY k i c fuel nr' rb' rel (R1 & R2 & R3 & R4) Hn Hd HD.
  assert (Hrb : forall j cj, In (j, cj) ((i, c) :: rb) -> nth_error asgY j = Some cj /\ delivered X (tr ++ [ER X k]) j).
  { intros j cj [E | Hin]; [injection E as <- <-; auto|]. destruct (R2 _ _ Hin). split; [auto | apply delivered_mono; auto]. }
  destruct (drain_spec asgY _ _ _ _ _ _ HD) as (A1 & A2 & A3 & A4 & A5); [intros j cj Hj; apply Hrb; exact Hj | exact R3 |].
  unfold RcvInv. rewrite readb_app, readb_one. cbn [ev_read]. rewrite app_nil_r. repeat split; auto.
  - intros j Hj. destruct (Nat.lt_ge_cases j nr) as [Hlt | Hge]; [apply delivered_mono; auto|].
    destruct (A5 j ltac:(lia)) as [cj Hcj]. apply Hrb in Hcj. tauto.
  - apply A4 in H. apply Hrb in H. tauto.
  - apply A4 in H. apply Hrb in H. tauto.
  - rewrite A3, R4, concat_app, app_assoc. reflexivity.
Qed.

Lemma getE_setE_same : forall X x a, getE X (setE X x a) = x.
Proof. destruct X; reflexivity. Qed.
Lemma getE_setE_other : forall X x a, getE (negb X) (setE X x a) = getE (negb X) a.
Proof. destruct X; reflexivity. Qed.
Lemma both_sides : forall (P : bool -> Prop) S, P S -> P (negb S) -> forall X, P X.
Proof. intros P S H1 H2 X. destruct X, S; assumption. Qed.
Lemma ev_written_other : forall S e, (forall b, e <> EW S b) -> ev_written (negb S) e = [] \/ exists b, e = EW (negb S) b.
Proof. intros S e H. destruct e; cbn; auto. destruct X, S; cbn; eauto; exfalso; eapply H; reflexivity. Qed.
Lemma eqb_negb : forall S, Bool.eqb S (negb S) = false.
Proof. destruct S; reflexivity. Qed.

Ltac sides S HS :=
  let HSs := fresh "HSs" in let HRs := fresh "HRs" in let HSo := fresh "HSo" in let HRo := fresh "HRo" in
  pose proof (HS S) as [HSs HRs]; pose proof (HS (negb S)) as [HSo HRo]; rewrite negb_involutive in HRo;
  apply (both_sides _ S);
  [ rewrite ?getE_setE_same, ?getE_setE_other
  | rewrite ?negb_involutive, ?getE_setE_same, ?getE_setE_other ];
  cbn [e_pend e_asg e_emit e_nr e_rbuf e_avail].

Ltac other_snd := eapply snd_frame; [eassumption | cbn; rewrite ?eqb_negb; reflexivity | cbn; rewrite ?eqb_negb; reflexivity].
Ltac same_rcv := eapply rcv_frame; [eassumption | cbn; rewrite ?eqb_negb; reflexivity].

Lemma acc_step_inv : forall tr a e a', AInv tr a -> acc_step a e = Acc a' -> AInv (tr ++ [e]) a'.
Proof.
  intros tr a e a' [HH HS] H. destruct e as [S b | S g | S k | S b | ]; cbn [acc_step] in H.
  - (* EW *)
    injection H as <-. split; [apply hist_snoc; [exact HH | exact I]|].
    sides S HS.
    + split; [apply snd_write; assumption | same_rcv].
    + split; [other_snd | same_rcv].
  - (* ES *)
    destruct (N.leb_spec (g_unack g) (N.of_nat (e_nr (getE S a)))) as [Hack | Hack]; cbn [negb] in H; [|discriminate].
    assert (HP1 : forall i, (N.of_nat i < g_unack g)%N -> delivered S tr i).
    { intros i Hi. destruct (HS S) as [_ (R1 & _)]. apply R1. lia. }
    destruct (is_seq S (g_ty g)) eqn:Hseq.
    + destruct (N.eqb_spec (g_seq g) (N.of_nat (length (e_asg (getE S a))))) as [Hnew | Hnn].
      * destruct (strip (g_pay g) (e_pend (getE S a))) as [pend'|] eqn:Hst; [|discriminate]. injection H as <-.
        split.
        { apply hist_snoc; [exact HH|]. split; [exact HP1|]. intros _ i Hi.
          destruct (HS S) as [(_ & _ & _ & S4) _]. apply S4. lia. }
        sides S HS.
        -- split; [eapply snd_new; [exact HSs | exact Hseq | lia | exact Hst] | same_rcv].
        -- split; [other_snd | eapply rcv_frame; [apply rcv_asg_ext; eassumption | reflexivity]].
      * destruct (N.ltb_spec (g_seq g) (N.of_nat (length (e_asg (getE S a))))) as [Hlt | Hge]; [|discriminate].
        destruct (nth_error (e_asg (getE S a)) (N.to_nat (g_seq g))) as [c|] eqn:Hn; [|discriminate].
        destruct (content_eqb c (cont g)) eqn:Hc; [|discriminate]. apply content_eqb_eq in Hc. subst c.
        injection H as <-. split.
        { apply hist_snoc; [exact HH|]. split; [exact HP1|]. intros _ i Hi.
          destruct (HS S) as [(_ & _ & _ & S4) _]. apply S4. lia. }
        sides S HS.
        -- split; [apply snd_retx; auto | same_rcv].
        -- split; [other_snd | same_rcv].
    + destruct (is_ack S (g_ty g)); [|discriminate]. injection H as <-. split.
      { apply hist_snoc; [exact HH|]. split; [exact HP1|]. intros Hc. congruence. }
      sides S HS.
      * split; [apply snd_ack; auto | same_rcv].
      * split; [other_snd | same_rcv].
  - (* ER *)
    destruct (N.ltb_spec k (N.of_nat (length (e_emit (getE (negb S) a))))) as [Hk | Hk]; [|discriminate].
    destruct (nth_error (e_emit (getE (negb S) a)) (N.to_nat k)) as [g|] eqn:Hg; [|discriminate].
    assert (HE : e_emit (getE (negb S) a) = emitted (negb S) tr).
    { destruct (HS (negb S)) as [(_ & S2 & _) _]. exact S2. }
    assert (HPk : Pev tr (ER S k)). { cbn [Pev]. rewrite <- HE. lia. }
    assert (Hframe : AInv (tr ++ [ER S k]) a).
    { split; [apply hist_snoc; assumption|]. intros X. destruct (HS X) as [HSx HRx]. split.
      - eapply snd_frame; [eassumption | reflexivity | reflexivity].
      - eapply rcv_frame; [eassumption | reflexivity]. }
    destruct (is_seq (negb S) (g_ty g)) eqn:Hseq; [|injection H as <-; exact Hframe].
    destruct (Nat.ltb (N.to_nat (g_seq g)) (e_nr (getE S a)) || has (N.to_nat (g_seq g)) (e_rbuf (getE S a))) eqn:Hskip;
      [injection H as <-; exact Hframe|].
    destruct (drain (Datatypes.S (Datatypes.S (length (e_rbuf (getE S a))))) (e_nr (getE S a))
                    ((N.to_nat (g_seq g), cont g) :: e_rbuf (getE S a))) as [[nr' rb'] rel] eqn:HD.
    injection H as <-. split; [apply hist_snoc; assumption|].
    sides S HS.
    + split; [eapply snd_frame; [eassumption | reflexivity | reflexivity]|].
      eapply rcv_deliver; [eassumption | | | exact HD].
      * destruct HSo as (_ & _ & S3 & _). apply S3; [|exact Hseq]. rewrite <- HE. eapply nth_error_In. exact Hg.
      * exists tr, k, [], g. rewrite <- HE. auto.
    + split; [eapply snd_frame; [eassumption | reflexivity | reflexivity] | eapply rcv_frame; [eassumption | reflexivity]].
  - (* EA *)
    destruct (strip b (e_avail (getE S a))) as [av'|] eqn:Hst; [|discriminate]. injection H as <-.
    split; [apply hist_snoc; [exact HH | exact I]|].
    sides S HS.
    + split; [eapply snd_frame; [eassumption | reflexivity | reflexivity] | eapply rcv_read; eassumption].
    + split; [eapply snd_frame; [eassumption | reflexivity | reflexivity] | same_rcv].
  - (* EF *)
    match type of H with (if ?c then _ else _) = _ => destruct c; [|discriminate] end. injection H as <-.
    split; [apply hist_snoc; [exact HH | exact I]|].
    intros X. destruct (HS X) as [HSx HRx]. split.
    + eapply snd_frame; [eassumption | reflexivity | reflexivity].
    + eapply rcv_frame; [eassumption | reflexivity].
Qed.

Lemma a0_inv : AInv [] a0.
Proof.
  split; [apply hist_nil|]. intros X. destruct X; cbn; unfold SndInv, RcvInv; cbn;
    repeat split; try lia; try (intros; contradiction); intros i Hi; lia.
Qed.

Lemma run_acc_inv : forall tr2 tr1 a idx a', AInv tr1 a -> run_acc a tr2 idx = inl a' -> AInv (tr1 ++ tr2) a'.
Proof.
  induction tr2 as [|e t IH]; intros tr1 a idx a' HI H; cbn [run_acc] in H.
  - injection H as <-. rewrite app_nil_r. exact HI.
  - destruct (acc_step a e) as [a1 | c] eqn:E; [|discriminate].
    replace (tr1 ++ e :: t) with ((tr1 ++ [e]) ++ t) by (rewrite <- app_assoc; reflexivity).
    eapply IH; [|exact H]. eapply acc_step_inv; eauto.
Qed.

Lemma accept_inv : forall tr a, accept tr = inl a -> AInv tr a.
Proof. intros tr a H. apply (run_acc_inv tr [] a0 0%N a a0_inv H). Qed.

Lemma run_acc_app : forall t1 t2 a idx a', run_acc a (t1 ++ t2) idx = inl a' ->
  exists a1 idx1, run_acc a t1 idx = inl a1 /\ run_acc a1 t2 idx1 = inl a'.
Proof.
  induction t1 as [|e t IH]; intros t2 a idx a' H.
  - exists a, idx. split; [reflexivity | exact H].
  - cbn [app run_acc] in *. destruct (acc_step a e) as [a1 | c]; [|discriminate]. eapply IH. exact H.
Qed.

(* ---- accept_sound: the global properties of an accepted trace ---- *)

(* per direction, the bytes read at the far end are a prefix of the bytes written at the near end *)
Lemma accept_exactly_once : forall tr a, accept tr = inl a ->
  forall X, exists rest, written X tr = readb (negb X) tr ++ rest.
Proof.
  intros tr a H X. apply accept_inv in H. destruct H as [_ HS].
  destruct (HS X) as [(S1 & _) _]. destruct (HS (negb X)) as [_ (_ & _ & R3 & R4)]. rewrite negb_involutive in R3, R4.
  exists (concat (e_avail (getE (negb X) a)) ++ bytes_of (skipn (e_nr (getE (negb X) a)) (e_asg (getE X a)))
          ++ concat (e_pend (getE X a))).
  rewrite S1. rewrite <- (firstn_skipn (e_nr (getE (negb X) a)) (e_asg (getE X a))) at 1.
  rewrite bytes_of_app, R4, <- !app_assoc. reflexivity.
Qed.

(* ... and equal when the trace ends with an accepted completion claim *)
Lemma accept_complete : forall tr a, accept (tr ++ [EF]) = inl a ->
  forall X, written X tr = readb (negb X) tr.
Proof.
  intros tr a H X. unfold accept in H. apply run_acc_app in H. destruct H as (a1 & idx1 & H1 & H2).
  apply accept_inv in H1. destruct H1 as [_ HS]. cbn [run_acc acc_step] in H2.
  match type of H2 with context [if ?c then _ else _] => destruct c eqn:Hok; [|discriminate] end.
  apply andb_true_iff in Hok. destruct Hok as [Hf Ht].
  assert (Hboth : forall Y, all_nil (e_pend (getE Y a1)) = true /\ all_nil (e_avail (getE Y a1)) = true /\
                            e_nr (getE Y a1) = length (e_asg (getE (negb Y) a1))).
  { intros Y. destruct Y; [clear Hf; rename Ht into Hc | clear Ht; rename Hf into Hc];
      apply andb_true_iff in Hc; destruct Hc as [Hc H3]; apply andb_true_iff in Hc; destruct Hc as [Hc1 Hc2];
      apply Nat.eqb_eq in H3; auto. }
  destruct (HS X) as [(S1 & _) _]. destruct (HS (negb X)) as [_ (_ & _ & R3 & R4)]. rewrite negb_involutive in R3, R4.
  destruct (Hboth X) as (P1 & _ & _). destruct (Hboth (negb X)) as (_ & P2 & P3). rewrite negb_involutive in P3.
  rewrite S1, (all_nil_concat _ P1), app_nil_r. rewrite P3, firstn_all in R4.
  rewrite R4, (all_nil_concat _ P2), app_nil_r. reflexivity.
Qed.

(* every emitted datagram acknowledges only segments that had all been delivered to its emitter before *)
Lemma accept_ack_safe : forall tr a, accept tr = inl a ->
  forall pre X g post, tr = pre ++ ES X g :: post ->
  forall i, (N.of_nat i < g_unack g)%N -> delivered X pre i.
Proof.
  intros tr a H pre X g post E. apply accept_inv in H. destruct H as [HH _]. apply (HH _ _ _ E).
Qed.

(* all transmissions of one sequence number by one endpoint carry the same type, fragment and payload *)
Lemma accept_retx_same : forall tr a, accept tr = inl a ->
  forall X g1 g2, In g1 (emitted X tr) -> In g2 (emitted X tr) ->
  is_seq X (g_ty g1) = true -> is_seq X (g_ty g2) = true -> g_seq g1 = g_seq g2 ->
  g_ty g1 = g_ty g2 /\ g_frag g1 = g_frag g2 /\ g_pay g1 = g_pay g2.
Proof.
  intros tr a H X g1 g2 H1 H2 Q1 Q2 E. apply accept_inv in H. destruct H as [_ HS].
  destruct (HS X) as [(_ & _ & S3 & _) _]. pose proof (S3 _ H1 Q1) as N1. pose proof (S3 _ H2 Q2) as N2.
  rewrite E in N1. rewrite N1 in N2. unfold cont in N2. injection N2 as -> -> ->. auto.
Qed.

(* a sequenced segment numbered n is transmitted only after every number below n has been transmitted *)
Lemma accept_gapless : forall tr a, accept tr = inl a ->
  forall pre X g post, tr = pre ++ ES X g :: post -> is_seq X (g_ty g) = true ->
  forall i, (N.of_nat i < g_seq g)%N -> emitted_seq X pre i.
Proof.
  intros tr a H pre X g post E Hs. apply accept_inv in H. destruct H as [HH _]. apply (HH _ _ _ E). exact Hs.
Qed.

(* every receipt refers to a datagram the other side had emitted before *)
Lemma accept_recv_emitted : forall tr a, accept tr = inl a ->
  forall pre X k post, tr = pre ++ ER X k :: post -> N.to_nat k < length (emitted (negb X) pre).
Proof.
  intros tr a H pre X k post E. apply accept_inv in H. destruct H as [HH _]. apply (HH _ _ _ E).
Qed.

(* the payloads on the wire, in sequence-number order, are a prefix of the bytes written *)
Lemma accept_stream : forall tr a, accept tr = inl a ->
  forall X, exists asg rest, written X tr = bytes_of asg ++ rest /\
    (forall g, In g (emitted X tr) -> is_seq X (g_ty g) = true -> nth_error asg (N.to_nat (g_seq g)) = Some (cont g)) /\
    (forall i, i < length asg -> emitted_seq X tr i).
Proof.
  intros tr a H X. apply accept_inv in H. destruct H as [_ HS]. destruct (HS X) as [(S1 & _ & S3 & S4) _].
  exists (e_asg (getE X a)), (concat (e_pend (getE X a))). auto.
Qed.

(* ------------------------------------------------------------------ refinement: accepted traces are LTS runs *)

(* direction D (sender endpoint D, receiver endpoint negb D) of an accepted trace, as a reachable LTS state *)
Definition Sim (tr : list event) (a : ast) (D : bool) (s : st) : Prop :=
  reach s /\
  una s = 0 /\
  assigned s = e_asg (getE D a) /\
  sent_hi s = length (e_asg (getE D a)) /\
  next_recv s = e_nr (getE (negb D) a) /\
  (forall e, In e (e_rbuf (getE (negb D) a)) -> In e (rbuf s)) /\
  rd s = length (readb (negb D) tr) /\
  (forall g, In g (emitted D tr) -> is_seq D (g_ty g) = true -> In (N.to_nat (g_seq g), cont g) (fwd s)) /\
  (forall g, In g (emitted (negb D) tr) -> exists gh, In (N.to_nat (g_unack g), gh) (back s)).

Lemma moves_sim : forall fuel nr rb nr' rb' rel s,
  drain fuel nr rb = (nr', rb', rel) -> reach s -> next_recv s = nr -> (forall e, In e rb -> In e (rbuf s)) ->
  (forall e, In e rb' -> In e rb) /\
  exists s', reach s' /\ next_recv s' = nr' /\ una s' = una s /\ assigned s' = assigned s /\ sent_hi s' = sent_hi s /\
             rbuf s' = rbuf s /\ rd s' = rd s /\ fwd s' = fwd s /\ back s' = back s.
Proof.
  induction fuel as [|f IH]; intros nr rb nr' rb' rel s H HR Hn Hrb; cbn [drain] in H.
  - injection H as <- <- <-. split; [auto|]. exists s. repeat split; auto.
  - destruct (take nr rb) as [[c rb1]|] eqn:ET.
    + destruct (drain f (S nr) rb1) as [[nr2 rb2] rel2] eqn:ED. injection H as <- <- <-.
      destruct (take_spec _ _ _ _ ET) as [Hin Hsub].
      assert (Hm : lstep s LMove (mkSt (assigned s) (una s) (sent_hi s) (win s) (fwd s) (back s) (S (next_recv s)) (rbuf s)
                                       (got s ++ [c]) (rd s) 0)).
      { apply s_move. rewrite Hn. apply Hrb. exact Hin. }
      destruct (IH _ _ _ _ _ _ ED (reach_step _ _ _ HR Hm)) as (Hs2 & s' & A).
      { cbn. rewrite Hn. reflexivity. }
      { cbn. intros e He. apply Hrb. apply Hsub. exact He. }
      split; [intros e He; apply Hsub; apply Hs2; exact He|].
      exists s'. cbn in A. exact A.
    + injection H as <- <- <-. split; [auto|]. exists s. repeat split; auto.
Qed.

Lemma getE_setE_other2 : forall D x a, getE D (setE (negb D) x a) = getE D a.
Proof. destruct D; reflexivity. Qed.

Lemma side_cases : forall S D : bool, S = D \/ S = negb D.
Proof. destruct S, D; auto. Qed.

Lemma emitted_snoc_other : forall D e tr, ev_emit D e = [] -> emitted D (tr ++ [e]) = emitted D tr.
Proof. intros. rewrite emitted_app, emitted_one, H, app_nil_r. reflexivity. Qed.
Lemma readb_snoc_other : forall D e tr, ev_read D e = [] -> readb D (tr ++ [e]) = readb D tr.
Proof. intros. rewrite readb_app, readb_one, H, app_nil_r. reflexivity. Qed.
Lemma negb_eqb : forall D, Bool.eqb (negb D) D = false.
Proof. destruct D; reflexivity. Qed.

(* a step of the acceptor that leaves the fields Sim looks at unchanged *)
Lemma sim_frame : forall tr a a' D s e, Sim tr a D s ->
  e_asg (getE D a') = e_asg (getE D a) -> e_nr (getE (negb D) a') = e_nr (getE (negb D) a) ->
  e_rbuf (getE (negb D) a') = e_rbuf (getE (negb D) a) ->
  ev_emit D e = [] -> ev_emit (negb D) e = [] -> ev_read (negb D) e = [] ->
  Sim (tr ++ [e]) a' D s.
Proof.
  intros tr a a' D s e (H1 & H2 & H3 & H4 & H5 & H6 & H7 & H8 & H9) E1 E2 E3 F1 F2 F3.
  unfold Sim. rewrite E1, E2, E3, (emitted_snoc_other _ _ _ F1), (emitted_snoc_other _ _ _ F2), (readb_snoc_other _ _ _ F3).
  repeat split; auto.
Qed.

Lemma acc_step_sim : forall tr a e a' D s, AInv tr a -> Sim tr a D s -> acc_step a e = Acc a' ->
  exists s', Sim (tr ++ [e]) a' D s'.
Proof.
  intros tr a e a' D s HA HSim H. pose proof HA as [HH HS].
  destruct e as [S b | S g | S k | S b | ]; cbn [acc_step] in H.
  - (* EW *)
    injection H as <-. exists s. destruct (side_cases S D) as [-> | ->].
    + eapply sim_frame; [exact HSim | rewrite getE_setE_same; reflexivity | rewrite getE_setE_other; reflexivity
                        | rewrite getE_setE_other; reflexivity | reflexivity | reflexivity | reflexivity].
    + eapply sim_frame; [exact HSim | | | | reflexivity | reflexivity | reflexivity].
      * rewrite <- (negb_involutive D) at 1. rewrite getE_setE_other, negb_involutive. reflexivity.
      * rewrite getE_setE_same. reflexivity.
      * rewrite getE_setE_same. reflexivity.
  - (* ES *)
    destruct (N.leb_spec (g_unack g) (N.of_nat (e_nr (getE S a)))) as [Hack | Hack]; cbn [negb] in H; [|discriminate].
    destruct HSim as (H1 & H2 & H3 & H4 & H5 & H6 & H7 & H8 & H9).
    destruct (side_cases S D) as [-> | ->].
    + (* the sender of direction D emits: data steps *)
      assert (Hback : forall g0, In g0 (emitted (negb D) (tr ++ [ES D g])) -> exists gh, In (N.to_nat (g_unack g0), gh) (back s)).
      { intros g0 Hg0. rewrite emitted_snoc_other in Hg0 by (cbn; rewrite eqb_negb; reflexivity). auto. }
      assert (Hrd : rd s = length (readb (negb D) (tr ++ [ES D g]))).
      { rewrite readb_snoc_other by reflexivity. exact H7. }
      destruct (is_seq D (g_ty g)) eqn:Hseq.
      * destruct (N.eqb_spec (g_seq g) (N.of_nat (length (e_asg (getE D a))))) as [Hnew | Hnn].
        -- destruct (strip (g_pay g) (e_pend (getE D a))) as [pend'|] eqn:Hst; [|discriminate]. injection H as <-.
           set (s1 := mkSt (assigned s ++ [cont g]) (una s) (sent_hi s) (win s) (fwd s) (back s) (next_recv s) (rbuf s) (got s) (rd s) (lost s)).
           set (s2 := mkSt (assigned s1) (una s1) (sent_hi s1) 1 (fwd s1) (back s1) (next_recv s1) (rbuf s1) (got s1) (rd s1) (lost s1)).
           assert (R1 : reach s1) by (eapply reach_step; [exact H1 | apply s_write]).
           assert (R2 : reach s2) by (eapply reach_step; [exact R1 | apply s_setwin]).
           assert (Hn : nth_error (assigned s2) (sent_hi s2) = Some (cont g)).
           { cbn. rewrite H3, H4, nth_error_app2 by lia. rewrite Nat.sub_diag. reflexivity. }
           eexists. unfold Sim. split; [eapply reach_step; [exact R2 | apply (s_sendnew s2 (cont g)); [exact Hn | cbn; lia]]|].
           cbn. rewrite getE_setE_same, getE_setE_other. cbn [e_asg e_nr e_rbuf].
           repeat split; auto.
           ++ rewrite H3. reflexivity.
           ++ rewrite H4, app_length. cbn. lia.
           ++ intros g0 Hg0 Hs0. rewrite snd_emit_common in Hg0. apply in_app_or in Hg0. destruct Hg0 as [Hg0 | [<- | []]].
              ** right. auto.
              ** left. rewrite Hnew, Nat2N.id, H4. reflexivity.
        -- destruct (N.ltb_spec (g_seq g) (N.of_nat (length (e_asg (getE D a))))) as [Hlt | Hge]; [|discriminate].
           destruct (nth_error (e_asg (getE D a)) (N.to_nat (g_seq g))) as [c|] eqn:Hn; [|discriminate].
           destruct (content_eqb c (cont g)) eqn:Hc; [|discriminate]. apply content_eqb_eq in Hc. subst c.
           injection H as <-.
           eexists. unfold Sim. split; [eapply reach_step; [exact H1 | apply (s_retx s (N.to_nat (g_seq g)) (cont g)); [lia | lia | rewrite H3; exact Hn]]|].
           cbn. rewrite getE_setE_same, getE_setE_other. cbn [e_asg e_nr e_rbuf].
           repeat split; auto.
           intros g0 Hg0 Hs0. rewrite snd_emit_common in Hg0. apply in_app_or in Hg0. destruct Hg0 as [Hg0 | [<- | []]].
           ++ right. auto.
           ++ left. reflexivity.
      * destruct (is_ack D (g_ty g)); [|discriminate]. injection H as <-.
        exists s. unfold Sim. rewrite getE_setE_same, getE_setE_other. cbn [e_asg e_nr e_rbuf].
        repeat split; auto.
        intros g0 Hg0 Hs0. rewrite snd_emit_common in Hg0. apply in_app_or in Hg0. destruct Hg0 as [Hg0 | [<- | []]]; [auto | congruence].
    + (* the receiver of direction D emits: an ack step *)
      assert (Ha' : e_asg (getE D a') = e_asg (getE D a) /\ e_nr (getE (negb D) a') = e_nr (getE (negb D) a) /\
                    e_rbuf (getE (negb D) a') = e_rbuf (getE (negb D) a)).
      { destruct (is_seq (negb D) (g_ty g)).
        - destruct (N.eqb (g_seq g) (N.of_nat (length (e_asg (getE (negb D) a))))).
          + destruct (strip (g_pay g) (e_pend (getE (negb D) a))); [|discriminate]. injection H as <-.
            rewrite <- (negb_involutive D) at 1. rewrite getE_setE_other, getE_setE_same, negb_involutive. auto.
          + destruct (N.ltb (g_seq g) (N.of_nat (length (e_asg (getE (negb D) a))))); [|discriminate].
            destruct (nth_error (e_asg (getE (negb D) a)) (N.to_nat (g_seq g))); [|discriminate].
            destruct (content_eqb c (cont g)); [|discriminate]. injection H as <-.
            rewrite <- (negb_involutive D) at 1. rewrite getE_setE_other, getE_setE_same, negb_involutive. auto.
        - destruct (is_ack (negb D) (g_ty g)); [|discriminate]. injection H as <-.
          rewrite <- (negb_involutive D) at 1. rewrite getE_setE_other, getE_setE_same, negb_involutive. auto. }
      destruct Ha' as (E1 & E2 & E3).
      eexists. unfold Sim. split; [eapply reach_step; [exact H1 | apply (s_sendack s (N.to_nat (g_unack g))); lia]|].
      cbn. rewrite E1, E2, E3. rewrite emitted_snoc_other by (cbn; rewrite negb_eqb; reflexivity).
      rewrite readb_snoc_other by reflexivity. rewrite snd_emit_common.
      repeat split; auto.
      intros g0 Hg0. apply in_app_or in Hg0. destruct Hg0 as [Hg0 | [<- | []]].
      * destruct (H9 _ Hg0) as [gh Hgh]. exists gh. right. exact Hgh.
      * eexists. left. reflexivity.
  - (* ER *)
    destruct (N.ltb_spec k (N.of_nat (length (e_emit (getE (negb S) a))))) as [Hk | Hk]; [|discriminate].
    destruct (nth_error (e_emit (getE (negb S) a)) (N.to_nat k)) as [g|] eqn:Hg; [|discriminate].
    assert (HE : e_emit (getE (negb S) a) = emitted (negb S) tr).
    { destruct (HS (negb S)) as [(_ & S2 & _) _]. exact S2. }
    destruct (side_cases S D) as [-> | ->].
    + (* the sender endpoint of direction D receives something: no step of direction D *)
      exists s. eapply sim_frame; [exact HSim | | | | reflexivity | reflexivity | reflexivity].
      * destruct (is_seq (negb D) (g_ty g)); [|injection H as <-; reflexivity].
        destruct (Nat.ltb (N.to_nat (g_seq g)) (e_nr (getE D a)) || has (N.to_nat (g_seq g)) (e_rbuf (getE D a)));
          [injection H as <-; reflexivity|].
        destruct (drain _ _ _) as [[nr' rb'] rel]. injection H as <-. rewrite getE_setE_same. reflexivity.
      * destruct (is_seq (negb D) (g_ty g)); [|injection H as <-; reflexivity].
        destruct (Nat.ltb (N.to_nat (g_seq g)) (e_nr (getE D a)) || has (N.to_nat (g_seq g)) (e_rbuf (getE D a)));
          [injection H as <-; reflexivity|].
        destruct (drain _ _ _) as [[nr' rb'] rel]. injection H as <-. rewrite getE_setE_other. reflexivity.
      * destruct (is_seq (negb D) (g_ty g)); [|injection H as <-; reflexivity].
        destruct (Nat.ltb (N.to_nat (g_seq g)) (e_nr (getE D a)) || has (N.to_nat (g_seq g)) (e_rbuf (getE D a)));
          [injection H as <-; reflexivity|].
        destruct (drain _ _ _) as [[nr' rb'] rel]. injection H as <-. rewrite getE_setE_other. reflexivity.
    + (* the receiver endpoint of direction D receives a datagram of direction D *)
      rewrite negb_involutive in *.
      assert (Hfr : forall a2, e_asg (getE D a2) = e_asg (getE D a) -> e_nr (getE (negb D) a2) = e_nr (getE (negb D) a) ->
                      e_rbuf (getE (negb D) a2) = e_rbuf (getE (negb D) a) -> Sim (tr ++ [ER (negb D) k]) a2 D s).
      { intros a2 E1 E2 E3. eapply sim_frame; [exact HSim | exact E1 | exact E2 | exact E3 | reflexivity | reflexivity | reflexivity]. }
      destruct (is_seq D (g_ty g)) eqn:Hseq; [|injection H as <-; exists s; apply Hfr; reflexivity].
      destruct (Nat.ltb (N.to_nat (g_seq g)) (e_nr (getE (negb D) a)) || has (N.to_nat (g_seq g)) (e_rbuf (getE (negb D) a)));
        [injection H as <-; exists s; apply Hfr; reflexivity|].
      destruct (drain (Datatypes.S (Datatypes.S (length (e_rbuf (getE (negb D) a))))) (e_nr (getE (negb D) a))
                      ((N.to_nat (g_seq g), cont g) :: e_rbuf (getE (negb D) a))) as [[nr' rb'] rel] eqn:HD.
      injection H as <-.
      destruct HSim as (H1 & H2 & H3 & H4 & H5 & H6 & H7 & H8 & H9).
      assert (Hin : In (N.to_nat (g_seq g), cont g) (fwd s)).
      { apply H8; [|exact Hseq]. rewrite <- HE. eapply nth_error_In. exact Hg. }
      set (s1 := mkSt (assigned s) (una s) (sent_hi s) (win s) (fwd s) (back s) (next_recv s)
                      ((N.to_nat (g_seq g), cont g) :: rbuf s) (got s) (rd s) (lost s)).
      assert (R1 : reach s1) by (eapply reach_step; [exact H1 | apply s_recvdata; exact Hin]).
      destruct (moves_sim _ _ _ _ _ _ s1 HD R1) as (Hsub & s' & A1 & A2 & A3 & A4 & A5 & A6 & A7 & A8 & A9).
      { cbn. exact H5. }
      { cbn. intros e [<- | He]; [left; reflexivity | right; auto]. }
      exists s'. unfold Sim. rewrite getE_setE_same, getE_setE_other2.
      cbn [e_asg e_nr e_rbuf]. cbn in A3, A4, A5, A6, A7, A8, A9.
      rewrite emitted_snoc_other by reflexivity. rewrite emitted_snoc_other by reflexivity. rewrite readb_snoc_other by reflexivity.
      rewrite A3, A4, A5, A6, A7, A8, A9.
      repeat split; auto.
      intros e He. apply Hsub in He. destruct He as [<- | He]; [left; reflexivity | right; auto].
  - (* EA *)
    destruct (strip b (e_avail (getE S a))) as [av'|] eqn:Hst; [|discriminate]. injection H as <-.
    destruct (side_cases S D) as [-> | ->].
    + exists s. eapply sim_frame; [exact HSim | rewrite getE_setE_same; reflexivity | rewrite getE_setE_other; reflexivity
                                  | rewrite getE_setE_other; reflexivity | reflexivity | reflexivity | cbn; rewrite eqb_negb; reflexivity].
    + destruct HSim as (H1 & H2 & H3 & H4 & H5 & H6 & H7 & H8 & H9).
      destruct (HS (negb D)) as [_ (_ & _ & R3 & R4)]. rewrite negb_involutive in R3, R4.
      pose proof (reach_inv _ H1) as (_ & _ & _ & _ & I5 & _).
      assert (Hlen : rd s + length b <= length (bytes_of (got s))).
      { rewrite I5, H5, H3, R4, (strip_spec _ _ _ Hst), H7, !app_length. lia. }
      eexists. unfold Sim. split; [eapply reach_step; [exact H1 | apply (s_appread s (length b)); exact Hlen]|].
      cbn. rewrite getE_setE_same, getE_setE_other2.
      cbn [e_asg e_nr e_rbuf].
      rewrite emitted_snoc_other by reflexivity. rewrite emitted_snoc_other by reflexivity.
      rewrite readb_app, readb_one. cbn [ev_read]. rewrite eqb_same, app_length, H7.
      repeat split; auto.
  - (* EF *)
    match type of H with (if ?c then _ else _) = _ => destruct c; [|discriminate] end. injection H as <-.
    exists s. eapply sim_frame; [exact HSim | | | | | | ]; reflexivity.
Qed.

Lemma sim0 : forall D, Sim [] a0 D (init 0).
Proof.
  intros D. unfold Sim. split; [apply reach_init|]. destruct D; cbn; repeat split; auto; intros; contradiction.
Qed.

Lemma run_acc_sim : forall tr2 tr1 a idx a' D s, AInv tr1 a -> Sim tr1 a D s -> run_acc a tr2 idx = inl a' ->
  exists s', Sim (tr1 ++ tr2) a' D s'.
Proof.
  induction tr2 as [|e t IH]; intros tr1 a idx a' D s HI HSim H; cbn [run_acc] in H.
  - injection H as <-. rewrite app_nil_r. exists s. exact HSim.
  - destruct (acc_step a e) as [a1 | c] eqn:E; [|discriminate].
    destruct (acc_step_sim _ _ _ _ _ _ HI HSim E) as [s1 HS1].
    replace (tr1 ++ e :: t) with ((tr1 ++ [e]) ++ t) by (rewrite <- app_assoc; reflexivity).
    eapply IH; [|exact HS1|exact H]. eapply acc_step_inv; eauto.
Qed.

(* every accepted trace is, per direction D, a run of the transition system: there is a reachable LTS state
   whose sequence-number bindings, receiver position, read position, data datagrams and acks are those of
   the trace; hence every theorem about reachable states applies to the session the trace was recorded from *)
Lemma accept_refines : forall tr a, accept tr = inl a -> forall D, exists s,
  reach s /\
  assigned s = e_asg (getE D a) /\ sent_hi s = length (e_asg (getE D a)) /\
  next_recv s = e_nr (getE (negb D) a) /\ rd s = length (readb (negb D) tr) /\
  (forall g, In g (emitted D tr) -> is_seq D (g_ty g) = true -> In (N.to_nat (g_seq g), cont g) (fwd s)) /\
  (forall g, In g (emitted (negb D) tr) -> exists gh, In (N.to_nat (g_unack g), gh) (back s)).
Proof.
  intros tr a H D. destruct (run_acc_sim tr [] a0 0%N a D (init 0) a0_inv (sim0 D) H) as [s HS].
  cbn [app] in HS. destruct HS as (H1 & H2 & H3 & H4 & H5 & H6 & H7 & H8 & H9). exists s. repeat split; auto.
Qed.

(* ------------------------------------------------------------------ Part 2b: after Close *)

Lemma lookup_asg : forall asg late k c, nth_error asg (N.to_nat k) = Some c -> lookup asg late k = Some c.
Proof.
  intros asg late k c H. unfold lookup. pose proof (nth_some_lt _ _ _ _ H) as Hlt.
  destruct (N.ltb_spec k (N.of_nat (length asg))); [exact H | lia].
Qed.

Lemma lookup_fresh : forall asg late k c, lookup asg late k = None -> lookup asg ((k, c) :: late) k = Some c.
Proof.
  intros asg late k c H. unfold lookup in *. destruct (N.ltb_spec k (N.of_nat (length asg))) as [Hlt | Hge].
  - destruct (nth_error asg (N.to_nat k)) eqn:E; [discriminate|]. apply nth_error_None in E. lia.
  - cbn [assoc]. rewrite N.eqb_refl. reflexivity.
Qed.

Lemma lookup_keep : forall asg late k c k0 c0, lookup asg late k = None -> lookup asg late k0 = Some c0 ->
  lookup asg ((k, c) :: late) k0 = Some c0.
Proof.
  intros asg late k c k0 c0 Hn Hs. unfold lookup in *. destruct (N.ltb_spec k0 (N.of_nat (length asg))); [exact Hs|].
  cbn [assoc]. destruct (N.eqb_spec k k0) as [-> | Hne]; [|exact Hs].
  destruct (N.ltb_spec k0 (N.of_nat (length asg))); [lia|]. congruence.
Qed.

(* per-event obligation after Close: what an emitted datagram acknowledges had been delivered to its emitter *)
Definition PevL (pre p1 : list event) (e : event) : Prop :=
  match e with
  | ES X g => forall i, (N.of_nat i < g_unack g)%N -> delivered X (pre ++ p1) i
  | _ => True
  end.
Definition histL (pre post : list event) : Prop := forall p1 e p2, post = p1 ++ e :: p2 -> PevL pre p1 e.

Lemma histL_snoc : forall pre post e, histL pre post -> PevL pre post e -> histL pre (post ++ [e]).
Proof.
  intros pre post e H HP p1 e' p2 E. destruct p2 as [|y b'].
  - apply app_inj_tail in E. destruct E as [<- <-]. exact HP.
  - destruct (@exists_last _ (y :: b') ltac:(discriminate)) as (b2 & z & Eb). rewrite Eb in E.
    change (p1 ++ e' :: b2 ++ [z]) with (p1 ++ (e' :: b2) ++ [z]) in E. rewrite app_assoc in E.
    apply app_inj_tail in E. destruct E as [E _]. eapply H. exact E.
Qed.

Record LInv (a : ast) (pre post : list event) (l : lst) : Prop := mkLInv {
  li_tab : forall X g, In g (l_chk (getL X l)) -> is_seq X (g_ty g) = true ->
             lookup (e_asg (getE X a)) (l_tab (getL X l)) (g_seq g) = Some (cont g);
  li_cov : forall X g, In g (emitted X post) -> is_seq X (g_ty g) = true -> g_ty g <> ty_close_req -> In g (l_chk (getL X l));
  li_emit : forall X, l_emit (getL X l) = emitted X post;
  li_nr : forall X i, i < N.to_nat (l_nr (getL X l)) -> delivered X (pre ++ post) i;
  li_buf : forall X j, In j (l_buf (getL X l)) -> delivered X (pre ++ post) (N.to_nat j);
  li_hist : histL pre post
}.

Lemma getL_setL_same : forall X v l, getL X (setL X v l) = v.
Proof. destruct X; reflexivity. Qed.
Lemma getL_setL_other : forall X v l, getL (negb X) (setL X v l) = getL (negb X) l.
Proof. destruct X; reflexivity. Qed.

Lemma adv_spec : forall fuel nr buf j, (nr <= j < adv fuel nr buf)%N -> In j buf.
Proof.
  induction fuel as [|f IH]; intros nr buf j H; cbn [adv] in H; [lia|].
  destruct (existsb (N.eqb nr) buf) eqn:E; [|lia].
  destruct (N.eq_dec j nr) as [-> | Hne].
  - apply existsb_exists in E. destruct E as (x & Hx & Ex). apply N.eqb_eq in Ex. subst x. exact Hx.
  - apply (IH (N.succ nr)). lia.
Qed.

Lemma delivered_assoc : forall X pre post e i, delivered X (pre ++ post) i -> delivered X (pre ++ post ++ [e]) i.
Proof. intros. rewrite app_assoc. apply delivered_mono. assumption. Qed.

(* a step that changes only one endpoint's record in a way that keeps the tables, and does not emit *)
Lemma late_frame : forall a pre post l e, LInv a pre post l -> (forall Y, ev_emit Y e = []) -> (forall X k, e <> ER X k) ->
  LInv a pre (post ++ [e]) l.
Proof.
  intros a pre post l e [T C E N B H] He Hr. constructor; auto.
  - intros Y g Hg. rewrite emitted_snoc_other in Hg by apply He. apply C. exact Hg.
  - intros Y. rewrite emitted_snoc_other by apply He. apply E.
  - intros Y i Hi. apply delivered_assoc. auto.
  - intros Y j Hj. apply delivered_assoc. auto.
  - apply histL_snoc; [exact H|]. destruct e; cbn; auto. specialize (He X). cbn in He. rewrite eqb_same in He. discriminate.
Qed.

Opaque adv.
Lemma late_step_inv : forall a pre post l e l', AInv pre a -> LInv a pre post l -> late_step a l e = Some l' ->
  LInv a pre (post ++ [e]) l'.
Proof.
  intros a pre post l e l' HA HI H. pose proof HI as [T C E N B HH].
  destruct e as [S b | S g | S k | S b | ]; cbn [late_step] in H;
    try (injection H as <-; apply late_frame; [exact HI | intros Y; reflexivity | intros; discriminate]).
  - (* ES *)
    destruct (N.leb_spec (g_unack g) (l_nr (getL S l))) as [Hack | Hack]; cbn [negb] in H; [|discriminate].
    assert (HP : PevL pre post (ES S g)). { cbn. intros i Hi. apply N. lia. }
    (* everything common to the accepting branches: a new record for side S with the same l_nr, l_buf and l_emit ++ [g] *)
    assert (Hgen : forall tab fl chk,
              (forall g0, In g0 chk -> is_seq S (g_ty g0) = true -> lookup (e_asg (getE S a)) tab (g_seq g0) = Some (cont g0)) ->
              (forall g0, In g0 (l_chk (getL S l)) -> In g0 chk) ->
              (is_seq S (g_ty g) = true -> g_ty g <> ty_close_req -> In g chk) ->
              LInv a pre (post ++ [ES S g])
                   (setL S (mkL1 tab fl chk (l_emit (getL S l) ++ [g]) (l_nr (getL S l)) (l_buf (getL S l))) l)).
    { intros tab fl chk H1 H2 H3. constructor.
      - intros Y g0 Hg0 Hs0. destruct (side_cases Y S) as [-> | ->].
        + rewrite getL_setL_same in *. cbn [l_tab l_chk] in *. auto.
        + rewrite getL_setL_other in *. apply T; assumption.
      - intros Y g0 Hg0 Hs0 Hn0. destruct (side_cases Y S) as [-> | ->].
        + rewrite getL_setL_same. cbn [l_chk]. rewrite snd_emit_common in Hg0. apply in_app_or in Hg0.
          destruct Hg0 as [Hg0 | [<- | []]]; [apply H2; apply C; assumption | apply H3; assumption].
        + rewrite getL_setL_other. rewrite emitted_snoc_other in Hg0 by (cbn; rewrite eqb_negb; reflexivity). apply C; assumption.
      - intros Y. destruct (side_cases Y S) as [-> | ->].
        + rewrite getL_setL_same. cbn [l_emit]. rewrite snd_emit_common, E. reflexivity.
        + rewrite getL_setL_other. rewrite emitted_snoc_other by (cbn; rewrite eqb_negb; reflexivity). apply E.
      - intros Y i Hi. apply delivered_assoc. destruct (side_cases Y S) as [-> | ->].
        + rewrite getL_setL_same in Hi. cbn [l_nr] in Hi. auto.
        + rewrite getL_setL_other in Hi. auto.
      - intros Y j Hj. apply delivered_assoc. destruct (side_cases Y S) as [-> | ->].
        + rewrite getL_setL_same in Hj. cbn [l_buf] in Hj. auto.
        + rewrite getL_setL_other in Hj. auto.
      - apply histL_snoc; assumption. }
    destruct (is_seq S (g_ty g)) eqn:Hseq.
    + destruct (l_flag (getL S l) && N.eqb (g_ty g) ty_close_req) eqn:Hex.
      * injection H as <-. apply Hgen; auto.
        intros _ Hne. apply andb_true_iff in Hex. destruct Hex as [_ Hex]. apply N.eqb_eq in Hex. contradiction.
      * destruct (lookup (e_asg (getE S a)) (l_tab (getL S l)) (g_seq g)) as [c|] eqn:Hl.
        -- destruct (content_eqb c (cont g)) eqn:Hc; [|discriminate]. apply content_eqb_eq in Hc. subst c. injection H as <-.
           apply Hgen; [|intros; right; assumption | intros; left; reflexivity].
           intros g0 [<- | Hg0] Hs0; [exact Hl | apply T; assumption].
        -- injection H as <-. apply Hgen; [|intros; right; assumption | intros; left; reflexivity].
           intros g0 [<- | Hg0] Hs0; [apply lookup_fresh; exact Hl | eapply lookup_keep; [exact Hl | apply T; assumption]].
    + destruct (is_ack S (g_ty g)); [|discriminate]. injection H as <-. apply Hgen; auto. intros Hc. discriminate.
  - (* ER *)
    set (pre_emit := e_emit (getE (negb S) a)) in *. set (post_emit := l_emit (getL (negb S) l)) in *.
    destruct (N.ltb_spec k (N.of_nat (length pre_emit + length post_emit))) as [Hk | Hk]; [|discriminate].
    match type of H with match ?sel with _ => _ end = _ => destruct sel as [g|] eqn:Hg end; [|discriminate].
    assert (HEp : pre_emit = emitted (negb S) pre).
    { destruct HA as [_ HS]. destruct (HS (negb S)) as [(_ & S2 & _) _]. exact S2. }
    assert (Hnth : nth_error (emitted (negb S) (pre ++ post)) (N.to_nat k) = Some g).
    { rewrite emitted_app, <- HEp, <- (E (negb S)). fold post_emit.
      destruct (N.ltb_spec k (N.of_nat (length pre_emit))) as [Hlt | Hge].
      - rewrite nth_error_app1 by lia. exact Hg.
      - rewrite nth_error_app2 by lia. exact Hg. }
    assert (Hfr : LInv a pre (post ++ [ER S k]) l).
    { constructor; auto.
      - intros Y g0 Hg0. rewrite emitted_snoc_other in Hg0 by reflexivity. apply C. exact Hg0.
      - intros Y. rewrite emitted_snoc_other by reflexivity. apply E.
      - intros Y i Hi. apply delivered_assoc. auto.
      - intros Y j Hj. apply delivered_assoc. auto.
      - apply histL_snoc; [exact HH | exact I]. }
    destruct (is_seq (negb S) (g_ty g)) eqn:Hseq; [|injection H as <-; exact Hfr].
    injection H as <-.
    assert (Hnew : delivered S (pre ++ post ++ [ER S k]) (N.to_nat (g_seq g))).
    { exists (pre ++ post), k, [], g. rewrite app_assoc. auto. }
    assert (Hbuf : forall j, In j (g_seq g :: l_buf (getL S l)) -> delivered S (pre ++ post ++ [ER S k]) (N.to_nat j)).
    { intros j [<- | Hj]; [exact Hnew | apply delivered_assoc; auto]. }
    destruct Hfr as [T' C' E' N' B' HH']. constructor; auto.
    + intros Y g0 Hg0 Hs0. destruct (side_cases Y S) as [-> | ->].
      * rewrite getL_setL_same in *. cbn [l_tab l_chk] in *. apply T; assumption.
      * rewrite getL_setL_other in *. apply T; assumption.
    + intros Y g0 Hg0 Hs0 Hn0. destruct (side_cases Y S) as [-> | ->].
      * rewrite getL_setL_same. cbn [l_chk]. apply C'; assumption.
      * rewrite getL_setL_other. apply C'; assumption.
    + intros Y. destruct (side_cases Y S) as [-> | ->].
      * rewrite getL_setL_same. cbn [l_emit]. apply E'.
      * rewrite getL_setL_other. apply E'.
    + intros Y i Hi. destruct (side_cases Y S) as [-> | ->].
      * rewrite getL_setL_same in Hi. cbn [l_nr] in Hi.
        destruct (Nat.lt_ge_cases i (N.to_nat (l_nr (getL S l)))) as [Hlt | Hge]; [apply N'; exact Hlt|].
        rewrite <- (Nat2N.id i). apply Hbuf.
        match type of Hi with context [adv ?f ?n ?b] => apply (adv_spec f n b) end. split; lia.
      * rewrite getL_setL_other in Hi. apply N'. exact Hi.
    + intros Y j Hj. destruct (side_cases Y S) as [-> | ->].
      * rewrite getL_setL_same in Hj. cbn [l_buf] in Hj. apply Hbuf. exact Hj.
      * rewrite getL_setL_other in Hj. apply B'. exact Hj.
Qed.

Transparent adv.

Lemma late_run_inv : forall a pre post2 post1 l l', AInv pre a -> LInv a pre post1 l -> late_run a l post2 = Some l' ->
  LInv a pre (post1 ++ post2) l'.
Proof.
  intros a pre. induction post2 as [|e t IH]; intros post1 l l' HA HI H; cbn [late_run] in H.
  - injection H as <-. rewrite app_nil_r. exact HI.
  - destruct (late_step a l e) as [l1|] eqn:E; [|discriminate].
    replace (post1 ++ e :: t) with ((post1 ++ [e]) ++ t) by (rewrite <- app_assoc; reflexivity).
    eapply IH; [exact HA | | exact H]. eapply late_step_inv; eauto.
Qed.

Lemma late_init_inv : forall a pre, AInv pre a -> LInv a pre [] (late_init a).
Proof.
  intros a pre [_ HS]. constructor.
  - intros X g Hg. destruct X; contradiction.
  - intros X g Hg. contradiction.
  - intros X. destruct X; reflexivity.
  - intros X i Hi. rewrite app_nil_r. destruct (HS X) as [_ (R1 & _)]. apply R1.
    destruct X; cbn [getL late_init l_s l_c late_init1 l_nr getE] in *; rewrite Nat2N.id in Hi; exact Hi.
  - intros X j Hj. rewrite app_nil_r. destruct (HS X) as [_ (_ & R2 & _)].
    assert (Hin : In j (map (fun e => N.of_nat (fst e)) (e_rbuf (getE X a)))) by (destruct X; exact Hj).
    apply in_map_iff in Hin. destruct Hin as ([i c] & <- & Hic). cbn [fst]. rewrite Nat2N.id. eapply R2. exact Hic.
  - intros p1 e p2 E. destruct p1; discriminate.
Qed.

Lemma late_final_inv : forall pre post l, late_final pre post = Some l -> exists a, accept pre = inl a /\ LInv a pre post l.
Proof.
  intros pre post l H. unfold late_final in H. destruct (accept pre) as [a | r] eqn:Ea; [|discriminate].
  exists a. split; [reflexivity|]. pose proof (accept_inv _ _ Ea) as HA.
  apply (late_run_inv a pre post [] (late_init a) l HA (late_init_inv a pre HA) H).
Qed.

(* one sequence number, one content - for every sequenced segment (data and control) emitted before Close and every
   checked one emitted after it (see late_covers for what is checked) *)
Lemma accept_closed_retx_same : forall pre post l, late_final pre post = Some l ->
  forall X g1 g2, In g1 (emitted X pre ++ l_chk (getL X l)) -> In g2 (emitted X pre ++ l_chk (getL X l)) ->
  is_seq X (g_ty g1) = true -> is_seq X (g_ty g2) = true -> g_seq g1 = g_seq g2 ->
  g_ty g1 = g_ty g2 /\ g_frag g1 = g_frag g2 /\ g_pay g1 = g_pay g2.
Proof.
  intros pre post l H X g1 g2 H1 H2 Q1 Q2 E. destruct (late_final_inv _ _ _ H) as (a & Ea & [T _ _ _ _ _]).
  apply accept_inv in Ea. destruct Ea as [_ HS]. destruct (HS X) as [(_ & _ & S3 & _) _].
  assert (Hb : forall g, In g (emitted X pre ++ l_chk (getL X l)) -> is_seq X (g_ty g) = true ->
                         lookup (e_asg (getE X a)) (l_tab (getL X l)) (g_seq g) = Some (cont g)).
  { intros g Hg Hs. apply in_app_or in Hg. destruct Hg as [Hg | Hg].
    - apply lookup_asg. apply S3; assumption.
    - apply T; assumption. }
  pose proof (Hb _ H1 Q1) as N1. pose proof (Hb _ H2 Q2) as N2. rewrite E in N1. rewrite N1 in N2.
  unfold cont in N2. injection N2 as -> -> ->. auto.
Qed.

Lemma late_covers : forall pre post l, late_final pre post = Some l ->
  forall X g, In g (emitted X post) -> is_seq X (g_ty g) = true -> g_ty g <> ty_close_req -> In g (l_chk (getL X l)).
Proof. intros pre post l H. destruct (late_final_inv _ _ _ H) as (a & _ & [_ C _ _ _ _]). exact C. Qed.

(* acks stay safe while closing: every datagram emitted after Close acknowledges only segment numbers all of which had
   been delivered to its emitter before (deliveries before and after Close count) *)
Lemma accept_closed_ack_safe : forall pre post l, late_final pre post = Some l ->
  forall p1 X g p2, post = p1 ++ ES X g :: p2 -> forall i, (N.of_nat i < g_unack g)%N -> delivered X (pre ++ p1) i.
Proof.
  intros pre post l H p1 X g p2 E. destruct (late_final_inv _ _ _ H) as (a & _ & [_ _ _ _ _ HH]). apply (HH _ _ _ E).
Qed.

(* the full sentence of C13 - no sequence number ever carries two contents - is FALSE of the faithful model: the
   underlay's stateless closeSessionRequest for a session it no longer has copies its seq from the peer's unAckSeq *)
Lemma seq_reuse_after_close : exists pre post g1 g2,
  accept_closed pre post = true /\ In g1 (emitted false (pre ++ post)) /\ In g2 (emitted false (pre ++ post)) /\
  is_seq false (g_ty g1) = true /\ is_seq false (g_ty g2) = true /\ g_seq g1 = g_seq g2 /\ g_ty g1 <> g_ty g2.
Proof.
  exists [ EW false [1;2;3]%N; ES false (mkDg 2 0 0 0 0 [1;2;3]%N); ER true 0%N; ES true (mkDg 3 0 0 0 0 []);
           EW false [7]%N; ES false (mkDg 6 1 0 4096 0 [7]%N) ],
         [ ES false (mkDg 4 2 0 0 0 []); ES false (mkDg 4 1 0 0 0 []) ],
         (mkDg 6 1 0 4096 0 [7]%N), (mkDg 4 1 0 0 0 []).
  vm_compute. repeat split; auto 10; discriminate.
Qed.

(* C13 for the LTS, spelled out for control segments: the close session request (like every sequenced segment)
   gets its number in the step that queues it - number = length of the history, never a number in use - and
   every transmission of that number carries it *)
Lemma close_request_numbering : forall s c s', reach s -> lstep s (LWrite c) s' ->
  nth_error (assigned s') (length (assigned s)) = Some c /\
  nth_error (assigned s) (length (assigned s)) = None /\
  (forall i c0, In (i, c0) (fwd s') -> i < length (assigned s)) /\
  (forall s2 c2, reach s2 -> nth_error (assigned s2) (length (assigned s)) = Some c ->
                 In (length (assigned s), c2) (fwd s2) -> c2 = c).
Proof.
  intros s c s' HR H. pose proof (reach_inv _ HR) as (_ & I2 & I3 & _).
  destruct (seq_gapless _ HR) as (_ & _ & _ & G). destruct (G _ _ H) as (_ & _ & Gw). destruct (Gw c eq_refl) as [Gn _].
  split; [exact Gn|]. split; [apply nth_error_None; lia|]. split.
  - inversion H; subst. cbn. intros i c0 Hin. apply I3 in Hin. lia.
  - intros s2 c2 HR2 Hn Hin. pose proof (reach_inv _ HR2) as (_ & _ & J3 & _). apply J3 in Hin. destruct Hin as [Hin _].
    rewrite Hn in Hin. injection Hin as ->. reflexivity.
Qed.

(* ------------------------------------------------------------------ Part 1b: windows *)

Definition WInv (s : wst) : Prop :=
  reach (base s) /\ win (base s) = swin (base s) (cwnd s) (rwnd s) /\ minWindow <= cwnd s /\
  (forall u w, In (u, w) (backw s) -> exists g, In (u, g) (back (base s))).

Lemma minWindow_pos : 0 < minWindow.
Proof. unfold minWindow, C02_minWindowSize. cbn. lia. Qed.

Lemma set_win_step : forall b v, lstep b (LSetWin v) (set_win b v).
Proof. intros. apply s_setwin. Qed.

Lemma lstep_back : forall s l s', lstep s l s' -> is_sendack l = false -> back s' = back s.
Proof. intros s l s' H F. destruct H; proj; try reflexivity. discriminate. Qed.

Lemma winv_init : forall cw rw rs, minWindow <= cw -> WInv (winit cw rw rs).
Proof.
  intros. unfold WInv, winit. cbn. split; [apply reach_init|]. split; [unfold swin; cbn; f_equal; lia|].
  split; [assumption | intros; contradiction].
Qed.

Lemma wstep_inv : forall s l s', WInv s -> wstep s l s' -> WInv s'.
Proof.
  intros s l s' (HR & HW & HC & HB) H. destruct H; unfold WInv; cbn [base cwnd rwnd rspace backw].
  - split; [eapply reach_step; [eapply reach_step; [exact HR | exact H] | apply set_win_step]|].
    split; [reflexivity|]. split; [exact HC|]. cbn. rewrite (lstep_back _ _ _ H H1). exact HB.
  - split; [eapply reach_step; [exact HR | apply set_win_step]|]. split; [reflexivity|]. split; [assumption | exact HB].
  - repeat split; assumption.
  - inversion H; subst. cbn. split; [eapply reach_step; [exact HR | exact H]|].
    split; [exact HW|]. split; [exact HC|].
    intros u0 w0 [E | Hin]; [injection E as <- <-; eexists; left; reflexivity|].
    destruct (HB _ _ Hin) as [g Hg]. exists g. right. exact Hg.
  - split; [eapply reach_step; [eapply reach_step; [exact HR | exact H0] | apply set_win_step]|].
    split; [reflexivity|]. split; [exact HC|]. cbn. rewrite (lstep_back _ _ _ H0 eq_refl). exact HB.
Qed.

Lemma wreach_inv : forall s, wreach s -> WInv s.
Proof. intros s H. induction H; [apply winv_init; assumption | eapply wstep_inv; eauto]. Qed.

(* every theorem of Part 1 applies to the base of a reachable windowed state *)
Lemma wreach_base : forall s, wreach s -> reach (base s) /\ win (base s) = swin (base s) (cwnd s) (rwnd s).
Proof. intros s H. apply wreach_inv in H. destruct H as (A & B & _). auto. Qed.

Inductive wrun : wst -> list wlabel -> wst -> Prop :=
| wrun_nil : forall s, wrun s [] s
| wrun_cons : forall s l s1 ls s2, wstep s l s1 -> wrun s1 ls s2 -> wrun s (l :: ls) s2.

Lemma wrun_app : forall s l1 s1 l2 s2, wrun s l1 s1 -> wrun s1 l2 s2 -> wrun s (l1 ++ l2) s2.
Proof. intros s l1 s1 l2 s2 H. induction H; intros H2; [exact H2|]. cbn. econstructor; eauto. Qed.

(* the window-reopening ack: at any time the receiver may emit an ack carrying its current window (heartbeat or
   ack on data), and when the sender processes it - whatever its ack number - the sender's view of the window
   is the receiver's free space; with nothing in flight the send window is then min(cwnd, free space) *)
Lemma window_reopen_enabled : forall s, wreach s ->
  exists s1 s2,
    wstep s (WSendAck (next_recv (base s))) s1 /\ wstep s1 (WRecvAck (next_recv (base s)) (rspace s)) s2 /\
    rwnd s2 = rspace s /\ cwnd s2 = cwnd s /\ rspace s2 = rspace s /\
    assigned (base s2) = assigned (base s) /\ next_recv (base s2) = next_recv (base s) /\ sent_hi (base s2) = sent_hi (base s) /\
    (next_recv (base s) = sent_hi (base s) -> win (base s2) = Nat.min (cwnd s) (rspace s)) /\
    (next_recv (base s) = sent_hi (base s) -> 0 < rspace s -> 0 < win (base s2)).
Proof.
  intros s HW. pose proof (wreach_inv _ HW) as (HR & _ & HC & _).
  pose proof (reach_inv _ HR) as (I1 & _).
  eexists. eexists. split; [apply ws_sendack; apply s_sendack; lia|].
  split. { apply ws_recvack; cbn; [left; reflexivity|]. eapply s_recvack. cbn. left. reflexivity. }
  cbn. repeat split; try reflexivity.
  - intros E. unfold swin. cbn. rewrite E. replace (sent_hi (base s) - Nat.max (una (base s)) (Nat.min (sent_hi (base s)) (sent_hi (base s)))) with 0 by lia.
    rewrite Nat.sub_0_r. reflexivity.
  - intros E Hs. unfold swin. cbn. rewrite E. pose proof minWindow_pos. lia.
Qed.

(* progress without the window hypothesis: with undelivered data and free space at the receiver, at most five
   steps - the receiver's ack, its delivery, a transmission of the awaited segment, its delivery, the move -
   advance the receiver.  Fairness assumption on acks: one of the acks the receiver keeps emitting (on data and
   every heartbeat interval) is delivered. *)
Lemma progress_by_ack : forall s, wreach s -> next_recv (base s) < length (assigned (base s)) -> 0 < rspace s ->
  exists ls s', wrun s ls s' /\ length ls <= 5 /\ next_recv (base s') = S (next_recv (base s)).
Proof.
  intros s HW Hund Hsp. pose proof (wreach_inv _ HW) as (HR & _ & _ & _).
  pose proof (reach_inv _ HR) as (I1 & I2 & _ & _ & _ & I6 & _ & I8 & _).
  destruct (no_premature_discard _ HR) as [_ Hc]. destruct (Hc Hund) as (c & Hn & _).
  assert (Hdeliver : forall t, wreach t -> next_recv (base t) = next_recv (base s) -> assigned (base t) = assigned (base s) ->
            (next_recv (base t) < sent_hi (base t) \/ (next_recv (base t) = sent_hi (base t) /\ 0 < win (base t))) ->
            una (base t) <= next_recv (base t) ->
            exists ls t', wrun t ls t' /\ length ls = 3 /\ next_recv (base t') = S (next_recv (base s))).
  { intros t HT En Ea Hcase Hu. rewrite <- En. rewrite <- Ea in Hn. rewrite <- En in Hn.
    destruct Hcase as [Hlt | [Heq Hw]].
    - eexists [_; _; _]. eexists. split; [|split; [reflexivity|]].
      + eapply wrun_cons. { apply (ws_base t (LRetx (next_recv (base t)))); [apply (s_retx _ _ c); [exact Hu | exact Hlt | exact Hn] | reflexivity | reflexivity | reflexivity]. }
        eapply wrun_cons. { apply (ws_base _ (LRecvData (next_recv (base t)) c)); [apply s_recvdata; cbn; left; reflexivity | reflexivity | reflexivity | reflexivity]. }
        eapply wrun_cons. { apply (ws_base _ LMove); [apply (s_move _ c); cbn; left; reflexivity | reflexivity | reflexivity | reflexivity]. }
        apply wrun_nil.
      + reflexivity.
    - eexists [_; _; _]. eexists. split; [|split; [reflexivity|]].
      + eapply wrun_cons. { apply (ws_base t (LSendNew (sent_hi (base t)))); [apply (s_sendnew _ c); [rewrite <- Heq; exact Hn | exact Hw] | reflexivity | reflexivity | reflexivity]. }
        eapply wrun_cons. { apply (ws_base _ (LRecvData (next_recv (base t)) c)); [apply s_recvdata; cbn; left; rewrite Heq; reflexivity | reflexivity | reflexivity | reflexivity]. }
        eapply wrun_cons. { apply (ws_base _ LMove); [apply (s_move _ c); cbn; left; reflexivity | reflexivity | reflexivity | reflexivity]. }
        apply wrun_nil.
      + reflexivity. }
  destruct (Nat.lt_ge_cases (next_recv (base s)) (sent_hi (base s))) as [Hlt | Hge].
  - destruct (Hdeliver s HW eq_refl eq_refl (or_introl Hlt) I8) as (ls & t' & R & L & N).
    exists ls, t'. split; [exact R|]. split; [lia | exact N].
  - assert (E : next_recv (base s) = sent_hi (base s)) by lia.
    destruct (window_reopen_enabled s HW) as (s1 & s2 & W1 & W2 & _ & _ & _ & A1 & A2 & A3 & _ & A5).
    assert (HW2 : wreach s2) by (eapply wreach_step; [eapply wreach_step; [exact HW | exact W1] | exact W2]).
    pose proof (wreach_inv _ HW2) as (HR2 & _). pose proof (reach_inv _ HR2) as (_ & _ & _ & _ & _ & _ & _ & J8 & _).
    destruct (Hdeliver s2 HW2 A2 A1) as (ls & t' & R & L & N); [right; split; [lia | apply A5; assumption] | exact J8 |].
    exists (WSendAck (next_recv (base s)) :: WRecvAck (next_recv (base s)) (rspace s) :: ls), t'.
    split; [econstructor; [exact W1|]; econstructor; [exact W2 | exact R]|]. split; [cbn; lia | exact N].
Qed.

(* ------------------------------------------------------------------ Part 1c: inputData never blocks *)

Lemma capN_pos : 0 < capN.
Proof. unfold capN, C02_segmentTreeCapacity. apply Nat.ltb_lt. vm_compute. reflexivity. Qed.
Opaque capN.

(* for EVERY receiver state and every arriving segment: inputData drops or accepts, it never waits for the
   application (no invariant is needed: the window test itself guarantees a free slot in recvQueue) *)
Lemma input_never_blocks : forall r d, snd (input_data r d) <> InBlocked.
Proof.
  intros r d. unfold input_data, input_body, rwindow.
  destruct (Nat.eqb_spec (capN - length (r_buf r) - r_queue r) 0) as [E | E]; [cbn; discriminate|].
  destruct (Nat.leb_spec capN (length (r_buf r))); [cbn; discriminate|].
  cbn [r_queue]. destruct (Nat.leb_spec capN (r_queue r)); [lia | cbn; discriminate].
Qed.

(* a full receive window (recvBuf + recvQueue hold capacity segments) makes the receiver DROP the segment, state unchanged *)
Lemma input_full_window_drops : forall r d, capN <= length (r_buf r) + r_queue r -> input_data r d = (r, InDropped).
Proof.
  intros r d H. unfold input_data, rwindow. replace (capN - length (r_buf r) - r_queue r) with 0 by lia. reflexivity.
Qed.

(* while an accepted segment leaves recvBuf and recvQueue within their capacity *)
Lemma move_loop_queue : forall fuel r, r_queue r <= capN -> r_queue (move_loop fuel r) <= capN.
Proof.
  induction fuel as [|f IH]; intros r H; cbn [move_loop]; [exact H|].
  destruct (Nat.leb_spec capN (r_queue r)); [exact H|].
  destruct (take (r_next r) (r_buf r)) as [[c rb']|]; [apply IH; cbn [r_queue]; lia | cbn [r_queue]; lia].
Qed.
Lemma input_queue_bounded : forall r d, r_queue r <= capN -> r_queue (fst (input_data r d)) <= capN.
Proof.
  intros r d H. unfold input_data, input_body. destruct (Nat.eqb (rwindow r) 0); [exact H|].
  destruct (Nat.leb capN (length (r_buf r))); [exact H|]. cbn [r_queue].
  destruct (Nat.leb capN (r_queue r)); [exact H|]. cbn [fst]. apply move_loop_queue. exact H.
Qed.

(* the window test is what makes it so: without it there is a state (recvQueue full because the application does
   not read, recvBuf empty) in which the next segment makes the input loop wait for the application *)
Lemma input_nocheck_blocks : exists r d, r_queue r <= capN /\ snd (input_data_nocheck r d) = InBlocked.
Proof.
  exists (mkR capN [] capN), (capN, mkC 6 0 [1%N]). split; [cbn [r_queue]; lia|].
  unfold input_data_nocheck, input_body. cbn [r_buf r_queue length].
  pose proof capN_pos.
  destruct (Nat.leb_spec capN 0); [lia|]. rewrite Nat.leb_refl. reflexivity.
Qed.

(* ------------------------------------------------------------------ Part 1d: partial Writes *)

Lemma queue_frags_spec : forall k cs ns, let '(ns', q) := queue_frags ns cs k in
  ns' = ns + length q /\ map fst q = seq ns (length q) /\ map snd q = firstn k cs.
Proof.
  induction k as [|k IH]; intros cs ns.
  - destruct cs; cbn; repeat split; try reflexivity; lia.
  - destruct cs as [|c cs]; [cbn; repeat split; try reflexivity; lia|]. cbn [queue_frags].
    specialize (IH cs (S ns)). destruct (queue_frags (S ns) cs k) as [ns' q]. destruct IH as (A & B & C).
    cbn [length map seq fst snd firstn]. rewrite B, C. repeat split; try reflexivity; lia.
Qed.

(* whatever Writes happened and wherever each stopped: the numbers in the send queue are ns, ns+1, ... without a
   hole, and the counter stands exactly behind the last one *)
Lemma write_all_gapless : forall ops ns, let '(ns', q) := write_all ns ops in
  ns' = ns + length q /\ map fst q = seq ns (length q).
Proof.
  induction ops as [|[cs k] t IH]; intros ns; cbn [write_all].
  - cbn. split; [lia | reflexivity].
  - pose proof (queue_frags_spec k cs ns) as H1. destruct (queue_frags ns cs k) as [ns1 q1]. destruct H1 as (A1 & B1 & _).
    specialize (IH ns1). destruct (write_all ns1 t) as [ns2 q2]. destruct IH as (A2 & B2).
    rewrite app_length, map_app, seq_app, B1, B2, A1. split; [lia | reflexivity].
Qed.

(* a partial Write is k Write steps of the transition system: every theorem about reachable states covers it *)
Lemma partial_write_run : forall cs k s, reach s -> exists s',
  run s (map LWrite (firstn k cs)) s' /\ reach s' /\ assigned s' = assigned s ++ firstn k cs /\
  sent_hi s' = sent_hi s /\ fwd s' = fwd s /\ next_recv s' = next_recv s.
Proof.
  intros cs k. generalize (firstn k cs) as l. induction l as [|c l IH]; intros s HR.
  - exists s. rewrite app_nil_r. repeat split; auto. apply run_nil.
  - set (s1 := mkSt (assigned s ++ [c]) (una s) (sent_hi s) (win s) (fwd s) (back s) (next_recv s) (rbuf s) (got s) (rd s) (lost s)).
    assert (H1 : lstep s (LWrite c) s1) by apply s_write.
    destruct (IH s1 (reach_step _ _ _ HR H1)) as (s' & R & HR' & A & B & C & D).
    exists s'. cbn [map]. split; [econstructor; eauto|]. split; [exact HR'|]. cbn in A, B, C, D.
    rewrite A, <- app_assoc. repeat split; auto.
Qed.

(* reserving all numbers before the loop loses those of the fragments that are never built *)
Lemma reserve_up_front_leaves_hole : exists ops, let '(ns', q) := write_all_reserve 0 ops in
  map fst q <> seq 0 (length q) /\ ns' <> length q.
Proof.
  exists [([mkC 6 2 []; mkC 6 1 []; mkC 6 0 []], 1); ([mkC 6 0 []], 1)]. vm_compute. split; intros H; discriminate.
Qed.

(* ------------------------------------------------------------------ non-vacuity *)

(* a reachable LTS state with a loss, a duplicate, reordering and a read *)
Definition cA := mkC 6 1 [1%N; 2%N].
Definition cB := mkC 6 0 [3%N].
Definition ex_state : st :=
  mkSt [cA; cB] 1 2 5 [(0, cA); (1, cB); (0, cA)] [(1, 1)] 2 [(0, cA); (1, cB); (0, cA)] [cA; cB] 3 0.
Lemma reach_run : forall s ls s', reach s -> run s ls s' -> reach s'.
Proof. intros s ls s' HR H. induction H; [exact HR|]. apply IHrun. eapply reach_step; eauto. Qed.

Lemma ex_state_run : exists ls, run (init 5) ls ex_state /\ length ls = 13.
Proof.
  eexists. split.
  eapply run_cons; [apply s_write|]. cbn.
  eapply run_cons; [apply s_write|]. cbn.
  eapply run_cons; [apply (s_sendnew _ cA); cbn; [reflexivity | lia]|]. cbn.
  eapply run_cons; [apply (s_sendnew _ cB); cbn; [reflexivity | lia]|]. cbn.
  eapply run_cons; [apply (s_retx _ 0 cA); cbn; [lia | lia | reflexivity]|]. cbn.
  eapply run_cons; [apply (s_recvdata _ 0 cA); cbn; auto|]. cbn.
  eapply run_cons; [apply (s_recvdata _ 1 cB); cbn; auto|]. cbn.
  eapply run_cons; [apply (s_move _ cA); cbn; auto|]. cbn.
  eapply run_cons; [apply (s_sendack _ 1); cbn; lia|]. cbn.
  eapply run_cons; [apply (s_recvdata _ 0 cA); cbn; auto|]. cbn.
  eapply run_cons; [apply (s_move _ cB); cbn; auto|]. cbn.
  eapply run_cons; [apply (s_recvack _ 1 1); cbn; auto|]. cbn.
  eapply run_cons; [apply (s_appread _ 3); cbn; lia|]. cbn.
  apply run_nil.
  reflexivity.
Qed.
Lemma ex_state_reach : reach ex_state.
Proof. destruct ex_state_run as (ls & H & _). eapply reach_run; [apply (reach_init 5) | exact H]. Qed.
(* the example satisfies the hypotheses of the progress lemma after one more Write *)
Lemma ex_state_undelivered : exists s, reach s /\ next_recv s < length (assigned s) /\ 0 < win s.
Proof.
  eexists. split; [eapply reach_step; [apply ex_state_reach | apply (s_write _ cB)]|]. cbn. lia.
Qed.
(* a fair run (K = 3: the receiver advances after at most 2 transmissions) with 2 transmissions of the awaited
   segment 0, the first one lost *)
Lemma ex_fair_run : exists t s', fair_run 3 (mkSt [cA] 0 0 5 [] [] 0 [] [] 0 0) t s' /\ t = 2 /\ next_recv s' = 1.
Proof.
  eexists. eexists. split; [|split].
  - eapply (fr_cons 3); [cbn; lia | apply (s_sendnew _ cA); cbn; [reflexivity | lia] |].
    eapply (fr_cons 3); [cbn; lia | apply (s_retx _ 0 cA); cbn; [lia | lia | reflexivity] |]. cbn.
    eapply (fr_cons 3); [cbn; lia | apply (s_recvdata _ 0 cA); cbn; auto |]. cbn.
    eapply (fr_cons 3); [cbn; lia | apply (s_move _ cA); cbn; auto |]. cbn.
    apply fr_nil. cbn. lia.
  - reflexivity.
  - reflexivity.
Qed.

(* an accepted trace: first write inside the open request, the server's data overtakes its open response,
   a retransmission, a duplicate delivery, completion *)
Definition ex_trace : list event :=
  [ EW false [1;2;3]%N;
    ES false (mkDg 2 0 0 0 0 [1;2;3]%N);
    ER true 0%N;
    ES true (mkDg 3 0 0 0 0 []);
    EA true [1;2;3]%N;
    EW true [9]%N;
    ES true (mkDg 7 1 1 4095 0 [9]%N);
    ES true (mkDg 7 1 1 4095 0 [9]%N);
    ER false 2%N;
    ER false 0%N;
    ER false 1%N;
    EA false [9]%N;
    ES false (mkDg 8 0 2 4096 0 []);
    ER true 1%N ].
Lemma ex_trace_accepted : accepts (ex_trace ++ [EF]) = true.
Proof. vm_compute. reflexivity. Qed.
(* the guards bite: an ack one ahead, a retransmission with a changed payload, a skipped number, a wrong byte *)
Lemma ex_rejects :
  accept [ES false (mkDg 8 0 1 0 0 [])] = inr (0%N, rj_ack) /\
  accept [EW false [1;2]%N; ES false (mkDg 2 0 0 0 0 [1;2]%N); ES false (mkDg 2 0 0 0 0 [2]%N)] = inr (2%N, rj_retx) /\
  accept [EW false [1;2]%N; ES false (mkDg 2 0 0 0 0 []); ES false (mkDg 6 2 0 0 0 [1;2]%N)] = inr (2%N, rj_gap) /\
  accept [EW false [1;2]%N; ES false (mkDg 2 0 0 0 0 [1;3]%N)] = inr (1%N, rj_payload) /\
  accept [EW false [1;2]%N; ES false (mkDg 2 0 0 0 0 [1;2]%N); ER true 0%N; EA true [1;2;2]%N] = inr (3%N, rj_read).
Proof. vm_compute. repeat split; reflexivity. Qed.

(* after Close: the close request takes the next number; a data fragment and the close request on ONE number are rejected *)
Definition ex_pre : list event :=
  [ EW false [1;2;3]%N; ES false (mkDg 2 0 0 0 0 [1;2;3]%N); ER true 0%N; ES true (mkDg 3 0 0 0 0 []);
    EW false [7]%N; ES false (mkDg 6 1 0 4096 0 [7]%N) ].
Lemma ex_closed :
  accept_closed ex_pre [ES false (mkDg 6 1 0 4096 0 [7]%N); ES false (mkDg 4 2 0 0 0 []); ES true (mkDg 5 1 0 0 0 []); ES true (mkDg 4 2 0 0 0 [])] = true /\
  accept_closed ex_pre [ES false (mkDg 4 1 0 0 0 [])] = false /\
  accept_closed ex_pre [ES false (mkDg 6 2 0 4096 0 [8]%N); ES false (mkDg 4 2 0 0 0 [])] = false /\
  accept_closed ex_pre [ES false (mkDg 4 2 0 0 0 []); ES false (mkDg 4 1 0 0 0 [])] = true.
Proof. vm_compute. repeat split; reflexivity. Qed.
Lemma ex_wreach : exists s, wreach s /\ next_recv (base s) < length (assigned (base s)) /\ rwnd s = 0 /\ win (base s) = 0 /\ 0 < rspace s.
Proof.
  eexists. split.
  - eapply wreach_step; [apply (wreach_init 16 0 7); unfold minWindow, C02_minWindowSize; cbn; lia|].
    apply (ws_base _ (LWrite cA)); [apply s_write | reflexivity | reflexivity | reflexivity].
  - cbn. repeat split; lia.
Qed.
