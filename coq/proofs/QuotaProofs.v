(* C19 — proofs about model/Quota.v *)
From Coq Require Import ZArith NArith List Bool Lia.
From M Require Import gen.Consts model.Counter model.Quota proofs.CounterProofs.
Import ListNotations.
Open Scope Z_scope.

Lemma window_ns_ok d : 0 < d <= max_days ->
  window_ns d = - (d * (C19_QuotaHoursPerDay * C19_HourNs)) /\ window_ns d <= 0.
Proof.
  unfold max_days, window_ns, wrap64, C19_QuotaHoursPerDay, C19_HourNs.
  change ((2 ^ 63 - 1) / (24 * 3600000000000)) with 106751. change (2 ^ 63) with 9223372036854775808.
  change (2 ^ 64) with 18446744073709551616. intros H.
  rewrite (Z.mod_small (- d + _)) by lia.
  replace (- d + 9223372036854775808 - 9223372036854775808) with (- d) by lia.
  rewrite (Z.mod_small (- d * 24 + _)) by lia.
  replace (- d * 24 + 9223372036854775808 - 9223372036854775808) with (- d * 24) by lia.
  rewrite (Z.mod_small (- d * 24 * 3600000000000 + _)) by lia.
  lia.
Qed.

Lemma check_quotas_step q r up down now : days_ok q ->
  check_quotas (q :: r) up down now =
  if Z.quot (window_total q up down now) C19_QuotaBytesPerMegabyte >? q_mb q then QRefuse else check_quotas r up down now.
Proof.
  intros H. destruct (window_ns_ok _ H) as [E Hle]. cbn [check_quotas]. cbv zeta.
  destruct (Z.ltb_spec now (now + window_ns (q_days q))) as [Hlt|_]; [lia|].
  unfold window_total. cbv zeta. rewrite E.
  replace (now + - (q_days q * (C19_QuotaHoursPerDay * C19_HourNs))) with (now - q_days q * (C19_QuotaHoursPerDay * C19_HourNs)) by lia.
  reflexivity.
Qed.

(* the loop: refused iff some quota is exceeded; never a panic while days stay in range *)
Lemma check_quotas_spec : forall qs up down now, Forall days_ok qs ->
  (check_quotas qs up down now = QRefuse <-> exists q, In q qs /\ exceeded q up down now) /\
  (check_quotas qs up down now = QRefuse \/ check_quotas qs up down now = QAllow).
Proof.
  induction qs as [|q r IH]; intros up down now H.
  - cbn. split; [|now right]. split; [discriminate | intros (q & [] & _)].
  - inversion H as [|? ? Hq Hr]; subst. rewrite check_quotas_step by exact Hq.
    destruct (IH up down now Hr) as [IH1 IH2]. unfold exceeded at 1.
    destruct (Z.gtb_spec (Z.quot (window_total q up down now) C19_QuotaBytesPerMegabyte) (q_mb q)) as [Hgt|Hle].
    + split; [|now left]. split; [|reflexivity]. intros _. exists q. split; [now left|]. unfold exceeded. lia.
    + split; [|exact IH2]. rewrite IH1. split.
      * intros (q' & Hin & He). exists q'. split; [now right | exact He].
      * intros (q' & [->|Hin] & He); [unfold exceeded in He; lia | exists q'; split; assumption].
Qed.

Lemma name_eqb_refl a : name_eqb a a = true.
Proof. induction a as [|x a IH]; cbn; [reflexivity|]. now rewrite N.eqb_refl, IH. Qed.

Lemma name_eqb_eq a : forall b, name_eqb a b = true <-> a = b.
Proof.
  induction a as [|x a IH]; destruct b as [|y b]; cbn; try (split; [discriminate|discriminate]); [split; reflexivity|].
  rewrite andb_true_iff, N.eqb_eq, IH. split; [intros [-> ->]; reflexivity | intros E; inversion E; split; reflexivity].
Qed.

(* refused <=> the session's policy is the user's own, the user's counters exist, and some quota's window sum in
   whole MiB is strictly greater than its megabytes *)
Theorem quota_refuse_iff : forall pol u m now,
  (forall p, pol = Some p -> Forall days_ok (p_quotas p)) ->
  (refused (check_quota pol u m now) = true <->
   exists p up down q, pol = Some p /\ p_name p = u /\ lookup u m = Some (up, down) /\
                       In q (p_quotas p) /\ exceeded q up down now).
Proof.
  intros pol u m now Hd. unfold check_quota. destruct pol as [p|].
  2:{ cbn. split; [discriminate | intros (p & _ & _ & _ & E & _); discriminate]. }
  specialize (Hd p eq_refl).
  destruct (name_eqb (p_name p) u) eqn:En; cbn [negb].
  2:{ cbn. split; [discriminate|]. intros (p' & up & down & q & E & En' & _). inversion E; subst p'.
      apply name_eqb_eq in En'. congruence. }
  apply name_eqb_eq in En.
  destruct (p_quotas p) as [|q0 qs] eqn:Eq.
  { cbn. split; [discriminate|]. intros (p' & up & down & q & E & _ & _ & Hin & _). inversion E; subst p'.
    rewrite Eq in Hin. destruct Hin. }
  destruct (lookup u m) as [[up down]|] eqn:El.
  2:{ cbn. split; [discriminate|]. intros (p' & up & down & q & _ & _ & E & _). discriminate. }
  destruct (check_quotas_spec (q0 :: qs) up down now Hd) as [S1 S2].
  split.
  - intros Hr. assert (Hc : check_quotas (q0 :: qs) up down now = QRefuse) by (destruct (check_quotas (q0 :: qs) up down now); try discriminate; reflexivity).
    apply S1 in Hc. destruct Hc as (q & Hin & He). exists p, up, down, q. rewrite Eq. repeat split; assumption.
  - intros (p' & up' & down' & q & E & _ & El' & Hin & He). inversion E; subst p'. inversion El'; subst up' down'.
    rewrite Eq in Hin. assert (Hc : check_quotas (q0 :: qs) up down now = QRefuse) by (apply S1; exists q; split; assumption).
    rewrite Hc. reflexivity.
Qed.

(* the same comparison in bytes: with non-negative totals "whole MiB > megabytes" is "bytes >= (megabytes+1) MiB" *)
Lemma exceeded_bytes q up down now : 0 <= q_mb q ->
  (exceeded q up down now <-> (q_mb q + 1) * C19_QuotaBytesPerMegabyte <= window_total q up down now).
Proof.
  unfold exceeded, C19_QuotaBytesPerMegabyte. intros Hmb.
  set (T := window_total q up down now). clearbody T.
  destruct (Z_lt_le_dec T 0) as [Hn|Hp].
  - pose proof (Z.quot_opp_l T 1048576 ltac:(lia)) as Ho.
    pose proof (Z.quot_pos (- T) 1048576 ltac:(lia) ltac:(lia)). split; intros; lia.
  - rewrite Z.quot_div_nonneg by lia.
    pose proof (Z.div_mod T 1048576 ltac:(lia)). pose proof (Z.mod_pos_bound T 1048576 ltac:(lia)).
    split; intros; nia.
Qed.

(* a user whose whole counted traffic stays below (megabytes+1) MiB for every quota is never refused *)
Theorem within_allowance_never_refused : forall p u m up down now,
  Forall days_ok (p_quotas p) -> lookup u m = Some (up, down) -> nonneg up -> nonneg down ->
  (forall q, In q (p_quotas p) -> 0 <= q_mb q /\ hsum up + hsum down < (q_mb q + 1) * C19_QuotaBytesPerMegabyte) ->
  refused (check_quota (Some p) u m now) = false.
Proof.
  intros p u m up down now Hd El Hu Hdn Hq.
  destruct (refused (check_quota (Some p) u m now)) eqn:E; [|reflexivity]. exfalso.
  apply quota_refuse_iff in E; [|intros p' Ep; inversion Ep; subst; exact Hd].
  destruct E as (p' & up' & down' & q & Ep & _ & El' & Hin & He). inversion Ep; subst p'.
  rewrite El in El'. inversion El'; subst up' down'.
  destruct (Hq q Hin) as [Hmb Hlt]. apply exceeded_bytes in He; [|exact Hmb].
  unfold window_total in He. cbv zeta in He.
  pose proof (window_le_total up (now - q_days q * (C19_QuotaHoursPerDay * C19_HourNs)) now Hu).
  pose proof (window_le_total down (now - q_days q * (C19_QuotaHoursPerDay * C19_HourNs)) now Hdn).
  lia.
Qed.

(* isolation: the decision for u reads nothing but u's policy snapshot and u's two counters *)
Theorem quota_isolation : forall pol u m m' now,
  lookup u m = lookup u m' -> check_quota pol u m now = check_quota pol u m' now.
Proof. intros pol u m m' now E. unfold check_quota. rewrite E. reflexivity. Qed.

Lemma lookup_other v x u m : name_eqb v u = false -> lookup u ((v, x) :: m) = lookup u m.
Proof. intros E. cbn [lookup]. rewrite E. reflexivity. Qed.

Theorem other_users_irrelevant : forall pol u v x m now,
  name_eqb v u = false -> check_quota pol u ((v, x) :: m) now = check_quota pol u m now.
Proof. intros. apply quota_isolation, lookup_other. assumption. Qed.

Theorem never_refused_without_own_quota : forall pol u m now,
  (pol = None \/ (exists p, pol = Some p /\ (p_quotas p = [] \/ p_name p <> u)) \/ lookup u m = None) ->
  refused (check_quota pol u m now) = false.
Proof.
  intros pol u m now H. unfold check_quota.
  destruct pol as [p|]; [|reflexivity].
  destruct (name_eqb (p_name p) u) eqn:En; cbn [negb]; [|reflexivity].
  apply name_eqb_eq in En.
  destruct (p_quotas p) as [|q0 qs] eqn:Eq; [reflexivity|].
  destruct H as [H|[(p' & Ep & [H|H])|H]]; try discriminate.
  - inversion Ep; subst p'. rewrite Eq in H. discriminate.
  - inversion Ep; subst p'. contradiction.
  - rewrite H. reflexivity.
Qed.

(* the allowance is counted in whole MiB: up to 1 MiB - 1 byte above it is still admitted *)
Lemma quota_whole_mib_slack :
  exists q up down now, days_ok q /\ window_total q up down now = q_mb q * C19_QuotaBytesPerMegabyte + (C19_QuotaBytesPerMegabyte - 1) /\
                        check_quotas [q] up down now = QAllow.
Proof.
  exists (mkQ 1 1), [mkE 1000000 (2 * C19_QuotaBytesPerMegabyte - 1) C19_LabelNoRollUp], [], (1000001 * C19_MillisecondNs).
  split; [vm_compute; split; [reflexivity | discriminate]|]. split; vm_compute; reflexivity.
Qed.

(* beyond max_days the window arithmetic wraps and DeltaBetween panics *)
Lemma quota_days_overflow_panics :
  check_quotas [mkQ (max_days + 1) 1] [] [] 0 = QPanic.
Proof. vm_compute. reflexivity. Qed.

(* ------------------------------------------------------------------ non-vacuity *)

Definition ex_alice : uname := [97%N; 108%N].
Definition ex_bob : uname := [98%N].
Definition ex_now : Z := 1257894000 * C19_SecondNs.
Definition ex_m : metrics_map :=
  [(ex_bob, ([mkE 1257893000000 (900 * C19_QuotaBytesPerMegabyte) C19_LabelSecond], []));
   (ex_alice, ([mkE 1257721200000 (50 * C19_QuotaBytesPerMegabyte) C19_LabelHour;       (* two days old: outside a 1-day window *)
                mkE 1257893000000 (2 * C19_QuotaBytesPerMegabyte) C19_LabelSecond],
               [mkE 1257893999000 (C19_QuotaBytesPerMegabyte) C19_LabelNoRollUp]))].

(* alice: 3 MiB inside one day, 53 MiB inside three days *)
Example ex_quota :
  let p2 := mkP ex_alice [mkQ 1 2; mkQ 3 100] in      (* 3 MiB / 2 MiB: exceeded *)
  let p3 := mkP ex_alice [mkQ 1 3; mkQ 3 100] in      (* 3 MiB / 3 MiB: at the allowance, admitted *)
  let p4 := mkP ex_alice [mkQ 1 3; mkQ 3 52] in       (* second quota exceeded *)
  Forall days_ok (p_quotas p2) /\
  check_quota (Some p2) ex_alice ex_m ex_now = QRefuse /\
  check_quota (Some p3) ex_alice ex_m ex_now = QAllow /\
  check_quota (Some p4) ex_alice ex_m ex_now = QRefuse /\
  check_quota (Some (mkP ex_bob [])) ex_bob ex_m ex_now = QAllow /\
  check_quota (Some p2) ex_bob ex_m ex_now = QAllowErr /\
  name_eqb ex_bob ex_alice = false.
Proof.
  cbv zeta. split; [repeat constructor; vm_compute; try reflexivity; discriminate|].
  repeat split; vm_compute; reflexivity.
Qed.

Lemma isolation_all : forall pol u now,
  (forall m m', lookup u m = lookup u m' -> check_quota pol u m now = check_quota pol u m' now) /\
  (forall v x m, name_eqb v u = false -> check_quota pol u ((v, x) :: m) now = check_quota pol u m now) /\
  (forall m, (pol = None \/ (exists p, pol = Some p /\ (p_quotas p = [] \/ p_name p <> u)) \/ lookup u m = None) ->
             refused (check_quota pol u m now) = false).
Proof.
  intros pol u now. split; [|split].
  - intros m m'. exact (quota_isolation pol u m m' now).
  - intros v x m. exact (other_users_irrelevant pol u v x m now).
  - intros m. exact (never_refused_without_own_quota pol u m now).
Qed.

(* ------------------------------------------------------------------ validated user records *)

(* the bound of the validator is within the range where the window arithmetic does not wrap *)
Lemma max_quota_days_ok : 0 < C19_MaxQuotaDays <= max_days.
Proof. split; vm_compute; [reflexivity | discriminate]. Qed.

Lemma validate_quota_days_ok q : validate_quota (q_days q) (q_mb q) = true -> days_ok q /\ 0 < q_mb q.
Proof.
  unfold validate_quota, days_ok. intros H. apply andb_true_iff in H. destruct H as [H H3].
  apply andb_true_iff in H. destruct H as [H1 H2].
  apply Z.ltb_lt in H1, H3. apply Z.leb_le in H2. pose proof max_quota_days_ok. lia.
Qed.

Lemma validate_user_days_ok qs : validate_user_quotas qs = true -> Forall days_ok qs.
Proof.
  unfold validate_user_quotas. rewrite forallb_forall. intros H. apply Forall_forall. intros q Hin.
  apply (validate_quota_days_ok q (H q Hin)).
Qed.

Lemma check_quota_no_panic pol u m now :
  (forall p, pol = Some p -> Forall days_ok (p_quotas p)) -> check_quota pol u m now <> QPanic.
Proof.
  intros Hd. unfold check_quota. destruct pol as [p|]; [|discriminate]. specialize (Hd p eq_refl).
  destruct (negb (name_eqb (p_name p) u)); [discriminate|].
  destruct (p_quotas p) as [|q0 qs] eqn:Eq; [discriminate|].
  destruct (lookup u m) as [[up down]|]; [|discriminate].
  destruct (check_quotas_spec (q0 :: qs) up down now Hd) as [_ [E|E]]; rewrite E; discriminate.
Qed.

(* every user record that passes validation: checkQuota never panics, whatever the counters and the clock *)
Theorem validated_quota_never_panics : forall pol u m now,
  (forall p, pol = Some p -> validate_user_quotas (p_quotas p) = true) ->
  check_quota pol u m now <> QPanic.
Proof.
  intros pol u m now Hv. apply check_quota_no_panic. intros p Ep. apply validate_user_days_ok, Hv, Ep.
Qed.

Theorem quota_refuse_iff_validated : forall pol u m now,
  (forall p, pol = Some p -> validate_user_quotas (p_quotas p) = true) ->
  (refused (check_quota pol u m now) = true <->
   exists p up down q, pol = Some p /\ p_name p = u /\ lookup u m = Some (up, down) /\
                       In q (p_quotas p) /\ exceeded q up down now).
Proof.
  intros pol u m now Hv. apply quota_refuse_iff. intros p Ep. apply validate_user_days_ok, Hv, Ep.
Qed.

(* before the validator bound existed: a record with days just above the range made checkQuota panic *)
Lemma unvalidated_days_overflow :
  exists p u m now, validate_user_quotas (p_quotas p) = false /\ check_quota (Some p) u m now = QPanic.
Proof.
  exists (mkP ex_alice [mkQ (C19_MaxQuotaDays + 1) 1]), ex_alice, ex_m, ex_now. split; vm_compute; reflexivity.
Qed.

Example ex_validate :
  validate_quota 1 1 = true /\ validate_quota C19_MaxQuotaDays 2047 = true /\ validate_quota (C19_MaxQuotaDays + 1) 1 = false /\
  validate_quota 0 1 = false /\ validate_quota 1 0 = false /\
  validate_user_quotas [mkQ 1 2; mkQ 30 100] = true.
Proof. repeat split; vm_compute; reflexivity. Qed.
