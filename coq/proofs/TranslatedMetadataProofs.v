(* protocolType.Equals and the metadata codecs of pkg/protocol/metadata.go
   (sessionStruct.Marshal, sessionStruct.Unmarshal, dataAckStruct.Marshal) as the source says them NOW (gen/Translated.v, produced
   by harness/cmd/go2coq on every run) equal the model functions the C08 / C09 theorems are about:
   (with proofs/TranslatedTimeProofs.v for the timestamp test) Wire.marshal_session / unmarshal_session / marshal_data
   (the documented layouts).  The clock read by Marshal / Unmarshal (time.Now().Unix()) is the parameter [now]. *)
From Coq Require Import ZArith NArith List Bool Lia ZifyN ZifyBool.
From M Require Import gen.Consts base.MiniGo gen.Translated model.Wire model.KeyTime proofs.MiniGoProofs proofs.TranslatedWireProofs proofs.TranslatedTimeProofs.
Import ListNotations.
Open Scope Z_scope.

(* ---------------------------------------------------------------- protocolType.Equals *)

Theorem xl_Equals_eq_model (p other : N) : (p < 256)%N ->
  xl_protocol_protocolType_Equals (Z.of_N p) (Z.of_N other) = (p =? other)%N.
Proof.
  intro Hp. unfold xl_protocol_protocolType_Equals, go_cast, go_wrap, wrapU.
  rewrite Z.mod_small by lia. apply eqb_of_N.
Qed.

(* ---------------------------------------------------------------- sessionStruct.Marshal *)

Definition zs (l : list N) : list Z := map Z.of_N l.

Definition session_in_range (m : session_meta) : Prop :=
  (s_proto m < 256 /\ s_ts m < 2 ^ 32 /\ s_sid m < 2 ^ 32 /\ s_seq m < 2 ^ 32 /\ s_status m < 256 /\
   s_plen m < 2 ^ 16 /\ s_slen m < 256)%N.

Definition with_ts (m : session_meta) (ts : N) : session_meta :=
  {| s_proto := s_proto m; s_ts := ts; s_sid := s_sid m; s_seq := s_seq m; s_status := s_status m;
     s_plen := s_plen m; s_slen := s_slen m |}.

Declare Reduction run_slices :=
  cbv [go_make go_put_be32 go_put_be16 go_upd upd_nat repeat Z.to_nat Pos.to_nat Pos.iter_op Init.Nat.add
       Z.add Pos.add Pos.succ Pos.add_carry].

Theorem xl_sessionStruct_Marshal_eq_model (m : session_meta) (ts0 now : Z) :
  session_in_range m -> - 2 ^ 63 <= now < 2 ^ 63 ->
  xl_protocol_sessionStruct_Marshal (Z.of_N (s_proto m)) ts0 (Z.of_N (s_sid m)) (Z.of_N (s_seq m))
    (Z.of_N (s_status m)) (Z.of_N (s_plen m)) (Z.of_N (s_slen m)) now
  = (zs (marshal_session (with_ts m (Z.to_N (stamp now)))), stamp now).
Proof.
  intros (Hp & _ & Hsid & Hseq & Hst & Hpl & Hsl) Hnow.
  unfold xl_protocol_sessionStruct_Marshal. rewrite xl_stamp by exact Hnow.
  pose proof (stamp_range now) as Hs. set (t := stamp now) in *.
  f_equal.
  unfold marshal_session, with_ts, zs, be32, be16, b8, zeros; cbn [s_proto s_ts s_sid s_seq s_status s_plen s_slen].
  match goal with |- ?L = _ => let L' := eval run_slices in L in change L with L' end.
  cbn [map app repeat].
  repeat (apply f_equal2; [lia|]). reflexivity.
Qed.

(* ---------------------------------------------------------------- dataAckStruct.Marshal *)

Definition data_in_range (m : data_meta) : Prop :=
  (d_proto m < 256 /\ d_mode m < 256 /\ d_sid m < 2 ^ 32 /\ d_seq m < 2 ^ 32 /\ d_unack m < 2 ^ 32 /\ d_win m < 2 ^ 16 /\
   d_frag m < 256 /\ d_prefix m < 256 /\ d_plen m < 2 ^ 16 /\ d_slen m < 256 /\
   d_mask m < 2 ^ 32 /\ d_elen m < 2 ^ 16 /\ d_rot m < 256)%N.

Definition with_dts (m : data_meta) (ts : N) : data_meta :=
  {| d_proto := d_proto m; d_mode := d_mode m; d_ts := ts; d_sid := d_sid m; d_seq := d_seq m; d_unack := d_unack m;
     d_win := d_win m; d_frag := d_frag m; d_prefix := d_prefix m; d_plen := d_plen m; d_slen := d_slen m;
     d_mask := d_mask m; d_elen := d_elen m; d_rot := d_rot m |}.

Theorem xl_dataAckStruct_Marshal_eq_model (m : data_meta) (ts0 now : Z) :
  data_in_range m -> - 2 ^ 63 <= now < 2 ^ 63 ->
  xl_protocol_dataAckStruct_Marshal (Z.of_N (d_proto m)) ts0 (Z.of_N (d_mode m)) (Z.of_N (d_sid m)) (Z.of_N (d_seq m))
    (Z.of_N (d_unack m)) (Z.of_N (d_win m)) (Z.of_N (d_frag m)) (Z.of_N (d_prefix m)) (Z.of_N (d_plen m))
    (Z.of_N (d_slen m)) (Z.of_N (d_mask m)) (Z.of_N (d_elen m)) (Z.of_N (d_rot m)) now
  = (zs (marshal_data (with_dts m (Z.to_N (stamp now)))), stamp now).
Proof.
  intros (Hp & Hmo & Hsid & Hseq & Hun & Hwin & Hfr & Hpre & Hpl & Hsl & Hma & Hel & Hro) Hnow.
  unfold xl_protocol_dataAckStruct_Marshal. rewrite xl_stamp by exact Hnow.
  pose proof (stamp_range now) as Hs. set (t := stamp now) in *.
  assert (Hcast : xl_protocol_dataAckStruct_Protocol (Z.of_N (d_proto m)) = Z.of_N (d_proto m)).
  { unfold xl_protocol_dataAckStruct_Protocol, go_cast, go_wrap, wrapU. apply Z.mod_small. lia. }
  rewrite Hcast, xl_isLowEntropyProtocol_eq_wire.
  f_equal.
  unfold marshal_data, with_dts, zs, be32, be16, zeros; cbn [d_proto d_mode d_ts d_sid d_seq d_unack d_win d_frag d_prefix d_plen d_slen d_mask d_elen d_rot].
  assert (Hb8 : b8 (d_proto m) = d_proto m) by (unfold b8; apply N.mod_small; exact Hp). rewrite Hb8.
  destruct (is_low_entropy (d_proto m)).
  - match goal with |- ?L = _ => let L' := eval run_slices in L in change L with L' end.
    unfold b8. cbn [map app repeat]. repeat (apply f_equal2; [lia|]). reflexivity.
  - match goal with |- ?L = _ => let L' := eval run_slices in L in change L with L' end.
    unfold b8. cbn [map app repeat]. repeat (apply f_equal2; [lia|]). reflexivity.
Qed.

(* ---------------------------------------------------------------- sessionStruct.Unmarshal *)

Lemma length_zs b : go_len (zs b) = Z.of_nat (length b).
Proof. unfold go_len, zs. rewrite map_length. reflexivity. Qed.

Local Ltac split32 b :=
  destruct b as [|y0 b]; [cbn in *; try discriminate; try lia|];
  destruct b as [|y1 b]; [cbn in *; try discriminate; try lia|];
  destruct b as [|y2 b]; [cbn in *; try discriminate; try lia|];
  destruct b as [|y3 b]; [cbn in *; try discriminate; try lia|];
  destruct b as [|y4 b]; [cbn in *; try discriminate; try lia|];
  destruct b as [|y5 b]; [cbn in *; try discriminate; try lia|];
  destruct b as [|y6 b]; [cbn in *; try discriminate; try lia|];
  destruct b as [|y7 b]; [cbn in *; try discriminate; try lia|];
  destruct b as [|y8 b]; [cbn in *; try discriminate; try lia|];
  destruct b as [|y9 b]; [cbn in *; try discriminate; try lia|];
  destruct b as [|y10 b]; [cbn in *; try discriminate; try lia|];
  destruct b as [|y11 b]; [cbn in *; try discriminate; try lia|];
  destruct b as [|y12 b]; [cbn in *; try discriminate; try lia|];
  destruct b as [|y13 b]; [cbn in *; try discriminate; try lia|];
  destruct b as [|y14 b]; [cbn in *; try discriminate; try lia|];
  destruct b as [|y15 b]; [cbn in *; try discriminate; try lia|];
  destruct b as [|y16 b]; [cbn in *; try discriminate; try lia|];
  destruct b as [|y17 b]; [cbn in *; try discriminate; try lia|];
  destruct b as [|y18 b]; [cbn in *; try discriminate; try lia|];
  destruct b as [|y19 b]; [cbn in *; try discriminate; try lia|];
  destruct b as [|y20 b]; [cbn in *; try discriminate; try lia|];
  destruct b as [|y21 b]; [cbn in *; try discriminate; try lia|];
  destruct b as [|y22 b]; [cbn in *; try discriminate; try lia|];
  destruct b as [|y23 b]; [cbn in *; try discriminate; try lia|];
  destruct b as [|y24 b]; [cbn in *; try discriminate; try lia|];
  destruct b as [|y25 b]; [cbn in *; try discriminate; try lia|];
  destruct b as [|y26 b]; [cbn in *; try discriminate; try lia|];
  destruct b as [|y27 b]; [cbn in *; try discriminate; try lia|];
  destruct b as [|y28 b]; [cbn in *; try discriminate; try lia|];
  destruct b as [|y29 b]; [cbn in *; try discriminate; try lia|];
  destruct b as [|y30 b]; [cbn in *; try discriminate; try lia|];
  destruct b as [|y31 b]; [cbn in *; try discriminate; try lia|];
  destruct b as [|? b]; [|cbn in *; try discriminate; try lia].

(* closed comparisons and sums of literals (bounds tests of the translation, offsets k + i) are evaluated; nothing else *)
Local Ltac lit2 f a b :=
  let v := eval compute in (f a b) in
  lazymatch v with
  | true => change (f a b) with true
  | false => change (f a b) with false
  | Z0 => change (f a b) with v
  | Zpos ?p => lazymatch p with context [match _ with _ => _ end] => fail | _ => change (f a b) with v end
  end.
Local Ltac fold_lit :=
  repeat match goal with
  | |- context [Z.leb ?a ?b] => lit2 Z.leb a b
  | |- context [Z.ltb ?a ?b] => lit2 Z.ltb a b
  | |- context [Z.add ?a ?b] => lit2 Z.add a b
  end.

Lemma xl_Equals_const (c : Z) (n : N) : 0 <= c < 256 ->
  xl_protocol_protocolType_Equals c (Z.of_N n) = (n =? Z.to_N c)%N.
Proof.
  intro Hc. unfold xl_protocol_protocolType_Equals, go_cast, go_wrap, wrapU. rewrite Z.mod_small by lia.
  rewrite <- (Z2N.id c) at 1 by lia. rewrite eqb_of_N. apply N.eqb_sym.
Qed.

Theorem xl_sessionStruct_Unmarshal_eq_model (b : list N) (p0 t0 i0 q0 c0 l0 x0 now : Z) :
  Forall (fun x => (x < 256)%N) b -> - 2 ^ 63 <= now < 2 ^ 63 ->
  xl_protocol_sessionStruct_Unmarshal (zs b) p0 t0 i0 q0 c0 l0 x0 now =
  Some (match unmarshal_session b with
        | Some m => if within_range32 (stamp now) (Z.of_N (s_ts m)) 1
                    then (false, Z.of_N (s_proto m), Z.of_N (s_ts m), Z.of_N (s_sid m), Z.of_N (s_seq m),
                          Z.of_N (s_status m), Z.of_N (s_plen m), Z.of_N (s_slen m))
                    else (true, p0, t0, i0, q0, c0, l0, x0)
        | None => (true, p0, t0, i0, q0, c0, l0, x0)
        end).
Proof.
  intros Hb Hnow.
  unfold xl_protocol_sessionStruct_Unmarshal, unmarshal_session.
  rewrite length_zs. change MetadataLength with 32%N.
  destruct (Nat.eq_dec (length b) 32) as [Hlen|Hlen].
  2:{ replace (Z.of_nat (length b) =? 32) with false by lia.
      replace (N.of_nat (length b) =? 32)%N with false by lia. reflexivity. }
  split32 b.
  repeat match goal with H : Forall _ (_ :: _) |- _ => inversion H; clear H; subst end.
  rewrite xl_WithinRange_uint32_eq_model, xl_stamp by exact Hnow.
  unfold go_be32, go_be16, is_session, T_openSessionRequest, T_openSessionResponse, T_closeSessionRequest,
    T_closeSessionResponse, MaxSessionOpenPayload.
  cbn [length N.of_nat Pos.of_succ_nat Pos.succ N.eqb Pos.eqb negb byte_at slice firstn skipn be_val le_val rev app nth
       go_len zs map Z.of_nat Z.eqb].
  fold_lit.
  repeat match goal with |- context [go_nth ?l ?k] =>
    let v := eval cbv [go_nth nth Z.to_nat Pos.to_nat Pos.iter_op Init.Nat.add zs map] in (go_nth l k) in
    change (go_nth l k) with v end.
  cbn [andb orb negb].
  rewrite !xl_Equals_const by lia.
  unfold C09_ProtoOpenSessionRequest, C09_ProtoOpenSessionResponse, C09_ProtoCloseSessionRequest,
    C09_ProtoCloseSessionResponse, C09_MaxSessionOpenPayload.
  cbn [Z.to_N].
  rewrite !orb_true_r. cbn [andb].
  replace (((Z.of_N y2 * 256 + Z.of_N y3) * 256 + Z.of_N y4) * 256 + Z.of_N y5) with (Z.of_N (y5 + 256 * (y4 + 256 * (y3 + 256 * (y2 + 256 * 0))))) by lia.
  replace (((Z.of_N y6 * 256 + Z.of_N y7) * 256 + Z.of_N y8) * 256 + Z.of_N y9) with (Z.of_N (y9 + 256 * (y8 + 256 * (y7 + 256 * (y6 + 256 * 0))))) by lia.
  replace (((Z.of_N y10 * 256 + Z.of_N y11) * 256 + Z.of_N y12) * 256 + Z.of_N y13) with (Z.of_N (y13 + 256 * (y12 + 256 * (y11 + 256 * (y10 + 256 * 0))))) by lia.
  replace (Z.of_N y15 * 256 + Z.of_N y16) with (Z.of_N (y16 + 256 * (y15 + 256 * 0))) by lia.
  replace (1024 <? Z.of_N (y16 + 256 * (y15 + 256 * 0))) with (1024 <? y16 + 256 * (y15 + 256 * 0))%N by lia.
  destruct (y0 =? 2)%N, (y0 =? 3)%N, (y0 =? 4)%N, (y0 =? 5)%N; cbn [negb andb orb]; try reflexivity;
    (destruct (_ <? _)%N; cbn [s_ts s_proto s_sid s_seq s_status s_plen s_slen]; destruct (within_range32 _ _ _); reflexivity).
Qed.

(* what the pair says together: a marshalled session metadata is read back by Unmarshal at any receiver clock whose
   minute is within one of the sender's stamp (stated on the translated source of both functions) *)
Example ex_xl_session_roundtrip :
  let '(b, ts) := xl_protocol_sessionStruct_Marshal 2 0 305419896 0 0 1024 7 1700000000 in
  xl_protocol_sessionStruct_Unmarshal b 0 0 0 0 0 0 0 1700000059 = Some (false, 2, ts, 305419896, 0, 0, 1024, 7) /\
  xl_protocol_sessionStruct_Unmarshal b 9 9 9 9 9 9 9 1700000180 = Some (true, 9, 9, 9, 9, 9, 9, 9) /\
  ts = 28333333.
Proof. vm_compute. repeat split. Qed.

(* ---------------------------------------------------------------- Marshal then Unmarshal, both as the source says them *)

From M Require Import proofs.WireProofs.
Open Scope Z_scope.

Lemma marshal_session_bytes m : Forall (fun x => (x < 256)%N) (marshal_session m).
Proof.
  unfold marshal_session. repeat (apply Forall_app; split);
    try apply be32_ok; try apply be16_ok; try apply zeros_ok;
    repeat (apply Forall_cons; [first [apply b8_ok | (unfold byte_ok; lia)]|]); apply Forall_nil.
Qed.

(* A session metadata (types 2..5, payload length within the limit) stamped by the source's Marshal at the sender's clock
   [ns] (seconds) and read by the source's Unmarshal at the receiver's clock [nr]: accepted, with exactly the sender's
   fields and stamp, iff the receiver's minute counter is within one of the stamp (KeyTime.within_range32, the test that
   C08_handshake_within_60s / C08_stale_refused are about); otherwise an error and the receiver's struct is untouched. *)
Theorem xl_session_marshal_unmarshal (m : session_meta) (ts0 ns nr p0 t0 i0 q0 c0 l0 x0 : Z) :
  session_valid m -> - 2 ^ 63 <= ns < 2 ^ 63 -> - 2 ^ 63 <= nr < 2 ^ 63 ->
  let '(b, ts) := xl_protocol_sessionStruct_Marshal (Z.of_N (s_proto m)) ts0 (Z.of_N (s_sid m)) (Z.of_N (s_seq m))
                    (Z.of_N (s_status m)) (Z.of_N (s_plen m)) (Z.of_N (s_slen m)) ns in
  ts = stamp ns /\
  xl_protocol_sessionStruct_Unmarshal b p0 t0 i0 q0 c0 l0 x0 nr =
  Some (if within_range32 (stamp nr) (stamp ns) 1
        then (false, Z.of_N (s_proto m), stamp ns, Z.of_N (s_sid m), Z.of_N (s_seq m), Z.of_N (s_status m),
              Z.of_N (s_plen m), Z.of_N (s_slen m))
        else (true, p0, t0, i0, q0, c0, l0, x0)).
Proof.
  intros Hv Hns Hnr.
  assert (Hr : session_in_range m).
  { destruct Hv as (Hp & Hts & Hsid & Hseq & Hst & Hpl & Hsl). apply is_session_byte in Hp.
    unfold session_in_range, MaxSessionOpenPayload, C09_MaxSessionOpenPayload in *. cbn in Hpl. repeat split; lia. }
  rewrite (xl_sessionStruct_Marshal_eq_model m ts0 ns Hr Hns). split; [reflexivity|].
  rewrite xl_sessionStruct_Unmarshal_eq_model by (exact Hnr || apply marshal_session_bytes).
  pose proof (stamp_range ns) as Hs.
  assert (Hv' : session_valid (with_ts m (Z.to_N (stamp ns)))).
  { destruct Hv as (Hp & Hts & Hrest). unfold session_valid, with_ts; cbn [s_proto s_ts s_sid s_seq s_status s_plen s_slen].
    split; [exact Hp|]. split; [lia | exact Hrest]. }
  rewrite (session_roundtrip _ Hv'). unfold with_ts; cbn [s_proto s_ts s_sid s_seq s_status s_plen s_slen].
  rewrite Z2N.id by lia. reflexivity.
Qed.

(* ---------------------------------------------------------------- the C08 window, on the source of both codecs *)

From M Require Import proofs.KeyTimeProofs.
Open Scope Z_scope.

(* A session metadata stamped by the source's Marshal at the sender's instant [t] (unix ns) and read by the source's
   Unmarshal at the receiver's instant [t + d]: accepted with the sender's fields when the clocks differ by at most 60 s,
   refused (error, receiver untouched) when they differ by 2 minutes or more - at every instant of the uint32-minute era,
   minute ticks included.  (timestamp_ok of KeyTime.v is the test; here it is the Go text of Marshal, Unmarshal, WithinRange
   and Mid that is shown to apply it.) *)
Theorem xl_session_timestamp_window (m : session_meta) (ts0 t d p0 t0 i0 q0 c0 l0 x0 : Z) :
  session_valid m -> era t -> era (t + d) ->
  let '(b, ts) := xl_protocol_sessionStruct_Marshal (Z.of_N (s_proto m)) ts0 (Z.of_N (s_sid m)) (Z.of_N (s_seq m))
                    (Z.of_N (s_status m)) (Z.of_N (s_plen m)) (Z.of_N (s_slen m)) (t / NS) in
  (Z.abs d <= 60 * NS ->
     xl_protocol_sessionStruct_Unmarshal b p0 t0 i0 q0 c0 l0 x0 ((t + d) / NS) =
     Some (false, Z.of_N (s_proto m), minute t, Z.of_N (s_sid m), Z.of_N (s_seq m), Z.of_N (s_status m),
           Z.of_N (s_plen m), Z.of_N (s_slen m))) /\
  (120 * NS <= Z.abs d ->
     xl_protocol_sessionStruct_Unmarshal b p0 t0 i0 q0 c0 l0 x0 ((t + d) / NS) = Some (true, p0, t0, i0, q0, c0, l0, x0)).
Proof.
  intros Hv Ht Htd.
  assert (Hr : forall u, era u -> - 2 ^ 63 <= u / NS < 2 ^ 63).
  { intros u [H1 H2]. unfold NS, U32 in *. split.
    - apply Z.le_trans with 0; [lia | apply Z.div_pos; lia].
    - apply Z.div_lt_upper_bound; lia. }
  pose proof (xl_session_marshal_unmarshal m ts0 (t / NS) ((t + d) / NS) p0 t0 i0 q0 c0 l0 x0 Hv (Hr _ Ht) (Hr _ Htd)) as H.
  destruct (xl_protocol_sessionStruct_Marshal _ _ _ _ _ _ _ _) as [b ts].
  destruct H as [_ H]. rewrite !stamp_minute in H.
  change (within_range32 (minute (t + d)) (minute t) 1) with (timestamp_ok (t + d) t) in H.
  split; intro Hd; rewrite H.
  - destruct (c08_handshake t d Ht Htd) as [(_ & Hok & _) _]; [unfold S60; lia|]. rewrite Hok. reflexivity.
  - destruct (c08_stale t d Ht Htd) as [Hst _]. rewrite Hst by (unfold S60; lia). reflexivity.
Qed.
