(* Proofs about the replay cache model (model/Replay.v) for property C06. *)
From Coq Require Import ZArith NArith List Bool Lia.
From Coq Require Import ZifyN ZifyNat ZifyBool.
From M Require Import gen.Consts model.Replay model.KeyTime proofs.KeyTimeProofs.
Import ListNotations.
Open Scope Z_scope.

(* ------------------------------------------------------------------ tags *)

Lemma tag_eqb_eq (a b : tag) : tag_eqb a b = true <-> a = b.
Proof.
  revert b. induction a as [|x a IH]; intros [|y b]; cbn [tag_eqb]; try (split; congruence).
  rewrite andb_true_iff, N.eqb_eq, IH. split; [intros [-> ->]; reflexivity|intros E; inversion E; auto].
Qed.

Definition tag_conflict (existing t : tag) : Prop := existing = [] \/ t = [] \/ existing <> t.

Lemma tag_rule_true (a t : tag) : tag_rule a t = true <-> tag_conflict a t.
Proof.
  unfold tag_rule, tag_conflict.
  destruct a as [|x a]; cbn [tag_empty orb]; [split; auto|].
  destruct t as [|y t]; cbn [tag_empty orb]; [split; auto|].
  rewrite negb_true_iff. split.
  - intros H. right; right. intros E. apply tag_eqb_eq in E. congruence.
  - intros [H|[H|H]]; try discriminate.
    destruct (tag_eqb (x :: a) (y :: t)) eqn:E; [apply tag_eqb_eq in E; contradiction|reflexivity].
Qed.

Lemma tag_rule_false (a t : tag) : tag_rule a t = false <-> (a = t /\ a <> []).
Proof.
  split.
  - intros H. destruct a as [|x a]; [discriminate|]. destruct t as [|y t]; [discriminate|].
    unfold tag_rule in H. cbn [tag_empty orb] in H. apply negb_false_iff, tag_eqb_eq in H.
    split; [assumption|discriminate].
  - intros [-> H]. destruct (tag_rule t t) eqn:E; [|reflexivity].
    apply tag_rule_true in E. destruct E as [E|[E|E]]; congruence.
Qed.

Lemma tag_rule_empty_r (a : tag) : tag_rule a [] = true.
Proof. unfold tag_rule. destruct a; reflexivity. Qed.

(* ------------------------------------------------------------------ maps *)

Definition keys (g : gen) : list N := map fst g.
Definition sigs (h : list op) : list N := map op_sig h.

Lemma lookup_in (s : N) (g : gen) (v : tag) : lookup s g = Some v -> In (s, v) g.
Proof.
  induction g as [|[k w] g IH]; cbn [lookup]; [discriminate|].
  destruct (N.eqb_spec k s) as [->|N]; [intros E; inversion E; left; reflexivity|right; auto].
Qed.

Lemma lookup_none (s : N) (g : gen) : lookup s g = None <-> ~ In s (keys g).
Proof.
  induction g as [|[k w] g IH]; cbn [lookup keys map fst In]; [tauto|].
  destruct (N.eqb_spec k s) as [->|N]; [split; [discriminate|tauto]|].
  fold (keys g). rewrite IH. tauto.
Qed.

Lemma lookup_some_key (s : N) (g : gen) (v : tag) : lookup s g = Some v -> In s (keys g).
Proof.
  intros H. destruct (in_dec N.eq_dec s (keys g)) as [I|I]; [assumption|].
  apply lookup_none in I. congruence.
Qed.

Lemma lookup_cons_ne (s x : N) (v : tag) (g : gen) : s <> x -> lookup x ((s, v) :: g) = lookup x g.
Proof. intros N. cbn [lookup]. destruct (N.eqb_spec s x); [contradiction|reflexivity]. Qed.

Lemma lookup_cons_eq (x : N) (v : tag) (g : gen) : lookup x ((x, v) :: g) = Some v.
Proof. cbn [lookup]. rewrite N.eqb_refl. reflexivity. Qed.

(* ------------------------------------------------------------------ well-formed states *)

Definition wf (c : cache) : Prop := 0 < cap c /\ 0 < interval c /\ NoDup (keys (cur c)).

Lemma is_duplicate_params (c : cache) s t now :
  cap (snd (is_duplicate c s t now)) = cap c /\ interval (snd (is_duplicate c s t now)) = interval c.
Proof.
  unfold is_duplicate, rotate, expire_both, with_cur.
  repeat match goal with |- context [if ?b then _ else _] => destruct b end;
  repeat match goal with |- context [match ?b with Some _ => _ | None => _ end] => destruct b end;
  cbn; auto.
Qed.

Lemma is_duplicate_wf (c : cache) s t now : wf c -> wf (snd (is_duplicate c s t now)).
Proof.
  intros (Hc & Hi & Hn). unfold wf.
  destruct (is_duplicate_params c s t now) as [-> ->]. split; [assumption|split; [assumption|]].
  unfold is_duplicate. destruct (cap c =? 0); [assumption|].
  assert (Hn2 : NoDup (keys (cur (rotate (expire_both c now) now)))).
  { unfold rotate, expire_both.
    repeat match goal with |- context [if ?b then _ else _] => destruct b end; cbn; auto; constructor. }
  set (c2 := rotate (expire_both c now) now) in *.
  destruct (lookup s (cur c2)) eqn:E1; [assumption|].
  apply lookup_none in E1.
  destruct (lookup s (prev c2)); cbn; constructor; assumption.
Qed.

Lemma new_cache_wf capv iv now c : new_cache capv iv now = Some c -> capv <> 0 -> wf c /\ cap c = capv /\ interval c = iv.
Proof.
  unfold new_cache. destruct (Z.ltb_spec capv 0); [discriminate|]. destruct (Z.leb_spec iv 0); [discriminate|].
  intros E N. inversion E; subst. unfold wf. cbn. repeat split; try lia. constructor.
Qed.

Lemma final_app (h1 h2 : list op) : forall c, final c (h1 ++ h2) = final (final c h1) h2.
Proof. induction h1 as [|o h1 IH]; intros c; cbn [final app]; auto. Qed.

Lemma final_wf (h : list op) : forall c, wf c -> wf (final c h).
Proof. induction h as [|o h IH]; intros c W; cbn [final]; [assumption|]. apply IH, is_duplicate_wf, W. Qed.

Lemma final_params (h : list op) : forall c, cap (final c h) = cap c /\ interval (final c h) = interval c.
Proof.
  induction h as [|o h IH]; intros c; cbn [final]; [auto|].
  destruct (IH (snd (step c o))) as [-> ->]. apply is_duplicate_params.
Qed.

(* the disabled cache: never a duplicate, state untouched *)
Lemma disabled_never_duplicate (c : cache) s t now : cap c = 0 -> is_duplicate c s t now = (false, c).
Proof. intros E. unfold is_duplicate. rewrite E. reflexivity. Qed.

(* ------------------------------------------------------------------ no false positive *)

(* every stored entry was presented with exactly that signature and tag *)
Definition sound (c : cache) (h : list op) : Prop :=
  forall s v, (In (s, v) (cur c) \/ In (s, v) (prev c)) -> exists now, In (s, v, now) h.

Lemma sound_step (c : cache) (h : list op) (o : op) :
  sound c h -> sound (snd (step c o)) (h ++ [o]).
Proof.
  intros S. destruct o as [[s t] now]. unfold step, op_sig, op_tag, op_time; cbn [fst snd].
  assert (Sw : forall c', sound c' h -> sound c' (h ++ [(s, t, now)])).
  { intros c' S' s' v' H. destruct (S' s' v' H) as [n I]. exists n. apply in_or_app. auto. }
  unfold is_duplicate. destruct (cap c =? 0); [apply Sw, S|].
  assert (S2 : sound (rotate (expire_both c now) now) h).
  { unfold rotate, expire_both.
    repeat match goal with |- context [if ?b then _ else _] => destruct b end; cbn;
    intros s' v' H; cbn in H; try (apply S; tauto); try tauto. }
  set (c2 := rotate (expire_both c now) now) in *.
  destruct (lookup s (cur c2)) eqn:E1; [apply Sw, S2|].
  destruct (lookup s (prev c2)) eqn:E2; cbn; intros s' v' H; cbn in H.
  - destruct H as [[H|H]|H].
    + inversion H; subst. apply lookup_in in E2. destruct (S2 s' v' (or_intror E2)) as [n I].
      exists n. apply in_or_app. auto.
    + apply (Sw c2 S2). auto.
    + apply (Sw c2 S2). auto.
  - destruct H as [[H|H]|H].
    + inversion H; subst. exists now. apply in_or_app. right. left. reflexivity.
    + apply (Sw c2 S2). auto.
    + apply (Sw c2 S2). auto.
Qed.

Lemma sound_final (h : list op) : forall c pre, sound c pre -> sound (final c h) (pre ++ h).
Proof.
  induction h as [|o h IH]; intros c pre S; cbn [final]; [rewrite app_nil_r; assumption|].
  replace (pre ++ o :: h) with ((pre ++ [o]) ++ h) by (rewrite <- app_assoc; reflexivity).
  apply IH, sound_step, S.
Qed.

Lemma dup_true_stored (c : cache) s t now :
  fst (is_duplicate c s t now) = true ->
  exists v, tag_conflict v t /\ (In (s, v) (cur c) \/ In (s, v) (prev c)).
Proof.
  unfold is_duplicate. destruct (cap c =? 0); [discriminate|].
  assert (Sub : forall s' v', In (s', v') (cur (rotate (expire_both c now) now)) \/
                              In (s', v') (prev (rotate (expire_both c now) now)) ->
                              In (s', v') (cur c) \/ In (s', v') (prev c)).
  { unfold rotate, expire_both.
    repeat match goal with |- context [if ?b then _ else _] => destruct b end; cbn; tauto. }
  set (c2 := rotate (expire_both c now) now) in *.
  destruct (lookup s (cur c2)) eqn:E1.
  - cbn. intros H. exists t0. split; [apply tag_rule_true, H|]. apply Sub. left. apply lookup_in, E1.
  - destruct (lookup s (prev c2)) eqn:E2; cbn; [|discriminate].
    intros H. exists t0. split; [apply tag_rule_true, H|]. apply Sub. right. apply lookup_in, E2.
Qed.

Lemma replay_no_false_positive (capv iv T0 : Z) (c0 : cache) (h : list op) (s : N) (t : tag) (now : Z) :
  new_cache capv iv T0 = Some c0 ->
  fst (step (final c0 h) (s, t, now)) = true ->
  exists t' now', In (s, t', now') h /\ tag_conflict t' t.
Proof.
  intros E H. apply dup_true_stored in H. destruct H as (v & Hc & Hin).
  assert (S0 : sound c0 []).
  { unfold new_cache in E. destruct (capv <? 0); [discriminate|]. destruct (iv <=? 0); [discriminate|].
    inversion E; subst. intros s' v' [[]|[]]. }
  destruct (sound_final h c0 [] S0 _ _ Hin) as [n I]. exists v, n. auto.
Qed.

(* ------------------------------------------------------------------ no miss: the two-phase invariant *)

Definition others (x : N) (l : list N) : list N := nodup N.eq_dec (remove N.eq_dec x l).
Definition cnt (x : N) (l : list N) : Z := Z.of_nat (length (others x l)).

Lemma cnt_incl (x : N) (l1 l2 : list N) : incl l1 l2 -> cnt x l1 <= cnt x l2.
Proof.
  intros I. unfold cnt. apply inj_le. apply NoDup_incl_length; [apply NoDup_nodup|].
  intros a Ha. unfold others in *. apply nodup_In in Ha. apply nodup_In.
  apply in_remove in Ha. destruct Ha as [Ha Hn]. apply in_in_remove; [assumption|apply I, Ha].
Qed.

Lemma len_le_cnt (x : N) (l l' : list N) : NoDup l -> ~ In x l -> Z.of_nat (length l) <= cnt x (l ++ l').
Proof.
  intros Hn Hx. unfold cnt. apply inj_le. apply NoDup_incl_length; [assumption|].
  intros a Ha. unfold others. apply nodup_In. apply in_in_remove; [intros ->; contradiction|].
  apply in_or_app. auto.
Qed.

Ltac solve_incl :=
  let a := fresh "a" in let Ha := fresh "Ha" in
  intros a Ha; cbn [sigs keys map app In fst] in *; repeat rewrite in_app_iff in *; cbn [In] in *; tauto.

Section Window.
  Variables (x : N) (e : tag) (t0 t1 : Z).

  Definition phaseA (c : cache) (h : list op) : Prop :=
    lookup x (cur c) = Some e /\ t0 <= expire c /\ cnt x (sigs h) < cap c.

  Definition phaseB (c : cache) (h : list op) : Prop :=
    lookup x (cur c) = None /\ lookup x (prev c) = Some e /\ t1 < expire c /\
    cnt x (keys (cur c) ++ sigs h) < cap c.

  Definition inv (c : cache) (h : list op) : Prop :=
    wf c /\ t1 < t0 + interval c /\ (phaseA c h \/ phaseB c h).

  Lemma inv_no_expire (c : cache) (h : list op) (now : Z) :
    inv c h -> t0 <= now <= t1 -> expire_both c now = c.
  Proof.
    intros (W & Hi & [(_ & He & _)|(_ & _ & He & _)]) Hn; unfold expire_both;
      destruct (Z.gtb_spec (now - expire c) (interval c)); try reflexivity; lia.
  Qed.

  Lemma phaseB_no_rotate (c : cache) (h : list op) (now : Z) :
    wf c -> phaseB c h -> now <= t1 -> rotate c now = c.
  Proof.
    intros (Wc & Wi & Wn) (Hx & Hp & He & Hc) Hn. unfold rotate.
    assert (L : Z.of_nat (length (cur c)) <= cnt x (keys (cur c) ++ sigs h)).
    { replace (length (cur c)) with (length (keys (cur c))) by apply map_length.
      apply len_le_cnt; [assumption|apply lookup_none, Hx]. }
    destruct (Z.geb_spec (Z.of_nat (length (cur c))) (cap c)); [lia|].
    destruct (Z.gtb_spec now (expire c)); [lia|reflexivity].
  Qed.

  Lemma inv_step (c : cache) (o : op) (h : list op) :
    inv c (o :: h) -> t0 <= op_time o <= t1 -> inv (snd (step c o)) h.
  Proof.
    intros I Hn. destruct o as [[s t] now].
    unfold op_time in Hn; cbn [snd] in Hn.
    pose proof (inv_no_expire c _ _ I Hn) as Ex.
    destruct I as (W & Hi & Ph).
    pose proof (is_duplicate_wf c s t now W) as W'.
    pose proof (is_duplicate_params c s t now) as [Pc Pi].
    unfold inv, step, op_sig, op_tag, op_time; cbn [fst snd].
    split; [assumption|]. split; [rewrite Pi; assumption|].
    clear W' Pc Pi. destruct W as (Wc & Wi & Wn).
    unfold is_duplicate. destruct (Z.eqb_spec (cap c) 0) as [Z0|_]; [lia|]. rewrite Ex.
    destruct Ph as [(Hx & He & Hc)|PB].
    - (* phase A *)
      unfold rotate.
      destruct ((Z.of_nat (length (cur c)) >=? cap c) || (now >? expire c)) eqn:Rot.
      + (* rotation: x moves to previous *)
        cbn [cur prev lookup].
        destruct (N.eq_dec s x) as [->|Ne].
        * rewrite Hx. cbn [snd]. left. unfold phaseA, with_cur; cbn [cur prev cap expire interval].
          rewrite lookup_cons_eq. split; [reflexivity|]. split; [lia|].
          eapply Z.le_lt_trans; [apply cnt_incl|exact Hc]. solve_incl.
        * right. unfold phaseB.
          assert (G : forall v, lookup x (cur (with_cur (mkCache (cap c) (interval c) (now + interval c) [] (cur c)) [(s, v)])) = None /\
                      lookup x (prev (with_cur (mkCache (cap c) (interval c) (now + interval c) [] (cur c)) [(s, v)])) = Some e /\
                      t1 < expire (with_cur (mkCache (cap c) (interval c) (now + interval c) [] (cur c)) [(s, v)]) /\
                      cnt x (keys (cur (with_cur (mkCache (cap c) (interval c) (now + interval c) [] (cur c)) [(s, v)])) ++ sigs h)
                        < cap (with_cur (mkCache (cap c) (interval c) (now + interval c) [] (cur c)) [(s, v)])).
          { intros v. unfold with_cur; cbn [cur prev cap expire interval].
            rewrite lookup_cons_ne by assumption. cbn [lookup].
            split; [reflexivity|]. split; [assumption|]. split; [lia|]. exact Hc. }
          destruct (lookup s (cur c)); cbn [snd]; apply G.
      + (* no rotation *)
        destruct (lookup s (cur c)) eqn:E1; cbn [snd].
        * left. split; [assumption|]. split; [assumption|].
          eapply Z.le_lt_trans; [apply cnt_incl|exact Hc]. solve_incl.
        * assert (Ne : s <> x) by (intros ->; congruence).
          left. assert (G : forall v, phaseA (with_cur c ((s, v) :: cur c)) h).
          { intros v. unfold phaseA, with_cur; cbn [cur prev cap expire interval].
            rewrite lookup_cons_ne by assumption. split; [assumption|]. split; [assumption|].
            eapply Z.le_lt_trans; [apply cnt_incl|exact Hc]. solve_incl. }
          destruct (lookup s (prev c)); cbn [snd]; apply G.
    - (* phase B *)
      rewrite (phaseB_no_rotate c (((s, t), now) :: h) now (conj Wc (conj Wi Wn)) PB) by lia.
      destruct PB as (Hx & Hp & He & Hc).
      destruct (lookup s (cur c)) eqn:E1; cbn [snd].
      + right. split; [assumption|]. split; [assumption|]. split; [assumption|].
        eapply Z.le_lt_trans; [apply cnt_incl|exact Hc]. solve_incl.
      + destruct (N.eq_dec s x) as [->|Ne].
        * rewrite Hp. cbn [snd]. left. unfold phaseA, with_cur; cbn [cur prev cap expire interval].
          rewrite lookup_cons_eq. split; [reflexivity|]. split; [lia|].
          eapply Z.le_lt_trans; [apply cnt_incl|exact Hc]. solve_incl.
        * right. assert (G : forall v, phaseB (with_cur c ((s, v) :: cur c)) h).
          { intros v. unfold phaseB, with_cur; cbn [cur prev cap expire interval].
            rewrite lookup_cons_ne by assumption. split; [assumption|]. split; [assumption|].
            split; [assumption|].
            eapply Z.le_lt_trans; [apply cnt_incl|exact Hc]. solve_incl. }
          destruct (lookup s (prev c)); cbn [snd]; apply G.
  Qed.

  Lemma inv_final (h : list op) : forall c,
    inv c h -> Forall (fun o => t0 <= op_time o <= t1) h -> inv (final c h) [].
  Proof.
    induction h as [|o h IH]; intros c I F; cbn [final]; [assumption|].
    inversion F; subst. apply IH; [apply inv_step; assumption|assumption].
  Qed.

  (* the query: x is still there, and the answer is the tag rule against the stored tag *)
  Lemma inv_query (c : cache) (h : list op) (tq : tag) (now : Z) :
    inv c h -> t0 <= now <= t1 -> fst (is_duplicate c x tq now) = tag_rule e tq.
  Proof.
    intros I Hn. pose proof (inv_no_expire c _ _ I Hn) as Ex.
    destruct I as (W & Hi & Ph). pose proof W as (Wc & Wi & Wn).
    unfold is_duplicate. destruct (Z.eqb_spec (cap c) 0) as [Z0|_]; [lia|]. rewrite Ex.
    destruct Ph as [(Hx & He & Hc)|PB].
    - unfold rotate.
      destruct ((Z.of_nat (length (cur c)) >=? cap c) || (now >? expire c)); cbn [cur prev lookup].
      + rewrite Hx. reflexivity.
      + rewrite Hx. reflexivity.
    - rewrite (phaseB_no_rotate c h now W PB) by lia.
      destruct PB as (Hx & Hp & He & Hc). rewrite Hx, Hp. reflexivity.
  Qed.
End Window.

(* the presentation at t0 establishes phase A; if it was accepted, the stored tag is its own *)
Lemma inv_init (c : cache) (x : N) (ta : tag) (t0 t1 : Z) (h : list op) :
  wf c -> t0 <= t1 -> t1 < t0 + interval c -> cnt x (sigs h) < cap c ->
  exists e, inv x e t0 t1 (snd (is_duplicate c x ta t0)) h /\
            (fst (is_duplicate c x ta t0) = false -> e = ta) /\
            (exists n, In (x, e, n) [(x, ta, t0)] \/ In (x, e) (cur c) \/ In (x, e) (prev c)).
Proof.
  intros W H01 Hi Hc.
  pose proof (is_duplicate_wf c x ta t0 W) as W'.
  pose proof (is_duplicate_params c x ta t0) as [Pc Pi].
  destruct W as (Wc & Wi & Wn).
  assert (K : forall e,
    lookup x (cur (snd (is_duplicate c x ta t0))) = Some e ->
    t0 <= expire (snd (is_duplicate c x ta t0)) ->
    inv x e t0 t1 (snd (is_duplicate c x ta t0)) h).
  { intros e0 L E. split; [assumption|]. split; [rewrite Pi; assumption|]. left.
    split; [assumption|]. split; [assumption|]. rewrite Pc. assumption. }
  revert K. clear W' Pc Pi.
  unfold is_duplicate. destruct (Z.eqb_spec (cap c) 0) as [Z0|_]; [lia|].
  assert (E2 : t0 <= expire (rotate (expire_both c t0) t0)).
  { unfold rotate, expire_both.
    destruct (Z.gtb_spec (t0 - expire c) (interval c)); cbn [cur cap expire interval].
    - destruct ((Z.of_nat (length (@nil (N * tag))) >=? cap c) || (t0 >? t0 + interval c)); cbn; lia.
    - destruct (Z.geb_spec (Z.of_nat (length (cur c))) (cap c)); cbn [orb]; [cbn; lia|].
      destruct (Z.gtb_spec t0 (expire c)); cbn; lia. }
  assert (Sub : forall s' v', In (s', v') (cur (rotate (expire_both c t0) t0)) \/
                              In (s', v') (prev (rotate (expire_both c t0) t0)) ->
                              In (s', v') (cur c) \/ In (s', v') (prev c)).
  { unfold rotate, expire_both.
    repeat match goal with |- context [if ?b then _ else _] => destruct b end; cbn; tauto. }
  set (c2 := rotate (expire_both c t0) t0) in *.
  destruct (lookup x (cur c2)) eqn:L1; cbn [fst snd].
  - intros K. exists t. split; [apply K; assumption|]. split.
    + intros F. apply tag_rule_false in F. tauto.
    + exists 0. right. apply Sub. left. apply lookup_in, L1.
  - destruct (lookup x (prev c2)) eqn:L2; cbn [fst snd]; intros K.
    + exists t. split; [apply K; [unfold with_cur; cbn [cur]; apply lookup_cons_eq|exact E2]|]. split.
      * intros F. apply tag_rule_false in F. tauto.
      * exists 0. right. apply Sub. right. apply lookup_in, L2.
    + exists ta. split; [apply K; [unfold with_cur; cbn [cur]; apply lookup_cons_eq|exact E2]|]. split; [reflexivity|].
      exists t0. left. left. reflexivity.
Qed.

(* non-decreasing times *)
Fixpoint mono_from (t : Z) (h : list op) : Prop :=
  match h with
  | [] => True
  | o :: h' => t <= op_time o /\ mono_from (op_time o) h'
  end.

Lemma mono_bounds (h : list op) : forall t q,
  mono_from t (h ++ [q]) -> Forall (fun o => t <= op_time o <= op_time q) h /\ t <= op_time q.
Proof.
  induction h as [|o h IH]; intros t q M; cbn [app mono_from] in M.
  - split; [constructor|tauto].
  - destruct M as [M1 M2]. destruct (IH _ _ M2) as [F L]. split; [|lia].
    constructor; [lia|]. eapply Forall_impl; [|exact F]. cbn. intros; lia.
Qed.

(* general form: whatever tag e the cache holds for x after the presentation at t0 is still held at t1 *)
Lemma replay_no_miss_stored (c : cache) (x : N) (ta : tag) (t0 : Z) (h2 : list op) (tq : tag) (t1 : Z) :
  wf c ->
  mono_from t0 (h2 ++ [(x, tq, t1)]) ->
  t1 < t0 + interval c ->
  cnt x (sigs h2) < cap c ->
  exists e,
    fst (step (final c ((x, ta, t0) :: h2)) (x, tq, t1)) = tag_rule e tq /\
    (fst (step c (x, ta, t0)) = false -> e = ta) /\
    (exists n, In (x, e, n) [(x, ta, t0)] \/ In (x, e) (cur c) \/ In (x, e) (prev c)).
Proof.
  intros W M Hi Hc. apply mono_bounds in M. destruct M as [F L]. cbn [op_time snd] in *.
  destruct (inv_init c x ta t0 t1 h2 W L Hi Hc) as (e & I & Ha & Hs).
  exists e. split; [|split; assumption].
  cbn [final]. unfold step at 2. unfold op_sig, op_tag, op_time; cbn [fst snd].
  unfold step at 1. unfold op_sig, op_tag, op_time; cbn [fst snd].
  eapply inv_query; [apply inv_final; [exact I|exact F]|lia].
Qed.

(* the theorem of the property: every history, accepted at t0, replay inside the bounds *)
Lemma replay_no_miss (capv iv T0 : Z) (c0 : cache) (h1 : list op)
      (x : N) (ta : tag) (t0 : Z) (h2 : list op) (tq : tag) (t1 : Z) :
  new_cache capv iv T0 = Some c0 -> capv <> 0 ->
  fst (step (final c0 h1) (x, ta, t0)) = false ->
  mono_from t0 (h2 ++ [(x, tq, t1)]) ->
  t1 < t0 + iv ->
  cnt x (sigs h2) < capv ->
  fst (step (final c0 (h1 ++ (x, ta, t0) :: h2)) (x, tq, t1)) = tag_rule ta tq.
Proof.
  intros E N Acc M Hi Hc.
  destruct (new_cache_wf _ _ _ _ E N) as (W0 & C0 & I0).
  pose proof (final_wf h1 c0 W0) as W1. destruct (final_params h1 c0) as [P1 P2].
  rewrite final_app.
  destruct (replay_no_miss_stored (final c0 h1) x ta t0 h2 tq t1 W1 M) as (e & R & Ha & _);
    [rewrite P2, I0; assumption|rewrite P1, C0; assumption|].
  rewrite R. rewrite (Ha Acc). reflexivity.
Qed.

(* with an empty tag on the query (the stream cache) acceptance at t0 is not even needed *)
Lemma replay_no_miss_empty_tag (capv iv T0 : Z) (c0 : cache) (h1 : list op)
      (x : N) (ta : tag) (t0 : Z) (h2 : list op) (t1 : Z) :
  new_cache capv iv T0 = Some c0 -> capv <> 0 ->
  mono_from t0 (h2 ++ [(x, [], t1)]) ->
  t1 < t0 + iv ->
  cnt x (sigs h2) < capv ->
  fst (step (final c0 (h1 ++ (x, ta, t0) :: h2)) (x, [], t1)) = true.
Proof.
  intros E N M Hi Hc.
  destruct (new_cache_wf _ _ _ _ E N) as (W0 & C0 & I0).
  pose proof (final_wf h1 c0 W0) as W1. destruct (final_params h1 c0) as [P1 P2].
  rewrite final_app.
  destruct (replay_no_miss_stored (final c0 h1) x ta t0 h2 [] t1 W1 M) as (e & R & _ & _);
    [rewrite P2, I0; assumption|rewrite P1, C0; assumption|].
  etransitivity; [exact R|apply tag_rule_empty_r].
Qed.

(* ------------------------------------------------------------------ the pinned code misses (witness) *)

Definition tA : tag := [65%N].
Definition tB : tag := [66%N].
Definition witness_v0 : list op :=
  [ (1%N, [], 0); (2%N, tA, 0); (2%N, tB, 0); (3%N, [], 0); (2%N, tB, 0) ].

Lemma v0_misses_other_source :
  exists (c0 : cache) (h1 h2 : list op) (x : N) (ta tq : tag) (t0 t1 : Z),
    new_cache 2 60 0 = Some c0 /\
    nth 1 (outs_v0 c0 (h1 ++ (x, ta, t0) :: h2 ++ [(x, tq, t1)])) true = false /\   (* accepted at t0 *)
    mono_from t0 (h2 ++ [(x, tq, t1)]) /\ t1 < t0 + 60 /\ cnt x (sigs h2) < 2 /\
    tag_conflict ta tq /\
    last (outs_v0 c0 (h1 ++ (x, ta, t0) :: h2 ++ [(x, tq, t1)])) true = false.      (* the replay passes *)
Proof.
  exists (mkCache 2 60 60 [] []), [(1%N, [], 0)], [(2%N, tB, 0); (3%N, [], 0)], 2%N, tA, tB, 0, 0.
  repeat split; try (vm_compute; congruence); try (cbn; lia).
  right; right. discriminate.
Qed.

(* the same history on the fixed function *)
Lemma fixed_rejects_witness :
  outs (mkCache 2 60 60 [] []) witness_v0 = [false; false; true; false; true].
Proof. vm_compute. reflexivity. Qed.

(* ------------------------------------------------------------------ process-wide parameters and retention *)

Lemma process_caches_enabled : 0 < streamReplayCapacity /\ 0 < packetReplayCapacity.
Proof. unfold streamReplayCapacity, packetReplayCapacity. lia. Qed.

Lemma process_caches_interval :
  streamReplayInterval_ns = 3 * KeyRefreshInterval_ns /\ packetReplayInterval_ns = 3 * KeyRefreshInterval_ns.
Proof. unfold streamReplayInterval_ns, packetReplayInterval_ns, KeyRefreshInterval_ns. lia. Qed.

(* A key slot k is usable by a receiver during less than 3 refresh intervals: if the receiver's
   three slots contain k at t0 and again at t1 >= t0 then t1 lies inside the retention of both caches. *)
Lemma retention_covers_key (k t0 t1 : Z) :
  In k (slots KeyRefreshInterval_ns t0) -> In k (slots KeyRefreshInterval_ns t1) -> t0 <= t1 ->
  t1 < t0 + streamReplayInterval_ns /\ t1 < t0 + packetReplayInterval_ns.
Proof.
  fold R. rewrite !slots_char.
  destruct (epoch_char t0) as [k0 [E0 B0]]. destruct (epoch_char t1) as [k1 [E1 B1]].
  rewrite E0, E1. unfold streamReplayInterval_ns, packetReplayInterval_ns, R, KeyRefreshInterval_ns in *.
  cbn [In]. intros H0 H1 L. lia.
Qed.

(* and the +-1 minute timestamp is shorter still: accepted at t0 and still acceptable at t1 *)
Lemma retention_covers_timestamp (ts t0 t1 : Z) :
  era ts -> era t0 -> era t1 ->
  timestamp_ok t0 ts = true -> timestamp_ok t1 ts = true -> t0 <= t1 ->
  t1 < t0 + streamReplayInterval_ns /\ t1 < t0 + packetReplayInterval_ns.
Proof.
  intros Es E0 E1 H0 H1 L.
  assert (A0 : Z.abs (t0 - ts) < 2 * S60).
  { destruct (Z.lt_ge_cases (Z.abs (t0 - ts)) (2 * S60)) as [|G]; [assumption|].
    pose proof (stale_minute_refused ts (t0 - ts) Es) as X.
    replace (ts + (t0 - ts)) with t0 in X by lia. rewrite (X E0 G) in H0. discriminate. }
  assert (A1 : Z.abs (t1 - ts) < 2 * S60).
  { destruct (Z.lt_ge_cases (Z.abs (t1 - ts)) (2 * S60)) as [|G]; [assumption|].
    pose proof (stale_minute_refused ts (t1 - ts) Es) as X.
    replace (ts + (t1 - ts)) with t1 in X by lia. rewrite (X E1 G) in H1. discriminate. }
  unfold S60, NS, streamReplayInterval_ns, packetReplayInterval_ns in *. lia.
Qed.

(* ------------------------------------------------------------------ non-vacuity *)

Definition c_ex : cache := mkCache 2 100 100 [] [].

(* rotation by size: cap 2; x=7 recorded, then 5 and (rotation) x again from another tag, then 9 *)
Example ex_rotate_by_size :
  outs c_ex [(5%N, [], 0); (7%N, tA, 1); (9%N, [], 2); (7%N, tB, 3)] = [false; false; false; true]
  /\ sizes (final c_ex [(5%N, [], 0); (7%N, tA, 1); (9%N, [], 2)]) = (1, 2).
Proof. vm_compute. split; reflexivity. Qed.

(* rotation by time: query at 150 > expire = 100 rotates; x found in previous; at 260 both generations expire *)
Example ex_rotate_by_time :
  outs c_ex [(7%N, tA, 60); (7%N, tB, 150); (7%N, tB, 155); (7%N, tB, 460)] = [false; true; true; false]
  /\ expire (final c_ex [(7%N, tA, 60); (7%N, tB, 150)]) = 250
  /\ sizes (final c_ex [(7%N, tA, 60); (7%N, tB, 150)]) = (1, 1).
Proof. vm_compute. repeat split; reflexivity. Qed.

(* the hypotheses of replay_no_miss are satisfiable with a rotation inside the window *)
Example ex_no_miss_hyps :
  exists c0, new_cache 2 100 0 = Some c0 /\
    fst (step (final c0 [(5%N, [], 0)]) (7%N, tA, 1)) = false /\
    mono_from 1 ([(9%N, [], 2)] ++ [(7%N, tB, 3)]) /\ 3 < 1 + 100 /\ cnt 7%N (sigs [(9%N, [], 2)]) < 2 /\
    tag_rule tA tB = true.
Proof. exists c_ex. vm_compute. repeat split; congruence. Qed.

(* same tag: the retransmission from the same address is let through (tag rule), also across a rotation *)
Example ex_same_tag_passes :
  outs c_ex [(5%N, [], 0); (7%N, tA, 1); (9%N, [], 2); (7%N, tA, 3); (7%N, tB, 3)] = [false; false; false; false; true].
Proof. vm_compute. reflexivity. Qed.

(* ------------------------------------------------------------------ management reloads *)

Lemma set_users_spec (s : server) (g : N) : s_rc (set_users s g) = s_rc s /\ s_users (set_users s g) = g.
Proof. split; reflexivity. Qed.

Lemma presents_app (h1 h2 : list sop) : presents (h1 ++ h2) = presents h1 ++ presents h2.
Proof.
  induction h1 as [|[o|g] h1 IH]; cbn [presents app]; [reflexivity| |assumption].
  rewrite IH. reflexivity.
Qed.

(* the cache after a history with reloads is the cache after its traffic alone *)
Lemma sfinal_cache (h : list sop) : forall s, s_rc (sfinal s h) = final (s_rc s) (presents h).
Proof.
  induction h as [|[o|g] h IH]; intros s; cbn [sfinal presents final]; [reflexivity| |].
  - rewrite IH. unfold sstep. destruct (step (s_rc s) o) as [b c]. reflexivity.
  - rewrite IH. reflexivity.
Qed.

(* the users generation after a history is that of its last reload *)
Fixpoint last_reload (g0 : N) (h : list sop) : N :=
  match h with
  | [] => g0
  | Present _ :: h' => last_reload g0 h'
  | Reload g :: h' => last_reload g h'
  end.

Lemma sfinal_users (h : list sop) : forall s, s_users (sfinal s h) = last_reload (s_users s) h.
Proof.
  induction h as [|[o|g] h IH]; intros s; cbn [sfinal last_reload]; [reflexivity| |].
  - rewrite IH. unfold sstep. destruct (step (s_rc s) o). reflexivity.
  - rewrite IH. reflexivity.
Qed.

(* no-miss over histories interleaved with reloads *)
Lemma replay_no_miss_across_reload (capv iv T0 : Z) (c0 : cache) (g0 : N) (hs1 : list sop)
      (x : N) (ta : tag) (t0 : Z) (hs2 : list sop) (tq : tag) (t1 : Z) :
  new_cache capv iv T0 = Some c0 -> capv <> 0 ->
  fst (sstep (sfinal (mkServer g0 c0) hs1) (Present (x, ta, t0))) = Some false ->
  mono_from t0 (presents hs2 ++ [(x, tq, t1)]) ->
  t1 < t0 + iv ->
  cnt x (sigs (presents hs2)) < capv ->
  fst (sstep (sfinal (mkServer g0 c0) (hs1 ++ Present (x, ta, t0) :: hs2)) (Present (x, tq, t1))) = Some (tag_rule ta tq).
Proof.
  intros E N Acc M Hi Hc.
  assert (Q : forall s o, fst (sstep s (Present o)) = Some (fst (step (s_rc s) o))).
  { intros s o. unfold sstep. destruct (step (s_rc s) o). reflexivity. }
  rewrite Q in Acc. rewrite Q. rewrite sfinal_cache in *. cbn [s_rc] in *.
  rewrite presents_app. cbn [presents]. f_equal.
  apply (replay_no_miss capv iv T0 c0 (presents hs1) x ta t0 (presents hs2) tq t1 E N); try assumption.
  inversion Acc. reflexivity.
Qed.

Example ex_reload_between :
  let s0 := mkServer 0 c_ex in
  let h := [Present (5%N, [], 0); Present (7%N, tA, 1); Reload 1; Present (9%N, [], 2); Reload 2; Reload 3] in
  fst (sstep (sfinal s0 h) (Present (7%N, tB, 3))) = Some true /\ s_users (sfinal s0 h) = 3%N /\
  presents h = [(5%N, [], 0); (7%N, tA, 1); (9%N, [], 2)].
Proof. vm_compute. repeat split; reflexivity. Qed.
