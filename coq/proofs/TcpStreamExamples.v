(* C01 - non-vacuity: the theorems of proofs/TcpStreamProofs.v applied to concrete instances (toy codecs of
   TcpStreamProofs.v: t_seal ... t_le_decode), and the plan boundaries at the fragment sizes. *)
From Coq Require Import List NArith ZArith Bool Arith Lia.
From Coq Require Import ZifyN ZifyNat ZifyBool.
From M Require Import gen.Consts model.TcpStream proofs.TcpStreamProofs.
Import ListNotations.
Open Scope N_scope.

(* ------------------------------------------------------------------ mode_ok without unary arithmetic *)
Lemma mode_ok_0 : mode_ok 0.
Proof. unfold mode_ok, frag_size. rewrite N.eqb_refl. exact maxPDU_pos. Qed.
Lemma mode_ok_1 : mode_ok 1.
Proof.
  unfold mode_ok, frag_size. change (1 =? 0) with false. cbv iota.
  apply Nat.min_glb_lt; [exact maxPDU_pos|].
  replace (Z.to_N C01_MaxUint16 / leChunkLen * le_src_bytes 1) with 32764 by (vm_compute; reflexivity). lia.
Qed.

(* fragment sizes and fragment counts at the boundaries (numbers in N) *)
Example ex_boundaries :
  (N.of_nat (frag_size 0), N.of_nat (frag_size 1), N.of_nat (frag_size 2),
   N.of_nat (nfrag (frag_size 1) (N.to_nat 32764)), N.of_nat (nfrag (frag_size 1) (N.to_nat 32765)),
   N.of_nat (nfrag (frag_size 1) (N.to_nat 32768)), N.of_nat (nfrag (frag_size 0) (N.to_nat 32768)))
  = (32768, 32764, 32768, 1, 2, 2, 1).
Proof. vm_compute. reflexivity. Qed.

(* Session.Write at the fragment size boundaries: MODE_32 (fragment 32764) and plain (32768 = maxPDU) *)
Example ex_plan_mode32_32764 :
  pview (plan_events false (mkW 5 false) [WWrite 1 (zerosN 32764)]) = [(11, 5, 0, 32764)].
Proof. vm_compute. reflexivity. Qed.
Example ex_plan_mode32_32768 :
  pview (plan_events false (mkW 5 false) [WWrite 1 (zerosN 32768)]) = [(11, 5, 1, 32764); (11, 6, 0, 4)].
Proof. vm_compute. reflexivity. Qed.
Example ex_plan_32769 :
  pview (plan_events false w_init [WCtl pOpenResp; WWrite 0 (zerosN 32769)]) = [(3, 0, 0, 0); (7, 1, 0, 32768); (7, 2, 0, 1)].
Proof. vm_compute. reflexivity. Qed.

(* ------------------------------------------------------------------ plan_concat applied *)
Definition ex_evs : list wevent := [WWrite 0 (zerosN 1025); WCtl pCloseReq; WWrite 1 [1; 2; 3]].
Lemma ex_evs_ok : Forall wevent_ok ex_evs.
Proof.
  constructor; [exact mode_ok_0|]. constructor; [reflexivity|]. constructor; [exact mode_ok_1|]. constructor.
Qed.
Example ex_plan_concat :
  let l := plan_events true w_init ex_evs in
  concat (map p_payload l) = written ex_evs /\ seqs_from 0 l /\ Forall pseg_ok l /\ frag_chain l.
Proof. apply plan_concat. exact ex_evs_ok. Qed.
Example ex_plan_concat_computes :
  pview (plan_events true w_init ex_evs) = [(2, 0, 0, 0); (6, 1, 0, 1025); (4, 2, 0, 0); (10, 3, 0, 3)].
Proof. vm_compute. reflexivity. Qed.

(* ------------------------------------------------------------------ tcp_integrity applied: two sessions *)
Definition ex_a : list wevent := [WWrite 0 [1; 2; 3]; WWrite 0 [4]].
Definition ex_b : list wevent := [WWrite 0 (zerosN 1025)].
Definition realize (sid : N) (pads : list N) (p : pseg) : segment :=
  mk_seg (p_proto p) sid (p_seq p) (p_frag p) (p_payload p) pads pads.
Definition ex_sa : list segment := map (realize 5 [7]) (plan_events true w_init ex_a).
Definition ex_sb : list segment := map (realize 9 []) (plan_events true w_init ex_b).
Definition ex_ss : list sess := [(5, ex_a, ex_sa); (9, ex_b, ex_sb)].
Definition dseg := mk_seg 0 0 0 0 [] [] [].
Definition ex_wire : list segment := [nth 0 ex_sb dseg; nth 0 ex_sa dseg; nth 1 ex_sb dseg; nth 1 ex_sa dseg].
Definition ex_stream : list N := serialize t_seal t_marshal t_le_len t_le_encode false ex_n0 ex_wire.
Definition ex_chunks : list (list N) := [firstn 1 ex_stream; firstn 70 (skipn 1 ex_stream); skipn 71 ex_stream].

Lemma realize_ok : forall sid pads l, Forall2 (realizes sid) (map (realize sid pads) l) l.
Proof. induction l; cbn [map]; constructor; [repeat split|assumption]. Qed.

Lemma skipn_skipn_ {A} : forall b a (l : list A), skipn a (skipn b l) = skipn (b + a) l.
Proof. induction b; intros a l; [reflexivity|]. destruct l; [cbn; destruct a; reflexivity|]. cbn. apply IHb. Qed.

Ltac seg_ok_tac := split; [reflexivity | split; [vm_compute; reflexivity | intros H; vm_compute in H; discriminate H]].

Example ex_integrity :
  r_failed (snd (feed_all t_open t_parse t_le_decode r_init ex_chunks)) = false /\
  forall t, In t ex_ss ->
    let q := map snd (recv_queue (demux (sess_id t) (fst (feed_all t_open t_parse t_le_decode r_init ex_chunks)))) in
    let w := written (snd (fst t)) in
    concat q = w /\
    (forall ks, concat (read_all ks q) = firstn (sum_nat ks) w) /\
    (forall ks, (length w <= sum_nat ks)%nat -> concat (read_all ks q) = w) /\
    (forall sched more, arrivals_of sched ++ more = q -> exists rest, concat (run_reads (mkRd [] []) sched) ++ rest = w).
Proof.
  apply (tcp_integrity t_seal t_open t_marshal t_parse t_le_len t_le_encode t_le_decode t_ok t_okle
           t_seal_len t_open_seal t_marshal_len t_parse_marshal t_le_encode_len t_le_round true ex_ss ex_wire ex_n0 ex_chunks).
  - constructor; [|constructor; [|constructor]]; (split; [|apply realize_ok]).
    + constructor; [exact mode_ok_0|]. constructor; [exact mode_ok_0|constructor].
    + constructor; [exact mode_ok_0|constructor].
  - constructor; [cbn; intros [H|[]]; discriminate H|]. constructor; [cbn; intros []|constructor].
  - change (map snd ex_ss) with [ex_sa; ex_sb].
    assert (Ea : ex_sa = [nth 0 ex_sa dseg; nth 1 ex_sa dseg]) by (vm_compute; reflexivity).
    assert (Eb : ex_sb = [nth 0 ex_sb dseg; nth 1 ex_sb dseg]) by (vm_compute; reflexivity).
    rewrite Ea, Eb. unfold ex_wire.
    set (a0 := nth 0 ex_sa dseg). set (a1 := nth 1 ex_sa dseg). set (b0 := nth 0 ex_sb dseg). set (b1 := nth 1 ex_sb dseg).
    apply (il_cons [[a0; a1]] b0 [b1] []). apply (il_cons [] a0 [a1] [[b1]]).
    apply (il_cons [[a1]] b1 [] []). apply (il_cons [] a1 [] [[]]).
    apply il_nil. constructor; [reflexivity|]. constructor; [reflexivity|constructor].
  - unfold ex_wire. constructor; [seg_ok_tac|]. constructor; [seg_ok_tac|]. constructor; [seg_ok_tac|].
    constructor; [seg_ok_tac|constructor].
  - reflexivity.
  - change (concat ex_chunks = ex_stream). unfold ex_chunks. cbn [concat]. rewrite app_nil_r.
    generalize ex_stream. intros s.
    assert (E : skipn 71 s = skipn 70 (skipn 1 s)) by (symmetry; apply (skipn_skipn_ 1 70 s)).
    rewrite E, firstn_skipn. apply firstn_skipn.
Qed.

(* what the theorem gives on that instance, computed: session 5 reads its 4 bytes with reads of 3 and 9 *)
Example ex_integrity_computes :
  read_all [3%nat; 9%nat] (map snd (recv_queue (demux 5 (fst (feed_all t_open t_parse t_le_decode r_init ex_chunks)))))
  = [[1; 2; 3]; [4]].
Proof. vm_compute. reflexivity. Qed.

(* ------------------------------------------------------------------ tamper_prefix applied *)
Fixpoint list_eqb (a b : list N) : bool :=
  match a, b with
  | [], [] => true
  | x :: a', y :: b' => (x =? y) && list_eqb a' b'
  | _, _ => false
  end.
Lemma list_eqb_eq : forall a b, list_eqb a b = true -> a = b.
Proof.
  induction a as [|x a IH]; intros [|y b] H; cbn in H; try discriminate; [reflexivity|].
  apply andb_true_iff in H. destruct H as [H1 H2]. apply N.eqb_eq in H1. rewrite (IH _ H2), H1. reflexivity.
Qed.
Lemma list_eqb_refl : forall a, list_eqb a a = true.
Proof. induction a; cbn; [reflexivity|]. rewrite N.eqb_refl, IHa. reflexivity. Qed.
Fixpoint nodupb (l : list (list N)) : bool :=
  match l with [] => true | x :: t => negb (existsb (list_eqb x) t) && nodupb t end.
Lemma nodupb_sound : forall l, nodupb l = true -> NoDup l.
Proof.
  induction l as [|x t IH]; intros H; [constructor|]. cbn in H. apply andb_true_iff in H. destruct H as [H1 H2].
  constructor; [|apply IH; exact H2]. intros Hin. apply negb_true_iff in H1.
  assert (existsb (list_eqb x) t = true) by (apply existsb_exists; exists x; split; [exact Hin|apply list_eqb_refl]).
  congruence.
Qed.

(* the boxes the sender sealed for ex_segs, and an AEAD whose `open` accepts exactly those (INT-CTXT by construction) *)
Definition ex_L : list (list N * list N) := sealed t_marshal t_le_len ex_n0 ex_segs.
Definition tbl_open (n c : list N) : option (list N) :=
  match find (fun e => list_eqb (fst e) n && list_eqb (t_seal (fst e) (snd e)) c) ex_L with
  | Some e => Some (snd e)
  | None => None
  end.
Lemma tbl_int_ctxt : forall n c p, tbl_open n c = Some p -> In (n, p) ex_L.
Proof.
  intros n c p H. unfold tbl_open in H.
  destruct (find _ ex_L) as [[m q]|] eqn:F; [|discriminate H]. inversion H; subst.
  apply find_some in F. destruct F as [Hin Ht]. cbn [fst snd] in *.
  apply andb_true_iff in Ht. destruct Ht as [Ht _]. apply list_eqb_eq in Ht. subst. exact Hin.
Qed.
Definition ex_x : list N := serialize t_seal t_marshal t_le_len t_le_encode false ex_n0 ex_segs.

Example ex_tamper :
  forall x x1, take nonceLen x = Some (ex_n0, x1) ->
    (exists k, fst (feed tbl_open t_parse t_le_decode r_init x) = firstn k (map (deliver t_le_len) ex_segs)) /\
    (forall y, r_failed (snd (feed tbl_open t_parse t_le_decode r_init x)) = true ->
               fst (feed tbl_open t_parse t_le_decode (snd (feed tbl_open t_parse t_le_decode r_init x)) y) = []).
Proof.
  apply (tamper_prefix tbl_open t_marshal t_parse t_le_len t_le_decode t_ok t_okle t_parse_marshal ex_n0 ex_segs).
  - exact tbl_int_ctxt.
  - apply nodupb_sound. vm_compute. reflexivity.
  - exact ex_segs_ok.
Qed.
(* the premise about x is satisfiable, and the conclusion is not trivial: the honest stream delivers everything,
   the stream with one payload byte of the second segment altered delivers exactly the first segment *)
Example ex_tamper_computes :
  take nonceLen ex_x = Some (ex_n0, skipn 24 ex_x) /\
  fst (feed tbl_open t_parse t_le_decode r_init ex_x) = map (deliver t_le_len) ex_segs /\
  (let bad := firstn 143 ex_x ++ [77] ++ skipn 144 ex_x in
   nth 143 ex_x 0 = 4 /\
   fst (feed tbl_open t_parse t_le_decode r_init bad) = firstn 1 (map (deliver t_le_len) ex_segs) /\
   r_failed (snd (feed tbl_open t_parse t_le_decode r_init bad)) = true).
Proof. vm_compute. repeat split; reflexivity. Qed.
